#!/usr/bin/env python3
"""check.py <property id> [--tier quick|thorough] [--replay FILE]

exit 0  the property held on everything explored (KNOWN-FINDING lines may be printed)
exit 1  a line `VIOLATION property=<id> replay=<path>` was printed
exit 2  infrastructure failure / timeout (never a VIOLATION line)
"""
import os, sys, argparse, traceback

HERE = os.path.dirname(os.path.abspath(__file__))
PY = "/venv/bin/python"
if os.path.exists(PY) and os.path.realpath(sys.executable) != os.path.realpath(PY) and not os.environ.get("ACRA_NO_REEXEC"):
    os.environ["ACRA_NO_REEXEC"] = "1"
    os.execv(PY, [PY] + sys.argv)
sys.path.insert(0, HERE)

def main():
    ap = argparse.ArgumentParser()
    ap.add_argument("pid")
    ap.add_argument("--tier", default=os.environ.get("VERIF_TIER", "quick"), choices=["quick", "thorough"])
    ap.add_argument("--replay")
    a = ap.parse_args()
    os.chdir(HERE)
    from harness import core, runner
    import harness.adapters
    try:
        if a.replay:
            return runner.run_replay(a.pid, a.replay)
        return runner.run_check(a.pid, a.tier, core.seed_from_env())
    except SystemExit:
        raise
    except BaseException as e:
        traceback.print_exc()
        print("INFRASTRUCTURE-ERROR property=%s %r" % (a.pid, e))
        return 2

if __name__ == "__main__":
    sys.exit(main())
