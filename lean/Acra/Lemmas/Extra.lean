/-
  Helper lemmas for the `extra` family: closed forms of the straight-line decoders on buffers that are long
  enough, the error kinds of the calendar step, the UTF-8 length bound.
-/
import Acra.Model.ExtraMpeg
import Acra.Model.ExtraMisc
namespace Acra.Lemmas.Extra
open Acra.Py Acra.Py.Float Acra.Model.Extra
open Acra.Gen.ExtraH264 Acra.Gen.ExtraADTS Acra.Gen.ExtraSEI Acra.Gen.ExtraPA Acra.Gen.ExtraNet
open Acra.Model.Ch11Pay.TimeFmt

theorem fromTimestamp_error (s : Int) (e : Err) (h : fromTimestamp s = .error e) : e = .value := by
  unfold fromTimestamp at h
  simp only at h
  split at h
  · simp at h; exact h.symm
  · split at h
    · simp at h; exact h.symm
    · simp at h

theorem fromTimestampF_error (x : Rat) (e : Err) (h : fromTimestampF x = .error e) : e = .value := by
  unfold fromTimestampF at h
  cases hf : fromTimestamp ((splitSeconds x).1 : Int) with
  | error e' =>
    rw [hf] at h
    have : e' = e := by simpa [Except.map] using h
    subst this; exact fromTimestamp_error _ _ hf
  | ok v => rw [hf] at h; simp [Except.map] at h

/-! ### ADTS -/

/-- what `ADTS.unpack` does once the seven header bytes have been read -/
def adtsFinish (t : ADTS) (buf : Bytes) (w0 w1 w2 w3 w4 w5 : Nat) : ADTS × R Unit :=
  if ((w1 >>> 4) <<< 8) + w0 ≠ ADTS_SYNC then (t, .error .generic) else
  ({ t with sampling_freq := (w2 >>> 2) &&& 0xF, no_crc := (w1 &&& 1) != 0,
            length := (w5 >>> 5) + (w4 <<< 3) + ((w3 &&& 0x3) <<< 11),
            aac := if (w1 &&& 1) != 0 then buf.drop 7 else buf.drop 9 }, .ok ())

theorem ADTS_unpack_cons (t : ADTS) (b0 b1 b2 b3 b4 b5 b6 : UInt8) (rest : Bytes) :
    ADTS.unpack t (b0 :: b1 :: b2 :: b3 :: b4 :: b5 :: b6 :: rest) =
      adtsFinish t (b0 :: b1 :: b2 :: b3 :: b4 :: b5 :: b6 :: rest)
        b0.toNat b1.toNat b2.toNat b3.toNat b4.toNat b5.toNat := by
  simp [ADTS.unpack, structUnpackFrom, ADTS_unpack_fmt0, Fmt.size, codesSize, Code.size, unpackCodes, decInt, beNat,
    leNat, adtsFinish]

theorem ADTS_unpack_short (t : ADTS) (buf : Bytes) (h : buf.length < 7) : ADTS.unpack t buf = (t, .error .struct) := by
  have : ¬ (0 + 7 ≤ buf.length) := by omega
  simp [ADTS.unpack, structUnpackFrom, ADTS_unpack_fmt0, Fmt.size, codesSize, Code.size, this]

/-! ### ParserAligned.ARINC429 -/

/-- the label table answers for every byte value -/
theorem label_total (b : UInt8) : ∃ l, A429_LABEL_REVERSE[b.toNat]? = some l := by
  have h1 : A429_LABEL_REVERSE.length = 257 := by decide +kernel
  have h2 := b.toNat_lt
  have : b.toNat < A429_LABEL_REVERSE.length := by omega
  exact ⟨A429_LABEL_REVERSE[b.toNat], List.getElem?_eq_getElem this⟩

/-- the object a four-byte message decodes to -/
def a429Of (b1 b2 b3 : UInt8) (l : Nat) : A429 :=
  { parity := .float ((b1.toNat : Rat) / 128),
    ssm := .float (ratMod ((b1.toNat : Rat) / 32) 4),
    data := .float ((((b1.toNat % 32) * 256 + b2.toNat) * 64 : Nat) + (b3.toNat : Rat) / 4),
    sdi := .int (b3.toNat % 4),
    label := .int l }

theorem A429_unpack_cons (t : A429) (b1 b2 b3 b4 : UInt8) :
    ∃ l, A429_LABEL_REVERSE[b4.toNat]? = some l ∧ A429.unpack t [b1, b2, b3, b4] = (a429Of b1 b2 b3 l, .ok ()) := by
  obtain ⟨l, hl⟩ := label_total b4
  refine ⟨l, hl, ?_⟩
  simp [A429.unpack, A429_MESSAGE_LEN, structUnpack, A429_unpack_fmt0, Fmt.size, codesSize, Code.size, unpackCodes,
    decInt, leNat, hl, a429Of]

theorem A429_unpack_badlen (t : A429) (buf : Bytes) (h : buf.length ≠ 4) : A429.unpack t buf = (t, .error .value) := by
  simp [A429.unpack, A429_MESSAGE_LEN, h]

theorem len4 (buf : Bytes) (h : buf.length = 4) : ∃ b1 b2 b3 b4, buf = [b1, b2, b3, b4] := by
  match buf, h with
  | [b1, b2, b3, b4], _ => exact ⟨b1, b2, b3, b4, rfl⟩

/-! ### UTF-8 -/

theorem utf8Len_le_aux : ∀ (k : Nat) (buf : Bytes), buf.length ≤ k → ∀ n, utf8Len buf = some n → n ≤ buf.length := by
  intro k
  induction k with
  | zero =>
    intro buf hk n h
    match buf, hk with
    | [], _ => simp [utf8Len] at h; omega
  | succ k ih =>
    intro buf hk n h
    match buf with
    | [] => simp [utf8Len] at h; omega
    | b0 :: rest =>
      have step : ∀ (r : Bytes), r.length ≤ rest.length → Option.map (fun x => x + 1) (utf8Len r) = some n →
          n ≤ (b0 :: rest).length := by
        intro r hr hm
        cases hu : utf8Len r with
        | none => simp [hu] at hm
        | some m =>
          simp [hu] at hm
          have := ih r (by simp at hk; omega) m hu
          simp; omega
      unfold utf8Len at h
      simp only at h
      repeat' split at h
      all_goals first
        | (simp at h; done)
        | exact step _ (by simp <;> omega) h

theorem utf8Len_le (buf : Bytes) (n : Nat) (h : utf8Len buf = some n) : n ≤ buf.length :=
  utf8Len_le_aux buf.length buf (Nat.le_refl _) n h

end Acra.Lemmas.Extra
