/-
  The converse of `frames_exact` (C18): when the frame length the code infers from the first SAM/DEC packet is not
  the common frame length `L`, the decommutator does NOT return the frames carried.  Every frame it yields with
  `frame_length = x` has `x` bytes, and `frame_length` never changes once set (it can only become None, which ends
  the iteration with TypeError), so all frames returned have the inferred length — but the first frame carried has
  `L` bytes.
-/
import Acra.Lemmas.SamDec
import Acra.Lemmas.SamDecTotal
namespace Acra.Lemmas.SamDec
open Acra.Py Acra.Model.SamDec Acra.Model.Search Acra.Gen.SamDec Acra.Spec Acra.Spec.SamDec

/-- result of a step run with `frame_length = x`: every frame yielded has `x` bytes, and the step either keeps
    `frame_length = x` or ends the iteration with an exception -/
def LenOut (x : Int) (r : List Bytes × Option Int × Option Err) : Prop :=
  (∀ f ∈ r.1, (f.length : Int) = x) ∧ (r.2.1 = some x ∨ r.2.2 ≠ none)

theorem sliceLoop_none_any (sync payload : Bytes) (fuel : Nat) (off : Int) :
    (sliceLoop sync payload fuel off none).1 = [] ∧ (sliceLoop sync payload fuel off none).2.2 ≠ none := by
  cases fuel <;> simp [sliceLoop]

theorem sliceLoop_lenOut (sync payload : Bytes) (x : Int) (hx : 1 ≤ x) :
    ∀ (fuel : Nat) (off : Int), 0 ≤ off → LenOut x (sliceLoop sync payload fuel off (some x))
  | 0, _, _ => by simp [sliceLoop, LenOut]
  | fuel + 1, off, hoff => by
    unfold sliceLoop
    by_cases hc : off + x ≤ payload.length
    · rw [if_pos hc]
      simp only
      by_cases hs : ((pySlice payload off (off + x)).take 4 != sync) = true
      · rw [if_pos hs]
        have := sliceLoop_none_any sync payload fuel (off + x)
        exact ⟨by rw [this.1]; simp, Or.inr this.2⟩
      · rw [if_neg hs]
        have ih := sliceLoop_lenOut sync payload x hx fuel (off + x) (by omega)
        refine ⟨?_, ih.2⟩
        intro f hf
        simp only [List.mem_cons] at hf
        rcases hf with rfl | hf
        · obtain ⟨o, rfl⟩ := Int.eq_ofNat_of_zero_le hoff
          obtain ⟨l, rfl⟩ := Int.eq_ofNat_of_zero_le (show 0 ≤ x by omega)
          rw [show ((o : Int) + (l : Int)) = ((o + l : Nat) : Int) by omega, pySlice_nat, slice_length]
          omega
        · exact ih.1 f hf
    · rw [if_neg hc]
      exact ⟨by simp, Or.inl rfl⟩

open Acra.Model in
theorem onPacket_lenOut (udp : Bytes) (x : Int) (hx : 1 ≤ x) : LenOut x (onPacket syncWord udp (some x)) := by
  unfold onPacket
  rcases iNetX.unpack iNetX.fresh udp with ⟨st, r⟩
  cases r with
  | error e => exact ⟨by simp, Or.inl rfl⟩
  | ok u =>
    simp only
    split
    · exact sliceLoop_lenOut syncWord st.payload x hx _ _ (by simp [SamDec_PCM_HDR_LEN])
    · exact ⟨by simp, Or.inl rfl⟩

/-- once `frame_length = x` every frame of the rest of the iteration has `x` bytes -/
theorem framesLoop_lengths (udps : List Bytes) (x : Int) (hx : 1 ≤ x) :
    ∀ f ∈ (framesLoop syncWord udps (some x)).1, (f.length : Int) = x := by
  induction udps with
  | nil => simp [framesLoop]
  | cons u us ih =>
    have hg := onPacket_lenOut u x hx
    unfold framesLoop
    rcases hr : onPacket syncWord u (some x) with ⟨fs, fl', e⟩
    rw [hr] at hg
    cases e with
    | some e => exact hg.1
    | none =>
      simp only
      rcases hg.2 with h | h
      · simp only at h
        subst h
        intro f hf
        simp only [List.mem_append] at hf
        rcases hf with hf | hf
        · exact hg.1 f hf
        · exact ih f hf
      · exact absurd rfl h

/-- the length inferred from a packet of `k ≥ 1` frames of `L ≥ 1` bytes is positive -/
theorem inferLength_pos (payload : Bytes) (k L : Nat) (hk : 1 ≤ k) (hL : 1 ≤ L) (hlen : payload.length = 10 + k * L)
    (x : Int) (h : inferLength syncWord payload = .ok x) : 1 ≤ x := by
  unfold inferLength at h
  rw [Acra.Lemmas.Search.bmh_eq_occ payload syncWord (by simp [syncWord])] at h
  match hocc : occ payload syncWord with
  | [] => rw [hocc] at h; simp at h
  | [o0] =>
    rw [hocc] at h
    simp only [List.map_cons, List.map_nil, SamDec_PCM_HDR_LEN, Except.ok.injEq, Int.ofNat_eq_natCast] at h
    have := Nat.le_mul_of_pos_left L (show 0 < k by omega)
    omega
  | o0 :: o1 :: rest =>
    rw [hocc] at h
    simp only [List.map_cons, Except.ok.injEq, Int.ofNat_eq_natCast] at h
    have := occ_second_gt _ _ _ _ _ hocc
    omega

open Acra.Model in
/-- the first SAM/DEC packet, met with `frame_length = None`, when the inferred length is not `L` -/
theorem framesLoop_first_bad (L : Nat) (l : Bytes) (c s a b p : Nat) (h : Bytes) (fs : List Bytes)
    (hwf : Item.WF L (.samdec l c s a b p h fs))
    (hbad : inferLength syncWord (h ++ fs.flatten) ≠ .ok (L : Int)) (us : List Bytes) (X : List Bytes) :
    framesLoop syncWord (datagram c s a b p h fs :: us) none ≠ (fs ++ X, none) := by
  obtain ⟨hl, h17, hc, hs, ha, hb, hp, hh, hne, hfs, hsz⟩ := hwf
  have hflat := flatten_length_const L fs (fun f hf => (hfs f hf).1)
  obtain ⟨f, fs', rfl⟩ := List.exists_cons_of_ne_nil hne
  obtain ⟨hfl, hfsync⟩ := hfs f (by simp)
  have hL : 4 ≤ L := by
    have := congrArg List.length hfsync
    simp [syncWord] at this
    omega
  have hplen : (h ++ (f :: fs').flatten).length = 10 + (f :: fs').length * L := by
    rw [List.length_append, hh, hflat]
  obtain ⟨st, hu, hsid, hpay⟩ := unpack_encode c streamId s a b p (h ++ (f :: fs').flatten) hc (by decide) hs ha hb hp
    (by rw [hplen]; omega)
  have hst : (st.streamid == SamDec_streamid) = true := by rw [hsid]; rfl
  have hon : onPacket syncWord (datagram c s a b p h (f :: fs')) none =
      match inferLength syncWord (h ++ (f :: fs').flatten) with
      | .error e => ([], none, some e)
      | .ok fl => sliceLoop syncWord (h ++ (f :: fs').flatten) ((h ++ (f :: fs').flatten).length + 2) SamDec_PCM_HDR_LEN (some fl) := by
    unfold onPacket datagram
    rw [hu]
    simp only [hst, if_true, hpay]
    rfl
  unfold framesLoop
  rw [hon]
  cases hinf : inferLength syncWord (h ++ (f :: fs').flatten) with
  | error e => simp
  | ok x =>
    have hx1 : 1 ≤ x := inferLength_pos _ (f :: fs').length L (by simp) (by omega) hplen x hinf
    have hxL : x ≠ (L : Int) := by
      intro hxl
      rw [hinf, hxl] at hbad
      exact hbad rfl
    have hg := sliceLoop_lenOut syncWord (h ++ (f :: fs').flatten) x hx1
      ((h ++ (f :: fs').flatten).length + 2) SamDec_PCM_HDR_LEN (by simp [SamDec_PCM_HDR_LEN])
    simp only
    rcases hr : sliceLoop syncWord (h ++ (f :: fs').flatten) ((h ++ (f :: fs').flatten).length + 2)
      SamDec_PCM_HDR_LEN (some x) with ⟨gs, fl', e⟩
    rw [hr] at hg
    cases e with
    | some e => simp
    | none =>
      simp only
      rcases hg.2 with h2 | h2
      · simp only at h2
        subst h2
        intro heq
        have h1 := congrArg Prod.fst heq
        simp only at h1
        have hmem : f ∈ gs ++ (framesLoop syncWord us (some x)).1 := by rw [h1]; simp
        simp only [List.mem_append] at hmem
        have : (f.length : Int) = x := by
          rcases hmem with hm | hm
          · exact hg.1 f hm
          · exact framesLoop_lengths us x hx1 f hm
        omega
      · exact absurd rfl h2

/-- the main induction of the converse: with `frame_length = None` and a first SAM/DEC packet on which the
    inferred length is not `L`, the frames carried are not what comes back -/
theorem framesLoop_items_conv (L : Nat) (items : List Item) (hwf : ∀ it ∈ items, it.WF L)
    (hbad : ¬ FirstLen L items) :
    framesLoop syncWord ((items.map Item.bytes).filterMap udpData) none ≠ (items.flatMap Item.frames, none) := by
  induction items with
  | nil => exact absurd trivial hbad
  | cons it items ih =>
    have ihh := ih (fun x hx => hwf x (by simp [hx]))
    cases it with
    | foreign pkt =>
      have hf : Foreign pkt := (hwf (.foreign pkt) (by simp)).1
      have hbad' : ¬ FirstLen L items := hbad
      simp only [List.map_cons, Item.bytes, List.flatMap_cons, Item.frames, List.nil_append]
      rcases onPacket_foreign pkt hf none with h | ⟨d, h1, h2⟩
      · rw [List.filterMap_cons_none h]
        exact ihh hbad'
      · rw [List.filterMap_cons_some h1]
        simp only [framesLoop, h2]
        intro heq
        apply ihh hbad'
        rcases hr : framesLoop syncWord (List.filterMap udpData (List.map Item.bytes items)) none with ⟨gs, e⟩
        rw [hr] at heq
        simpa using heq
    | samdec l c s a b p h fs =>
      have hw := hwf (.samdec l c s a b p h fs) (by simp)
      have hbad' : inferLength syncWord (h ++ fs.flatten) ≠ .ok (L : Int) := hbad
      have hud : udpData (packet l c s a b p h fs) = some (datagram c s a b p h fs) := by
        obtain ⟨hl, h17, _, _, _, _, _, hh, _, _, _⟩ := hw
        rw [udpData_eq, packet]
        have h23 : (l ++ datagram c s a b p h fs)[23]? = some 17 := by
          rw [List.getElem?_append_left (by omega)]; exact h17
        have hlen : 70 < (l ++ datagram c s a b p h fs).length := by
          simp [datagram, Spec.iNetX.encode, hl, hh]; omega
        rw [if_pos ⟨hlen, h23⟩, List.drop_left' hl]
      simp only [List.map_cons, Item.bytes, List.flatMap_cons, Item.frames]
      rw [List.filterMap_cons_some hud]
      exact framesLoop_first_bad L l c s a b p h fs hw hbad' _ _

end Acra.Lemmas.SamDec
