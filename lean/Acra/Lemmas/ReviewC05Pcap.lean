/-
  Review additions for C05: the shape of the truncation result with the case split made exact
  (when the result ends with a shortened record and when it does not).
-/
import Acra.Lemmas.Pcap
namespace Acra.Lemmas.ReviewC05Pcap
open Acra.Py Acra.Model.Pcap Acra.Gen.Pcap Acra.Lemmas.Pcap

/-- `truncSpec_shape` with the two cases characterised: the result ends after the `k` complete records exactly
    when all records are complete or fewer than 16 bytes of the next one are there; otherwise the next record's
    16-byte header is complete and the record is returned with the `m` payload bytes present -/
theorem truncSpec_shape_exact (rs : List Rec) (n : Nat) :
    ∃ k tail, truncSpec rs n = rs.take k ++ tail ∧ k ≤ rs.length ∧ bytesOf (rs.take k) ≤ n ∧
      (k < rs.length → n < bytesOf (rs.take (k + 1))) ∧
      ((tail = [] ∧ (k = rs.length ∨ n < bytesOf (rs.take k) + 16)) ∨
        ∃ r m, rs[k]? = some r ∧ m < r.payload.length ∧ tail = [shorten r m] ∧
               bytesOf (rs.take k) + 16 + m = n) := by
  induction rs generalizing n with
  | nil => exact ⟨0, [], by simp [truncSpec], by simp, by simp [bytesOf], by simp, Or.inl ⟨rfl, Or.inl rfl⟩⟩
  | cons r rs ih =>
    simp only [truncSpec]
    by_cases h16 : n < 16
    · refine ⟨0, [], by simp [h16], by simp, by simp [bytesOf], ?_, Or.inl ⟨rfl, Or.inr ?_⟩⟩
      · intro _; simp [bytesOf]; omega
      · simp [bytesOf]; omega
    · by_cases hcut : n < 16 + r.payload.length
      · refine ⟨0, [shorten r (n - 16)], by simp [h16, hcut], by simp, by simp [bytesOf], ?_,
          Or.inr ⟨r, n - 16, by simp, by omega, rfl, ?_⟩⟩
        · intro _; simp [bytesOf]; omega
        · simp [bytesOf]; omega
      · obtain ⟨k, tail, he, hk, hs, hmax, ht⟩ := ih (n - (16 + r.payload.length))
        refine ⟨k + 1, tail, by simp [h16, hcut, he], by simp; omega, ?_, ?_, ?_⟩
        · simp only [bytesOf, List.take_succ_cons, List.flatMap_cons, List.length_append, recBytes_length] at hs ⊢
          omega
        · intro hlt
          have := hmax (by simpa using hlt)
          simp only [bytesOf, List.take_succ_cons, List.flatMap_cons, List.length_append, recBytes_length] at this ⊢
          omega
        · rcases ht with ⟨ht, hend⟩ | ⟨r', m, h1, h2, h3, h4⟩
          · refine Or.inl ⟨ht, ?_⟩
            rcases hend with hend | hend
            · left; simp [hend]
            · right
              simp only [bytesOf, List.take_succ_cons, List.flatMap_cons, List.length_append, recBytes_length] at hend ⊢
              omega
          · refine Or.inr ⟨r', m, by simpa using h1, h2, h3, ?_⟩
            simp only [bytesOf, List.take_succ_cons, List.flatMap_cons, List.length_append, recBytes_length] at h4 ⊢
            omega

end Acra.Lemmas.ReviewC05Pcap
