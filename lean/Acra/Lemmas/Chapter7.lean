/-
  Chapter 7, part 1: PTDP and PTFR as codecs — the emitted bytes, decoding of a (possibly corrupted)
  encoding, bit-field arithmetic of the two header words.
-/
import Acra.Lemmas.Golay
import Acra.Lemmas.GolayK6
import Acra.Model.Chapter7
import Acra.Spec.Chapter7
namespace Acra.Lemmas.Chapter7
open Acra.Py Acra.Model Acra.Model.Chapter7 Acra.Gen.Chapter7 Acra.Lemmas.Golay

/-! ### masks and shifts as arithmetic -/
theorem and_fff (x : Nat) : x &&& 0xFFF = x % 4096 := Nat.and_two_pow_sub_one_eq_mod x 12
theorem and_7ff (x : Nat) : x &&& 0x7FF = x % 2048 := Nat.and_two_pow_sub_one_eq_mod x 11
theorem and_f (x : Nat) : x &&& 0xF = x % 16 := Nat.and_two_pow_sub_one_eq_mod x 4
theorem and_3 (x : Nat) : x &&& 0x3 = x % 4 := Nat.and_two_pow_sub_one_eq_mod x 2
theorem and_1 (x : Nat) : x &&& 0x1 = x % 2 := Nat.and_two_pow_sub_one_eq_mod x 1
theorem shr (x k : Nat) : x >>> k = x / 2 ^ k := Nat.shiftRight_eq_div_pow x k
theorem shl (x k : Nat) : x <<< k = x * 2 ^ k := Nat.shiftLeft_eq x k

/-! ### Golay words on the wire -/

/-- a Golay word carrying `x` with the error pattern `e` added in transmission -/
def noisyWord (x e : Nat) : Bytes := beBytes 3 (Golay.encode x ^^^ e)

@[simp] theorem noisyWord_length (x e : Nat) : (noisyWord x e).length = 3 := by simp [noisyWord]

theorem encodeStr_word (x : Nat) : Golay.encodeStr x = .ok (noisyWord x 0) := by
  simp [noisyWord, encodeStr_eq]

theorem encode_spec (raw : Nat) : Golay.encode raw = Spec.Golay.encode raw := by
  have h := encodeEntry_spec (raw &&& 0xfff) (and_fff_lt raw)
  unfold Golay.encode
  rw [h]
  simp only [Spec.Golay.encode, and_fff, Nat.mod_mod]

theorem noisyWord_zero_spec (x : Nat) : noisyWord x 0 = Spec.Golay.word x := by
  simp [noisyWord, Spec.Golay.word, encode_spec]

/-- the decoder recovers the value from a word with ≤ 3 bit errors -/
theorem decode_noisyWord (x e : Nat) (hx : x < 4096) (he : e < 2 ^ 24) (hw : wt e ≤ 3) :
    Golay.decodeBytes (noisyWord x e) = .ok x := by
  have hlt : Golay.encode x ^^^ e < 256 ^ 3 :=
    Nat.xor_lt_two_pow (n := 24) (by unfold Golay.encode; exact encodeEntry_lt _ (and_fff_lt x)) he
  unfold noisyWord
  rw [decodeBytes_eq _ (by simp), beNat_beBytes_of_lt 3 _ hlt]
  have := (decode_corrects x e hx he hw).1
  unfold Golay.encode; rwa [and_fff_of_lt x hx]

theorem wt_zero_le : wt 0 ≤ 3 := by decide

/-! ### PTDP -/

/-- what `PTDP.unpack` does once the two header words are decoded to `lsw`, `msw`; `body` = buffer[6:] -/
def ptdpCore (t : PTDP.State) (lsw msw : Nat) (body : Bytes) : PTDP.State × R Bytes :=
  let s1 := { t with low_latency := false, length := msw + ((lsw &&& 0xF) <<< 12),
                     fragment := (lsw >>> 4) &&& 0x3, content := (lsw >>> 6) &&& 0xF }
  if s1.length > PTDP_MAX_LEN then (s1, .error .ptdpLength)
  else if body.length < s1.length then (s1, .error .ptdpRemaining)
  else ({ s1 with payload := body.take s1.length }, .ok (body.drop s1.length))

theorem slice_front (a b : Bytes) (n : Nat) (h : a.length = n) : slice (a ++ b) 0 n = a := by
  subst h; simp [slice]

theorem slice_after (a b : Bytes) (k n : Nat) (hk : a.length = k) : slice (a ++ b) k (n + k) = b.take n := by
  subst hk
  simp [slice, List.take_append]

/-- unpack of `w1 ++ w2 ++ body` for any two 3-byte strings that decode to `lsw`, `msw` -/
theorem ptdp_unpack_words (t : PTDP.State) (w1 w2 body : Bytes) (lsw msw : Nat)
    (h1 : w1.length = 3) (h2 : w2.length = 3)
    (d1 : Golay.decodeBytes w1 = .ok lsw) (d2 : Golay.decodeBytes w2 = .ok msw) :
    PTDP.unpack t (w1 ++ w2 ++ body) = ptdpCore t lsw msw body := by
  have e1 : slice (w1 ++ w2 ++ body) 0 3 = w1 := by
    rw [List.append_assoc]; exact slice_front _ _ _ h1
  have e2 : slice (w1 ++ w2 ++ body) 3 6 = w2 := by
    rw [List.append_assoc]
    have := slice_mid w1 w2 body 3 6 h1.symm (by omega)
    exact this
  have e3 : (w1 ++ w2 ++ body).drop 6 = body := drop_append_len _ _ _ (by simp; omega)
  have hl : ¬ (w1 ++ w2 ++ body).length < 6 := by simp; omega
  unfold PTDP.unpack
  simp only [hl, if_false, e1, e2, d1, d2, e3]
  unfold ptdpCore
  simp only
  split
  · rfl
  · rename_i hlen
    split
    · rfl
    · rename_i hbody
      simp only [PTDP_MAX_LEN] at hlen
      have hs : slice (w1 ++ w2 ++ body) 6 (msw + ((lsw &&& 0xF) <<< 12) + 6) =
          body.take (msw + ((lsw &&& 0xF) <<< 12)) :=
        slice_after (w1 ++ w2) body 6 _ (by simp; omega)
      have hd : (w1 ++ w2 ++ body).drop (msw + ((lsw &&& 0xF) <<< 12) + 6) =
          body.drop (msw + ((lsw &&& 0xF) <<< 12)) := by
        rw [Nat.add_comm, ← List.drop_drop, e3]
      have hp : ¬ (List.take (msw + ((lsw &&& 0xF) <<< 12)) body).length > PTDP_MAX_LEN := by
        simp only [PTDP_MAX_LEN, List.length_take]; omega
      simp only [PTDP.setPayload, hs, hp, if_false, hd]

/-- the PTDP header fields fit their bit fields and the payload fits one PTDP -/
def PTDP_WF (s : PTDP.State) : Prop := s.fragment < 4 ∧ s.content < 16 ∧ s.payload.length ≤ 2048

/-- first header word: content(4) | fragment(2) | length[15:12] -/
def lswOf (s : PTDP.State) : Nat := s.content * 64 + s.fragment * 16

theorem ptdp_pack_eq (s : PTDP.State) (h : PTDP_WF s) :
    PTDP.pack s = ({ s with length := s.payload.length },
      .ok (noisyWord (lswOf s) 0 ++ noisyWord s.payload.length 0 ++ s.payload)) := by
  obtain ⟨hf, hc, hp⟩ := h
  have h1 : (s.payload.length >>> 12) + (s.fragment <<< 4) + (s.content <<< 6) = lswOf s := by
    simp only [shr, shl, lswOf]; omega
  have h2 : s.payload.length &&& 0xFFF = s.payload.length := by rw [and_fff]; omega
  unfold PTDP.pack
  simp only [h1, h2, encodeStr_word]

/-- decoding a PTDP whose two header words suffered the error patterns `e1`, `e2` (weight ≤ 3 each),
    followed by arbitrary bytes, into an object in any prior state -/
theorem ptdp_unpack_noisy (s t : PTDP.State) (h : PTDP_WF s) (e1 e2 : Nat) (he1 : e1 < 2 ^ 24)
    (he2 : e2 < 2 ^ 24) (hw1 : wt e1 ≤ 3) (hw2 : wt e2 ≤ 3) (rest : Bytes) :
    PTDP.unpack t (noisyWord (lswOf s) e1 ++ noisyWord s.payload.length e2 ++ (s.payload ++ rest)) =
      ({ s with length := s.payload.length, low_latency := false }, .ok rest) := by
  obtain ⟨hf, hc, hp⟩ := h
  have hl : lswOf s < 4096 := by simp only [lswOf]; omega
  rw [ptdp_unpack_words t _ _ _ (lswOf s) s.payload.length (by simp) (by simp)
    (decode_noisyWord _ _ hl he1 hw1) (decode_noisyWord _ _ (by omega) he2 hw2)]
  have a1 : lswOf s &&& 0xF = 0 := by rw [and_f]; simp only [lswOf]; omega
  have a2 : (lswOf s >>> 4) &&& 0x3 = s.fragment := by rw [and_3, shr]; simp only [lswOf]; omega
  have a3 : (lswOf s >>> 6) &&& 0xF = s.content := by rw [and_f, shr]; simp only [lswOf]; omega
  unfold ptdpCore
  simp only [a1, a2, a3, Nat.zero_shiftLeft, Nat.add_zero, PTDP_MAX_LEN]
  have hn : ¬ s.payload.length > 2048 := by omega
  have hb : ¬ (s.payload ++ rest).length < s.payload.length := by simp
  simp only [hn, hb, if_false, List.take_left', List.drop_left']

/-- the bytes `PTDP.pack` returns, as a function of the three fields it reads -/
def ptdpBytes (payload : Bytes) (fragment content : Nat) : R Bytes :=
  match Golay.encodeStr ((payload.length >>> 12) + (fragment <<< 4) + (content <<< 6)) with
  | .error e => .error e
  | .ok a =>
    match Golay.encodeStr (payload.length &&& 0xFFF) with
    | .error e => .error e
    | .ok b => .ok (a ++ b ++ payload)

theorem ptdp_pack_snd (s : PTDP.State) : (PTDP.pack s).2 = ptdpBytes s.payload s.fragment s.content := by
  unfold PTDP.pack ptdpBytes
  simp only
  cases Golay.encodeStr ((s.payload.length >>> 12) + (s.fragment <<< 4) + (s.content <<< 6)) with
  | error e => rfl
  | ok a =>
    cases Golay.encodeStr (s.payload.length &&& 0xFFF) with
    | error e => rfl
    | ok b => rfl

/-! ### PTFR -/

def PTFR_WF (s : PTFR.State) : Prop :=
  s.version < 4 ∧ s.streamid < 16 ∧ s.ptdp_offset < 2048 ∧ s.payload.length = s.length

/-- the protected word: LLP(1) | offset(11) -/
def protOf (s : PTFR.State) : Nat := s.ptdp_offset + (if s.llp then 2048 else 0)

theorem ptfr_pack_eq (s : PTFR.State) (h : PTFR_WF s) :
    PTFR.pack s = (s, .ok (beBytes 1 (s.version + s.streamid * 16) ++ noisyWord (protOf s) 0 ++ s.payload)) := by
  obtain ⟨hv, hs, ho, hl⟩ := h
  have hb : s.version + s.streamid * 16 < 256 := by omega
  have hp : s.ptdp_offset + ((if s.llp then 1 else 0) <<< 11) = protOf s := by
    simp only [protOf, shl]; split <;> simp
  have h16 : s.streamid <<< 4 = s.streamid * 16 := by simp [shl]
  unfold PTFR.pack
  simp only [hl, ne_eq, not_true_eq_false, if_false, structPack, PTFR_pack_fmt0, packCodes, Code.bound,
    if_true, Code.size, encInt, hp, encodeStr_word, List.append_nil, h16, hb]

theorem ptfr_pack_length (s : PTFR.State) (h : PTFR_WF s) :
    ∃ b, (PTFR.pack s).2 = .ok b ∧ b.length = 4 + s.length := by
  refine ⟨_, by rw [ptfr_pack_eq s h], ?_⟩
  simp [h.2.2.2]; omega

/-- what `PTFR.unpack` does once the first byte and the protected word are decoded -/
def ptfrCore (t : PTFR.State) (byte_ p : Nat) (body : Bytes) : PTFR.State × R Unit :=
  PTFR.setPayload { t with version := byte_ &&& 0x3, streamid := (byte_ >>> 4) &&& 0xF,
                           llp := ((p >>> 11) &&& 0x1) != 0, ptdp_offset := p &&& 0x7FF, payload := [] } body

theorem ptfr_unpack_words (t : PTFR.State) (byte_ : Nat) (w body : Bytes) (p : Nat) (hb : byte_ < 256)
    (hw : w.length = 3) (d : Golay.decodeBytes w = .ok p) :
    PTFR.unpack t (beBytes 1 byte_ ++ w ++ body) = ptfrCore t byte_ p body := by
  have e0 : structUnpackFrom PTFR_unpack_fmt0 (beBytes 1 byte_ ++ w ++ body) 0 = .ok [byte_] := by
    have := structUnpackFrom_enc0 PTFR_unpack_fmt0 [byte_] (w ++ body)
      (by simp [Fits, PTFR_unpack_fmt0, Code.bound]; omega)
    simpa [encCodes, PTFR_unpack_fmt0, Code.size, encInt, List.append_assoc] using this
  have e1 : slice (beBytes 1 byte_ ++ w ++ body) 1 4 = w := by
    rw [List.append_assoc]
    exact slice_mid _ _ _ 1 4 (by simp) (by simp [hw])
  have e2 : (beBytes 1 byte_ ++ w ++ body).drop 4 = body := drop_append_len _ _ _ (by simp [hw])
  unfold PTFR.unpack
  simp only [e0, e1, d, e2]
  rfl

/-- decoding a PTFR whose protected word suffered the error pattern `e` (weight ≤ 3), into an object
    in any prior state whose `length` option allows the payload -/
theorem ptfr_unpack_noisy (s t : PTFR.State) (h : PTFR_WF s) (e : Nat) (he : e < 2 ^ 24) (hw : wt e ≤ 3)
    (hL : s.payload.length ≤ t.length) :
    PTFR.unpack t (beBytes 1 (s.version + s.streamid * 16) ++ noisyWord (protOf s) e ++ s.payload) =
      ({ s with length := t.length }, .ok ()) := by
  obtain ⟨hv, hs, ho, hl⟩ := h
  have hb : s.version + s.streamid * 16 < 256 := by omega
  have hp : protOf s < 4096 := by simp only [protOf]; split <;> omega
  rw [ptfr_unpack_words t _ _ _ (protOf s) hb (by simp) (decode_noisyWord _ _ hp he hw)]
  have a1 : (s.version + s.streamid * 16) &&& 0x3 = s.version := by rw [and_3]; omega
  have a2 : ((s.version + s.streamid * 16) >>> 4) &&& 0xF = s.streamid := by rw [and_f, shr]; omega
  have a3 : (((protOf s >>> 11) &&& 0x1) != 0) = s.llp := by
    rw [and_1, shr]; simp only [protOf]
    cases s.llp <;> simp <;> omega
  have a4 : protOf s &&& 0x7FF = s.ptdp_offset := by
    rw [and_7ff]; simp only [protOf]; split <;> omega
  unfold ptfrCore
  simp only [a1, a2, a3, a4, PTFR.setPayload, List.length_nil, Nat.add_zero, List.nil_append]
  have : ¬ s.payload.length > t.length := by omega
  simp only [this, if_false]

/-! ### PTDP / PTFR on arbitrary buffers -/

/-- the value the Golay decoder assigns to a 3-byte string (always defined: `decodeInt_ok`) -/
def gval (w : Bytes) : Nat :=
  match Golay.decodeBytes w with
  | .ok r => r
  | .error _ => 0

theorem decodeBytes_gval (w : Bytes) (h : w.length = 3) : Golay.decodeBytes w = .ok (gval w) := by
  obtain ⟨r, hr⟩ := decodeInt_ok (beNat w)
  have : Golay.decodeBytes w = .ok r := by rw [decodeBytes_eq w h, hr]
  simp [gval, this]

/-- the length a PTDP header declares -/
def ptdpDeclared (b : Bytes) : Nat := gval (slice b 3 6) + ((gval (slice b 0 3) &&& 0xF) <<< 12)

theorem split6 (b : Bytes) (_h : 6 ≤ b.length) : b = slice b 0 3 ++ slice b 3 6 ++ b.drop 6 := by
  simp only [slice, List.drop_zero]
  have h1 : List.take 3 b ++ List.drop 3 (List.take 6 b) = List.take 6 b := by
    have := List.take_append_drop 3 (List.take 6 b)
    rw [List.take_take] at this
    simpa using this
  rw [h1, List.take_append_drop]

theorem ptdp_unpack_any (t : PTDP.State) (b : Bytes) (h : 6 ≤ b.length) :
    PTDP.unpack t b = ptdpCore t (gval (slice b 0 3)) (gval (slice b 3 6)) (b.drop 6) := by
  have h1 : (slice b 0 3).length = 3 := by simp; omega
  have h2 : (slice b 3 6).length = 3 := by simp; omega
  have := ptdp_unpack_words t (slice b 0 3) (slice b 3 6) (b.drop 6) _ _ h1 h2
    (decodeBytes_gval _ h1) (decodeBytes_gval _ h2)
  rwa [← split6 b h] at this

theorem ptdp_unpack_short (t : PTDP.State) (b : Bytes) (h : b.length < 6) :
    PTDP.unpack t b = (t, .error .ptdpRemaining) := by
  simp [PTDP.unpack, h]

/-! ### bit errors on the wire: XOR on the three bytes of a word is XOR on the 24-bit value -/

def xorBytes (a b : Bytes) : Bytes := List.zipWith (· ^^^ ·) a b

theorem xor_mod256 (v e : Nat) : (v ^^^ e) % 256 = v % 256 ^^^ e % 256 := by
  have h := @Nat.and_xor_distrib_right v e (2 ^ 8 - 1)
  rw [Nat.and_two_pow_sub_one_eq_mod, Nat.and_two_pow_sub_one_eq_mod, Nat.and_two_pow_sub_one_eq_mod] at h
  exact h

theorem xor_div256 (v e : Nat) : (v ^^^ e) / 256 = v / 256 ^^^ e / 256 := by
  have h := @Nat.shiftRight_xor_distrib 8 v e
  simpa [Nat.shiftRight_eq_div_pow] using h

theorem xorBytes_be3 (v e : Nat) : xorBytes (beBytes 3 v) (beBytes 3 e) = beBytes 3 (v ^^^ e) := by
  simp only [xorBytes, beBytes, leBytes, List.reverse_cons, List.reverse_nil, List.nil_append,
    List.cons_append, List.zipWith_cons_cons, List.zipWith_nil_left, ← UInt8.ofNat_xor, xor_mod256,
    xor_div256]

/-- the header words of a packed PTDP with the patterns `e1`, `e2` XORed onto their bytes -/
def corruptPTDP (b : Bytes) (e1 e2 : Nat) : Bytes :=
  xorBytes (b.take 3) (beBytes 3 e1) ++ xorBytes ((b.drop 3).take 3) (beBytes 3 e2) ++ b.drop 6

/-- the protected word (bytes 1..3) of a packed PTFR with the pattern `e` XORed onto its bytes -/
def corruptPTFR (b : Bytes) (e : Nat) : Bytes :=
  b.take 1 ++ xorBytes ((b.drop 1).take 3) (beBytes 3 e) ++ b.drop 4

theorem noisyWord_xor (x e : Nat) : xorBytes (noisyWord x 0) (beBytes 3 e) = noisyWord x e := by
  simp [noisyWord, xorBytes_be3]

theorem corruptPTDP_eq (l m e1 e2 : Nat) (body : Bytes) :
    corruptPTDP (noisyWord l 0 ++ noisyWord m 0 ++ body) e1 e2 = noisyWord l e1 ++ noisyWord m e2 ++ body := by
  have t1 : (noisyWord l 0 ++ noisyWord m 0 ++ body).take 3 = noisyWord l 0 := by
    rw [List.append_assoc]; exact take_append_len _ _ _ (by simp)
  have d1 : (noisyWord l 0 ++ noisyWord m 0 ++ body).drop 3 = noisyWord m 0 ++ body := by
    rw [List.append_assoc]; exact drop_append_len _ _ _ (by simp)
  have t2 : (noisyWord m 0 ++ body).take 3 = noisyWord m 0 := take_append_len _ _ _ (by simp)
  have d2 : (noisyWord l 0 ++ noisyWord m 0 ++ body).drop 6 = body := drop_append_len _ _ _ (by simp)
  simp only [corruptPTDP, t1, d1, t2, d2, noisyWord_xor]

theorem corruptPTFR_eq (b0 p e : Nat) (body : Bytes) :
    corruptPTFR (beBytes 1 b0 ++ noisyWord p 0 ++ body) e = beBytes 1 b0 ++ noisyWord p e ++ body := by
  have t1 : (beBytes 1 b0 ++ noisyWord p 0 ++ body).take 1 = beBytes 1 b0 := by
    rw [List.append_assoc]; exact take_append_len _ _ _ (by simp)
  have d1 : (beBytes 1 b0 ++ noisyWord p 0 ++ body).drop 1 = noisyWord p 0 ++ body := by
    rw [List.append_assoc]; exact drop_append_len _ _ _ (by simp)
  have t2 : (noisyWord p 0 ++ body).take 3 = noisyWord p 0 := take_append_len _ _ _ (by simp)
  have d2 : (beBytes 1 b0 ++ noisyWord p 0 ++ body).drop 4 = body := drop_append_len _ _ _ (by simp)
  simp only [corruptPTFR, t1, d1, t2, d2, noisyWord_xor]

end Acra.Lemmas.Chapter7
