/- Kernel evaluation, part 4 of 5: the syndrome of each of the 10626 patterns of weight 4 is non-zero
   and its slot in the witness table is empty (no pattern of weight ≤ 3 has that syndrome). -/
import Acra.Lemmas.GolayBase
namespace Acra.Lemmas.Golay
open Acra.Model.Golay

set_option maxRecDepth 100000 in
theorem weight4_all : ∀ a, a < 24 → ∀ b, b < a → ∀ c, c < b → ∀ d, d < c →
    synF (pat4 a b c d) ≠ 0 ∧ lookupT buildT (synF (pat4 a b c d)) = 0 := by
  decide +kernel

end Acra.Lemmas.Golay
