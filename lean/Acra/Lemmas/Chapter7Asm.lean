/-
  Chapter 7, part 5: fragment reassembly (FIRST / MIDDLE… / LAST) of what the decapsulator returns
  for normal traffic: complete packets come back, a trailing incomplete packet contributes nothing.
-/
import Acra.Lemmas.Chapter7Dec
namespace Acra.Lemmas.Chapter7
open Acra.Py Acra.Model Acra.Model.Chapter7 Acra.Gen.Chapter7

theorem asm_complete (a : Asm) (b : Bytes) :
    asmStep a (mkPtdp false PTDP_FRAGMENT_COMPLETE b) = { a with done := a.done ++ [(b, false)] } := by
  simp [asmStep, mkPtdp]

theorem asm_first (a : Asm) (b : Bytes) (n : Nat) :
    asmStep a (fragOf b false n 0) = { a with normal := some (slice b 0 2048) } := by
  simp [asmStep, fragOf, mkPtdp, PTDP_FRAGMENT_FIRST, PTDP_FRAGMENT_COMPLETE]

theorem asm_middle (a : Asm) (b : Bytes) (n i : Nat) (h0 : i ≠ 0) (h1 : i ≠ n - 1) :
    asmStep a (fragOf b false n i) =
      { a with normal := a.normal.map (· ++ slice b (2048 * i) (2048 * (i + 1))) } := by
  simp [asmStep, fragOf, mkPtdp, PTDP_FRAGMENT_FIRST, PTDP_FRAGMENT_COMPLETE, PTDP_FRAGMENT_MIDDLE, h0, h1]

theorem asm_last (a : Asm) (b acc : Bytes) (n i : Nat) (h0 : i ≠ 0) (h1 : i = n - 1) (ha : a.normal = some acc) :
    asmStep a (fragOf b false n i) =
      { a with done := a.done ++ [(acc ++ slice b (2048 * i) (2048 * (i + 1)), false)], normal := none } := by
  subst h1
  simp [asmStep, fragOf, mkPtdp, PTDP_FRAGMENT_FIRST, PTDP_FRAGMENT_COMPLETE, PTDP_FRAGMENT_MIDDLE,
    PTDP_FRAGMENT_LAST, h0, ha]

/-- after FIRST and i-1 MIDDLE fragments the accumulator holds the first i pieces -/
theorem asm_prefix (a : Asm) (b : Bytes) (n : Nat) :
    ∀ i, 1 ≤ i → i < n →
      ((List.range i).map (fragOf b false n)).foldl asmStep a = { a with normal := some (slice b 0 (2048 * i)) } := by
  intro i
  induction i with
  | zero => intro h; omega
  | succ i ih =>
    intro _ hi
    rw [List.range_succ, List.map_append, List.foldl_append]
    by_cases h1 : i = 0
    · subst h1; simp [asm_first]
    · rw [ih (by omega) (by omega)]
      simp only [List.map_cons, List.map_nil, List.foldl_cons, List.foldl_nil]
      rw [asm_middle _ b n i h1 (by omega)]
      simp only [Option.map_some]
      rw [slice_append_slice _ _ _ _ (by omega) (by omega)]

/-- a complete packet: exactly one output, the accumulator is clear again -/
theorem asm_packet (a : Asm) (ha : a.normal = none) (b : Bytes) :
    (ptdpsOf b false).foldl asmStep a = { a with done := a.done ++ [(b, false)] } := by
  by_cases hs : b.length ≤ 2048
  · have : ptdpsOf b false = [mkPtdp false PTDP_FRAGMENT_COMPLETE b] := by simp [ptdpsOf, PTDP_MAX_LEN, hs]
    rw [this]; simp [asm_complete]
  · have hgt : ¬ b.length ≤ PTDP_MAX_LEN := by simpa [PTDP_MAX_LEN] using hs
    have hn : b.length ≤ 2048 * ((b.length + 2047) / 2048) := by omega
    unfold ptdpsOf
    rw [if_neg hgt]
    simp only [PTDP_MAX_LEN]
    rw [show b.length + 2048 - 1 = b.length + 2047 by omega,
      fragmentsFrom_eq b false _ hn _ 0 (by omega), ← List.range_eq_range']
    have hn2 : 2 ≤ (b.length + 2047) / 2048 := by omega
    obtain ⟨m, hm⟩ : ∃ m, (b.length + 2047) / 2048 = m + 1 := ⟨(b.length + 2047) / 2048 - 1, by omega⟩
    rw [hm, List.range_succ, List.map_append, List.foldl_append, ← hm, asm_prefix a b _ m (by omega) (by omega)]
    simp only [List.map_cons, List.map_nil, List.foldl_cons, List.foldl_nil]
    rw [asm_last _ b (slice b 0 (2048 * m)) _ m (by omega) (by omega) rfl]
    rw [slice_append_slice _ _ _ _ (by omega) (by omega)]
    have : slice b 0 (2048 * (m + 1)) = b := by
      simp only [slice, List.drop_zero]; rw [List.take_of_length_le (by rw [← hm]; exact hn)]
    simp only [this, ha]

/-- an incomplete packet (a proper prefix of its PTDPs) contributes no output -/
theorem asm_partial (a : Asm) (b : Bytes) (i : Nat) (hi : i < (ptdpsOf b false).length) :
    (((ptdpsOf b false).take i).foldl asmStep a).done = a.done := by
  by_cases hs : b.length ≤ 2048
  · have : ptdpsOf b false = [mkPtdp false PTDP_FRAGMENT_COMPLETE b] := by simp [ptdpsOf, PTDP_MAX_LEN, hs]
    rw [this] at hi ⊢
    simp only [List.length_singleton] at hi
    have : i = 0 := by omega
    subst this; simp
  · have hgt : ¬ b.length ≤ PTDP_MAX_LEN := by simpa [PTDP_MAX_LEN] using hs
    have hn : b.length ≤ 2048 * ((b.length + 2047) / 2048) := by omega
    have hp : ptdpsOf b false = (List.range ((b.length + 2047) / 2048)).map (fragOf b false ((b.length + 2047) / 2048)) := by
      unfold ptdpsOf
      rw [if_neg hgt]
      simp only [PTDP_MAX_LEN]
      rw [show b.length + 2048 - 1 = b.length + 2047 by omega,
        fragmentsFrom_eq b false _ hn _ 0 (by omega), ← List.range_eq_range']
    rw [hp] at hi ⊢
    simp only [List.length_map, List.length_range] at hi
    rw [← List.map_take, List.take_range, Nat.min_eq_left (by omega)]
    by_cases h0 : i = 0
    · subst h0; simp
    · rw [asm_prefix a b _ i (by omega) hi]

/-! ### packets whose encoding is complete within c bytes -/

def pktEnc (b : Bytes) : List Bytes := (ptdpsOf b false).map encB

def pktDone : List Bytes → Nat → Nat
  | [], _ => 0
  | b :: bs, c =>
    if (pktEnc b).flatten.length ≤ c then 1 + pktDone bs (c - (pktEnc b).flatten.length) else 0

theorem doneCount_append (X Y : List Bytes) (c : Nat) :
    doneCount (X ++ Y) c =
      if X.flatten.length ≤ c then X.length + doneCount Y (c - X.flatten.length) else doneCount X c := by
  induction X generalizing c with
  | nil => simp
  | cons x X ih =>
    simp only [List.cons_append, doneCount, List.flatten_cons, List.length_append, List.length_cons]
    by_cases hx : x.length ≤ c
    · simp only [hx, if_true, ih]
      by_cases hX : X.flatten.length ≤ c - x.length
      · have : x.length + X.flatten.length ≤ c := by omega
        simp only [hX, this, if_true]
        rw [show c - x.length - X.flatten.length = c - (x.length + X.flatten.length) by omega]; omega
      · have : ¬ x.length + X.flatten.length ≤ c := by omega
        simp only [hX, this, if_false]
    · have : ¬ x.length + X.flatten.length ≤ c := by omega
      simp only [hx, this, if_false]

theorem doneCount_lt (X : List Bytes) (c : Nat) (h : c < X.flatten.length) : doneCount X c < X.length := by
  induction X generalizing c with
  | nil => simp at h
  | cons x X ih =>
    simp only [doneCount, List.length_cons]
    simp only [List.flatten_cons, List.length_append] at h
    split
    · have := ih (c - x.length) (by omega); omega
    · omega

theorem asm_stream (pkts : List Bytes) :
    ∀ (c : Nat) (a : Asm), a.normal = none →
      (((datapktsToPtdp (pkts.map fun b => (b, false))).take
          (doneCount ((datapktsToPtdp (pkts.map fun b => (b, false))).map encB) c)).foldl asmStep a).done =
        a.done ++ (pkts.take (pktDone pkts c)).map fun b => (b, false) := by
  induction pkts with
  | nil => intro c a _; simp [datapktsToPtdp, doneCount, pktDone]
  | cons b rest ih =>
    intro c a ha
    have hsplit : datapktsToPtdp ((b :: rest).map fun b => (b, false)) =
        ptdpsOf b false ++ datapktsToPtdp (rest.map fun b => (b, false)) := by
      simp [datapktsToPtdp]
    rw [hsplit, List.map_append, doneCount_append]
    simp only [pktDone, pktEnc]
    by_cases hfit : ((ptdpsOf b false).map encB).flatten.length ≤ c
    · simp only [hfit, if_true, List.length_map]
      rw [List.take_append, List.take_of_length_le (by omega), List.foldl_append, asm_packet a ha b]
      rw [show (ptdpsOf b false).length + doneCount _ _ - (ptdpsOf b false).length = doneCount
        ((datapktsToPtdp (rest.map fun b => (b, false))).map encB)
        (c - ((ptdpsOf b false).map encB).flatten.length) by omega]
      rw [ih _ _ (by simpa using ha)]
      rw [Nat.add_comm 1, List.take_succ_cons]
      simp
    · simp only [hfit, if_false]
      have hlt := doneCount_lt ((ptdpsOf b false).map encB) c (by omega)
      simp only [List.length_map] at hlt
      rw [List.take_append_of_le_length (by omega), asm_partial a b _ hlt]
      simp

end Acra.Lemmas.Chapter7
