/-
  Helper lemmas for MPEGTS.py: closed forms of what the models' pack functions emit under the
  well-formedness predicates, and what the models' unpack functions make of those bytes.
  Property theorems are in Acra/Props.
-/
import Acra.Model.MPEGTS
namespace Acra.Lemmas.MPEGTS
open Acra.Py Acra.Model.MPEGTS Acra.Gen.MPEGTS

/-! ### generic list / flag facts -/

theorem replicate_ff_length (n : Nat) : (List.replicate n (0xFF : UInt8)).length = n := by simp

/-- the eight flag bits of a flags byte built as a sum -/
theorem flag_bits (b7 b6 b5 b4 b3 b2 b1 b0 : Bool) :
    let f := b7.toNat * 128 + b6.toNat * 64 + b5.toNat * 32 + b4.toNat * 16 + b3.toNat * 8 + b2.toNat * 4 +
      b1.toNat * 2 + b0.toNat
    (f / 128 % 2 == 1) = b7 ∧ (f / 64 % 2 == 1) = b6 ∧ (f / 32 % 2 == 1) = b5 ∧ (f / 16 % 2 == 1) = b4 ∧
    (f / 8 % 2 == 1) = b3 ∧ (f / 4 % 2 == 1) = b2 ∧ (f / 2 % 2 == 1) = b1 ∧ (f % 2 == 1) = b0 ∧ f < 256 := by
  cases b7 <;> cases b6 <;> cases b5 <;> cases b4 <;> cases b3 <;> cases b2 <;> cases b1 <;> cases b0 <;> decide

/-! ### MPEGAdaptionExtension -/

/-- every part absent or of its exact size -/
def Ext_WF (e : Ext) : Prop :=
  (e.ltw.length = 0 ∨ e.ltw.length = 2) ∧ (e.piecewise.length = 0 ∨ e.piecewise.length = 3) ∧
  (e.seamless_splice.length = 0 ∨ e.seamless_splice.length = 5)

instance (e : Ext) : Decidable (Ext_WF e) := by unfold Ext_WF; infer_instance

/-- the object after `pack` (and after decoding its encoding): flags say which parts are present -/
def Ext_packed (e : Ext) : Ext :=
  { e with ltw_flag := e.ltw.length == 2, piecewise_rate_flag := e.piecewise.length == 3,
           seamless_splice_flag := e.seamless_splice.length == 5 }

def Ext_len (e : Ext) : Nat := 2 + e.ltw.length + e.piecewise.length + e.seamless_splice.length

def Ext_flags (e : Ext) : Nat :=
  0x1F + (e.ltw.length == 2).toNat * 128 + (e.piecewise.length == 3).toNat * 64 +
    (e.seamless_splice.length == 5).toNat * 32

/-- the bytes `MPEGAdaptionExtension.pack` emits -/
def Ext_bytes (e : Ext) : Bytes :=
  encInt true 1 (Ext_len e) ++ (encInt true 1 (Ext_flags e) ++ (e.ltw ++ (e.piecewise ++ e.seamless_splice)))

@[simp] theorem Ext_bytes_length (e : Ext) : (Ext_bytes e).length = Ext_len e := by
  simp [Ext_bytes, Ext_len]; omega

theorem Ext_len_le (e : Ext) (h : Ext_WF e) : Ext_len e ≤ 12 := by
  obtain ⟨h1, h2, h3⟩ := h
  unfold Ext_len; omega

theorem Ext_flags_lt (e : Ext) : Ext_flags e < 256 := by
  unfold Ext_flags
  cases (e.ltw.length == 2) <;> cases (e.piecewise.length == 3) <;> cases (e.seamless_splice.length == 5) <;> decide

theorem Ext_pack_eq (e : Ext) (h : Ext_WF e) : Ext.pack e = (Ext_packed e, .ok (Ext_bytes e)) := by
  have hl := Ext_len_le e h
  have hfl := Ext_flags_lt e
  obtain ⟨h1, h2, h3⟩ := h
  have c1 : ¬ (e.ltw.length ≠ 2 ∧ e.ltw.length ≠ 0) := by omega
  have c2 : ¬ (e.piecewise.length ≠ 3 ∧ e.piecewise.length ≠ 0) := by omega
  have c3 : ¬ (e.seamless_splice.length ≠ 5 ∧ e.seamless_splice.length ≠ 0) := by omega
  have hf : Fits Ext_pack_fmt0.codes [Ext_len e, Ext_flags e] := by
    simp [Fits, Ext_pack_fmt0, Code.bound]; omega
  simp only [Ext.pack, c1, c2, c3, if_false]
  have : (2 + e.ltw.length + e.piecewise.length + e.seamless_splice.length) = Ext_len e := rfl
  rw [this]
  have : (31 + (e.ltw.length == 2).toNat * 128 + (e.piecewise.length == 3).toNat * 64 +
      (e.seamless_splice.length == 5).toNat * 32) = Ext_flags e := rfl
  rw [this, structPack_eq _ _ hf]
  simp [Ext_packed, Ext_bytes, Ext_pack_fmt0, encCodes, Code.size]

/-- three consecutive parts after a header: each slice returns its part -/
theorem slice_parts (h l p s r : List α) :
    slice (h ++ (l ++ (p ++ (s ++ r)))) h.length (h.length + l.length) = l ∧
    slice (h ++ (l ++ (p ++ (s ++ r)))) (h.length + l.length) (h.length + l.length + p.length) = p ∧
    slice (h ++ (l ++ (p ++ (s ++ r)))) (h.length + l.length + p.length) (h.length + l.length + p.length + s.length) = s := by
  refine ⟨slice_mid _ _ _ _ _ rfl rfl, ?_, ?_⟩
  · rw [← List.append_assoc h l]
    exact slice_mid _ _ _ _ _ (by simp) (by simp)
  · rw [← List.append_assoc h l, ← List.append_assoc (h ++ l) p]
    exact slice_mid _ _ _ _ _ (by simp; omega) (by simp; omega)

theorem Ext_flag_bits (e : Ext) :
    (Ext_flags e / 128 % 2 == 1) = (e.ltw.length == 2) ∧ (Ext_flags e / 64 % 2 == 1) = (e.piecewise.length == 3) ∧
    (Ext_flags e / 32 % 2 == 1) = (e.seamless_splice.length == 5) := by
  unfold Ext_flags
  cases (e.ltw.length == 2) <;> cases (e.piecewise.length == 3) <;> cases (e.seamless_splice.length == 5) <;> decide

/-- decoding the packed extension (followed by anything) into an object in any state -/
theorem Ext_unpack_bytes (e t : Ext) (rest : Bytes) (h : Ext_WF e) :
    Ext.unpack t (Ext_bytes e ++ rest) = (Ext_packed e, .ok (Ext_len e)) := by
  have hl := Ext_len_le e h
  have hfl := Ext_flags_lt e
  obtain ⟨hb1, hb2, hb3⟩ := Ext_flag_bits e
  obtain ⟨h1, h2, h3⟩ := h
  have hhdr : unpackCodes true Ext_unpack_fmt0.codes (Ext_bytes e ++ rest) = [Ext_len e, Ext_flags e] := by
    simp only [Ext_bytes, Ext_unpack_fmt0, unpackCodes, Code.size, List.append_assoc, take_encInt_append,
      drop_encInt_append]
    rw [decInt_encInt1 _ _ (by omega), decInt_encInt1 _ _ (by omega)]
  have hsz : 0 + Ext_unpack_fmt0.size ≤ (Ext_bytes e ++ rest).length := by
    simp [Ext_unpack_fmt0, Fmt.size, codesSize, Code.size, Ext_len]; omega
  have hnl : ¬ ((Ext_bytes e ++ rest).length < Ext_len e) := by simp
  have htake : List.take (Ext_len e) (Ext_bytes e ++ rest) = Ext_bytes e := take_append_len _ _ _ (by simp)
  simp only [Ext.unpack, structUnpackFrom, hsz, if_true, List.drop_zero, show Ext_unpack_fmt0.big = true from rfl,
    hhdr, hnl, if_false, htake, hb1, hb2, hb3]
  -- the three parts
  have hsp := slice_parts (encInt true 1 (Ext_len e) ++ encInt true 1 (Ext_flags e)) e.ltw e.piecewise e.seamless_splice []
  simp only [List.length_append, encInt_length, List.append_nil, List.append_assoc] at hsp
  obtain ⟨s1, s2, s3⟩ := hsp
  have e1 : (if (e.ltw.length == 2) = true then slice (Ext_bytes e) 2 4 else []) = e.ltw := by
    rcases h1 with h1 | h1
    · simp [List.eq_nil_of_length_eq_zero h1]
    · simp only [h1, beq_self_eq_true, if_true]; rw [h1] at s1; exact s1
  have o1 : (if (e.ltw.length == 2) = true then 4 else 2) = 1 + 1 + e.ltw.length := by
    rcases h1 with h1 | h1 <;> simp [h1]
  have e2 : (if (e.piecewise.length == 3) = true then slice (Ext_bytes e) (1 + 1 + e.ltw.length) (1 + 1 + e.ltw.length + 3) else [])
      = e.piecewise := by
    rcases h2 with h2 | h2
    · simp [List.eq_nil_of_length_eq_zero h2]
    · simp only [h2, beq_self_eq_true, if_true]; rw [h2] at s2; exact s2
  have o2 : (if (e.piecewise.length == 3) = true then 1 + 1 + e.ltw.length + 3 else 1 + 1 + e.ltw.length)
      = 1 + 1 + e.ltw.length + e.piecewise.length := by
    rcases h2 with h2 | h2 <;> simp [h2]
  have e3 : (if (e.seamless_splice.length == 5) = true then
        slice (Ext_bytes e) (1 + 1 + e.ltw.length + e.piecewise.length) (1 + 1 + e.ltw.length + e.piecewise.length + 5) else [])
      = e.seamless_splice := by
    rcases h3 with h3 | h3
    · simp [List.eq_nil_of_length_eq_zero h3]
    · simp only [h3, beq_self_eq_true, if_true]; rw [h3] at s3; exact s3
  have o3 : (if (e.seamless_splice.length == 5) = true then 1 + 1 + e.ltw.length + e.piecewise.length + 5
        else 1 + 1 + e.ltw.length + e.piecewise.length) = Ext_len e := by
    unfold Ext_len
    rcases h3 with h3 | h3 <;> simp [h3] <;> omega
  rw [o1, e1, o2, e2, o3, e3]
  rfl

/-! ### MPEGAdaption -/

def AF_spl (a : AF) : Bytes := if 0 < a.splice_countdown then encInt true 1 a.splice_countdown else []
def AF_tl (a : AF) : Bytes := if 0 < a.private_data.length then encInt true 1 a.private_data.length else []
def AF_extb (a : AF) : Bytes :=
  match a.adaption_extension with
  | none => []
  | some x => Ext_bytes x

/-- number of bytes after the length byte that carry data (flags byte and the optional parts) -/
def AF_dataLen (a : AF) : Nat :=
  a.pcr.length + a.opcr.length + (AF_tl a).length + a.private_data.length + (AF_extb a).length +
    (AF_spl a).length + 1

/-- the emitted adaptation_field_length -/
def AF_lenByte (a : AF) : Nat := if a.length > AF_dataLen a then a.length else AF_dataLen a

def AF_flagsByte (a : AF) : Nat :=
  a.discontinutiy.toNat * 128 + a.random_access.toNat * 64 + a.es_priority.toNat * 32 +
  (decide (0 < a.pcr.length)).toNat * 16 + (decide (0 < a.opcr.length)).toNat * 8 +
  (decide (0 < a.splice_countdown)).toNat * 4 + (decide (0 < a.private_data.length)).toNat * 2 +
  a.adaption_extension.isSome.toNat

/-- every part absent or of its exact size, every value fits its byte, and no flag is set without
    its part (pack never clears a flag) -/
def AF_WF (a : AF) : Prop :=
  (a.pcr.length = 0 ∨ a.pcr.length = 6) ∧ (a.opcr.length = 0 ∨ a.opcr.length = 6) ∧
  a.splice_countdown < 256 ∧ a.private_data.length < 256 ∧
  (∀ x, a.adaption_extension = some x → Ext_WF x) ∧
  (a.pcr_flag = true → 0 < a.pcr.length) ∧ (a.opcr_flag = true → 0 < a.opcr.length) ∧
  (a.splicing_flag = true → 0 < a.splice_countdown) ∧ (a.transpart_flag = true → 0 < a.private_data.length) ∧
  (a.extension_flag = true → a.adaption_extension.isSome = true) ∧
  AF_lenByte a < 256

/-- the object after `pack` (and after decoding its encoding) -/
def AF_packed (a : AF) : AF :=
  { a with length := AF_lenByte a, pcr_flag := decide (0 < a.pcr.length), opcr_flag := decide (0 < a.opcr.length),
           splicing_flag := decide (0 < a.splice_countdown), transpart_flag := decide (0 < a.private_data.length),
           extension_flag := a.adaption_extension.isSome,
           adaption_extension := a.adaption_extension.map Ext_packed }

/-- the bytes `MPEGAdaption.pack` emits -/
def AF_bytes (a : AF) : Bytes :=
  encInt true 1 (AF_lenByte a) ++ (encInt true 1 (AF_flagsByte a) ++ (a.pcr ++ (a.opcr ++ (AF_spl a ++ (AF_tl a ++
    (a.private_data ++ (AF_extb a ++ List.replicate (AF_lenByte a - AF_dataLen a) (0xFF : UInt8))))))))

theorem AF_flagsByte_lt (a : AF) : AF_flagsByte a < 256 :=
  (flag_bits a.discontinutiy a.random_access a.es_priority _ _ _ _ _).2.2.2.2.2.2.2.2

theorem pack_u8 (f : Fmt) (hf : f = ⟨true, [.u8]⟩) (n : Nat) (h : n < 256) :
    structPack f [n] = .ok (encInt true 1 n) := by
  subst hf
  have : Fits (⟨true, [.u8]⟩ : Fmt).codes [n] := by simp [Fits, Code.bound]; omega
  rw [structPack_eq _ _ this]; simp [encCodes, Code.size]

theorem pack_u8u8 (f : Fmt) (hf : f = ⟨true, [.u8, .u8]⟩) (n m : Nat) (h : n < 256) (h2 : m < 256) :
    structPack f [n, m] = .ok (encInt true 1 n ++ encInt true 1 m) := by
  subst hf
  have : Fits (⟨true, [.u8, .u8]⟩ : Fmt).codes [n, m] := by simp [Fits, Code.bound]; omega
  rw [structPack_eq _ _ this]; simp [encCodes, Code.size]

theorem flag_on (f : Bool) (n : Nat) (h : f = true → 0 < n) : (if 0 < n then true else f) = decide (0 < n) := by
  by_cases hn : 0 < n
  · simp [hn]
  · cases f <;> simp_all

theorem flag_or (f : Bool) (p : Prop) [Decidable p] (h : f = true → p) : (f || decide p) = decide p := by
  cases f <;> simp_all

theorem AF_pack_eq (a : AF) (h : AF_WF a) : AF.pack a = (AF_packed a, .ok (AF_bytes a)) := by
  obtain ⟨hp, ho, hs, hd, hx, f1, f2, f3, f4, f5, hlen⟩ := h
  have c0 : ¬ (0 < a.pcr.length ∧ a.pcr.length ≠ 6) := by omega
  have hfl := AF_flagsByte_lt a
  have p0 : (if 0 < a.splice_countdown then structPack AF_pack_fmt0 [a.splice_countdown] else .ok []) = .ok (AF_spl a) := by
    unfold AF_spl; split <;> simp [pack_u8 AF_pack_fmt0 rfl a.splice_countdown hs]
  have p1 : (if 0 < a.private_data.length then structPack AF_pack_fmt1 [a.private_data.length] else .ok []) = .ok (AF_tl a) := by
    unfold AF_tl; split <;> simp [pack_u8 AF_pack_fmt1 rfl a.private_data.length hd]
  have p2 := pack_u8u8 AF_pack_fmt2 rfl (AF_lenByte a) (AF_flagsByte a) hlen hfl
  unfold AF.pack
  simp only [c0, if_false, p0, p1, flag_or _ _ f1, flag_or _ _ f2, flag_or _ _ f3, flag_or _ _ f4]
  cases hxx : a.adaption_extension with
  | none =>
    have e5 : a.extension_flag = false := by
      cases h5 : a.extension_flag
      · rfl
      · have := f5 h5; simp [hxx] at this
    have hd' : a.pcr.length + a.opcr.length + (AF_tl a).length + a.private_data.length + ([] : Bytes).length +
        (AF_spl a).length + 1 = AF_dataLen a := by simp [AF_dataLen, AF_extb, hxx]
    have hfb : a.discontinutiy.toNat * 128 + a.random_access.toNat * 64 + a.es_priority.toNat * 32 +
        (decide (0 < a.pcr.length)).toNat * 16 + (decide (0 < a.opcr.length)).toNat * 8 +
        (decide (0 < a.splice_countdown)).toNat * 4 + (decide (0 < a.private_data.length)).toNat * 2 +
        a.extension_flag.toNat = AF_flagsByte a := by simp [AF_flagsByte, hxx, e5]
    simp only [hd', hfb]
    have hlb : (if a.length > AF_dataLen a then a.length else AF_dataLen a) = AF_lenByte a := rfl
    simp only [hlb, p2]
    simp [AF_packed, AF_bytes, AF_extb, hxx, e5]
  | some x =>
    have hd' : a.pcr.length + a.opcr.length + (AF_tl a).length + a.private_data.length + (Ext_bytes x).length +
        (AF_spl a).length + 1 = AF_dataLen a := by simp [AF_dataLen, AF_extb, hxx]
    have hfb : a.discontinutiy.toNat * 128 + a.random_access.toNat * 64 + a.es_priority.toNat * 32 +
        (decide (0 < a.pcr.length)).toNat * 16 + (decide (0 < a.opcr.length)).toNat * 8 +
        (decide (0 < a.splice_countdown)).toNat * 4 + (decide (0 < a.private_data.length)).toNat * 2 +
        true.toNat = AF_flagsByte a := by simp [AF_flagsByte, hxx]
    simp only [Ext_pack_eq x (hx x hxx), hd', hfb]
    have hlb : (if a.length > AF_dataLen a then a.length else AF_dataLen a) = AF_lenByte a := rfl
    simp only [hlb, p2]
    simp [AF_packed, AF_bytes, AF_extb, hxx]

end Acra.Lemmas.MPEGTS
