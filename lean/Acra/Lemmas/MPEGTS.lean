/-
  Helper lemmas for MPEGTS.py: closed forms of what the models' pack functions emit under the
  well-formedness predicates, and what the models' unpack functions make of those bytes.
  Property theorems are in Acra/Props.
-/
import Acra.Model.MPEGTS
namespace Acra.Lemmas.MPEGTS
open Acra.Py Acra.Model.MPEGTS Acra.Gen.MPEGTS

/-! ### generic list / flag facts -/

theorem replicate_ff_length (n : Nat) : (List.replicate n (0xFF : UInt8)).length = n := by simp

/-- the eight flag bits of a flags byte built as a sum -/
theorem flag_bits (b7 b6 b5 b4 b3 b2 b1 b0 : Bool) :
    let f := b7.toNat * 128 + b6.toNat * 64 + b5.toNat * 32 + b4.toNat * 16 + b3.toNat * 8 + b2.toNat * 4 +
      b1.toNat * 2 + b0.toNat
    (f / 128 % 2 == 1) = b7 ∧ (f / 64 % 2 == 1) = b6 ∧ (f / 32 % 2 == 1) = b5 ∧ (f / 16 % 2 == 1) = b4 ∧
    (f / 8 % 2 == 1) = b3 ∧ (f / 4 % 2 == 1) = b2 ∧ (f / 2 % 2 == 1) = b1 ∧ (f % 2 == 1) = b0 ∧ f < 256 := by
  cases b7 <;> cases b6 <;> cases b5 <;> cases b4 <;> cases b3 <;> cases b2 <;> cases b1 <;> cases b0 <;> decide

/-! ### MPEGAdaptionExtension -/

/-- every part absent or of its exact size -/
def Ext_WF (e : Ext) : Prop :=
  (e.ltw.length = 0 ∨ e.ltw.length = 2) ∧ (e.piecewise.length = 0 ∨ e.piecewise.length = 3) ∧
  (e.seamless_splice.length = 0 ∨ e.seamless_splice.length = 5)

instance (e : Ext) : Decidable (Ext_WF e) := by unfold Ext_WF; infer_instance

/-- the object after `pack` (and after decoding its encoding): flags say which parts are present -/
def Ext_packed (e : Ext) : Ext :=
  { e with ltw_flag := e.ltw.length == 2, piecewise_rate_flag := e.piecewise.length == 3,
           seamless_splice_flag := e.seamless_splice.length == 5 }

def Ext_len (e : Ext) : Nat := 2 + e.ltw.length + e.piecewise.length + e.seamless_splice.length

def Ext_flags (e : Ext) : Nat :=
  0x1F + (e.ltw.length == 2).toNat * 128 + (e.piecewise.length == 3).toNat * 64 +
    (e.seamless_splice.length == 5).toNat * 32

/-- the bytes `MPEGAdaptionExtension.pack` emits -/
def Ext_bytes (e : Ext) : Bytes :=
  encInt true 1 (Ext_len e) ++ (encInt true 1 (Ext_flags e) ++ (e.ltw ++ (e.piecewise ++ e.seamless_splice)))

@[simp] theorem Ext_bytes_length (e : Ext) : (Ext_bytes e).length = Ext_len e := by
  simp [Ext_bytes, Ext_len]; omega

theorem Ext_len_le (e : Ext) (h : Ext_WF e) : Ext_len e ≤ 12 := by
  obtain ⟨h1, h2, h3⟩ := h
  unfold Ext_len; omega

theorem Ext_flags_lt (e : Ext) : Ext_flags e < 256 := by
  unfold Ext_flags
  cases (e.ltw.length == 2) <;> cases (e.piecewise.length == 3) <;> cases (e.seamless_splice.length == 5) <;> decide

theorem Ext_pack_eq (e : Ext) (h : Ext_WF e) : Ext.pack e = (Ext_packed e, .ok (Ext_bytes e)) := by
  have hl := Ext_len_le e h
  have hfl := Ext_flags_lt e
  obtain ⟨h1, h2, h3⟩ := h
  have c1 : ¬ (e.ltw.length ≠ 2 ∧ e.ltw.length ≠ 0) := by omega
  have c2 : ¬ (e.piecewise.length ≠ 3 ∧ e.piecewise.length ≠ 0) := by omega
  have c3 : ¬ (e.seamless_splice.length ≠ 5 ∧ e.seamless_splice.length ≠ 0) := by omega
  have hf : Fits Ext_pack_fmt0.codes [Ext_len e, Ext_flags e] := by
    simp [Fits, Ext_pack_fmt0, Code.bound]; omega
  simp only [Ext.pack, c1, c2, c3, if_false]
  have : (2 + e.ltw.length + e.piecewise.length + e.seamless_splice.length) = Ext_len e := rfl
  rw [this]
  have : (31 + (e.ltw.length == 2).toNat * 128 + (e.piecewise.length == 3).toNat * 64 +
      (e.seamless_splice.length == 5).toNat * 32) = Ext_flags e := rfl
  rw [this, structPack_eq _ _ hf]
  simp [Ext_packed, Ext_bytes, Ext_pack_fmt0, encCodes, Code.size]

/-- three consecutive parts after a header: each slice returns its part -/
theorem slice_parts (h l p s r : List α) :
    slice (h ++ (l ++ (p ++ (s ++ r)))) h.length (h.length + l.length) = l ∧
    slice (h ++ (l ++ (p ++ (s ++ r)))) (h.length + l.length) (h.length + l.length + p.length) = p ∧
    slice (h ++ (l ++ (p ++ (s ++ r)))) (h.length + l.length + p.length) (h.length + l.length + p.length + s.length) = s := by
  refine ⟨slice_mid _ _ _ _ _ rfl rfl, ?_, ?_⟩
  · rw [← List.append_assoc h l]
    exact slice_mid _ _ _ _ _ (by simp) (by simp)
  · rw [← List.append_assoc h l, ← List.append_assoc (h ++ l) p]
    exact slice_mid _ _ _ _ _ (by simp; omega) (by simp; omega)

theorem Ext_flag_bits (e : Ext) :
    (Ext_flags e / 128 % 2 == 1) = (e.ltw.length == 2) ∧ (Ext_flags e / 64 % 2 == 1) = (e.piecewise.length == 3) ∧
    (Ext_flags e / 32 % 2 == 1) = (e.seamless_splice.length == 5) := by
  unfold Ext_flags
  cases (e.ltw.length == 2) <;> cases (e.piecewise.length == 3) <;> cases (e.seamless_splice.length == 5) <;> decide

/-- decoding the packed extension (followed by anything) into an object in any state -/
theorem Ext_unpack_bytes (e t : Ext) (rest : Bytes) (h : Ext_WF e) :
    Ext.unpack t (Ext_bytes e ++ rest) = (Ext_packed e, .ok (Ext_len e)) := by
  have hl := Ext_len_le e h
  have hfl := Ext_flags_lt e
  obtain ⟨hb1, hb2, hb3⟩ := Ext_flag_bits e
  obtain ⟨h1, h2, h3⟩ := h
  have hhdr : unpackCodes true Ext_unpack_fmt0.codes (Ext_bytes e ++ rest) = [Ext_len e, Ext_flags e] := by
    simp only [Ext_bytes, Ext_unpack_fmt0, unpackCodes, Code.size, List.append_assoc, take_encInt_append,
      drop_encInt_append]
    rw [decInt_encInt1 _ _ (by omega), decInt_encInt1 _ _ (by omega)]
  have hsz : 0 + Ext_unpack_fmt0.size ≤ (Ext_bytes e ++ rest).length := by
    simp [Ext_unpack_fmt0, Fmt.size, codesSize, Code.size, Ext_len]; omega
  have hnl : ¬ ((Ext_bytes e ++ rest).length < Ext_len e) := by simp
  have htake : List.take (Ext_len e) (Ext_bytes e ++ rest) = Ext_bytes e := take_append_len _ _ _ (by simp)
  simp only [Ext.unpack, structUnpackFrom, hsz, if_true, List.drop_zero, show Ext_unpack_fmt0.big = true from rfl,
    hhdr, hnl, if_false, htake, hb1, hb2, hb3]
  -- the three parts
  have hsp := slice_parts (encInt true 1 (Ext_len e) ++ encInt true 1 (Ext_flags e)) e.ltw e.piecewise e.seamless_splice []
  simp only [List.length_append, encInt_length, List.append_nil, List.append_assoc] at hsp
  obtain ⟨s1, s2, s3⟩ := hsp
  have e1 : (if (e.ltw.length == 2) = true then slice (Ext_bytes e) 2 4 else []) = e.ltw := by
    rcases h1 with h1 | h1
    · simp [List.eq_nil_of_length_eq_zero h1]
    · simp only [h1, beq_self_eq_true, if_true]; rw [h1] at s1; exact s1
  have o1 : (if (e.ltw.length == 2) = true then 4 else 2) = 1 + 1 + e.ltw.length := by
    rcases h1 with h1 | h1 <;> simp [h1]
  have e2 : (if (e.piecewise.length == 3) = true then slice (Ext_bytes e) (1 + 1 + e.ltw.length) (1 + 1 + e.ltw.length + 3) else [])
      = e.piecewise := by
    rcases h2 with h2 | h2
    · simp [List.eq_nil_of_length_eq_zero h2]
    · simp only [h2, beq_self_eq_true, if_true]; rw [h2] at s2; exact s2
  have o2 : (if (e.piecewise.length == 3) = true then 1 + 1 + e.ltw.length + 3 else 1 + 1 + e.ltw.length)
      = 1 + 1 + e.ltw.length + e.piecewise.length := by
    rcases h2 with h2 | h2 <;> simp [h2]
  have e3 : (if (e.seamless_splice.length == 5) = true then
        slice (Ext_bytes e) (1 + 1 + e.ltw.length + e.piecewise.length) (1 + 1 + e.ltw.length + e.piecewise.length + 5) else [])
      = e.seamless_splice := by
    rcases h3 with h3 | h3
    · simp [List.eq_nil_of_length_eq_zero h3]
    · simp only [h3, beq_self_eq_true, if_true]; rw [h3] at s3; exact s3
  have o3 : (if (e.seamless_splice.length == 5) = true then 1 + 1 + e.ltw.length + e.piecewise.length + 5
        else 1 + 1 + e.ltw.length + e.piecewise.length) = Ext_len e := by
    unfold Ext_len
    rcases h3 with h3 | h3 <;> simp [h3] <;> omega
  rw [o1, e1, o2, e2, o3, e3]
  rfl

/-! ### MPEGAdaption -/

def AF_spl (a : AF) : Bytes := if 0 < a.splice_countdown then encInt true 1 a.splice_countdown else []
def AF_tl (a : AF) : Bytes := if 0 < a.private_data.length then encInt true 1 a.private_data.length else []
def AF_extb (a : AF) : Bytes :=
  match a.adaption_extension with
  | none => []
  | some x => Ext_bytes x

/-- number of bytes after the length byte that carry data (flags byte and the optional parts) -/
def AF_dataLen (a : AF) : Nat :=
  a.pcr.length + a.opcr.length + (AF_tl a).length + a.private_data.length + (AF_extb a).length +
    (AF_spl a).length + 1

/-- the emitted adaptation_field_length -/
def AF_lenByte (a : AF) : Nat := if a.length > AF_dataLen a then a.length else AF_dataLen a

def AF_flagsByte (a : AF) : Nat :=
  a.discontinutiy.toNat * 128 + a.random_access.toNat * 64 + a.es_priority.toNat * 32 +
  (decide (0 < a.pcr.length)).toNat * 16 + (decide (0 < a.opcr.length)).toNat * 8 +
  (decide (0 < a.splice_countdown)).toNat * 4 + (decide (0 < a.private_data.length)).toNat * 2 +
  a.adaption_extension.isSome.toNat

/-- every part absent or of its exact size, every value fits its byte, and no flag is set without
    its part (pack never clears a flag) -/
def AF_WF (a : AF) : Prop :=
  (a.pcr.length = 0 ∨ a.pcr.length = 6) ∧ (a.opcr.length = 0 ∨ a.opcr.length = 6) ∧
  a.splice_countdown < 256 ∧ a.private_data.length < 256 ∧
  (∀ x, a.adaption_extension = some x → Ext_WF x) ∧
  (a.pcr_flag = true → 0 < a.pcr.length) ∧ (a.opcr_flag = true → 0 < a.opcr.length) ∧
  (a.splicing_flag = true → 0 < a.splice_countdown) ∧ (a.transpart_flag = true → 0 < a.private_data.length) ∧
  (a.extension_flag = true → a.adaption_extension.isSome = true) ∧
  AF_lenByte a < 256

/-- the object after `pack` (and after decoding its encoding) -/
def AF_packed (a : AF) : AF :=
  { a with length := AF_lenByte a, pcr_flag := decide (0 < a.pcr.length), opcr_flag := decide (0 < a.opcr.length),
           splicing_flag := decide (0 < a.splice_countdown), transpart_flag := decide (0 < a.private_data.length),
           extension_flag := a.adaption_extension.isSome,
           adaption_extension := a.adaption_extension.map Ext_packed }

/-- the bytes `MPEGAdaption.pack` emits -/
def AF_bytes (a : AF) : Bytes :=
  encInt true 1 (AF_lenByte a) ++ (encInt true 1 (AF_flagsByte a) ++ (a.pcr ++ (a.opcr ++ (AF_spl a ++ (AF_tl a ++
    (a.private_data ++ (AF_extb a ++ List.replicate (AF_lenByte a - AF_dataLen a) (0xFF : UInt8))))))))

theorem AF_flagsByte_lt (a : AF) : AF_flagsByte a < 256 :=
  (flag_bits a.discontinutiy a.random_access a.es_priority _ _ _ _ _).2.2.2.2.2.2.2.2

theorem pack_u8 (f : Fmt) (hf : f = ⟨true, [.u8]⟩) (n : Nat) (h : n < 256) :
    structPack f [n] = .ok (encInt true 1 n) := by
  subst hf
  have : Fits (⟨true, [.u8]⟩ : Fmt).codes [n] := by simp [Fits, Code.bound]; omega
  rw [structPack_eq _ _ this]; simp [encCodes, Code.size]

theorem pack_u8u8 (f : Fmt) (hf : f = ⟨true, [.u8, .u8]⟩) (n m : Nat) (h : n < 256) (h2 : m < 256) :
    structPack f [n, m] = .ok (encInt true 1 n ++ encInt true 1 m) := by
  subst hf
  have : Fits (⟨true, [.u8, .u8]⟩ : Fmt).codes [n, m] := by simp [Fits, Code.bound]; omega
  rw [structPack_eq _ _ this]; simp [encCodes, Code.size]

theorem flag_on (f : Bool) (n : Nat) (h : f = true → 0 < n) : (if 0 < n then true else f) = decide (0 < n) := by
  by_cases hn : 0 < n
  · simp [hn]
  · cases f <;> simp_all

theorem flag_or (f : Bool) (p : Prop) [Decidable p] (h : f = true → p) : (f || decide p) = decide p := by
  cases f <;> simp_all

theorem AF_pack_eq (a : AF) (h : AF_WF a) : AF.pack a = (AF_packed a, .ok (AF_bytes a)) := by
  obtain ⟨hp, ho, hs, hd, hx, f1, f2, f3, f4, f5, hlen⟩ := h
  have c0 : ¬ (0 < a.pcr.length ∧ a.pcr.length ≠ 6) := by omega
  have hfl := AF_flagsByte_lt a
  have p0 : (if 0 < a.splice_countdown then structPack AF_pack_fmt0 [a.splice_countdown] else .ok []) = .ok (AF_spl a) := by
    unfold AF_spl; split <;> simp [pack_u8 AF_pack_fmt0 rfl a.splice_countdown hs]
  have p1 : (if 0 < a.private_data.length then structPack AF_pack_fmt1 [a.private_data.length] else .ok []) = .ok (AF_tl a) := by
    unfold AF_tl; split <;> simp [pack_u8 AF_pack_fmt1 rfl a.private_data.length hd]
  have p2 := pack_u8u8 AF_pack_fmt2 rfl (AF_lenByte a) (AF_flagsByte a) hlen hfl
  unfold AF.pack
  simp only [c0, if_false, p0, p1, flag_or _ _ f1, flag_or _ _ f2, flag_or _ _ f3, flag_or _ _ f4]
  cases hxx : a.adaption_extension with
  | none =>
    have e5 : a.extension_flag = false := by
      cases h5 : a.extension_flag
      · rfl
      · have := f5 h5; simp [hxx] at this
    have hd' : a.pcr.length + a.opcr.length + (AF_tl a).length + a.private_data.length + ([] : Bytes).length +
        (AF_spl a).length + 1 = AF_dataLen a := by simp [AF_dataLen, AF_extb, hxx]
    have hfb : a.discontinutiy.toNat * 128 + a.random_access.toNat * 64 + a.es_priority.toNat * 32 +
        (decide (0 < a.pcr.length)).toNat * 16 + (decide (0 < a.opcr.length)).toNat * 8 +
        (decide (0 < a.splice_countdown)).toNat * 4 + (decide (0 < a.private_data.length)).toNat * 2 +
        a.extension_flag.toNat = AF_flagsByte a := by simp [AF_flagsByte, hxx, e5]
    simp only [hd', hfb]
    have hlb : (if a.length > AF_dataLen a then a.length else AF_dataLen a) = AF_lenByte a := rfl
    simp only [hlb, p2]
    simp [AF_packed, AF_bytes, AF_extb, hxx, e5]
  | some x =>
    have hd' : a.pcr.length + a.opcr.length + (AF_tl a).length + a.private_data.length + (Ext_bytes x).length +
        (AF_spl a).length + 1 = AF_dataLen a := by simp [AF_dataLen, AF_extb, hxx]
    have hfb : a.discontinutiy.toNat * 128 + a.random_access.toNat * 64 + a.es_priority.toNat * 32 +
        (decide (0 < a.pcr.length)).toNat * 16 + (decide (0 < a.opcr.length)).toNat * 8 +
        (decide (0 < a.splice_countdown)).toNat * 4 + (decide (0 < a.private_data.length)).toNat * 2 +
        true.toNat = AF_flagsByte a := by simp [AF_flagsByte, hxx]
    simp only [Ext_pack_eq x (hx x hxx), hd', hfb]
    have hlb : (if a.length > AF_dataLen a then a.length else AF_dataLen a) = AF_lenByte a := rfl
    simp only [hlb, p2]
    simp [AF_packed, AF_bytes, AF_extb, hxx]

theorem read_u8 (f : Fmt) (hf : f = ⟨true, [.u8]⟩) (pre rest : Bytes) (n : Nat) (h : n < 256) (off : Nat)
    (hoff : off = pre.length) :
    structUnpackFrom f (pre ++ (encInt true 1 n ++ rest)) off = .ok [n] := by
  subst hf
  have hfit : Fits (⟨true, [.u8]⟩ : Fmt).codes [n] := by simp [Fits, Code.bound]; omega
  have := structUnpackFrom_enc ⟨true, [.u8]⟩ [n] pre rest hfit off hoff
  simpa [encCodes, Code.size] using this

theorem AF_spl_length (a : AF) : (AF_spl a).length = if 0 < a.splice_countdown then 1 else 0 := by
  unfold AF_spl; split <;> simp
theorem AF_tl_length (a : AF) : (AF_tl a).length = if 0 < a.private_data.length then 1 else 0 := by
  unfold AF_tl; split <;> simp

def AF_hdr (a : AF) : Bytes := encInt true 1 (AF_lenByte a) ++ encInt true 1 (AF_flagsByte a)
@[simp] theorem AF_hdr_length (a : AF) : (AF_hdr a).length = 2 := by simp [AF_hdr]

/-- decoding the packed adaptation field (followed by anything) into an object in any state -/
theorem AF_unpack_bytes (a t : AF) (rest : Bytes) (h : AF_WF a) :
    AF.unpack t (AF_bytes a ++ rest) = (AF_packed a, .ok ()) := by
  obtain ⟨hp, ho, hs, hd, hx, f1, f2, f3, f4, f5, hlen⟩ := h
  have hfl := AF_flagsByte_lt a
  obtain ⟨b7, b6, b5, b4, b3, b2, b1, b0, _⟩ := flag_bits a.discontinutiy a.random_access a.es_priority
    (decide (0 < a.pcr.length)) (decide (0 < a.opcr.length)) (decide (0 < a.splice_countdown))
    (decide (0 < a.private_data.length)) a.adaption_extension.isSome
  have hfb : AF_flagsByte a = a.discontinutiy.toNat * 128 + a.random_access.toNat * 64 + a.es_priority.toNat * 32 +
        (decide (0 < a.pcr.length)).toNat * 16 + (decide (0 < a.opcr.length)).toNat * 8 +
        (decide (0 < a.splice_countdown)).toNat * 4 + (decide (0 < a.private_data.length)).toNat * 2 +
        a.adaption_extension.isSome.toNat := rfl
  rw [← hfb] at b7 b6 b5 b4 b3 b2 b1 b0
  -- the buffer, with the tail after the private data folded
  generalize hT : AF_extb a ++ (List.replicate (AF_lenByte a - AF_dataLen a) (0xFF : UInt8) ++ rest) = T
  have hB : AF_bytes a ++ rest = AF_hdr a ++ (a.pcr ++ (a.opcr ++ (AF_spl a ++ (AF_tl a ++ (a.private_data ++ T))))) := by
    simp only [AF_bytes, AF_hdr, List.append_assoc, ← hT]
  rw [hB]
  have h0 : structUnpackFrom AF_unpack_fmt0 (AF_hdr a ++ (a.pcr ++ (a.opcr ++ (AF_spl a ++ (AF_tl a ++ (a.private_data ++ T)))))) 0
      = .ok [AF_lenByte a, AF_flagsByte a] := by
    have hfit : Fits AF_unpack_fmt0.codes [AF_lenByte a, AF_flagsByte a] := by
      simp [Fits, AF_unpack_fmt0, Code.bound]; omega
    have := structUnpackFrom_enc0 AF_unpack_fmt0 [AF_lenByte a, AF_flagsByte a]
      (a.pcr ++ (a.opcr ++ (AF_spl a ++ (AF_tl a ++ (a.private_data ++ T))))) hfit
    simpa [encCodes, AF_unpack_fmt0, Code.size, AF_hdr, List.append_assoc] using this
  -- offsets
  have o1 : (if decide (0 < a.pcr.length) = true then 8 else 2) = 2 + a.pcr.length := by
    rcases hp with hp | hp <;> simp [hp]
  have o2 : (if decide (0 < a.opcr.length) = true then 2 + a.pcr.length + 6 else 2 + a.pcr.length)
      = 2 + a.pcr.length + a.opcr.length := by
    rcases ho with ho | ho <;> simp [ho]
  have o3 : (if decide (0 < a.splice_countdown) = true then 2 + a.pcr.length + a.opcr.length + 1
      else 2 + a.pcr.length + a.opcr.length) = 2 + a.pcr.length + a.opcr.length + (AF_spl a).length := by
    rw [AF_spl_length]; split <;> simp_all
  -- the parts
  have epcr : (if decide (0 < a.pcr.length) = true then
      slice (AF_hdr a ++ (a.pcr ++ (a.opcr ++ (AF_spl a ++ (AF_tl a ++ (a.private_data ++ T)))))) 2 8 else []) = a.pcr := by
    rcases hp with hp | hp
    · simp [List.eq_nil_of_length_eq_zero hp]
    · simp only [hp, show (0:Nat) < 6 by omega, decide_true, if_true]
      exact slice_mid _ _ _ _ _ (by simp) (by simp [hp])
  have eopcr : (if decide (0 < a.opcr.length) = true then
      slice (AF_hdr a ++ (a.pcr ++ (a.opcr ++ (AF_spl a ++ (AF_tl a ++ (a.private_data ++ T))))))
        (2 + a.pcr.length) (2 + a.pcr.length + 6) else []) = a.opcr := by
    rcases ho with ho | ho
    · simp [List.eq_nil_of_length_eq_zero ho]
    · simp only [ho, show (0:Nat) < 6 by omega, decide_true, if_true]
      rw [← List.append_assoc (AF_hdr a) a.pcr]
      exact slice_mid _ _ _ _ _ (by simp) (by simp [ho])
  have espl : (if decide (0 < a.splice_countdown) = true then
      structUnpackFrom AF_unpack_fmt1 (AF_hdr a ++ (a.pcr ++ (a.opcr ++ (AF_spl a ++ (AF_tl a ++ (a.private_data ++ T))))))
        (2 + a.pcr.length + a.opcr.length) else .ok [0]) = .ok [a.splice_countdown] := by
    by_cases hsc : 0 < a.splice_countdown
    · simp only [hsc, decide_true, if_true, AF_spl]
      rw [← List.append_assoc (AF_hdr a) a.pcr, ← List.append_assoc (AF_hdr a ++ a.pcr) a.opcr]
      exact read_u8 _ rfl _ _ _ hs _ (by simp <;> omega)
    · have : a.splice_countdown = 0 := by omega
      simp [this]
  have etl : (if decide (0 < a.private_data.length) = true then
      structUnpackFrom AF_unpack_fmt2 (AF_hdr a ++ (a.pcr ++ (a.opcr ++ (AF_spl a ++ (AF_tl a ++ (a.private_data ++ T))))))
        (2 + a.pcr.length + a.opcr.length + (AF_spl a).length) else .ok [0]) = .ok [a.private_data.length] := by
    by_cases hpd : 0 < a.private_data.length
    · simp only [hpd, decide_true, if_true, AF_tl]
      rw [← List.append_assoc (AF_hdr a) a.pcr, ← List.append_assoc (AF_hdr a ++ a.pcr) a.opcr,
        ← List.append_assoc (AF_hdr a ++ a.pcr ++ a.opcr) (AF_spl a)]
      exact read_u8 _ rfl _ _ _ hd _ (by simp <;> omega)
    · have : a.private_data.length = 0 := by omega
      simp [this]
  have epd : (if decide (0 < a.private_data.length) = true then
      slice (AF_hdr a ++ (a.pcr ++ (a.opcr ++ (AF_spl a ++ (AF_tl a ++ (a.private_data ++ T))))))
        (2 + a.pcr.length + a.opcr.length + (AF_spl a).length + 1)
        (2 + a.pcr.length + a.opcr.length + (AF_spl a).length + 1 + a.private_data.length) else []) = a.private_data := by
    by_cases hpd : 0 < a.private_data.length
    · simp only [hpd, decide_true, if_true]
      rw [← List.append_assoc (AF_hdr a) a.pcr, ← List.append_assoc (AF_hdr a ++ a.pcr) a.opcr,
        ← List.append_assoc (AF_hdr a ++ a.pcr ++ a.opcr) (AF_spl a),
        ← List.append_assoc (AF_hdr a ++ a.pcr ++ a.opcr ++ AF_spl a) (AF_tl a)]
      exact slice_mid _ _ _ _ _ (by simp [AF_tl_length, hpd] <;> omega) (by simp [AF_tl_length, hpd] <;> omega)
    · have : a.private_data.length = 0 := by omega
      simp [List.eq_nil_of_length_eq_zero this]
  have o4 : (if decide (0 < a.private_data.length) = true then
        2 + a.pcr.length + a.opcr.length + (AF_spl a).length + 1 + a.private_data.length
      else 2 + a.pcr.length + a.opcr.length + (AF_spl a).length)
      = 2 + a.pcr.length + a.opcr.length + (AF_spl a).length + (AF_tl a).length + a.private_data.length := by
    by_cases hpd : 0 < a.private_data.length
    · simp only [hpd, decide_true, if_true, AF_tl_length]
    · have : a.private_data.length = 0 := by omega
      simp only [AF_tl_length, this]; simp
  have edrop : List.drop (2 + a.pcr.length + a.opcr.length + (AF_spl a).length + (AF_tl a).length + a.private_data.length)
      (AF_hdr a ++ (a.pcr ++ (a.opcr ++ (AF_spl a ++ (AF_tl a ++ (a.private_data ++ T)))))) = T := by
    rw [← List.append_assoc (AF_hdr a) a.pcr, ← List.append_assoc (AF_hdr a ++ a.pcr) a.opcr,
        ← List.append_assoc (AF_hdr a ++ a.pcr ++ a.opcr) (AF_spl a),
        ← List.append_assoc (AF_hdr a ++ a.pcr ++ a.opcr ++ AF_spl a) (AF_tl a),
        ← List.append_assoc (AF_hdr a ++ a.pcr ++ a.opcr ++ AF_spl a ++ AF_tl a) a.private_data]
    exact drop_append_len _ _ _ (by simp <;> omega)
  simp only [AF.unpack, h0, b7, b6, b5, b4, b3, b2, b1, b0, o1, o2, epcr, eopcr, espl, o3, etl, epd, o4, edrop]
  cases hxx : a.adaption_extension with
  | none => simp [AF_packed, hxx]
  | some x =>
    have : T = Ext_bytes x ++ (List.replicate (AF_lenByte a - AF_dataLen a) (0xFF : UInt8) ++ rest) := by
      rw [← hT]; simp [AF_extb, hxx]
    simp only [Option.isSome_some, if_true, this, Ext_unpack_bytes x Ext.fresh _ (hx x hxx)]
    simp [AF_packed, hxx]

theorem AF_bytes_length (a : AF) : (AF_bytes a).length = AF_lenByte a + 1 := by
  have : AF_dataLen a ≤ AF_lenByte a := by unfold AF_lenByte; split <;> omega
  simp only [AF_bytes, List.length_append, encInt_length, List.length_replicate]
  unfold AF_dataLen at *
  omega

theorem AF_lenByte_pos (a : AF) : 0 < AF_lenByte a := by
  unfold AF_lenByte AF_dataLen; split <;> omega

/-! ### MPEGPacket -/

def Pkt_WF (p : Pkt) : Prop :=
  p.sync < 256 ∧ p.pid < 8192 ∧ p.transport_priority < 2 ∧ p.tsc < 4 ∧ p.adaption_ctrl < 4 ∧
  p.continuitycounter < 16 ∧ (∀ a, p.adaption_field = some a → AF_WF a)

def Pkt_pidFull (p : Pkt) : Nat := p.pid + p.transport_priority * 8192 + p.pusi.toNat * 16384 + p.tei.toNat * 32768
def Pkt_cont (p : Pkt) : Nat := p.continuitycounter + p.adaption_ctrl * 16 + p.tsc * 64

def Pkt_hdr (p : Pkt) : Bytes :=
  encInt true 1 p.sync ++ (encInt true 2 (Pkt_pidFull p) ++ encInt true 1 (Pkt_cont p))
@[simp] theorem Pkt_hdr_length (p : Pkt) : (Pkt_hdr p).length = 4 := by simp [Pkt_hdr]

def hasAF (p : Pkt) : Prop := p.adaption_ctrl = 2 ∨ p.adaption_ctrl = 3
instance (p : Pkt) : Decidable (hasAF p) := by unfold hasAF; infer_instance

/-- the adaptation bytes `MPEGPacket.pack` places after the header -/
def Pkt_af (p : Pkt) : Bytes :=
  if hasAF p then
    match p.adaption_field with
    | none => encInt true 1 0
    | some a => AF_bytes a
  else []

/-- bytes occupied by header, adaptation field and payload -/
def Pkt_used (p : Pkt) : Nat := 4 + (Pkt_af p).length + p.payload.length

def Pkt_unstuffed (p : Pkt) : Bytes := Pkt_hdr p ++ (Pkt_af p ++ p.payload)

def Pkt_bytes (p : Pkt) : Bytes :=
  Pkt_hdr p ++ (Pkt_af p ++ (p.payload ++ List.replicate (188 - Pkt_used p) (0xFF : UInt8)))

def Pkt_packed (p : Pkt) : Pkt :=
  if hasAF p then { p with adaption_field := p.adaption_field.map AF_packed } else p

theorem Pkt_bytes_length (p : Pkt) : (Pkt_bytes p).length = max 188 (Pkt_used p) := by
  simp only [Pkt_bytes, List.length_append, Pkt_hdr_length, List.length_replicate, Pkt_used]
  omega

theorem Pkt_pack_eq' (p : Pkt) (ns : Bool) (h : Pkt_WF p) :
    Pkt.pack p ns = (Pkt_packed p, .ok (if ns then Pkt_unstuffed p else Pkt_bytes p)) := by
  obtain ⟨h1, h2, h3, h4, h5, h6, h7⟩ := h
  have hfit : Fits Pkt_pack_fmt0.codes [p.sync, Pkt_pidFull p, Pkt_cont p] := by
    simp only [Fits, Pkt_pack_fmt0, Code.bound, Pkt_pidFull, Pkt_cont, and_true]
    cases p.pusi <;> cases p.tei <;> simp <;> omega
  have hz := pack_u8 Pkt_pack_fmt1 rfl 0 (by omega)
  unfold Pkt.pack
  have e1 : p.pid + p.transport_priority * 8192 + p.pusi.toNat * 16384 + p.tei.toNat * 32768 = Pkt_pidFull p := rfl
  have e2 : p.continuitycounter + p.adaption_ctrl * 16 + p.tsc * 64 = Pkt_cont p := rfl
  simp only [e1, e2, structPack_eq _ _ hfit, ADAPTION_ADAPTION_ONLY, ADAPTION_PAYLOAD_AND_ADAPTION]
  by_cases haf : hasAF p
  · have haf' : p.adaption_ctrl = 2 ∨ p.adaption_ctrl = 3 := haf
    simp only [haf', if_true]
    cases hx : p.adaption_field with
    | none =>
      simp only [hz]
      cases ns <;> simp [Pkt_packed, haf, hx, Pkt_bytes, Pkt_unstuffed, Pkt_hdr, Pkt_af, Pkt_used, Pkt_pack_fmt0, encCodes, Code.size] <;> (try refine ⟨?_, ?_⟩) <;> first | omega | (cases p; simp_all)
    | some a =>
      simp only [AF_pack_eq a (h7 a hx)]
      cases ns <;> simp [Pkt_packed, haf, hx, Pkt_bytes, Pkt_unstuffed, Pkt_hdr, Pkt_af, Pkt_used, Pkt_pack_fmt0, encCodes, Code.size] <;> (try refine ⟨?_, ?_⟩) <;> first | omega | (cases p; simp_all)
  · have haf' : ¬ (p.adaption_ctrl = 2 ∨ p.adaption_ctrl = 3) := haf
    simp only [haf', if_false]
    cases ns <;> simp [Pkt_packed, haf, Pkt_bytes, Pkt_unstuffed, Pkt_hdr, Pkt_af, Pkt_used, Pkt_pack_fmt0, encCodes, Code.size] <;> (try refine ⟨?_, ?_⟩) <;> first | omega | (cases p; simp_all)

def Pkt_stuffing (p : Pkt) : Bytes := List.replicate (188 - Pkt_used p) (0xFF : UInt8)

/-- what decoding the packed bytes gives: the header fields, the payload followed by the stuffing
    (the format carries no payload length), the adaptation field as `pack` left it -/
def Pkt_decoded (p : Pkt) : Pkt :=
  { p with payload := if p.adaption_ctrl = 1 ∨ p.adaption_ctrl = 3 then p.payload ++ Pkt_stuffing p else [],
           adaption_field := if hasAF p then p.adaption_field.map AF_packed else none }

theorem hdr_decode (p : Pkt) (h2 : p.pid < 8192) (h3 : p.transport_priority < 2) (h4 : p.tsc < 4)
    (h5 : p.adaption_ctrl < 4) (h6 : p.continuitycounter < 16) :
    Pkt_pidFull p % 8192 = p.pid ∧ (Pkt_pidFull p / 32768 % 2 == 1) = p.tei ∧ (Pkt_pidFull p / 16384 % 2 == 1) = p.pusi ∧
    Pkt_pidFull p / 8192 % 2 = p.transport_priority ∧ Pkt_cont p % 16 = p.continuitycounter ∧
    Pkt_cont p / 16 % 4 = p.adaption_ctrl ∧ Pkt_cont p / 64 % 4 = p.tsc ∧ Pkt_pidFull p < 65536 ∧ Pkt_cont p < 256 := by
  unfold Pkt_pidFull Pkt_cont
  cases p.pusi <;> cases p.tei <;> simp <;> omega

theorem Pkt_unpack_bytes (p t : Pkt) (h : Pkt_WF p) (hs : p.sync = 0x47)
    (h2af : p.adaption_ctrl = 2 → p.adaption_field.isSome = true) :
    Pkt.unpack t (Pkt_bytes p) = (Pkt_decoded p, .ok ()) := by
  obtain ⟨h1, h2, h3, h4, h5, h6, h7⟩ := h
  obtain ⟨d1, d2, d3, d4, d5, d6, d7, d8, d9⟩ := hdr_decode p h2 h3 h4 h5 h6
  have h0 : structUnpackFrom Pkt_unpack_fmt0 (Pkt_bytes p) 0 = .ok [p.sync, Pkt_pidFull p, Pkt_cont p] := by
    have hfit : Fits Pkt_unpack_fmt0.codes [p.sync, Pkt_pidFull p, Pkt_cont p] := by
      simp [Fits, Pkt_unpack_fmt0, Code.bound]; omega
    have := structUnpackFrom_enc0 Pkt_unpack_fmt0 [p.sync, Pkt_pidFull p, Pkt_cont p]
      (Pkt_af p ++ (p.payload ++ Pkt_stuffing p)) hfit
    simpa [encCodes, Pkt_unpack_fmt0, Code.size, Pkt_bytes, Pkt_hdr, Pkt_stuffing, List.append_assoc] using this
  have hdrop4 : List.drop 4 (Pkt_bytes p) = Pkt_af p ++ (p.payload ++ Pkt_stuffing p) :=
    drop_append_len _ _ _ (by simp)
  have hne : ¬ (p.sync ≠ 71) := by omega
  simp only [Pkt.unpack, h0, hne, if_false, d1, d2, d3, d4, d5, d6, d7, hdrop4, ADAPTION_PAYLOAD_AND_ADAPTION,
    ADAPTION_ADAPTION_ONLY, ADAPTION_PAYLOAD_ONLY]
  have hafc : p.adaption_ctrl = 0 ∨ p.adaption_ctrl = 1 ∨ p.adaption_ctrl = 2 ∨ p.adaption_ctrl = 3 := by omega
  rcases hafc with ha | ha | ha | ha
  · -- reserved: nothing decoded
    simp [ha, Pkt_decoded, hasAF, hs]
  · -- payload only
    have : Pkt_af p = [] := by simp [Pkt_af, hasAF, ha]
    simp [ha, Pkt_decoded, hasAF, this]
  · -- adaptation only
    obtain ⟨a, hx⟩ := Option.isSome_iff_exists.mp (h2af ha)
    have : Pkt_af p = AF_bytes a := by simp [Pkt_af, hasAF, ha, hx]
    simp only [ha, this, AF_unpack_bytes a AF.fresh _ (h7 a hx)]
    simp [Pkt_decoded, hasAF, ha, hx]
  · -- adaptation and payload
    cases hx : p.adaption_field with
    | none =>
      have haf : Pkt_af p = encInt true 1 0 := by simp [Pkt_af, hasAF, ha, hx]
      have hr : structUnpackFrom Pkt_unpack_fmt1 (Pkt_af p ++ (p.payload ++ Pkt_stuffing p)) 0 = .ok [0] := by
        rw [haf]; exact read_u8 _ rfl [] _ 0 (by omega) 0 rfl
      have hd5 : List.drop (4 + 1) (Pkt_bytes p) = p.payload ++ Pkt_stuffing p := by
        rw [Pkt_bytes, ← List.append_assoc (Pkt_hdr p), haf]
        exact drop_append_len _ _ _ (by simp)
      simp only [ha, hr, hd5]
      simp [Pkt_decoded, hasAF, ha, hx]
      | some a =>
      have haf : Pkt_af p = AF_bytes a := by simp [Pkt_af, hasAF, ha, hx]
      have hL := AF_bytes_length a
      have hpos := AF_lenByte_pos a
      have hwf := h7 a hx
      have hr : structUnpackFrom Pkt_unpack_fmt1 (Pkt_af p ++ (p.payload ++ Pkt_stuffing p)) 0 = .ok [AF_lenByte a] := by
        rw [haf]
        simp only [AF_bytes, List.append_assoc]
        exact read_u8 _ rfl [] _ _ hwf.2.2.2.2.2.2.2.2.2.2 0 rfl
      have hd5 : List.drop (4 + 1 + AF_lenByte a) (Pkt_bytes p) = p.payload ++ Pkt_stuffing p := by
        rw [Pkt_bytes, ← List.append_assoc (Pkt_hdr p), haf]
        exact drop_append_len _ _ _ (by simp [hL]; omega)
      have hsl : slice (Pkt_bytes p) 4 (AF_lenByte a + 1 + 4) = AF_bytes a := by
        rw [Pkt_bytes, haf]
        exact slice_mid _ _ _ _ _ (by simp) (by simp [hL]; omega)
      have hu := AF_unpack_bytes a AF.fresh [] hwf
      rw [List.append_nil] at hu
      simp only [ha, hr, hd5, hpos, if_true, hsl, hu]
      simp [Pkt_decoded, hasAF, ha, hx]
  
/-- `decOff_encAll` with a decoded value that is a function of the encoded record -/
theorem decOff_map (dec1 : Bytes → R (β × Nat)) (more : Nat → Nat → Bool) (enc1 : α → Bytes) (g : α → β)
    (xs : List α) (pre : Bytes) (fuel : Nat) (hfuel : xs.length < fuel)
    (hdec : ∀ x ∈ xs, ∀ rest, dec1 (enc1 x ++ rest) = .ok (g x, (enc1 x).length))
    (hmore : ∀ x ∈ xs, ∀ (p q : Bytes), more p.length (p ++ (enc1 x ++ q)).length = true)
    (hstop : ∀ n, more n n = false) :
    decOff dec1 more (pre ++ xs.flatMap enc1) fuel pre.length = .ok (xs.map g) := by
  induction xs generalizing pre fuel with
  | nil =>
    cases fuel with
    | zero => simp at hfuel
    | succ fuel => simp [decOff, hstop]
  | cons x xs ih =>
    cases fuel with
    | zero => simp at hfuel
    | succ fuel =>
      unfold decOff
      have hm := hmore x (by simp) pre (xs.flatMap enc1)
      simp only [List.flatMap_cons] at hm ⊢
      rw [hm]
      simp only [if_true, List.drop_left']
      rw [hdec x (by simp) (xs.flatMap enc1)]
      simp only
      have := ih (pre ++ enc1 x) fuel (by simp at hfuel; omega)
        (fun y hy => hdec y (by simp [hy])) (fun y hy => hmore y (by simp [hy]))
      simp only [List.append_assoc, List.length_append] at this
      rw [this]
      simp

/-- a buffer made of 188-byte chunks, each accepted by `MPEGPacket.unpack`, decodes to one packet per
    chunk, in order, each as if decoded alone by a fresh object -/
theorem TS_unpack_chunks (t : TS) (cs : List Bytes) (hlen : ∀ c ∈ cs, c.length = 188)
    (hok : ∀ c ∈ cs, (Pkt.unpack Pkt.fresh c).2 = .ok ()) :
    TS.unpack t (cs.flatMap id) = ({ blocks := cs.map fun c => (Pkt.unpack Pkt.fresh c).1 }, .ok true) := by
  have hge : cs.length ≤ (cs.flatMap id).length := by
    clear hok
    induction cs with
    | nil => simp
    | cons c cs ih =>
      have := hlen c (by simp)
      have := ih (fun d hd => hlen d (by simp [hd]))
      simp only [List.flatMap_cons, List.length_append, List.length_cons, id]; omega
  have := decOff_map decBlock moreBlocks id (fun c => (Pkt.unpack Pkt.fresh c).1) cs [] ((cs.flatMap id).length + 1)
    (by omega)
    (fun c hc rest => by
      have hl := hlen c hc
      have htake : List.take 188 (c ++ rest) = c := take_append_len _ _ _ hl.symm
      have := hok c hc
      simp only [decBlock, id, htake, hl]
      cases hu : Pkt.unpack Pkt.fresh c with
      | mk p r =>
        rw [hu] at this
        simp only at this
        subst this
        rfl)
    (fun c hc p q => by
      have hl := hlen c hc
      simp [moreBlocks, id, hl]; omega)
    (fun n => by simp [moreBlocks])
  simp only [List.nil_append, List.length_nil] at this
  simp only [TS.unpack, this]

theorem Ext_packed_WF (e : Ext) (h : Ext_WF e) : Ext_WF (Ext_packed e) := h

theorem AF_packed_WF (a : AF) (h : AF_WF a) : AF_WF (AF_packed a) ∧ AF_bytes (AF_packed a) = AF_bytes a := by
  obtain ⟨hp, ho, hs, hd, hx, f1, f2, f3, f4, f5, hlen⟩ := h
  have hext : AF_extb (AF_packed a) = AF_extb a := by
    unfold AF_extb AF_packed; cases a.adaption_extension <;> rfl
  have hdl : AF_dataLen (AF_packed a) = AF_dataLen a := by
    unfold AF_dataLen; rw [hext]; rfl
  have hlb : AF_lenByte (AF_packed a) = AF_lenByte a := by
    have hge : AF_dataLen a ≤ AF_lenByte a := by unfold AF_lenByte; split <;> omega
    have : AF_lenByte (AF_packed a) = if AF_lenByte a > AF_dataLen a then AF_lenByte a else AF_dataLen a := by
      unfold AF_lenByte; rw [hdl]; rfl
    rw [this]; split <;> omega
  have hfb : AF_flagsByte (AF_packed a) = AF_flagsByte a := by
    unfold AF_flagsByte AF_packed; cases a.adaption_extension <;> rfl
  refine ⟨⟨hp, ho, hs, hd, ?_, ?_, ?_, ?_, ?_, ?_, by rw [hlb]; exact hlen⟩, ?_⟩
  · intro x hxx
    simp only [AF_packed, Option.map_eq_some_iff] at hxx
    obtain ⟨y, hy, rfl⟩ := hxx
    exact Ext_packed_WF y (hx y hy)
  · intro h; simpa [AF_packed] using h
  · intro h; simpa [AF_packed] using h
  · intro h; simpa [AF_packed] using h
  · intro h; simpa [AF_packed] using h
  · intro h; simpa [AF_packed] using h
  · unfold AF_bytes; rw [hlb, hfb, hext, hdl]; rfl

theorem Pkt_af_decoded (p : Pkt) (h : Pkt_WF p) : Pkt_af (Pkt_decoded p) = Pkt_af p := by
  have e2 : (Pkt_decoded p).adaption_field = if hasAF p then p.adaption_field.map AF_packed else none := rfl
  by_cases haf : hasAF p
  · have haf' : hasAF (Pkt_decoded p) := haf
    rw [Pkt_af, Pkt_af, if_pos haf, if_pos haf', e2, if_pos haf]
    cases hx : p.adaption_field with
    | none => rfl
    | some a => simp [(AF_packed_WF a (h.2.2.2.2.2.2 a hx)).2]
  · have haf' : ¬ hasAF (Pkt_decoded p) := haf
    rw [Pkt_af, Pkt_af, if_neg haf, if_neg haf']

/-- the decoded packet is well formed and (when the format can express it: no payload with
    adaptation control 0 or 2) encodes to the same bytes -/
theorem Pkt_decoded_bytes (p : Pkt) (h : Pkt_WF p) (hf : Pkt_used p ≤ 188) :
    Pkt_WF (Pkt_decoded p) ∧
    (((p.adaption_ctrl = 0 ∨ p.adaption_ctrl = 2) → p.payload = []) → Pkt_bytes (Pkt_decoded p) = Pkt_bytes p) := by
  have haf := Pkt_af_decoded p h
  obtain ⟨h1, h2, h3, h4, h5, h6, h7⟩ := h
  constructor
  · refine ⟨h1, h2, h3, h4, h5, h6, ?_⟩
    intro a ha
    simp only [Pkt_decoded] at ha
    split at ha
    · simp only [Option.map_eq_some_iff] at ha
      obtain ⟨y, hy, rfl⟩ := ha
      exact (AF_packed_WF y (h7 y hy)).1
    · simp at ha
  · intro hpl
    have hhdr : Pkt_hdr (Pkt_decoded p) = Pkt_hdr p := rfl
    unfold Pkt_bytes Pkt_used
    rw [haf, hhdr]
    by_cases hc : p.adaption_ctrl = 1 ∨ p.adaption_ctrl = 3
    · have hpay : (Pkt_decoded p).payload = p.payload ++ Pkt_stuffing p := by simp [Pkt_decoded, hc]
      rw [hpay]
      have : 188 - (4 + (Pkt_af p).length + (p.payload ++ Pkt_stuffing p).length) = 0 := by
        simp [Pkt_stuffing, Pkt_used] at hf ⊢; omega
      rw [this]
      simp [Pkt_stuffing, Pkt_used]
    · have h02 : p.adaption_ctrl = 0 ∨ p.adaption_ctrl = 2 := by omega
      have hpay : (Pkt_decoded p).payload = [] := by simp [Pkt_decoded, hc]
      rw [hpay, hpl h02]

/-- `MPEGTS.pack` of well-formed packets: every block is packed (its adaptation field normalised),
    the output is the concatenation of the packets -/
theorem packBlocks_eq (ps : List Pkt) (h : ∀ p ∈ ps, Pkt_WF p) :
    packBlocks ps = (ps.map Pkt_packed, .ok (ps.flatMap Pkt_bytes)) := by
  induction ps with
  | nil => rfl
  | cons p ps ih =>
    have hp := Pkt_pack_eq' p false (h p (by simp))
    simp only [Bool.false_eq_true, if_false] at hp
    simp only [packBlocks, hp, ih (fun q hq => h q (by simp [hq])), List.map_cons, List.flatMap_cons]

/-- the decoded packets re-encode to the same stream when the format can express each of them -/
theorem flatMap_decoded_bytes (ps : List Pkt) (h : ∀ p ∈ ps, Pkt_WF p ∧ Pkt_used p ≤ 188 ∧
      ((p.adaption_ctrl = 0 ∨ p.adaption_ctrl = 2) → p.payload = [])) :
    (ps.map Pkt_decoded).flatMap Pkt_bytes = ps.flatMap Pkt_bytes := by
  induction ps with
  | nil => rfl
  | cons p ps ih =>
    obtain ⟨hw, hf, hpl⟩ := h p (by simp)
    simp only [List.map_cons, List.flatMap_cons, (Pkt_decoded_bytes p hw hf).2 hpl,
      ih (fun q hq => h q (by simp [hq]))]

end Acra.Lemmas.MPEGTS
