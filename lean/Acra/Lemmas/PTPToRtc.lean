/-
  Helper lemmas for `PTPTime.to_rtc`: the calendar part (seconds since the start of the year, 1970…2099) and the
  two float steps under the binary64 facts of `Lemmas.Float.FloatSem`.
-/
import Acra.Lemmas.Float
import Acra.Lemmas.Ch11TimeFmt
import Acra.Lemmas.ReviewC04Calendar
import Acra.Model.PTPToRtc
namespace Acra.Lemmas.PTPToRtc
open Acra.Py Acra.Py.Float Acra.Model.PTPToRtc Acra.Model.Ch11Pay.TimeFmt Acra.Lemmas.Float Acra.Lemmas.Ch11Calendar

/-- the first second (since 1970-01-01) of the year that contains second `n` -/
def yearStart (n : Nat) : Nat := 86400 * (daysFromCivil (civilFromDays (n / 86400 + EPOCH)).1 1 1 - EPOCH)

theorem ssoy_arith (n J E : Nat) (h1 : E ≤ J) (h2 : J ≤ n / 86400 + E) :
    (n / 86400 + E - J) * 86400 + (n % 86400 / 3600 * 3600 + n % 86400 / 60 % 60 * 60 + n % 86400 % 60) =
      n - 86400 * (J - E) := by omega

/-- the timedelta `ptp_as_date - start_of_year` holds `n - yearStart n` whole seconds -/
theorem since_start_of_year (n : Nat) (h : n < 86400 * DAYS) :
    let c := civilFromDays (n / 86400 + EPOCH)
    sinceStartOfYearUs c.1 c.2.1 c.2.2 (n % 86400 / 3600) (n % 86400 / 60 % 60) (n % 86400 % 60) =
      (n - yearStart n) * 1000000 := by
  have hf := Acra.Lemmas.Ch11TimeFmt.day_facts n h
  simp only at hf ⊢
  unfold yearStart sinceStartOfYearUs
  generalize civilFromDays (n / 86400 + EPOCH) = c at hf ⊢
  obtain ⟨f1, _, _, _, _, _, _, f8, f9, _⟩ := hf
  rw [f1]
  rw [ssoy_arith n _ _ f8 f9]

theorem yearStart_le (n : Nat) (h : n < 86400 * DAYS) : yearStart n ≤ n ∧ n - yearStart n < 366 * 86400 := by
  have := Acra.Lemmas.ReviewC04Calendar.yearStart_facts n h
  simp only at this
  unfold yearStart
  omega

/-- `int(td.total_seconds())` is the whole number of seconds (exact: the quotient is an integer below 2^53) -/
theorem totalSecondsInt_exact (fl : ℚ → ℚ) (F : FloatSem fl) (S : ℕ) (h : S < 2 ^ 53) :
    totalSecondsInt fl (S * 1000000) = S := by
  unfold totalSecondsInt
  have e : ((S * 1000000 : ℕ) : ℚ) / 1000000 = (S : ℚ) := by push_cast; field_simp
  rw [e, F.exact S h]
  exact floorNat_eq _ _ (le_refl _) (by linarith)

/-- the tick computation is exact while `S·10^7 + ns/100` stays below 4.5·10^13 (the two rounding errors, each at
    most 2^-53 of a value below 4.5·10^13 + 1, together stay under the 0.01 that separates `ns/100` from the
    neighbouring integers) -/
theorem ticks_exact (fl : ℚ → ℚ) (F : FloatSem fl) (S ns : ℕ)
    (h : S * 10000000 + ns / 100 < 45000000000000) : ticks fl S ns = ideal S ns := by
  unfold ticks ideal
  have p53 : (2 : ℕ) ^ 53 = 9007199254740992 := by norm_num
  have hA' : S * 10000000 < 45000000000000 := Nat.lt_of_le_of_lt (Nat.le_add_right _ _) h
  have hA : S * 10000000 < 2 ^ 53 := by rw [p53]; exact Nat.lt_trans hA' (by norm_num)
  have hS : S < 2 ^ 53 := Nat.lt_of_le_of_lt (Nat.le_mul_of_pos_right _ (by norm_num)) hA
  have eA : (S : ℚ) * 10000000 = ((S * 10000000 : ℕ) : ℚ) := by push_cast; ring
  rw [F.exact S hS, eA, F.exact _ hA]
  set A := S * 10000000 with hAdef
  set q := ns / 100 with hqdef
  have hdiv : (ns : ℚ) = (q : ℚ) * 100 + ((ns % 100 : ℕ) : ℚ) := by
    have := Nat.div_add_mod ns 100
    have h2 : ((100 * (ns / 100) + ns % 100 : ℕ) : ℚ) = (ns : ℚ) := by exact_mod_cast congrArg (fun n : ℕ => (n : ℚ)) this
    push_cast at h2; rw [hqdef]; linarith
  have hAq : ((A + q + 1 : ℕ) : ℚ) ≤ 45000000000000 := by
    have : A + q + 1 ≤ 45000000000000 := h
    exact_mod_cast this
  have hAq' : (A : ℚ) + (q : ℚ) + 1 ≤ 45000000000000 := by push_cast at hAq; exact hAq
  have hA0 : (0 : ℚ) ≤ (A : ℚ) := by positivity
  have hq0 : (0 : ℚ) ≤ (q : ℚ) := by positivity
  by_cases hr : ns % 100 = 0
  · -- a whole number of ticks: every operation is exact
    have ex : (ns : ℚ) / 100 = (q : ℚ) := by rw [hdiv, hr]; simp
    have hq53 : q < 2 ^ 53 := by
      rw [p53]; exact Nat.lt_trans (Nat.lt_of_le_of_lt (Nat.le_add_left _ _) h) (by norm_num)
    have e2 : ((A : ℕ) : ℚ) + (q : ℚ) = ((A + q : ℕ) : ℚ) := by push_cast; ring
    have h53 : A + q < 2 ^ 53 := by rw [p53]; exact Nat.lt_trans h (by norm_num)
    rw [ex, F.exact q hq53, e2, F.exact _ h53]
    exact floorNat_eq _ _ (le_refl _) (by linarith)
  · have hr1 : 1 ≤ ns % 100 := Nat.one_le_iff_ne_zero.mpr hr
    have hr2 : ns % 100 ≤ 99 := by omega
    set x : ℚ := (ns : ℚ) / 100 with hxdef
    have hx : x = (q : ℚ) + ((ns % 100 : ℕ) : ℚ) / 100 := by rw [hxdef, hdiv]; field_simp
    have hf1 : (1 : ℚ) / 100 ≤ ((ns % 100 : ℕ) : ℚ) / 100 := by
      apply div_le_div_of_nonneg_right _ (by norm_num); exact_mod_cast hr1
    have hf2 : ((ns % 100 : ℕ) : ℚ) / 100 ≤ 99 / 100 := by
      apply div_le_div_of_nonneg_right _ (by norm_num); exact_mod_cast hr2
    have hx0 : 0 ≤ x := by rw [hx]; positivity
    have hxB : x ≤ 45000000000000 := by rw [hx]; linarith
    have herr1 := abs_le.mp (F.err x hx0)
    have hb1 : x * (1 / 2 ^ 53) ≤ 45000000000000 * (1 / 2 ^ 53) := by
      apply mul_le_mul_of_nonneg_right hxB; positivity
    set y : ℚ := fl x with hydef
    have hy0 : 0 ≤ (A : ℚ) + y := by
      have : (45000000000000 : ℚ) * (1 / 2 ^ 53) < 1 / 100 := by norm_num
      rw [hx] at herr1; linarith [herr1.1]
    have hyB : (A : ℚ) + y ≤ 45000000000001 := by
      have : (45000000000000 : ℚ) * (1 / 2 ^ 53) < 1 / 100 := by norm_num
      rw [hx] at herr1; linarith [herr1.2]
    have herr2 := abs_le.mp (F.err ((A : ℚ) + y) hy0)
    have hb2 : ((A : ℚ) + y) * (1 / 2 ^ 53) ≤ 45000000000001 * (1 / 2 ^ 53) := by
      apply mul_le_mul_of_nonneg_right hyB; positivity
    have hc : (45000000000000 : ℚ) * (1 / 2 ^ 53) + 45000000000001 * (1 / 2 ^ 53) < 1 / 100 := by norm_num
    apply floorNat_eq
    · push_cast; rw [hx] at herr1; linarith [herr1.1, herr2.1]
    · push_cast; rw [hx] at herr1; linarith [herr1.2, herr2.2]

theorem toRtcWith_of_fromTimestamp (fl : ℚ → ℚ) (seconds ns y m d h mi s : ℕ)
    (hts : fromTimestamp (seconds : Int) = .ok (y, m, d, h, mi, s)) :
    toRtcWith fl seconds ns = .ok (ticks fl (totalSecondsInt fl (sinceStartOfYearUs y m d h mi s)) ns) := by
  unfold toRtcWith; rw [hts]; rfl

/-- the only way `datetime.fromtimestamp` fails in the model is the ValueError for a year outside 1…9999 -/
theorem fromTimestamp_error (s : Int) (e : Err) (h : fromTimestamp s = .error e) : e = .value := by
  unfold fromTimestamp at h
  simp only at h
  split at h
  · simp at h; exact h.symm
  · split at h
    · simp at h; exact h.symm
    · simp at h

/-! ### the executable model: the grid of binary64 below 2^47 -/

/-- `rne x` is `x` itself or the significand rounded on the grid of the exponent that brackets `x` -/
theorem rne_cases (x : ℚ) (hx : 0 < x) :
    rne x = x ∨ ∃ e : ℤ, (4503599627370496 : ℚ) ≤ x / pow2 e ∧ x / pow2 e < 9007199254740992 ∧
      rne x = (roundHalfEven (x / pow2 e) : ℚ) * pow2 e := by
  unfold rne
  have h0 : ¬ x ≤ 0 := not_le.mpr hx
  simp only [h0, if_false]
  split
  · rename_i hb; right; exact ⟨expOf x, hb.1, hb.2, rfl⟩
  · left; rfl

/-- below 2^47 the grid of binary64 is 1/64 or finer: a value strictly between an integer `N` and `N + 1 - 1/128`
    is rounded to something in `[N, N+1)` -/
theorem rne_floor_stable (v : ℚ) (N : ℕ) (h1 : (N : ℚ) < v) (h2 : v < (N : ℚ) + 1 - 1 / 128)
    (h47 : v < 140737488355328) : (N : ℚ) ≤ rne v ∧ rne v < (N : ℚ) + 1 := by
  have hv0 : 0 < v := lt_of_le_of_lt (by positivity) h1
  rcases rne_cases v hv0 with h | ⟨e, hlo, hhi, hr⟩
  · rw [h]; constructor <;> linarith
  · -- the exponent is at most -6
    have hp := pow2_pos e
    have hneg : e < 0 := by
      by_contra hge
      have hge' : e ≥ 0 := not_lt.mp hge
      have : (1 : ℚ) ≤ pow2 e := by
        unfold pow2; simp only [hge', if_true]
        exact_mod_cast Nat.one_le_two_pow
      have : v / pow2 e ≤ v := div_le_self (le_of_lt hv0) this
      linarith
    obtain ⟨j, hj⟩ : ∃ j : ℕ, pow2 e = 1 / ((2 ^ j : ℕ) : ℚ) := by
      refine ⟨(-e).toNat, ?_⟩
      unfold pow2; simp [not_le.mpr hneg]
    have h2j : (0 : ℚ) < ((2 ^ j : ℕ) : ℚ) := by positivity
    rw [hj] at hlo hhi hr
    have hmul : v / (1 / ((2 ^ j : ℕ) : ℚ)) = v * ((2 ^ j : ℕ) : ℚ) := by field_simp
    rw [hmul] at hlo hhi hr
    have hj6 : 6 ≤ j := by
      by_contra hlt
      have hle : j ≤ 5 := by omega
      have : 2 ^ j ≤ 2 ^ 5 := Nat.pow_le_pow_right (by norm_num) hle
      have hq : ((2 ^ j : ℕ) : ℚ) ≤ 32 := by exact_mod_cast this
      have : v * ((2 ^ j : ℕ) : ℚ) ≤ v * 32 := mul_le_mul_of_nonneg_left hq (le_of_lt hv0)
      linarith
    have h64 : (64 : ℚ) ≤ ((2 ^ j : ℕ) : ℚ) := by
      have : 2 ^ 6 ≤ 2 ^ j := Nat.pow_le_pow_right (by norm_num) hj6
      exact_mod_cast this
    set P : ℚ := ((2 ^ j : ℕ) : ℚ) with hP
    set R : ℕ := roundHalfEven (v * P) with hR
    have herr := abs_le.mp (roundHalfEven_err (v * P) (by positivity))
    rw [hr]
    -- integers on the grid
    have hNP : ((N * 2 ^ j : ℕ) : ℚ) = (N : ℚ) * P := by rw [hP]; push_cast; ring
    have hN1P : (((N + 1) * 2 ^ j : ℕ) : ℚ) = ((N : ℚ) + 1) * P := by rw [hP]; push_cast; ring
    have hlow : N * 2 ^ j ≤ R := by
      have : ((N * 2 ^ j : ℕ) : ℚ) - 1 < (R : ℚ) := by
        rw [hNP]
        have : (N : ℚ) * P < v * P := mul_lt_mul_of_pos_right h1 h2j
        linarith [herr.1]
      have h' : ((N * 2 ^ j : ℕ) : ℤ) - 1 < (R : ℤ) := by exact_mod_cast this
      omega
    have hhigh : R < (N + 1) * 2 ^ j := by
      have : (R : ℚ) < (((N + 1) * 2 ^ j : ℕ) : ℚ) := by
        rw [hN1P]
        have hvP : v * P < ((N : ℚ) + 1 - 1 / 128) * P := mul_lt_mul_of_pos_right h2 h2j
        have : (1 : ℚ) / 128 * P ≥ 1 / 2 := by linarith
        nlinarith [herr.2]
      exact_mod_cast this
    have hRlo : (N : ℚ) * P ≤ (R : ℚ) := by rw [← hNP]; exact_mod_cast hlow
    have hRhi : (R : ℚ) < ((N : ℚ) + 1) * P := by rw [← hN1P]; exact_mod_cast hhigh
    have hdiv : (R : ℚ) * (1 / P) = (R : ℚ) / P := by ring
    rw [hdiv]
    constructor
    · rw [le_div_iff₀ h2j]; exact hRlo
    · rw [div_lt_iff₀ h2j]; exact hRhi

/-- the executable model (CPython's binary64) is exact up to 2^47 ticks — the sharp bound: the first wrong result is
    at tick 140 737 490 000 000 (`to_rtc_off_by_one_witness`) -/
theorem ticks_exact_exec (S ns : ℕ) (hns : ns < 2 ^ 32)
    (h : S * 10000000 + ns / 100 + 1 ≤ 140737488355328) : ticks rne S ns = ideal S ns := by
  unfold ticks ideal
  have p53 : (2 : ℕ) ^ 53 = 9007199254740992 := by norm_num
  have hA' : S * 10000000 < 140737488355328 :=
    Nat.lt_of_lt_of_le (Nat.lt_succ_of_le (Nat.le_add_right _ _)) h
  have hA : S * 10000000 < 2 ^ 53 := by rw [p53]; exact Nat.lt_trans hA' (by norm_num)
  have hS : S < 2 ^ 53 := Nat.lt_of_le_of_lt (Nat.le_mul_of_pos_right _ (by norm_num)) hA
  have eA : (S : ℚ) * 10000000 = ((S * 10000000 : ℕ) : ℚ) := by push_cast; ring
  rw [rne_exact S hS, eA, rne_exact _ hA]
  set A := S * 10000000 with hAdef
  set q := ns / 100 with hqdef
  have hdiv : (ns : ℚ) = (q : ℚ) * 100 + ((ns % 100 : ℕ) : ℚ) := by
    have := Nat.div_add_mod ns 100
    have h2 : ((100 * (ns / 100) + ns % 100 : ℕ) : ℚ) = (ns : ℚ) := by exact_mod_cast congrArg (fun n : ℕ => (n : ℚ)) this
    push_cast at h2; rw [hqdef]; linarith
  have hAq : ((A + q + 1 : ℕ) : ℚ) ≤ 140737488355328 := by exact_mod_cast h
  have hAq' : (A : ℚ) + (q : ℚ) + 1 ≤ 140737488355328 := by push_cast at hAq; exact hAq
  have hA0 : (0 : ℚ) ≤ (A : ℚ) := by positivity
  have hq0 : (0 : ℚ) ≤ (q : ℚ) := by positivity
  have e2 : ((A : ℕ) : ℚ) + (q : ℚ) = ((A + q : ℕ) : ℚ) := by push_cast; ring
  by_cases hr : ns % 100 = 0
  · have ex : (ns : ℚ) / 100 = (q : ℚ) := by rw [hdiv, hr]; simp
    have hq53 : q < 2 ^ 53 := by
      rw [p53]; exact Nat.lt_trans (Nat.lt_of_lt_of_le (Nat.lt_succ_of_le (Nat.le_add_left _ _)) h) (by norm_num)
    have h53 : A + q < 2 ^ 53 := by rw [p53]; exact Nat.lt_trans (Nat.lt_of_lt_of_le (Nat.lt_succ_self _) h) (by norm_num)
    rw [ex, rne_exact q hq53, e2, rne_exact _ h53]
    exact floorNat_eq _ _ (le_refl _) (by linarith)
  · have hr1 : 1 ≤ ns % 100 := Nat.one_le_iff_ne_zero.mpr hr
    have hr2 : ns % 100 ≤ 99 := by omega
    set x : ℚ := (ns : ℚ) / 100 with hxdef
    have hx : x = (q : ℚ) + ((ns % 100 : ℕ) : ℚ) / 100 := by rw [hxdef, hdiv]; field_simp
    have hf1 : (1 : ℚ) / 100 ≤ ((ns % 100 : ℕ) : ℚ) / 100 := by
      apply div_le_div_of_nonneg_right _ (by norm_num); exact_mod_cast hr1
    have hf2 : ((ns % 100 : ℕ) : ℚ) / 100 ≤ 99 / 100 := by
      apply div_le_div_of_nonneg_right _ (by norm_num); exact_mod_cast hr2
    have hx0 : 0 ≤ x := by rw [hx]; positivity
    have hnsq : (ns : ℚ) < 4294967296 := by exact_mod_cast hns
    have hxB : x ≤ 67108864 := by rw [hxdef]; linarith
    have herr1 := abs_le.mp (rne_err x hx0)
    have hb1 : x * (1 / 2 ^ 53) ≤ 67108864 * (1 / 2 ^ 53) := by
      apply mul_le_mul_of_nonneg_right hxB; positivity
    have hc : (67108864 : ℚ) * (1 / 2 ^ 53) < 1 / 1000 := by norm_num
    have hst := rne_floor_stable ((A : ℚ) + rne x) (A + q)
      (by push_cast; linarith [herr1.1, hb1, hc, hx, hf1])
      (by push_cast; linarith [herr1.2, hb1, hc, hx, hf2])
      (by linarith [herr1.2, hb1, hc, hx, hf2])
    apply floorNat_eq
    · exact hst.1
    · exact hst.2

end Acra.Lemmas.PTPToRtc
