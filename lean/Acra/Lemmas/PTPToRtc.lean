/-
  Helper lemmas for `PTPTime.to_rtc`: the calendar part (seconds since the start of the year, 1970…2099) and the
  two float steps under the binary64 facts of `Lemmas.Float.FloatSem`.
-/
import Acra.Lemmas.Float
import Acra.Lemmas.Ch11TimeFmt
import Acra.Lemmas.ReviewC04Calendar
import Acra.Model.PTPToRtc
namespace Acra.Lemmas.PTPToRtc
open Acra.Py Acra.Py.Float Acra.Model.PTPToRtc Acra.Model.Ch11Pay.TimeFmt Acra.Lemmas.Float Acra.Lemmas.Ch11Calendar

/-- the first second (since 1970-01-01) of the year that contains second `n` -/
def yearStart (n : Nat) : Nat := 86400 * (daysFromCivil (civilFromDays (n / 86400 + EPOCH)).1 1 1 - EPOCH)

theorem ssoy_arith (n J E : Nat) (h1 : E ≤ J) (h2 : J ≤ n / 86400 + E) :
    (n / 86400 + E - J) * 86400 + (n % 86400 / 3600 * 3600 + n % 86400 / 60 % 60 * 60 + n % 86400 % 60) =
      n - 86400 * (J - E) := by omega

/-- the timedelta `ptp_as_date - start_of_year` holds `n - yearStart n` whole seconds -/
theorem since_start_of_year (n : Nat) (h : n < 86400 * DAYS) :
    let c := civilFromDays (n / 86400 + EPOCH)
    sinceStartOfYearUs c.1 c.2.1 c.2.2 (n % 86400 / 3600) (n % 86400 / 60 % 60) (n % 86400 % 60) =
      (n - yearStart n) * 1000000 := by
  have hf := Acra.Lemmas.Ch11TimeFmt.day_facts n h
  simp only at hf ⊢
  unfold yearStart sinceStartOfYearUs
  generalize civilFromDays (n / 86400 + EPOCH) = c at hf ⊢
  obtain ⟨f1, _, _, _, _, _, _, f8, f9, _⟩ := hf
  rw [f1]
  rw [ssoy_arith n _ _ f8 f9]

theorem yearStart_le (n : Nat) (h : n < 86400 * DAYS) : yearStart n ≤ n ∧ n - yearStart n < 366 * 86400 := by
  have := Acra.Lemmas.ReviewC04Calendar.yearStart_facts n h
  simp only at this
  unfold yearStart
  omega

/-- `int(td.total_seconds())` is the whole number of seconds (exact: the quotient is an integer below 2^53) -/
theorem totalSecondsInt_exact (fl : ℚ → ℚ) (F : FloatSem fl) (S : ℕ) (h : S < 2 ^ 53) :
    totalSecondsInt fl (S * 1000000) = S := by
  unfold totalSecondsInt
  have e : ((S * 1000000 : ℕ) : ℚ) / 1000000 = (S : ℚ) := by push_cast; field_simp
  rw [e, F.exact S h]
  exact floorNat_eq _ _ (le_refl _) (by linarith)

/-- the tick computation is exact while `S·10^7 + ns/100` stays below 4.5·10^13 (the two rounding errors, each at
    most 2^-53 of a value below 4.5·10^13 + 1, together stay under the 0.01 that separates `ns/100` from the
    neighbouring integers) -/
theorem ticks_exact (fl : ℚ → ℚ) (F : FloatSem fl) (S ns : ℕ)
    (h : S * 10000000 + ns / 100 < 45000000000000) : ticks fl S ns = ideal S ns := by
  unfold ticks ideal
  have p53 : (2 : ℕ) ^ 53 = 9007199254740992 := by norm_num
  have hA' : S * 10000000 < 45000000000000 := Nat.lt_of_le_of_lt (Nat.le_add_right _ _) h
  have hA : S * 10000000 < 2 ^ 53 := by rw [p53]; exact Nat.lt_trans hA' (by norm_num)
  have hS : S < 2 ^ 53 := Nat.lt_of_le_of_lt (Nat.le_mul_of_pos_right _ (by norm_num)) hA
  have eA : (S : ℚ) * 10000000 = ((S * 10000000 : ℕ) : ℚ) := by push_cast; ring
  rw [F.exact S hS, eA, F.exact _ hA]
  set A := S * 10000000 with hAdef
  set q := ns / 100 with hqdef
  have hdiv : (ns : ℚ) = (q : ℚ) * 100 + ((ns % 100 : ℕ) : ℚ) := by
    have := Nat.div_add_mod ns 100
    have h2 : ((100 * (ns / 100) + ns % 100 : ℕ) : ℚ) = (ns : ℚ) := by exact_mod_cast congrArg (fun n : ℕ => (n : ℚ)) this
    push_cast at h2; rw [hqdef]; linarith
  have hAq : ((A + q + 1 : ℕ) : ℚ) ≤ 45000000000000 := by
    have : A + q + 1 ≤ 45000000000000 := h
    exact_mod_cast this
  have hAq' : (A : ℚ) + (q : ℚ) + 1 ≤ 45000000000000 := by push_cast at hAq; exact hAq
  have hA0 : (0 : ℚ) ≤ (A : ℚ) := by positivity
  have hq0 : (0 : ℚ) ≤ (q : ℚ) := by positivity
  by_cases hr : ns % 100 = 0
  · -- a whole number of ticks: every operation is exact
    have ex : (ns : ℚ) / 100 = (q : ℚ) := by rw [hdiv, hr]; simp
    have hq53 : q < 2 ^ 53 := by
      rw [p53]; exact Nat.lt_trans (Nat.lt_of_le_of_lt (Nat.le_add_left _ _) h) (by norm_num)
    have e2 : ((A : ℕ) : ℚ) + (q : ℚ) = ((A + q : ℕ) : ℚ) := by push_cast; ring
    have h53 : A + q < 2 ^ 53 := by rw [p53]; exact Nat.lt_trans h (by norm_num)
    rw [ex, F.exact q hq53, e2, F.exact _ h53]
    exact floorNat_eq _ _ (le_refl _) (by linarith)
  · have hr1 : 1 ≤ ns % 100 := Nat.one_le_iff_ne_zero.mpr hr
    have hr2 : ns % 100 ≤ 99 := by omega
    set x : ℚ := (ns : ℚ) / 100 with hxdef
    have hx : x = (q : ℚ) + ((ns % 100 : ℕ) : ℚ) / 100 := by rw [hxdef, hdiv]; field_simp
    have hf1 : (1 : ℚ) / 100 ≤ ((ns % 100 : ℕ) : ℚ) / 100 := by
      apply div_le_div_of_nonneg_right _ (by norm_num); exact_mod_cast hr1
    have hf2 : ((ns % 100 : ℕ) : ℚ) / 100 ≤ 99 / 100 := by
      apply div_le_div_of_nonneg_right _ (by norm_num); exact_mod_cast hr2
    have hx0 : 0 ≤ x := by rw [hx]; positivity
    have hxB : x ≤ 45000000000000 := by rw [hx]; linarith
    have herr1 := abs_le.mp (F.err x hx0)
    have hb1 : x * (1 / 2 ^ 53) ≤ 45000000000000 * (1 / 2 ^ 53) := by
      apply mul_le_mul_of_nonneg_right hxB; positivity
    set y : ℚ := fl x with hydef
    have hy0 : 0 ≤ (A : ℚ) + y := by
      have : (45000000000000 : ℚ) * (1 / 2 ^ 53) < 1 / 100 := by norm_num
      rw [hx] at herr1; linarith [herr1.1]
    have hyB : (A : ℚ) + y ≤ 45000000000001 := by
      have : (45000000000000 : ℚ) * (1 / 2 ^ 53) < 1 / 100 := by norm_num
      rw [hx] at herr1; linarith [herr1.2]
    have herr2 := abs_le.mp (F.err ((A : ℚ) + y) hy0)
    have hb2 : ((A : ℚ) + y) * (1 / 2 ^ 53) ≤ 45000000000001 * (1 / 2 ^ 53) := by
      apply mul_le_mul_of_nonneg_right hyB; positivity
    have hc : (45000000000000 : ℚ) * (1 / 2 ^ 53) + 45000000000001 * (1 / 2 ^ 53) < 1 / 100 := by norm_num
    apply floorNat_eq
    · push_cast; rw [hx] at herr1; linarith [herr1.1, herr2.1]
    · push_cast; rw [hx] at herr1; linarith [herr1.2, herr2.2]

theorem toRtcWith_of_fromTimestamp (fl : ℚ → ℚ) (seconds ns y m d h mi s : ℕ)
    (hts : fromTimestamp (seconds : Int) = .ok (y, m, d, h, mi, s)) :
    toRtcWith fl seconds ns = .ok (ticks fl (totalSecondsInt fl (sinceStartOfYearUs y m d h mi s)) ns) := by
  unfold toRtcWith; rw [hts]; rfl

/-- the only way `datetime.fromtimestamp` fails in the model is the ValueError for a year outside 1…9999 -/
theorem fromTimestamp_error (s : Int) (e : Err) (h : fromTimestamp s = .error e) : e = .value := by
  unfold fromTimestamp at h
  simp only at h
  split at h
  · simp at h; exact h.symm
  · split at h
    · simp at h; exact h.symm
    · simp at h

end Acra.Lemmas.PTPToRtc
