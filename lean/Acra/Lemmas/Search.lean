/-
  Helper lemmas for the pattern-search helpers (C17).
    * strictly ascending lists with the same members are equal
    * facts about the occurrence list `Spec.occ`
    * Horspool: inner comparison loop, skip table, shift safety, fuel sufficiency
-/
import Acra.Model.Search
import Acra.Spec.Search
namespace Acra.Lemmas.Search
open Acra.Py Acra.Model.Search Acra.Spec

/-! ### generic -/

theorem eq_of_pairwise_lt_of_mem_iff : ∀ {l₁ l₂ : List Nat}, l₁.Pairwise (· < ·) → l₂.Pairwise (· < ·) →
    (∀ x, x ∈ l₁ ↔ x ∈ l₂) → l₁ = l₂
  | [], [], _, _, _ => rfl
  | [], b :: l₂, _, _, h => by have := (h b).2 (by simp); simp at this
  | a :: l₁, [], _, _, h => by have := (h a).1 (by simp); simp at this
  | a :: l₁, b :: l₂, h₁, h₂, h => by
    rw [List.pairwise_cons] at h₁ h₂
    have hab : a = b := by
      have ha := (h a).1 (by simp)
      have hb := (h b).2 (by simp)
      simp only [List.mem_cons] at ha hb
      rcases ha with ha | ha
      · exact ha
      · rcases hb with hb | hb
        · exact hb.symm
        · have := h₁.1 b hb
          have := h₂.1 a ha
          omega
    subst hab
    congr 1
    apply eq_of_pairwise_lt_of_mem_iff h₁.2 h₂.2
    intro x
    constructor
    · intro hx
      have := (h x).1 (by simp [hx])
      simp only [List.mem_cons] at this
      rcases this with rfl | h'
      · have := h₁.1 x hx; omega
      · exact h'
    · intro hx
      have := (h x).2 (by simp [hx])
      simp only [List.mem_cons] at this
      rcases this with rfl | h'
      · have := h₂.1 x hx; omega
      · exact h'

/-! ### the occurrence list -/

/-- `p` occurs in `t` at offset `i` -/
def OccAt (t p : Bytes) (i : Nat) : Prop := i + p.length ≤ t.length ∧ (t.drop i).take p.length = p

theorem mem_occ (t p : Bytes) (i : Nat) : i ∈ occ t p ↔ OccAt t p i := by
  simp only [occ, OccAt, List.mem_filter, List.mem_range, Bool.and_eq_true, decide_eq_true_eq, beq_iff_eq]
  constructor
  · rintro ⟨_, h⟩; exact h
  · intro h; exact ⟨by omega, h⟩

theorem occ_pairwise (t p : Bytes) : (occ t p).Pairwise (· < ·) :=
  List.Pairwise.filter _ List.pairwise_lt_range

/-- an occurrence, read byte by byte -/
theorem OccAt.getElem? {t p : Bytes} {i : Nat} (h : OccAt t p i) (d : Nat) (hd : d < p.length) :
    t[i + d]? = p[d]? := by
  have := congrArg (fun l => l[d]?) h.2
  simpa [List.getElem?_take, hd, List.getElem?_drop] using this

theorem occAt_of_getElem? {t p : Bytes} {i : Nat} (hl : i + p.length ≤ t.length)
    (h : ∀ d, d < p.length → t[i + d]? = p[d]?) : OccAt t p i := by
  refine ⟨hl, ?_⟩
  apply List.ext_getElem?
  intro d
  by_cases hd : d < p.length
  · simp [hd, List.getElem?_drop, h d hd]
  · simp [List.getElem?_take, hd]
    try omega

/-- the part of a strictly ascending list at or after `s`, when nothing lies strictly between `s` and `s + v` -/
theorem filter_ge_split (l : List Nat) (hl : l.Pairwise (· < ·)) (s v : Nat) (hv : 1 ≤ v)
    (hgap : ∀ x ∈ l, s < x → x < s + v → False) :
    l.filter (fun x => decide (s ≤ x)) =
      (if s ∈ l then [s] else []) ++ l.filter (fun x => decide (s + v ≤ x)) := by
  apply eq_of_pairwise_lt_of_mem_iff (List.Pairwise.filter _ hl)
  · rw [List.pairwise_append]
    refine ⟨?_, List.Pairwise.filter _ hl, ?_⟩
    · split <;> simp
    · intro a ha b hb
      split at ha
      · simp at ha; subst ha
        simp at hb; omega
      · simp at ha
  · intro x
    simp only [List.mem_filter, decide_eq_true_eq, List.mem_append]
    constructor
    · rintro ⟨hx, hs⟩
      by_cases hxs : x = s
      · subst hxs; left; simp [hx]
      · right
        refine ⟨hx, ?_⟩
        by_cases h2 : x < s + v
        · exact absurd (hgap x hx (by omega) h2) id
        · omega
    · rintro (h | ⟨hx, hs⟩)
      · split at h
        · simp at h; subst h; rename_i hm; exact ⟨hm, by omega⟩
        · simp at h
      · exact ⟨hx, by omega⟩

/-! ### Horspool -/

theorem pyIdx_nat (b : List α) (i : Nat) : pyIdx b (i : Int) = b[i]? := by
  simp [pyIdx]

/-- the backwards comparison of the window starting at `s`: it stops with `j + 1 = r`, having
    matched positions `r .. j1-1`, and position `r - 1` differs unless `r = 0` -/
theorem bmhInner_spec (text pat : Bytes) (s : Nat) (hs : s + pat.length ≤ text.length) :
    ∀ j1, j1 ≤ pat.length →
    ∃ r, bmhInner text pat j1 (((s + j1 : Nat) : Int) - 1) = .ok (r, ((s + r : Nat) : Int) - 1) ∧ r ≤ j1 ∧
      (∀ d, r ≤ d → d < j1 → text[s + d]? = pat[d]?) ∧
      (r ≠ 0 → text[s + (r - 1)]? ≠ pat[r - 1]?)
  | 0, _ => ⟨0, by simp [bmhInner], by omega, by intro d h1 h2; omega, by simp⟩
  | j1 + 1, hj => by
    have e1 : (((s + (j1 + 1) : Nat) : Int) - 1) = ((s + j1 : Nat) : Int) := by omega
    have ht : s + j1 < text.length := by omega
    have hp : j1 < pat.length := by omega
    rw [e1]
    unfold bmhInner
    rw [pyIdx_nat, List.getElem?_eq_getElem ht, List.getElem?_eq_getElem hp]
    simp only
    by_cases heq : text[s + j1] = pat[j1]
    · obtain ⟨r, h1, h2, h3, h4⟩ := bmhInner_spec text pat s hs j1 (by omega)
      refine ⟨r, ?_, by omega, ?_, h4⟩
      · rw [heq]
        simp only [beq_self_eq_true, if_true]
        exact h1
      · intro d hd1 hd2
        by_cases hdj : d = j1
        · subst hdj
          rw [List.getElem?_eq_getElem ht, List.getElem?_eq_getElem hp, heq]
        · exact h3 d hd1 (by omega)
    · refine ⟨j1 + 1, ?_, by omega, by intro d h1 h2; omega, ?_⟩
      · have hne : (text[s + j1] == pat[j1]) = false := by simpa using heq
        rw [hne]
        simp only [Bool.false_eq_true, if_false]
        rw [e1]
      · intro _
        simp only [Nat.add_sub_cancel]
        rw [List.getElem?_eq_getElem ht, List.getElem?_eq_getElem hp]
        simpa using heq

/-- the comparison loop ends with `j = -1` exactly when the window is an occurrence -/
theorem bmhInner_occ (text pat : Bytes) (s : Nat) (hs : s + pat.length ≤ text.length) :
    ∃ r, bmhInner text pat pat.length (((s + pat.length : Nat) : Int) - 1) = .ok (r, ((s + r : Nat) : Int) - 1) ∧
      (r = 0 ↔ OccAt text pat s) := by
  obtain ⟨r, h1, h2, h3, h4⟩ := bmhInner_spec text pat s hs pat.length (Nat.le_refl _)
  refine ⟨r, h1, ?_⟩
  constructor
  · intro hr
    subst hr
    exact occAt_of_getElem? hs (fun d hd => h3 d (by omega) hd)
  · intro ho
    by_cases hr : r = 0
    · exact hr
    · exact absurd (ho.getElem? (r - 1) (by omega)) (h4 hr)

/-- the skip table after the first `K` assignments -/
def skipK (pat : Bytes) (K : Nat) : List Nat :=
  (List.range K).foldl
    (fun sk k => match pat[k]? with
      | some c => sk.set c.toNat (pat.length - k - 1)
      | none => sk)
    (List.replicate 256 pat.length)

theorem skipK_succ (pat : Bytes) (K : Nat) :
    skipK pat (K + 1) = (match pat[K]? with
      | some c => (skipK pat K).set c.toNat (pat.length - K - 1)
      | none => skipK pat K) := by
  unfold skipK
  rw [List.range_succ, List.foldl_append]
  simp only [List.foldl_cons, List.foldl_nil]

theorem skipK_length (pat : Bytes) (K : Nat) : (skipK pat K).length = 256 := by
  induction K with
  | zero => simp only [skipK, List.range_zero, List.foldl_nil, List.length_replicate]
  | succ K ih =>
    rw [skipK_succ]
    split <;> simp [ih]

/-- entry `c` is `m` or `m-k-1` for some `k < K` with `pat[k] = c`, and at most `m-k-1` for every such `k` -/
theorem skipK_spec (pat : Bytes) (K : Nat) (hK : K ≤ pat.length) (c : UInt8) :
    ∃ v, (skipK pat K)[c.toNat]? = some v ∧
      (v = pat.length ∨ ∃ k, k < K ∧ v = pat.length - k - 1) ∧
      (∀ k, k < K → pat[k]? = some c → v ≤ pat.length - k - 1) := by
  induction K with
  | zero =>
    refine ⟨pat.length, ?_, Or.inl rfl, by intro k hk; omega⟩
    have : c.toNat < 256 := c.toNat_lt
    simp only [skipK, List.range_zero, List.foldl_nil, List.getElem?_replicate, this, if_true]
  | succ K ih =>
    obtain ⟨v, h1, h2, h3⟩ := ih (by omega)
    have hKp : K < pat.length := by omega
    rw [skipK_succ, List.getElem?_eq_getElem hKp]
    simp only
    have hc : c.toNat < (skipK pat K).length := by rw [skipK_length]; exact c.toNat_lt
    by_cases hcK : pat[K] = c
    · refine ⟨pat.length - K - 1, ?_, Or.inr ⟨K, by omega, rfl⟩, ?_⟩
      · rw [hcK]; simp [hc]
      · intro k hk hpk
        omega
    · refine ⟨v, ?_, ?_, ?_⟩
      · rw [List.getElem?_set_ne]
        · exact h1
        · intro h; apply hcK; exact UInt8.toNat_inj.mp h
      · rcases h2 with h2 | ⟨k, hk, h2⟩
        · exact Or.inl h2
        · exact Or.inr ⟨k, by omega, h2⟩
      · intro k hk hpk
        by_cases hkK : k = K
        · subst hkK
          rw [List.getElem?_eq_getElem hKp] at hpk
          exact absurd (Option.some.inj hpk) hcK
        · exact h3 k (by omega) hpk

/-- what the search loop needs from the skip table: the shift is between 1 and `m`, and no byte of
    the pattern that would line up with `c` under a smaller shift equals `c` -/
theorem bmhSkip_spec (pat : Bytes) (hm : 1 ≤ pat.length) (c : UInt8) :
    ∃ v, (bmhSkip pat)[c.toNat]? = some v ∧ 1 ≤ v ∧ v ≤ pat.length ∧
      (∀ d, 1 ≤ d → d < v → pat[pat.length - 1 - d]? ≠ some c) := by
  obtain ⟨v, h1, h2, h3⟩ := skipK_spec pat (pat.length - 1) (by omega) c
  refine ⟨v, h1, ?_, ?_, ?_⟩
  · rcases h2 with h2 | ⟨k, hk, h2⟩ <;> omega
  · rcases h2 with h2 | ⟨k, hk, h2⟩ <;> omega
  · intro d hd1 hd2 hp
    have hv : v ≤ pat.length := by rcases h2 with h2 | ⟨k, hk, h2⟩ <;> omega
    have := h3 (pat.length - 1 - d) (by omega) hp
    omega

/-- shift safety: no occurrence starts strictly between the window start `s` and `s + skip[text[s+m-1]]` -/
theorem shift_safe (text pat : Bytes) (s v : Nat) (c : UInt8) (hm : 1 ≤ pat.length)
    (hc : text[s + pat.length - 1]? = some c) (hv : v ≤ pat.length)
    (hskip : ∀ d, 1 ≤ d → d < v → pat[pat.length - 1 - d]? ≠ some c)
    (x : Nat) (hx : OccAt text pat x) (h1 : s < x) (h2 : x < s + v) : False := by
  have hd := hx.getElem? (pat.length - 1 - (x - s)) (by omega)
  have e : x + (pat.length - 1 - (x - s)) = s + pat.length - 1 := by omega
  rw [e, hc] at hd
  exact hskip (x - s) (by omega) (by omega) hd.symm

/-- the search loop from window start `s`: enough fuel, and the offsets appended are the occurrences at or after `s` -/
theorem bmhOuter_spec (text pat : Bytes) (hm : 1 ≤ pat.length) :
    ∀ fuel s offs, 1 ≤ fuel → text.length + 2 ≤ fuel + s + pat.length →
    bmhOuter text pat (bmhSkip pat) fuel (((s + pat.length : Nat) : Int) - 1) offs =
      .ok (offs ++ ((occ text pat).filter (fun x => decide (s ≤ x))).map Int.ofNat)
  | 0, _, _, h, _ => by omega
  | fuel + 1, s, offs, _, hf => by
    unfold bmhOuter
    by_cases hk : s + pat.length ≤ text.length
    · have hk' : (((s + pat.length : Nat) : Int) - 1) < (text.length : Int) := by omega
      rw [if_pos hk']
      obtain ⟨r, hr1, hr2⟩ := bmhInner_occ text pat s hk
      rw [hr1]
      simp only
      have e1 : (((s + pat.length : Nat) : Int) - 1) = ((s + pat.length - 1 : Nat) : Int) := by omega
      have hlt : s + pat.length - 1 < text.length := by omega
      rw [e1, pyIdx_nat, List.getElem?_eq_getElem hlt]
      simp only
      obtain ⟨v, hv1, hv2, hv3, hv4⟩ := bmhSkip_spec pat hm text[s + pat.length - 1]
      rw [hv1]
      simp only
      have e2 : ((s + pat.length - 1 : Nat) : Int) + (v : Int) = (((s + v) + pat.length : Nat) : Int) - 1 := by omega
      rw [e2, bmhOuter_spec text pat hm fuel (s + v) _ (by omega) (by omega)]
      have hsplit := filter_ge_split (occ text pat) (occ_pairwise text pat) s v hv2
        (fun x hx h1 h2 => shift_safe text pat s v _ hm (List.getElem?_eq_getElem hlt) hv3 hv4 x
          ((mem_occ _ _ _).1 hx) h1 h2)
      rw [hsplit]
      by_cases hocc : OccAt text pat s
      · have hr0 : r = 0 := hr2.2 hocc
        have hmem : s ∈ occ text pat := (mem_occ _ _ _).2 hocc
        subst hr0
        simp [hmem]
      · have hr0 : r ≠ 0 := fun h => hocc (hr2.1 h)
        have hmem : s ∉ occ text pat := fun h => hocc ((mem_occ _ _ _).1 h)
        simp [hmem, hr0]
    · have hk' : ¬ (((s + pat.length : Nat) : Int) - 1) < (text.length : Int) := by omega
      rw [if_neg hk']
      have : (occ text pat).filter (fun x => decide (s ≤ x)) = [] := by
        rw [List.filter_eq_nil_iff]
        intro x hx
        have := ((mem_occ _ _ _).1 hx).1
        simp; omega
      rw [this]
      simp

theorem bmh_eq_occ (text pat : Bytes) (hp : pat ≠ []) :
    bmh text pat = .ok ((occ text pat).map Int.ofNat) := by
  have hm : 1 ≤ pat.length := by
    cases pat with
    | nil => exact absurd rfl hp
    | cons a l => simp
  unfold bmh
  split
  · rename_i h
    have : occ text pat = [] := by
      rw [occ, List.filter_eq_nil_iff]
      intro x _
      simp; omega
    rw [this]
    simp
  · have e : ((pat.length : Int) - 1) = (((0 + pat.length : Nat) : Int) - 1) := by omega
    rw [e, bmhOuter_spec text pat hm (text.length + 1) 0 [] (by omega) (by omega)]
    have : (occ text pat).filter (fun x => decide (0 ≤ x)) = occ text pat := by
      rw [List.filter_eq_self]; intro a _; simp
    rw [this]
    simp

end Acra.Lemmas.Search
