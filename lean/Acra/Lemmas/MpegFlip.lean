/-
  Lemmas for "one byte of the 188-byte buffer changed" statements (C07, MPEG family):
    * list surgery: locating a changed byte inside a concatenation;
    * `MPEGPacket.unpack` of header ++ adaptation bytes ++ ANY tail (the payload is not looked at);
    * what `MPEGPacketPMT.unpack` does with an arbitrary section whose two steering length fields
      are consistent: whenever it returns, it returns "stored CRC == CRC of exactly the section".
-/
import Acra.Lemmas.MPEGTS
import Acra.Lemmas.PMT
import Acra.Lemmas.PES
import Acra.Lemmas.CRCMpeg
import Acra.Lemmas.CRC
namespace Acra.Lemmas.MpegFlip
open Acra.Py Acra.Model.MPEGTS Acra.Model.PMT Acra.Model.PES Acra.Gen.MPEGTS Acra.Gen.PMT
open Acra.Lemmas.MPEGTS Acra.Lemmas.PMT Acra.Lemmas.CRCMpeg Acra.Lemmas.PES

/-! ### list surgery -/

/-- the changed byte lies at or after the end of the first part -/
theorem split_right {α} (A B pre suf : List α) (a : α) (h : A ++ B = pre ++ a :: suf) (hl : A.length ≤ pre.length) :
    ∃ pre2, pre = A ++ pre2 ∧ B = pre2 ++ a :: suf := by
  rcases List.append_eq_append_iff.mp h with ⟨m, h1, h2⟩ | ⟨m, h1, h2⟩
  · exact ⟨m, h1, h2⟩
  · cases m with
    | nil => exact ⟨[], by simpa using h1.symm, by simpa using h2.symm⟩
    | cons x xs =>
      have := congrArg List.length h1
      simp at this; omega

/-- the changed byte lies inside the first part -/
theorem split_left {α} (A B pre suf : List α) (a : α) (h : A ++ B = pre ++ a :: suf) (hl : pre.length < A.length) :
    ∃ suf1, A = pre ++ a :: suf1 ∧ suf = suf1 ++ B := by
  rcases List.append_eq_append_iff.mp h with ⟨m, h1, h2⟩ | ⟨m, h1, h2⟩
  · have := congrArg List.length h1
    simp at this; omega
  · cases m with
    | nil =>
      have := congrArg List.length h1
      simp at this; omega
    | cons x xs =>
      simp only [List.cons_append, List.cons.injEq] at h2
      obtain ⟨rfl, rfl⟩ := h2
      exact ⟨xs, h1, rfl⟩

theorem getD_changed_ne {α} (pre suf : List α) (a a' d : α) (k : Nat) (h : pre.length ≠ k) :
    (pre ++ a' :: suf).getD k d = (pre ++ a :: suf).getD k d := by
  simp only [List.getD_eq_getElem?_getD]
  by_cases hk : k < pre.length
  · rw [List.getElem?_append_left hk, List.getElem?_append_left hk]
  · have hk' : pre.length ≤ k := by omega
    rw [List.getElem?_append_right hk', List.getElem?_append_right hk']
    obtain ⟨m, hm⟩ : ∃ m, k - pre.length = m + 1 := ⟨k - pre.length - 1, by omega⟩
    rw [hm]; rfl

theorem getD_changed_eq {α} (pre suf : List α) (a d : α) : (pre ++ a :: suf).getD pre.length d = a := by
  simp [List.getD_eq_getElem?_getD]

theorem exists_cons {α} (l : List α) (n : Nat) (h : l.length = n + 1) : ∃ a r, l = a :: r ∧ r.length = n := by
  cases l with
  | nil => simp at h
  | cons a r => exact ⟨a, r, rfl, by simpa using h⟩

theorem list12 {α} (l : List α) (h : l.length = 12) :
    ∃ b0 b1 b2 b3 b4 b5 b6 b7 b8 b9 b10 b11, l = [b0, b1, b2, b3, b4, b5, b6, b7, b8, b9, b10, b11] := by
  obtain ⟨b0, l0, rfl, h0⟩ := exists_cons l 11 h
  obtain ⟨b1, l1, rfl, h1⟩ := exists_cons l0 10 h0
  obtain ⟨b2, l2, rfl, h2⟩ := exists_cons l1 9 h1
  obtain ⟨b3, l3, rfl, h3⟩ := exists_cons l2 8 h2
  obtain ⟨b4, l4, rfl, h4⟩ := exists_cons l3 7 h3
  obtain ⟨b5, l5, rfl, h5⟩ := exists_cons l4 6 h4
  obtain ⟨b6, l6, rfl, h6⟩ := exists_cons l5 5 h5
  obtain ⟨b7, l7, rfl, h7⟩ := exists_cons l6 4 h6
  obtain ⟨b8, l8, rfl, h8⟩ := exists_cons l7 3 h7
  obtain ⟨b9, l9, rfl, h9⟩ := exists_cons l8 2 h8
  obtain ⟨b10, l10, rfl, h10⟩ := exists_cons l9 1 h9
  obtain ⟨b11, l11, rfl, h11⟩ := exists_cons l10 0 h10
  have : l11 = [] := List.eq_nil_of_length_eq_zero h11
  subst this
  exact ⟨b0, b1, b2, b3, b4, b5, b6, b7, b8, b9, b10, b11, rfl⟩

theorem nib (x y c : Nat) (h : x % 16 = y % 16) : (y * 256 + c) % 4096 = (x * 256 + c) % 4096 := by omega

/-- big-endian value is injective on byte strings of equal length -/
theorem beNat_inj (x y : Bytes) (hl : x.length = y.length) (h : beNat x = beNat y) : x = y := by
  have hx := beBytes_beNat x
  have hy := beBytes_beNat y
  rw [← hx, ← hy, hl, h]

/-! ### MPEGPacket.unpack looks only at the header and the adaptation bytes -/

/-- the decoded packet when header and adaptation bytes of `p` are followed by `T` -/
def Pkt_decodedT (p : Pkt) (T : Bytes) : Pkt :=
  { p with payload := if p.adaption_ctrl = 1 ∨ p.adaption_ctrl = 3 then T else [],
           adaption_field := if hasAF p then p.adaption_field.map AF_packed else none }

theorem Pkt_unpack_tail (p t : Pkt) (T : Bytes) (h : Pkt_WF p) (hs : p.sync = 0x47)
    (h2af : p.adaption_ctrl = 2 → p.adaption_field.isSome = true) :
    Pkt.unpack t (Pkt_hdr p ++ (Pkt_af p ++ T)) = (Pkt_decodedT p T, .ok ()) := by
  obtain ⟨h1, h2, h3, h4, h5, h6, h7⟩ := h
  obtain ⟨d1, d2, d3, d4, d5, d6, d7, d8, d9⟩ := hdr_decode p h2 h3 h4 h5 h6
  have h0 : structUnpackFrom Pkt_unpack_fmt0 (Pkt_hdr p ++ (Pkt_af p ++ T)) 0 = .ok [p.sync, Pkt_pidFull p, Pkt_cont p] := by
    have hfit : Fits Pkt_unpack_fmt0.codes [p.sync, Pkt_pidFull p, Pkt_cont p] := by
      simp [Fits, Pkt_unpack_fmt0, Code.bound]; omega
    have := structUnpackFrom_enc0 Pkt_unpack_fmt0 [p.sync, Pkt_pidFull p, Pkt_cont p] (Pkt_af p ++ T) hfit
    simpa [encCodes, Pkt_unpack_fmt0, Code.size, Pkt_hdr, List.append_assoc] using this
  have hdrop4 : List.drop 4 (Pkt_hdr p ++ (Pkt_af p ++ T)) = Pkt_af p ++ T := drop_append_len _ _ _ (by simp)
  have hne : ¬ (p.sync ≠ 71) := by omega
  simp only [Pkt.unpack, h0, hne, if_false, d1, d2, d3, d4, d5, d6, d7, hdrop4, ADAPTION_PAYLOAD_AND_ADAPTION,
    ADAPTION_ADAPTION_ONLY, ADAPTION_PAYLOAD_ONLY]
  have hafc : p.adaption_ctrl = 0 ∨ p.adaption_ctrl = 1 ∨ p.adaption_ctrl = 2 ∨ p.adaption_ctrl = 3 := by omega
  rcases hafc with ha | ha | ha | ha
  · simp [ha, Pkt_decodedT, hasAF, hs]
  · have : Pkt_af p = [] := by simp [Pkt_af, hasAF, ha]
    simp [ha, Pkt_decodedT, hasAF, this]
  · obtain ⟨a, hx⟩ := Option.isSome_iff_exists.mp (h2af ha)
    have : Pkt_af p = AF_bytes a := by simp [Pkt_af, hasAF, ha, hx]
    simp only [ha, this, AF_unpack_bytes a AF.fresh _ (h7 a hx)]
    simp [Pkt_decodedT, hasAF, ha, hx]
  · cases hx : p.adaption_field with
    | none =>
      have haf : Pkt_af p = encInt true 1 0 := by simp [Pkt_af, hasAF, ha, hx]
      have hr : structUnpackFrom Pkt_unpack_fmt1 (Pkt_af p ++ T) 0 = .ok [0] := by
        rw [haf]; exact read_u8 _ rfl [] _ 0 (by omega) 0 rfl
      have hd5 : List.drop (4 + 1) (Pkt_hdr p ++ (Pkt_af p ++ T)) = T := by
        rw [← List.append_assoc (Pkt_hdr p), haf]
        exact drop_append_len _ _ _ (by simp)
      simp only [ha, hr, hd5]
      simp [Pkt_decodedT, hasAF, ha, hx]
    | some a =>
      have haf : Pkt_af p = AF_bytes a := by simp [Pkt_af, hasAF, ha, hx]
      have hL := AF_bytes_length a
      have hpos := AF_lenByte_pos a
      have hwf := h7 a hx
      have hr : structUnpackFrom Pkt_unpack_fmt1 (Pkt_af p ++ T) 0 = .ok [AF_lenByte a] := by
        rw [haf]
        simp only [AF_bytes, List.append_assoc]
        exact read_u8 _ rfl [] _ _ hwf.2.2.2.2.2.2.2.2.2.2 0 rfl
      have hd5 : List.drop (4 + 1 + AF_lenByte a) (Pkt_hdr p ++ (Pkt_af p ++ T)) = T := by
        rw [← List.append_assoc (Pkt_hdr p), haf]
        exact drop_append_len _ _ _ (by simp [hL]; omega)
      have hsl : slice (Pkt_hdr p ++ (Pkt_af p ++ T)) 4 (AF_lenByte a + 1 + 4) = AF_bytes a := by
        rw [haf]
        exact slice_mid _ _ _ _ _ (by simp) (by simp [hL]; omega)
      have hu := AF_unpack_bytes a AF.fresh [] hwf
      rw [List.append_nil] at hu
      simp only [ha, hr, hd5, hpos, if_true, hsl, hu]
      simp [Pkt_decodedT, hasAF, ha, hx]

/-! ### MPEGPacketPMT.unpack on an arbitrary section -/

theorem Stream_unpack_rest (buf : Bytes) (x : Stream) (rest : Bytes) (h : Stream.unpack buf = .ok (x, rest)) :
    ∃ n, rest = buf.drop n := by
  unfold Stream.unpack at h
  split at h
  · simp at h
  · simp only [Except.ok.injEq, Prod.mk.injEq] at h
    exact ⟨_, h.2.symm⟩
  · simp at h

/-- what the stream loop leaves is a suffix of its input of at most `CRC_LEN` bytes -/
theorem decStreams_left (fuel : Nat) (buf : Bytes) (ss : List Stream) (left : Bytes)
    (h : decStreams fuel buf = .ok (ss, left)) : left.length ≤ 4 ∧ ∃ n, left = buf.drop n := by
  induction fuel generalizing buf ss with
  | zero => simp [decStreams] at h
  | succ f ih =>
    unfold decStreams at h
    split at h
    · split at h
      · simp at h
      · rename_i x rest hx
        split at h
        · rename_i ss' left' hrec
          simp only [Except.ok.injEq, Prod.mk.injEq] at h
          obtain ⟨_, rfl⟩ := h
          obtain ⟨hl, n, hn⟩ := ih rest ss' hrec
          obtain ⟨m, hm⟩ := Stream_unpack_rest buf x rest hx
          exact ⟨hl, m + n, by rw [hn, hm, List.drop_drop]⟩
        · simp at h
    · rename_i hc
      simp only [Except.ok.injEq, Prod.mk.injEq] at h
      obtain ⟨_, rfl⟩ := h
      exact ⟨by simp [PMT_CRC_LEN] at hc; omega, 0, rfl⟩

/-- a 4-byte suffix of `Y ++ C` with `|C| = 4` is `C` -/
theorem suffix4 (Y C left : Bytes) (n : Nat) (hC : C.length = 4) (hl : left.length = 4)
    (h : left = (Y ++ C).drop n) : left = C := by
  have hlen := congrArg List.length h
  simp only [List.length_drop, List.length_append] at hlen
  have hn : n = Y.length := by omega
  rw [h, hn]; exact List.drop_left' rfl

/-- the value `MPEGPacketPMT.unpack` returns once the base class has decoded the packet, as a function
    of the section alone: `pil` = program_info_length, `Hd` the 12 fixed bytes, `X` the descriptor and
    stream bytes, `C` the four bytes at the position `section_length` designates for the CRC -/
def sectionResult (pil : Nat) (Hd X C : Bytes) : R Bool :=
  match (if 0 < pil then decDescs ((X.take pil).length + 1) (X.take pil) else .ok []) with
  | .error e => .error e
  | .ok _ =>
    match decStreams ((X.drop pil ++ C).length + 1) (X.drop pil ++ C) with
    | .error e => .error e
    | .ok (_, left) =>
      match structUnpack PMT_unpack_fmt0 left with
      | .error e => .error e
      | .ok [crc] => .ok (crc == crc32mpeg2 (Hd ++ X))
      | .ok _ => .error .struct

/-- **`MPEGPacketPMT.unpack` on an arbitrary section.**  The base-class decode gave a payload
    `00 ‖ Hd ‖ X ‖ C ‖ R` (pointer field 0, 12 header bytes, anything, 4 bytes, anything) whose
    `section_length` field (low 12 bits of header bytes 1–2) is `13 + |X|` and whose
    `program_info_length` field (low 12 bits of header bytes 10–11) does not exceed `|X|`: the CRC is
    computed over exactly `Hd ‖ X`, the descriptor loop runs on the first `pil` bytes of `X`, the
    stream loop on the rest followed by `C`. -/
theorem PMT_unpack_reduce (t : PMT) (buf : Bytes) (p : Pkt) (Hd X C R : Bytes)
    (hp : Pkt.unpack t.pkt buf = (p, .ok ()))
    (hpl : p.payload = (0 : UInt8) :: (Hd ++ (X ++ (C ++ R))))
    (hH : Hd.length = 12) (hC : C.length = 4)
    (hlen : ((Hd.getD 1 0).toNat * 256 + (Hd.getD 2 0).toNat) % 4096 = 13 + X.length)
    (hpil : ((Hd.getD 10 0).toNat * 256 + (Hd.getD 11 0).toNat) % 4096 ≤ X.length) :
    (PMT.unpack t buf).2 =
      sectionResult (((Hd.getD 10 0).toNat * 256 + (Hd.getD 11 0).toNat) % 4096) Hd X C := by
  obtain ⟨b0, b1, b2, b3, b4, b5, b6, b7, b8, b9, b10, b11, rfl⟩ := list12 Hd hH
  simp only [List.getD_cons_succ, List.getD_cons_zero] at hlen hpil ⊢
  generalize hpilv : (b10.toNat * 256 + b11.toNat) % 4096 = pil at hpil
  unfold PMT.unpack
  rw [hp]
  simp only [hpl]
  have hptr : structUnpackFrom PMT_FMT_POINTER ((0 : UInt8) :: ([b0, b1, b2, b3, b4, b5, b6, b7, b8, b9, b10, b11] ++ (X ++ (C ++ R)))) 0
      = .ok [0] := by
    simp [structUnpackFrom, PMT_FMT_POINTER, Fmt.size, codesSize, Code.size, unpackCodes, decInt, beNat, leNat]
  have hfx : structUnpackFrom PMT_FMT ((0 : UInt8) :: ([b0, b1, b2, b3, b4, b5, b6, b7, b8, b9, b10, b11] ++ (X ++ (C ++ R)))) (PMT_FMT_POINTER.size + 0)
      = .ok [b0.toNat, b1.toNat * 256 + b2.toNat, b3.toNat * 256 + b4.toNat, b5.toNat, b6.toNat, b7.toNat,
             b8.toNat * 256 + b9.toNat, b10.toNat * 256 + b11.toNat] := by
    simp [structUnpackFrom, PMT_FMT, PMT_FMT_POINTER, Fmt.size, codesSize, Code.size, unpackCodes, decInt, beNat, leNat]
    omega
  simp only [hptr, hfx, hlen, hpilv]
  have hH' : [b0, b1, b2, b3, b4, b5, b6, b7, b8, b9, b10, b11].length = 12 := rfl
  clear hptr hfx hpl hH
  generalize [b0, b1, b2, b3, b4, b5, b6, b7, b8, b9, b10, b11] = Hd at hH' ⊢
  have hE : 13 + X.length + PMT_HDR_LEN_NOT_INCL_IN_LEN + (PMT_FMT.size + PMT_FMT_POINTER.size + 0 + pil) - PMT_FMT.size - pil
      = X.length + 17 := by
    simp only [PMT_HDR_LEN_NOT_INCL_IN_LEN, PMT_FMT, PMT_FMT_POINTER, Fmt.size, codesSize, Code.size]; omega
  have hcrcbuf : slice ((0 : UInt8) :: (Hd ++ (X ++ (C ++ R)))) (0 + PMT_FMT_POINTER.size) (X.length + 17 - PMT_CRC_LEN) = Hd ++ X := by
    have : (0 : UInt8) :: (Hd ++ (X ++ (C ++ R))) = [0] ++ ((Hd ++ X) ++ (C ++ R)) := by simp [List.append_assoc]
    rw [this]
    exact slice_mid _ _ _ _ _ (by simp [PMT_FMT_POINTER, Fmt.size, codesSize, Code.size])
      (by simp [PMT_CRC_LEN, hH']; omega)
  have h1 : (X.take pil).length = pil := by simp; omega
  have h2 : (X.drop pil).length = X.length - pil := by simp
  have hsbuf : slice ((0 : UInt8) :: (Hd ++ (X ++ (C ++ R)))) (PMT_FMT.size + PMT_FMT_POINTER.size + 0 + pil) (X.length + 17)
      = X.drop pil ++ C := by
    have : (0 : UInt8) :: (Hd ++ (X ++ (C ++ R))) = ([0] ++ Hd ++ X.take pil) ++ ((X.drop pil ++ C) ++ R) := by
      simp only [List.append_assoc, List.cons_append, List.nil_append]
      rw [← List.append_assoc (X.take pil), List.take_append_drop]
    rw [this]
    exact slice_mid _ _ _ _ _ (by simp [hH', h1, PMT_FMT, PMT_FMT_POINTER, Fmt.size, codesSize, Code.size]; omega)
      (by simp only [List.length_append, hH', h1, h2, hC, List.length_cons, List.length_nil]; omega)
  have hdbuf : slice ((0 : UInt8) :: (Hd ++ (X ++ (C ++ R)))) (PMT_FMT.size + PMT_FMT_POINTER.size + 0)
      (PMT_FMT.size + PMT_FMT_POINTER.size + 0 + pil) = X.take pil := by
    have : (0 : UInt8) :: (Hd ++ (X ++ (C ++ R))) = ([0] ++ Hd) ++ (X.take pil ++ (X.drop pil ++ (C ++ R))) := by
      simp only [List.cons_append, List.nil_append]
      rw [← List.append_assoc (X.take pil), List.take_append_drop]
    rw [this]
    exact slice_mid _ _ _ _ _ (by simp [hH', PMT_FMT, PMT_FMT_POINTER, Fmt.size, codesSize, Code.size])
      (by simp [hH', h1, PMT_FMT, PMT_FMT_POINTER, Fmt.size, codesSize, Code.size])
  have hne : ¬ (Hd ++ X).length = 0 := by simp [hH']
  simp only [hE, hcrcbuf, hsbuf, hdbuf, hne, if_false, sectionResult]
  split
  · next heq => simp only [heq]
  · next heq =>
    simp only [heq]
    split
    · next heq2 => simp only [heq2]
    · next heq2 =>
      simp only [heq2]
      split
      · next heq3 => simp only [heq3]
      · next heq3 => simp only [heq3]
      · next hno heq3 =>
        simp only [heq3]

/-- **the CRC comparison of `MPEGPacketPMT.unpack`, for an arbitrary section**: whatever `Hd` and `X`
    contain — however the descriptor and stream loops parse `X`, even when they mis-frame it — IF the
    decoder returns a value at all, that value is "the big-endian word `C` equals CRC-32/MPEG-2 of
    `Hd ‖ X`". -/
theorem sectionResult_ok (pil : Nat) (Hd X C : Bytes) (hC : C.length = 4) (b : Bool)
    (hb : sectionResult pil Hd X C = .ok b) : b = (beNat C == crc32mpeg2 (Hd ++ X)) := by
  unfold sectionResult at hb
  split at hb
  · simp at hb
  · split at hb
    · simp at hb
    · rename_i ss left hdec
      obtain ⟨hl4, n, hn⟩ := decStreams_left _ _ _ _ hdec
      split at hb
      · simp at hb
      · rename_i crc hcrc
        have hl := structUnpack_ok_length _ _ _ hcrc
        have hl' : left.length = 4 := by simpa [PMT_unpack_fmt0, Fmt.size, codesSize, Code.size] using hl
        have hleft : left = C := suffix4 _ _ _ n hC hl' hn
        subst hleft
        simp only [structUnpack, hl, if_true, PMT_unpack_fmt0, unpackCodes, Code.size, decInt, Except.ok.injEq,
          List.cons.injEq, and_true] at hcrc
        rw [List.take_of_length_le (by omega)] at hcrc
        injection hb with hb
        rw [← hb, ← hcrc]
      · simp at hb

theorem PMT_unpack_section (t : PMT) (buf : Bytes) (p : Pkt) (Hd X C R : Bytes)
    (hp : Pkt.unpack t.pkt buf = (p, .ok ()))
    (hpl : p.payload = (0 : UInt8) :: (Hd ++ (X ++ (C ++ R))))
    (hH : Hd.length = 12) (hC : C.length = 4)
    (hlen : ((Hd.getD 1 0).toNat * 256 + (Hd.getD 2 0).toNat) % 4096 = 13 + X.length)
    (hpil : ((Hd.getD 10 0).toNat * 256 + (Hd.getD 11 0).toNat) % 4096 ≤ X.length)
    (b : Bool) (hb : (PMT.unpack t buf).2 = .ok b) :
    b = (beNat C == crc32mpeg2 (Hd ++ X)) := by
  rw [PMT_unpack_reduce t buf p Hd X C R hp hpl hH hC hlen hpil] at hb
  exact sectionResult_ok _ Hd X C hC b hb

/-- when the descriptor and stream bytes are encodings of well-formed elements and
    `program_info_length` is the length of the descriptor bytes, both loops succeed: the decoder
    RETURNS, and the value is the CRC comparison -/
theorem sectionResult_wf (Hd C : Bytes) (ds : List Desc) (ss : List Stream)
    (hd : ∀ d ∈ ds, Desc_WF d) (hs : ∀ x ∈ ss, Stream_WF x) (hC : C.length = 4) :
    sectionResult (ds.flatMap Desc_bytes).length Hd (ds.flatMap Desc_bytes ++ ss.flatMap Stream_bytes) C =
      .ok (beNat C == crc32mpeg2 (Hd ++ (ds.flatMap Desc_bytes ++ ss.flatMap Stream_bytes))) := by
  have htake : List.take (ds.flatMap Desc_bytes).length (ds.flatMap Desc_bytes ++ ss.flatMap Stream_bytes)
      = ds.flatMap Desc_bytes := List.take_left' rfl
  have hdrop : List.drop (ds.flatMap Desc_bytes).length (ds.flatMap Desc_bytes ++ ss.flatMap Stream_bytes)
      = ss.flatMap Stream_bytes := List.drop_left' rfl
  have hdescs : (if 0 < (ds.flatMap Desc_bytes).length then
      decDescs ((ds.flatMap Desc_bytes).length + 1) (ds.flatMap Desc_bytes) else .ok []) = .ok (if 0 < (ds.flatMap Desc_bytes).length then ds else []) := by
    by_cases hz : 0 < (ds.flatMap Desc_bytes).length
    · rw [if_pos hz, if_pos hz]
      exact decDescs_flatMap _ hd _ (by have := flatMap_desc_len ds; omega)
    · rw [if_neg hz, if_neg hz]
  have hstreams : decStreams ((ss.flatMap Stream_bytes ++ C).length + 1) (ss.flatMap Stream_bytes ++ C) = .ok (ss, C) :=
    decStreams_flatMap _ hs _ hC _ (by have := flatMap_stream_len ss; simp only [List.length_append]; omega)
  have hcrc : structUnpack PMT_unpack_fmt0 C = .ok [beNat C] := by
    have hl : C.length = PMT_unpack_fmt0.size := by rw [hC]; rfl
    simp only [structUnpack, hl, if_true, PMT_unpack_fmt0, unpackCodes, Code.size, decInt]
    rw [List.take_of_length_le (by omega)]
  simp only [sectionResult, htake, hdrop, hdescs, hstreams, hcrc]

/-! ### one changed byte of a packed PMT packet -/

/-- offset of the section (its `table_id` byte) in the packet: header, adaptation bytes, pointer field -/
def PMT_secOff (s : PMT) : Nat := 5 + (Pkt_af (PMT_pkt s)).length

/-- descriptor and stream bytes of the section -/
def PMT_loops (s : PMT) : Bytes := PMT_dbytes s ++ PMT_sbytes s

theorem PMT_loops_length (s : PMT) : 13 + (PMT_loops s).length = PMT_slen s := by
  simp [PMT_loops, PMT_slen]; omega

/-- the packed packet, cut at the section's parts -/
theorem PMT_bytes_parts (s : PMT) :
    Pkt_bytes (PMT_pkt s) = (Pkt_hdr (PMT_pkt s) ++ Pkt_af (PMT_pkt s) ++ [0]) ++
      (PMT_hdr s ++ (PMT_loops s ++ (PMT_crc4 s ++ Pkt_stuffing (PMT_pkt s)))) := by
  have : (PMT_pkt s).payload = PMT_payload s := rfl
  simp [Pkt_bytes, this, PMT_payload, PMT_body, PMT_loops, PMT_crc4, Pkt_stuffing, encInt, beBytes, leBytes,
    List.append_assoc]

theorem PMT_hdr_steer (s : PMT) (h : PMT_WF s) :
    (((PMT_hdr s).getD 1 0).toNat * 256 + ((PMT_hdr s).getD 2 0).toNat) % 4096 = PMT_slen s ∧
    (((PMT_hdr s).getD 10 0).toNat * 256 + ((PMT_hdr s).getD 11 0).toNat) % 4096 = (PMT_dbytes s).length := by
  obtain ⟨hw, h1, h2, h3, h4, h5, h6, h7, h8, hd, hs, hl⟩ := h
  have hdl : (PMT_dbytes s).length < 4096 := by unfold PMT_slen at hl; omega
  have e2 : ∀ v, encInt true 2 v = [UInt8.ofNat (v / 256 % 256), UInt8.ofNat (v % 256)] := by
    intro v; simp [encInt, beBytes, leBytes]
  have e1 : ∀ v, encInt true 1 v = [UInt8.ofNat (v % 256)] := by
    intro v; simp [encInt, beBytes, leBytes]
  simp only [PMT_hdr, e1, e2, List.cons_append, List.nil_append, List.getD_cons_succ, List.getD_cons_zero,
    UInt8.toNat_ofNat']
  constructor <;> omega

/-- decode of header ++ adaptation bytes ++ pointer 0 ++ arbitrary section, then the CRC comparison -/
theorem PMT_section_result (s t : PMT) (h : PMT_WF s) (hs : s.pkt.sync = 0x47)
    (hafc : s.pkt.adaption_ctrl = 1 ∨ s.pkt.adaption_ctrl = 3) (Hd X C R : Bytes)
    (hH : Hd.length = 12) (hC : C.length = 4)
    (hlen : ((Hd.getD 1 0).toNat * 256 + (Hd.getD 2 0).toNat) % 4096 = 13 + X.length)
    (hpil : ((Hd.getD 10 0).toNat * 256 + (Hd.getD 11 0).toNat) % 4096 ≤ X.length)
    (b : Bool)
    (hb : (PMT.unpack t ((Pkt_hdr (PMT_pkt s) ++ Pkt_af (PMT_pkt s) ++ [0]) ++ (Hd ++ (X ++ (C ++ R))))).2 = .ok b) :
    b = (beNat C == crc32mpeg2 (Hd ++ X)) := by
  have hwp : Pkt_WF (PMT_pkt s) := h.1
  have h2af : (PMT_pkt s).adaption_ctrl = 2 → (PMT_pkt s).adaption_field.isSome = true := by
    intro c; have : s.pkt.adaption_ctrl = 2 := c; omega
  have hafc' : (PMT_pkt s).adaption_ctrl = 1 ∨ (PMT_pkt s).adaption_ctrl = 3 := hafc
  have hbuf : (Pkt_hdr (PMT_pkt s) ++ Pkt_af (PMT_pkt s) ++ [0]) ++ (Hd ++ (X ++ (C ++ R))) =
      Pkt_hdr (PMT_pkt s) ++ (Pkt_af (PMT_pkt s) ++ ((0 : UInt8) :: (Hd ++ (X ++ (C ++ R))))) := by
    simp [List.append_assoc]
  rw [hbuf] at hb
  have hp := Pkt_unpack_tail (PMT_pkt s) t.pkt ((0 : UInt8) :: (Hd ++ (X ++ (C ++ R)))) hwp hs h2af
  have hpl : (Pkt_decodedT (PMT_pkt s) ((0 : UInt8) :: (Hd ++ (X ++ (C ++ R))))).payload =
      (0 : UInt8) :: (Hd ++ (X ++ (C ++ R))) := by
    simp only [Pkt_decodedT, if_pos hafc']
  exact PMT_unpack_section t _ _ Hd X C R hp hpl hH hC hlen hpil b hb

/-- **one byte of the section of a packed PMT packet changed** (anywhere from `table_id` to the last
    CRC byte, the low 12 bits of `section_length` and of `program_info_length` kept): the decoder does
    not return True — if it returns at all (it may raise when the change mis-frames the descriptor or
    stream loop) it returns False. -/
theorem PMT_flip_rejected (s t : PMT) (h : PMT_WF s) (hs : s.pkt.sync = 0x47)
    (hafc : s.pkt.adaption_ctrl = 1 ∨ s.pkt.adaption_ctrl = 3)
    (pre suf : Bytes) (a a' : UInt8) (hbuf : Pkt_bytes (PMT_pkt s) = pre ++ a :: suf) (hne : a ≠ a')
    (hlo : PMT_secOff s ≤ pre.length) (hhi : pre.length < PMT_secOff s + PMT_slen s + 3)
    (h2 : pre.length ≠ PMT_secOff s + 2) (h11 : pre.length ≠ PMT_secOff s + 11)
    (h1 : pre.length = PMT_secOff s + 1 → a.toNat % 16 = a'.toNat % 16)
    (h10 : pre.length = PMT_secOff s + 10 → a.toNat % 16 = a'.toNat % 16)
    (b : Bool) (hb : (PMT.unpack t (pre ++ a' :: suf)).2 = .ok b) : b = false := by
  obtain ⟨hst1, hst2⟩ := PMT_hdr_steer s h
  have hLL := PMT_loops_length s
  have hHl := PMT_hdr_length s
  have hCl : (PMT_crc4 s).length = 4 := by simp [PMT_crc4]
  have hdl : (PMT_dbytes s).length ≤ (PMT_loops s).length := by simp [PMT_loops]
  have hcrc0 : beNat (PMT_crc4 s) = crc32mpeg2 (PMT_hdr s ++ PMT_loops s) := by
    have : crc32mpeg2 (PMT_body s) < 256 ^ 4 := by unfold crc32mpeg2; omega
    have e : PMT_body s = PMT_hdr s ++ PMT_loops s := rfl
    rw [← e]
    simp only [PMT_crc4, encInt, if_true]
    exact beNat_beBytes_of_lt 4 _ this
  rw [PMT_bytes_parts s] at hbuf
  have hFl : (Pkt_hdr (PMT_pkt s) ++ Pkt_af (PMT_pkt s) ++ [0]).length = PMT_secOff s := by
    simp [PMT_secOff]; omega
  obtain ⟨pre2, rfl, hsec⟩ := split_right _ _ pre suf a hbuf (by omega)
  simp only [List.length_append, hFl] at hlo hhi h2 h11 h1 h10
  rw [List.append_assoc] at hb
  by_cases c1 : pre2.length < 12
  · -- the fixed part of the section
    obtain ⟨suf1, hHd, rfl⟩ := split_left _ _ pre2 suf a hsec (by omega)
    have hlen' : (pre2 ++ a' :: suf1).length = 12 := by
      have := congrArg List.length hHd; simp at this ⊢; omega
    have k1 : (((pre2 ++ a' :: suf1).getD 1 0).toNat * 256 + ((pre2 ++ a' :: suf1).getD 2 0).toNat) % 4096
        = 13 + (PMT_loops s).length := by
      rw [getD_changed_ne pre2 suf1 a a' 0 2 (by omega), ← hHd, hLL, ← hst1]
      by_cases c : pre2.length = 1
      · have e1 : (pre2 ++ a' :: suf1).getD 1 0 = a' := by rw [← c]; exact getD_changed_eq _ _ _ _
        have e2 : (PMT_hdr s).getD 1 0 = a := by rw [hHd, ← c]; exact getD_changed_eq _ _ _ _
        rw [e1, e2]; exact nib _ _ _ (h1 (by omega))
      · rw [getD_changed_ne pre2 suf1 a a' 0 1 c, ← hHd]
    have k2 : (((pre2 ++ a' :: suf1).getD 10 0).toNat * 256 + ((pre2 ++ a' :: suf1).getD 11 0).toNat) % 4096
        ≤ (PMT_loops s).length := by
      rw [getD_changed_ne pre2 suf1 a a' 0 11 (by omega), ← hHd]
      refine Nat.le_trans (Nat.le_of_eq ?_) hdl
      rw [← hst2]
      by_cases c : pre2.length = 10
      · have e1 : (pre2 ++ a' :: suf1).getD 10 0 = a' := by rw [← c]; exact getD_changed_eq _ _ _ _
        have e2 : (PMT_hdr s).getD 10 0 = a := by rw [hHd, ← c]; exact getD_changed_eq _ _ _ _
        rw [e1, e2]; exact nib _ _ _ (h10 (by omega))
      · rw [getD_changed_ne pre2 suf1 a a' 0 10 c, ← hHd]
    have hb' : (PMT.unpack t ((Pkt_hdr (PMT_pkt s) ++ Pkt_af (PMT_pkt s) ++ [0]) ++
        ((pre2 ++ a' :: suf1) ++ (PMT_loops s ++ (PMT_crc4 s ++ Pkt_stuffing (PMT_pkt s)))))).2 = .ok b := by
      simpa [List.append_assoc] using hb
    have := PMT_section_result s t h hs hafc _ _ _ _ hlen' hCl k1 k2 b hb'
    rw [this, hcrc0, hHd]
    have hd := crc_detects_byte pre2 (suf1 ++ PMT_loops s) a a' hne
    simp only [List.append_assoc, List.cons_append] at hd ⊢
    simpa using hd
  · obtain ⟨pre3, rfl, hsec3⟩ := split_right _ _ pre2 suf a hsec (by omega)
    simp only [List.length_append, hHl] at hlo hhi h2 h11 h1 h10 c1
    by_cases c2 : pre3.length < (PMT_loops s).length
    · -- descriptor / stream bytes
      obtain ⟨suf1, hX, rfl⟩ := split_left _ _ pre3 suf a hsec3 c2
      have hXl : (pre3 ++ a' :: suf1).length = (PMT_loops s).length := by
        have := congrArg List.length hX; simp at this ⊢; omega
      have hb' : (PMT.unpack t ((Pkt_hdr (PMT_pkt s) ++ Pkt_af (PMT_pkt s) ++ [0]) ++
          (PMT_hdr s ++ ((pre3 ++ a' :: suf1) ++ (PMT_crc4 s ++ Pkt_stuffing (PMT_pkt s)))))).2 = .ok b := by
        simpa [List.append_assoc] using hb
      have := PMT_section_result s t h hs hafc _ _ _ _ hHl hCl (by rw [hXl, hst1, hLL]) (by rw [hXl, hst2]; exact hdl) b hb'
      rw [this, hcrc0, hX]
      have hd := crc_detects_byte (PMT_hdr s ++ pre3) suf1 a a' hne
      simp only [List.append_assoc] at hd ⊢
      simpa using hd
    · -- the CRC bytes
      obtain ⟨pre4, rfl, hsec4⟩ := split_right _ _ pre3 suf a hsec3 (by omega)
      simp only [List.length_append] at hhi
      obtain ⟨suf1, hCC, rfl⟩ := split_left _ _ pre4 suf a hsec4 (by omega)
      have hCl' : (pre4 ++ a' :: suf1).length = 4 := by
        have := congrArg List.length hCC; simp at this ⊢; omega
      have hb' : (PMT.unpack t ((Pkt_hdr (PMT_pkt s) ++ Pkt_af (PMT_pkt s) ++ [0]) ++
          (PMT_hdr s ++ (PMT_loops s ++ ((pre4 ++ a' :: suf1) ++ Pkt_stuffing (PMT_pkt s)))))).2 = .ok b := by
        simpa [List.append_assoc] using hb
      have := PMT_section_result s t h hs hafc _ _ _ _ hHl hCl' (by rw [hst1, hLL]) (by rw [hst2]; exact hdl) b hb'
      rw [this, ← hcrc0, hCC]
      have : beNat (pre4 ++ a' :: suf1) ≠ beNat (pre4 ++ a :: suf1) := by
        intro c
        have := beNat_inj _ _ (by simp) c
        simp at this
        exact hne this.symm
      simpa using this

/-- as `PMT_section_result`, for the descriptor and stream bytes `pack` emitted: the decoder returns -/
theorem PMT_section_result_wf (s t : PMT) (h : PMT_WF s) (hs : s.pkt.sync = 0x47)
    (hafc : s.pkt.adaption_ctrl = 1 ∨ s.pkt.adaption_ctrl = 3) (Hd C R : Bytes)
    (hH : Hd.length = 12) (hC : C.length = 4)
    (hlen : ((Hd.getD 1 0).toNat * 256 + (Hd.getD 2 0).toNat) % 4096 = 13 + (PMT_loops s).length)
    (hpil : ((Hd.getD 10 0).toNat * 256 + (Hd.getD 11 0).toNat) % 4096 = (PMT_dbytes s).length) :
    (PMT.unpack t ((Pkt_hdr (PMT_pkt s) ++ Pkt_af (PMT_pkt s) ++ [0]) ++ (Hd ++ (PMT_loops s ++ (C ++ R))))).2 =
      .ok (beNat C == crc32mpeg2 (Hd ++ PMT_loops s)) := by
  have hwp : Pkt_WF (PMT_pkt s) := h.1
  have h2af : (PMT_pkt s).adaption_ctrl = 2 → (PMT_pkt s).adaption_field.isSome = true := by
    intro c; have : s.pkt.adaption_ctrl = 2 := c; omega
  have hafc' : (PMT_pkt s).adaption_ctrl = 1 ∨ (PMT_pkt s).adaption_ctrl = 3 := hafc
  have hbuf : (Pkt_hdr (PMT_pkt s) ++ Pkt_af (PMT_pkt s) ++ [0]) ++ (Hd ++ (PMT_loops s ++ (C ++ R))) =
      Pkt_hdr (PMT_pkt s) ++ (Pkt_af (PMT_pkt s) ++ ((0 : UInt8) :: (Hd ++ (PMT_loops s ++ (C ++ R))))) := by
    simp [List.append_assoc]
  rw [hbuf]
  have hp := Pkt_unpack_tail (PMT_pkt s) t.pkt ((0 : UInt8) :: (Hd ++ (PMT_loops s ++ (C ++ R)))) hwp hs h2af
  have hpl : (Pkt_decodedT (PMT_pkt s) ((0 : UInt8) :: (Hd ++ (PMT_loops s ++ (C ++ R))))).payload =
      (0 : UInt8) :: (Hd ++ (PMT_loops s ++ (C ++ R))) := by
    simp only [Pkt_decodedT, if_pos hafc']
  have hdl : (PMT_dbytes s).length ≤ (PMT_loops s).length := by simp [PMT_loops]
  rw [PMT_unpack_reduce t _ _ Hd (PMT_loops s) C R hp hpl hH hC hlen (by rw [hpil]; exact hdl), hpil]
  exact sectionResult_wf Hd C s.descriptor_tags s.streams h.2.2.2.2.2.2.2.2.2.1 h.2.2.2.2.2.2.2.2.2.2.1 hC

/-- when the changed byte lies in the 12 fixed bytes of the section or in the CRC, the two loops see
    the bytes `pack` wrote: the decoder returns (no exception) -/
theorem PMT_flip_returns (s t : PMT) (h : PMT_WF s) (hs : s.pkt.sync = 0x47)
    (hafc : s.pkt.adaption_ctrl = 1 ∨ s.pkt.adaption_ctrl = 3)
    (pre suf : Bytes) (a a' : UInt8) (hbuf : Pkt_bytes (PMT_pkt s) = pre ++ a :: suf)
    (hlo : PMT_secOff s ≤ pre.length) (hhi : pre.length < PMT_secOff s + PMT_slen s + 3)
    (hwhere : pre.length < PMT_secOff s + 12 ∨ PMT_secOff s + PMT_slen s - 1 ≤ pre.length)
    (h2 : pre.length ≠ PMT_secOff s + 2) (h11 : pre.length ≠ PMT_secOff s + 11)
    (h1 : pre.length = PMT_secOff s + 1 → a.toNat % 16 = a'.toNat % 16)
    (h10 : pre.length = PMT_secOff s + 10 → a.toNat % 16 = a'.toNat % 16) :
    ∃ b, (PMT.unpack t (pre ++ a' :: suf)).2 = .ok b := by
  obtain ⟨hst1, hst2⟩ := PMT_hdr_steer s h
  have hLL := PMT_loops_length s
  have hHl := PMT_hdr_length s
  have hCl : (PMT_crc4 s).length = 4 := by simp [PMT_crc4]
  rw [PMT_bytes_parts s] at hbuf
  have hFl : (Pkt_hdr (PMT_pkt s) ++ Pkt_af (PMT_pkt s) ++ [0]).length = PMT_secOff s := by
    simp [PMT_secOff]; omega
  obtain ⟨pre2, rfl, hsec⟩ := split_right _ _ pre suf a hbuf (by omega)
  simp only [List.length_append, hFl] at hlo hhi h2 h11 h1 h10 hwhere
  rw [List.append_assoc]
  by_cases c1 : pre2.length < 12
  · obtain ⟨suf1, hHd, rfl⟩ := split_left _ _ pre2 suf a hsec (by omega)
    have hlen' : (pre2 ++ a' :: suf1).length = 12 := by
      have := congrArg List.length hHd; simp at this ⊢; omega
    have k1 : (((pre2 ++ a' :: suf1).getD 1 0).toNat * 256 + ((pre2 ++ a' :: suf1).getD 2 0).toNat) % 4096
        = 13 + (PMT_loops s).length := by
      rw [getD_changed_ne pre2 suf1 a a' 0 2 (by omega), ← hHd, hLL, ← hst1]
      by_cases c : pre2.length = 1
      · have e1 : (pre2 ++ a' :: suf1).getD 1 0 = a' := by rw [← c]; exact getD_changed_eq _ _ _ _
        have e2 : (PMT_hdr s).getD 1 0 = a := by rw [hHd, ← c]; exact getD_changed_eq _ _ _ _
        rw [e1, e2]; exact nib _ _ _ (h1 (by omega))
      · rw [getD_changed_ne pre2 suf1 a a' 0 1 c, ← hHd]
    have k2 : (((pre2 ++ a' :: suf1).getD 10 0).toNat * 256 + ((pre2 ++ a' :: suf1).getD 11 0).toNat) % 4096
        = (PMT_dbytes s).length := by
      rw [getD_changed_ne pre2 suf1 a a' 0 11 (by omega), ← hHd, ← hst2]
      by_cases c : pre2.length = 10
      · have e1 : (pre2 ++ a' :: suf1).getD 10 0 = a' := by rw [← c]; exact getD_changed_eq _ _ _ _
        have e2 : (PMT_hdr s).getD 10 0 = a := by rw [hHd, ← c]; exact getD_changed_eq _ _ _ _
        rw [e1, e2]; exact nib _ _ _ (h10 (by omega))
      · rw [getD_changed_ne pre2 suf1 a a' 0 10 c, ← hHd]
    have := PMT_section_result_wf s t h hs hafc (pre2 ++ a' :: suf1) (PMT_crc4 s) (Pkt_stuffing (PMT_pkt s)) hlen' hCl k1 k2
    refine ⟨_, Eq.trans ?_ this⟩
    simp [List.append_assoc]
  · obtain ⟨pre3, rfl, hsec3⟩ := split_right _ _ pre2 suf a hsec (by omega)
    simp only [List.length_append, hHl] at hlo hhi h2 h11 h1 h10 c1 hwhere
    obtain ⟨pre4, rfl, hsec4⟩ := split_right _ _ pre3 suf a hsec3 (by omega)
    simp only [List.length_append] at hhi
    obtain ⟨suf1, hCC, rfl⟩ := split_left _ _ pre4 suf a hsec4 (by omega)
    have hCl' : (pre4 ++ a' :: suf1).length = 4 := by
      have := congrArg List.length hCC; simp at this ⊢; omega
    have := PMT_section_result_wf s t h hs hafc (PMT_hdr s) (pre4 ++ a' :: suf1) (Pkt_stuffing (PMT_pkt s)) hHl hCl'
      (by rw [hst1, hLL]) hst2
    refine ⟨_, Eq.trans ?_ this⟩
    simp [List.append_assoc]

/-! ### a stale CRC: the corrupted section is still the encoding of well-formed field values -/

/-- two buffers `F ‖ B ‖ T` and `F ‖ B' ‖ T` that differ in exactly one byte differ inside `B` -/
theorem one_diff_middle {α} (F B B' T pre suf : List α) (a a' : α) (hne : a ≠ a') (hl : B.length = B'.length)
    (h : F ++ (B ++ T) = pre ++ a :: suf) (h' : F ++ (B' ++ T) = pre ++ a' :: suf) :
    ∃ p q, B = p ++ a :: q ∧ B' = p ++ a' :: q := by
  by_cases c1 : pre.length < F.length
  · obtain ⟨s1, e1, _⟩ := split_left _ _ pre suf a h c1
    obtain ⟨s2, e2, _⟩ := split_left _ _ pre suf a' h' c1
    rw [e1] at e2
    have := List.append_cancel_left e2
    simp only [List.cons.injEq] at this
    exact absurd this.1 hne
  · obtain ⟨pre2, rfl, e1⟩ := split_right _ _ pre suf a h (by omega)
    have e2 : B' ++ T = pre2 ++ a' :: suf := by
      rw [List.append_assoc] at h'
      exact List.append_cancel_left h'
    by_cases c2 : pre2.length < B.length
    · obtain ⟨s1, b1, t1⟩ := split_left _ _ pre2 suf a e1 c2
      obtain ⟨s2, b2, t2⟩ := split_left _ _ pre2 suf a' e2 (by omega)
      rw [t1] at t2
      have := List.append_cancel_right t2
      subst this
      exact ⟨pre2, s1, b1, b2⟩
    · obtain ⟨p3, r1, t1⟩ := split_right _ _ pre2 suf a e1 (by omega)
      obtain ⟨p4, r2, t2⟩ := split_right _ _ pre2 suf a' e2 (by omega)
      have hl34 : p3.length = p4.length := by
        have := congrArg List.length r1
        have := congrArg List.length r2
        simp only [List.length_append] at *
        omega
      rw [t1] at t2
      have := (List.append_inj t2 hl34).2
      simp only [List.cons.injEq] at this
      exact absurd this.1 hne

/-- **one changed byte that leaves a well-formed section with a stale CRC.**  `s'` is any well-formed
    object in the same packet frame (`s'.pkt = s.pkt`) such that the corrupted buffer is: the packet
    header, adaptation bytes and pointer field of `s`, the section fields of `s'`, the CRC and stuffing
    of `s`.  Then the decoder RETURNS False.  This covers every one-byte change of a descriptor tag or
    data byte, a stream type, elementary PID or ES descriptor byte, and of the non-length bits of the
    fixed part — wherever the result is again the encoding of well-formed field values. -/
theorem PMT_stale_crc_false (s s' t : PMT) (h' : PMT_WF s') (hpkt : s'.pkt = s.pkt)
    (hs : s.pkt.sync = 0x47) (hafc : s.pkt.adaption_ctrl = 1 ∨ s.pkt.adaption_ctrl = 3)
    (pre suf : Bytes) (a a' : UInt8) (hbuf : Pkt_bytes (PMT_pkt s) = pre ++ a :: suf) (hne : a ≠ a')
    (hbuf' : pre ++ a' :: suf = (Pkt_hdr (PMT_pkt s) ++ Pkt_af (PMT_pkt s) ++ [0]) ++
      (PMT_hdr s' ++ (PMT_loops s' ++ (PMT_crc4 s ++ Pkt_stuffing (PMT_pkt s))))) :
    (PMT.unpack t (pre ++ a' :: suf)).2 = .ok false := by
  have e1 : Pkt_hdr (PMT_pkt s') = Pkt_hdr (PMT_pkt s) := by
    show Pkt_hdr { s'.pkt with payload := PMT_payload s' } = Pkt_hdr { s.pkt with payload := PMT_payload s }
    rw [hpkt]; rfl
  have e2 : Pkt_af (PMT_pkt s') = Pkt_af (PMT_pkt s) := by
    show Pkt_af { s'.pkt with payload := PMT_payload s' } = Pkt_af { s.pkt with payload := PMT_payload s }
    rw [hpkt]; rfl
  obtain ⟨hst1, hst2⟩ := PMT_hdr_steer s' h'
  have hCl : (PMT_crc4 s).length = 4 := by simp [PMT_crc4]
  have hres := PMT_section_result_wf s' t h' (by rw [hpkt]; exact hs) (by rw [hpkt]; exact hafc) (PMT_hdr s') (PMT_crc4 s)
    (Pkt_stuffing (PMT_pkt s)) (PMT_hdr_length s') hCl (by rw [hst1, PMT_loops_length]) hst2
  rw [e1, e2, ← hbuf'] at hres
  rw [hres]
  have hcrc0 : beNat (PMT_crc4 s) = crc32mpeg2 (PMT_hdr s ++ PMT_loops s) := by
    have : crc32mpeg2 (PMT_body s) < 256 ^ 4 := by unfold crc32mpeg2; omega
    have e : PMT_body s = PMT_hdr s ++ PMT_loops s := rfl
    rw [← e]
    simp only [PMT_crc4, encInt, if_true]
    exact beNat_beBytes_of_lt 4 _ this
  rw [PMT_bytes_parts s] at hbuf
  have hl : (PMT_hdr s ++ PMT_loops s).length = (PMT_hdr s' ++ PMT_loops s').length := by
    have l1 := congrArg List.length hbuf
    have l2 := congrArg List.length hbuf'
    simp only [List.length_append, List.length_cons] at l1 l2 ⊢
    omega
  obtain ⟨p, q, b1, b2⟩ := one_diff_middle (Pkt_hdr (PMT_pkt s) ++ Pkt_af (PMT_pkt s) ++ [0])
    (PMT_hdr s ++ PMT_loops s) (PMT_hdr s' ++ PMT_loops s') (PMT_crc4 s ++ Pkt_stuffing (PMT_pkt s)) pre suf a a' hne hl
    (by rw [← hbuf]; simp [List.append_assoc]) (by rw [hbuf']; simp [List.append_assoc])
  rw [hcrc0, b1, b2]
  have := crc_detects_byte p q a a' hne
  simpa using this

/-! ### single-bit flips as single-byte changes -/

theorem flip_nibble_aux : ∀ n, n < 256 → ∀ j, j < 8 → 4 ≤ j →
    (UInt8.ofNat n ^^^ ((1 : UInt8) <<< UInt8.ofNat j)).toNat % 16 = (UInt8.ofNat n).toNat % 16 := by
  decide +kernel

/-- flipping one of the four high bits of a byte keeps its low nibble -/
theorem flip_nibble (b : UInt8) (j : Nat) (hj : j < 8) (h4 : 4 ≤ j) :
    b.toNat % 16 = (b ^^^ ((1 : UInt8) <<< UInt8.ofNat j)).toNat % 16 := by
  have := flip_nibble_aux b.toNat b.toNat_lt j hj h4
  simpa using this.symm

/-- `flipBit` changes exactly the byte `k / 8` -/
theorem flipBit_split (buf : Bytes) (k : Nat) (h : k / 8 < buf.length) :
    ∃ pre a suf, buf = pre ++ a :: suf ∧ pre.length = k / 8 ∧
      Acra.Lemmas.CRC.flipBit buf k = pre ++ (a ^^^ ((1 : UInt8) <<< UInt8.ofNat (k % 8))) :: suf := by
  refine ⟨buf.take (k / 8), buf[k / 8], buf.drop (k / 8 + 1), ?_, by simp; omega, ?_⟩
  · simp
  · unfold Acra.Lemmas.CRC.flipBit
    rw [List.getD_eq_getElem?_getD, List.getElem?_eq_getElem h]
    simp [List.set_eq_take_append_cons_drop, h]

/-! ### PES / STANAG 4609: the same packet with other PES data of the same length -/

def withData (q : PES) (D : Bytes) : PES := { q with pesdata := D }

/-- everything in front of the PES data -/
def PES_front (q : PES) : Bytes :=
  Pkt_hdr (PES_pkt q) ++ (Pkt_af (PES_pkt q) ++ (PES_prefix q ++ PES_extBytes q))

theorem PES_len_withData (q : PES) (D : Bytes) (hl : D.length = q.pesdata.length) :
    PES_len (withData q D) = PES_len q := by
  have e0 : PES_extBytes (withData q D) = PES_extBytes q := rfl
  have ed : (withData q D).pesdata = D := rfl
  unfold PES_len; rw [e0, ed, hl]

theorem PES_prefix_withData (q : PES) (D : Bytes) (hl : D.length = q.pesdata.length) :
    PES_prefix (withData q D) = PES_prefix q := by
  unfold PES_prefix; rw [PES_len_withData q D hl]; rfl

theorem PES_payload_withData (q : PES) (D : Bytes) (hl : D.length = q.pesdata.length) :
    (PES_pkt (withData q D)).payload = PES_prefix q ++ (PES_extBytes q ++ D) := by
  show PES_payload (withData q D) = _
  unfold PES_payload; rw [PES_prefix_withData q D hl]; rfl

theorem Pkt_used_withData (q : PES) (D : Bytes) (hl : D.length = q.pesdata.length) :
    Pkt_used (PES_pkt (withData q D)) = Pkt_used (PES_pkt q) := by
  have e4 : Pkt_af (PES_pkt (withData q D)) = Pkt_af (PES_pkt q) := rfl
  have e6 : (PES_pkt q).payload = PES_prefix q ++ (PES_extBytes q ++ q.pesdata) := rfl
  unfold Pkt_used
  rw [e4, PES_payload_withData q D hl, e6]
  simp [hl]

theorem PES_bytes_withData (q : PES) (D : Bytes) (hl : D.length = q.pesdata.length) :
    Pkt_bytes (PES_pkt (withData q D)) = PES_front q ++ (D ++ Pkt_stuffing (PES_pkt q)) := by
  have e3 : Pkt_hdr (PES_pkt (withData q D)) = Pkt_hdr (PES_pkt q) := rfl
  have e4 : Pkt_af (PES_pkt (withData q D)) = Pkt_af (PES_pkt q) := rfl
  unfold Pkt_bytes PES_front Pkt_stuffing
  rw [e3, e4, PES_payload_withData q D hl, Pkt_used_withData q D hl]
  simp [List.append_assoc]

theorem withData_self (q : PES) : withData q q.pesdata = q := rfl

theorem looksLikeHeader_withData (q : PES) (D : Bytes) (hl : D.length = q.pesdata.length)
    (hne : PES.ext q = none) (h1 : D.take 1 = q.pesdata.take 1) (h0 : 0 < D.length) :
    looksLikeHeader (withData q D) ↔ looksLikeHeader q := by
  have hx : PES_extBytes q = [] := by simp [PES_extBytes, PES_ext, hne]
  have hx' : PES_extBytes (withData q D) = [] := hx
  have ed : (withData q D).pesdata = D := rfl
  have e8 : Pkt_stuffing (PES_pkt (withData q D)) = Pkt_stuffing (PES_pkt q) := by
    unfold Pkt_stuffing; rw [Pkt_used_withData q D hl]
  have t1 : List.take 1 (PES_tail (withData q D)) = List.take 1 D := by
    unfold PES_tail
    rw [hx', ed, List.nil_append, List.take_append_of_le_length (by omega)]
  have t2 : List.take 1 (PES_tail q) = List.take 1 q.pesdata := by
    unfold PES_tail
    rw [hx, List.nil_append, List.take_append_of_le_length (by omega)]
  unfold looksLikeHeader PES_firstByte
  rw [t1, t2, h1, e8]

theorem PES_WF_withData (q : PES) (D : Bytes) (hl : D.length = q.pesdata.length) (h : PES_WF q) :
    PES_WF (withData q D) := by
  obtain ⟨h1, h2, h3, h4⟩ := h
  exact ⟨h1, h2, by rw [PES_len_withData q D hl]; exact h3, h4⟩

/-- decoding the same packet carrying other PES data `D` of the same length whose first byte is the
    original one: `PES.unpack` accepts it and hands back `D`, same PID -/
theorem PES_unpack_withData (q t : PES) (D : Bytes) (hl : D.length = q.pesdata.length) (h : PES_WF q)
    (hs : q.pkt.sync = 0x47) (hafc : q.pkt.adaption_ctrl = 1 ∨ q.pkt.adaption_ctrl = 3)
    (hfull : Pkt_used (PES_pkt q) = 188) (h3 : 3 ≤ D.length) (h1 : D.take 1 = q.pesdata.take 1)
    (hhdr : (PES.ext q = none ∧ ¬ looksLikeHeader q) ∨ (∃ w1 w2 hd, PES.ext q = some (w1, w2, hd) ∧ w1 / 16 = 8)) :
    ∃ p, PES.unpack t (PES_front q ++ D) = (p, .ok ()) ∧ p.pesdata = D ∧ p.pkt.pid = q.pkt.pid := by
  have hst : Pkt_stuffing (PES_pkt q) = [] := by simp [Pkt_stuffing, hfull]
  have hst' : Pkt_stuffing (PES_pkt (withData q D)) = [] := by
    simp [Pkt_stuffing, Pkt_used_withData q D hl, hfull]
  have hb : PES_front q ++ D = Pkt_bytes (PES_pkt (withData q D)) := by
    rw [PES_bytes_withData q D hl, hst, List.append_nil]
  have hw := PES_WF_withData q D hl h
  rw [hb]
  rcases hhdr with ⟨hne, hnl⟩ | ⟨w1, w2, hd, he, hw1⟩
  · have hne' : PES.ext (withData q D) = none := hne
    have hnl' : ¬ looksLikeHeader (withData q D) := fun c =>
      hnl ((looksLikeHeader_withData q D hl hne h1 (by omega)).mp c)
    have h9 : 3 ≤ (PES_tail (withData q D)).length := by
      have ed : (withData q D).pesdata = D := rfl
      simp only [PES_tail, List.length_append, ed]; omega
    refine ⟨_, PES_unpack_headerless (withData q D) t hw hs hafc hne' h9 hnl', ?_, rfl⟩
    show D ++ Pkt_stuffing (PES_pkt (withData q D)) = D
    rw [hst', List.append_nil]
  · have he' : PES.ext (withData q D) = some (w1, w2, hd) := he
    exact ⟨_, PES_unpack_header (withData q D) t hw hs hafc w1 w2 hd he' hw1 (by rw [hst']; rfl), rfl, rfl⟩

end Acra.Lemmas.MpegFlip
