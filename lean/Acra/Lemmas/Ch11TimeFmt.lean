/-
  Helper lemmas for the time-format-1 model: the eight / six BCD bytes and what the decoder reads back.
-/
import Acra.Model.Ch11TimeFmt
import Acra.Lemmas.Ch11Calendar
import Acra.Props.C15.BCD
namespace Acra.Lemmas.Ch11TimeFmt
open Acra.Py Acra.Model.Ch11Pay.TimeFmt Acra.Gen.Ch11TimeFmt Acra.Lemmas.Ch11Calendar

/-- two one-byte fields read as one little-endian 16-bit field -/
theorem enc1_pair (a b : Nat) (ha : a < 256) (hb : b < 256) :
    encInt false 1 a ++ encInt false 1 b = encInt false 2 (a + 256 * b) := by
  simp only [encInt, Bool.false_eq_true, if_false]
  have h := leBytes_add 1 1 (a + 256 * b)
  have e1 : leBytes 1 (a + 256 * b) = leBytes 1 a := by
    have := leBytes_mod 1 (a + 256 * b)
    have hm : (a + 256 * b) % 256 ^ 1 = a := by omega
    rw [hm] at this; exact this.symm
  have e2 : (a + 256 * b) / 256 ^ 1 = b := by omega
  rw [show (2 : Nat) = 1 + 1 from rfl, h, e1, e2]

/-- the bytes after the channel-specific word, as a chain of one-byte fields -/
def bytes8 (b0 b1 b2 b3 b4 b5 b6 b7 : Nat) : Bytes :=
  encInt false 1 b0 ++ (encInt false 1 b1 ++ (encInt false 1 b2 ++ (encInt false 1 b3 ++ (encInt false 1 b4 ++
    (encInt false 1 b5 ++ (encInt false 1 b6 ++ encInt false 1 b7))))))

def bytes6 (b0 b1 b2 b3 b4 b5 : Nat) : Bytes :=
  encInt false 1 b0 ++ (encInt false 1 b1 ++ (encInt false 1 b2 ++ (encInt false 1 b3 ++ (encInt false 1 b4 ++
    encInt false 1 b5))))

theorem pack8 (csd b0 b1 b2 b3 b4 b5 b6 b7 : Nat) (hc : csd < 2 ^ 32) (h0 : b0 < 256) (h1 : b1 < 256) (h2 : b2 < 256)
    (h3 : b3 < 256) (h4 : b4 < 256) (h5 : b5 < 256) (h6 : b6 < 256) (h7 : b7 < 256) :
    packBytes csd [b0, b1, b2, b3, b4, b5, b6, b7] = .ok (encInt false 4 csd ++ bytes8 b0 b1 b2 b3 b4 b5 b6 b7) := by
  have hf0 : Fits TDF1_pack_fmt0.codes [csd] := by simp [Fits, TDF1_pack_fmt0, Code.bound]; omega
  have hf1 : Fits (TDF1_pack_fmt1 8).codes [b0, b1, b2, b3, b4, b5, b6, b7] := by
    simp [Fits, TDF1_pack_fmt1, Code.bound, List.replicate]; omega
  simp only [packBytes, List.length_cons, List.length_nil, Nat.zero_add, Nat.reduceAdd, structPack_eq _ _ hf0, structPack_eq _ _ hf1]
  simp [TDF1_pack_fmt0, TDF1_pack_fmt1, encCodes, Code.size, bytes8, List.replicate]

theorem pack6 (csd b0 b1 b2 b3 b4 b5 : Nat) (hc : csd < 2 ^ 32) (h0 : b0 < 256) (h1 : b1 < 256) (h2 : b2 < 256)
    (h3 : b3 < 256) (h4 : b4 < 256) (h5 : b5 < 256) :
    packBytes csd [b0, b1, b2, b3, b4, b5] = .ok (encInt false 4 csd ++ bytes6 b0 b1 b2 b3 b4 b5) := by
  have hf0 : Fits TDF1_pack_fmt0.codes [csd] := by simp [Fits, TDF1_pack_fmt0, Code.bound]; omega
  have hf1 : Fits (TDF1_pack_fmt1 6).codes [b0, b1, b2, b3, b4, b5] := by
    simp [Fits, TDF1_pack_fmt1, Code.bound, List.replicate]; omega
  simp only [packBytes, List.length_cons, List.length_nil, Nat.zero_add, Nat.reduceAdd, structPack_eq _ _ hf0, structPack_eq _ _ hf1]
  simp [TDF1_pack_fmt0, TDF1_pack_fmt1, encCodes, Code.size, bytes6, List.replicate]

theorem unpack8_head (csd b0 b1 b2 b3 b4 b5 b6 b7 : Nat) (hc : csd < 2 ^ 32) (h0 : b0 < 256) (h1 : b1 < 256) (h2 : b2 < 256)
    (h3 : b3 < 256) :
    structUnpackFrom TDF1_unpack_fmt0 (encInt false 4 csd ++ bytes8 b0 b1 b2 b3 b4 b5 b6 b7) 0 = .ok [csd, b0, b1, b2, b3] := by
  simp only [structUnpackFrom, TDF1_unpack_fmt0, Fmt.size, codesSize, Code.size, bytes8, List.length_append, encInt_length,
    unpackCodes, List.drop_zero, take_encInt_append, drop_encInt_append]
  rw [decInt_encInt4 _ _ (by omega), decInt_encInt1 _ _ h0, decInt_encInt1 _ _ h1, decInt_encInt1 _ _ h2, decInt_encInt1 _ _ h3]
  simp

theorem unpack8_tail (csd b0 b1 b2 b3 b4 b5 b6 b7 : Nat) (h4 : b4 < 256) (h5 : b5 < 256) (h6 : b6 < 256) (h7 : b7 < 256) :
    structUnpackFrom TDF1_unpack_fmt1 (encInt false 4 csd ++ bytes8 b0 b1 b2 b3 b4 b5 b6 b7) 8 = .ok [b4, b5, b6 + 256 * b7] := by
  have hsplit : encInt false 4 csd ++ bytes8 b0 b1 b2 b3 b4 b5 b6 b7 =
      (encInt false 4 csd ++ (encInt false 1 b0 ++ (encInt false 1 b1 ++ (encInt false 1 b2 ++ encInt false 1 b3)))) ++
      (encInt false 1 b4 ++ (encInt false 1 b5 ++ encInt false 2 (b6 + 256 * b7))) := by
    simp [bytes8, enc1_pair b6 b7 h6 h7]
  have hdrop : List.drop 8 (encInt false 4 csd ++ bytes8 b0 b1 b2 b3 b4 b5 b6 b7) =
      encInt false 1 b4 ++ (encInt false 1 b5 ++ encInt false 2 (b6 + 256 * b7)) := by
    rw [hsplit]; exact drop_append_len _ _ _ (by simp)
  have hlen : 8 + TDF1_unpack_fmt1.size ≤ (encInt false 4 csd ++ bytes8 b0 b1 b2 b3 b4 b5 b6 b7).length := by
    simp [bytes8, TDF1_unpack_fmt1, Fmt.size, codesSize, Code.size]
  simp only [structUnpackFrom, hlen, if_true, hdrop]
  simp only [TDF1_unpack_fmt1, unpackCodes, Code.size, take_encInt_append, drop_encInt_append, take_encInt]
  rw [decInt_encInt1 _ _ h4, decInt_encInt1 _ _ h5, decInt_encInt2 _ _ (by omega)]

theorem unpack6_head (csd b0 b1 b2 b3 b4 b5 : Nat) (hc : csd < 2 ^ 32) (h0 : b0 < 256) (h1 : b1 < 256) (h2 : b2 < 256)
    (h3 : b3 < 256) :
    structUnpackFrom TDF1_unpack_fmt0 (encInt false 4 csd ++ bytes6 b0 b1 b2 b3 b4 b5) 0 = .ok [csd, b0, b1, b2, b3] := by
  simp only [structUnpackFrom, TDF1_unpack_fmt0, Fmt.size, codesSize, Code.size, bytes6, List.length_append, encInt_length,
    unpackCodes, List.drop_zero, take_encInt_append, drop_encInt_append]
  rw [decInt_encInt4 _ _ (by omega), decInt_encInt1 _ _ h0, decInt_encInt1 _ _ h1, decInt_encInt1 _ _ h2, decInt_encInt1 _ _ h3]
  simp

theorem unpack6_tail (csd b0 b1 b2 b3 b4 b5 : Nat) (h4 : b4 < 256) (h5 : b5 < 256) :
    structUnpackFrom TDF1_unpack_fmt2 (encInt false 4 csd ++ bytes6 b0 b1 b2 b3 b4 b5) 8 = .ok [b4, b5] := by
  have hsplit : encInt false 4 csd ++ bytes6 b0 b1 b2 b3 b4 b5 =
      (encInt false 4 csd ++ (encInt false 1 b0 ++ (encInt false 1 b1 ++ (encInt false 1 b2 ++ encInt false 1 b3)))) ++
      (encInt false 1 b4 ++ encInt false 1 b5) := by
    simp [bytes6]
  have hdrop : List.drop 8 (encInt false 4 csd ++ bytes6 b0 b1 b2 b3 b4 b5) = encInt false 1 b4 ++ encInt false 1 b5 := by
    rw [hsplit]; exact drop_append_len _ _ _ (by simp)
  have hlen : 8 + TDF1_unpack_fmt2.size ≤ (encInt false 4 csd ++ bytes6 b0 b1 b2 b3 b4 b5).length := by
    simp [bytes6, TDF1_unpack_fmt2, Fmt.size, codesSize, Code.size]
  simp only [structUnpackFrom, hlen, if_true, hdrop]
  simp only [TDF1_unpack_fmt2, unpackCodes, Code.size, take_encInt_append, drop_encInt_append, take_encInt]
  rw [decInt_encInt1 _ _ h4, decInt_encInt1 _ _ h5]

/-- the calendar facts about the day that contains second `n` (0 ≤ n < 4102444800) -/
theorem day_facts (n : Nat) (h : n < 86400 * DAYS) :
    let c := civilFromDays (n / 86400 + EPOCH)
    daysFromCivil c.1 c.2.1 c.2.2 = n / 86400 + EPOCH ∧ 1970 ≤ c.1 ∧ c.1 ≤ 2099 ∧ 1 ≤ c.2.1 ∧ c.2.1 ≤ 12 ∧
    1 ≤ c.2.2 ∧ c.2.2 ≤ daysInMonth c.1 c.2.1 ∧ EPOCH ≤ daysFromCivil c.1 1 1 ∧
    daysFromCivil c.1 1 1 ≤ n / 86400 + EPOCH ∧ n / 86400 + EPOCH < daysFromCivil c.1 1 1 + 366 := by
  have hd : n / 86400 < DAYS := by
    unfold DAYS at h ⊢; omega
  have := checkDay_all (n / 86400) hd
  simp only [checkDay, Bool.and_eq_true, beq_iff_eq, decide_eq_true_eq] at this
  obtain ⟨⟨⟨⟨⟨⟨⟨⟨⟨h1, h2⟩, h3⟩, h4⟩, h5⟩, h6⟩, h7⟩, h8⟩, h9⟩, h10⟩ := this
  exact ⟨h1, h2, h3, h4, h5, h6, h7, h8, h9, h10⟩

theorem daysInMonth_le (y m : Nat) : daysInMonth y m ≤ 31 := by
  unfold daysInMonth; repeat' split
  all_goals omega

theorem fromTimestamp_eq (n : Nat) (h : n < 86400 * DAYS) :
    fromTimestamp (n : Int) =
      let c := civilFromDays (n / 86400 + EPOCH)
      .ok (c.1, c.2.1, c.2.2, n % 86400 / 3600, n % 86400 / 60 % 60, n % 86400 % 60) := by
  have hf := day_facts n h
  simp only at hf
  unfold DAYS at h
  have ht : ¬ ((n : Int) + (EPOCH : Int) * 86400 < 306 * 86400) := by unfold EPOCH; omega
  have hn : ((n : Int) + (EPOCH : Int) * 86400).toNat = n + 62162035200 := by unfold EPOCH; omega
  have hq : (n + 62162035200) / 86400 = n / 86400 + EPOCH := by unfold EPOCH; omega
  have hr : (n + 62162035200) % 86400 = n % 86400 := by omega
  have hy : ¬ (9999 < (civilFromDays (n / 86400 + EPOCH)).1) := by omega
  simp only [fromTimestamp, ht, if_false, hn, hq, hr]
  cases hc : civilFromDays (n / 86400 + EPOCH) with
  | mk y md =>
    cases md with
    | mk m d =>
      rw [hc] at hy
      simp only at hy
      simp [hy]

end Acra.Lemmas.Ch11TimeFmt
