/-
  Chapter 7, part 5: the model's fragmentation / encapsulation on normal traffic versus the
  declarative Spec (`Spec.Ch7.chunks/codes/ptdpsOf/stream/starts/frames`).
-/
import Acra.Lemmas.Chapter7Enc
import Acra.Lemmas.Chapter7Dec
namespace Acra.Lemmas.Chapter7
open Acra.Py Acra.Model Acra.Model.Chapter7 Acra.Gen.Chapter7
open Acra.Spec.Ch7 (offset startsAux)

/-! ### the Spec's `chunks` are the model's 2048-byte slices -/

/-- the pieces `i .. i+cnt-1` of a buffer of `n = i + cnt` pieces -/
theorem chunks_drop (b : Bytes) (n : Nat) (hn : b.length ≤ 2048 * n) (hn2 : 2048 * n < b.length + 2048) :
    ∀ fuel cnt i, i + cnt = n → 0 < cnt → cnt ≤ fuel →
      Spec.Ch7.chunks 2048 fuel (b.drop (2048 * i)) =
        (List.range' i cnt).map (fun j => slice b (2048 * j) (2048 * (j + 1))) := by
  intro fuel
  induction fuel with
  | zero => intro cnt i _ h1 h2; omega
  | succ fuel ih =>
    intro cnt i hi hc hf
    unfold Spec.Ch7.chunks
    by_cases hlen : (b.drop (2048 * i)).length ≤ 2048
    · rw [if_pos hlen]
      simp only [List.length_drop] at hlen
      have hc1 : cnt = 1 := by omega
      subst hc1
      simp only [List.range'_one, List.map_cons, List.map_nil, List.cons.injEq, and_true, slice]
      rw [List.take_of_length_le (by omega)]
    · rw [if_neg hlen]
      simp only [List.length_drop] at hlen
      obtain ⟨c, rfl⟩ : ∃ c, cnt = c + 1 := ⟨cnt - 1, by omega⟩
      rw [List.range'_succ, List.map_cons, List.drop_drop,
        show 2048 * i + 2048 = 2048 * (i + 1) by omega,
        ih c (i + 1) (by omega) (by omega) (by omega)]
      congr 1
      simp only [slice]
      rw [List.take_drop]
      congr 2

/-- the Spec's fragment code of piece `i` of `n` -/
def fragCode (n i : Nat) : Nat :=
  if i = 0 then PTDP_FRAGMENT_FIRST else if i = n - 1 then PTDP_FRAGMENT_LAST else PTDP_FRAGMENT_MIDDLE

theorem codes_eq (m : Nat) : Spec.Ch7.codes (m + 2) = (List.range (m + 2)).map (fragCode (m + 2)) := by
  apply List.ext_getElem
  · simp [Spec.Ch7.codes]
  · intro i h1 h2
    simp only [List.getElem_map, List.getElem_range, fragCode, PTDP_FRAGMENT_FIRST, PTDP_FRAGMENT_LAST,
      PTDP_FRAGMENT_MIDDLE, Spec.Ch7.codes]
    cases i with
    | zero => simp
    | succ i =>
      simp only [List.getElem_cons_succ, Nat.add_eq_zero_iff, Nat.succ_ne_self, and_false, if_false]
      by_cases hi : i = m
      · subst hi
        simp [List.getElem_append_right]
      · have hlt : i < m := by
          simp [Spec.Ch7.codes] at h1; omega
        rw [List.getElem_append_left (by simpa using hlt)]
        simp [hi]

theorem fragOf_wf (b : Bytes) (llp : Bool) (n i : Nat) : PTDP_WF (fragOf b llp n i) := by
  refine ⟨?_, by simp [fragOf, mkPtdp, PTDP_CONTENT_MAC], ?_⟩
  · simp only [fragOf, mkPtdp, PTDP_FRAGMENT_FIRST, PTDP_FRAGMENT_LAST, PTDP_FRAGMENT_MIDDLE]
    repeat' split
    all_goals omega
  · simp only [fragOf, mkPtdp, slice_length]; omega

theorem encB_fragOf (b : Bytes) (llp : Bool) (n i : Nat) :
    encB (fragOf b llp n i) =
      Spec.PTDP.encode (fragCode n i) 4 (slice b (2048 * i) (2048 * (i + 1))) := by
  rw [encB_spec _ (fragOf_wf b llp n i)]
  rfl

/-- the missing link, one packet: the encodings of the model's PTDPs are the Spec's PTDPs -/
theorem ptdpsOf_encB_spec (b : Bytes) :
    (Model.Chapter7.ptdpsOf b false).map encB = Spec.Ch7.ptdpsOf b := by
  by_cases h : b.length ≤ 2048
  · have hm : Model.Chapter7.ptdpsOf b false = [mkPtdp false PTDP_FRAGMENT_COMPLETE b] := by
      simp [Model.Chapter7.ptdpsOf, PTDP_MAX_LEN, h]
    have hwf : PTDP_WF (mkPtdp false PTDP_FRAGMENT_COMPLETE b) :=
      ⟨by simp [mkPtdp, PTDP_FRAGMENT_COMPLETE], by simp [mkPtdp, PTDP_CONTENT_MAC], h⟩
    have hc : Spec.Ch7.chunks 2048 (b.length + 1) b = [b] := by
      unfold Spec.Ch7.chunks; rw [if_pos h]
    rw [hm]
    simp only [Spec.Ch7.ptdpsOf, hc, List.length_singleton, Spec.Ch7.codes, List.zip_cons_cons,
      List.zip_nil_right, List.map_cons, List.map_nil, encB_spec _ hwf]
    rfl
  · have hn : b.length ≤ 2048 * ((b.length + 2047) / 2048) := by omega
    have hn2 : 2048 * ((b.length + 2047) / 2048) < b.length + 2048 := by omega
    have hgt : ¬ b.length ≤ PTDP_MAX_LEN := by simp only [PTDP_MAX_LEN]; omega
    have hm : Model.Chapter7.ptdpsOf b false =
        (List.range ((b.length + 2047) / 2048)).map (fragOf b false ((b.length + 2047) / 2048)) := by
      unfold Model.Chapter7.ptdpsOf
      rw [if_neg hgt]
      simp only [PTDP_MAX_LEN]
      rw [show b.length + 2048 - 1 = b.length + 2047 by omega,
        fragmentsFrom_eq b false _ hn _ 0 (by omega), List.range_eq_range']
    have hc : Spec.Ch7.chunks 2048 (b.length + 1) b =
        (List.range ((b.length + 2047) / 2048)).map (fun j => slice b (2048 * j) (2048 * (j + 1))) := by
      have := chunks_drop b _ hn hn2 (b.length + 1) ((b.length + 2047) / 2048) 0 (by omega) (by omega)
        (by omega)
      rw [List.range_eq_range']
      simpa using this
    obtain ⟨m, hmn⟩ : ∃ m, (b.length + 2047) / 2048 = m + 2 := ⟨(b.length + 2047) / 2048 - 2, by omega⟩
    rw [hm]
    simp only [Spec.Ch7.ptdpsOf, hc, List.length_map, List.length_range]
    rw [hmn, codes_eq, List.map_map]
    apply List.ext_getElem
    · simp
    · intro i h1 h2
      simp [encB_fragOf]

/-- the missing link: the model's PTDP encodings are the Spec's -/
theorem encs_eq_spec (pkts : List Bytes) : encs pkts = pkts.flatMap Spec.Ch7.ptdpsOf := by
  simp only [encs, ptdps, datapktsToPtdp, normal, List.flatMap_map, List.map_flatMap, ptdpsOf_encB_spec]

theorem stream_eq_spec (pkts : List Bytes) : stream pkts = Spec.Ch7.stream pkts := by
  simp only [stream, Spec.Ch7.stream, encs_eq_spec]

theorem starts_eq_spec (pkts : List Bytes) : startsAux 0 (encs pkts) = Spec.Ch7.starts pkts := by
  simp only [Spec.Ch7.starts, encs_eq_spec]

/-! ### the wire bytes of a frame are the Spec's PTFR -/

theorem wire_frameOf (L sid : Nat) (S : Bytes) (st : List Nat) (k : Nat) :
    wire (frameOf L sid S st k) =
      Spec.PTFR.encode 0 sid false (offset L st k) (slice S (k * L) ((k + 1) * L)) := by
  simp only [wire, protOf, frameOf, newPtfr, PTFR.fresh, noisyWord_zero_spec, Spec.PTFR.encode,
    Bool.false_eq_true, if_false, Nat.add_zero, Nat.zero_add]

theorem pack_frameOf (L sid : Nat) (hL2 : L ≤ 2047) (hs : sid < 16) (S : Bytes) (st : List Nat) (k : Nat)
    (hk : (k + 1) * L ≤ S.length) :
    (PTFR.pack (frameOf L sid S st k)).2 =
      .ok (Spec.PTFR.encode 0 sid false (offset L st k) (slice S (k * L) ((k + 1) * L))) := by
  rw [pack_wire _ (frameOf_facts L sid hL2 hs S st k hk).1, wire_frameOf]

/-- the frames of the model's stream, packed, are the Spec's frames -/
theorem frames_wire_spec (pkts : List Bytes) (L sid : Nat) (hL2 : L ≤ 2047) (hs : sid < 16) :
    (List.range (((stream pkts).length - 1) / L)).map
      (fun k => (PTFR.pack (frameOf L sid (encs pkts).flatten (startsAux 0 (encs pkts)) k)).2) =
      (Spec.Ch7.frames L sid pkts).map .ok := by
  simp only [Spec.Ch7.frames, List.map_map, ← stream_eq_spec, ← starts_eq_spec]
  apply List.map_congr_left
  intro k hk
  have hk' : k < ((stream pkts).length - 1) / L := List.mem_range.1 hk
  have h1 : (k + 1) * L ≤ ((stream pkts).length - 1) / L * L := Nat.mul_le_mul_right L hk'
  have h2 := Nat.div_mul_le_self ((stream pkts).length - 1) L
  simp only [Function.comp_def]
  exact pack_frameOf L sid hL2 hs _ _ k (by unfold stream at *; omega)

end Acra.Lemmas.Chapter7
