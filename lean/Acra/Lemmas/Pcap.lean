/-
  Helper lemmas for the pcap model: the bytes of a record, the reader as a pure function of the bytes after
  the cursor, what it makes of a (possibly truncated) sequence of records, and the lift to the file model.
-/
import Acra.Model.Pcap
import Acra.Lemmas.Net
namespace Acra.Lemmas.Pcap
open Acra.Py Acra.Model.Pcap Acra.Gen.Pcap
open Acra.Lemmas.Net (slice_skip slice_prefix slice_all drop_skip)

/-! ### one record -/

/-- the four header fields fit 32 bits -/
def Rec_fits (r : Rec) : Prop := r.sec < 2 ^ 32 ∧ r.usec < 2 ^ 32 ∧ r.incl_len < 2 ^ 32 ∧ r.orig_len < 2 ^ 32

/-- … and the two length fields are in step with the payload (what the `payload` setter guarantees) -/
def Rec_WF (r : Rec) : Prop :=
  r.sec < 2 ^ 32 ∧ r.usec < 2 ^ 32 ∧ r.incl_len = r.payload.length ∧ r.orig_len = r.payload.length ∧
  r.payload.length < 2 ^ 32

theorem Rec_WF.fits {r : Rec} (h : Rec_WF r) : Rec_fits r := by
  obtain ⟨h1, h2, h3, h4, h5⟩ := h
  exact ⟨h1, h2, by omega, by omega⟩

def recHdr (r : Rec) : Bytes :=
  encInt false 4 r.sec ++ (encInt false 4 r.usec ++ (encInt false 4 r.incl_len ++ encInt false 4 r.orig_len))

/-- the bytes `PcapRecord.pack` emits -/
def recBytes (r : Rec) : Bytes := recHdr r ++ r.payload

@[simp] theorem recHdr_length (r : Rec) : (recHdr r).length = 16 := by simp [recHdr]
@[simp] theorem recBytes_length (r : Rec) : (recBytes r).length = 16 + r.payload.length := by simp [recBytes]

theorem Rec_pack_eq (r : Rec) (h : Rec_fits r) : Rec.pack r = (r, .ok (recBytes r)) := by
  obtain ⟨h1, h2, h3, h4⟩ := h
  have hf : Fits RECORD_HEADER_FORMAT.codes [r.sec, r.usec, r.incl_len, r.orig_len] := by
    simp [Fits, RECORD_HEADER_FORMAT, Code.bound]; omega
  simp only [Rec.pack, structPack_eq _ _ hf]
  simp [RECORD_HEADER_FORMAT, encCodes, Code.size, recBytes, recHdr]

theorem Rec_unpack_hdr (r t : Rec) (h : Rec_fits r) :
    Rec.unpack t (recHdr r) =
      ({ sec := r.sec, usec := r.usec, incl_len := r.incl_len, orig_len := r.orig_len, payload := [] }, .ok ()) := by
  obtain ⟨h1, h2, h3, h4⟩ := h
  have hf : Fits RECORD_HEADER_FORMAT.codes [r.sec, r.usec, r.incl_len, r.orig_len] := by
    simp [Fits, RECORD_HEADER_FORMAT, Code.bound]; omega
  have hb : recHdr r = encCodes RECORD_HEADER_FORMAT.big RECORD_HEADER_FORMAT.codes [r.sec, r.usec, r.incl_len, r.orig_len] := by
    simp [RECORD_HEADER_FORMAT, encCodes, Code.size, recHdr]
  have hs : RECORD_HEADER_FORMAT.size = (recHdr r).length := by simp [RECORD_HEADER_FORMAT, Fmt.size, codesSize, Code.size]
  simp only [Rec.unpack, hs, ne_eq, not_true_eq_false, if_false]
  rw [hb, structUnpack_enc _ _ hf]

/-! ### the reader as a function of the bytes after the cursor -/

/-- `list(pcap)` on the bytes after the cursor -/
def readRecs : Nat → Bytes → R (List Rec)
  | 0, _ => .error .fuel
  | fuel + 1, rest =>
    match nextRec rest with
    | none => .ok []
    | some (r, n) =>
      match readRecs fuel (rest.drop n) with
      | .ok rs => .ok (r :: rs)
      | .error e => .error e

theorem nextRec_short (rest : Bytes) (h : rest.length < 16) : nextRec rest = none := by
  have : ¬ (16 = min 16 rest.length) := by omega
  simp [nextRec, Rec.unpack, RECORD_HEADER_SIZE, RECORD_HEADER_FORMAT, Fmt.size, codesSize, Code.size, this]

/-- a successful step consumes the 16-byte header and what it could read of the payload -/
theorem nextRec_some (rest : Bytes) (r : Rec) (n : Nat) (h : nextRec rest = some (r, n)) :
    16 ≤ n ∧ n ≤ rest.length ∧ n = 16 + r.payload.length ∧ r.incl_len = r.payload.length ∧ r.orig_len = r.payload.length := by
  by_cases hl : rest.length < 16
  · rw [nextRec_short _ hl] at h; simp at h
  · revert h
    simp only [nextRec, Rec.unpack, RECORD_HEADER_SIZE]
    split
    · simp
    · rename_i r' heq
      intro h
      simp only [Option.some.injEq, Prod.mk.injEq] at h
      obtain ⟨hr, hn⟩ := h
      subst hr hn
      have hl16 : (List.take 16 rest).length = 16 := by simp; omega
      simp only [Rec.setPayload, hl16, List.length_take, List.length_drop]
      refine ⟨by omega, by omega, trivial, trivial, trivial⟩

/-- the whole record is there: the reader returns it and consumes exactly its bytes -/
theorem nextRec_recBytes (r : Rec) (rest : Bytes) (h : Rec_WF r) :
    nextRec (recBytes r ++ rest) = some (r, 16 + r.payload.length) := by
  have hf := h.fits
  obtain ⟨h1, h2, h3, h4, h5⟩ := h
  have ht : List.take 16 (recBytes r ++ rest) = recHdr r := by
    simp only [recBytes, List.append_assoc]; exact take_append_len _ _ _ (by simp)
  have hd : List.drop 16 (recBytes r ++ rest) = r.payload ++ rest := by
    simp only [recBytes, List.append_assoc]; exact drop_append_len _ _ _ (by simp)
  simp only [nextRec, RECORD_HEADER_SIZE, ht, Rec_unpack_hdr r Rec.fresh hf, recHdr_length, hd, h3]
  rw [take_append_len _ _ _ rfl]
  simp only [Rec.setPayload, Rec.fresh]
  congr 2
  cases r; simp_all

/-- only part of the payload is there (the header is complete): the reader returns the shortened record,
    both lengths set to what was read, and consumes everything -/
theorem nextRec_cut (r : Rec) (m : Nat) (h : Rec_WF r) (hm : m < r.payload.length) :
    nextRec (recHdr r ++ r.payload.take m) = some (r.setPayload (r.payload.take m), 16 + m) := by
  have hf := h.fits
  obtain ⟨h1, h2, h3, h4, h5⟩ := h
  have ht : List.take 16 (recHdr r ++ r.payload.take m) = recHdr r := take_append_len _ _ _ (by simp)
  have hd : List.drop 16 (recHdr r ++ r.payload.take m) = r.payload.take m := drop_append_len _ _ _ (by simp)
  simp only [nextRec, RECORD_HEADER_SIZE, ht, Rec_unpack_hdr r Rec.fresh hf, recHdr_length, hd, h3]
  rw [List.take_of_length_le (by simp; omega)]
  simp only [Rec.setPayload, Rec.fresh, List.length_take]
  have : min m r.payload.length = m := by omega
  simp [this]

/-- fuel: one iteration per 16 bytes, plus the stopping one -/
theorem readRecs_fuel_sufficient (fuel : Nat) (rest : Bytes) (h : rest.length / 16 + 1 ≤ fuel) :
    readRecs fuel rest ≠ .error .fuel := by
  induction fuel generalizing rest with
  | zero => omega
  | succ fuel ih =>
    unfold readRecs
    cases hn : nextRec rest with
    | none => simp
    | some p =>
      obtain ⟨r, n⟩ := p
      obtain ⟨h16, hle, _⟩ := nextRec_some rest r n hn
      have := ih (rest.drop n) (by simp; omega)
      simp only
      cases hr : readRecs fuel (rest.drop n) with
      | ok rs => simp
      | error e => simp; intro he; exact this (he ▸ hr)

theorem readRecs_error (fuel : Nat) (rest : Bytes) (e : Err) (h : readRecs fuel rest = .error e) : e = .fuel := by
  induction fuel generalizing rest with
  | zero => simp [readRecs] at h; exact h.symm
  | succ fuel ih =>
    unfold readRecs at h
    cases hn : nextRec rest with
    | none => simp [hn] at h
    | some p =>
      obtain ⟨r, n⟩ := p
      simp only [hn] at h
      cases hr : readRecs fuel (rest.drop n) with
      | ok rs => simp [hr] at h
      | error e' => simp only [hr, Except.error.injEq] at h; subst h; exact ih _ hr

/-- work bound: every record read accounts for at least 16 bytes -/
theorem readRecs_items_le (fuel : Nat) (rest : Bytes) (rs : List Rec) (h : readRecs fuel rest = .ok rs) :
    16 * rs.length ≤ rest.length := by
  induction fuel generalizing rest rs with
  | zero => simp [readRecs] at h
  | succ fuel ih =>
    unfold readRecs at h
    cases hn : nextRec rest with
    | none => simp [hn] at h; subst h; simp
    | some p =>
      obtain ⟨r, n⟩ := p
      obtain ⟨h16, hle, _⟩ := nextRec_some rest r n hn
      simp only [hn] at h
      cases hr : readRecs fuel (rest.drop n) with
      | error e => simp [hr] at h
      | ok ys =>
        simp only [hr, Except.ok.injEq] at h
        subst h
        have := ih _ _ hr
        simp only [List.length_drop] at this
        simp only [List.length_cons]
        omega

/-! ### reading a sequence of records, whole or cut short -/

/-- the record the reader returns when only the first `m` payload bytes are there -/
def shorten (r : Rec) (m : Nat) : Rec := r.setPayload (r.payload.take m)

/-- what reading the first `n` bytes of `rs.flatMap recBytes` yields (the statement of C05, as a function):
    every record completely present, then — if the next header is complete — that record shortened -/
def truncSpec : List Rec → Nat → List Rec
  | [], _ => []
  | r :: rs, n =>
    if n < 16 then []
    else if n < 16 + r.payload.length then [shorten r (n - 16)]
    else r :: truncSpec rs (n - (16 + r.payload.length))

theorem readRecs_nil (fuel : Nat) (h : 0 < fuel) : readRecs fuel [] = .ok [] := by
  cases fuel with
  | zero => omega
  | succ f => simp [readRecs, nextRec_short]

theorem readRecs_truncated (rs : List Rec) (n fuel : Nat) (hwf : ∀ r ∈ rs, Rec_WF r) (hf : rs.length + 1 < fuel) :
    readRecs fuel ((rs.flatMap recBytes).take n) = .ok (truncSpec rs n) := by
  induction rs generalizing n fuel with
  | nil => simp [truncSpec, readRecs_nil fuel (by omega)]
  | cons r rs ih =>
    have hr := hwf r (by simp)
    cases fuel with
    | zero => omega
    | succ fuel =>
      simp only [List.flatMap_cons, truncSpec]
      by_cases h16 : n < 16
      · simp only [h16, if_true]
        unfold readRecs
        rw [nextRec_short _ (by simp; omega)]
      · simp only [h16, if_false]
        by_cases hcut : n < 16 + r.payload.length
        · simp only [hcut, if_true]
          have e : List.take n (recBytes r ++ rs.flatMap recBytes) = recHdr r ++ r.payload.take (n - 16) := by
            rw [List.take_append_of_le_length (by simp; omega)]
            simp only [recBytes]
            rw [List.take_append, List.take_of_length_le (by simp; omega)]
            simp
          unfold readRecs
          rw [e, nextRec_cut r (n - 16) hr (by omega)]
          simp only
          rw [List.drop_eq_nil_of_le (by simp; omega), readRecs_nil fuel (by simp at hf; omega)]
          rfl
        · simp only [hcut, if_false]
          have e : List.take n (recBytes r ++ rs.flatMap recBytes) =
              recBytes r ++ (rs.flatMap recBytes).take (n - (16 + r.payload.length)) := by
            rw [List.take_append, List.take_of_length_le (by simp; omega)]
            simp
          unfold readRecs
          rw [e, nextRec_recBytes r _ hr]
          simp only
          rw [drop_append_len _ _ _ (by simp)]
          rw [ih _ fuel (fun x hx => hwf x (by simp [hx])) (by simp at hf; omega)]

/-- reading the untruncated sequence returns the records -/
theorem truncSpec_all (rs : List Rec) (n : Nat) (h : (rs.flatMap recBytes).length ≤ n) : truncSpec rs n = rs := by
  induction rs generalizing n with
  | nil => rfl
  | cons r rs ih =>
    simp only [List.flatMap_cons, List.length_append, recBytes_length] at h
    have h1 : ¬ n < 16 := by omega
    have h2 : ¬ n < 16 + r.payload.length := by omega
    simp only [truncSpec, h1, h2, if_false]
    rw [ih _ (by omega)]

theorem readRecs_all (rs : List Rec) (fuel : Nat) (hwf : ∀ r ∈ rs, Rec_WF r) (hf : rs.length + 1 < fuel) :
    readRecs fuel (rs.flatMap recBytes) = .ok rs := by
  have := readRecs_truncated rs (rs.flatMap recBytes).length fuel hwf hf
  rwa [List.take_of_length_le (Nat.le_refl _), truncSpec_all _ _ (Nat.le_refl _)] at this

/-- more fuel does not change a result -/
theorem readRecs_mono (fuel fuel' : Nat) (x : Bytes) (v : List Rec) (h : readRecs fuel x = .ok v) (hle : fuel ≤ fuel') :
    readRecs fuel' x = .ok v := by
  induction fuel generalizing fuel' x v with
  | zero => simp [readRecs] at h
  | succ fuel ih =>
    cases fuel' with
    | zero => omega
    | succ fuel' =>
      unfold readRecs at h ⊢
      cases hn : nextRec x with
      | none => simpa [hn] using h
      | some p =>
        obtain ⟨r, n⟩ := p
        simp only [hn] at h ⊢
        cases hr : readRecs fuel (x.drop n) with
        | error e => simp [hr] at h
        | ok ys =>
          simp only [hr] at h
          rw [ih _ _ _ hr (by omega)]
          exact h

/-- the truncation result with exactly the fuel the model provides (one iteration per 16 bytes, plus one) -/
theorem readRecs_truncated' (rs : List Rec) (n fuel : Nat) (hwf : ∀ r ∈ rs, Rec_WF r)
    (hf : ((rs.flatMap recBytes).take n).length / 16 + 1 ≤ fuel) :
    readRecs fuel ((rs.flatMap recBytes).take n) = .ok (truncSpec rs n) := by
  have hbig := readRecs_truncated rs n (rs.length + 2 + fuel) hwf (by omega)
  cases hr : readRecs fuel ((rs.flatMap recBytes).take n) with
  | error e =>
    have := readRecs_error _ _ _ hr
    subst this
    exact absurd hr (readRecs_fuel_sufficient _ _ hf)
  | ok w =>
    have := readRecs_mono _ (rs.length + 2 + fuel) _ _ hr (by omega)
    rw [hbig] at this
    injection this with this
    rw [this]

/-- the number of bytes the first `k` records occupy -/
def bytesOf (rs : List Rec) : Nat := (rs.flatMap recBytes).length

/-- shape of the result after a cut at `n` bytes: the `k` records that end at or before the cut, unchanged and in
    order; then nothing, or the next record with a proper prefix of its payload and both lengths set to that
    prefix's length; `k` is maximal -/
theorem truncSpec_shape (rs : List Rec) (n : Nat) :
    ∃ k tail, truncSpec rs n = rs.take k ++ tail ∧ k ≤ rs.length ∧ bytesOf (rs.take k) ≤ n ∧
      (k < rs.length → n < bytesOf (rs.take (k + 1))) ∧
      (tail = [] ∨ ∃ r m, rs[k]? = some r ∧ m < r.payload.length ∧ tail = [shorten r m] ∧
                         bytesOf (rs.take k) + 16 + m = n) := by
  induction rs generalizing n with
  | nil => exact ⟨0, [], by simp [truncSpec], by simp, by simp [bytesOf], by simp, Or.inl rfl⟩
  | cons r rs ih =>
    simp only [truncSpec]
    by_cases h16 : n < 16
    · refine ⟨0, [], by simp [h16], by simp, by simp [bytesOf], ?_, Or.inl rfl⟩
      intro _; simp [bytesOf]; omega
    · by_cases hcut : n < 16 + r.payload.length
      · refine ⟨0, [shorten r (n - 16)], by simp [h16, hcut], by simp, by simp [bytesOf], ?_, Or.inr ⟨r, n - 16, by simp, by omega, rfl, ?_⟩⟩
        · intro _; simp [bytesOf]; omega
        · simp [bytesOf]; omega
      · obtain ⟨k, tail, he, hk, hs, hmax, ht⟩ := ih (n - (16 + r.payload.length))
        refine ⟨k + 1, tail, by simp [h16, hcut, he], by simp; omega, ?_, ?_, ?_⟩
        · simp only [bytesOf, List.take_succ_cons, List.flatMap_cons, List.length_append, recBytes_length] at hs ⊢
          omega
        · intro hlt
          have := hmax (by simpa using hlt)
          simp only [bytesOf, List.take_succ_cons, List.flatMap_cons, List.length_append, recBytes_length] at this ⊢
          omega
        · rcases ht with ht | ⟨r', m, h1, h2, h3, h4⟩
          · exact Or.inl ht
          · refine Or.inr ⟨r', m, by simpa using h1, h2, h3, ?_⟩
            simp only [bytesOf, List.take_succ_cons, List.flatMap_cons, List.length_append, recBytes_length] at h4 ⊢
            omega

/-! ### the file model -/

/-- the 24 bytes `_write_global_header` writes -/
def G : Bytes :=
  encCodes GLOBAL_HEADER_FORMAT.big GLOBAL_HEADER_FORMAT.codes
    [DEFAULT_MAGIC, DEFAULT_VERSIONMAJ, DEFAULT_VERSIONMIN, DEFAULT_ZONE, DEFAULT_SIGFIGS, DEFAULT_SNAPLEN, DEFAULT_NETWORK]

theorem globalHeader_eq : globalHeader = .ok G := by
  unfold globalHeader G
  exact structPack_eq _ _ (by decide)

theorem G_length : G.length = 24 := by decide

/-- a capture file holding the records `rs` -/
def fileOf (rs : List Rec) : Bytes := G ++ rs.flatMap recBytes

theorem fileOf_length_ge (rs : List Rec) : 24 + 16 * rs.length ≤ (fileOf rs).length := by
  simp only [fileOf, List.length_append, G_length]
  induction rs with
  | nil => simp
  | cons r rs ih => simp only [List.flatMap_cons, List.length_append, recBytes_length, List.length_cons]; omega

/-- the object can be written to and what it writes lands at the end of `f` -/
def Writable (fs : FS) (f : Bytes) : Prop :=
  fs.file = some f ∧ ∃ h, fs.h = some h ∧ h.closed = false ∧ ((h.mode = .w ∧ h.pos = f.length) ∨ h.mode = .a)

theorem writeAt_end (f data : Bytes) : writeAt f f.length data = f ++ data := by
  simp [writeAt]

theorem write_writable (fs : FS) (f : Bytes) (r : Rec) (hw : Writable fs f) (hr : Rec_fits r) :
    (write fs r).2 = .ok () ∧ Writable (write fs r).1 (f ++ recBytes r) := by
  obtain ⟨hf, h, hh, hc, hm⟩ := hw
  have hp : (Rec.pack r).2 = .ok (recBytes r) := by rw [Rec_pack_eq r hr]
  rcases hm with ⟨hm, hpos⟩ | hm
  · simp [write, hh, hp, hc, hm, hf, hpos, writeAt_end, Writable]
  · simp [write, hh, hp, hc, hm, hf, Writable]

/-- write the records one after the other -/
def writeAll (fs : FS) (rs : List Rec) : FS := rs.foldl (fun fs r => (write fs r).1) fs

theorem writeAll_writable (fs : FS) (f : Bytes) (rs : List Rec) (hw : Writable fs f) (hr : ∀ r ∈ rs, Rec_fits r) :
    Writable (writeAll fs rs) (f ++ rs.flatMap recBytes) := by
  induction rs generalizing fs f with
  | nil => simpa [writeAll] using hw
  | cons r rs ih =>
    have := (write_writable fs f r hw (hr r (by simp))).2
    have := ih _ _ this (fun x hx => hr x (by simp [hx]))
    simpa [writeAll, List.append_assoc] using this

theorem open_w_writable (fs : FS) : (openFile fs .w).2 = .ok () ∧ Writable (openFile fs .w).1 G := by
  simp [openFile, globalHeader_eq, Writable, defaultHandle]

theorem open_a_writable (fs : FS) (f : Bytes) (hf : fs.file = some f) :
    (openFile fs .a).2 = .ok () ∧ Writable (openFile fs .a).1 f := by
  simp [openFile, hf, Writable, defaultHandle]

theorem close_file (fs : FS) : (close fs).1.file = fs.file := by
  unfold close; split <;> rfl

/-- one session: open in the given mode, write the records, close -/
def session (fs : FS) (m : Mode) (rs : List Rec) : FS := (close (writeAll (openFile fs m).1 rs)).1

theorem session_w (fs : FS) (rs : List Rec) (hr : ∀ r ∈ rs, Rec_fits r) :
    (session fs .w rs).file = some (fileOf rs) := by
  have := writeAll_writable _ _ rs (open_w_writable fs).2 hr
  simp only [session, close_file, this.1, fileOf]

theorem session_a (fs : FS) (f : Bytes) (rs : List Rec) (hf : fs.file = some f) (hr : ∀ r ∈ rs, Rec_fits r) :
    (session fs .a rs).file = some (f ++ rs.flatMap recBytes) := by
  have := writeAll_writable _ _ rs (open_a_writable fs f hf).2 hr
  simp only [session, close_file, this.1]

/-! reading -/

/-- an object open for reading at position `pos` of the file `f` -/
def Readable (fs : FS) (f : Bytes) (pos : Nat) : Prop :=
  fs.file = some f ∧ ∃ h, fs.h = some h ∧ h.mode = .r ∧ h.closed = false ∧ h.pos = pos

theorem next_readable (fs : FS) (f : Bytes) (pos : Nat) (hr : Readable fs f pos) :
    match nextRec (f.drop pos) with
    | none => (next fs).2 = .error .stopIteration
    | some (r, n) => (next fs).2 = .ok r ∧ Readable (next fs).1 f (pos + n) := by
  obtain ⟨hf, h, hh, hm, hc, hp⟩ := hr
  subst hp
  cases hn : nextRec (f.drop h.pos) with
  | none => simp [next, hh, hm, hc, hf, hn]
  | some p =>
    obtain ⟨r, n⟩ := p
    simp [next, hh, hm, hc, hf, hn, Readable]

theorem readAll_readable (fuel : Nat) (fs : FS) (f : Bytes) (pos : Nat) (hr : Readable fs f pos) :
    (readAll fuel fs).2 = readRecs fuel (f.drop pos) := by
  induction fuel generalizing fs pos with
  | zero => rfl
  | succ fuel ih =>
    have hn := next_readable fs f pos hr
    unfold readAll readRecs
    cases hx : nextRec (f.drop pos) with
    | none =>
      rw [hx] at hn
      cases hnx : next fs with
      | mk fs' res =>
        rw [hnx] at hn
        simp only at hn
        subst hn
        rfl
    | some p =>
      obtain ⟨r, n⟩ := p
      rw [hx] at hn
      cases hnx : next fs with
      | mk fs' res =>
        rw [hnx] at hn
        obtain ⟨h1, h2⟩ := hn
        simp only at h1 h2
        subst h1
        have := ih fs' (pos + n) h2
        simp only [List.drop_drop]
        cases hra : readAll fuel fs' with
        | mk fs'' res2 =>
          rw [hra] at this
          simp only at this
          subst this
          cases readRecs fuel (List.drop (pos + n) f) <;> rfl

/-- opening a file that starts with the standard global header for reading -/
theorem open_r_readable (fs : FS) (data : Bytes) (hf : fs.file = some (G ++ data)) :
    (openFile fs .r).2 = .ok () ∧ Readable (openFile fs .r).1 (G ++ data) 24 := by
  have ht : List.take GLOBAL_HEADER_SIZE (G ++ data) = G := take_append_len _ _ _ (by rw [G_length]; rfl)
  have hu : structUnpack GLOBAL_HEADER_FORMAT G =
      .ok [DEFAULT_MAGIC, DEFAULT_VERSIONMAJ, DEFAULT_VERSIONMIN, DEFAULT_ZONE, DEFAULT_SIGFIGS, DEFAULT_SNAPLEN, DEFAULT_NETWORK] :=
    structUnpack_enc _ _ (by decide)
  simp only [openFile, hf, ht, hu]
  simp [GLOBAL_HEADER_FORMAT, List.zipWith, Readable, G_length]

/-- the scanning loop of `__getitem__` started at a record boundary returns the `j`-th record from there -/
theorem getLoop_records (rs : List Rec) (pre : Bytes) (fs : FS) (idx : Int) (j fuel : Nat)
    (hwf : ∀ r ∈ rs, Rec_WF r) (hr : Readable fs (pre ++ rs.flatMap recBytes) pre.length) (hf : rs.length < fuel) :
    (getLoop fuel fs idx (idx + j)).2 = .ok rs[j]? := by
  induction rs generalizing pre fs idx j fuel with
  | nil =>
    cases fuel with
    | zero => omega
    | succ fuel =>
      have hn := next_readable fs _ _ hr
      simp only [List.flatMap_nil, List.append_nil, List.drop_length, nextRec_short [] (by simp)] at hn
      unfold getLoop
      cases hnx : next fs with
      | mk fs' res => rw [hnx] at hn; simp only at hn; subst hn; rfl
  | cons r rs ih =>
    cases fuel with
    | zero => omega
    | succ fuel =>
      have hn := next_readable fs _ _ hr
      simp only [List.flatMap_cons, List.drop_left', nextRec_recBytes r _ (hwf r (by simp))] at hn
      unfold getLoop
      cases hnx : next fs with
      | mk fs' res =>
        rw [hnx] at hn
        obtain ⟨h1, h2⟩ := hn
        simp only at h1 h2
        subst h1
        simp only
        cases j with
        | zero => simp
        | succ j =>
          have hne : ¬ (idx = idx + ((j + 1 : Nat) : Int)) := by omega
          simp only [hne, if_false]
          have h3 : Readable fs' ((pre ++ recBytes r) ++ rs.flatMap recBytes) (pre ++ recBytes r).length := by
            simpa [List.append_assoc, Nat.add_assoc] using h2
          have := ih (pre ++ recBytes r) fs' (idx + 1) j fuel (fun x hx => hwf x (by simp [hx])) h3 (by simp at hf; omega)
          have e : idx + ((j + 1 : Nat) : Int) = idx + 1 + (j : Int) := by omega
          rw [e, this]
          simp

theorem getitem_readable (fs : FS) (rs : List Rec) (pos i : Nat) (hwf : ∀ r ∈ rs, Rec_WF r)
    (hr : Readable fs (fileOf rs) pos) : (getitem fs i).2 = .ok rs[i]? := by
  obtain ⟨hf, h, hh, hm, hc, hp⟩ := hr
  have hlen := fileOf_length_ge rs
  simp only [getitem, hh, hc, Bool.false_eq_true, if_false, GLOBAL_HEADER_SIZE]
  have hr2 : Readable { fs with h := some { h with pos := 24 } } (G ++ rs.flatMap recBytes) G.length := by
    simp [Readable, hf, fileOf, hm, hc, G_length]
  have := getLoop_records rs G _ 0 i (fuelFor { fs with h := some { h with pos := 24 } }) hwf hr2
    (by simp [fuelFor, hf]; omega)
  simpa [hc] using this

/-! ### termination of the file iterators for arbitrary states and contents -/

/-- the three situations `next` can be in -/
theorem next_cases (fs : FS) :
    (fs.h = none ∧ next fs = (fs, .error .attribute)) ∨
    (∃ h, fs.h = some h ∧ (h.closed || h.mode != .r) = true ∧ next fs = (fs, .error .stopIteration)) ∨
    (∃ h, fs.h = some h ∧ h.mode = .r ∧ h.closed = false) := by
  cases hh : fs.h with
  | none => left; simp [next, hh]
  | some h =>
    right
    by_cases hc : (h.closed || h.mode != .r) = true
    · left; exact ⟨h, rfl, hc, by simp [next, hh, hc]⟩
    · right
      refine ⟨h, rfl, ?_, ?_⟩
      · cases hm : h.mode <;> simp_all
      · cases hcl : h.closed <;> simp_all

theorem readAll_nofuel (fs : FS) (fuel : Nat) (hf : (fs.file.getD []).length / 16 + 1 ≤ fuel) :
    (readAll fuel fs).2 ≠ .error .fuel := by
  cases fuel with
  | zero => omega
  | succ fuel =>
    rcases next_cases fs with ⟨_, hn⟩ | ⟨h, _, _, hn⟩ | ⟨h, hh, hm, hc⟩
    · simp [readAll, hn]
    · simp [readAll, hn]
    · cases hfile : fs.file with
      | none =>
        have : next fs = ({ fs with h := some { h with pos := h.pos + min RECORD_HEADER_SIZE 0 } }, .error .stopIteration) := by
          simp [next, hh, hm, hc, hfile, nextRec_short]
        simp [readAll, this]
      | some f =>
        have hR : Readable fs f h.pos := ⟨hfile, h, hh, hm, hc, rfl⟩
        rw [readAll_readable _ _ _ _ hR]
        apply readRecs_fuel_sufficient
        simp only [hfile, Option.getD_some] at hf
        simp only [List.length_drop]
        omega

theorem getLoop_nofuel (fuel : Nat) (fs : FS) (f : Bytes) (pos : Nat) (idx item : Int) (hr : Readable fs f pos)
    (hf : (f.length - pos) / 16 + 1 ≤ fuel) : (getLoop fuel fs idx item).2 ≠ .error .fuel := by
  induction fuel generalizing fs pos idx with
  | zero => omega
  | succ fuel ih =>
    have hn := next_readable fs f pos hr
    unfold getLoop
    cases hx : nextRec (f.drop pos) with
    | none =>
      rw [hx] at hn
      cases hnx : next fs with
      | mk fs' res => rw [hnx] at hn; simp only at hn; subst hn; simp
    | some p =>
      obtain ⟨r, n⟩ := p
      rw [hx] at hn
      obtain ⟨h16, hle, _⟩ := nextRec_some _ r n hx
      simp only [List.length_drop] at hle
      cases hnx : next fs with
      | mk fs' res =>
        rw [hnx] at hn
        obtain ⟨h1, h2⟩ := hn
        simp only at h1 h2
        subst h1
        simp only
        split
        · simp
        · exact ih fs' (pos + n) (idx + 1) h2 (by omega)

theorem getitem_nofuel (fs : FS) (item : Int) : (getitem fs item).2 ≠ .error .fuel := by
  cases hh : fs.h with
  | none => simp [getitem, hh]
  | some h =>
    simp only [getitem, hh]
    split
    · simp
    · rename_i hc
      -- after the seek the object is at position 24
      generalize hfs : ({ fs with h := some { h with pos := GLOBAL_HEADER_SIZE } } : FS) = fs2
      have hh2 : fs2.h = some { h with pos := GLOBAL_HEADER_SIZE } := by rw [← hfs]
      have hfile2 : fs2.file = fs.file := by rw [← hfs]
      cases hm : h.mode with
      | r =>
        cases hfile : fs.file with
        | none =>
          have : next fs2 = ({ fs2 with h := some { h with pos := GLOBAL_HEADER_SIZE + min RECORD_HEADER_SIZE 0 } }, .error .stopIteration) := by
            simp [next, hh2, hm, hc, hfile2, hfile, nextRec_short]
          simp [fuelFor, getLoop, this]
        | some f =>
          have hR : Readable fs2 f GLOBAL_HEADER_SIZE := ⟨by rw [hfile2, hfile], _, hh2, hm, by simpa using hc, rfl⟩
          apply getLoop_nofuel _ _ f _ _ _ hR
          simp only [fuelFor, hfile2, hfile, Option.getD_some]
          omega
      | w =>
        have : next fs2 = (fs2, .error .stopIteration) := by simp [next, hh2, hm]
        simp [fuelFor, getLoop, this]
      | a =>
        have : next fs2 = (fs2, .error .stopIteration) := by simp [next, hh2, hm]
        simp [fuelFor, getLoop, this]

end Acra.Lemmas.Pcap
