/-
  C05 helpers (review B8):
  * `Pcap.__getitem__` with a NEGATIVE index.  The code compares the running index of `enumerate(self)` — 0, 1, 2, … —
    with `item`, so a negative `item` never matches: the whole file is scanned and `None` is returned (Python users
    expect `pcap[-1]` to be the last record).  `getLoop_below` / `getitem_negative'` state this for ANY object state
    and ANY file contents; `getLoop_below_records` adds that on a well-formed file the read cursor ends at the end of
    the file (the iterator is exhausted afterwards).
  * write sessions with their RESULTS threaded (`sessionR`, `runSessionsR`): every `open`, `write`, `close` of the
    sessions returns `.ok ()`.
-/
import Acra.Lemmas.Pcap
namespace Acra.Lemmas.Pcap
open Acra.Py Acra.Model.Pcap Acra.Gen.Pcap

/-- `next` never loses the object, and ends with a record or `StopIteration` once an object exists -/
theorem next_keeps_handle (fs : FS) (hh : fs.h ≠ none) :
    (next fs).1.h ≠ none ∧ ((next fs).2 = .error .stopIteration ∨ ∃ r, (next fs).2 = .ok r) := by
  cases hfs : fs.h with
  | none => exact absurd hfs hh
  | some h =>
    simp only [next, hfs]
    split
    · simp [hfs]
    · split <;> simp

/-- the scanning loop with the running index already past `item` finds nothing -/
theorem getLoop_below (fuel : Nat) (fs : FS) (idx item : Int) (hlt : item < idx) (hh : fs.h ≠ none) :
    (getLoop fuel fs idx item).2 = .ok none ∨ (getLoop fuel fs idx item).2 = .error .fuel := by
  induction fuel generalizing fs idx with
  | zero => right; rfl
  | succ fuel ih =>
    unfold getLoop
    obtain ⟨hk, hres⟩ := next_keeps_handle fs hh
    cases hn : next fs with
    | mk fs' res =>
      rw [hn] at hk hres
      rcases hres with h | ⟨r, h⟩
      · simp only at h; subst h; left; rfl
      · simp only at h; subst h
        have : ¬ idx = item := by omega
        simp only [this, if_false]
        exact ih fs' (idx + 1) (by omega) hk

/-- `pcap[item]` for a negative `item`: `None`, unless there is no object (`AttributeError`) or it is closed
    (`ValueError: seek of closed file`) — for any file contents, any mode, any position -/
theorem getitem_negative' (fs : FS) (item : Int) (hneg : item < 0) :
    (getitem fs item).2 =
      match fs.h with
      | none => .error .attribute
      | some h => if h.closed then .error .value else .ok none := by
  have hnf := getitem_nofuel fs item
  cases hh : fs.h with
  | none => simp [getitem, hh]
  | some h =>
    simp only [getitem, hh] at hnf ⊢
    by_cases hc : h.closed = true
    · rw [if_pos hc, if_pos hc]
    · rw [if_neg hc] at hnf
      rw [if_neg hc, if_neg hc]
      rcases getLoop_below (fuelFor { fs with h := some { h with pos := GLOBAL_HEADER_SIZE } })
        { fs with h := some { h with pos := GLOBAL_HEADER_SIZE } } 0 item hneg (by simp) with h1 | h1
      · exact h1
      · exact absurd h1 hnf

/-- on a well-formed file the scan for an index that is never met leaves the read cursor at the end of the file -/
theorem getLoop_below_records (rs : List Rec) (pre : Bytes) (fs : FS) (idx item : Int) (fuel : Nat)
    (hwf : ∀ r ∈ rs, Rec_WF r) (hr : Readable fs (pre ++ rs.flatMap recBytes) pre.length) (hf : rs.length < fuel)
    (hlt : item < idx) :
    Readable (getLoop fuel fs idx item).1 (pre ++ rs.flatMap recBytes) (pre ++ rs.flatMap recBytes).length := by
  induction rs generalizing pre fs idx fuel with
  | nil =>
    cases fuel with
    | zero => omega
    | succ fuel =>
      obtain ⟨hf', h, hh, hm, hc, hp⟩ := hr
      simp only [List.flatMap_nil, List.append_nil] at hf' ⊢
      have hn : next fs = ({ fs with h := some { h with pos := h.pos + min RECORD_HEADER_SIZE 0 } }, .error .stopIteration) := by
        simp [next, hh, hm, hc, hf', hp, nextRec_short]
      unfold getLoop
      rw [hn]
      simp only
      exact ⟨hf', _, rfl, hm, hc, by simp [hp]⟩
  | cons r rs ih =>
    cases fuel with
    | zero => omega
    | succ fuel =>
      have hn := next_readable fs _ _ hr
      simp only [List.flatMap_cons, List.drop_left', nextRec_recBytes r _ (hwf r (by simp))] at hn
      unfold getLoop
      cases hnx : next fs with
      | mk fs' res =>
        rw [hnx] at hn
        obtain ⟨h1, h2⟩ := hn
        simp only at h1 h2
        subst h1
        have hne : ¬ idx = item := by omega
        simp only [hne, if_false]
        have h3 : Readable fs' ((pre ++ recBytes r) ++ rs.flatMap recBytes) (pre ++ recBytes r).length := by
          simpa [List.append_assoc, Nat.add_assoc] using h2
        have := ih (pre ++ recBytes r) fs' (idx + 1) fuel (fun x hx => hwf x (by simp [hx])) h3
          (by simp at hf; omega) (by omega)
        simpa [List.flatMap_cons, List.append_assoc] using this

theorem getitem_negative_readable (fs : FS) (rs : List Rec) (pos : Nat) (item : Int) (hneg : item < 0)
    (hwf : ∀ r ∈ rs, Rec_WF r) (hr : Readable fs (fileOf rs) pos) :
    (getitem fs item).2 = .ok none ∧ Readable (getitem fs item).1 (fileOf rs) (fileOf rs).length := by
  obtain ⟨hf, h, hh, hm, hc, hp⟩ := hr
  have hlen := fileOf_length_ge rs
  refine ⟨by rw [getitem_negative' fs item hneg, hh]; simp [hc], ?_⟩
  have hr2 : Readable { fs with h := some { h with pos := 24 } } (G ++ rs.flatMap recBytes) G.length := by
    simp [Readable, hf, fileOf, hm, hc, G_length]
  have := getLoop_below_records rs G _ 0 item (fuelFor { fs with h := some { h with pos := 24 } }) hwf hr2
    (by simp [fuelFor, hf]; omega) hneg
  simpa [getitem, hh, hc, GLOBAL_HEADER_SIZE, fileOf] using this

/-- at the end of the file the iterator is exhausted -/
theorem next_at_end (fs : FS) (f : Bytes) (hr : Readable fs f f.length) : (next fs).2 = .error .stopIteration := by
  have := next_readable fs f f.length hr
  simpa [nextRec_short] using this

/-! ### write sessions with their results -/

/-- write the records one after the other, collecting the result of every `write` -/
def writeAllR (fs : FS) (rs : List Rec) : FS × List (R Unit) :=
  rs.foldl (fun acc r => ((write acc.1 r).1, acc.2 ++ [(write acc.1 r).2])) (fs, [])

/-- one session with the results of `open`, of every `write`, and of `close`, in order -/
def sessionR (fs : FS) (m : Mode) (rs : List Rec) : FS × List (R Unit) :=
  let o := openFile fs m
  let w := writeAllR o.1 rs
  let c := close w.1
  (c.1, o.2 :: w.2 ++ [c.2])

theorem writeAllR_acc (fs : FS) (rs : List Rec) (acc : List (R Unit)) :
    rs.foldl (fun a r => ((write a.1 r).1, a.2 ++ [(write a.1 r).2])) (fs, acc) =
      ((writeAllR fs rs).1, acc ++ (writeAllR fs rs).2) := by
  induction rs generalizing fs acc with
  | nil => simp [writeAllR]
  | cons r rs ih =>
    simp only [writeAllR, List.foldl_cons, List.nil_append]
    rw [ih, ih (write fs r).1 [(write fs r).2]]
    simp [writeAllR]

theorem writeAllR_fst (fs : FS) (rs : List Rec) : (writeAllR fs rs).1 = writeAll fs rs := by
  induction rs generalizing fs with
  | nil => rfl
  | cons r rs ih =>
    simp only [writeAllR, writeAll, List.foldl_cons, List.nil_append]
    rw [writeAllR_acc]
    exact ih _

theorem writeAllR_ok (fs : FS) (f : Bytes) (rs : List Rec) (hw : Writable fs f) (hr : ∀ r ∈ rs, Rec_fits r) :
    (∀ x ∈ (writeAllR fs rs).2, x = .ok ()) ∧ (writeAllR fs rs).2.length = rs.length := by
  induction rs generalizing fs f with
  | nil => simp [writeAllR]
  | cons r rs ih =>
    have h1 := write_writable fs f r hw (hr r (by simp))
    have := ih _ _ h1.2 (fun x hx => hr x (by simp [hx]))
    simp only [writeAllR, List.foldl_cons, List.nil_append]
    rw [writeAllR_acc]
    simp only [List.mem_append, List.mem_cons, List.not_mem_nil, or_false, List.length_append, List.length_cons,
      List.length_nil]
    refine ⟨?_, by omega⟩
    rintro x (hx | hx)
    · rw [hx]; exact h1.1
    · exact this.1 x hx

theorem close_writable (fs : FS) (f : Bytes) (hw : Writable fs f) : (close fs).2 = .ok () := by
  obtain ⟨_, h, hh, _⟩ := hw
  simp [close, hh]

theorem sessionR_fst (fs : FS) (m : Mode) (rs : List Rec) : (sessionR fs m rs).1 = session fs m rs := by
  simp only [sessionR, session, writeAllR_fst]

/-- a session on a file that can be opened for writing: every operation returns `.ok ()` -/
theorem sessionR_ok (fs : FS) (m : Mode) (f : Bytes) (rs : List Rec)
    (ho : (openFile fs m).2 = .ok () ∧ Writable (openFile fs m).1 f) (hr : ∀ r ∈ rs, Rec_fits r) :
    (∀ x ∈ (sessionR fs m rs).2, x = .ok ()) ∧ (sessionR fs m rs).2.length = rs.length + 2 := by
  have hw := writeAllR_ok _ _ rs ho.2 hr
  have hwr := writeAll_writable _ _ rs ho.2 hr
  have hc := close_writable _ _ hwr
  rw [← writeAllR_fst] at hc
  simp only [sessionR, List.mem_cons, List.mem_append, List.not_mem_nil, or_false, List.length_cons, List.length_append,
    List.length_nil]
  refine ⟨?_, by omega⟩
  rintro x ((hx | hx) | hx)
  · rw [hx]; exact ho.1
  · exact hw.1 x hx
  · rw [hx]; exact hc

/-- the sessions of a capture with all results: the first opens in mode "w", every later one in mode "a" -/
def runSessionsR (first : List Rec) (more : List (List Rec)) : FS × List (R Unit) :=
  more.foldl (fun acc rs => ((sessionR acc.1 .a rs).1, acc.2 ++ (sessionR acc.1 .a rs).2)) (sessionR FS.fresh .w first)

theorem runSessionsR_fold (more : List (List Rec)) (fs0 : FS) (acc : List (R Unit)) (f0 : Bytes)
    (h0 : fs0.file = some f0) (hm : ∀ rs ∈ more, ∀ r ∈ rs, Rec_fits r) :
    (more.foldl (fun a rs => ((sessionR a.1 .a rs).1, a.2 ++ (sessionR a.1 .a rs).2)) (fs0, acc)).1 =
      more.foldl (fun fs rs => session fs .a rs) fs0 ∧
    (∀ x ∈ (more.foldl (fun a rs => ((sessionR a.1 .a rs).1, a.2 ++ (sessionR a.1 .a rs).2)) (fs0, acc)).2,
      x ∈ acc ∨ x = .ok ()) ∧
    (more.foldl (fun a rs => ((sessionR a.1 .a rs).1, a.2 ++ (sessionR a.1 .a rs).2)) (fs0, acc)).2.length =
      acc.length + (more.map (fun rs => rs.length + 2)).sum := by
  induction more generalizing fs0 acc f0 with
  | nil => simp only [List.foldl_nil, List.map_nil, List.sum_nil, Nat.add_zero, true_and, and_true]; exact fun x hx => Or.inl hx
  | cons rs more ih =>
    have hok := sessionR_ok fs0 .a f0 rs (open_a_writable fs0 f0 h0) (hm rs (by simp))
    have hfile := session_a fs0 f0 rs h0 (hm rs (by simp))
    rw [← sessionR_fst] at hfile
    have := ih (sessionR fs0 .a rs).1 (acc ++ (sessionR fs0 .a rs).2) _ hfile (fun x hx => hm x (by simp [hx]))
    simp only [List.foldl_cons, List.map_cons, List.sum_cons]
    refine ⟨?_, ?_, ?_⟩
    · rw [this.1, sessionR_fst]
    · intro x hx
      rcases this.2.1 x hx with h | h
      · rcases List.mem_append.1 h with h | h
        · exact Or.inl h
        · exact Or.inr (hok.1 x h)
      · exact Or.inr h
    · rw [this.2.2, List.length_append, hok.2]
      omega

end Acra.Lemmas.Pcap
