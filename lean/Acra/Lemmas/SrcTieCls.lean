/-
  Helpers for the METHOD source ties (`Props/Cxx/SrcTieCls.lean`): per class, the explicit correspondence between the
  object structure GENERATED from `__init__` (`Acra.Gen.Src.Cls.<Class>.Obj`, Python ints as `Int`) and the hand-written
  model state (`Acra.Model.<Class>.State`, fields as `Nat`):

    toModel : Obj → State      field by field, `Int.toNat` on the int attributes
    ofModel : State → Obj      field by field, the cast `Nat → Int`
    Dom     : Obj → Prop       the model's domain: every int attribute is `≥ 0` (there `ofModel ∘ toModel = id`)
-/
import Acra.Py.MethOps
import Acra.Gen.Src.Cls.iNetX
import Acra.Gen.Src.Cls.PTPTime
import Acra.Gen.Src.Cls.RTCTime
import Acra.Gen.Src.Cls.UDP
import Acra.Gen.Src.Cls.PcapRecord
import Acra.Gen.Src.Cls.MPEGAdaptionExtension
import Acra.Model.MPEGTS
import Acra.Gen.Src.Cls.IENA
import Acra.Model.IENA
import Acra.Gen.Src.Cls.ICMP
import Acra.Model.iNetX
import Acra.Model.Pcap
import Acra.Model.Ch11
import Acra.Model.Net
namespace Acra.Lemmas.SrcTieCls
open Acra Acra.Py

theorem structUnpackFrom_vals_length (f : Fmt) (buf : Bytes) (off : Nat) (vs : List Nat)
    (h : structUnpackFrom f buf off = .ok vs) : vs.length = f.codes.length := by
  unfold structUnpackFrom at h
  split at h
  · simp only [Except.ok.injEq] at h; subst h; exact unpackCodes_length _ _ _
  · simp at h

theorem structUnpack_vals_length' (f : Fmt) (buf : Bytes) (vs : List Nat) (h : structUnpack f buf = .ok vs) :
    vs.length = f.codes.length := by
  unfold structUnpack at h
  split at h
  · simp only [Except.ok.injEq] at h; subst h; exact unpackCodes_length _ _ _
  · simp at h

theorem structPackI_cast (f : Fmt) (vs : List Nat) (is : List Int) (h : is = vs.map Int.ofNat) :
    structPackI f is = structPack f vs := by
  subst h; exact structPackI_natCast f vs

/-- a negative value anywhere in the list is refused (`struct.error`: unsigned code) -/
theorem structPackI_neg (f : Fmt) (is : List Int) (v : Int) (hv : v ∈ is) (hneg : v < 0) :
    structPackI f is = .error .struct := by
  unfold structPackI
  have : ¬ (is.all (fun v => decide (0 ≤ v)) = true) := by
    intro hall
    rw [List.all_eq_true] at hall
    have := hall v hv
    simp at this; omega
  simp [this]

theorem sliceI_from (b : List α) (n : Nat) : Py.sliceI b (n : Int) (Py.len b) = b.drop n := by
  simp [Py.sliceI, Py.len, slice]

theorem toNat_natCast_eq (i : Int) (h : 0 ≤ i) : ((i.toNat : Nat) : Int) = i := Int.toNat_of_nonneg h

/-! ### iNetX -/
namespace iNetX
abbrev Obj := Gen.Src.Cls.iNetX.Obj
abbrev State := Model.iNetX.State

/-- source object → model state.  Every attribute `iNetX.__init__` assigns is carried by the model except
    `_packetStrut` (a constant `struct.Struct`, which is the generated format constant). -/
def toModel (o : Obj) : State :=
  { inetxcontrol := o.inetxcontrol.toNat, streamid := o.streamid.toNat, sequence := o.sequence.toNat,
    packetlen := o.packetlen.toNat, ptptimeseconds := o.ptptimeseconds.toNat,
    ptptimenanoseconds := o.ptptimenanoseconds.toNat, pif := o.pif.toNat, payload := o.payload }

def ofModel (s : State) : Obj :=
  { inetxcontrol := s.inetxcontrol, streamid := s.streamid, sequence := s.sequence, packetlen := s.packetlen,
    ptptimeseconds := s.ptptimeseconds, ptptimenanoseconds := s.ptptimenanoseconds, pif := s.pif,
    payload := s.payload }

/-- the model's domain: the int attributes are natural numbers -/
def Dom (o : Obj) : Prop :=
  0 ≤ o.inetxcontrol ∧ 0 ≤ o.streamid ∧ 0 ≤ o.sequence ∧ 0 ≤ o.packetlen ∧ 0 ≤ o.ptptimeseconds ∧
  0 ≤ o.ptptimenanoseconds ∧ 0 ≤ o.pif

instance (o : Obj) : Decidable (Dom o) := by unfold Dom; infer_instance

@[simp] theorem toModel_ofModel (s : State) : toModel (ofModel s) = s := by
  cases s; simp [toModel, ofModel]

theorem ofModel_toModel (o : Obj) (h : Dom o) : ofModel (toModel o) = o := by
  obtain ⟨h1, h2, h3, h4, h5, h6, h7⟩ := h
  cases o
  simp only [toModel, ofModel] at *
  simp only [Int.toNat_of_nonneg, h1, h2, h3, h4, h5, h6, h7]

theorem dom_ofModel (s : State) : Dom (ofModel s) := by
  simp [Dom, ofModel]

end iNetX
/-! ### IENA (IENA.py, the base class) — model `Model.IENA.Base`.  The model's `key` is the attribute `_key` (seen through
    the `key` / `streamid` properties).  Not carried by the model: `_packetStrut` (constant Struct), `_startOfYear`
    (a datetime, used only by the time helpers), `_req_attr` (the constant tuple `IENA.REQ_ATTR`). -/
namespace IENA
abbrev Obj := Gen.Src.Cls.IENA.Obj
def toModel (o : Obj) : Model.IENA.Base :=
  { key := o._key.toNat, size := o.size.toNat, timeusec := o.timeusec.toNat, keystatus := o.keystatus.toNat,
    status := o.status.toNat, sequence := o.sequence.toNat, endfield := o.endfield.toNat, payload := o.payload,
    lengthError := o.lengthError }
def ofModel (s : Model.IENA.Base) : Obj :=
  { _key := s.key, size := s.size, timeusec := s.timeusec, keystatus := s.keystatus, status := s.status,
    sequence := s.sequence, endfield := s.endfield, payload := s.payload, lengthError := s.lengthError }
def Dom (o : Obj) : Prop :=
  0 ≤ o._key ∧ 0 ≤ o.size ∧ 0 ≤ o.timeusec ∧ 0 ≤ o.keystatus ∧ 0 ≤ o.status ∧ 0 ≤ o.sequence ∧ 0 ≤ o.endfield
instance (o : Obj) : Decidable (Dom o) := by unfold Dom; infer_instance
@[simp] theorem toModel_ofModel (s : Model.IENA.Base) : toModel (ofModel s) = s := by
  cases s; simp [toModel, ofModel]
theorem ofModel_toModel (o : Obj) (h : Dom o) : ofModel (toModel o) = o := by
  obtain ⟨h1, h2, h3, h4, h5, h6, h7⟩ := h
  cases o
  simp only [toModel, ofModel] at *
  simp only [Int.toNat_of_nonneg, h1, h2, h3, h4, h5, h6, h7]
theorem dom_ofModel (s : Model.IENA.Base) : Dom (ofModel s) := by simp [Dom, ofModel]
end IENA

/-! ### PTPTime (IRIG106/Chapter11/__init__.py) — model `Model.Ch11.PTP`, every attribute carried -/
namespace PTPTime
abbrev Obj := Gen.Src.Cls.PTPTime.Obj
def toModel (o : Obj) : Model.Ch11.PTP := { seconds := o.seconds.toNat, nanoseconds := o.nanoseconds.toNat }
def ofModel (t : Model.Ch11.PTP) : Obj := { seconds := t.seconds, nanoseconds := t.nanoseconds }
def Dom (o : Obj) : Prop := 0 ≤ o.seconds ∧ 0 ≤ o.nanoseconds
instance (o : Obj) : Decidable (Dom o) := by unfold Dom; infer_instance
@[simp] theorem toModel_ofModel (t : Model.Ch11.PTP) : toModel (ofModel t) = t := by
  cases t; simp [toModel, ofModel]
theorem ofModel_toModel (o : Obj) (h : Dom o) : ofModel (toModel o) = o := by
  obtain ⟨h1, h2⟩ := h
  cases o
  simp only [toModel, ofModel] at *
  simp only [Int.toNat_of_nonneg, h1, h2]
end PTPTime

/-! ### RTCTime — the model (`Model.Ch11.rtcPack / rtcUnpack`) is a function of the single attribute `count : Nat` -/
namespace RTCTime
abbrev Obj := Gen.Src.Cls.RTCTime.Obj
def toModel (o : Obj) : Nat := o.count.toNat
def ofModel (c : Nat) : Obj := { count := c }
def Dom (o : Obj) : Prop := 0 ≤ o.count
instance (o : Obj) : Decidable (Dom o) := by unfold Dom; infer_instance
@[simp] theorem toModel_ofModel (c : Nat) : toModel (ofModel c) = c := by simp [toModel, ofModel]
theorem ofModel_toModel (o : Obj) (h : Dom o) : ofModel (toModel o) = o := by
  cases o
  simp only [toModel, ofModel, Dom] at *
  simp only [Int.toNat_of_nonneg, h]
end RTCTime

/-! ### UDP (SimpleEthernet.py) — model `Model.Net.UDP`, every attribute `__init__` assigns is carried -/
namespace UDP
abbrev Obj := Gen.Src.Cls.UDP.Obj
def toModel (o : Obj) : Model.Net.UDP :=
  { srcport := o.srcport.toNat, dstport := o.dstport.toNat, len := o.len.toNat, payload := o.payload }
def ofModel (s : Model.Net.UDP) : Obj :=
  { srcport := s.srcport, dstport := s.dstport, len := s.len, payload := s.payload }
def Dom (o : Obj) : Prop := 0 ≤ o.srcport ∧ 0 ≤ o.dstport ∧ 0 ≤ o.len
instance (o : Obj) : Decidable (Dom o) := by unfold Dom; infer_instance
@[simp] theorem toModel_ofModel (s : Model.Net.UDP) : toModel (ofModel s) = s := by
  cases s; simp [toModel, ofModel]
theorem ofModel_toModel (o : Obj) (h : Dom o) : ofModel (toModel o) = o := by
  obtain ⟨h1, h2, h3⟩ := h
  cases o
  simp only [toModel, ofModel] at *
  simp only [Int.toNat_of_nonneg, h1, h2, h3]
end UDP

/-! ### PcapRecord (Pcap.py) — model `Model.Pcap.Rec`; the model's `payload` is the attribute `_payload` (seen through
    the `payload` / `packet` properties); every attribute `__init__` assigns is carried -/
namespace PcapRecord
abbrev Obj := Gen.Src.Cls.PcapRecord.Obj
def toModel (o : Obj) : Model.Pcap.Rec :=
  { sec := o.sec.toNat, usec := o.usec.toNat, incl_len := o.incl_len.toNat, orig_len := o.orig_len.toNat,
    payload := o._payload }
def ofModel (s : Model.Pcap.Rec) : Obj :=
  { sec := s.sec, usec := s.usec, incl_len := s.incl_len, orig_len := s.orig_len, _payload := s.payload }
def Dom (o : Obj) : Prop := 0 ≤ o.sec ∧ 0 ≤ o.usec ∧ 0 ≤ o.incl_len ∧ 0 ≤ o.orig_len
instance (o : Obj) : Decidable (Dom o) := by unfold Dom; infer_instance
@[simp] theorem toModel_ofModel (s : Model.Pcap.Rec) : toModel (ofModel s) = s := by
  cases s; simp [toModel, ofModel]
theorem ofModel_toModel (o : Obj) (h : Dom o) : ofModel (toModel o) = o := by
  obtain ⟨h1, h2, h3, h4⟩ := h
  cases o
  simp only [toModel, ofModel] at *
  simp only [Int.toNat_of_nonneg, h1, h2, h3, h4]
end PcapRecord

/-! ### ICMP (SimpleEthernet.py, pack only) — model `Model.Net.ICMP`, every attribute carried -/
namespace ICMP
abbrev Obj := Gen.Src.Cls.ICMP.Obj
def toModel (o : Obj) : Model.Net.ICMP :=
  { type := o.type.toNat, code := o.code.toNat, request_id := o.request_id.toNat,
    request_sequence := o.request_sequence.toNat, payload := o.payload }
def ofModel (s : Model.Net.ICMP) : Obj :=
  { type := s.type, code := s.code, request_id := s.request_id, request_sequence := s.request_sequence,
    payload := s.payload }
def Dom (o : Obj) : Prop := 0 ≤ o.type ∧ 0 ≤ o.code ∧ 0 ≤ o.request_id ∧ 0 ≤ o.request_sequence
instance (o : Obj) : Decidable (Dom o) := by unfold Dom; infer_instance
@[simp] theorem toModel_ofModel (s : Model.Net.ICMP) : toModel (ofModel s) = s := by
  cases s; simp [toModel, ofModel]
theorem ofModel_toModel (o : Obj) (h : Dom o) : ofModel (toModel o) = o := by
  obtain ⟨h1, h2, h3, h4⟩ := h
  cases o
  simp only [toModel, ofModel] at *
  simp only [Int.toNat_of_nonneg, h1, h2, h3, h4]
end ICMP

/-! ### MPEGAdaptionExtension (MPEGTS.py) — model `Model.MPEGTS.Ext`; no int attributes: the correspondence is a bijection
    and the ties hold for EVERY object -/
namespace MPEGAdaptionExtension
abbrev Obj := Gen.Src.Cls.MPEGAdaptionExtension.Obj
def toModel (o : Obj) : Model.MPEGTS.Ext :=
  { ltw_flag := o.ltw_flag, piecewise_rate_flag := o.piecewise_rate_flag, seamless_splice_flag := o.seamless_splice_flag,
    ltw := o.ltw, piecewise := o.piecewise, seamless_splice := o.seamless_splice }
def ofModel (s : Model.MPEGTS.Ext) : Obj :=
  { ltw_flag := s.ltw_flag, piecewise_rate_flag := s.piecewise_rate_flag, seamless_splice_flag := s.seamless_splice_flag,
    ltw := s.ltw, piecewise := s.piecewise, seamless_splice := s.seamless_splice }
@[simp] theorem toModel_ofModel (s : Model.MPEGTS.Ext) : toModel (ofModel s) = s := rfl
@[simp] theorem ofModel_toModel (o : Obj) : ofModel (toModel o) = o := rfl

theorem ext_flags (b1 b2 b3 : Bool) :
    (31 + Py.shl (if b1 = true then 1 else 0) 7 + Py.shl (if b2 = true then 1 else 0) 6
        + Py.shl (if b3 = true then 1 else 0) 5 : Int)
      = ((0x1F + b1.toNat * 128 + b2.toNat * 64 + b3.toNat * 32 : Nat) : Int) := by
  cases b1 <;> cases b2 <;> cases b3 <;> decide

theorem ext_len (a b c : Nat) : (2 + (a : Int) + (b : Int) + (c : Int)) = ((2 + a + b + c : Nat) : Int) := by omega

theorem structPackI_two (f : Fmt) (a b : Nat) : structPackI f [(a : Int), (b : Int)] = structPack f [a, b] :=
  structPackI_cast f [a, b] _ rfl

theorem structPackI_lit2 (f : Fmt) (a b : Nat) :
    structPackI f [(no_index (OfNat.ofNat a) : Int), (no_index (OfNat.ofNat b) : Int)]
      = structPack f [OfNat.ofNat a, OfNat.ofNat b] :=
  structPackI_cast f [a, b] _ rfl

/-- the flag bit `(flags >> k) & 1` as the model computes it -/
theorem flag_bit (flags : Nat) (k : Nat) :
    (decide (Py.band (Py.shr (flags : Int) (k : Int)) 1 ≠ 0)) = (flags / 2 ^ k % 2 == 1) := by
  simp only [shr_natCast, band_natCast_lit, Int.toNat_natCast, Nat.shiftRight_eq_div_pow, Nat.and_one_is_mod]
  by_cases h : flags / 2 ^ k % 2 = 1
  · simp [h]
  · have : flags / 2 ^ k % 2 = 0 := by omega
    simp [this]
theorem flag_bit7 (flags : Nat) : (decide (Py.band (Py.shr (flags : Int) 7) 1 ≠ 0)) = (flags / 128 % 2 == 1) :=
  flag_bit flags 7
theorem flag_bit6 (flags : Nat) : (decide (Py.band (Py.shr (flags : Int) 6) 1 ≠ 0)) = (flags / 64 % 2 == 1) :=
  flag_bit flags 6
theorem flag_bit5 (flags : Nat) : (decide (Py.band (Py.shr (flags : Int) 5) 1 ≠ 0)) = (flags / 32 % 2 == 1) :=
  flag_bit flags 5
end MPEGAdaptionExtension

/-- `x & 0xFFFF` = `x % 65536` for the length expression of `UDP.pack` (lets the tie survive that rewrite) -/
theorem band_len8_mask (n : Nat) : Acra.Py.band ((n : Int) + 8) 65535 = Acra.Py.pymod ((n : Int) + 8) 65536 := by
  have h : ((n : Int) + 8) = ((n + 8 : Nat) : Int) := by simp
  rw [h, Acra.Py.band_natCast_lit, Acra.Py.pymod_of_pos _ _ (by omega)]
  rw [show ((n + 8 : Nat) &&& 65535) = (n + 8) % 65536 from Nat.and_two_pow_sub_one_eq_mod (n + 8) 16]
  omega

end Acra.Lemmas.SrcTieCls
