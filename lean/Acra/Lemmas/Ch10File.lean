/-
  Helper lemmas for FileParser (Chapter 10 files): `next` seen from the current offset (`scan`, a
  refinement of the offset-based model), what the sync search does at a packet start, inside
  sync-free junk, at a truncated packet; iteration over a file `junk p₁ junk p₂ … junk`, over every
  prefix of it, and over arbitrary bytes (totality).  Property theorems are in Acra/Props (C12, C08).
-/
import Acra.Lemmas.Ch11
import Acra.Model.Ch10File
namespace Acra.Lemmas.Ch10File
open Acra.Py Acra.Model.Ch10File Acra.Gen.Ch10File Acra.Gen.Ch11 Acra.Lemmas.Ch10 Acra

theorem readAt_eq (data : Bytes) (off n : Nat) : readAt data off n = (data.drop off).take n := by
  simp [readAt, slice, List.drop_take]

/-- the 8-byte header read: too short -/
theorem hdr_short (bs : Bytes) (h : bs.length ≠ 8) : structUnpack FP_next_fmt0 bs = .error .struct := by
  simp [structUnpack, FP_next_fmt0, Fmt.size, codesSize, Code.size, h]

/-- the 8-byte header read: sync word, channel id, packet length, little-endian -/
theorem hdr_eight (b0 b1 b2 b3 b4 b5 b6 b7 : UInt8) :
    structUnpack FP_next_fmt0 [b0, b1, b2, b3, b4, b5, b6, b7] =
      .ok [b0.toNat + 256 * b1.toNat, b2.toNat + 256 * b3.toNat,
           b4.toNat + 256 * (b5.toNat + 256 * (b6.toNat + 256 * b7.toNat))] := by
  simp [structUnpack, FP_next_fmt0, Fmt.size, codesSize, Code.size, unpackCodes, decInt, leNat]

/-- `next` seen from the current offset: works on the bytes that remain, returns how far `_offset` moves -/
def scan : Nat → Bytes → R (Nat × Option Bytes)
  | 0, _ => .error .fuel
  | fuel + 1, rem =>
    match structUnpack FP_next_fmt0 (rem.take 8) with
    | .error _ => .ok (0, none)
    | .ok [sync, _chid, pktLen] =>
      if sync = SYNC_WORD ∧ pktLen > 0 then
        if (rem.take pktLen).length ≠ pktLen then .ok (pktLen, none) else .ok (pktLen, some (rem.take pktLen))
      else
        match scan fuel (rem.drop 1) with
        | .ok (k, r) => .ok (k + 1, r)
        | .error e => .error e
    | .ok _ => .ok (0, none)

def shift (off : Nat) : R (Nat × Option Bytes) → R Step
  | .ok (k, r) => .ok (off + k, r)
  | .error e => .error e

theorem nextFuel_eq_scan (data : Bytes) (fuel off : Nat) :
    nextFuel data fuel off = shift off (scan fuel (data.drop off)) := by
  induction fuel generalizing off with
  | zero => simp [nextFuel, scan, shift]
  | succ fuel ih =>
    simp only [nextFuel, scan, readAt_eq]
    generalize structUnpack FP_next_fmt0 (List.take 8 (List.drop off data)) = x
    rcases x with e | vs
    · simp [shift]
    · rcases vs with _ | ⟨a, _ | ⟨b, _ | ⟨c, _ | ⟨d, r⟩⟩⟩⟩ <;> try (simp [shift]; done)
      simp only
      by_cases hc : a = SYNC_WORD ∧ c > 0
      · simp only [hc, and_self, ↓reduceIte]
        by_cases hl : (List.take c (List.drop off data)).length ≠ c
        · simp only [hl, ↓reduceIte, shift, ne_eq, not_false_eq_true]
        · simp only [hl, ↓reduceIte, shift]
      · simp only [hc, ↓reduceIte]
        rw [ih (off + 1), List.drop_drop]
        cases scan fuel (List.drop (off + 1) data) with
        | error e => simp [shift]
        | ok r => obtain ⟨k, r⟩ := r; simp [shift]; omega

/-- a Chapter 10 packet as the file reader sees it: starts with the sync pattern 25 EB and carries its own
    total length (little-endian) in bytes 4..7 — hence at least 8 bytes -/
def IsPacket (p : Bytes) : Prop :=
  ∃ c0 c1 l0 l1 l2 l3 rest, p = 0x25 :: 0xEB :: c0 :: c1 :: l0 :: l1 :: l2 :: l3 :: rest ∧
    l0.toNat + 256 * (l1.toNat + 256 * (l2.toNat + 256 * l3.toNat)) = p.length

theorem IsPacket.len8 {p : Bytes} (h : IsPacket p) : 8 ≤ p.length := by
  obtain ⟨c0, c1, l0, l1, l2, l3, rest, hp, _⟩ := h
  subst hp; simp

/-- no occurrence of the sync pattern 25 EB -/
def syncFree : Bytes → Bool
  | a :: b :: r => !(a == 0x25 && b == 0xEB) && syncFree (b :: r)
  | _ => true

theorem sync_iff (b0 b1 : UInt8) : b0.toNat + 256 * b1.toNat = SYNC_WORD ↔ (b0 = 0x25 ∧ b1 = 0xEB) := by
  have h0 := b0.toNat_lt
  have h1 := b1.toNat_lt
  constructor
  · intro h
    simp only [SYNC_WORD] at h
    have e0 : b0.toNat = 0x25 := by omega
    have e1 : b1.toNat = 0xEB := by omega
    exact ⟨UInt8.toNat_inj.mp (by simpa using e0), UInt8.toNat_inj.mp (by simpa using e1)⟩
  · rintro ⟨rfl, rfl⟩; rfl

theorem scan_short (fuel : Nat) (rem : Bytes) (h : rem.length < 8) : scan (fuel + 1) rem = .ok (0, none) := by
  simp only [scan]
  rw [hdr_short _ (by simp; omega)]

/-- at a packet start: the packet is returned whole and the offset moves by its length -/
theorem scan_packet (fuel : Nat) (p rest : Bytes) (h : IsPacket p) :
    scan (fuel + 1) (p ++ rest) = .ok (p.length, some p) := by
  obtain ⟨c0, c1, l0, l1, l2, l3, r, hp, hl⟩ := h
  have h8 : List.take 8 (p ++ rest) = [0x25, 0xEB, c0, c1, l0, l1, l2, l3] := by subst hp; simp
  simp only [scan, h8, hdr_eight]
  have hs : (0x25 : UInt8).toNat + 256 * (0xEB : UInt8).toNat = SYNC_WORD := rfl
  have hpos : p.length > 0 := by rw [hp]; simp
  simp only [hl, hs, hpos, and_self, ↓reduceIte]
  simp

/-- at a truncated packet (a proper prefix of one): StopIteration -/
theorem scan_trunc (fuel : Nat) (p : Bytes) (k : Nat) (h : IsPacket p) (hk : k < p.length) :
    ∃ n, scan (fuel + 1) (p.take k) = .ok (n, none) := by
  by_cases h8 : k < 8
  · exact ⟨0, scan_short fuel _ (by simp; omega)⟩
  · obtain ⟨c0, c1, l0, l1, l2, l3, r, hp, hl⟩ := h
    have e8 : List.take 8 (List.take k p) = [0x25, 0xEB, c0, c1, l0, l1, l2, l3] := by
      rw [List.take_take, Nat.min_eq_left (by omega)]; subst hp; simp
    simp only [scan, e8, hdr_eight]
    have hs : (0x25 : UInt8).toNat + 256 * (0xEB : UInt8).toNat = SYNC_WORD := rfl
    have hpos : p.length > 0 := by omega
    have : (List.take p.length (List.take k p)).length ≠ p.length := by simp; omega
    exact ⟨p.length, by simp only [hl, hs, hpos, and_self, this, ↓reduceIte, ne_eq, not_false_eq_true]⟩

/-- at a position that holds at least 8 bytes which do not start with the sync pattern: move on by one -/
theorem scan_skip (fuel : Nat) (a b : UInt8) (rest : Bytes) (hns : ¬ (a = 0x25 ∧ b = 0xEB))
    (hl : 8 ≤ (a :: b :: rest).length) :
    scan (fuel + 1) (a :: b :: rest) =
      match scan fuel (b :: rest) with
      | .ok (k, r) => .ok (k + 1, r)
      | .error e => .error e := by
  obtain ⟨b2, b3, b4, b5, b6, b7, r, hr⟩ : ∃ b2 b3 b4 b5 b6 b7 r, rest = b2 :: b3 :: b4 :: b5 :: b6 :: b7 :: r := by
    match rest, hl with
    | b2 :: b3 :: b4 :: b5 :: b6 :: b7 :: r, _ => exact ⟨b2, b3, b4, b5, b6, b7, r, rfl⟩
    | [], h | [_], h | [_, _], h | [_, _, _], h | [_, _, _, _], h | [_, _, _, _, _], h => simp at h
  subst hr
  have h8 : List.take 8 (a :: b :: b2 :: b3 :: b4 :: b5 :: b6 :: b7 :: r) = [a, b, b2, b3, b4, b5, b6, b7] := by simp
  simp only [scan, h8, hdr_eight]
  have : ¬ (a.toNat + 256 * b.toNat = SYNC_WORD) := by rw [sync_iff]; exact hns
  simp only [this, false_and, ↓reduceIte, List.drop_succ_cons, List.drop_zero]

theorem syncFree_tail {a : UInt8} {j : Bytes} (h : syncFree (a :: j) = true) : syncFree j = true := by
  cases j with
  | nil => rfl
  | cons b r => simp [syncFree] at h; exact h.2

theorem syncFree_head {a b : UInt8} {r : Bytes} (h : syncFree (a :: b :: r) = true) : ¬ (a = 0x25 ∧ b = 0xEB) := by
  simp [syncFree] at h
  intro ⟨h1, h2⟩
  rcases h.1 with h3 | h3
  · exact h3 h1
  · exact h3 h2

/-- sync-free junk in front of a packet is skipped byte by byte; a junk byte 0x25 directly before the packet
    is harmless because the packet starts with 0x25, not 0xEB -/
theorem scan_junk_packet (j : Bytes) (hj : syncFree j = true) (p rest : Bytes) (hp : IsPacket p) (fuel : Nat)
    (hf : j.length + 1 ≤ fuel) : scan fuel (j ++ (p ++ rest)) = .ok (j.length + p.length, some p) := by
  induction j generalizing fuel with
  | nil =>
    obtain ⟨f, rfl⟩ : ∃ f, fuel = f + 1 := ⟨fuel - 1, by simp at hf; omega⟩
    simpa using scan_packet f p rest hp
  | cons a j ih =>
    obtain ⟨f, rfl⟩ : ∃ f, fuel = f + 1 := ⟨fuel - 1, by simp at hf; omega⟩
    have h8 := hp.len8
    have hns : ∃ b r, j ++ (p ++ rest) = b :: r ∧ ¬ (a = 0x25 ∧ b = 0xEB) := by
      cases j with
      | nil =>
        obtain ⟨c0, c1, l0, l1, l2, l3, r, hpe, _⟩ := hp
        exact ⟨0x25, _, by rw [hpe]; rfl, by intro ⟨_, h⟩; exact absurd h (by decide)⟩
      | cons b r => exact ⟨b, _, rfl, syncFree_head hj⟩
    obtain ⟨b, r, hbr, hns⟩ := hns
    have hlen : 8 ≤ (a :: b :: r).length := by
      have : (b :: r).length = (j ++ (p ++ rest)).length := by rw [hbr]
      simp only [List.length_cons, List.length_append] at this ⊢; omega
    rw [List.cons_append, hbr, scan_skip f a b r hns hlen, ← hbr, ih (syncFree_tail hj) f (by simp at hf ⊢; omega)]
    simp; omega

/-- sync-free junk up to the end of the file: the search ends with StopIteration -/
theorem scan_junk_end (j : Bytes) (hj : syncFree j = true) (fuel : Nat) (hf : j.length + 1 ≤ fuel) :
    ∃ n, scan fuel j = .ok (n, none) := by
  induction j generalizing fuel with
  | nil =>
    obtain ⟨f, rfl⟩ : ∃ f, fuel = f + 1 := ⟨fuel - 1, by simp at hf; omega⟩
    exact ⟨0, scan_short f [] (by simp)⟩
  | cons a j ih =>
    obtain ⟨f, rfl⟩ : ∃ f, fuel = f + 1 := ⟨fuel - 1, by simp at hf; omega⟩
    by_cases h8 : (a :: j).length < 8
    · exact ⟨0, scan_short f _ h8⟩
    · cases j with
      | nil => simp at h8
      | cons b r =>
        obtain ⟨n, hn⟩ := ih (syncFree_tail hj) f (by simp at hf ⊢; omega)
        exact ⟨n + 1, by rw [scan_skip f a b r (syncFree_head hj) (by omega), hn]⟩

/-- sync-free junk followed by a proper prefix of a packet (a file cut inside the packet): StopIteration -/
theorem scan_junk_trunc (j : Bytes) (hj : syncFree j = true) (p : Bytes) (hp : IsPacket p) (k : Nat)
    (hk : k < p.length) (fuel : Nat) (hf : j.length + 1 ≤ fuel) :
    ∃ n, scan fuel (j ++ p.take k) = .ok (n, none) := by
  induction j generalizing fuel with
  | nil =>
    obtain ⟨f, rfl⟩ : ∃ f, fuel = f + 1 := ⟨fuel - 1, by simp at hf; omega⟩
    simpa using scan_trunc f p k hp hk
  | cons a j ih =>
    obtain ⟨f, rfl⟩ : ∃ f, fuel = f + 1 := ⟨fuel - 1, by simp at hf; omega⟩
    by_cases h8 : ((a :: j) ++ p.take k).length < 8
    · exact ⟨0, scan_short f _ h8⟩
    · have hns : ∃ b r, j ++ p.take k = b :: r ∧ ¬ (a = 0x25 ∧ b = 0xEB) := by
        cases j with
        | nil =>
          obtain ⟨c0, c1, l0, l1, l2, l3, r, hpe, _⟩ := hp
          have hk1 : 1 ≤ k := by simp at h8; omega
          obtain ⟨k', rfl⟩ : ∃ k', k = k' + 1 := ⟨k - 1, by omega⟩
          exact ⟨0x25, _, by rw [hpe]; rfl, by intro ⟨_, h⟩; exact absurd h (by decide)⟩
        | cons b r => exact ⟨b, _, rfl, syncFree_head hj⟩
      obtain ⟨b, r, hbr, hns⟩ := hns
      have hlen : 8 ≤ (a :: b :: r).length := by
        have : (b :: r).length = (j ++ p.take k).length := by rw [hbr]
        simp only [List.length_cons, List.length_append] at this h8 ⊢; omega
      obtain ⟨n, hn⟩ := ih (syncFree_tail hj) f (by simp at hf ⊢; omega)
      exact ⟨n + 1, by rw [List.cons_append, hbr, scan_skip f a b r hns hlen, ← hbr, hn]⟩

theorem syncFree_take (j : Bytes) (k : Nat) (h : syncFree j = true) : syncFree (j.take k) = true := by
  induction j generalizing k with
  | nil => simp [syncFree]
  | cons a j ih =>
    cases k with
    | zero => simp [syncFree]
    | succ k =>
      cases j with
      | nil => simp [syncFree]
      | cons b r =>
        cases k with
        | zero => simp [syncFree]
        | succ k =>
          have h1 := syncFree_head h
          have h2 := ih (k + 1) (syncFree_tail h)
          simp only [List.take_succ_cons] at h2 ⊢
          simp only [syncFree, h2, Bool.and_true, Bool.not_eq_true', Bool.and_eq_false_iff, beq_eq_false_iff_ne]
          by_cases ha : a = 0x25
          · right; intro hb; exact h1 ⟨ha, hb⟩
          · left; exact ha

/-! ### `next` and iteration -/

theorem next_eq_scan (data : Bytes) (off : Nat) :
    next data off = shift off (scan (data.length - off + 2) (data.drop off)) := nextFuel_eq_scan _ _ _

theorem next_at (pre x : Bytes) :
    next (pre ++ x) pre.length = shift pre.length (scan (x.length + 2) x) := by
  rw [next_eq_scan, List.drop_left']
  · simp
  · rfl

theorem next_junk_packet (pre j p rest : Bytes) (hj : syncFree j = true) (hp : IsPacket p) :
    next (pre ++ (j ++ (p ++ rest))) pre.length = .ok (pre.length + (j.length + p.length), some p) := by
  rw [next_at, scan_junk_packet j hj p rest hp _ (by simp; omega)]
  rfl

theorem next_junk_end (pre j : Bytes) (hj : syncFree j = true) :
    ∃ o, next (pre ++ j) pre.length = .ok (o, none) := by
  obtain ⟨n, hn⟩ := scan_junk_end j hj (j.length + 2) (by omega)
  exact ⟨pre.length + n, by rw [next_at, hn]; rfl⟩

theorem next_junk_trunc (pre j p : Bytes) (k : Nat) (hj : syncFree j = true) (hp : IsPacket p) (hk : k < p.length) :
    ∃ o, next (pre ++ (j ++ p.take k)) pre.length = .ok (o, none) := by
  obtain ⟨n, hn⟩ := scan_junk_trunc j hj p hp k hk ((j ++ p.take k).length + 2) (by simp; omega)
  exact ⟨pre.length + n, by rw [next_at, hn]; rfl⟩

/-- a file: sync-free junk, packet, junk, packet, …, trailing junk -/
def fileOf : List (Bytes × Bytes) → Bytes → Bytes
  | [], tail => tail
  | (j, p) :: segs, tail => j ++ (p ++ fileOf segs tail)

def Seg (jp : Bytes × Bytes) : Prop := syncFree jp.1 = true ∧ IsPacket jp.2

theorem fileOf_length (segs : List (Bytes × Bytes)) (tail : Bytes) (hs : ∀ jp ∈ segs, Seg jp) :
    8 * segs.length ≤ (fileOf segs tail).length := by
  induction segs with
  | nil => simp
  | cons jp segs ih =>
    obtain ⟨j, p⟩ := jp
    have h8 := (hs (j, p) (by simp)).2.len8
    have := ih (fun x hx => hs x (by simp [hx]))
    simp only [fileOf, List.length_append, List.length_cons] at *
    omega

theorem iter_file (segs : List (Bytes × Bytes)) (tail : Bytes) (hs : ∀ jp ∈ segs, Seg jp)
    (ht : syncFree tail = true) (pre : Bytes) (fuel : Nat) (hf : segs.length + 1 ≤ fuel) :
    ∃ o, iterFuel (pre ++ fileOf segs tail) fuel pre.length = .ok (segs.map (·.2), o) := by
  induction segs generalizing pre fuel with
  | nil =>
    obtain ⟨f, rfl⟩ : ∃ f, fuel = f + 1 := ⟨fuel - 1, by simp at hf; omega⟩
    obtain ⟨o, ho⟩ := next_junk_end pre tail ht
    exact ⟨o, by simp [iterFuel, fileOf, ho]⟩
  | cons jp segs ih =>
    obtain ⟨j, p⟩ := jp
    obtain ⟨f, rfl⟩ : ∃ f, fuel = f + 1 := ⟨fuel - 1, by simp at hf; omega⟩
    obtain ⟨hj, hp⟩ := hs (j, p) (by simp)
    have hn := next_junk_packet pre j p (fileOf segs tail) hj hp
    obtain ⟨o, ho⟩ := ih (fun x hx => hs x (by simp [hx])) (pre ++ (j ++ p)) f (by simp at hf ⊢; omega)
    refine ⟨o, ?_⟩
    simp only [iterFuel, fileOf, hn]
    have e1 : pre ++ (j ++ (p ++ fileOf segs tail)) = (pre ++ (j ++ p)) ++ fileOf segs tail := by simp
    have e2 : pre.length + (j.length + p.length) = (pre ++ (j ++ p)).length := by simp
    rw [e1, e2, ho]
    simp

/-- the packets of a file that lie completely inside its first `t` bytes -/
def completeIn : Nat → List (Bytes × Bytes) → List Bytes
  | _, [] => []
  | t, (j, p) :: segs => if j.length + p.length ≤ t then p :: completeIn (t - (j.length + p.length)) segs else []

theorem completeIn_length (segs : List (Bytes × Bytes)) (hs : ∀ jp ∈ segs, Seg jp) (t : Nat) :
    8 * (completeIn t segs).length ≤ t ∧ (completeIn t segs).length ≤ segs.length := by
  induction segs generalizing t with
  | nil => simp [completeIn]
  | cons jp segs ih =>
    obtain ⟨j, p⟩ := jp
    have h8 : 8 ≤ p.length := (hs (j, p) (by simp)).2.len8
    simp only [completeIn]
    split
    · rename_i hle
      have := ih (fun x hx => hs x (by simp [hx])) (t - (j.length + p.length))
      simp only [List.length_cons]; omega
    · simp

theorem iter_truncated (segs : List (Bytes × Bytes)) (tail : Bytes) (hs : ∀ jp ∈ segs, Seg jp)
    (ht : syncFree tail = true) (t : Nat) (pre : Bytes) (fuel : Nat)
    (hf : (completeIn t segs).length + 1 ≤ fuel) :
    ∃ o, iterFuel (pre ++ (fileOf segs tail).take t) fuel pre.length = .ok (completeIn t segs, o) := by
  induction segs generalizing pre fuel t with
  | nil =>
    obtain ⟨f, rfl⟩ : ∃ f, fuel = f + 1 := ⟨fuel - 1, by omega⟩
    obtain ⟨o, ho⟩ := next_junk_end pre (tail.take t) (syncFree_take tail t ht)
    exact ⟨o, by simp [iterFuel, fileOf, completeIn, ho]⟩
  | cons jp segs ih =>
    obtain ⟨j, p⟩ := jp
    obtain ⟨f, rfl⟩ : ∃ f, fuel = f + 1 := ⟨fuel - 1, by omega⟩
    obtain ⟨hj, hp⟩ := hs (j, p) (by simp)
    by_cases hc : j.length + p.length ≤ t
    · -- the first packet is complete
      have e0 : (fileOf ((j, p) :: segs) tail).take t =
          j ++ (p ++ (fileOf segs tail).take (t - (j.length + p.length))) := by
        simp only [fileOf, List.take_append]
        rw [List.take_of_length_le (by omega), List.take_of_length_le (by omega)]
        congr 3; omega
      have hn := next_junk_packet pre j p ((fileOf segs tail).take (t - (j.length + p.length))) hj hp
      obtain ⟨o, ho⟩ := ih (fun x hx => hs x (by simp [hx])) (t - (j.length + p.length)) (pre ++ (j ++ p)) f
        (by simp only [completeIn, hc, if_true, List.length_cons] at hf; omega)
      refine ⟨o, ?_⟩
      simp only [iterFuel, e0, hn, completeIn, hc, if_true]
      have e1 : pre ++ (j ++ (p ++ (fileOf segs tail).take (t - (j.length + p.length)))) =
          (pre ++ (j ++ p)) ++ (fileOf segs tail).take (t - (j.length + p.length)) := by simp
      have e2 : pre.length + (j.length + p.length) = (pre ++ (j ++ p)).length := by simp
      rw [e1, e2, ho]
    · -- the cut is inside the first junk or the first packet: nothing is returned
      have hnone : ∃ o, next (pre ++ (fileOf ((j, p) :: segs) tail).take t) pre.length = .ok (o, none) := by
        by_cases hc2 : t ≤ j.length
        · have e0 : (fileOf ((j, p) :: segs) tail).take t = j.take t := by
            simp only [fileOf, List.take_append]
            rw [show t - j.length = 0 by omega]; simp
          rw [e0]; exact next_junk_end pre _ (syncFree_take j t hj)
        · have e0 : (fileOf ((j, p) :: segs) tail).take t = j ++ p.take (t - j.length) := by
            simp only [fileOf, List.take_append]
            rw [List.take_of_length_le (by omega), show t - j.length - p.length = 0 by omega]; simp
          rw [e0]; exact next_junk_trunc pre j p _ hj hp (by omega)
      obtain ⟨o, ho⟩ := hnone
      exact ⟨o, by simp only [iterFuel, ho, completeIn, hc, if_false]⟩

/-! ### totality (arbitrary file contents) -/

/-- the sync search never runs out of fuel: `|rem| + 1` steps suffice on ANY bytes -/
theorem scan_total (rem : Bytes) (fuel : Nat) (hf : rem.length + 1 ≤ fuel) : ∃ r, scan fuel rem = .ok r := by
  induction rem generalizing fuel with
  | nil =>
    obtain ⟨f, rfl⟩ : ∃ f, fuel = f + 1 := ⟨fuel - 1, by simp at hf; omega⟩
    exact ⟨_, scan_short f [] (by simp)⟩
  | cons a rem ih =>
    obtain ⟨f, rfl⟩ : ∃ f, fuel = f + 1 := ⟨fuel - 1, by simp at hf; omega⟩
    obtain ⟨r, hr⟩ := ih f (by simp at hf ⊢; omega)
    simp only [scan, List.drop_succ_cons, List.drop_zero, hr]
    generalize structUnpack FP_next_fmt0 (List.take 8 (a :: rem)) = x
    rcases x with e | vs
    · exact ⟨_, rfl⟩
    · rcases vs with _ | ⟨v0, _ | ⟨v1, _ | ⟨v2, _ | ⟨v3, r4⟩⟩⟩⟩ <;> try exact ⟨_, rfl⟩
      simp only
      by_cases hc : v0 = SYNC_WORD ∧ v2 > 0
      · simp only [hc, and_self, ↓reduceIte]
        split <;> exact ⟨_, rfl⟩
      · simp only [hc, ↓reduceIte]
        obtain ⟨k, r'⟩ := r
        exact ⟨_, rfl⟩

/-- a returned packet is non-empty, lies inside the remaining bytes, and the offset moves past it -/
theorem scan_some (rem : Bytes) (fuel k : Nat) (p : Bytes) (h : scan fuel rem = .ok (k, some p)) :
    0 < p.length ∧ p.length ≤ k ∧ k ≤ rem.length := by
  induction fuel generalizing rem k with
  | zero => simp [scan] at h
  | succ f ih =>
    simp only [scan] at h
    generalize structUnpack FP_next_fmt0 (List.take 8 rem) = x at h
    rcases x with e | vs
    · simp at h
    · rcases vs with _ | ⟨v0, _ | ⟨v1, _ | ⟨v2, _ | ⟨v3, r4⟩⟩⟩⟩ <;> try (simp at h; done)
      simp only at h
      by_cases hc : v0 = SYNC_WORD ∧ v2 > 0
      · simp only [hc, and_self, ↓reduceIte] at h
        by_cases hl : (List.take v2 rem).length ≠ v2
        · simp only [hl, ↓reduceIte, ne_eq, not_false_eq_true] at h
          simp at h
        · simp only [hl, ↓reduceIte] at h
          simp only [Except.ok.injEq, Prod.mk.injEq, Option.some.injEq] at h
          obtain ⟨rfl, rfl⟩ := h
          simp only [ne_eq, Decidable.not_not] at hl
          have := hc.2
          simp only [List.length_take] at hl ⊢
          omega
      · simp only [hc, ↓reduceIte] at h
        have e : List.drop 1 rem = rem.tail := by simp
        rw [e] at h
        cases hs : scan f (List.tail rem) with
        | error e => simp [hs] at h
        | ok r =>
          obtain ⟨k', r'⟩ := r
          simp only [hs, Except.ok.injEq, Prod.mk.injEq] at h
          obtain ⟨rfl, rfl⟩ := h
          have := ih _ _ hs
          simp only [List.length_tail] at this
          omega

theorem next_total (data : Bytes) (off : Nat) : ∃ st, next data off = .ok st := by
  obtain ⟨r, hr⟩ := scan_total (data.drop off) (data.length - off + 2) (by simp <;> omega)
  obtain ⟨k, q⟩ := r
  exact ⟨(off + k, q), by rw [next_eq_scan, hr]; rfl⟩

theorem next_some (data : Bytes) (off o : Nat) (p : Bytes) (h : next data off = .ok (o, some p)) :
    0 < p.length ∧ off + p.length ≤ o ∧ o ≤ data.length := by
  rw [next_eq_scan] at h
  cases hs : scan (data.length - off + 2) (data.drop off) with
  | error e => simp [hs, shift] at h
  | ok r =>
    obtain ⟨k, q⟩ := r
    simp only [hs, shift, Except.ok.injEq, Prod.mk.injEq] at h
    obtain ⟨rfl, rfl⟩ := h
    have := scan_some _ _ _ _ hs
    simp only [List.length_drop] at this
    omega

/-- iteration over ANY bytes stops and yields at most as many items as there are bytes left -/
theorem iterFuel_total (data : Bytes) (fuel off : Nat) (hf : data.length - off + 1 ≤ fuel) :
    ∃ ps o, iterFuel data fuel off = .ok (ps, o) ∧ ps.length ≤ data.length - off ∧ ∀ p ∈ ps, 0 < p.length := by
  induction fuel generalizing off with
  | zero => omega
  | succ f ih =>
    obtain ⟨st, hst⟩ := next_total data off
    obtain ⟨o, q⟩ := st
    cases q with
    | none => exact ⟨[], o, by simp [iterFuel, hst], by simp, by simp⟩
    | some p =>
      have hp := next_some data off o p hst
      obtain ⟨ps, o', h1, h2, h3⟩ := ih o (by omega)
      refine ⟨p :: ps, o', by simp [iterFuel, hst, h1], by simp; omega, ?_⟩
      intro x hx
      simp only [List.mem_cons] at hx
      rcases hx with rfl | hx
      · exact hp.1
      · exact h3 x hx

/-! ### writing -/

def itemBytes : Item → Option Bytes
  | .packed (.ok b) => some b
  | .raw b => some b
  | _ => none

theorem writeItems_ok (items : List Item) (acc : Bytes) (h : ∀ i ∈ items, itemBytes i ≠ none) :
    writeItems acc items = (acc ++ (items.filterMap itemBytes).flatten, .ok ()) := by
  induction items generalizing acc with
  | nil => simp [writeItems]
  | cons i items ih =>
    have hi := h i (by simp)
    have ht := fun a => ih a (fun x hx => h x (by simp [hx]))
    match i, hi with
    | .packed (.ok b), _ => simp [writeItems, itemBytes, ht (acc ++ b)]
    | .raw b, _ => simp [writeItems, itemBytes, ht (acc ++ b)]
    | .packed (.error e), hi => simp [itemBytes] at hi
    | .other, hi => simp [itemBytes] at hi

theorem writeItems_packed (bs : List Bytes) (acc : Bytes) :
    writeItems acc (bs.map fun b => Item.packed (.ok b)) = (acc ++ bs.flatten, .ok ()) := by
  induction bs generalizing acc with
  | nil => simp [writeItems]
  | cons b bs ih => simp [writeItems, ih (acc ++ b)]

theorem fileOf_nojunk (bs : List Bytes) : fileOf (bs.map fun p => (([] : Bytes), p)) [] = bs.flatten := by
  induction bs with
  | nil => rfl
  | cons b bs ih => simp [fileOf, ih]

/-- a Chapter 11 header with the standard sync word whose packet-length field is the real length, followed by
    the rest of the packet, is a packet in the file reader's sense -/
theorem isPacket_of_header (chid plen dlen dtv sq flag dt rtc : Nat) (rest : Bytes)
    (hl : plen = 24 + rest.length) (hlt : plen < 2 ^ 32) :
    IsPacket (Spec.Ch11.header SYNC_WORD chid plen dlen dtv sq flag dt rtc ++ rest) := by
  simp only [Spec.Ch11.header, Spec.Ch11.header22, SYNC_WORD]
  refine ⟨_, _, _, _, _, _, _, by simp only [leBytes, List.cons_append, List.nil_append]; rfl, ?_⟩
  simp only [toNat_ofNat, List.length_append, leBytes_length]
  omega

/-- every well-formed Chapter 11 packet with the standard sync word is a packet in the file reader's sense:
    it starts with 25 EB and its bytes 4..7 hold its own length (C03: `packetlen = |bytes|`) -/
theorem ch11_isPacket (s : Acra.Model.Ch11.State) (h : Acra.Lemmas.Ch11.WFn s ∨ Acra.Lemmas.Ch11.WFs s)
    (hs : s.syncpattern = SYNC_WORD) : ∃ b, (Acra.Model.Ch11.pack s).2 = .ok b ∧ IsPacket b := by
  rcases h with h | h
  · refine ⟨_, by rw [Acra.Lemmas.Ch11.pack_nosec s h], ?_⟩
    obtain ⟨_, _, _, _, _, _, _, _, _, _, h11⟩ := h
    have hk := Acra.Lemmas.Ch11.fillLen_lt (24 + 0 + s.payload.length)
    simp only [Spec.Ch11.encode, hs, List.append_assoc]
    exact isPacket_of_header _ _ _ _ _ _ _ _ _ (by simp [Spec.Ch11.fillLen]; omega) (by simp [Spec.Ch11.fillLen]; omega)
  · refine ⟨_, by rw [Acra.Lemmas.Ch11.pack_sec s h], ?_⟩
    obtain ⟨_, _, _, _, _, _, _, _, _, _, _, _, h13⟩ := h
    have hk := Acra.Lemmas.Ch11.fillLen_lt (24 + 12 + s.payload.length)
    have hl : (Spec.Ch11.secHeader s.ptptime.seconds s.ptptime.nanoseconds).length = 12 := by
      simp [Spec.Ch11.secHeader]
    simp only [Spec.Ch11.encode, hs, List.append_assoc, hl]
    exact isPacket_of_header _ _ _ _ _ _ _ _ _ (by simp [hl, Spec.Ch11.fillLen]; omega) (by simp [Spec.Ch11.fillLen]; omega)

/-- the `pack` results of a list of well-formed objects are all `ok`, and each is a packet -/
theorem packAll_ok (ss : List Acra.Model.Ch11.State)
    (hw : ∀ s ∈ ss, (Acra.Lemmas.Ch11.WFn s ∨ Acra.Lemmas.Ch11.WFs s) ∧ s.syncpattern = SYNC_WORD) :
    ∃ bs : List Bytes, ss.map (fun s => (Acra.Model.Ch11.pack s).2) = bs.map .ok ∧ ∀ b ∈ bs, IsPacket b := by
  induction ss with
  | nil => exact ⟨[], rfl, by simp⟩
  | cons s ss ih =>
    obtain ⟨bs, h1, h2⟩ := ih (fun x hx => hw x (by simp [hx]))
    obtain ⟨hwf, hsync⟩ := hw s (by simp)
    obtain ⟨b, hb, hpk⟩ := ch11_isPacket s hwf hsync
    refine ⟨b :: bs, by simp [hb, h1], ?_⟩
    intro x hx
    rcases List.mem_cons.mp hx with rfl | hx
    · exact hpk
    · exact h2 x hx

end Acra.Lemmas.Ch10File
