/-
  Golay(24,12): the decode tables of the model hold, at the syndrome of every error pattern of weight
  ≤ 3, that pattern's upper half and weight (last write wins, and all writes to one slot agree), and
  keep the initial "4 errors" at the syndrome of every pattern of weight 4.  Consequences: decoding
  corrects ≤ 3 errors, `_errors` flags 4.
-/
import Acra.Lemmas.GolayK1
import Acra.Lemmas.GolayK2
import Acra.Lemmas.GolayK3
import Acra.Lemmas.GolayK4
import Acra.Lemmas.GolayK5
namespace Acra.Lemmas.Golay
open Acra.Py Acra.Model.Golay Acra.Gen.Golay

theorem lookup_all (i j k : Nat) (hi : i < 24) (hj : j < 24) (hk : k < 24) :
    lookupT buildT (synF (pat i j k)) = pat i j k :=
  sorted_rep (fun e => lookupT buildT (synF e) = e) lookup_sorted i j k hi hj hk

theorem ones_all (i j k : Nat) (hi : i < 24) (hj : j < 24) (hk : k < 24) :
    onesincode (pat i j k) 24 = wt (pat i j k) :=
  sorted_rep (fun e => onesincode e 24 = wt e) ones_sorted i j k hi hj hk

theorem mem_writes (w : Nat × Nat × Nat) :
    w ∈ writes ↔ ∃ i j k, i < 24 ∧ j < 24 ∧ k < 24 ∧ w = writeOf (i, j, k) := by
  simp only [writes, triples, List.mem_map, List.mem_flatMap, List.mem_range]
  constructor
  · rintro ⟨t, ⟨i, hi, j, hj, k, hk, rfl⟩, rfl⟩
    exact ⟨i, j, k, hi, hj, hk, rfl⟩
  · rintro ⟨i, j, k, hi, hj, hk, rfl⟩
    exact ⟨(i, j, k), ⟨i, hi, j, hj, k, hk, rfl⟩, rfl⟩

theorem writeOf_key (i j k : Nat) : (writeOf (i, j, k)).1 = synF (pat i j k) := by
  simp [writeOf, syndrome_eq]

theorem corTable0_size : corTable0.size = 4096 := by simp [corTable0, GOLAY_SIZE]
theorem errTable0_size : errTable0.size = 4096 := by simp [errTable0, GOLAY_SIZE]

theorem corTable_get (s : Nat) (hs : s < 4096) :
    corTable[s]? = some (lastW (·.1) (·.2.1) writes s (corTable0.getD s 0)) := by
  unfold corTable tables
  exact (applyWrites_get writes corTable0 errTable0 s (by rw [corTable0_size]; exact hs)
    (by rw [errTable0_size]; exact hs)).1

theorem errTable_get (s : Nat) (hs : s < 4096) :
    errTable[s]? = some (lastW (·.1) (·.2.2) writes s (errTable0.getD s 0)) := by
  unfold errTable tables
  exact (applyWrites_get writes corTable0 errTable0 s (by rw [corTable0_size]; exact hs)
    (by rw [errTable0_size]; exact hs)).2

theorem corTable_size : corTable.size = 4096 := by
  have : ∀ (ws : List (Nat × Nat × Nat)) (c e : Array Nat), (applyWrites ws (c, e)).1.size = c.size := by
    intro ws
    induction ws with
    | nil => intro c e; rfl
    | cons w ws ih => intro c e; simp only [applyWrites, List.foldl_cons] at ih ⊢; rw [ih]; simp
  unfold corTable tables
  rw [this, corTable0_size]

theorem corTable0_zero : corTable0.getD 0 0 = 0 := by
  simp [corTable0, Array.getD_eq_getD_getElem?, GOLAY_SIZE]
theorem errTable0_zero : errTable0.getD 0 0 = 0 := by
  simp [errTable0, Array.getD_eq_getD_getElem?, GOLAY_SIZE]
theorem errTable0_nz (s : Nat) (hs : s < 4096) (hne : s ≠ 0) : errTable0.getD s 0 = 4 := by
  have hi := (init_entries _ hs hne).1
  have hne' : ¬ 0 = s := fun h => hne h.symm
  simp [errTable0, Array.getD_eq_getD_getElem?, GOLAY_SIZE, hne', hs, hi]

attribute [local irreducible] corTable errTable tables writes corTable0 errTable0 synTable

/-- the tables at the syndrome of a pattern the triple loop enumerates -/
theorem tables_pat (i j k : Nat) (hi : i < 24) (hj : j < 24) (hk : k < 24) :
    corTable[synF (pat i j k)]? = some ((pat i j k >>> 12) &&& 0xfff) ∧
    errTable[synF (pat i j k)]? = some (onesincode (pat i j k) 24) := by
  have hs := synF_lt (pat i j k)
  have hsame : ∀ w ∈ writes, w.1 = synF (pat i j k) → w = writeOf (i, j, k) := by
    intro w hw hk'
    obtain ⟨i', j', k', hi', hj', hk'', rfl⟩ := (mem_writes w).1 hw
    rw [writeOf_key] at hk'
    have h1 := lookup_all i' j' k' hi' hj' hk''
    have h2 := lookup_all i j k hi hj hk
    rw [hk', h2] at h1
    simp only [writeOf, h1]
  have hex : ∃ w ∈ writes, w.1 = synF (pat i j k) :=
    ⟨writeOf (i, j, k), (mem_writes _).2 ⟨i, j, k, hi, hj, hk, rfl⟩, writeOf_key i j k⟩
  constructor
  · rw [corTable_get _ hs]
    congr 1
    apply lastW_const _ _ _ _ _ _ _ (Or.inr hex)
    intro w hw hk'
    rw [hsame w hw hk']; rfl
  · rw [errTable_get _ hs]
    congr 1
    apply lastW_const _ _ _ _ _ _ _ (Or.inr hex)
    intro w hw hk'
    rw [hsame w hw hk']; rfl

/-- a slot of the witness table that is empty is never written by the triple loop -/
theorem no_write (s : Nat) (h : lookupT buildT s = 0) : ∀ w ∈ writes, w.1 ≠ s := by
  intro w hw hk
  obtain ⟨i, j, k, hi, hj, hk', rfl⟩ := (mem_writes w).1 hw
  rw [writeOf_key] at hk
  have := lookup_all i j k hi hj hk'
  rw [hk, h] at this
  exact pat_ne_zero i j k this.symm

theorem tables_zero : corTable[0]? = some 0 ∧ errTable[0]? = some 0 := by
  have hn := no_write 0 lookup_zero
  constructor
  · rw [corTable_get 0 (by decide), lastW_none _ _ _ _ _ hn, corTable0_zero]
  · rw [errTable_get 0 (by decide), lastW_none _ _ _ _ _ hn, errTable0_zero]

/-- the ErrorTable keeps its initial 4 at the syndrome of every weight-4 pattern -/
theorem tables_w4 (a b c d : Nat) (ha : a < 24) (hb : b < a) (hc : c < b) (hd : d < c) :
    errTable[synF (pat4 a b c d)]? = some 4 := by
  obtain ⟨hne, hl⟩ := weight4_all a ha b hb c hc d hd
  have hs := synF_lt (pat4 a b c d)
  rw [errTable_get _ hs, lastW_none _ _ _ _ _ (no_write _ hl), errTable0_nz _ hs hne]

/-! ### decoding a corrupted code word -/

theorem and_fff_of_lt (x : Nat) (h : x < 4096) : x &&& 0xfff = x := by
  rw [show (0xfff : Nat) = 2 ^ 12 - 1 from rfl, Nat.and_two_pow_sub_one_eq_mod]
  exact Nat.mod_eq_of_lt h

theorem syn_corrupt (x e : Nat) (hx : x < 4096) : synF (encodeEntry x ^^^ e) = synF e := by
  rw [synF_xor, (syn_encode_all x hx).1, Nat.zero_xor]

theorem hi_corrupt (x e : Nat) (hx : x < 4096) :
    ((encodeEntry x ^^^ e) >>> 12) &&& 0xfff = x ^^^ ((e >>> 12) &&& 0xfff) := by
  rw [Nat.shiftRight_xor_distrib, Nat.and_xor_distrib_right, (syn_encode_all x hx).2, and_fff_of_lt x hx]

theorem syndrome2_inited (v : Nat) :
    syndrome2 { inited := true } ((v >>> 12) &&& 0xfff) (v &&& 0xfff) = synF v := by
  rw [← syndrome_eq]; simp only [syndrome2, syndrome, if_true]

theorem lookup_of (T : Array Nat) (idx : Nat) (f : Nat → Nat) (c : Nat) (h : T[idx]? = some c) :
    lookup T idx f = .ok (f c) := by
  simp [lookup, h]

theorem decodeInt_of (v c : Nat) (h : corTable[synF v]? = some c) :
    decodeInt v = .ok (((v >>> 12) &&& 0xfff) ^^^ c) := by
  unfold decodeInt
  rw [syndrome2_inited]
  exact lookup_of _ _ _ _ h

theorem errors_of (v c : Nat) (h : errTable[synF v]? = some c) :
    errors { inited := true } v = .ok c := by
  unfold errors
  simp only [syndrome2_inited, if_true]
  exact lookup_of _ _ _ _ h

theorem wt_zero : wt 0 = 0 := by decide
theorem synF_zero : synF 0 = 0 := by decide

/-- all 4096 values × all error patterns of weight ≤ 3 -/
theorem decode_corrects (x e : Nat) (hx : x < 4096) (he : e < 2 ^ 24) (hw : wt e ≤ 3) :
    decodeInt (encodeEntry x ^^^ e) = .ok x ∧
    errors { inited := true } (encodeEntry x ^^^ e) = .ok (wt e) := by
  have hs := syn_corrupt x e hx
  have hh := hi_corrupt x e hx
  rcases le3_cases e he hw with rfl | ⟨i, j, k, hi, hj, hk, rfl⟩
  · rw [synF_zero] at hs
    rw [decodeInt_of _ 0 (by rw [hs]; exact tables_zero.1), errors_of _ 0 (by rw [hs]; exact tables_zero.2),
      hh, wt_zero]
    simp
  · obtain ⟨h1, h2⟩ := tables_pat i j k hi hj hk
    rw [decodeInt_of _ _ (by rw [hs]; exact h1), errors_of _ _ (by rw [hs]; exact h2), hh,
      ones_all i j k hi hj hk]
    simp [Nat.xor_assoc]

/-- all 4096 values × all error patterns of weight 4 -/
theorem errors_flags4 (x e : Nat) (hx : x < 4096) (he : e < 2 ^ 24) (hw : wt e = 4) :
    errors { inited := true } (encodeEntry x ^^^ e) = .ok 4 := by
  obtain ⟨a, b, c, d, ha, hb, hc, hd, rfl⟩ := eq4_cases e he hw
  exact errors_of _ 4 (by rw [syn_corrupt _ _ hx]; exact tables_w4 a b c d ha hb hc hd)

/-- table look-ups never leave the tables: decode of an int never raises -/
theorem decodeInt_ok (v : Nat) : ∃ r, decodeInt v = .ok r := by
  have h : synF v < corTable.size := by rw [corTable_size]; exact synF_lt v
  exact ⟨_, decodeInt_of v _ (Array.getElem?_eq_getElem h)⟩

theorem encodeEntry_lt (x : Nat) (hx : x < 4096) : encodeEntry x < 2 ^ 24 := by
  have h := (syn_encode_all x hx).2
  rw [Nat.shiftRight_eq_div_pow] at h
  have : encodeEntry x / 2 ^ 12 < 4096 := by omega
  have h2 := (Nat.div_lt_iff_lt_mul (by decide : 0 < 2 ^ 12)).1 this
  omega

/-! ### the 3-byte forms -/

theorem beBytes3 (v : Nat) : beBytes 3 v = beBytes 1 (v / 65536) ++ beBytes 2 (v % 65536) := by
  have := beBytes_add 1 2 v
  simpa using this

/-- `encode(raw, as_string=True)` is the 3-byte big-endian image of the code word -/
theorem encodeStr_eq (raw : Nat) : encodeStr raw = .ok (beBytes 3 (encode raw)) := by
  have hx : raw &&& 0xfff < 4096 := and_fff_lt raw
  have hlt := encodeEntry_lt _ hx
  have h1 : encode raw >>> 16 < 256 := by
    rw [Nat.shiftRight_eq_div_pow]; unfold encode
    exact (Nat.div_lt_iff_lt_mul (by decide)).2 (by omega)
  have h2 : encode raw &&& 0xFFFF < 65536 := Nat.and_lt_two_pow _ (by decide : (0xFFFF : Nat) < 2 ^ 16)
  simp only [encodeStr, structPack, Golay_encode_fmt0, packCodes, Code.bound, Code.size, h1, h2, if_true,
    encInt]
  rw [beBytes3, Nat.shiftRight_eq_div_pow, show (0xFFFF : Nat) = 2 ^ 16 - 1 from rfl,
    Nat.and_two_pow_sub_one_eq_mod]
  simp

/-- `decode` of a 3-byte string is `decode` of its big-endian value -/
theorem decodeBytes_eq (b : Bytes) (h : b.length = 3) : decodeBytes b = decodeInt (beNat b) := by
  match b, h with
  | [b0, b1, b2], _ =>
    simp only [decodeBytes, structUnpack, Golay_decode_fmt0, Fmt.size, codesSize, Code.size, unpackCodes,
      decInt, List.length_cons, List.length_nil]
    simp only [beNat, leNat, List.reverse_cons, List.reverse_nil, List.nil_append, List.cons_append,
      List.take, List.drop, Nat.shiftLeft_eq]
    simp only [if_true, Nat.zero_add, Nat.reduceAdd, ne_eq, not_true_eq_false, if_false]
    congr 1
    omega

theorem decodeBytes_bad (b : Bytes) (h : b.length ≠ 3) : decodeBytes b = .error .generic := by
  simp [decodeBytes, h]

end Acra.Lemmas.Golay
