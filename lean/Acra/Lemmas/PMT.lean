/-
  Helper lemmas for MPEG/PMT.py: closed form of what `MPEGPacketPMT.pack` emits.
-/
import Acra.Lemmas.MPEGTS
import Acra.Lemmas.CRCMpeg
import Acra.Model.PMT
namespace Acra.Lemmas.PMT
open Acra.Py Acra.Model.MPEGTS Acra.Model.PMT Acra.Gen.PMT Acra.Lemmas.MPEGTS

/-! ### descriptors and streams -/

def Desc_WF (d : Desc) : Prop := ∃ t, d.tag = some t ∧ t < 256 ∧ d.data.length < 256

def Desc_tag (d : Desc) : Nat := d.tag.getD 0

def Desc_bytes (d : Desc) : Bytes := encInt true 1 (Desc_tag d) ++ (encInt true 1 d.data.length ++ d.data)

theorem Desc_bytes_length (d : Desc) : (Desc_bytes d).length = 2 + d.data.length := by
  simp [Desc_bytes]; omega

theorem Desc_pack_eq (d : Desc) (h : Desc_WF d) : Desc.pack d = .ok (Desc_bytes d) := by
  obtain ⟨t, ht, h1, h2⟩ := h
  have hf : Fits DescriptorTag_FMT.codes [t, d.data.length] := by simp [Fits, DescriptorTag_FMT, Code.bound]; omega
  simp only [Desc.pack, ht]
  rw [structPack_eq _ _ hf]
  simp [Desc_bytes, Desc_tag, ht, encCodes, DescriptorTag_FMT, Code.size]

theorem Desc_len_eq (d : Desc) (h : Desc_WF d) : Desc.len d = (Desc_bytes d).length := by
  obtain ⟨t, ht, _, _⟩ := h
  simp [Desc.len, ht, Desc_bytes_length]

theorem packDescs_eq (ds : List Desc) (h : ∀ d ∈ ds, Desc_WF d) : packDescs ds = .ok (ds.flatMap Desc_bytes) := by
  induction ds with
  | nil => rfl
  | cons d ds ih =>
    simp only [packDescs, Desc_pack_eq d (h d (by simp)), ih (fun x hx => h x (by simp [hx])), List.flatMap_cons]

theorem descLen_sum (ds : List Desc) (h : ∀ d ∈ ds, Desc_WF d) :
    (ds.map Desc.len).sum = (ds.flatMap Desc_bytes).length := by
  induction ds with
  | nil => rfl
  | cons d ds ih =>
    simp only [List.map_cons, List.sum_cons, List.flatMap_cons, List.length_append,
      Desc_len_eq d (h d (by simp)), ih (fun x hx => h x (by simp [hx]))]

def Stream_WF (s : Stream) : Prop :=
  s.streamtype < 256 ∧ s.elementary_pid < 8192 ∧ s.elementary_stream_descriptors.length < 4096

def Stream_bytes (s : Stream) : Bytes :=
  encInt true 1 s.streamtype ++ (encInt true 2 (s.elementary_pid + 0xE000) ++
    (encInt true 2 (s.elementary_stream_descriptors.length + 0xF000) ++ s.elementary_stream_descriptors))

theorem Stream_bytes_length (s : Stream) : (Stream_bytes s).length = 5 + s.elementary_stream_descriptors.length := by
  simp [Stream_bytes]; omega

theorem Stream_pack_eq (s : Stream) (h : Stream_WF s) : Stream.pack s = .ok (Stream_bytes s) := by
  obtain ⟨h1, h2, h3⟩ := h
  have hf : Fits PMTStream_FMT.codes [s.streamtype, s.elementary_pid + 0xE000, s.elementary_stream_descriptors.length + 0xF000] := by
    simp [Fits, PMTStream_FMT, Code.bound]; omega
  simp only [Stream.pack]
  rw [structPack_eq _ _ hf]
  simp [Stream_bytes, encCodes, PMTStream_FMT, Code.size]

theorem packStreams_eq (ss : List Stream) (h : ∀ s ∈ ss, Stream_WF s) : packStreams ss = .ok (ss.flatMap Stream_bytes) := by
  induction ss with
  | nil => rfl
  | cons d ds ih =>
    simp only [packStreams, Stream_pack_eq d (h d (by simp)), ih (fun x hx => h x (by simp [hx])), List.flatMap_cons]

theorem streamLen_sum (ss : List Stream) : (ss.map Stream.len).sum = (ss.flatMap Stream_bytes).length := by
  induction ss with
  | nil => rfl
  | cons d ds ih =>
    simp only [List.map_cons, List.sum_cons, List.flatMap_cons, List.length_append, ih, Stream.len,
      Stream_bytes_length, PMTStream_FMT, Fmt.size, codesSize, Code.size]

/-! ### the section -/

def PMT_dbytes (s : PMT) : Bytes := s.descriptor_tags.flatMap Desc_bytes
def PMT_sbytes (s : PMT) : Bytes := s.streams.flatMap Stream_bytes

/-- section_length: bytes after the length field, including the CRC -/
def PMT_slen (s : PMT) : Nat := 13 + (PMT_sbytes s).length + (PMT_dbytes s).length

def PMT_hdr (s : PMT) : Bytes :=
  encInt true 1 s.tableid ++ (encInt true 2 (s.syntax_indicator * 32768 + 3 * 4096 + PMT_slen s) ++
  (encInt true 2 s.program_number ++ (encInt true 1 (3 * 64 + s.version * 2 + s.current_next_indicator) ++
  (encInt true 1 s.sectionNo ++ (encInt true 1 s.last_section ++ (encInt true 2 (7 * 8192 + s.pcr_pid) ++
   encInt true 2 (15 * 4096 + (PMT_dbytes s).length)))))))

/-- the section without its CRC -/
def PMT_body (s : PMT) : Bytes := PMT_hdr s ++ (PMT_dbytes s ++ PMT_sbytes s)

/-- the TS payload `MPEGPacketPMT.pack` builds: pointer field, section, CRC -/
def PMT_payload (s : PMT) : Bytes := encInt true 1 0 ++ (PMT_body s ++ encInt true 4 (crc32mpeg2 (PMT_body s)))

def PMT_pkt (s : PMT) : Pkt := { s.pkt with payload := PMT_payload s }

def PMT_WF (s : PMT) : Prop :=
  Pkt_WF s.pkt ∧ s.tableid < 256 ∧ s.syntax_indicator < 2 ∧ s.program_number < 65536 ∧ s.version < 32 ∧
  s.current_next_indicator < 2 ∧ s.sectionNo < 256 ∧ s.last_section < 256 ∧ s.pcr_pid < 8192 ∧
  (∀ d ∈ s.descriptor_tags, Desc_WF d) ∧ (∀ x ∈ s.streams, Stream_WF x) ∧ PMT_slen s < 4096

theorem PMT_pack_eq (s : PMT) (h : PMT_WF s) :
    PMT.pack s = ({ s with program_info_len := (PMT_dbytes s).length, pkt := Pkt_packed (PMT_pkt s) },
                  .ok (Pkt_bytes (PMT_pkt s))) := by
  obtain ⟨hw, h1, h2, h3, h4, h5, h6, h7, h8, hd, hs, hl⟩ := h
  have hwp : Pkt_WF (PMT_pkt s) := hw
  have hp := pack_u8 PMT_FMT_POINTER rfl 0 (by omega)
  have hdl := descLen_sum s.descriptor_tags hd
  have hsl := streamLen_sum s.streams
  have hlen : PMT_FMT.size - PMT_HDR_LEN_NOT_INCL_IN_LEN + PMT_CRC_LEN + (s.streams.map Stream.len).sum +
      (s.descriptor_tags.flatMap Desc_bytes).length = PMT_slen s := by
    rw [hsl]; simp only [PMT_slen, PMT_dbytes, PMT_sbytes, PMT_FMT, Fmt.size, codesSize, Code.size,
      PMT_HDR_LEN_NOT_INCL_IN_LEN, PMT_CRC_LEN]
  have hdl2 : (PMT_dbytes s).length < 4096 := by unfold PMT_slen at hl; omega
  unfold PMT.pack
  simp only [hp, hdl]
  simp only [hlen]
  have hf : Fits PMT_FMT.codes [s.tableid, s.syntax_indicator * 32768 + 3 * 4096 + PMT_slen s, s.program_number,
      3 * 64 + s.version * 2 + s.current_next_indicator, s.sectionNo, s.last_section, 7 * 8192 + s.pcr_pid,
      15 * 4096 + (s.descriptor_tags.flatMap Desc_bytes).length] := by
    have : (s.descriptor_tags.flatMap Desc_bytes).length < 4096 := hdl2
    simp only [Fits, PMT_FMT, Code.bound, and_true]
    omega
  have hcrc : ∀ b, crc32mpeg2 b < 4294967296 := fun b => by unfold crc32mpeg2; omega
  have hfc : ∀ b, Fits PMT_pack_fmt0.codes [crc32mpeg2 b] := fun b => by
    simp only [Fits, PMT_pack_fmt0, Code.bound, and_true]; exact hcrc b
  simp only [structPack_eq _ _ hf, packDescs_eq _ hd, packStreams_eq _ hs, structPack_eq _ _ (hfc _)]
  have hpay : encInt true 1 0 ++ (encCodes PMT_FMT.big PMT_FMT.codes [s.tableid, s.syntax_indicator * 32768 + 3 * 4096 + PMT_slen s,
      s.program_number, 3 * 64 + s.version * 2 + s.current_next_indicator, s.sectionNo, s.last_section, 7 * 8192 + s.pcr_pid,
      15 * 4096 + (s.descriptor_tags.flatMap Desc_bytes).length] ++ s.descriptor_tags.flatMap Desc_bytes ++
      s.streams.flatMap Stream_bytes) ++ encCodes PMT_pack_fmt0.big PMT_pack_fmt0.codes
        [crc32mpeg2 (encCodes PMT_FMT.big PMT_FMT.codes [s.tableid, s.syntax_indicator * 32768 + 3 * 4096 + PMT_slen s,
      s.program_number, 3 * 64 + s.version * 2 + s.current_next_indicator, s.sectionNo, s.last_section, 7 * 8192 + s.pcr_pid,
      15 * 4096 + (s.descriptor_tags.flatMap Desc_bytes).length] ++ s.descriptor_tags.flatMap Desc_bytes ++
      s.streams.flatMap Stream_bytes)] = PMT_payload s := by
    simp [PMT_payload, PMT_body, PMT_hdr, PMT_dbytes, PMT_sbytes, encCodes, PMT_FMT, PMT_pack_fmt0, Code.size,
      List.append_assoc]
  rw [hpay]
  show ({ s with program_info_len := _, pkt := (Pkt.pack (PMT_pkt s)).1 }, (Pkt.pack (PMT_pkt s)).2) = _
  rw [Pkt_pack_eq' _ false hwp]
  rfl

theorem Desc_unpack_bytes (d : Desc) (rest : Bytes) (h : Desc_WF d) :
    Desc.unpack (Desc_bytes d ++ rest) = .ok (d, rest) := by
  obtain ⟨t, ht, h1, h2⟩ := h
  have hf : Fits DescriptorTag_FMT.codes [t, d.data.length] := by simp [Fits, DescriptorTag_FMT, Code.bound]; omega
  have h0 : structUnpackFrom DescriptorTag_FMT (Desc_bytes d ++ rest) 0 = .ok [t, d.data.length] := by
    have := structUnpackFrom_enc0 DescriptorTag_FMT [t, d.data.length] (d.data ++ rest) hf
    simpa [encCodes, DescriptorTag_FMT, Code.size, Desc_bytes, Desc_tag, ht, List.append_assoc] using this
  simp only [Desc.unpack, h0]
  have hsz : DescriptorTag_FMT.size = 2 := rfl
  have hsl : slice (Desc_bytes d ++ rest) 2 (2 + d.data.length) = d.data := by
    unfold Desc_bytes
    rw [List.append_assoc, List.append_assoc, ← List.append_assoc (encInt true 1 (Desc_tag d))]
    exact slice_mid _ _ _ _ _ (by simp) (by simp)
  have hdr : List.drop (2 + d.data.length) (Desc_bytes d ++ rest) = rest :=
    drop_append_len _ _ _ (by simp [Desc_bytes_length])
  simp only [hsz, hsl, hdr]
  cases d; simp_all

theorem decDescs_flatMap (ds : List Desc) (h : ∀ d ∈ ds, Desc_WF d) (fuel : Nat)
    (hf : ds.length < fuel) : decDescs fuel (ds.flatMap Desc_bytes) = .ok ds := by
  induction ds generalizing fuel with
  | nil =>
    cases fuel with
    | zero => omega
    | succ f => simp [decDescs]
  | cons d ds ih =>
    cases fuel with
    | zero => omega
    | succ f =>
      have hpos : 0 < (List.flatMap Desc_bytes (d :: ds)).length := by
        simp [List.flatMap_cons, Desc_bytes_length]; omega
      unfold decDescs
      rw [if_pos hpos, List.flatMap_cons, Desc_unpack_bytes d _ (h d (by simp))]
      simp only
      rw [ih (fun x hx => h x (by simp [hx])) f (by simp at hf; omega)]

theorem Stream_unpack_bytes (x : Stream) (rest : Bytes) (h : Stream_WF x) :
    Stream.unpack (Stream_bytes x ++ rest) = .ok (x, rest) := by
  obtain ⟨h1, h2, h3⟩ := h
  have hf : Fits PMTStream_FMT.codes [x.streamtype, x.elementary_pid + 0xE000, x.elementary_stream_descriptors.length + 0xF000] := by
    simp [Fits, PMTStream_FMT, Code.bound]; omega
  have h0 : structUnpackFrom PMTStream_FMT (Stream_bytes x ++ rest) 0 =
      .ok [x.streamtype, x.elementary_pid + 0xE000, x.elementary_stream_descriptors.length + 0xF000] := by
    have := structUnpackFrom_enc0 PMTStream_FMT [x.streamtype, x.elementary_pid + 0xE000, x.elementary_stream_descriptors.length + 0xF000]
      (x.elementary_stream_descriptors ++ rest) hf
    simpa [encCodes, PMTStream_FMT, Code.size, Stream_bytes, List.append_assoc] using this
  simp only [Stream.unpack, h0]
  have hsz : PMTStream_FMT.size = 5 := rfl
  have e1 : (x.elementary_pid + 57344) % 8192 = x.elementary_pid := by omega
  have e2 : (x.elementary_stream_descriptors.length + 61440) % 4096 = x.elementary_stream_descriptors.length := by omega
  have hsl : slice (Stream_bytes x ++ rest) 5 (5 + x.elementary_stream_descriptors.length) = x.elementary_stream_descriptors := by
    unfold Stream_bytes
    rw [List.append_assoc, List.append_assoc, List.append_assoc,
      ← List.append_assoc (encInt true 2 (x.elementary_pid + 57344)),
      ← List.append_assoc (encInt true 1 x.streamtype)]
    exact slice_mid _ _ _ _ _ (by simp) (by simp)
  have hdr : List.drop (x.elementary_stream_descriptors.length + 5) (Stream_bytes x ++ rest) = rest :=
    drop_append_len _ _ _ (by simp [Stream_bytes_length]; omega)
  simp only [hsz, e1, e2, hsl, hdr]

theorem decStreams_flatMap (ss : List Stream) (h : ∀ x ∈ ss, Stream_WF x) (tail : Bytes) (ht : tail.length = 4)
    (fuel : Nat) (hf : ss.length < fuel) :
    decStreams fuel (ss.flatMap Stream_bytes ++ tail) = .ok (ss, tail) := by
  induction ss generalizing fuel with
  | nil =>
    cases fuel with
    | zero => omega
    | succ f => simp [decStreams, PMT_CRC_LEN, ht]
  | cons x xs ih =>
    cases fuel with
    | zero => omega
    | succ f =>
      have hpos : PMT_CRC_LEN < (List.flatMap Stream_bytes (x :: xs) ++ tail).length := by
        simp [List.flatMap_cons, Stream_bytes_length, PMT_CRC_LEN, ht]; omega
      unfold decStreams
      rw [if_pos hpos, List.flatMap_cons, List.append_assoc, Stream_unpack_bytes x _ (h x (by simp))]
      simp only
      rw [ih (fun y hy => h y (by simp [hy])) f (by simp at hf; omega)]

def PMT_crc4 (s : PMT) : Bytes := encInt true 4 (crc32mpeg2 (PMT_body s))

/-- what decoding the packed bytes gives: every field as encoded, `program_info_len` as `pack`
    recomputed it, `_crc` the stored CRC -/
def PMT_decoded (s : PMT) : PMT :=
  { s with pkt := Pkt_decoded (PMT_pkt s), program_info_len := (PMT_dbytes s).length,
           crc := some (crc32mpeg2 (PMT_body s)) }

theorem PMT_hdr_length (s : PMT) : (PMT_hdr s).length = 12 := by simp [PMT_hdr]
theorem PMT_body_length (s : PMT) : (PMT_body s).length + 1 = PMT_slen s := by
  simp [PMT_body, PMT_hdr_length, PMT_slen]; omega

theorem dbytes_zero (s : PMT) (h : (PMT_dbytes s).length = 0) : s.descriptor_tags = [] := by
  unfold PMT_dbytes at h
  cases hd : s.descriptor_tags with
  | nil => rfl
  | cons d ds => rw [hd] at h; simp [List.flatMap_cons, Desc_bytes_length] at h

theorem flatMap_desc_len (ds : List Desc) : ds.length ≤ (ds.flatMap Desc_bytes).length := by
  induction ds with
  | nil => simp
  | cons d ds ih => simp only [List.flatMap_cons, List.length_cons, List.length_append, Desc_bytes_length]; omega

theorem flatMap_stream_len (ss : List Stream) : ss.length ≤ (ss.flatMap Stream_bytes).length := by
  induction ss with
  | nil => simp
  | cons d ds ih => simp only [List.flatMap_cons, List.length_cons, List.length_append, Stream_bytes_length]; omega

theorem PMT_unpack_bytes (s t : PMT) (h : PMT_WF s) (hs : s.pkt.sync = 0x47)
    (hafc : s.pkt.adaption_ctrl = 1 ∨ s.pkt.adaption_ctrl = 3) :
    PMT.unpack t (Pkt_bytes (PMT_pkt s)) = (PMT_decoded s, .ok true) := by
  obtain ⟨hw, h1, h2, h3, h4, h5, h6, h7, h8, hd, hss, hl⟩ := h
  have hwp : Pkt_WF (PMT_pkt s) := hw
  have h2af : (PMT_pkt s).adaption_ctrl = 2 → (PMT_pkt s).adaption_field.isSome = true := by
    intro c; have : s.pkt.adaption_ctrl = 2 := c; omega
  have hafc' : (PMT_pkt s).adaption_ctrl = 1 ∨ (PMT_pkt s).adaption_ctrl = 3 := hafc
  have hpl : (Pkt_decoded (PMT_pkt s)).payload =
      encInt true 1 0 ++ (PMT_hdr s ++ (PMT_dbytes s ++ (PMT_sbytes s ++ (PMT_crc4 s ++ Pkt_stuffing (PMT_pkt s))))) := by
    have e : (Pkt_decoded (PMT_pkt s)).payload = (PMT_pkt s).payload ++ Pkt_stuffing (PMT_pkt s) := by
      simp only [Pkt_decoded, if_pos hafc']
    rw [e]; simp [PMT_pkt, PMT_payload, PMT_body, PMT_crc4, List.append_assoc]
  have hdl2 : (PMT_dbytes s).length < 4096 := by unfold PMT_slen at hl; omega
  have hbl := PMT_body_length s
  have hhl := PMT_hdr_length s
  unfold PMT.unpack
  rw [Pkt_unpack_bytes (PMT_pkt s) t.pkt hwp hs h2af]
  simp only [hpl]
  generalize hT : PMT_crc4 s ++ Pkt_stuffing (PMT_pkt s) = T
  -- pointer field
  have hptr : structUnpackFrom PMT_FMT_POINTER (encInt true 1 0 ++ (PMT_hdr s ++ (PMT_dbytes s ++ (PMT_sbytes s ++ T)))) 0
      = .ok [0] := read_u8 _ rfl [] _ 0 (by omega) 0 rfl
  -- fixed part of the section
  have hf : Fits PMT_FMT.codes [s.tableid, s.syntax_indicator * 32768 + 3 * 4096 + PMT_slen s, s.program_number,
      3 * 64 + s.version * 2 + s.current_next_indicator, s.sectionNo, s.last_section, 7 * 8192 + s.pcr_pid,
      15 * 4096 + (PMT_dbytes s).length] := by
    simp only [Fits, PMT_FMT, Code.bound, and_true]; omega
  have hfx : structUnpackFrom PMT_FMT (encInt true 1 0 ++ (PMT_hdr s ++ (PMT_dbytes s ++ (PMT_sbytes s ++ T)))) (PMT_FMT_POINTER.size + 0)
      = .ok [s.tableid, s.syntax_indicator * 32768 + 3 * 4096 + PMT_slen s, s.program_number,
        3 * 64 + s.version * 2 + s.current_next_indicator, s.sectionNo, s.last_section, 7 * 8192 + s.pcr_pid,
        15 * 4096 + (PMT_dbytes s).length] := by
    have := structUnpackFrom_enc PMT_FMT _ (encInt true 1 0) (PMT_dbytes s ++ (PMT_sbytes s ++ T)) hf
      (PMT_FMT_POINTER.size + 0) (by simp [PMT_FMT_POINTER, Fmt.size, codesSize, Code.size])
    simpa [encCodes, PMT_FMT, Code.size, PMT_hdr, List.append_assoc] using this
  simp only [hptr, hfx]
  -- field arithmetic
  have a1 : (s.syntax_indicator * 32768 + 3 * 4096 + PMT_slen s) % 4096 = PMT_slen s := by omega
  have a2 : (s.syntax_indicator * 32768 + 3 * 4096 + PMT_slen s) / 32768 = s.syntax_indicator := by omega
  have a3 : (3 * 64 + s.version * 2 + s.current_next_indicator) / 2 % 32 = s.version := by omega
  have a4 : (3 * 64 + s.version * 2 + s.current_next_indicator) % 2 = s.current_next_indicator := by omega
  have a5 : (7 * 8192 + s.pcr_pid) % 8192 = s.pcr_pid := by omega
  have a6 : (15 * 4096 + (PMT_dbytes s).length) % 4096 = (PMT_dbytes s).length := by omega
  simp only [a1, a2, a3, a4, a5, a6]
  have hsz1 : PMT_FMT.size + PMT_FMT_POINTER.size + 0 = 13 := rfl
  simp only [hsz1]
  subst hT
  have hc4 : (PMT_crc4 s).length = 4 := by simp [PMT_crc4]
  have hsbl : (PMT_sbytes s).length + (PMT_dbytes s).length + 13 = PMT_slen s := by unfold PMT_slen; omega
  -- descriptor loop
  have hdsl : slice (encInt true 1 0 ++ (PMT_hdr s ++ (PMT_dbytes s ++ (PMT_sbytes s ++ (PMT_crc4 s ++ Pkt_stuffing (PMT_pkt s))))))
      13 (13 + (PMT_dbytes s).length) = PMT_dbytes s := by
    rw [← List.append_assoc (encInt true 1 0)]
    exact slice_mid _ _ _ _ _ (by simp [hhl]) (by simp [hhl])
  have hdescs : (if 0 < (PMT_dbytes s).length then decDescs ((PMT_dbytes s).length + 1) (PMT_dbytes s) else .ok [])
      = .ok s.descriptor_tags := by
    by_cases hz : 0 < (PMT_dbytes s).length
    · rw [if_pos hz]
      exact decDescs_flatMap _ hd _ (by have := flatMap_desc_len s.descriptor_tags; unfold PMT_dbytes; omega)
    · rw [if_neg hz, dbytes_zero s (by omega)]
  -- end of the section
  have hE : PMT_slen s + PMT_HDR_LEN_NOT_INCL_IN_LEN + (13 + (PMT_dbytes s).length) - PMT_FMT.size - (PMT_dbytes s).length
      = PMT_slen s + 4 := by
    simp only [PMT_HDR_LEN_NOT_INCL_IN_LEN, PMT_FMT, Fmt.size, codesSize, Code.size]; omega
  have hcrcbuf : slice (encInt true 1 0 ++ (PMT_hdr s ++ (PMT_dbytes s ++ (PMT_sbytes s ++ (PMT_crc4 s ++ Pkt_stuffing (PMT_pkt s))))))
      (0 + PMT_FMT_POINTER.size) (PMT_slen s + 4 - PMT_CRC_LEN) = PMT_body s := by
    have : encInt true 1 0 ++ (PMT_hdr s ++ (PMT_dbytes s ++ (PMT_sbytes s ++ (PMT_crc4 s ++ Pkt_stuffing (PMT_pkt s))))) =
        encInt true 1 0 ++ (PMT_body s ++ (PMT_crc4 s ++ Pkt_stuffing (PMT_pkt s))) := by
      simp [PMT_body, List.append_assoc]
    rw [this]
    exact slice_mid _ _ _ _ _ (by simp [PMT_FMT_POINTER, Fmt.size, codesSize, Code.size])
      (by simp [PMT_CRC_LEN]; omega)
  have hsbuf : slice (encInt true 1 0 ++ (PMT_hdr s ++ (PMT_dbytes s ++ (PMT_sbytes s ++ (PMT_crc4 s ++ Pkt_stuffing (PMT_pkt s))))))
      (13 + (PMT_dbytes s).length) (PMT_slen s + 4) = PMT_sbytes s ++ PMT_crc4 s := by
    have : encInt true 1 0 ++ (PMT_hdr s ++ (PMT_dbytes s ++ (PMT_sbytes s ++ (PMT_crc4 s ++ Pkt_stuffing (PMT_pkt s))))) =
        (encInt true 1 0 ++ PMT_hdr s ++ PMT_dbytes s) ++ ((PMT_sbytes s ++ PMT_crc4 s) ++ Pkt_stuffing (PMT_pkt s)) := by
      simp [List.append_assoc]
    rw [this]
    exact slice_mid _ _ _ _ _ (by simp [hhl]; omega) (by simp [hhl, hc4]; omega)
  have hstreams : decStreams ((PMT_sbytes s ++ PMT_crc4 s).length + 1) (PMT_sbytes s ++ PMT_crc4 s)
      = .ok (s.streams, PMT_crc4 s) :=
    decStreams_flatMap _ hss _ hc4 _ (by have := flatMap_stream_len s.streams; simp only [PMT_sbytes, List.length_append]; omega)
  have hcrcfit : Fits PMT_unpack_fmt0.codes [crc32mpeg2 (PMT_body s)] := by
    have : crc32mpeg2 (PMT_body s) < 4294967296 := by unfold crc32mpeg2; omega
    simp only [Fits, PMT_unpack_fmt0, Code.bound, and_true]; exact this
  have hcrc : structUnpack PMT_unpack_fmt0 (PMT_crc4 s) = .ok [crc32mpeg2 (PMT_body s)] := by
    have := structUnpack_enc PMT_unpack_fmt0 [crc32mpeg2 (PMT_body s)] hcrcfit
    simpa [encCodes, PMT_unpack_fmt0, Code.size, PMT_crc4] using this
  have hne : ¬ (PMT_body s).length = 0 := by omega
  simp only [hdsl, hdescs, hE, hcrcbuf, hne, if_false, hsbuf, hstreams, hcrc]
  simp [PMT_decoded]

/-- re-encoding the decoded packet reproduces the bytes (the payload is rebuilt from the fields) -/
theorem PMT_decoded_pack (s : PMT) (h : PMT_WF s) (hf : Pkt_used (PMT_pkt s) ≤ 188) :
    PMT_WF (PMT_decoded s) ∧ Pkt_bytes (PMT_pkt (PMT_decoded s)) = Pkt_bytes (PMT_pkt s) := by
  have hwd := (Pkt_decoded_bytes (PMT_pkt s) h.1 hf).1
  have haf := Pkt_af_decoded (PMT_pkt s) h.1
  obtain ⟨hw, h1, h2, h3, h4, h5, h6, h7, h8, hd, hss, hl⟩ := h
  have hpay : PMT_payload (PMT_decoded s) = PMT_payload s := rfl
  constructor
  · exact ⟨hwd, h1, h2, h3, h4, h5, h6, h7, h8, hd, hss, hl⟩
  · have e1 : Pkt_hdr (PMT_pkt (PMT_decoded s)) = Pkt_hdr (PMT_pkt s) := rfl
    have e2 : Pkt_af (PMT_pkt (PMT_decoded s)) = Pkt_af (Pkt_decoded (PMT_pkt s)) := rfl
    have e3 : (PMT_pkt (PMT_decoded s)).payload = (PMT_pkt s).payload := rfl
    unfold Pkt_bytes Pkt_used
    rw [e1, e2, e3, haf]

end Acra.Lemmas.PMT
