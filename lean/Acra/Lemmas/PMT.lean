/-
  Helper lemmas for MPEG/PMT.py: closed form of what `MPEGPacketPMT.pack` emits.
-/
import Acra.Lemmas.MPEGTS
import Acra.Lemmas.CRCMpeg
import Acra.Model.PMT
namespace Acra.Lemmas.PMT
open Acra.Py Acra.Model.MPEGTS Acra.Model.PMT Acra.Gen.PMT Acra.Lemmas.MPEGTS

/-! ### descriptors and streams -/

def Desc_WF (d : Desc) : Prop := ∃ t, d.tag = some t ∧ t < 256 ∧ d.data.length < 256

def Desc_tag (d : Desc) : Nat := d.tag.getD 0

def Desc_bytes (d : Desc) : Bytes := encInt true 1 (Desc_tag d) ++ (encInt true 1 d.data.length ++ d.data)

theorem Desc_bytes_length (d : Desc) : (Desc_bytes d).length = 2 + d.data.length := by
  simp [Desc_bytes]; omega

theorem Desc_pack_eq (d : Desc) (h : Desc_WF d) : Desc.pack d = .ok (Desc_bytes d) := by
  obtain ⟨t, ht, h1, h2⟩ := h
  have hf : Fits DescriptorTag_FMT.codes [t, d.data.length] := by simp [Fits, DescriptorTag_FMT, Code.bound]; omega
  simp only [Desc.pack, ht]
  rw [structPack_eq _ _ hf]
  simp [Desc_bytes, Desc_tag, ht, encCodes, DescriptorTag_FMT, Code.size]

theorem Desc_len_eq (d : Desc) (h : Desc_WF d) : Desc.len d = (Desc_bytes d).length := by
  obtain ⟨t, ht, _, _⟩ := h
  simp [Desc.len, ht, Desc_bytes_length]

theorem packDescs_eq (ds : List Desc) (h : ∀ d ∈ ds, Desc_WF d) : packDescs ds = .ok (ds.flatMap Desc_bytes) := by
  induction ds with
  | nil => rfl
  | cons d ds ih =>
    simp only [packDescs, Desc_pack_eq d (h d (by simp)), ih (fun x hx => h x (by simp [hx])), List.flatMap_cons]

theorem descLen_sum (ds : List Desc) (h : ∀ d ∈ ds, Desc_WF d) :
    (ds.map Desc.len).sum = (ds.flatMap Desc_bytes).length := by
  induction ds with
  | nil => rfl
  | cons d ds ih =>
    simp only [List.map_cons, List.sum_cons, List.flatMap_cons, List.length_append,
      Desc_len_eq d (h d (by simp)), ih (fun x hx => h x (by simp [hx]))]

def Stream_WF (s : Stream) : Prop :=
  s.streamtype < 256 ∧ s.elementary_pid < 8192 ∧ s.elementary_stream_descriptors.length < 4096

def Stream_bytes (s : Stream) : Bytes :=
  encInt true 1 s.streamtype ++ (encInt true 2 (s.elementary_pid + 0xE000) ++
    (encInt true 2 (s.elementary_stream_descriptors.length + 0xF000) ++ s.elementary_stream_descriptors))

theorem Stream_bytes_length (s : Stream) : (Stream_bytes s).length = 5 + s.elementary_stream_descriptors.length := by
  simp [Stream_bytes]; omega

theorem Stream_pack_eq (s : Stream) (h : Stream_WF s) : Stream.pack s = .ok (Stream_bytes s) := by
  obtain ⟨h1, h2, h3⟩ := h
  have hf : Fits PMTStream_FMT.codes [s.streamtype, s.elementary_pid + 0xE000, s.elementary_stream_descriptors.length + 0xF000] := by
    simp [Fits, PMTStream_FMT, Code.bound]; omega
  simp only [Stream.pack]
  rw [structPack_eq _ _ hf]
  simp [Stream_bytes, encCodes, PMTStream_FMT, Code.size]

theorem packStreams_eq (ss : List Stream) (h : ∀ s ∈ ss, Stream_WF s) : packStreams ss = .ok (ss.flatMap Stream_bytes) := by
  induction ss with
  | nil => rfl
  | cons d ds ih =>
    simp only [packStreams, Stream_pack_eq d (h d (by simp)), ih (fun x hx => h x (by simp [hx])), List.flatMap_cons]

theorem streamLen_sum (ss : List Stream) : (ss.map Stream.len).sum = (ss.flatMap Stream_bytes).length := by
  induction ss with
  | nil => rfl
  | cons d ds ih =>
    simp only [List.map_cons, List.sum_cons, List.flatMap_cons, List.length_append, ih, Stream.len,
      Stream_bytes_length, PMTStream_FMT, Fmt.size, codesSize, Code.size]

/-! ### the section -/

def PMT_dbytes (s : PMT) : Bytes := s.descriptor_tags.flatMap Desc_bytes
def PMT_sbytes (s : PMT) : Bytes := s.streams.flatMap Stream_bytes

/-- section_length: bytes after the length field, including the CRC -/
def PMT_slen (s : PMT) : Nat := 13 + (PMT_sbytes s).length + (PMT_dbytes s).length

def PMT_hdr (s : PMT) : Bytes :=
  encInt true 1 s.tableid ++ (encInt true 2 (s.syntax_indicator * 32768 + 3 * 4096 + PMT_slen s) ++
  (encInt true 2 s.program_number ++ (encInt true 1 (3 * 64 + s.version * 2 + s.current_next_indicator) ++
  (encInt true 1 s.sectionNo ++ (encInt true 1 s.last_section ++ (encInt true 2 (7 * 8192 + s.pcr_pid) ++
   encInt true 2 (15 * 4096 + (PMT_dbytes s).length)))))))

/-- the section without its CRC -/
def PMT_body (s : PMT) : Bytes := PMT_hdr s ++ (PMT_dbytes s ++ PMT_sbytes s)

/-- the TS payload `MPEGPacketPMT.pack` builds: pointer field, section, CRC -/
def PMT_payload (s : PMT) : Bytes := encInt true 1 0 ++ (PMT_body s ++ encInt true 4 (crc32mpeg2 (PMT_body s)))

def PMT_pkt (s : PMT) : Pkt := { s.pkt with payload := PMT_payload s }

def PMT_WF (s : PMT) : Prop :=
  Pkt_WF s.pkt ∧ s.tableid < 256 ∧ s.syntax_indicator < 2 ∧ s.program_number < 65536 ∧ s.version < 32 ∧
  s.current_next_indicator < 2 ∧ s.sectionNo < 256 ∧ s.last_section < 256 ∧ s.pcr_pid < 8192 ∧
  (∀ d ∈ s.descriptor_tags, Desc_WF d) ∧ (∀ x ∈ s.streams, Stream_WF x) ∧ PMT_slen s < 4096

theorem PMT_pack_eq (s : PMT) (h : PMT_WF s) :
    PMT.pack s = ({ s with program_info_len := (PMT_dbytes s).length, pkt := Pkt_packed (PMT_pkt s) },
                  .ok (Pkt_bytes (PMT_pkt s))) := by
  obtain ⟨hw, h1, h2, h3, h4, h5, h6, h7, h8, hd, hs, hl⟩ := h
  have hwp : Pkt_WF (PMT_pkt s) := hw
  have hp := pack_u8 PMT_FMT_POINTER rfl 0 (by omega)
  have hdl := descLen_sum s.descriptor_tags hd
  have hsl := streamLen_sum s.streams
  have hlen : PMT_FMT.size - PMT_HDR_LEN_NOT_INCL_IN_LEN + PMT_CRC_LEN + (s.streams.map Stream.len).sum +
      (s.descriptor_tags.flatMap Desc_bytes).length = PMT_slen s := by
    rw [hsl]; simp only [PMT_slen, PMT_dbytes, PMT_sbytes, PMT_FMT, Fmt.size, codesSize, Code.size,
      PMT_HDR_LEN_NOT_INCL_IN_LEN, PMT_CRC_LEN]
  have hdl2 : (PMT_dbytes s).length < 4096 := by unfold PMT_slen at hl; omega
  unfold PMT.pack
  simp only [hp, hdl]
  simp only [hlen]
  have hf : Fits PMT_FMT.codes [s.tableid, s.syntax_indicator * 32768 + 3 * 4096 + PMT_slen s, s.program_number,
      3 * 64 + s.version * 2 + s.current_next_indicator, s.sectionNo, s.last_section, 7 * 8192 + s.pcr_pid,
      15 * 4096 + (s.descriptor_tags.flatMap Desc_bytes).length] := by
    have : (s.descriptor_tags.flatMap Desc_bytes).length < 4096 := hdl2
    simp only [Fits, PMT_FMT, Code.bound, and_true]
    omega
  have hcrc : ∀ b, crc32mpeg2 b < 4294967296 := fun b => by unfold crc32mpeg2; omega
  have hfc : ∀ b, Fits PMT_pack_fmt0.codes [crc32mpeg2 b] := fun b => by
    simp only [Fits, PMT_pack_fmt0, Code.bound, and_true]; exact hcrc b
  simp only [structPack_eq _ _ hf, packDescs_eq _ hd, packStreams_eq _ hs, structPack_eq _ _ (hfc _)]
  have hpay : encInt true 1 0 ++ (encCodes PMT_FMT.big PMT_FMT.codes [s.tableid, s.syntax_indicator * 32768 + 3 * 4096 + PMT_slen s,
      s.program_number, 3 * 64 + s.version * 2 + s.current_next_indicator, s.sectionNo, s.last_section, 7 * 8192 + s.pcr_pid,
      15 * 4096 + (s.descriptor_tags.flatMap Desc_bytes).length] ++ s.descriptor_tags.flatMap Desc_bytes ++
      s.streams.flatMap Stream_bytes) ++ encCodes PMT_pack_fmt0.big PMT_pack_fmt0.codes
        [crc32mpeg2 (encCodes PMT_FMT.big PMT_FMT.codes [s.tableid, s.syntax_indicator * 32768 + 3 * 4096 + PMT_slen s,
      s.program_number, 3 * 64 + s.version * 2 + s.current_next_indicator, s.sectionNo, s.last_section, 7 * 8192 + s.pcr_pid,
      15 * 4096 + (s.descriptor_tags.flatMap Desc_bytes).length] ++ s.descriptor_tags.flatMap Desc_bytes ++
      s.streams.flatMap Stream_bytes)] = PMT_payload s := by
    simp [PMT_payload, PMT_body, PMT_hdr, PMT_dbytes, PMT_sbytes, encCodes, PMT_FMT, PMT_pack_fmt0, Code.size,
      List.append_assoc]
  rw [hpay]
  show ({ s with program_info_len := _, pkt := (Pkt.pack (PMT_pkt s)).1 }, (Pkt.pack (PMT_pkt s)).2) = _
  rw [Pkt_pack_eq' _ false hwp]
  rfl

end Acra.Lemmas.PMT
