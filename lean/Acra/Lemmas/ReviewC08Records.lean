/-
  Review helper for C08: the record loop `decOff` with an explicit stride.
  `decOff_items_le` (Py/Records) bounds the item count by one per byte; when every accepted record
  advances the offset by at least `k` bytes the count is at most ⌈(len − off)/k⌉ — stated here as
  `items * k ≤ (len − off) + (k − 1)` (the last record may run past the end: padding).
  `decOff_ok_or_dec1_error`: the loop itself raises nothing — an error of the loop is `fuel` or an
  error of one record decoder call.
-/
import Acra.Py.Records
namespace Acra.Lemmas.ReviewC08
open Acra.Py

theorem decOff_items_stride (dec1 : Bytes → R (α × Nat)) (more : Nat → Nat → Bool) (buf : Bytes)
    (hp : Progress dec1) (k : Nat) (hk : ∀ b x n, dec1 b = .ok (x, n) → k ≤ n)
    (fuel off : Nat) (xs : List α) (h : decOff dec1 more buf fuel off = .ok xs) :
    xs.length * k ≤ (buf.length - off) + (k - 1) := by
  induction fuel generalizing off xs with
  | zero => simp [decOff] at h
  | succ fuel ih =>
    unfold decOff at h
    split at h
    · cases hd : dec1 (buf.drop off) with
      | error e => simp [hd] at h
      | ok r =>
        obtain ⟨x, n⟩ := r
        simp only [hd] at h
        by_cases hoff : buf.length ≤ off
        · rw [List.drop_eq_nil_of_le hoff] at hd
          exact absurd hd (hp.empty x n)
        · have hn := hk _ _ _ hd
          cases hr : decOff dec1 more buf fuel (off + n) with
          | error e => simp [hr] at h
          | ok ys =>
            simp only [hr, Except.ok.injEq] at h
            subst h
            have := ih (off + n) ys hr
            simp only [List.length_cons, Nat.succ_mul]
            by_cases hin : off + n ≤ buf.length
            · omega
            · cases hy : ys.length with
              | zero => simp only [Nat.zero_mul]; omega
              | succ m =>
                rw [hy] at this
                simp only [Nat.add_mul, Nat.one_mul] at this ⊢
                omega
    · simp at h; subst h; simp

/-- records that never run past the end of the buffer: exactly `items * k ≤ len − off` -/
theorem decOff_items_stride_exact (dec1 : Bytes → R (α × Nat)) (more : Nat → Nat → Bool) (buf : Bytes)
    (k : Nat) (hk : ∀ b x n, dec1 b = .ok (x, n) → k ≤ n ∧ n ≤ b.length)
    (fuel off : Nat) (xs : List α) (h : decOff dec1 more buf fuel off = .ok xs) :
    xs.length * k ≤ buf.length - off := by
  induction fuel generalizing off xs with
  | zero => simp [decOff] at h
  | succ fuel ih =>
    unfold decOff at h
    split at h
    · cases hd : dec1 (buf.drop off) with
      | error e => simp [hd] at h
      | ok r =>
        obtain ⟨x, n⟩ := r
        simp only [hd] at h
        have hn := hk _ _ _ hd
        simp only [List.length_drop] at hn
        cases hr : decOff dec1 more buf fuel (off + n) with
        | error e => simp [hr] at h
        | ok ys =>
          simp only [hr, Except.ok.injEq] at h
          subst h
          have := ih (off + n) ys hr
          simp only [List.length_cons, Nat.succ_mul]
          omega
    · simp at h; subst h; simp

/-- the loop adds no exception of its own: its error is `fuel` or the error of one `dec1` call on a
    suffix of the buffer -/
theorem decOff_error_source (dec1 : Bytes → R (α × Nat)) (more : Nat → Nat → Bool) (buf : Bytes)
    (fuel off : Nat) (e : Err) (h : decOff dec1 more buf fuel off = .error e) :
    e = .fuel ∨ ∃ o, dec1 (buf.drop o) = .error e := by
  induction fuel generalizing off with
  | zero => simp [decOff] at h; exact Or.inl h.symm
  | succ fuel ih =>
    unfold decOff at h
    split at h
    · cases hd : dec1 (buf.drop off) with
      | error e' =>
        simp only [hd, Except.error.injEq] at h
        subst h
        exact Or.inr ⟨off, hd⟩
      | ok r =>
        obtain ⟨x, n⟩ := r
        simp only [hd] at h
        cases hr : decOff dec1 more buf fuel (off + n) with
        | ok ys => simp [hr] at h
        | error e' =>
          simp only [hr, Except.error.injEq] at h
          subst h
          exact ih _ hr
    · simp at h

end Acra.Lemmas.ReviewC08
