/-
  Bit operations the models use (`&`, `>>`, `<<` with literal masks and shifts) as arithmetic.
-/
namespace Acra.Lemmas.Bits

theorem and_7 (x : Nat) : x &&& 0x7 = x % 8 := Nat.and_two_pow_sub_one_eq_mod x 3
theorem and_7' (x : Nat) : x &&& 7 = x % 8 := Nat.and_two_pow_sub_one_eq_mod x 3
theorem and_F (x : Nat) : x &&& 0xF = x % 16 := Nat.and_two_pow_sub_one_eq_mod x 4
theorem and_3F (x : Nat) : x &&& 0x3F = x % 64 := Nat.and_two_pow_sub_one_eq_mod x 6
theorem and_1FF (x : Nat) : x &&& 0x1FF = x % 512 := Nat.and_two_pow_sub_one_eq_mod x 9
theorem shr_4 (x : Nat) : x >>> 4 = x / 16 := Nat.shiftRight_eq_div_pow x 4
theorem shr_7 (x : Nat) : x >>> 7 = x / 128 := Nat.shiftRight_eq_div_pow x 7
theorem shr_9 (x : Nat) : x >>> 9 = x / 512 := Nat.shiftRight_eq_div_pow x 9
theorem shr_15 (x : Nat) : x >>> 15 = x / 32768 := Nat.shiftRight_eq_div_pow x 15
theorem shl_4 (x : Nat) : x <<< 4 = x * 16 := Nat.shiftLeft_eq x 4
theorem shl_9 (x : Nat) : x <<< 9 = x * 512 := Nat.shiftLeft_eq x 9
theorem shl_15 (x : Nat) : x <<< 15 = x * 32768 := Nat.shiftLeft_eq x 15

/-- `x & 0xFFF8`: bits 15..3 of `x` -/
theorem and_FFF8 (x : Nat) : x &&& 0xFFF8 = x % 65536 / 8 * 8 := by
  have h : (0xFFF8 : Nat) = (2^13 - 1) <<< 3 := by decide
  have h2 : x % 65536 / 8 * 8 = ((x >>> 3) % 2^13) <<< 3 := by
    rw [Nat.shiftLeft_eq, Nat.shiftRight_eq_div_pow]; omega
  rw [h, h2]
  apply Nat.eq_of_testBit_eq
  intro i
  simp only [Nat.testBit_and, Nat.testBit_shiftLeft, Nat.testBit_two_pow_sub_one, Nat.testBit_mod_two_pow,
    Nat.testBit_shiftRight]
  by_cases h3 : 3 ≤ i
  · simp [h3]
    exact Bool.and_comm _ _
  · simp [h3]

end Acra.Lemmas.Bits
