/-
  What the float theorems assume about binary64 rounding, as a structure over an arbitrary rounding
  function `fl : ℚ → ℚ` on non-negative values:
    * `err`   : the result is within relative error 2^-53 of the exact value (round to nearest);
    * `exact` : natural numbers below 2^53 are representable, hence unchanged.
  Every theorem in Props that mentions floats is stated for all `fl` with these two facts.
-/
import Mathlib.Tactic.Linarith
import Mathlib.Tactic.Positivity
import Mathlib.Tactic.NormNum
import Mathlib.Algebra.Order.Floor.Defs
import Mathlib.Data.Rat.Floor
import Mathlib.Tactic.Ring
import Mathlib.Tactic.FieldSimp
import Acra.Py.Float
namespace Acra.Lemmas.Float
open Acra.Py

structure FloatSem (fl : ℚ → ℚ) : Prop where
  err : ∀ x : ℚ, 0 ≤ x → |fl x - x| ≤ x * (1 / 2 ^ 53)
  exact : ∀ n : ℕ, n < 2 ^ 53 → fl (n : ℚ) = (n : ℚ)

/-- `floorNat` is the floor for non-negative rationals -/
theorem floorNat_eq (q : ℚ) (n : ℕ) (h1 : (n : ℚ) ≤ q) (h2 : q < (n : ℚ) + 1) : Float.floorNat q = n := by
  unfold Float.floorNat
  have hfl : ⌊q⌋ = (n : ℤ) := by
    rw [Int.floor_eq_iff]
    constructor
    · exact_mod_cast h1
    · exact_mod_cast h2
  have : q.num / (q.den : ℤ) = ⌊q⌋ := Rat.floor_def'.symm
  rw [this, hfl]
  simp

open Acra.Py.Float

theorem pow2_pos (e : ℤ) : 0 < pow2 e := by
  unfold pow2
  split
  · positivity
  · positivity

theorem floorNat_cast (m : ℚ) (h : 0 ≤ m) : ((floorNat m : ℕ) : ℤ) = ⌊m⌋ := by
  unfold floorNat
  rw [← Rat.floor_def']
  exact Int.toNat_of_nonneg (Int.floor_nonneg.mpr h)

theorem floorNat_le (m : ℚ) (h : 0 ≤ m) : (floorNat m : ℚ) ≤ m := by
  have := floorNat_cast m h
  have h2 : ((floorNat m : ℕ) : ℚ) = ((⌊m⌋ : ℤ) : ℚ) := by exact_mod_cast congrArg (fun z : ℤ => (z : ℚ)) this
  rw [h2]; exact Int.floor_le m

theorem lt_floorNat_add_one (m : ℚ) (h : 0 ≤ m) : m < (floorNat m : ℚ) + 1 := by
  have := floorNat_cast m h
  have h2 : ((floorNat m : ℕ) : ℚ) = ((⌊m⌋ : ℤ) : ℚ) := by exact_mod_cast congrArg (fun z : ℤ => (z : ℚ)) this
  rw [h2]; exact Int.lt_floor_add_one m

/-- the rounded significand is within 1/2 of the exact one -/
theorem roundHalfEven_err (m : ℚ) (h : 0 ≤ m) : |(roundHalfEven m : ℚ) - m| ≤ 1 / 2 := by
  have h1 := floorNat_le m h
  have h2 := lt_floorNat_add_one m h
  unfold roundHalfEven
  simp only
  split
  · rename_i hr; rw [abs_le]; push_cast; constructor <;> linarith
  · split
    · rename_i hr1 hr; rw [abs_le]; constructor <;> linarith
    · rename_i hr1 hr2
      have hr : m - (floorNat m : ℚ) = 1 / 2 := le_antisymm (not_lt.mp hr1) (not_lt.mp hr2)
      split
      · rw [abs_le]; push_cast; constructor <;> linarith
      · rw [abs_le]; constructor <;> linarith

/-- an integer significand is left unchanged -/
theorem roundHalfEven_nat (k : ℕ) : roundHalfEven (k : ℚ) = k := by
  have hf : floorNat (k : ℚ) = k := floorNat_eq _ _ (le_refl _) (by linarith)
  unfold roundHalfEven
  simp only [hf, sub_self]
  norm_num

theorem rne_err (x : ℚ) (hx : 0 ≤ x) : |rne x - x| ≤ x * (1 / 2 ^ 53) := by
  unfold rne
  split
  · rename_i h0
    have : x = 0 := le_antisymm h0 hx
    subst this; simp
  · rename_i h0
    have hxpos : 0 < x := lt_of_not_ge h0
    simp only
    split
    · rename_i hb
      obtain ⟨hlo, hhi⟩ := hb
      set e := expOf x
      have hp := pow2_pos e
      set m := x / pow2 e with hm
      have hxm : x = m * pow2 e := by rw [hm]; field_simp
      have hm0 : 0 ≤ m := le_trans (by norm_num) hlo
      have herr := roundHalfEven_err m hm0
      have : (roundHalfEven m : ℚ) * pow2 e - x = ((roundHalfEven m : ℚ) - m) * pow2 e := by
        rw [hxm]; ring
      rw [this, abs_mul, abs_of_pos hp]
      calc |(roundHalfEven m : ℚ) - m| * pow2 e ≤ 1 / 2 * pow2 e := by
            apply mul_le_mul_of_nonneg_right herr (le_of_lt hp)
        _ ≤ x * (1 / 2 ^ 53) := by
            rw [hxm]
            have : (1:ℚ) / 2 * pow2 e = 4503599627370496 * pow2 e * (1 / 2 ^ 53) := by norm_num; ring
            rw [this]
            apply mul_le_mul_of_nonneg_right _ (by positivity)
            apply mul_le_mul_of_nonneg_right hlo (le_of_lt hp)
    · simp; positivity


theorem rne_exact (n : ℕ) (hn : n < 2 ^ 53) : rne (n : ℚ) = (n : ℚ) := by
  unfold rne
  split
  · rename_i h0
    have : (n : ℚ) = 0 := le_antisymm h0 (by positivity)
    rw [this]
  · simp only
    split
    · rename_i hb
      obtain ⟨hlo, hhi⟩ := hb
      have hp := pow2_pos (expOf (n : ℚ))
      -- the significand is a natural number
      have hk : ∃ k : ℕ, (n : ℚ) / pow2 (expOf (n : ℚ)) = (k : ℚ) := by
        unfold pow2 at hlo ⊢
        split
        · rename_i he
          set j := (expOf (n : ℚ)).toNat
          simp only [he, if_true] at hlo
          have h2j : (1 : ℚ) ≤ ((2 ^ j : ℕ) : ℚ) := by exact_mod_cast Nat.one_le_two_pow
          have hn' : (n : ℚ) < 2 ^ 53 := by exact_mod_cast hn
          have hj : j = 0 := by
            by_contra hj
            have : (2 : ℚ) ≤ ((2 ^ j : ℕ) : ℚ) := by
              have : 2 ^ 1 ≤ 2 ^ j := Nat.pow_le_pow_right (by norm_num) (Nat.one_le_iff_ne_zero.mpr hj)
              exact_mod_cast this
            have hpos : (0 : ℚ) < ((2 ^ j : ℕ) : ℚ) := by positivity
            rw [le_div_iff₀ hpos] at hlo
            nlinarith
          exact ⟨n, by rw [hj]; simp⟩
        · rename_i he
          set j := (-expOf (n : ℚ)).toNat
          exact ⟨n * 2 ^ j, by push_cast; field_simp⟩
      obtain ⟨k, hk⟩ := hk
      rw [hk, roundHalfEven_nat, ← hk]
      field_simp
    · rfl

/-- the executable rounding function of the models satisfies the two facts the float theorems use -/
theorem rne_floatSem : FloatSem rne := ⟨rne_err, rne_exact⟩


end Acra.Lemmas.Float
