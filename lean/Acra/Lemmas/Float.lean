/-
  What the float theorems assume about binary64 rounding, as a structure over an arbitrary rounding
  function `fl : ℚ → ℚ` on non-negative values:
    * `err`   : the result is within relative error 2^-53 of the exact value (round to nearest);
    * `exact` : natural numbers below 2^53 are representable, hence unchanged.
  Every theorem in Props that mentions floats is stated for all `fl` with these two facts.
-/
import Mathlib.Tactic.Linarith
import Mathlib.Tactic.Positivity
import Mathlib.Tactic.NormNum
import Mathlib.Algebra.Order.Floor.Defs
import Mathlib.Data.Rat.Floor
import Acra.Py.Float
namespace Acra.Lemmas.Float
open Acra.Py

structure FloatSem (fl : ℚ → ℚ) : Prop where
  err : ∀ x : ℚ, 0 ≤ x → |fl x - x| ≤ x * (1 / 2 ^ 53)
  exact : ∀ n : ℕ, n < 2 ^ 53 → fl (n : ℚ) = (n : ℚ)

/-- `floorNat` is the floor for non-negative rationals -/
theorem floorNat_eq (q : ℚ) (n : ℕ) (h1 : (n : ℚ) ≤ q) (h2 : q < (n : ℚ) + 1) : Float.floorNat q = n := by
  unfold Float.floorNat
  have hfl : ⌊q⌋ = (n : ℤ) := by
    rw [Int.floor_eq_iff]
    constructor
    · exact_mod_cast h1
    · exact_mod_cast h2
  have : q.num / (q.den : ℤ) = ⌊q⌋ := Rat.floor_def'.symm
  rw [this, hfl]
  simp

end Acra.Lemmas.Float
