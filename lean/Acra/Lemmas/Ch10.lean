/-
  Helper lemmas for the ch10 family (core Lean only): masks and shifts as div/mod, byte images,
  the two arithmetic checksums against their declarative definitions, the filler.
-/
import Acra.Model.Ch10UDP
import Acra.Model.Ch11
import Acra.Spec.Ch10
namespace Acra.Lemmas.Ch10
open Acra.Py

/-- results can be compared by `decide` (used for the concrete negation witnesses) -/
instance instDecEqExcept {ε α : Type} [DecidableEq ε] [DecidableEq α] : DecidableEq (Except ε α)
  | .ok a, .ok b => if h : a = b then isTrue (by rw [h]) else isFalse (by intro h'; injection h' with h'; exact h h')
  | .error a, .error b => if h : a = b then isTrue (by rw [h]) else isFalse (by intro h'; injection h' with h'; exact h h')
  | .ok _, .error _ => isFalse (by intro h; cases h)
  | .error _, .ok _ => isFalse (by intro h; cases h)

/-! ### masks and shifts -/
theorem and_3 (x : Nat) : x &&& 3 = x % 4 := Nat.and_two_pow_sub_one_eq_mod x 2
theorem and_15 (x : Nat) : x &&& 15 = x % 16 := Nat.and_two_pow_sub_one_eq_mod x 4
theorem and_255 (x : Nat) : x &&& 255 = x % 256 := Nat.and_two_pow_sub_one_eq_mod x 8
theorem and_65535 (x : Nat) : x &&& 65535 = x % 65536 := Nat.and_two_pow_sub_one_eq_mod x 16
theorem and_20 (x : Nat) : x &&& 1048575 = x % 1048576 := Nat.and_two_pow_sub_one_eq_mod x 20
theorem and_24 (x : Nat) : x &&& 16777215 = x % 16777216 := Nat.and_two_pow_sub_one_eq_mod x 24
theorem and_28 (x : Nat) : x &&& 268435455 = x % 268435456 := Nat.and_two_pow_sub_one_eq_mod x 28
theorem and_32 (x : Nat) : x &&& 4294967295 = x % 4294967296 := Nat.and_two_pow_sub_one_eq_mod x 32
theorem and_48 (x : Nat) : x &&& (2 ^ 48 - 1) = x % 281474976710656 := Nat.and_two_pow_sub_one_eq_mod x 48

theorem shr (x n : Nat) : x >>> n = x / 2 ^ n := Nat.shiftRight_eq_div_pow x n
theorem shl (x n : Nat) : x <<< n = x * 2 ^ n := Nat.shiftLeft_eq x n

/-- simp set that turns every mask / shift of the models into div / mod arithmetic -/
macro "bits_simp" : tactic =>
  `(tactic| simp only [and_3, and_15, and_255, and_65535, and_20, and_24, and_28, and_32, shr, shl,
      Nat.reducePow, Nat.reduceSub, Nat.reduceAdd, Nat.reduceMul] at *)

theorem toNat_ofNat (n : Nat) : (UInt8.ofNat n).toNat = n % 256 := by
  simp [UInt8.toNat_ofNat']

theorem ofNat_toNat (b : UInt8) : UInt8.ofNat b.toNat = b := by
  simp

/-! ### encCodes -/
theorem encCodes_append (big : Bool) (cs1 cs2 : List Code) (vs1 vs2 : List Nat)
    (h : cs1.length = vs1.length) :
    encCodes big (cs1 ++ cs2) (vs1 ++ vs2) = encCodes big cs1 vs1 ++ encCodes big cs2 vs2 := by
  induction cs1 generalizing vs1 with
  | nil =>
    cases vs1 with
    | nil => simp [encCodes]
    | cons v vs => simp at h
  | cons c cs ih =>
    cases vs1 with
    | nil => simp at h
    | cons v vs =>
      simp only [List.length_cons, Nat.add_right_cancel_iff] at h
      simp [encCodes, ih vs h]

/-! ### the filler `struct.pack(">{n}B", *[0xFF]*n)` -/
theorem packCodes_fill (n : Nat) :
    packCodes true (List.replicate n .u8) (List.replicate n 0xFF) = .ok (List.replicate n (0xFF : UInt8)) := by
  induction n with
  | zero => simp [packCodes]
  | succ n ih =>
    simp only [List.replicate_succ, packCodes, Code.bound, Code.size, ih]
    simp [encInt, beBytes, leBytes]

/-! ### checksums -/
open Acra.Model.Ch11 Acra.Gen.Ch11

theorem unpackCodes_u16_sum (n : Nat) (buf : Bytes) (h : buf.length = 2 * n) :
    sumList (unpackCodes false (List.replicate n .u16) buf) = Spec.sum16le buf := by
  induction n generalizing buf with
  | zero =>
    have : buf = [] := List.eq_nil_of_length_eq_zero (by omega)
    subst this; simp [unpackCodes, sumList, Spec.sum16le]
  | succ n ih =>
    match buf, h with
    | a :: b :: rest, h =>
      simp only [List.length_cons] at h
      simp only [List.replicate_succ, unpackCodes, Code.size, sumList, Spec.sum16le]
      have := ih rest (by omega)
      simp only [List.drop_succ_cons, List.drop_zero, this, List.take_succ_cons, List.take_zero, decInt,
        leNat]
      simp
    | [a], h => simp at h; omega
    | [], h => simp at h

theorem unpackCodes_u8_sum (n : Nat) (buf : Bytes) (h : buf.length = n) :
    sumList (unpackCodes false (List.replicate n .u8) buf) = Spec.byteSum buf := by
  induction n generalizing buf with
  | zero =>
    have : buf = [] := List.eq_nil_of_length_eq_zero (by omega)
    subst this; simp [unpackCodes, sumList, Spec.byteSum]
  | succ n ih =>
    match buf, h with
    | a :: rest, h =>
      simp only [List.length_cons] at h
      simp only [List.replicate_succ, unpackCodes, Code.size, sumList, Spec.byteSum]
      have := ih rest (by omega)
      simp only [List.drop_succ_cons, List.drop_zero, this, List.take_succ_cons, List.take_zero, decInt, leNat]
      simp
    | [], h => simp at h

theorem codesSize_replicate (c : Code) (n : Nat) : codesSize (List.replicate n c) = n * c.size := by
  induction n with
  | zero => simp [codesSize]
  | succ n ih => simp [List.replicate_succ, codesSize, ih, Nat.succ_mul, Nat.add_comm]

theorem unpackCodes_ne_nil (big : Bool) (c : Code) (n : Nat) (buf : Bytes) (h : 0 < n) :
    unpackCodes big (List.replicate n c) buf ≠ [] := by
  cases n with
  | zero => omega
  | succ n => simp [List.replicate_succ, unpackCodes]

/-- `get_checksum_buf` on a non-empty buffer of even length is the 16-bit arithmetic sum of its
    little-endian words -/
theorem getChecksumBuf_eq (buf : Bytes) (he : buf.length % 2 = 0) (hn : 0 < buf.length) :
    getChecksumBuf buf = .ok (Spec.sum16le buf % 65536) := by
  have hsz : buf.length = (cksum_buf_fmt0 (buf.length / 2)).size := by
    simp [cksum_buf_fmt0, Fmt.size, codesSize_replicate, Code.size]; omega
  have hne := unpackCodes_ne_nil false .u16 (buf.length / 2) buf (by omega)
  have hsum := unpackCodes_u16_sum (buf.length / 2) buf (by omega)
  unfold getChecksumBuf
  simp only [he, ne_eq, not_true_eq_false, if_false, structUnpack, ← hsz, if_true]
  simp only [cksum_buf_fmt0] at *
  rw [hsum]

/-- `get_checksum_byte_buf` on a non-empty buffer is the 16-bit arithmetic sum of its bytes -/
theorem getChecksumByteBuf_eq (buf : Bytes) (hn : 0 < buf.length) :
    getChecksumByteBuf buf = .ok (Spec.byteSum buf % 65536) := by
  have hsz : buf.length = (cksum_byte_buf_fmt0 buf.length).size := by
    simp [cksum_byte_buf_fmt0, Fmt.size, codesSize_replicate, Code.size]
  have hne := unpackCodes_ne_nil false .u8 buf.length buf hn
  have hsum := unpackCodes_u8_sum buf.length buf rfl
  unfold getChecksumByteBuf
  simp only [structUnpack, ← hsz, if_true]
  simp only [cksum_byte_buf_fmt0] at *
  rw [hsum]

theorem sum16le_append (a b : Bytes) (h : a.length % 2 = 0) :
    Spec.sum16le (a ++ b) = Spec.sum16le a + Spec.sum16le b := by
  induction a using List.rec with
  | nil => simp [Spec.sum16le]
  | cons x xs _ =>
    -- two at a time
    revert h
    suffices ∀ n (a : Bytes), a.length = 2 * n → Spec.sum16le (a ++ b) = Spec.sum16le a + Spec.sum16le b by
      intro h
      exact this ((x :: xs).length / 2) (x :: xs) (by omega)
    intro n
    induction n with
    | zero => intro a ha; have : a = [] := List.eq_nil_of_length_eq_zero (by omega); subst this; simp [Spec.sum16le]
    | succ n ih =>
      intro a ha
      match a, ha with
      | p :: q :: r, ha =>
        simp only [List.length_cons] at ha
        simp only [List.cons_append, Spec.sum16le, ih r (by omega)]
        omega
      | [p], ha => simp at ha; omega
      | [], ha => simp at ha

theorem byteSum_append (a b : Bytes) : Spec.byteSum (a ++ b) = Spec.byteSum a + Spec.byteSum b := by
  induction a with
  | nil => simp [Spec.byteSum]
  | cons x xs ih => simp [Spec.byteSum, ih]; omega

end Acra.Lemmas.Ch10
