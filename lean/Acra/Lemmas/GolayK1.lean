/- Kernel evaluation, part 1 of 5: every one of the 4096 code words has syndrome 0 and carries its
   data value in the upper 12 bits. -/
import Acra.Lemmas.GolayBase
namespace Acra.Lemmas.Golay
open Acra.Model.Golay

set_option maxRecDepth 100000 in
theorem syn_encode_all : ∀ x, x < 4096 → synF (encodeEntry x) = 0 ∧ encodeEntry x >>> 12 = x := by
  decide +kernel

end Acra.Lemmas.Golay
