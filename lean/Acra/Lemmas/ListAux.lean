/- small list facts shared by the FTI lemma files -/
namespace Acra.Lemmas

theorem flatMap_congr' {α β : Type} (l : List α) (f g : α → List β) (h : ∀ x ∈ l, f x = g x) :
    l.flatMap f = l.flatMap g := by
  induction l with
  | nil => rfl
  | cons a l ih =>
    simp only [List.flatMap_cons, h a (by simp), ih (fun x hx => h x (by simp [hx]))]

end Acra.Lemmas
