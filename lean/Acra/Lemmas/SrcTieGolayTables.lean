/-
  Helper lemmas for the source tie of `Golay._initgolaydecode` (C11 / C20): loops that fill three tables cell by
  cell (raising item stores), the nested write loop, and the string idiom of `_onesincode`.  Core Lean only.
-/
import Acra.Py.IntOps
import Acra.Model.Golay
import Acra.Lemmas.SrcTieGolay
namespace Acra.Lemmas.SrcTieGolayTables
open Acra Acra.Py Acra.Lemmas.SrcTieGolay

theorem ok_bind {α β : Type} (a : α) (f : α → R β) : ((Except.ok a : R α) >>= f) = f a := rfl

theorem pair_eta {α β : Type} (p : α × β) : (p.1, p.2) = p := rfl

theorem setItem_natCast (T : List Int) (i : Nat) (v : Int) (h : i < T.length) :
    setItem T (i : Int) v = .ok (T.set i v) := by
  unfold setItem
  have : (0 : Int) ≤ (i : Int) ∧ (i : Int) < Py.len T := by simp [Py.len]; omega
  rw [if_pos this]; rfl

theorem set_getD_self (T : List Int) (x : Nat) : T.set x (T.getD x 0) = T := by
  by_cases h : x < T.length
  · simp [List.getD_eq_getElem?_getD, h]
  · rw [List.set_eq_of_length_le (by omega)]

theorem getD_set_self (T : List Int) (x : Nat) (v : Int) (h : x < T.length) : (T.set x v).getD x 0 = v := by
  simp [List.getD_eq_getElem?_getD, h]

/-- a loop whose every pass rewrites cell `x` of three tables with a function of the three old cell values is ONE
    rewrite of the three cells with the folded function -/
theorem foldlM_cell3 (x : Nat) (cell : Int → Int × Int × Int → Int × Int × Int)
    (step : List Int × List Int × List Int → Int → R (List Int × List Int × List Int))
    (hstep : ∀ (S E C : List Int) (i : Int), x < S.length → x < E.length → x < C.length →
      step (S, E, C) i = .ok (S.set x (cell i (S.getD x 0, E.getD x 0, C.getD x 0)).1,
        E.set x (cell i (S.getD x 0, E.getD x 0, C.getD x 0)).2.1,
        C.set x (cell i (S.getD x 0, E.getD x 0, C.getD x 0)).2.2)) :
    ∀ (is : List Int) (S E C : List Int), x < S.length → x < E.length → x < C.length →
      List.foldlM step (S, E, C) is =
        .ok (S.set x (is.foldl (fun t i => cell i t) (S.getD x 0, E.getD x 0, C.getD x 0)).1,
          E.set x (is.foldl (fun t i => cell i t) (S.getD x 0, E.getD x 0, C.getD x 0)).2.1,
          C.set x (is.foldl (fun t i => cell i t) (S.getD x 0, E.getD x 0, C.getD x 0)).2.2) := by
  intro is
  induction is with
  | nil =>
    intro S E C _ _ _
    simp only [List.foldlM_nil, List.foldl_nil, set_getD_self]; rfl
  | cons i is ih =>
    intro S E C hS hE hC
    rw [List.foldlM_cons, hstep S E C i hS hE hC, ok_bind,
      ih _ _ _ (by simpa using hS) (by simpa using hE) (by simpa using hC)]
    simp only [getD_set_self _ _ _ hS, getD_set_self _ _ _ hE, getD_set_self _ _ _ hC, List.set_set, List.foldl_cons]

/-- the table under construction: `f` on the first `k` cells, zero beyond -/
def mk (N : Nat) (f : Nat → Int) (k : Nat) : List Int := (List.range k).map f ++ List.replicate (N - k) 0

theorem mk_length (N : Nat) (f : Nat → Int) (k : Nat) (h : k ≤ N) : (mk N f k).length = N := by
  simp [mk]; omega

theorem mk_getD (N : Nat) (f : Nat → Int) (k : Nat) (_h : k < N) : (mk N f k).getD k 0 = 0 := by
  unfold mk
  rw [List.getD_eq_getElem?_getD, List.getElem?_append_right (by simp)]
  simp only [List.length_map, List.length_range, Nat.sub_self]
  rw [List.getElem?_replicate]
  split <;> rfl

theorem mk_set (N : Nat) (f : Nat → Int) (k : Nat) (h : k < N) : (mk N f k).set k (f k) = mk N f (k + 1) := by
  unfold mk
  have hrep : List.replicate (N - k) (0 : Int) = 0 :: List.replicate (N - (k + 1)) 0 := by
    rw [show N - k = (N - (k + 1)) + 1 by omega, List.replicate_succ]
  rw [hrep, List.set_append_right _ _ (by simp), List.range_succ, List.map_append]
  simp

theorem mk_zero (N : Nat) (f : Nat → Int) : mk N f 0 = List.replicate N 0 := by simp [mk]
theorem mk_full (N : Nat) (f : Nat → Int) : mk N f N = (List.range N).map f := by simp [mk]

/-- a loop over `range(N)` whose pass `x` completes cell `x` of three tables builds the three tables -/
theorem foldlM_table3 (N : Nat) (f g h : Nat → Int)
    (step : List Int × List Int × List Int → Int → R (List Int × List Int × List Int))
    (hstep : ∀ k, k < N → step (mk N f k, mk N g k, mk N h k) (k : Int) =
      .ok (mk N f (k + 1), mk N g (k + 1), mk N h (k + 1))) :
    List.foldlM step (List.replicate N 0, List.replicate N 0, List.replicate N 0) (Py.range (N : Int)) =
      .ok ((List.range N).map f, (List.range N).map g, (List.range N).map h) := by
  have key : ∀ k, k ≤ N →
      List.foldlM step (mk N f 0, mk N g 0, mk N h 0) ((List.range k).map Int.ofNat) =
        .ok (mk N f k, mk N g k, mk N h k) := by
    intro k
    induction k with
    | zero => intro _; rfl
    | succ k ih =>
      intro hk
      rw [List.range_succ, List.map_append, List.foldlM_append, ih (by omega), ok_bind]
      simp only [List.map_cons, List.map_nil, List.foldlM_cons, List.foldlM_nil]
      rw [show (Int.ofNat k) = ((k : Nat) : Int) from rfl, hstep k (by omega)]; rfl
  have := key N (Nat.le_refl N)
  simpa [Py.range, mk_zero, mk_full] using this

/-- a raising loop over `range(N)` all of whose passes succeed, under an invariant, is the pure fold -/
theorem foldlM_range {σ : Type} (N : Nat) (P : σ → Prop) (step : σ → Int → R σ) (g : σ → Nat → σ)
    (h : ∀ st n, n < N → P st → step st (n : Int) = .ok (g st n) ∧ P (g st n)) :
    ∀ st, P st → List.foldlM step st (Py.range (N : Int)) = .ok ((List.range N).foldl g st) ∧
      P ((List.range N).foldl g st) := by
  have key : ∀ (l : List Nat), (∀ n ∈ l, n < N) → ∀ st, P st →
      List.foldlM step st (l.map Int.ofNat) = .ok (l.foldl g st) ∧ P (l.foldl g st) := by
    intro l
    induction l with
    | nil => intro _ st hP; exact ⟨rfl, hP⟩
    | cons n l ih =>
      intro hl st hP
      obtain ⟨h1, h2⟩ := h st n (hl n (List.mem_cons_self ..)) hP
      rw [List.map_cons, List.foldlM_cons, show Int.ofNat n = (n : Int) from rfl, h1, ok_bind, List.foldl_cons]
      exact ih (fun m hm => hl m (List.mem_cons_of_mem _ hm)) _ h2
  intro st hP
  have := key (List.range N) (fun n hn => List.mem_range.mp hn) st hP
  simpa [Py.range] using this

theorem foldlM_range' {σ : Type} (N : Nat) (M : Int) (hM : M = (N : Int)) (P : σ → Prop) (step : σ → Int → R σ)
    (g : σ → Nat → σ) (h : ∀ st n, n < N → P st → step st (n : Int) = .ok (g st n) ∧ P (g st n)) :
    ∀ st, P st → List.foldlM step st (Py.range M) = .ok ((List.range N).foldl g st) ∧
      P ((List.range N).foldl g st) := by
  subst hM; exact foldlM_range N P step g h

/-! ### the first loop of `_initgolaydecode`: one cell of the three tables -/

/-- a loop on a triple whose components evolve independently is the triple of the three loops -/
theorem foldl_triple_split (c : Int → Prop) [DecidablePred c] (hS : Int → Int → Int) (vE vC : Int) (is : List Int) :
    ∀ (s e k : Int),
      List.foldl (fun (t : Int × Int × Int) (i : Int) => if c i then (hS t.1 i, vE, vC) else t) (s, e, k) is =
        (List.foldl (fun a i => if c i then hS a i else a) s is,
         List.foldl (fun a i => if c i then vE else a) e is,
         List.foldl (fun a i => if c i then vC else a) k is) := by
  induction is with
  | nil => intro s e k; rfl
  | cons i is ih =>
    intro s e k
    simp only [List.foldl_cons]
    by_cases hc : c i
    · simp only [if_pos hc]; exact ih _ _ _
    · simp only [if_neg hc]; exact ih _ _ _

/-- `for i in range(12): if (x >> (11 - i)) & 1: acc = v` over a 12-row table (same recursion as `rowXorAcc`) -/
def setAcc : List Nat → Nat → Nat → Nat → Nat
  | [], _, _, a => a
  | _ :: rs, x, v, a => setAcc rs x v (if (x >>> rs.length) &&& 1 ≠ 0 then v else a)

theorem initEntry_eq (rows : List Nat) (x : Nat) : ∀ (s e c : Nat),
    Model.Golay.initEntry rows x (s, e, c) =
      (Model.Golay.rowXorAcc rows x s, setAcc rows x 4 e, setAcc rows x 0xFFF c) := by
  induction rows with
  | nil => intro s e c; rfl
  | cons r rs ih =>
    intro s e c
    simp only [Model.Golay.initEntry, Model.Golay.rowXorAcc, setAcc]
    by_cases hb : (x >>> rs.length) &&& 1 ≠ 0
    · simp only [if_pos hb]; exact ih _ _ _
    · simp only [if_neg hb]; exact ih _ _ _

/-- the syndrome cell: twelve conditional xors of the rows of `H_P` -/
theorem syn_fold (x a0 : Nat) :
    List.foldl (fun (a : Int) (i : Int) =>
        if band (shr (x : Int) (11 - i)) 1 ≠ 0 then bxor a (intAt Gen.Src.Golay.H_P i) else a)
      (a0 : Int) (Py.range 12)
    = (Model.Golay.rowXorAcc Gen.Golay.H_P x a0 : Int) := by
  rw [range12]
  simp only [List.foldl_cons, List.foldl_nil, Gen.Golay.H_P, Model.Golay.rowXorAcc,
    Gen.Src.Golay.H_P, intAt, toNat_lit, List.getD_cons_zero, List.getD_cons_succ, Int.reduceSub,
    shr_natCast, band_natCast_lit, bxor_natCast_lit, natCast_ite, List.length_cons, List.length_nil,
    Int.natCast_eq_zero, ne_eq, Nat.reduceAdd]

/-- the error / correction cell: set to `v` as soon as one selected bit is seen -/
theorem set_fold (x v a0 : Nat) :
    List.foldl (fun (a : Int) (i : Int) => if band (shr (x : Int) (11 - i)) 1 ≠ 0 then (v : Int) else a)
      (a0 : Int) (Py.range 12)
    = (setAcc Gen.Golay.H_P x v a0 : Int) := by
  rw [range12]
  simp only [List.foldl_cons, List.foldl_nil, Gen.Golay.H_P, setAcc, toNat_lit, Int.reduceSub,
    shr_natCast, band_natCast_lit, natCast_ite, List.length_cons, List.length_nil,
    Int.natCast_eq_zero, ne_eq, Nat.reduceAdd]

theorem syn_fold0 (x : Nat) :
    List.foldl (fun (a : Int) (i : Int) =>
        if band (shr (x : Int) (11 - i)) 1 ≠ 0 then bxor a (intAt Gen.Src.Golay.H_P i) else a) 0 (Py.range 12)
    = ((Model.Golay.initEntry Gen.Golay.H_P x (0, 0, 0)).1 : Nat) := by
  rw [initEntry_eq]; exact syn_fold x 0

theorem set_fold4 (x : Nat) :
    List.foldl (fun (a : Int) (i : Int) => if band (shr (x : Int) (11 - i)) 1 ≠ 0 then (4 : Int) else a) 0 (Py.range 12)
    = ((Model.Golay.initEntry Gen.Golay.H_P x (0, 0, 0)).2.1 : Nat) := by
  rw [initEntry_eq]; exact set_fold x 4 0

theorem set_fold4095 (x : Nat) :
    List.foldl (fun (a : Int) (i : Int) => if band (shr (x : Int) (11 - i)) 1 ≠ 0 then (4095 : Int) else a) 0 (Py.range 12)
    = ((Model.Golay.initEntry Gen.Golay.H_P x (0, 0, 0)).2.2 : Nat) := by
  rw [initEntry_eq]; exact set_fold x 4095 0

/-! ### the model's tables as Python lists -/

theorem setItem_zero (T : List Int) (v : Int) (h : 0 < T.length) : setItem T 0 v = .ok (T.set 0 v) :=
  setItem_natCast T 0 v h

theorem ofFn_eq_map_range {α : Type} (N : Nat) (F : Nat → α) :
    List.ofFn (n := N) (fun x => F x.val) = (List.range N).map F := by
  apply List.ext_getElem
  · simp
  · intro i h1 h2; simp

theorem pyList_ofFn (F : Nat → Nat) :
    pyList (Array.ofFn (n := Gen.Golay.GOLAY_SIZE) fun x => F x.val) = (List.range 4096).map (fun x => ((F x : Nat) : Int)) := by
  unfold pyList
  rw [Array.toList_ofFn, ofFn_eq_map_range, List.map_map]; rfl

theorem pyList_set (T : Array Nat) (i v : Nat) : pyList (T.setIfInBounds i v) = (pyList T).set i (v : Int) := by
  unfold pyList
  rw [Array.toList_setIfInBounds, List.map_set]; rfl

/-- the writes of the triple loop on the Python lists -/
def applyW (st : List Int × List Int) (t : Nat × Nat × Nat) : List Int × List Int :=
  (st.1.set (Model.Golay.writeOf t).1 ((Model.Golay.writeOf t).2.1 : Nat),
   st.2.set (Model.Golay.writeOf t).1 ((Model.Golay.writeOf t).2.2 : Nat))

theorem pyList_applyWrites (ts : List (Nat × Nat × Nat)) : ∀ (ce : Array Nat × Array Nat),
    ts.foldl applyW (pyList ce.1, pyList ce.2) =
      (pyList (Model.Golay.applyWrites (ts.map Model.Golay.writeOf) ce).1,
       pyList (Model.Golay.applyWrites (ts.map Model.Golay.writeOf) ce).2) := by
  induction ts with
  | nil => intro ce; rfl
  | cons t ts ih =>
    intro ce
    rw [List.foldl_cons, List.map_cons]
    unfold Model.Golay.applyWrites
    rw [List.foldl_cons]
    have := ih (ce.1.setIfInBounds (Model.Golay.writeOf t).1 (Model.Golay.writeOf t).2.1,
      ce.2.setIfInBounds (Model.Golay.writeOf t).1 (Model.Golay.writeOf t).2.2)
    unfold Model.Golay.applyWrites at this
    rw [← this]
    simp only [applyW, pyList_set]

theorem pyList_applyWrites' (ts : List (Nat × Nat × Nat)) (c e : Array Nat) :
    ts.foldl applyW (pyList c, pyList e) =
      (pyList (Model.Golay.applyWrites (ts.map Model.Golay.writeOf) (c, e)).1,
       pyList (Model.Golay.applyWrites (ts.map Model.Golay.writeOf) (c, e)).2) :=
  pyList_applyWrites ts (c, e)

/-- every syndrome is a 12-bit value (so the stores of the triple loop never leave the tables) -/
theorem rowXorAcc_lt (rows : List Nat) (hr : ∀ r ∈ rows, r < 2 ^ 12) (x : Nat) :
    ∀ s, s < 2 ^ 12 → Model.Golay.rowXorAcc rows x s < 2 ^ 12 := by
  induction rows with
  | nil => intro s hs; exact hs
  | cons r rs ih =>
    intro s hs
    unfold Model.Golay.rowXorAcc
    apply ih (fun r' hr' => hr r' (List.mem_cons_of_mem _ hr'))
    split
    · exact Nat.xor_lt_two_pow hs (hr r (List.mem_cons_self ..))
    · exact hs

theorem synTable_getD_lt (i : Nat) : Model.Golay.synTable.getD i 0 < 4096 := by
  unfold Model.Golay.synTable
  rw [Array.getD_eq_getD_getElem?]
  by_cases h : i < Gen.Golay.GOLAY_SIZE
  · rw [Array.getElem?_ofFn, dif_pos h]
    simp only [Option.getD_some]
    rw [initEntry_eq]
    exact rowXorAcc_lt Gen.Golay.H_P (by decide) i 0 (by decide)
  · rw [Array.getElem?_ofFn, dif_neg h]; decide

theorem syndrome_lt (v : Nat) : Model.Golay.syndrome v < 4096 := by
  unfold Model.Golay.syndrome
  have h2 : (v >>> 12) &&& 0xfff < 2 ^ 12 := Nat.lt_of_le_of_lt Nat.and_le_right (by decide)
  exact Nat.xor_lt_two_pow (n := 12) (synTable_getD_lt _) h2

/-! ### `_onesincode`: the string idiom `bin(code)[2:size+2].count('1')` -/

theorem binDigitsAux_eq : ∀ (fuel n : Nat) (acc : List Bool),
    Py.binDigitsAux fuel n acc = Model.Golay.binDigitsAux fuel n acc := by
  intro fuel
  induction fuel with
  | zero => intro n acc; rfl
  | succ f ih =>
    intro n acc
    unfold Py.binDigitsAux Model.Golay.binDigitsAux
    split
    · rfl
    · exact ih _ _

/-- `bin(n)` for a non-negative int: `0b` and the model's digit list -/
theorem bin_natCast (n : Nat) :
    Py.bin (n : Int) = '0' :: 'b' :: (Model.Golay.binDigits n).map (fun b => if b then '1' else '0') := by
  unfold Py.bin Model.Golay.binDigits
  have h0 : ¬ ((n : Int) < 0) := by omega
  rw [if_neg h0, Int.natAbs_natCast, binDigitsAux_eq]
  rfl

theorem count_bits (l : List Bool) :
    (l.map (fun b => if b then '1' else '0')).count '1' = l.count true := by
  induction l with
  | nil => rfl
  | cons b l ih =>
    cases b
    · rw [List.map_cons, List.count_cons, List.count_cons, ih]; rfl
    · rw [List.map_cons, List.count_cons, List.count_cons, ih]; rfl

theorem onesincode_tie (code size : Nat) :
    strCount '1' (sliceI (Py.bin (code : Int)) 2 ((size : Int) + 2)) = ((Model.Golay.onesincode code size : Nat) : Int) := by
  unfold strCount sliceI slice Model.Golay.onesincode
  rw [bin_natCast]
  have h2 : ((size : Int) + 2).toNat = size + 2 := by omega
  rw [h2, toNat_lit]
  simp only [List.take_succ_cons, List.drop_succ_cons, List.drop_zero]
  rw [← List.map_take, count_bits]

end Acra.Lemmas.SrcTieGolayTables
