/-
  Helper lemmas for the `ptptime.bcdTointConvert` source tie (`Props/C15/SrcTie.lean`): the `while` loop.
-/
import Acra.Py.IntOps
import Acra.Model.ExtraTime
namespace Acra.Lemmas.SrcTieTime
open Acra Acra.Py

/-- loop test and loop body of `bcdTointConvert` on the state (b, a, i), as the translator emits them -/
def bcdCond (st : Int × Int × Int) : Bool := decide (¬ (0 = st.2.1))
def bcdBody (st : Int × Int × Int) : Int × Int × Int :=
  (st.1 + band st.2.1 15 * Py.pow 10 st.2.2, shr st.2.1 4, st.2.2 + 1)

/-- the loop, started on naturals with enough fuel, ends with the model's result in `b` -/
theorem bcd_loop (fuel a b i : Nat) (h : a < fuel) :
    (Py.whileLoop bcdCond bcdBody fuel ((b : Int), (a : Int), (i : Int))).map (fun st => st.1)
      = .ok ((Model.ExtraTime.bcdToIntLoop fuel a b i : Nat) : Int) := by
  induction fuel generalizing a b i with
  | zero => omega
  | succ fuel ih =>
    unfold Py.whileLoop Model.ExtraTime.bcdToIntLoop
    by_cases ha : a = 0
    · subst ha
      simp [bcdCond, Except.map]
    · have hc : bcdCond ((b : Int), (a : Int), (i : Int)) = true := by
        simp [bcdCond]; omega
      rw [if_pos hc, if_neg ha]
      have hb : bcdBody ((b : Int), (a : Int), (i : Int))
          = (((b + (a &&& 0xf) * 10 ^ i : Nat) : Int), ((a >>> 4 : Nat) : Int), ((i + 1 : Nat) : Int)) := by
        simp only [bcdBody, band_natCast_lit, shr_natCast, toNat_lit, Py.pow, Int.toNat_natCast]
        refine Prod.ext ?_ (Prod.ext ?_ ?_)
        · simp [Int.natCast_add, Int.natCast_mul, Int.natCast_pow]
        · rfl
        · simp
      rw [hb]
      apply ih
      have : a >>> 4 ≤ a / 2 := by
        rw [Nat.shiftRight_eq_div_pow]; omega
      omega

end Acra.Lemmas.SrcTieTime
