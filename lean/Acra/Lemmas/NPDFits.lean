/-
  The NPD segment area read declaratively, in the style of `FitsM` / `FitsQ` / `FitsBlocks` (Props/C09):
  `FitsSegs k rem` walks the DECLARED segment lengths over the bytes — no reference to the decoder model,
  to `slice`, or to the generic `Walk`.  Per-kind segment lemmas tie the typed-header demand of each segment
  class to plain inequalities on the bytes; `fitsSegs_iff_walk` ties the predicate to `SegWalk` (and through
  `decSeg_walk` to the model's loop); `SegsReject` is the complementary predicate ("the walk meets a
  segment that is refused") and `decSeg_loop_error_iff` shows the loop raises exactly there.
-/
import Acra.Lemmas.NPDWalk
import Acra.Lemmas.WalkErr
namespace Acra.Lemmas.NPD
open Acra.Py Acra.Model.NPD Acra.Gen.NPD Acra.Lemmas.Bits Acra.Lemmas.Walk

/-- the number of sync bytes an RS-232 segment announces: low three bits of the block status word, the
    big-endian 16 bits at bytes 8..9 of the segment -/
def rsSyncCount (rem : Bytes) : Nat := beNat ((rem.drop 8).take 2) % 8

/-- what the typed header of segment class `k` asks of the segment at the front of `rem`, on the bytes:
    ACQ (`>BBH`) and MIL-STD-1553 (`>HBB`): four bytes after the 8-byte segment header, inside the declared
    length and inside the buffer; RS-232: the status word and the sync bytes it counts, likewise;
    the plain classes (NPDSegment, PCMPacketizer, A429Segment): nothing -/
def TypedFits (k : Kind) (rem : Bytes) : Prop :=
  match k with
  | .acq => 12 ≤ segDeclared rem ∧ 12 ≤ rem.length
  | .mil1553 => 12 ≤ segDeclared rem ∧ 12 ≤ rem.length
  | .rs232 => 10 + rsSyncCount rem ≤ segDeclared rem ∧ 10 + rsSyncCount rem ≤ rem.length
  | _ => True

instance (k : Kind) (rem : Bytes) : Decidable (TypedFits k rem) := by
  unfold TypedFits; cases k <;> exact inferInstance

/-- the segment area, read declaratively: empty, or a complete 8-byte segment header whose typed header
    fits, followed — after the declared length `d` clamped into `[8, remaining bytes]` and rounded up to a
    multiple of four — by a segment area again -/
inductive FitsSegs (k : Kind) : Bytes → Prop
  | done : FitsSegs k []
  | seg (rem : Bytes) : 8 ≤ rem.length → TypedFits k rem →
      FitsSegs k (rem.drop (roundUp4 (max 8 (min (segDeclared rem) rem.length)))) → FitsSegs k rem

/-- the complement: walking the same way, a position with bytes left is reached whose segment header is
    incomplete or whose typed header does not fit -/
inductive SegsReject (k : Kind) : Bytes → Prop
  | short (rem : Bytes) : rem ≠ [] → rem.length < 8 → SegsReject k rem
  | typed (rem : Bytes) : 8 ≤ rem.length → ¬ TypedFits k rem → SegsReject k rem
  | later (rem : Bytes) : 8 ≤ rem.length → TypedFits k rem →
      SegsReject k (rem.drop (roundUp4 (max 8 (min (segDeclared rem) rem.length)))) → SegsReject k rem

/-! ### per-kind segment lemmas -/

theorem segPayload_take2 (rem : Bytes) (h : 10 ≤ min (segDeclared rem) rem.length) :
    (segPayload rem).take 2 = (rem.drop 8).take 2 := by
  simp only [segPayload, slice, segLen]
  rw [List.drop_take, List.take_take]
  congr 1
  omega

/-- plain classes: no demand -/
theorem typedFits_plain (k : Kind) (rem : Bytes) (hk : k = .base ∨ k = .pcmpkt ∨ k = .a429) :
    TypedFits k rem ∧ TypedHdrOk k (segPayload rem) := by
  rcases hk with rfl | rfl | rfl <;> exact ⟨trivial, trivial⟩

/-- ACQ: four typed-header bytes inside the bytes taken -/
theorem typedFits_acq (rem : Bytes) (h8 : 8 ≤ rem.length) :
    TypedHdrOk .acq (segPayload rem) ↔ 12 ≤ segDeclared rem ∧ 12 ≤ rem.length := by
  simp only [TypedHdrOk, segPayload_length rem h8, segLen]
  omega

/-- MIL-STD-1553: four typed-header bytes inside the bytes taken -/
theorem typedFits_1553 (rem : Bytes) (h8 : 8 ≤ rem.length) :
    TypedHdrOk .mil1553 (segPayload rem) ↔ 12 ≤ segDeclared rem ∧ 12 ≤ rem.length := by
  simp only [TypedHdrOk, segPayload_length rem h8, segLen]
  omega

/-- RS-232: status word and announced sync bytes inside the bytes taken -/
theorem typedFits_rs232 (rem : Bytes) (h8 : 8 ≤ rem.length) :
    TypedHdrOk .rs232 (segPayload rem) ↔
      10 + rsSyncCount rem ≤ segDeclared rem ∧ 10 + rsSyncCount rem ≤ rem.length := by
  simp only [TypedHdrOk, segPayload_length rem h8, rsSyncCount]
  by_cases h10 : 10 ≤ min (segDeclared rem) rem.length
  · rw [segPayload_take2 rem h10]
    simp only [segLen]
    omega
  · simp only [segLen]
    omega

theorem typedHdrOk_iff_fits (k : Kind) (rem : Bytes) (h8 : 8 ≤ rem.length) :
    TypedHdrOk k (segPayload rem) ↔ TypedFits k rem := by
  cases k
  · exact ⟨fun _ => trivial, fun _ => trivial⟩
  · exact typedFits_acq rem h8
  · exact ⟨fun _ => trivial, fun _ => trivial⟩
  · exact ⟨fun _ => trivial, fun _ => trivial⟩
  · exact typedFits_rs232 rem h8
  · exact typedFits_1553 rem h8

theorem segOk_iff_fits (k : Kind) (rem : Bytes) : SegOk k rem ↔ 8 ≤ rem.length ∧ TypedFits k rem := by
  simp only [SegOk]
  constructor
  · rintro ⟨h8, h⟩; exact ⟨h8, (typedHdrOk_iff_fits k rem h8).1 h⟩
  · rintro ⟨h8, h⟩; exact ⟨h8, (typedHdrOk_iff_fits k rem h8).2 h⟩

theorem segAdvance_eq (rem : Bytes) : segAdvance rem = roundUp4 (max 8 (min (segDeclared rem) rem.length)) := rfl

/-! ### the declarative walk is the loop's walk -/

theorem fitsSegs_iff_walk (k : Kind) (rem : Bytes) : FitsSegs k rem ↔ SegWalk k rem := by
  constructor
  · intro h
    induction h with
    | done => exact .done
    | seg rem h8 ht _ ih =>
      refine .step ?_ ((segOk_iff_fits k rem).2 ⟨h8, ht⟩) ih
      intro h; subst h; simp at h8
  · intro h
    induction h with
    | done => exact .done
    | step _ hok _ ih =>
      obtain ⟨h8, ht⟩ := (segOk_iff_fits k _).1 hok
      exact .seg _ h8 ht ih

/-- every error of one loop step is `struct.error` -/
theorem decSeg_error_struct (k : Kind) (rem : Bytes) (e : Err) (h : decSeg k rem = .error e) : e = .struct := by
  simp only [decSeg] at h
  split at h
  · cases h
  · rename_i g e' hg
    simp only [Except.error.injEq] at h
    subst h
    revert hg
    simp only [Seg.unpack]
    have hk : (Seg.fresh k).kind = k := rfl
    rw [hk]
    cases hb : Seg.unpackBase (Seg.fresh k) rem with
    | mk s1 r =>
      cases r with
      | error e1 =>
        simp only [Prod.mk.injEq, Except.error.injEq]
        rintro ⟨_, rfl⟩
        simp only [Seg.unpackBase] at hb
        split at hb
        · cases hb
        · cases hb; rfl
        · rename_i e2 he
          have := structUnpackFrom_error _ _ _ _ he
          cases hb; exact this
      | ok r1 =>
        cases k <;> simp only
        · intro h; cases h
        · cases hu : s1.unpackACQ with
          | mk s2 r2 =>
            cases r2 with
            | ok u => cases u; intro h; cases h
            | error e2 =>
              simp only [Prod.mk.injEq, Except.error.injEq]
              rintro ⟨_, rfl⟩
              simp only [Seg.unpackACQ] at hu
              repeat' split at hu
              all_goals first
                | (cases hu; done)
                | (cases hu; rfl)
                | (rename_i e3 he; have := structUnpackFrom_error _ _ _ _ he; cases hu; exact this)
        · intro h; cases h
        · intro h; cases h
        · cases hu : s1.unpackRS232 with
          | mk s2 r2 =>
            cases r2 with
            | ok u => cases u; intro h; cases h
            | error e2 =>
              simp only [Prod.mk.injEq, Except.error.injEq]
              rintro ⟨_, rfl⟩
              simp only [Seg.unpackRS232] at hu
              repeat' split at hu
              all_goals first
                | (cases hu; done)
                | (cases hu; rfl)
                | (rename_i e3 he; have := structUnpackFrom_error _ _ _ _ he; cases hu; exact this)
        · cases hu : s1.unpack1553 with
          | mk s2 r2 =>
            cases r2 with
            | ok u => cases u; intro h; cases h
            | error e2 =>
              simp only [Prod.mk.injEq, Except.error.injEq]
              rintro ⟨_, rfl⟩
              simp only [Seg.unpack1553] at hu
              repeat' split at hu
              all_goals first
                | (cases hu; done)
                | (cases hu; rfl)
                | (rename_i e3 he; have := structUnpackFrom_error _ _ _ _ he; cases hu; exact this)

theorem decSeg_ok_iff (k : Kind) (rem : Bytes) : (∃ x n, decSeg k rem = .ok (x, n)) ↔ SegOk k rem := by
  rw [← Seg_unpack_ok_iff]
  simp only [decSeg]
  constructor
  · rintro ⟨x, n, h⟩
    split at h
    · rename_i g r hg; exact ⟨g, r, hg⟩
    · cases h
  · rintro ⟨g, r, hg⟩
    rw [hg]
    exact ⟨_, _, rfl⟩

/-- … and it is raised exactly on a segment that is not acceptable -/
theorem decSeg_error_iff (k : Kind) (rem : Bytes) (e : Err) :
    decSeg k rem = .error e ↔ e = .struct ∧ ¬ SegOk k rem := by
  constructor
  · intro h
    refine ⟨decSeg_error_struct k rem e h, ?_⟩
    intro hs
    obtain ⟨x, n, hx⟩ := (decSeg_ok_iff k rem).2 hs
    rw [h] at hx
    cases hx
  · rintro ⟨rfl, hn⟩
    cases hd : decSeg k rem with
    | ok r => exact absurd ((decSeg_ok_iff k rem).1 ⟨r.1, r.2, hd⟩) hn
    | error e' => rw [decSeg_error_struct k rem e' hd]

/-- the segment loop fails (with `struct.error`, which `NPD.unpack` re-raises as a bare `Exception`) exactly
    when the declarative walk meets a refused segment -/
theorem decSeg_loop_error_iff (k : Kind) (buf : Bytes) (e : Err) :
    decOff (decSeg k) moreNe buf (buf.length + 1) 0 = .error e ↔ e = .struct ∧ SegsReject k buf := by
  have key := decOff_error_iff_walkErr (decSeg k) moreNe (SegOk k) segAdvance
    (fun e rem => e = .struct ∧ ¬ SegOk k rem) (fun _ _ => rfl)
    (by
      intro rem x n h
      simp only [decSeg] at h
      split at h
      · rename_i g r hg
        have hsl := (Seg_unpack_segmentlen k rem g r hg).1
        refine ⟨(Seg_unpack_ok_iff k rem).1 ⟨g, r, hg⟩, ?_⟩
        simp only [Except.ok.injEq, Prod.mk.injEq] at h
        rw [← h.2, hsl]
        simp only [segAdvance, roundUp4]
        by_cases hm : segLen rem % 4 = 0
        · simp [hm]
        · have : (4 - segLen rem % 4) % 4 = 4 - segLen rem % 4 := by omega
          simp [hm, this]
      · cases h)
    (by
      intro rem hok
      obtain ⟨g, r, hg⟩ := (Seg_unpack_ok_iff k rem).2 hok
      have hsl := (Seg_unpack_segmentlen k rem g r hg).1
      refine ⟨g, ?_⟩
      simp only [decSeg, hg, hsl, segAdvance, roundUp4]
      by_cases hm : segLen rem % 4 = 0
      · simp [hm]
      · have : (4 - segLen rem % 4) % 4 = 4 - segLen rem % 4 := by omega
        simp [hm, this])
    (by
      intro rem _
      have := segLen_ge rem
      have := roundUp4_ge (segLen rem)
      simp only [segAdvance]
      omega)
    (fun rem e => decSeg_error_iff k rem e)
    buf e (buf.length + 1) 0 (by omega)
  rw [List.drop_zero] at key
  rw [key]
  clear key
  constructor
  · intro h
    induction h with
    | here hne he =>
      refine ⟨he.1, ?_⟩
      rename_i rem
      by_cases h8 : 8 ≤ rem.length
      · exact .typed rem h8 (fun ht => he.2 ((segOk_iff_fits k rem).2 ⟨h8, ht⟩))
      · exact .short rem hne (by omega)
    | later hne hok _ ih =>
      obtain ⟨h8, ht⟩ := (segOk_iff_fits k _).1 hok
      exact ⟨ih.1, .later _ h8 ht ih.2⟩
  · rintro ⟨rfl, h⟩
    induction h with
    | short rem hne hs =>
      exact .here hne ⟨rfl, fun hok => by have := hok.1; omega⟩
    | typed rem h8 hn =>
      refine .here ?_ ⟨rfl, fun hok => hn ((segOk_iff_fits k rem).1 hok).2⟩
      intro h; subst h; simp at h8
    | later rem h8 ht _ ih =>
      refine .later ?_ ((segOk_iff_fits k rem).2 ⟨h8, ht⟩) ih
      intro h; subst h; simp at h8

/-- the two predicates are complementary (a corollary of: the loop returns or raises, never both) -/
theorem fitsSegs_or_reject (k : Kind) (buf : Bytes) : (FitsSegs k buf ∧ ¬ SegsReject k buf) ∨ (SegsReject k buf ∧ ¬ FitsSegs k buf) := by
  have hw := decSeg_walk k buf
  rw [← fitsSegs_iff_walk] at hw
  cases hd : decOff (decSeg k) moreNe buf (buf.length + 1) 0 with
  | ok xs =>
    left
    refine ⟨hw.1 (by rw [hd]; rfl), fun hr => ?_⟩
    have := (decSeg_loop_error_iff k buf .struct).2 ⟨rfl, hr⟩
    rw [hd] at this; cases this
  | error e =>
    right
    have he := (decSeg_loop_error_iff k buf e).1 hd
    refine ⟨he.2, fun hf => ?_⟩
    have := hw.2 hf
    rw [hd] at this
    cases this

/-! ### what an accepted segment holds -/

/-- the typed parts keep `payload` -/
theorem typed_payload (s : Seg) :
    s.unpackACQ.1.payload = s.payload ∧ s.unpackRS232.1.payload = s.payload ∧ s.unpack1553.1.payload = s.payload := by
  refine ⟨?_, ?_, ?_⟩
  · simp only [Seg.unpackACQ]
    repeat' split
    all_goals rfl
  · simp only [Seg.unpackRS232]
    repeat' split
    all_goals rfl
  · simp only [Seg.unpack1553]
    repeat' split
    all_goals rfl

/-- an accepted segment of any class holds exactly the bytes `rem[8 : declared]` (clamped at the end of `rem`) -/
theorem Seg_unpack_payload (k : Kind) (rem : Bytes) (g : Seg) (r : Bytes)
    (h : Seg.unpack (Seg.fresh k) rem = (g, .ok r)) : g.payload = segPayload rem := by
  have h8 := (Seg_unpack_segmentlen k rem g r h).2
  have hb := unpackBase_closed (Seg.fresh k) rem h8
  have ht := typed_payload (baseDecoded (Seg.fresh k) rem)
  have hsl : (baseDecoded (Seg.fresh k) rem).payload = segPayload rem := rfl
  simp only [Seg.unpack, hb] at h
  have hk : (Seg.fresh k).kind = k := rfl
  rw [hk] at h
  cases k <;> simp only at h
  · cases h; rfl
  · split at h
    · rename_i s2 hs
      cases h
      have := ht.1; rw [hs] at this; exact this.trans hsl
    · cases h
  · cases h; rfl
  · cases h; rfl
  · split at h
    · rename_i s2 hs
      cases h
      have := ht.2.1; rw [hs] at this; exact this.trans hsl
    · cases h
  · split at h
    · rename_i s2 hs
      cases h
      have := ht.2.2; rw [hs] at this; exact this.trans hsl
    · cases h

end Acra.Lemmas.NPD
