/-
  Closed forms for `NPDSegment.unpack` (what the decoder makes of ANY buffer that holds the 8-byte segment
  header) and for the segment loop of `NPD.unpack` (a walk over the bytes with the REWRITTEN lengths).
-/
import Acra.Model.NPD
import Acra.Lemmas.Bits
import Acra.Lemmas.NPD
import Acra.Lemmas.Walk
namespace Acra.Lemmas.NPD
open Acra.Py Acra.Model.NPD Acra.Gen.NPD Acra.Lemmas.Bits Acra.Lemmas.Walk

/-- the length a segment header declares: big-endian 16 bits at bytes 4..5 -/
def segDeclared (rem : Bytes) : Nat := beNat ((rem.drop 4).take 2)

/-- the length the decoder ends up with: the declared one clamped into `[8, len(buffer)]`
    (`buffer[8:segmentlen]` clamps at the end of the buffer and is empty below 8; the `payload` setter then
    rewrites `segmentlen` to `8 + len(payload)`) -/
def segLen (rem : Bytes) : Nat := max 8 (min (segDeclared rem) rem.length)

/-- bytes the segment loop advances by -/
def segAdvance (rem : Bytes) : Nat := roundUp4 (segLen rem)

/-- the payload the decoder stores: `buffer[8 : segLen]` -/
def segPayload (rem : Bytes) : Bytes := slice rem 8 (segLen rem)

theorem segPayload_eq (rem : Bytes) : segPayload rem = slice rem 8 (segDeclared rem) := by
  simp only [segPayload, segLen, slice]
  by_cases h : 8 ≤ min (segDeclared rem) rem.length
  · rw [Nat.max_eq_right h]
    by_cases h2 : segDeclared rem ≤ rem.length
    · rw [Nat.min_eq_left h2]
    · rw [Nat.min_eq_right (by omega), List.take_of_length_le (Nat.le_refl _), List.take_of_length_le (by omega)]
  · rw [Nat.max_eq_left (by omega)]
    apply List.ext_getElem?
    intro i
    simp only [List.getElem?_drop, List.getElem?_take]
    have h1 : ¬ (8 + i < 8) := by omega
    have h2 : 8 + i < segDeclared rem → rem[8 + i]? = none := by
      intro h'
      simp
      omega
    by_cases h3 : 8 + i < segDeclared rem
    · simp [h1, h3, h2 h3]
    · simp [h1, h3]

theorem segPayload_length (rem : Bytes) (h8 : 8 ≤ rem.length) : (segPayload rem).length = segLen rem - 8 := by
  simp only [segPayload, slice_length, segLen]
  omega

theorem segLen_ge (rem : Bytes) : 8 ≤ segLen rem := by simp only [segLen]; omega

theorem segLen_le (rem : Bytes) (h8 : 8 ≤ rem.length) : segLen rem ≤ rem.length := by simp only [segLen]; omega

theorem segLen_exact (rem : Bytes) (h1 : 8 ≤ segDeclared rem) (h2 : segDeclared rem ≤ rem.length) :
    segLen rem = segDeclared rem := by simp only [segLen]; omega


theorem segHdr_unpack (buf : Bytes) (h : 8 ≤ buf.length) :
    structUnpackFrom NPD_SEGMENT_HDR_FORMAT buf 0 =
      .ok [beNat (buf.take 4), segDeclared buf, beNat ((buf.drop 6).take 1), beNat ((buf.drop 7).take 1)] := by
  simp only [structUnpackFrom, NPD_SEGMENT_HDR_FORMAT, Fmt.size, codesSize, Code.size, unpackCodes, decInt, List.drop_zero,
    segDeclared, List.drop_drop]
  have : 0 + (4 + (2 + (1 + (1 + 0)))) ≤ buf.length := by omega
  simp only [this, if_true]

/-- the object `NPDSegment.unpack` leaves behind, for any buffer holding the 8-byte header -/
def baseDecoded (t : Seg) (buf : Bytes) : Seg :=
  { t with timedelta := beNat (buf.take 4), segmentlen := segLen buf, errorcode := beNat ((buf.drop 6).take 1),
           flags := beNat ((buf.drop 7).take 1), payload := segPayload buf }

/-- `NPDSegment.unpack` in closed form -/
theorem unpackBase_closed (t : Seg) (buf : Bytes) (h8 : 8 ≤ buf.length) :
    Seg.unpackBase t buf = (baseDecoded t buf, .ok (buf.drop (segAdvance buf))) := by
  have hlen : (slice buf 8 (segDeclared buf)).length + 8 = segLen buf := by
    simp only [slice_length, segLen]; omega
  simp only [Seg.unpackBase, segHdr_unpack buf h8, Seg.setPayload, NPD_SEGMENT_HDR_LEN, hlen, baseDecoded,
    segPayload_eq, segAdvance, roundUp4]
  by_cases hm : segLen buf % 4 = 0
  · simp [hm]
  · have : (4 - segLen buf % 4) % 4 = 4 - segLen buf % 4 := by omega
    simp [hm, this]

theorem unpackBase_short (t : Seg) (buf : Bytes) (h8 : ¬ 8 ≤ buf.length) :
    Seg.unpackBase t buf = (t, .error .struct) := by
  have : structUnpackFrom NPD_SEGMENT_HDR_FORMAT buf 0 = .error .struct := by
    simp only [structUnpackFrom, NPD_SEGMENT_HDR_FORMAT, Fmt.size, codesSize, Code.size]
    have : ¬ (0 + (4 + (2 + (1 + (1 + 0)))) ≤ buf.length) := by omega
    simp [this]
  simp [Seg.unpackBase, this]

/-! ### the typed headers -/

/-- what the typed part of a segment class asks of the payload: ACQ reads `>BBH` (4 bytes; the word count is
    then derived from the length), MIL-STD-1553 reads `>HBB` (4 bytes), RS-232 reads the block status word and
    as many sync bytes as its low three bits say; the plain classes read nothing -/
def TypedHdrOk (k : Kind) (pl : Bytes) : Prop :=
  match k with
  | .acq => 4 ≤ pl.length
  | .mil1553 => 4 ≤ pl.length
  | .rs232 => 2 ≤ pl.length ∧ 2 + beNat (pl.take 2) % 8 ≤ pl.length
  | _ => True

instance (k : Kind) (pl : Bytes) : Decidable (TypedHdrOk k pl) := by
  unfold TypedHdrOk; cases k <;> exact inferInstance

theorem unpackACQ_ok_iff (s : Seg) : (∃ s', s.unpackACQ = (s', .ok ())) ↔ 4 ≤ s.payload.length := by
  simp only [Seg.unpackACQ, structUnpackFrom, ACQSegment_unpack_fmt0, ACQSegment_unpack_fmt1, Fmt.size, codesSize,
    Code.size, unpackCodes, codesSize_replicate]
  by_cases h : 0 + (1 + (1 + (2 + 0))) ≤ s.payload.length
  · have h2 : 4 + 2 * ((s.payload.length - 4) / 2) ≤ s.payload.length := by omega
    simp only [h, if_true, h2]
    constructor
    · intro _; first | trivial | omega
    · intro _; exact ⟨_, rfl⟩
  · simp only [h, if_false]
    constructor
    · rintro ⟨s', hs⟩; cases hs
    · intro h'; first | exact h'.elim | omega

theorem unpack1553_ok_iff (s : Seg) : (∃ s', s.unpack1553 = (s', .ok ())) ↔ 4 ≤ s.payload.length := by
  simp only [Seg.unpack1553, structUnpackFrom, MIL1553Segment_unpack_fmt0, Fmt.size, codesSize, Code.size, unpackCodes]
  by_cases h : 0 + (2 + (1 + (1 + 0))) ≤ s.payload.length
  · simp only [h, if_true]
    constructor
    · intro _; first | trivial | omega
    · intro _; exact ⟨_, rfl⟩
  · simp only [h, if_false]
    constructor
    · rintro ⟨s', hs⟩; cases hs
    · intro h'; first | exact h'.elim | omega

theorem unpackRS232_ok_iff (s : Seg) : (∃ s', s.unpackRS232 = (s', .ok ())) ↔
    (2 ≤ s.payload.length ∧ 2 + beNat (s.payload.take 2) % 8 ≤ s.payload.length) := by
  simp only [Seg.unpackRS232, structUnpackFrom, RS232Segment_unpack_fmt0, RS232Segment_unpack_fmt1, Fmt.size, codesSize,
    Code.size, unpackCodes, codesSize_replicate, BSL_SYNC_COUNT_MASK, and_7', decInt, List.drop_zero, List.length_drop]
  by_cases h : 0 + (2 + 0) ≤ s.payload.length
  · simp only [h, if_true]
    by_cases hc : beNat (List.take 2 s.payload) % 8 > 0
    · simp only [hc, if_true]
      by_cases h2 : 0 + 1 * (beNat (List.take 2 s.payload) % 8) ≤ s.payload.length - 2
      · simp only [h2, if_true]
        constructor
        · intro _; first | omega | exact ⟨trivial, by omega⟩
        · intro _; exact ⟨_, rfl⟩
      · simp only [h2, if_false]
        constructor
        · rintro ⟨s', hs⟩; cases hs
        · intro h'; first | exact h'.elim | omega
    · simp only [hc, if_false]
      constructor
      · intro _; first | omega | exact ⟨trivial, by omega⟩
      · intro _; exact ⟨_, rfl⟩
  · simp only [h, if_false]
    constructor
    · rintro ⟨s', hs⟩; cases hs
    · intro h'; first | exact h'.elim | omega

/-- the typed parts keep `segmentlen` -/
theorem typed_segmentlen (s : Seg) :
    s.unpackACQ.1.segmentlen = s.segmentlen ∧ s.unpackRS232.1.segmentlen = s.segmentlen ∧
    s.unpack1553.1.segmentlen = s.segmentlen := by
  refine ⟨?_, ?_, ?_⟩
  · simp only [Seg.unpackACQ]
    repeat' split
    all_goals rfl
  · simp only [Seg.unpackRS232]
    repeat' split
    all_goals rfl
  · simp only [Seg.unpack1553]
    repeat' split
    all_goals rfl

/-- a segment (of class `k`) at the front of `rem` is accepted: header complete, typed header complete -/
def SegOk (k : Kind) (rem : Bytes) : Prop := 8 ≤ rem.length ∧ TypedHdrOk k (segPayload rem)

instance (k : Kind) (rem : Bytes) : Decidable (SegOk k rem) := by unfold SegOk; exact inferInstance

/-- `<segment class>.unpack` succeeds exactly on `SegOk`, and then leaves the rewritten `segmentlen` -/
theorem Seg_unpack_ok_iff (k : Kind) (rem : Bytes) :
    (∃ g r, Seg.unpack (Seg.fresh k) rem = (g, .ok r)) ↔ SegOk k rem := by
  by_cases h8 : 8 ≤ rem.length
  · have hb := unpackBase_closed (Seg.fresh k) rem h8
    have hpl : (baseDecoded (Seg.fresh k) rem).payload = segPayload rem := rfl
    simp only [Seg.unpack, hb, SegOk, h8, true_and]
    have hk : (Seg.fresh k).kind = k := rfl
    rw [hk]
    cases k <;> simp only [TypedHdrOk]
    · simp
    · rw [← hpl, ← unpackACQ_ok_iff]
      constructor
      · rintro ⟨g, r, h⟩
        split at h
        · rename_i s2 hs; exact ⟨s2, hs⟩
        · cases h
      · rintro ⟨s', hs⟩
        rw [hs]; exact ⟨_, _, rfl⟩
    · simp
    · simp
    · rw [← hpl, ← unpackRS232_ok_iff]
      constructor
      · rintro ⟨g, r, h⟩
        split at h
        · rename_i s2 hs; exact ⟨s2, hs⟩
        · cases h
      · rintro ⟨s', hs⟩
        rw [hs]; exact ⟨_, _, rfl⟩
    · rw [← hpl, ← unpack1553_ok_iff]
      constructor
      · rintro ⟨g, r, h⟩
        split at h
        · rename_i s2 hs; exact ⟨s2, hs⟩
        · cases h
      · rintro ⟨s', hs⟩
        rw [hs]; exact ⟨_, _, rfl⟩
  · have hb := unpackBase_short (Seg.fresh k) rem h8
    simp only [Seg.unpack, hb, SegOk, h8, false_and, iff_false]
    rintro ⟨g, r, h⟩
    cases h

theorem Seg_unpack_segmentlen (k : Kind) (rem : Bytes) (g : Seg) (r : Bytes)
    (h : Seg.unpack (Seg.fresh k) rem = (g, .ok r)) : g.segmentlen = segLen rem ∧ 8 ≤ rem.length := by
  by_cases h8 : 8 ≤ rem.length
  · refine ⟨?_, h8⟩
    have hb := unpackBase_closed (Seg.fresh k) rem h8
    have ht := typed_segmentlen (baseDecoded (Seg.fresh k) rem)
    have hsl : (baseDecoded (Seg.fresh k) rem).segmentlen = segLen rem := rfl
    simp only [Seg.unpack, hb] at h
    have hk : (Seg.fresh k).kind = k := rfl
    rw [hk] at h
    cases k <;> simp only at h
    · cases h; rfl
    · split at h
      · rename_i s2 hs
        cases h
        have := ht.1; rw [hs] at this; exact this.trans hsl
      · cases h
    · cases h; rfl
    · cases h; rfl
    · split at h
      · rename_i s2 hs
        cases h
        have := ht.2.1; rw [hs] at this; exact this.trans hsl
      · cases h
    · split at h
      · rename_i s2 hs
        cases h
        have := ht.2.2; rw [hs] at this; exact this.trans hsl
      · cases h
  · have hb := unpackBase_short (Seg.fresh k) rem h8
    simp only [Seg.unpack, hb] at h
    cases h

/-- the walk `NPD.unpack` performs over the segment area -/
def SegWalk (k : Kind) : Bytes → Prop := Walk (SegOk k) segAdvance

theorem decSeg_walk (k : Kind) (buf : Bytes) :
    (decOff (decSeg k) moreNe buf (buf.length + 1) 0).isOk = true ↔ SegWalk k buf := by
  have := decOff_isOk_iff_walk (decSeg k) moreNe (SegOk k) segAdvance (fun _ _ => rfl)
    (by
      intro rem hok
      obtain ⟨g, r, hg⟩ := (Seg_unpack_ok_iff k rem).2 hok
      have hsl := (Seg_unpack_segmentlen k rem g r hg).1
      refine ⟨g, ?_⟩
      simp only [decSeg, hg, hsl, segAdvance, roundUp4]
      by_cases hm : segLen rem % 4 = 0
      · simp [hm]
      · have : (4 - segLen rem % 4) % 4 = 4 - segLen rem % 4 := by omega
        simp [hm, this])
    (by
      intro rem x n h
      simp only [decSeg] at h
      split at h
      · rename_i g r hg
        have hsl := (Seg_unpack_segmentlen k rem g r hg).1
        refine ⟨(Seg_unpack_ok_iff k rem).1 ⟨g, r, hg⟩, ?_⟩
        simp only [Except.ok.injEq, Prod.mk.injEq] at h
        rw [← h.2, hsl]
        simp only [segAdvance, roundUp4]
        by_cases hm : segLen rem % 4 = 0
        · simp [hm]
        · have : (4 - segLen rem % 4) % 4 = 4 - segLen rem % 4 := by omega
          simp [hm, this]
      · cases h)
    (by
      intro rem _
      have := segLen_ge rem
      have := roundUp4_ge (segLen rem)
      simp only [segAdvance]
      omega)
    buf (buf.length + 1) 0 (by omega)
  simpa [SegWalk] using this

end Acra.Lemmas.NPD
