/-
  Calendar: the day-number algorithms of the time-format-1 model invert each other on every day of
  1970-01-01 … 2099-12-31 (47 482 days), checked by kernel evaluation in twelve chunks.
-/
import Acra.Model.Ch11TimeFmt
namespace Acra.Lemmas.Ch11Calendar
open Acra.Model.Ch11Pay.TimeFmt

def allBelow (f : Nat → Bool) : Nat → Bool
  | 0 => true
  | n + 1 => f n && allBelow f n

theorem allBelow_spec (f : Nat → Bool) (n : Nat) (h : allBelow f n = true) : ∀ i, i < n → f i = true := by
  induction n with
  | zero => intro i hi; omega
  | succ n ih =>
    simp only [allBelow, Bool.and_eq_true] at h
    intro i hi
    by_cases hc : i = n
    · subst hc; exact h.1
    · exact ih h.2 i (by omega)

/-- everything the round-trip theorems need to know about day `d` (counted from 1970-01-01): the civil
    date converts back to the same day number, lies in 1970…2099, is a valid date, and its day of the
    year is 1…366 counted from that year's 1 January (which is not before the epoch) -/
def checkDay (d : Nat) : Bool :=
  let z := d + EPOCH
  let c := civilFromDays z
  daysFromCivil c.1 c.2.1 c.2.2 == z && decide (1970 ≤ c.1) && decide (c.1 ≤ 2099) && decide (1 ≤ c.2.1) &&
    decide (c.2.1 ≤ 12) && decide (1 ≤ c.2.2) && decide (c.2.2 ≤ daysInMonth c.1 c.2.1) &&
    decide (EPOCH ≤ daysFromCivil c.1 1 1) && decide (daysFromCivil c.1 1 1 ≤ z) && decide (z < daysFromCivil c.1 1 1 + 366)

theorem chunk0 : allBelow (fun i => checkDay (0 + i)) 4000 = true := by decide +kernel
theorem chunk1 : allBelow (fun i => checkDay (4000 + i)) 4000 = true := by decide +kernel
theorem chunk2 : allBelow (fun i => checkDay (8000 + i)) 4000 = true := by decide +kernel
theorem chunk3 : allBelow (fun i => checkDay (12000 + i)) 4000 = true := by decide +kernel
theorem chunk4 : allBelow (fun i => checkDay (16000 + i)) 4000 = true := by decide +kernel
theorem chunk5 : allBelow (fun i => checkDay (20000 + i)) 4000 = true := by decide +kernel
theorem chunk6 : allBelow (fun i => checkDay (24000 + i)) 4000 = true := by decide +kernel
theorem chunk7 : allBelow (fun i => checkDay (28000 + i)) 4000 = true := by decide +kernel
theorem chunk8 : allBelow (fun i => checkDay (32000 + i)) 4000 = true := by decide +kernel
theorem chunk9 : allBelow (fun i => checkDay (36000 + i)) 4000 = true := by decide +kernel
theorem chunk10 : allBelow (fun i => checkDay (40000 + i)) 4000 = true := by decide +kernel
theorem chunk11 : allBelow (fun i => checkDay (44000 + i)) 3482 = true := by decide +kernel

/-- the number of days from 1970-01-01 to 2099-12-31 inclusive -/
def DAYS : Nat := 47482

theorem checkDay_all (d : Nat) (h : d < DAYS) : checkDay d = true := by
  unfold DAYS at h
  have hk : d / 4000 < 12 := by omega
  have : d / 4000 = 0 ∨ d / 4000 = 1 ∨ d / 4000 = 2 ∨ d / 4000 = 3 ∨ d / 4000 = 4 ∨ d / 4000 = 5 ∨ d / 4000 = 6 ∨
      d / 4000 = 7 ∨ d / 4000 = 8 ∨ d / 4000 = 9 ∨ d / 4000 = 10 ∨ d / 4000 = 11 := by omega
  rcases this with h0 | h0 | h0 | h0 | h0 | h0 | h0 | h0 | h0 | h0 | h0 | h0
  · have h1 := allBelow_spec _ _ chunk0 (d - 0) (by omega)
    have e : 0 + (d - 0) = d := by omega
    rw [e] at h1; exact h1
  · have h1 := allBelow_spec _ _ chunk1 (d - 4000) (by omega)
    have e : 4000 + (d - 4000) = d := by omega
    rw [e] at h1; exact h1
  · have h1 := allBelow_spec _ _ chunk2 (d - 8000) (by omega)
    have e : 8000 + (d - 8000) = d := by omega
    rw [e] at h1; exact h1
  · have h1 := allBelow_spec _ _ chunk3 (d - 12000) (by omega)
    have e : 12000 + (d - 12000) = d := by omega
    rw [e] at h1; exact h1
  · have h1 := allBelow_spec _ _ chunk4 (d - 16000) (by omega)
    have e : 16000 + (d - 16000) = d := by omega
    rw [e] at h1; exact h1
  · have h1 := allBelow_spec _ _ chunk5 (d - 20000) (by omega)
    have e : 20000 + (d - 20000) = d := by omega
    rw [e] at h1; exact h1
  · have h1 := allBelow_spec _ _ chunk6 (d - 24000) (by omega)
    have e : 24000 + (d - 24000) = d := by omega
    rw [e] at h1; exact h1
  · have h1 := allBelow_spec _ _ chunk7 (d - 28000) (by omega)
    have e : 28000 + (d - 28000) = d := by omega
    rw [e] at h1; exact h1
  · have h1 := allBelow_spec _ _ chunk8 (d - 32000) (by omega)
    have e : 32000 + (d - 32000) = d := by omega
    rw [e] at h1; exact h1
  · have h1 := allBelow_spec _ _ chunk9 (d - 36000) (by omega)
    have e : 36000 + (d - 36000) = d := by omega
    rw [e] at h1; exact h1
  · have h1 := allBelow_spec _ _ chunk10 (d - 40000) (by omega)
    have e : 40000 + (d - 40000) = d := by omega
    rw [e] at h1; exact h1
  · have h1 := allBelow_spec _ _ chunk11 (d - 44000) (by omega)
    have e : 44000 + (d - 44000) = d := by omega
    rw [e] at h1; exact h1

/-- 2099-12-31 is the last day covered; 2100-01-01 is day 47482 -/
example : civilFromDays (47481 + EPOCH) = (2099, 12, 31) ∧ civilFromDays (47482 + EPOCH) = (2100, 1, 1) := by decide

end Acra.Lemmas.Ch11Calendar
