/-
  Review additions for C06:
  * the adaptation-field length law for EVERY object on which `pack` succeeds (no well-formedness predicate);
  * re-encoding the decoded PES / STANAG object (the clause "re-encode without error" for these two classes);
  * `Decidable` instances for the well-formedness predicates, so that joint witnesses can be checked by `decide`.
-/
import Acra.Lemmas.MPEGTS
import Acra.Lemmas.PES
import Acra.Lemmas.PMT
namespace Acra.Lemmas.ReviewC06
open Acra.Py Acra.Model.MPEGTS Acra.Gen.MPEGTS Acra.Lemmas.MPEGTS Acra.Lemmas.PES Acra.Lemmas.PMT Acra.Model.PES

theorem pack_u8u8_ok (f : Fmt) (hf : f = ⟨true, [.u8, .u8]⟩) (n m : Nat) (b : Bytes)
    (h : structPack f [n, m] = .ok b) : n < 256 ∧ m < 256 ∧ b = encInt true 1 n ++ encInt true 1 m := by
  subst hf
  have hfit : Fits (⟨true, [.u8, .u8]⟩ : Fmt).codes [n, m] := (structPack_ok_iff _ _).1 ⟨b, h⟩
  have h2 : n < 256 ∧ m < 256 := by simpa [Fits, Code.bound] using hfit
  rw [structPack_eq _ _ hfit] at h
  injection h with h
  exact ⟨h2.1, h2.2, by rw [← h]; simp [encCodes, Code.size]⟩

theorem enc1_cons (n : Nat) (h : n < 256) (rest : Bytes) :
    encInt true 1 n ++ rest = UInt8.ofNat n :: rest := by
  simp [encInt, beBytes, leBytes, Nat.mod_eq_of_lt h]

theorem len_shape (L : Nat) (body : Bytes) (hL : body.length = L) (h : L < 256) :
    ∃ body', UInt8.ofNat L :: body = UInt8.ofNat body'.length :: body' ∧ body'.length < 256 :=
  ⟨body, by rw [hL], by omega⟩

/-- the shape of a successful `MPEGAdaption.pack` result -/
theorem AF_pack_length_total (a : AF) (b : Bytes) (h : (AF.pack a).2 = .ok b) :
    ∃ body, b = UInt8.ofNat body.length :: body ∧ body.length < 256 := by
  unfold AF.pack at h
  split at h
  · simp at h
  · simp only at h
    split at h
    · simp at h
    · rename_i spl hspl
      split at h
      · simp at h
      · rename_i tl htl
        cases hx : a.adaption_extension with
        | none =>
          simp only [hx] at h
          split at h
          · simp at h
          · rename_i hd hhd
            obtain ⟨h1, h2, h3⟩ := pack_u8u8_ok _ rfl _ _ _ hhd
            simp only [Except.ok.injEq] at h
            subst h h3
            simp only [List.append_assoc]
            rw [enc1_cons _ h1]
            apply len_shape _ _ ?_ h1
            simp only [List.length_append, encInt_length, List.length_replicate, List.length_nil]
            split <;> omega
        | some x =>
          simp only [hx] at h
          split at h
          · simp at h
          · rename_i eb heb
            split at h
            · simp at h
            · rename_i hd hhd
              obtain ⟨h1, h2, h3⟩ := pack_u8u8_ok _ rfl _ _ _ hhd
              simp only [Except.ok.injEq] at h
              subst h h3
              simp only [List.append_assoc]
              rw [enc1_cons _ h1]
              apply len_shape _ _ ?_ h1
              simp only [List.length_append, encInt_length, List.length_replicate]
              split <;> omega
/-- whenever `MPEGPacket.pack` succeeds on a packet with adaptation control 2 or 3 — no well-formedness
    assumed: any flags, any part sizes, any header field values, over-full or not, `nostuff` or not — byte 4 is
    the number of adaptation bytes that follow it and the payload starts right after them -/
theorem Pkt_pack_af_length_total (p : Pkt) (ns : Bool) (b : Bytes) (hb : (Pkt.pack p ns).2 = .ok b)
    (haf : p.adaption_ctrl = 2 ∨ p.adaption_ctrl = 3) :
    ∃ hdr body tail, hdr.length = 4 ∧ body.length < 256 ∧
      b = hdr ++ (UInt8.ofNat body.length :: body) ++ (p.payload ++ tail) := by
  unfold Pkt.pack at hb
  simp only [ADAPTION_ADAPTION_ONLY, ADAPTION_PAYLOAD_AND_ADAPTION, haf, if_true] at hb
  generalize hh : structPack Pkt_pack_fmt0 _ = r at hb
  cases r with
  | error e => simp at hb
  | ok hdr =>
    have hl : hdr.length = 4 := by
      have := structPack_length _ _ _ hh
      simpa [Pkt_pack_fmt0, Fmt.size, codesSize, Code.size] using this
    simp only at hb
    cases hx : p.adaption_field with
    | none =>
      have hz : structPack Pkt_pack_fmt1 [0] = .ok (encInt true 1 0) := pack_u8 _ rfl 0 (by omega)
      simp only [hx, hz, Except.ok.injEq] at hb
      subst hb
      refine ⟨hdr, [], if ns = true then [] else List.replicate (188 - (hdr ++ encInt true 1 0 ++ p.payload).length) 0xFF,
        hl, by simp, ?_⟩
      simp [encInt, beBytes, leBytes]
    | some a =>
      simp only [hx] at hb
      split at hb
      · simp at hb
      · rename_i af haf'
        obtain ⟨body, hbody, hlt⟩ := AF_pack_length_total a af haf'
        simp only [Except.ok.injEq] at hb
        subst hb hbody
        exact ⟨hdr, body, (if ns = true then [] else List.replicate (188 - (hdr ++ (UInt8.ofNat body.length :: body) ++ p.payload).length) 0xFF), hl, hlt, by simp⟩

/-! ### decidability of the well-formedness predicates -/

instance optForallDec {α : Type} (o : Option α) (P : α → Prop) [∀ x, Decidable (P x)] :
    Decidable (∀ x, o = some x → P x) :=
  match o with
  | none => isTrue (by simp)
  | some y => if h : P y then isTrue (by intro x hx; cases hx; exact h) else isFalse (fun hh => h (hh y rfl))

instance (a : AF) : Decidable (AF_WF a) := by unfold AF_WF; infer_instance
instance (p : Pkt) : Decidable (Pkt_WF p) := by unfold Pkt_WF; infer_instance

instance (s : Acra.Model.PES.PES) : Decidable (PES_WF s) :=
  if h : Pkt_WF s.pkt ∧ s.streamid < 256 ∧ PES_len s < 65536 ∧
      (∀ x, PES_ext s = some x → x.1 < 256 ∧ x.2.1 < 256 ∧ x.2.2.length < 256) then
    isTrue ⟨h.1, h.2.1, h.2.2.1, fun w1 w2 hd he => h.2.2.2 (w1, w2, hd) he⟩
  else
    isFalse (fun hh => h ⟨hh.1, hh.2.1, hh.2.2.1, fun x he => hh.2.2.2 x.1 x.2.1 x.2.2 he⟩)

instance (d : Acra.Model.PMT.Desc) : Decidable (Desc_WF d) :=
  match hd : d.tag with
  | none => isFalse (by rintro ⟨t, ht, _⟩; rw [hd] at ht; cases ht)
  | some t =>
    if h : t < 256 ∧ d.data.length < 256 then isTrue ⟨t, hd, h.1, h.2⟩
    else isFalse (by rintro ⟨t', ht, h1, h2⟩; rw [hd] at ht; cases ht; exact h ⟨h1, h2⟩)

instance (x : Acra.Model.PMT.Stream) : Decidable (Stream_WF x) := by unfold Stream_WF; infer_instance
instance (s : Acra.Model.PMT.PMT) : Decidable (PMT_WF s) := by unfold PMT_WF; infer_instance

/-! ### re-encoding the decoded PES / STANAG object -/

theorem Pkt_af_payload (p : Pkt) (pl : Bytes) : Pkt_af { p with payload := pl } = Pkt_af p := rfl

/-- re-encoding what `PES.unpack` made of the encoding of a well-formed `s`: `D` is any object with the decoded
    packet, the stream id, the data followed by the stuffing, and the same optional header as `s` -/
theorem PES_reencode_gen (s D : PES) (h : PES_WF s) (hf : Pkt_used (PES_pkt s) ≤ 188)
    (hD1 : D.pkt = Pkt_decoded (PES_pkt s)) (hD2 : D.streamid = s.streamid)
    (hD3 : D.pesdata = s.pesdata ++ Pkt_stuffing (PES_pkt s)) (hD4 : PES.ext D = PES.ext s) :
    ∃ b', (PES.pack D).2 = .ok b' ∧ b'.length = 188 ∧
      (Pkt_stuffing (PES_pkt s) = [] → b' = Pkt_bytes (PES_pkt s)) := by
  obtain ⟨hw, hsid, hl, hx⟩ := h
  have hwp : Pkt_WF (PES_pkt s) := hw
  have hdec := Pkt_decoded_bytes (PES_pkt s) hwp hf
  have hafD : Pkt_af (PES_pkt D) = Pkt_af (PES_pkt s) := by
    show Pkt_af { D.pkt with payload := PES_payload D } = _
    rw [Pkt_af_payload, hD1, Pkt_af_decoded _ hwp]
  have hext : PES_extBytes D = PES_extBytes s := by
    unfold PES_extBytes PES_ext; rw [hD4]
  have hstuff : (Pkt_stuffing (PES_pkt s)).length = 188 - Pkt_used (PES_pkt s) := by simp [Pkt_stuffing]
  have hlenD : PES_len D = PES_len s + (Pkt_stuffing (PES_pkt s)).length := by
    unfold PES_len; rw [hext, hD3]; simp; omega
  have hpayS : (PES_payload s).length = 6 + PES_len s := by
    simp [PES_payload, PES_len]
  have hpayD : (PES_payload D).length = 6 + PES_len D := by
    simp [PES_payload, PES_len]
  have husedS : Pkt_used (PES_pkt s) = 4 + (Pkt_af (PES_pkt s)).length + (PES_payload s).length := rfl
  have husedD : Pkt_used (PES_pkt D) = 4 + (Pkt_af (PES_pkt D)).length + (PES_payload D).length := rfl
  have hused : Pkt_used (PES_pkt D) = 188 := by
    rw [husedD, hafD, hpayD, hlenD, hstuff]; omega
  have hWD : PES_WF D := by
    refine ⟨by rw [hD1]; exact hdec.1, by rw [hD2]; exact hsid, by rw [hlenD, hstuff]; omega, ?_⟩
    intro w1 w2 hd he
    exact hx w1 w2 hd (by rw [← he]; exact hD4.symm)
  refine ⟨Pkt_bytes (PES_pkt D), by rw [PES_pack_eq D hWD], by rw [Pkt_bytes_length, hused]; rfl, ?_⟩
  intro hnil
  have hpl : PES_payload D = PES_payload s := by
    have hl' : PES_len D = PES_len s := by rw [hlenD, hnil]; simp
    simp only [PES_payload, PES_prefix, hext, hl', hD2, hD3, hnil, List.append_nil]
  have hhdr : Pkt_hdr (PES_pkt D) = Pkt_hdr (PES_pkt s) := by
    show Pkt_hdr { D.pkt with payload := PES_payload D } = _
    rw [hD1]; rfl
  have hus : Pkt_used (PES_pkt s) = 188 := by
    have : (Pkt_stuffing (PES_pkt s)).length = 0 := by rw [hnil]; rfl
    omega
  have hplD : (PES_pkt D).payload = PES_payload D := rfl
  have hplS : (PES_pkt s).payload = PES_payload s := rfl
  unfold Pkt_bytes
  rw [hhdr, hafD, hused, hus, hplD, hplS, hpl]
/-- re-encoding the object `STANAG4609.unpack` made of the encoding of an exactly filled `s` reproduces the bytes;
    `w` is the optional PES header of `s` -/
theorem STANAG_reencode_gen (s : STANAG) (w : Option (Nat × Nat × Bytes)) (h : STANAG_WF s)
    (hw : PES_WF (STANAG_pes s)) (hew : PES.ext s.pes = w) (hfull : Pkt_used (PES_pkt (STANAG_pes s)) = 188) :
    (STANAG.pack (STANAG_decoded s w)).2 = .ok (Pkt_bytes (PES_pkt (STANAG_pes s))) := by
  have hst : Pkt_stuffing (PES_pkt (STANAG_pes s)) = [] := by simp [Pkt_stuffing, hfull]
  have hWD : STANAG_WF (STANAG_decoded s w) := h
  rw [STANAG_pack_eq _ hWD]
  have hext : PES.ext (STANAG_pes (STANAG_decoded s w)) = PES.ext (STANAG_pes s) := by
    have : PES.ext (STANAG_pes s) = w := hew
    rw [this]
    cases w with
    | none => rfl
    | some x => obtain ⟨w1, w2, hd⟩ := x; rfl
  obtain ⟨b', hb', _, heq⟩ := PES_reencode_gen (STANAG_pes s) (STANAG_pes (STANAG_decoded s w)) hw (by omega)
    rfl rfl (by rw [hst, List.append_nil]; rfl) hext
  show (PES.pack (STANAG_pes (STANAG_decoded s w))).2 = _
  rw [hb', heq hst]

end Acra.Lemmas.ReviewC06
