/-
  Review helper for C09: a declarative reading of the record loop `decOff` (Acra/Py/Records.lean).
  `Walk dec1 more buf off xs` says: starting at offset `off` the loop condition holds, the step
  decodes `x₀` and advances by `n₀`, the condition holds again at `off + n₀`, … and fails after the
  last record.  `decOff … = .ok xs` with enough fuel is exactly `Walk … xs`; this is what turns a
  per-step acceptance theorem into a statement about EVERY position of a multi-element packet.
-/
import Acra.Py.Records
namespace Acra.Lemmas.ReviewC09
open Acra.Py

def Walk (dec1 : Bytes → R (α × Nat)) (more : Nat → Nat → Bool) (buf : Bytes) : Nat → List α → Prop
  | off, [] => more off buf.length = false
  | off, x :: xs => more off buf.length = true ∧ ∃ n, dec1 (buf.drop off) = .ok (x, n) ∧ Walk dec1 more buf (off + n) xs

theorem decOff_ok_walk (dec1 : Bytes → R (α × Nat)) (more : Nat → Nat → Bool) (buf : Bytes) (fuel off : Nat)
    (xs : List α) (h : decOff dec1 more buf fuel off = .ok xs) : Walk dec1 more buf off xs := by
  induction fuel generalizing off xs with
  | zero => simp [decOff] at h
  | succ fuel ih =>
    unfold decOff at h
    by_cases hm : more off buf.length = true
    · simp only [hm, if_true] at h
      cases hd : dec1 (buf.drop off) with
      | error e => simp [hd] at h
      | ok r =>
        obtain ⟨x, n⟩ := r
        simp only [hd] at h
        cases hr : decOff dec1 more buf fuel (off + n) with
        | error e => simp [hr] at h
        | ok ys =>
          simp only [hr, Except.ok.injEq] at h
          subst h
          exact ⟨hm, n, hd, ih _ _ hr⟩
    · simp only [hm] at h
      simp only [Bool.false_eq_true, if_false, Except.ok.injEq] at h
      subst h
      simpa [Walk] using hm

theorem walk_decOff (dec1 : Bytes → R (α × Nat)) (more : Nat → Nat → Bool) (buf : Bytes) (fuel off : Nat)
    (xs : List α) (h : Walk dec1 more buf off xs) (hf : xs.length < fuel) :
    decOff dec1 more buf fuel off = .ok xs := by
  induction xs generalizing off fuel with
  | nil =>
    cases fuel with
    | zero => simp at hf
    | succ fuel => simp only [Walk] at h; simp [decOff, h]
  | cons x xs ih =>
    cases fuel with
    | zero => simp at hf
    | succ fuel =>
      obtain ⟨hm, n, hd, hw⟩ := h
      unfold decOff
      simp only [hm, if_true, hd]
      rw [ih fuel (off + n) hw (by simp at hf; omega)]

/-- a step that always advances and never succeeds on the empty string yields at most one record per byte -/
theorem walk_length_le (dec1 : Bytes → R (α × Nat)) (more : Nat → Nat → Bool) (buf : Bytes)
    (hpos : ∀ b x n, dec1 b = .ok (x, n) → 0 < n ∧ 0 < b.length) (off : Nat) (xs : List α)
    (h : Walk dec1 more buf off xs) : xs.length ≤ buf.length - off := by
  induction xs generalizing off with
  | nil => simp
  | cons x xs ih =>
    obtain ⟨_, n, hd, hw⟩ := h
    have := hpos _ _ _ hd
    have := ih _ hw
    simp only [List.length_drop] at *
    simp only [List.length_cons]
    omega

/-- the loop with the model's fuel (`|buf| + 1`) succeeds exactly when a walk exists, and returns it -/
theorem decOff_ok_iff_walk (dec1 : Bytes → R (α × Nat)) (more : Nat → Nat → Bool) (buf : Bytes)
    (hpos : ∀ b x n, dec1 b = .ok (x, n) → 0 < n ∧ 0 < b.length) (xs : List α) :
    decOff dec1 more buf (buf.length + 1) 0 = .ok xs ↔ Walk dec1 more buf 0 xs := by
  constructor
  · exact decOff_ok_walk _ _ _ _ _ _
  · intro h
    have := walk_length_le dec1 more buf hpos 0 xs h
    exact walk_decOff _ _ _ _ _ _ h (by omega)

/-- every record of a walk was decoded by the step at some offset inside the buffer, from the bytes that remain there -/
theorem walk_mem (dec1 : Bytes → R (α × Nat)) (more : Nat → Nat → Bool) (buf : Bytes) (off : Nat) (xs : List α)
    (h : Walk dec1 more buf off xs) : ∀ x ∈ xs, ∃ o n, off ≤ o ∧ more o buf.length = true ∧ dec1 (buf.drop o) = .ok (x, n) := by
  induction xs generalizing off with
  | nil => simp
  | cons y ys ih =>
    obtain ⟨hm, n, hd, hw⟩ := h
    intro x hx
    simp only [List.mem_cons] at hx
    rcases hx with rfl | hx
    · exact ⟨off, n, Nat.le_refl _, hm, hd⟩
    · obtain ⟨o, m, ho, hmo, hdo⟩ := ih _ hw x hx
      exact ⟨o, m, by omega, hmo, hdo⟩

end Acra.Lemmas.ReviewC09
