/-
  Chapter 7, termination of `datapkts_to_ptfr` on ARBITRARY traffic (no layout invariant, the K3 region —
  overflowing low-latency insertions — included), for every frame length L ≥ 1.

  * the inner loop `while len(remainder) > ptfr_len` (`spillFull`) drops L ≥ 1 bytes per iteration: any fuel
    greater than `|remainder|` suffices, the frame it hands back is the fresh one and at most L bytes are left;
  * the outer loop `while remainder != bytes()` (`spill`) therefore runs its body at most ONCE (the ≤ L bytes
    that are left fit the fresh frame, the next remainder is empty): any fuel ≥ 2 suffices;
  * the fuel does not matter beyond that (`spillFull_fuel_irrelevant`, `spill_fuel_irrelevant`).
-/
import Acra.Lemmas.Chapter7Len
import Acra.Lemmas.Chapter7Llp3
namespace Acra.Lemmas.Chapter7
open Acra.Py Acra.Model Acra.Model.Chapter7 Acra.Gen.Chapter7

/-- the inner loop with any frame in hand: enough fuel = more than the remainder's length -/
theorem spillFull_ok_any (L sid : Nat) (hL : 0 < L) :
    ∀ (fuel : Nat) (a : Bool) (cur : PTFR.State) (rem : Bytes) (out : List PTFR.State), rem.length < fuel →
      ∃ a' c' r' o', spillFull L sid fuel a cur rem out = .ok (a', c', r', o') ∧ r'.length ≤ L ∧
        (c' = cur ∨ c' = newPtfr L sid) ∧ out.length ≤ o'.length ∧ o'.length * L + r'.length = out.length * L + rem.length := by
  intro fuel
  induction fuel with
  | zero => intro a cur rem out h; omega
  | succ fuel ih =>
    intro a cur rem out hf
    unfold spillFull
    by_cases hlen : rem.length > L
    · simp only [hlen, if_true]
      obtain ⟨a', c', r', o', h, hr, hc, hlen', hsum⟩ := ih false (newPtfr L sid) (rem.drop L)
        (out ++ [(PTFR.addPayload { cur with ptdp_offset := if a = true then 0x0 else 0x7FF } (slice rem 0 L) false).1])
        (by rw [List.length_drop]; omega)
      refine ⟨a', c', r', o', h, hr, Or.inr (by rcases hc with hc | hc <;> exact hc), ?_, ?_⟩
      · simp only [List.length_append, List.length_singleton] at hlen'; omega
      · simp only [List.length_append, List.length_singleton, List.length_drop] at hsum hlen'
        rw [Nat.add_mul] at hsum; omega
    · simp only [hlen, if_false]
      exact ⟨a, cur, rem, out, rfl, by omega, Or.inl rfl, Nat.le_refl _, rfl⟩

/-- as `spill` calls it (fresh frame in hand): the frame handed back is the fresh frame -/
theorem spillFull_ok (L sid : Nat) (hL : 0 < L) (fuel : Nat) (a : Bool) (rem : Bytes) (out : List PTFR.State)
    (hf : rem.length < fuel) :
    ∃ a' r' o', spillFull L sid fuel a (newPtfr L sid) rem out = .ok (a', newPtfr L sid, r', o') ∧ r'.length ≤ L := by
  obtain ⟨a', c', r', o', h, hr, hc, _, _⟩ := spillFull_ok_any L sid hL fuel a (newPtfr L sid) rem out hf
  have : c' = newPtfr L sid := by rcases hc with hc | hc <;> exact hc
  subst this
  exact ⟨a', r', o', h, hr⟩

/-- the result of the inner loop does not depend on the fuel once it exceeds the remainder's length -/
theorem spillFull_fuel_irrelevant (L sid : Nat) (hL : 0 < L) :
    ∀ (f1 f2 : Nat) (a : Bool) (cur : PTFR.State) (rem : Bytes) (out : List PTFR.State),
      rem.length < f1 → rem.length < f2 →
      spillFull L sid f1 a cur rem out = spillFull L sid f2 a cur rem out := by
  intro f1
  induction f1 with
  | zero => intro f2 a cur rem out h; omega
  | succ f1 ih =>
    intro f2 a cur rem out h1 h2
    cases f2 with
    | zero => omega
    | succ f2 =>
      unfold spillFull
      by_cases hlen : rem.length > L
      · simp only [hlen, if_true]
        exact ih f2 _ _ _ _ (by rw [List.length_drop]; omega) (by rw [List.length_drop]; omega)
      · simp only [hlen, if_false]

/-- what one run of the outer loop with a non-empty remainder returns: the inner loop, then the ≤ L bytes left
    go into the fresh frame and nothing remains -/
theorem spill_eq (L sid : Nat) (hL : 0 < L) (fuel : Nat) (a : Bool) (cur : PTFR.State) (rem : Bytes)
    (out : List PTFR.State) (hr : rem ≠ []) :
    ∃ a' r' o', spillFull L sid (rem.length + 1) a (newPtfr L sid) rem (out ++ [cur]) = .ok (a', newPtfr L sid, r', o') ∧
      r'.length ≤ L ∧
      spill L sid (fuel + 2) a cur rem out =
        .ok ({ newPtfr L sid with
                ptdp_offset := if a' then 0x0 else if r'.length == L then 0x7FF else r'.length, payload := r' }, o') := by
  obtain ⟨a', r', o', h, hle⟩ := spillFull_ok L sid hL (rem.length + 1) a rem (out ++ [cur]) (by omega)
  refine ⟨a', r', o', h, hle, ?_⟩
  unfold spill
  simp only [hr, if_false, h]
  rw [addPayload_fill _ r' rfl (by simpa [newPtfr] using hle)]
  simp only
  unfold spill
  simp [newPtfr]

/-- the outer loop: fuel 2 always suffices (the driver passes `|remainder| + 2`) -/
theorem spill_ok (L sid : Nat) (hL : 0 < L) (fuel : Nat) (hf : 2 ≤ fuel) (a : Bool) (cur : PTFR.State) (rem : Bytes)
    (out : List PTFR.State) : ∃ c' o', spill L sid fuel a cur rem out = .ok (c', o') := by
  obtain ⟨n, rfl⟩ : ∃ n, fuel = n + 2 := ⟨fuel - 2, by omega⟩
  by_cases hr : rem = []
  · subst hr; exact ⟨cur, out, by simp [spill]⟩
  · obtain ⟨a', r', o', _, _, h⟩ := spill_eq L sid hL n a cur rem out hr
    exact ⟨_, _, h⟩

/-- … and its result does not depend on the fuel -/
theorem spill_fuel_irrelevant (L sid : Nat) (hL : 0 < L) (f1 f2 : Nat) (h1 : 2 ≤ f1) (h2 : 2 ≤ f2) (a : Bool)
    (cur : PTFR.State) (rem : Bytes) (out : List PTFR.State) :
    spill L sid f1 a cur rem out = spill L sid f2 a cur rem out := by
  obtain ⟨n1, rfl⟩ : ∃ n, f1 = n + 2 := ⟨f1 - 2, by omega⟩
  obtain ⟨n2, rfl⟩ : ∃ n, f2 = n + 2 := ⟨f2 - 2, by omega⟩
  by_cases hr : rem = []
  · subst hr; simp [spill]
  · obtain ⟨a1, r1, o1, e1, _, h1⟩ := spill_eq L sid hL n1 a cur rem out hr
    obtain ⟨a2, r2, o2, e2, _, h2⟩ := spill_eq L sid hL n2 a cur rem out hr
    rw [e1] at e2
    simp only [Except.ok.injEq, Prod.mk.injEq, true_and] at e2
    obtain ⟨ha, hr', ho⟩ := e2
    subst ha hr' ho
    rw [h1, h2]

/-- one step of the `for ptdp in …` loop on any PTDP that packs -/
theorem encStep_ok (L sid : Nat) (hL : 0 < L) (st : PTFR.State × List PTFR.State) (p : PTDP.State) (hp : PTDP_WF p) :
    ∃ c' o', encStep L sid st p = .ok (c', o') := by
  obtain ⟨cur, out⟩ := st
  unfold encStep
  simp only [pack_encB p hp]
  exact spill_ok L sid hL _ (by omega) _ _ _ _

theorem encFold_ok (L sid : Nat) (hL : 0 < L) (ps : List PTDP.State) (hps : ∀ p ∈ ps, PTDP_WF p) :
    ∀ st : PTFR.State × List PTFR.State, ∃ c' o', encFold L sid ps st = .ok (c', o') := by
  induction ps with
  | nil => intro st; exact ⟨st.1, st.2, rfl⟩
  | cons p ps ih =>
    intro st
    obtain ⟨c1, o1, h1⟩ := encStep_ok L sid hL st p (hps p (by simp))
    obtain ⟨c2, o2, h2⟩ := ih (fun q hq => hps q (by simp [hq])) (c1, o1)
    exact ⟨c2, o2, by simp only [encFold, h1, h2]⟩

/-- `datapkts_to_ptfr` terminates on every input for every frame length ≥ 1 -/
theorem datapktsToPtfr_ok (pkts : List (Bytes × Bool)) (L sid : Nat) (hL : 0 < L) :
    ∃ cur out, datapktsToPtfr pkts L sid = .ok (cur, out) :=
  encFold_ok L sid hL _ (datapktsToPtdp_wf pkts) _

/-! ### byte accounting: the encapsulator neither loses nor invents a byte, overflowing insertions included -/

/-- `add_payload` conserves bytes: what the frame holds afterwards plus what is handed back = what it held + the
    buffer (+ the continuation byte of a low-latency insertion) -/
theorem addPayload_conserve (s : PTFR.State) (buf : Bytes) (isLlp : Bool) :
    (PTFR.addPayload s buf isLlp).1.payload.length + (PTFR.addPayload s buf isLlp).2.length =
      s.payload.length + buf.length + (if isLlp then 1 else 0) := by
  have hb0 : PTFR.byte1 PTFR_add_payload_fmt0 0xFF = [0xFF] := byte1_val _ _ rfl (by decide)
  have hb1 : PTFR.byte1 PTFR_add_payload_fmt1 0x0 = [0x00] := byte1_val _ _ rfl (by decide)
  have hb2 : PTFR.byte1 PTFR_add_payload_fmt2 0x0 = [0x00] := byte1_val _ _ rfl (by decide)
  have cut : ∀ s1 : PTFR.State,
      (if s1.payload.length > s1.length then
        (({ s1 with payload := s1.payload.take s1.length } : PTFR.State), s1.payload.drop s1.length)
       else (s1, [])).1.payload.length +
      (if s1.payload.length > s1.length then
        (({ s1 with payload := s1.payload.take s1.length } : PTFR.State), s1.payload.drop s1.length)
       else (s1, [])).2.length = s1.payload.length := by
    intro s1
    split
    · simp only [List.length_take, List.length_drop]; omega
    · simp
  unfold PTFR.addPayload
  simp only
  rw [cut]
  cases isLlp with
  | false => simp
  | true =>
    by_cases hp : s.payload.length > 0
    · cases hl : s.llp <;> simp [hp, hb0, hb1] <;> omega
    · have h0 : s.payload.length = 0 := by omega
      simp [h0, hb2]

/-- the outer loop conserves bytes (its precondition as `encStep` establishes it: a non-empty remainder means the
    frame in hand is full) -/
theorem spill_conserve (L sid : Nat) (hL : 0 < L) (fuel : Nat) (hf : 2 ≤ fuel) (a : Bool) (cur : PTFR.State) (rem : Bytes)
    (out : List PTFR.State) (hfull : rem ≠ [] → cur.payload.length = L) (c' : PTFR.State) (o' : List PTFR.State)
    (h : spill L sid fuel a cur rem out = .ok (c', o')) :
    o'.length * L + c'.payload.length = out.length * L + cur.payload.length + rem.length := by
  obtain ⟨n, rfl⟩ : ∃ n, fuel = n + 2 := ⟨fuel - 2, by omega⟩
  by_cases hr : rem = []
  · subst hr
    simp only [spill, if_true, Except.ok.injEq, Prod.mk.injEq] at h
    obtain ⟨h1, h2⟩ := h
    subst h1 h2
    simp
  · obtain ⟨a', r', o1, hsf, _, hsp⟩ := spill_eq L sid hL n a cur rem out hr
    obtain ⟨a2, c2, r2, o2, hsf2, _, _, _, hsum⟩ :=
      spillFull_ok_any L sid hL (rem.length + 1) a (newPtfr L sid) rem (out ++ [cur]) (by omega)
    rw [hsf] at hsf2
    simp only [Except.ok.injEq, Prod.mk.injEq] at hsf2
    obtain ⟨_, _, e3, e4⟩ := hsf2
    subst e3 e4
    rw [hsp] at h
    simp only [Except.ok.injEq, Prod.mk.injEq] at h
    obtain ⟨h1, h2⟩ := h
    subst h1 h2
    simp only [List.length_append, List.length_singleton] at hsum
    rw [Nat.add_mul] at hsum
    have := hfull hr
    simp only
    omega

/-- bytes a PTDP occupies in the frames: 6 header bytes, the payload, and the continuation byte if low-latency -/
def ptdpCost (p : PTDP.State) : Nat := 6 + p.payload.length + (if p.low_latency then 1 else 0)

theorem encFold_conserve (L sid : Nat) (hL : 0 < L) (ps : List PTDP.State) (hps : ∀ p ∈ ps, PTDP_WF p) :
    ∀ (cur : PTFR.State) (out : List PTFR.State) (c' : PTFR.State) (o' : List PTFR.State),
      cur.length = L → cur.payload.length ≤ L → encFold L sid ps (cur, out) = .ok (c', o') →
      o'.length * L + c'.payload.length = out.length * L + cur.payload.length + (ps.map ptdpCost).sum := by
  induction ps with
  | nil =>
    intro cur out c' o' _ _ h
    simp only [encFold, Except.ok.injEq, Prod.mk.injEq] at h
    obtain ⟨h1, h2⟩ := h; subst h1 h2; simp
  | cons p ps ih =>
    intro cur out c' o' hlen hle h
    simp only [encFold] at h
    cases hs : encStep L sid (cur, out) p with
    | error e => rw [hs] at h; cases h
    | ok st1 =>
      obtain ⟨cur1, out1⟩ := st1
      rw [hs] at h
      simp only at h
      unfold encStep at hs
      simp only [pack_encB p (hps p (by simp))] at hs
      have hf := addPayload_facts cur (encB p) p.low_latency
      have hc := addPayload_conserve cur (encB p) p.low_latency
      cases hadd : PTFR.addPayload cur (encB p) p.low_latency with
      | mk cur0 rem =>
        rw [hadd] at hs hf hc
        simp only at hs hf hc
        have h1 := spill_conserve L sid hL _ (by omega) _ cur0 rem out
          (fun hne => by rw [hf.2.2.2.2 hne, hlen]) cur1 out1 hs
        have h2 := ih (fun q hq => hps q (by simp [hq])) cur1 out1 c' o'
        -- the frame after the step is again an open frame of length L
        have hcur1 : cur1.length = L ∧ cur1.payload.length ≤ L := by
          by_cases hr : rem = []
          · subst hr
            simp only [spill, if_true, Except.ok.injEq, Prod.mk.injEq] at hs
            obtain ⟨e1, _⟩ := hs
            subst e1
            exact ⟨by rw [hf.1, hlen], by rw [← hlen]; exact hf.2.2.2.1⟩
          · obtain ⟨a', r', o1, _, hr', hsp⟩ := spill_eq L sid hL rem.length
              ((cur.payload.length == L) && !p.low_latency) cur0 rem out hr
            rw [hsp] at hs
            simp only [Except.ok.injEq, Prod.mk.injEq] at hs
            obtain ⟨e1, _⟩ := hs
            subst e1
            exact ⟨rfl, hr'⟩
        have := h2 hcur1.1 hcur1.2 h
        simp only [List.map_cons, List.sum_cons, ptdpCost]
        rw [encB_length] at hc
        omega

/-- the whole encapsulator: frames yielded × L + bytes pending = Σ over the PTDPs of (6 + payload + continuation byte) -/
theorem datapktsToPtfr_conserve (pkts : List (Bytes × Bool)) (L sid : Nat) (hL : 0 < L) (cur : PTFR.State)
    (out : List PTFR.State) (h : datapktsToPtfr pkts L sid = .ok (cur, out)) :
    out.length * L + cur.payload.length = ((datapktsToPtdp pkts).map ptdpCost).sum := by
  have := encFold_conserve L sid hL (datapktsToPtdp pkts) (datapktsToPtdp_wf pkts) (newPtfr L sid) [] cur out rfl
    (by simp [newPtfr, PTFR.fresh]) h
  simpa [newPtfr, PTFR.fresh] using this

end Acra.Lemmas.Chapter7
