/-
  Chapter 7, termination of `datapkts_to_ptfr` on ARBITRARY traffic (no layout invariant, the K3 region —
  overflowing low-latency insertions — included), for every frame length L ≥ 1.

  * the inner loop `while len(remainder) > ptfr_len` (`spillFull`) drops L ≥ 1 bytes per iteration: any fuel
    greater than `|remainder|` suffices, the frame it hands back is the fresh one and at most L bytes are left;
  * the outer loop `while remainder != bytes()` (`spill`) therefore runs its body at most ONCE (the ≤ L bytes
    that are left fit the fresh frame, the next remainder is empty): any fuel ≥ 2 suffices;
  * the fuel does not matter beyond that (`spillFull_fuel_irrelevant`, `spill_fuel_irrelevant`).
-/
import Acra.Lemmas.Chapter7Len
import Acra.Lemmas.Chapter7Llp3
namespace Acra.Lemmas.Chapter7
open Acra.Py Acra.Model Acra.Model.Chapter7 Acra.Gen.Chapter7

/-- the inner loop with any frame in hand: enough fuel = more than the remainder's length -/
theorem spillFull_ok_any (L sid : Nat) (hL : 0 < L) :
    ∀ (fuel : Nat) (a : Bool) (cur : PTFR.State) (rem : Bytes) (out : List PTFR.State), rem.length < fuel →
      ∃ a' c' r' o', spillFull L sid fuel a cur rem out = .ok (a', c', r', o') ∧ r'.length ≤ L ∧
        (c' = cur ∨ c' = newPtfr L sid) ∧ out.length ≤ o'.length ∧ o'.length * L + r'.length = out.length * L + rem.length := by
  intro fuel
  induction fuel with
  | zero => intro a cur rem out h; omega
  | succ fuel ih =>
    intro a cur rem out hf
    unfold spillFull
    by_cases hlen : rem.length > L
    · simp only [hlen, if_true]
      obtain ⟨a', c', r', o', h, hr, hc, hlen', hsum⟩ := ih false (newPtfr L sid) (rem.drop L)
        (out ++ [(PTFR.addPayload { cur with ptdp_offset := if a = true then 0x0 else 0x7FF } (slice rem 0 L) false).1])
        (by rw [List.length_drop]; omega)
      refine ⟨a', c', r', o', h, hr, Or.inr (by rcases hc with hc | hc <;> exact hc), ?_, ?_⟩
      · simp only [List.length_append, List.length_singleton] at hlen'; omega
      · simp only [List.length_append, List.length_singleton, List.length_drop] at hsum hlen'
        rw [Nat.add_mul] at hsum; omega
    · simp only [hlen, if_false]
      exact ⟨a, cur, rem, out, rfl, by omega, Or.inl rfl, Nat.le_refl _, rfl⟩

/-- as `spill` calls it (fresh frame in hand): the frame handed back is the fresh frame -/
theorem spillFull_ok (L sid : Nat) (hL : 0 < L) (fuel : Nat) (a : Bool) (rem : Bytes) (out : List PTFR.State)
    (hf : rem.length < fuel) :
    ∃ a' r' o', spillFull L sid fuel a (newPtfr L sid) rem out = .ok (a', newPtfr L sid, r', o') ∧ r'.length ≤ L := by
  obtain ⟨a', c', r', o', h, hr, hc, _, _⟩ := spillFull_ok_any L sid hL fuel a (newPtfr L sid) rem out hf
  have : c' = newPtfr L sid := by rcases hc with hc | hc <;> exact hc
  subst this
  exact ⟨a', r', o', h, hr⟩

/-- the result of the inner loop does not depend on the fuel once it exceeds the remainder's length -/
theorem spillFull_fuel_irrelevant (L sid : Nat) (hL : 0 < L) :
    ∀ (f1 f2 : Nat) (a : Bool) (cur : PTFR.State) (rem : Bytes) (out : List PTFR.State),
      rem.length < f1 → rem.length < f2 →
      spillFull L sid f1 a cur rem out = spillFull L sid f2 a cur rem out := by
  intro f1
  induction f1 with
  | zero => intro f2 a cur rem out h; omega
  | succ f1 ih =>
    intro f2 a cur rem out h1 h2
    cases f2 with
    | zero => omega
    | succ f2 =>
      unfold spillFull
      by_cases hlen : rem.length > L
      · simp only [hlen, if_true]
        exact ih f2 _ _ _ _ (by rw [List.length_drop]; omega) (by rw [List.length_drop]; omega)
      · simp only [hlen, if_false]

/-- what one run of the outer loop with a non-empty remainder returns: the inner loop, then the ≤ L bytes left
    go into the fresh frame and nothing remains -/
theorem spill_eq (L sid : Nat) (hL : 0 < L) (fuel : Nat) (a : Bool) (cur : PTFR.State) (rem : Bytes)
    (out : List PTFR.State) (hr : rem ≠ []) :
    ∃ a' r' o', spillFull L sid (rem.length + 1) a (newPtfr L sid) rem (out ++ [cur]) = .ok (a', newPtfr L sid, r', o') ∧
      r'.length ≤ L ∧
      spill L sid (fuel + 2) a cur rem out =
        .ok ({ newPtfr L sid with
                ptdp_offset := if a' then 0x0 else if r'.length == L then 0x7FF else r'.length, payload := r' }, o') := by
  obtain ⟨a', r', o', h, hle⟩ := spillFull_ok L sid hL (rem.length + 1) a rem (out ++ [cur]) (by omega)
  refine ⟨a', r', o', h, hle, ?_⟩
  unfold spill
  simp only [hr, if_false, h]
  rw [addPayload_fill _ r' rfl (by simpa [newPtfr] using hle)]
  simp only
  unfold spill
  simp [newPtfr]

/-- the outer loop: fuel 2 always suffices (the driver passes `|remainder| + 2`) -/
theorem spill_ok (L sid : Nat) (hL : 0 < L) (fuel : Nat) (hf : 2 ≤ fuel) (a : Bool) (cur : PTFR.State) (rem : Bytes)
    (out : List PTFR.State) : ∃ c' o', spill L sid fuel a cur rem out = .ok (c', o') := by
  obtain ⟨n, rfl⟩ : ∃ n, fuel = n + 2 := ⟨fuel - 2, by omega⟩
  by_cases hr : rem = []
  · subst hr; exact ⟨cur, out, by simp [spill]⟩
  · obtain ⟨a', r', o', _, _, h⟩ := spill_eq L sid hL n a cur rem out hr
    exact ⟨_, _, h⟩

/-- … and its result does not depend on the fuel -/
theorem spill_fuel_irrelevant (L sid : Nat) (hL : 0 < L) (f1 f2 : Nat) (h1 : 2 ≤ f1) (h2 : 2 ≤ f2) (a : Bool)
    (cur : PTFR.State) (rem : Bytes) (out : List PTFR.State) :
    spill L sid f1 a cur rem out = spill L sid f2 a cur rem out := by
  obtain ⟨n1, rfl⟩ : ∃ n, f1 = n + 2 := ⟨f1 - 2, by omega⟩
  obtain ⟨n2, rfl⟩ : ∃ n, f2 = n + 2 := ⟨f2 - 2, by omega⟩
  by_cases hr : rem = []
  · subst hr; simp [spill]
  · obtain ⟨a1, r1, o1, e1, _, h1⟩ := spill_eq L sid hL n1 a cur rem out hr
    obtain ⟨a2, r2, o2, e2, _, h2⟩ := spill_eq L sid hL n2 a cur rem out hr
    rw [e1] at e2
    simp only [Except.ok.injEq, Prod.mk.injEq, true_and] at e2
    obtain ⟨ha, hr', ho⟩ := e2
    subst ha hr' ho
    rw [h1, h2]

/-- one step of the `for ptdp in …` loop on any PTDP that packs -/
theorem encStep_ok (L sid : Nat) (hL : 0 < L) (st : PTFR.State × List PTFR.State) (p : PTDP.State) (hp : PTDP_WF p) :
    ∃ c' o', encStep L sid st p = .ok (c', o') := by
  obtain ⟨cur, out⟩ := st
  unfold encStep
  simp only [pack_encB p hp]
  exact spill_ok L sid hL _ (by omega) _ _ _ _

theorem encFold_ok (L sid : Nat) (hL : 0 < L) (ps : List PTDP.State) (hps : ∀ p ∈ ps, PTDP_WF p) :
    ∀ st : PTFR.State × List PTFR.State, ∃ c' o', encFold L sid ps st = .ok (c', o') := by
  induction ps with
  | nil => intro st; exact ⟨st.1, st.2, rfl⟩
  | cons p ps ih =>
    intro st
    obtain ⟨c1, o1, h1⟩ := encStep_ok L sid hL st p (hps p (by simp))
    obtain ⟨c2, o2, h2⟩ := ih (fun q hq => hps q (by simp [hq])) (c1, o1)
    exact ⟨c2, o2, by simp only [encFold, h1, h2]⟩

/-- `datapkts_to_ptfr` terminates on every input for every frame length ≥ 1 -/
theorem datapktsToPtfr_ok (pkts : List (Bytes × Bool)) (L sid : Nat) (hL : 0 < L) :
    ∃ cur out, datapktsToPtfr pkts L sid = .ok (cur, out) :=
  encFold_ok L sid hL _ (datapktsToPtdp_wf pkts) _

end Acra.Lemmas.Chapter7
