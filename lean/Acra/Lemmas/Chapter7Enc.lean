/-
  Chapter 7, part 3: the encapsulator `datapkts_to_ptfr` on normal (non-low-latency) traffic.
  Invariant `EncInv`: after any number of PTDPs with encodings `bs` (stream `S = bs.flatten`, PTDP
  start positions `st = startsAux 0 bs`) the frames emitted are exactly the complete L-byte pieces of
  `S` that are followed by more data, each with the Spec's offset, and the frame under construction
  holds the rest with the offset computed as if the next PTDP started at the end of the stream.
-/
import Acra.Lemmas.Chapter7
namespace Acra.Lemmas.Chapter7
open Acra.Py Acra.Model Acra.Model.Chapter7 Acra.Gen.Chapter7
open Acra.Spec.Ch7 (offset startsAux)

/-! ### the offset function of the Spec on increasing start lists -/

def inFrame (L k : Nat) (p : Nat) : Bool := decide (k * L ≤ p) && decide (p < (k + 1) * L)

theorem offset_def (L : Nat) (st : List Nat) (k : Nat) :
    offset L st k = match st.find? (inFrame L k) with
      | some p => p - k * L
      | none => 0x7FF := rfl

theorem find_none_of_lt (L k : Nat) (st : List Nat) (h : ∀ p ∈ st, p < k * L) :
    st.find? (inFrame L k) = none := by
  rw [List.find?_eq_none]
  intro p hp
  have := h p hp
  simp [inFrame]; omega

theorem find_none_of_ge (L k : Nat) (st : List Nat) (h : ∀ p ∈ st, (k + 1) * L ≤ p) :
    st.find? (inFrame L k) = none := by
  rw [List.find?_eq_none]
  intro p hp
  have := h p hp
  simp [inFrame]; omega

/-- no start before frame `k`: the appended position decides -/
theorem offset_append_one (L k : Nat) (st : List Nat) (y : Nat) (h : ∀ p ∈ st, p < k * L) :
    offset L (st ++ [y]) k = if k * L ≤ y ∧ y < (k + 1) * L then y - k * L else 0x7FF := by
  rw [offset_def, List.find?_append, find_none_of_lt L k st h]
  simp only [Option.none_or, List.find?_cons, List.find?_nil, inFrame]
  by_cases h1 : k * L ≤ y ∧ y < (k + 1) * L
  · simp [h1]
  · simp only [h1, if_false]
    have : (decide (k * L ≤ y) && decide (y < (k + 1) * L)) = false := by
      simp only [Bool.and_eq_false_imp, decide_eq_true_eq, decide_eq_false_iff_not]; omega
    simp [this]

/-- positions at or beyond the end of frame `k` do not change its offset -/
theorem offset_append_ge (L k : Nat) (st l : List Nat) (h : ∀ p ∈ l, (k + 1) * L ≤ p) :
    offset L (st ++ l) k = offset L st k := by
  rw [offset_def, offset_def, List.find?_append, find_none_of_ge L k l h]
  cases st.find? (inFrame L k) <;> rfl

/-- a hit in the first part is not disturbed by what follows -/
theorem offset_append_hit (L k : Nat) (st l : List Nat) (h : (st.find? (inFrame L k)).isSome) :
    offset L (st ++ l) k = offset L st k := by
  rw [offset_def, offset_def, List.find?_append]
  cases hf : st.find? (inFrame L k) with
  | none => rw [hf] at h; cases h
  | some p => rfl

/-! ### add_payload on normal data -/

theorem addPayload_normal (s : PTFR.State) (buf : Bytes) :
    PTFR.addPayload s buf false =
      if (s.payload ++ buf).length > s.length then
        ({ s with payload := (s.payload ++ buf).take s.length }, (s.payload ++ buf).drop s.length)
      else ({ s with payload := s.payload ++ buf }, []) := by
  simp [PTFR.addPayload]

theorem addPayload_fill (s : PTFR.State) (buf : Bytes) (hp : s.payload = []) (hb : buf.length ≤ s.length) :
    PTFR.addPayload s buf false = ({ s with payload := buf }, []) := by
  rw [addPayload_normal, hp]
  have : ¬ (buf.length > s.length) := by omega
  simp only [List.nil_append, this, if_false]

/-! ### start positions -/

theorem startsAux_append (pos : Nat) (a b : List Bytes) :
    startsAux pos (a ++ b) = startsAux pos a ++ startsAux (pos + a.flatten.length) b := by
  induction a generalizing pos with
  | nil => simp [startsAux]
  | cons x xs ih =>
    simp only [List.cons_append, startsAux, ih, List.flatten_cons, List.length_append, List.cons.injEq,
      true_and]
    rw [Nat.add_assoc]

theorem startsAux_lt (pos : Nat) (bs : List Bytes) (hne : ∀ b ∈ bs, b ≠ []) :
    ∀ p ∈ startsAux pos bs, p < pos + bs.flatten.length := by
  induction bs generalizing pos with
  | nil => simp [startsAux]
  | cons x xs ih =>
    intro p hp
    simp only [startsAux, List.mem_cons] at hp
    have hx : 0 < x.length := List.length_pos_iff.2 (hne x (by simp))
    simp only [List.flatten_cons, List.length_append]
    rcases hp with rfl | hp
    · omega
    · have := ih (pos + x.length) (fun b hb => hne b (by simp [hb])) p hp
      omega

/-! ### the frames of a stream -/

/-- frame `k` of the stream `S` with PTDP starts `st` -/
def frameOf (L sid : Nat) (S : Bytes) (st : List Nat) (k : Nat) : PTFR.State :=
  { newPtfr L sid with ptdp_offset := offset L st k, payload := slice S (k * L) ((k + 1) * L) }

theorem frameOf_grow (L sid : Nat) (S b : Bytes) (st l : List Nat) (k : Nat)
    (hS : (k + 1) * L ≤ S.length) (hl : ∀ p ∈ l, (k + 1) * L ≤ p) :
    frameOf L sid (S ++ b) (st ++ l) k = frameOf L sid S st k := by
  simp only [frameOf, offset_append_ge L k st l hl, slice, List.take_append_of_le_length hS]

structure EncInv (L sid : Nat) (bs : List Bytes) (cur : PTFR.State) (out : List PTFR.State) : Prop where
  out_eq : out = (List.range out.length).map (frameOf L sid bs.flatten (startsAux 0 bs))
  cur_eq : cur = { newPtfr L sid with
                    ptdp_offset := offset L (startsAux 0 bs ++ [bs.flatten.length]) out.length,
                    payload := bs.flatten.drop (out.length * L) }
  lo : out.length * L ≤ bs.flatten.length
  hi : bs.flatten.length ≤ (out.length + 1) * L

/-- while the PTDP that begins at `x` is being spread over frames: `S`, `st` already include it -/
structure FlightInv (L sid : Nat) (S : Bytes) (st : List Nat) (x : Nat) (atStart : Bool) (rem : Bytes)
    (out : List PTFR.State) : Prop where
  out_eq : out = (List.range out.length).map (frameOf L sid S (st ++ [x]))
  rem_eq : rem = S.drop (out.length * L)
  at_true : atStart = true → x = out.length * L
  at_false : atStart = false → x < out.length * L

theorem range_map_snoc (f : Nat → α) (n : Nat) :
    (List.range n).map f ++ [f n] = (List.range (n + 1)).map f := by
  rw [List.range_succ, List.map_append]; rfl

theorem slice_drop_take (S : Bytes) (n L : Nat) :
    slice (S.drop (n * L)) 0 L = slice S (n * L) ((n + 1) * L) := by
  simp only [slice, List.drop_zero, List.drop_take]
  congr 1
  rw [Nat.add_mul]; omega

theorem spillFull_inv (L sid : Nat) (hL : 0 < L) (S : Bytes) (st : List Nat) (x : Nat)
    (hst : ∀ p ∈ st, p < x) :
    ∀ (fuel : Nat) (atStart : Bool) (rem : Bytes) (out : List PTFR.State),
      FlightInv L sid S st x atStart rem out → rem.length < fuel → rem ≠ [] →
      ∃ atStart' rem' out', spillFull L sid fuel atStart (newPtfr L sid) rem out =
          .ok (atStart', newPtfr L sid, rem', out') ∧
        FlightInv L sid S st x atStart' rem' out' ∧ rem'.length ≤ L ∧ rem' ≠ [] := by
  intro fuel
  induction fuel with
  | zero => intro _ _ _ _ h; omega
  | succ fuel ih =>
    intro atStart rem out inv hf hne
    unfold spillFull
    by_cases hlen : rem.length > L
    · simp only [hlen, if_true]
      -- the frame emitted in this iteration
      have hadd : PTFR.addPayload { newPtfr L sid with ptdp_offset := if atStart = true then 0x0 else 0x7FF }
          (slice rem 0 L) false =
          ({ newPtfr L sid with ptdp_offset := if atStart = true then 0x0 else 0x7FF,
                                 payload := slice rem 0 L }, []) := by
        exact addPayload_fill _ _ rfl (by simp [slice, newPtfr]; omega)
      rw [hadd]
      simp only
      have hfr : ({ newPtfr L sid with ptdp_offset := if atStart = true then 0x0 else 0x7FF,
                                        payload := slice rem 0 L } : PTFR.State) =
          frameOf L sid S (st ++ [x]) out.length := by
        simp only [frameOf, inv.rem_eq, slice_drop_take]
        congr 1
        cases hat : atStart with
        | true =>
          have hx := inv.at_true hat
          rw [offset_append_one L out.length st x (by intro p hp; have := hst p hp; omega)]
          have : out.length * L ≤ x ∧ x < (out.length + 1) * L := by
            rw [Nat.add_mul]; omega
          rw [if_pos this, hx, Nat.sub_self]; rfl
        | false =>
          have hx := inv.at_false hat
          rw [offset_def, find_none_of_lt L out.length (st ++ [x])]
          · simp
          · intro p hp
            simp only [List.mem_append, List.mem_singleton] at hp
            rcases hp with hp | rfl
            · have := hst p hp; omega
            · exact hx
      rw [hfr]
      have inv' : FlightInv L sid S st x false (rem.drop L) (out ++ [frameOf L sid S (st ++ [x]) out.length]) := by
        refine ⟨?_, ?_, ?_, ?_⟩
        · simp only [List.length_append, List.length_singleton]
          rw [← range_map_snoc, ← inv.out_eq]
        · simp only [List.length_append, List.length_singleton, inv.rem_eq, List.drop_drop]
          congr 1; rw [Nat.add_mul]; omega
        · intro h; cases h
        · intro _
          simp only [List.length_append, List.length_singleton]
          rw [Nat.add_mul]
          cases hat : atStart with
          | true => have := inv.at_true hat; omega
          | false => have := inv.at_false hat; omega
      have hne' : rem.drop L ≠ [] := by
        intro h
        have := congrArg List.length h
        simp at this; omega
      exact ih false (rem.drop L) _ inv' (by simp; omega) hne'
    · simp only [hlen, if_false]
      exact ⟨atStart, rem, out, rfl, inv, by omega, hne⟩

end Acra.Lemmas.Chapter7
