/-
  Chapter 7, part 3: the encapsulator `datapkts_to_ptfr` on normal (non-low-latency) traffic.
  Invariant `EncInv`: after any number of PTDPs with encodings `bs` (stream `S = bs.flatten`, PTDP
  start positions `st = startsAux 0 bs`) the frames emitted are exactly the complete L-byte pieces of
  `S` that are followed by more data, each with the Spec's offset, and the frame under construction
  holds the rest with the offset computed as if the next PTDP started at the end of the stream.
-/
import Acra.Lemmas.Chapter7
namespace Acra.Lemmas.Chapter7
open Acra.Py Acra.Model Acra.Model.Chapter7 Acra.Gen.Chapter7
open Acra.Spec.Ch7 (offset startsAux)

/-! ### the offset function of the Spec on increasing start lists -/

def inFrame (L k : Nat) (p : Nat) : Bool := decide (k * L ≤ p) && decide (p < (k + 1) * L)

theorem offset_def (L : Nat) (st : List Nat) (k : Nat) :
    offset L st k = match st.find? (inFrame L k) with
      | some p => p - k * L
      | none => 0x7FF := rfl

theorem find_none_of_lt (L k : Nat) (st : List Nat) (h : ∀ p ∈ st, p < k * L) :
    st.find? (inFrame L k) = none := by
  rw [List.find?_eq_none]
  intro p hp
  have := h p hp
  simp [inFrame]; omega

theorem find_none_of_ge (L k : Nat) (st : List Nat) (h : ∀ p ∈ st, (k + 1) * L ≤ p) :
    st.find? (inFrame L k) = none := by
  rw [List.find?_eq_none]
  intro p hp
  have := h p hp
  simp [inFrame]; omega

/-- no start before frame `k`: the appended position decides -/
theorem offset_append_one (L k : Nat) (st : List Nat) (y : Nat) (h : ∀ p ∈ st, p < k * L) :
    offset L (st ++ [y]) k = if k * L ≤ y ∧ y < (k + 1) * L then y - k * L else 0x7FF := by
  rw [offset_def, List.find?_append, find_none_of_lt L k st h]
  simp only [Option.none_or, List.find?_cons, List.find?_nil, inFrame]
  by_cases h1 : k * L ≤ y ∧ y < (k + 1) * L
  · simp [h1]
  · simp only [h1, if_false]
    have : (decide (k * L ≤ y) && decide (y < (k + 1) * L)) = false := by
      simp only [Bool.and_eq_false_imp, decide_eq_true_eq, decide_eq_false_iff_not]; omega
    simp [this]

/-- positions at or beyond the end of frame `k` do not change its offset -/
theorem offset_append_ge (L k : Nat) (st l : List Nat) (h : ∀ p ∈ l, (k + 1) * L ≤ p) :
    offset L (st ++ l) k = offset L st k := by
  rw [offset_def, offset_def, List.find?_append, find_none_of_ge L k l h]
  cases st.find? (inFrame L k) <;> rfl

/-- a hit in the first part is not disturbed by what follows -/
theorem offset_append_hit (L k : Nat) (st l : List Nat) (h : (st.find? (inFrame L k)).isSome) :
    offset L (st ++ l) k = offset L st k := by
  rw [offset_def, offset_def, List.find?_append]
  cases hf : st.find? (inFrame L k) with
  | none => rw [hf] at h; cases h
  | some p => rfl

/-! ### add_payload on normal data -/

theorem addPayload_normal (s : PTFR.State) (buf : Bytes) :
    PTFR.addPayload s buf false =
      if (s.payload ++ buf).length > s.length then
        ({ s with payload := (s.payload ++ buf).take s.length }, (s.payload ++ buf).drop s.length)
      else ({ s with payload := s.payload ++ buf }, []) := by
  simp [PTFR.addPayload]

theorem addPayload_fill (s : PTFR.State) (buf : Bytes) (hp : s.payload = []) (hb : buf.length ≤ s.length) :
    PTFR.addPayload s buf false = ({ s with payload := buf }, []) := by
  rw [addPayload_normal, hp]
  have : ¬ (buf.length > s.length) := by omega
  simp only [List.nil_append, this, if_false]

/-! ### start positions -/

theorem startsAux_append (pos : Nat) (a b : List Bytes) :
    startsAux pos (a ++ b) = startsAux pos a ++ startsAux (pos + a.flatten.length) b := by
  induction a generalizing pos with
  | nil => simp [startsAux]
  | cons x xs ih =>
    simp only [List.cons_append, startsAux, ih, List.flatten_cons, List.length_append, List.cons.injEq,
      true_and]
    rw [Nat.add_assoc]

theorem startsAux_lt (pos : Nat) (bs : List Bytes) (hne : ∀ b ∈ bs, b ≠ []) :
    ∀ p ∈ startsAux pos bs, p < pos + bs.flatten.length := by
  induction bs generalizing pos with
  | nil => simp [startsAux]
  | cons x xs ih =>
    intro p hp
    simp only [startsAux, List.mem_cons] at hp
    have hx : 0 < x.length := List.length_pos_iff.2 (hne x (by simp))
    simp only [List.flatten_cons, List.length_append]
    rcases hp with rfl | hp
    · omega
    · have := ih (pos + x.length) (fun b hb => hne b (by simp [hb])) p hp
      omega

/-! ### the frames of a stream -/

/-- frame `k` of the stream `S` with PTDP starts `st` -/
def frameOf (L sid : Nat) (S : Bytes) (st : List Nat) (k : Nat) : PTFR.State :=
  { newPtfr L sid with ptdp_offset := offset L st k, payload := slice S (k * L) ((k + 1) * L) }

theorem frameOf_grow (L sid : Nat) (S b : Bytes) (st l : List Nat) (k : Nat)
    (hS : (k + 1) * L ≤ S.length) (hl : ∀ p ∈ l, (k + 1) * L ≤ p) :
    frameOf L sid (S ++ b) (st ++ l) k = frameOf L sid S st k := by
  simp only [frameOf, offset_append_ge L k st l hl, slice, List.take_append_of_le_length hS]

structure EncInv (L sid : Nat) (bs : List Bytes) (cur : PTFR.State) (out : List PTFR.State) : Prop where
  out_eq : out = (List.range out.length).map (frameOf L sid bs.flatten (startsAux 0 bs))
  cur_eq : cur = { newPtfr L sid with
                    ptdp_offset := offset L (startsAux 0 bs ++ [bs.flatten.length]) out.length,
                    payload := bs.flatten.drop (out.length * L) }
  lo : out.length * L ≤ bs.flatten.length
  hi : bs.flatten.length ≤ (out.length + 1) * L
  pos : 0 < bs.flatten.length → out.length * L < bs.flatten.length

/-- while the PTDP that begins at `x` is being spread over frames: `S`, `st` already include it -/
structure FlightInv (L sid : Nat) (S : Bytes) (st : List Nat) (x : Nat) (atStart : Bool) (rem : Bytes)
    (out : List PTFR.State) : Prop where
  out_eq : out = (List.range out.length).map (frameOf L sid S (st ++ [x]))
  rem_eq : rem = S.drop (out.length * L)
  at_true : atStart = true → x = out.length * L
  at_false : atStart = false → x < out.length * L

theorem range_map_snoc (f : Nat → α) (n : Nat) :
    (List.range n).map f ++ [f n] = (List.range (n + 1)).map f := by
  rw [List.range_succ, List.map_append]; rfl

theorem slice_drop_take (S : Bytes) (n L : Nat) :
    slice (S.drop (n * L)) 0 L = slice S (n * L) ((n + 1) * L) := by
  simp only [slice, List.drop_zero, List.drop_take]
  congr 1
  rw [Nat.add_mul]; omega

theorem spillFull_inv (L sid : Nat) (hL : 0 < L) (S : Bytes) (st : List Nat) (x : Nat)
    (hst : ∀ p ∈ st, p < x) :
    ∀ (fuel : Nat) (atStart : Bool) (rem : Bytes) (out : List PTFR.State),
      FlightInv L sid S st x atStart rem out → rem.length < fuel → rem ≠ [] →
      ∃ atStart' rem' out', spillFull L sid fuel atStart (newPtfr L sid) rem out =
          .ok (atStart', newPtfr L sid, rem', out') ∧
        FlightInv L sid S st x atStart' rem' out' ∧ rem'.length ≤ L ∧ rem' ≠ [] := by
  intro fuel
  induction fuel with
  | zero => intro _ _ _ _ h; omega
  | succ fuel ih =>
    intro atStart rem out inv hf hne
    unfold spillFull
    by_cases hlen : rem.length > L
    · simp only [hlen, if_true]
      -- the frame emitted in this iteration
      have hadd : PTFR.addPayload { newPtfr L sid with ptdp_offset := if atStart = true then 0x0 else 0x7FF }
          (slice rem 0 L) false =
          ({ newPtfr L sid with ptdp_offset := if atStart = true then 0x0 else 0x7FF,
                                 payload := slice rem 0 L }, []) := by
        exact addPayload_fill _ _ rfl (by simp [slice, newPtfr]; omega)
      rw [hadd]
      simp only
      have hfr : ({ newPtfr L sid with ptdp_offset := if atStart = true then 0x0 else 0x7FF,
                                        payload := slice rem 0 L } : PTFR.State) =
          frameOf L sid S (st ++ [x]) out.length := by
        simp only [frameOf, inv.rem_eq, slice_drop_take]
        congr 1
        cases hat : atStart with
        | true =>
          have hx := inv.at_true hat
          rw [offset_append_one L out.length st x (by intro p hp; have := hst p hp; omega)]
          have : out.length * L ≤ x ∧ x < (out.length + 1) * L := by
            rw [Nat.add_mul]; omega
          rw [if_pos this, hx, Nat.sub_self]; rfl
        | false =>
          have hx := inv.at_false hat
          rw [offset_def, find_none_of_lt L out.length (st ++ [x])]
          · simp
          · intro p hp
            simp only [List.mem_append, List.mem_singleton] at hp
            rcases hp with hp | rfl
            · have := hst p hp; omega
            · exact hx
      rw [hfr]
      have inv' : FlightInv L sid S st x false (rem.drop L) (out ++ [frameOf L sid S (st ++ [x]) out.length]) := by
        refine ⟨?_, ?_, ?_, ?_⟩
        · simp only [List.length_append, List.length_singleton]
          rw [← range_map_snoc, ← inv.out_eq]
        · simp only [List.length_append, List.length_singleton, inv.rem_eq, List.drop_drop]
          congr 1; rw [Nat.add_mul]; omega
        · intro h; cases h
        · intro _
          simp only [List.length_append, List.length_singleton]
          rw [Nat.add_mul]
          cases hat : atStart with
          | true => have := inv.at_true hat; omega
          | false => have := inv.at_false hat; omega
      have hne' : rem.drop L ≠ [] := by
        intro h
        have := congrArg List.length h
        simp at this; omega
      exact ih false (rem.drop L) _ inv' (by simp; omega) hne'
    · simp only [hlen, if_false]
      exact ⟨atStart, rem, out, rfl, inv, by omega, hne⟩


theorem startsAux_snoc (bs : List Bytes) (b : Bytes) :
    startsAux 0 (bs ++ [b]) = startsAux 0 bs ++ [bs.flatten.length] := by
  rw [startsAux_append]; simp [startsAux]

theorem find_isSome_of_mem (L k : Nat) (st : List Nat) (y : Nat) (hy : y ∈ st)
    (h : k * L ≤ y ∧ y < (k + 1) * L) : (st.find? (inFrame L k)).isSome := by
  rw [List.find?_isSome]
  exact ⟨y, hy, by simp [inFrame, h]⟩

theorem succ_mul' (n L : Nat) : (n + 1) * L = n * L + L := by rw [Nat.add_mul, Nat.one_mul]

theorem encInv_init (L sid : Nat) (hL : 0 < L) : EncInv L sid [] (newPtfr L sid) [] := by
  refine ⟨rfl, ?_, by simp, by simp, by simp⟩
  have h0 : offset L [0] 0 = 0 := by simp [offset_def, inFrame, hL]
  simp [startsAux, h0, newPtfr, PTFR.fresh]

/-- the outer loop once the inner loop's result is known -/
theorem spill_nonempty (L sid fuel : Nat) (a a' : Bool) (cur : PTFR.State) (rem rem' : Bytes)
    (out out' : List PTFR.State) (hne : rem ≠ [])
    (hsf : spillFull L sid (rem.length + 1) a (newPtfr L sid) rem (out ++ [cur]) =
      .ok (a', newPtfr L sid, rem', out')) (hle : rem'.length ≤ L) :
    spill L sid (fuel + 2) a cur rem out =
      .ok ({ newPtfr L sid with
              ptdp_offset := if a' then 0x0 else if rem'.length == L then 0x7FF else rem'.length,
              payload := rem' }, out') := by
  unfold spill
  simp only [hne, if_false, hsf]
  rw [addPayload_fill _ rem' rfl (by simpa [newPtfr] using hle)]
  unfold spill
  simp

/-- a normal PTDP that overflows the frame under construction -/
theorem encOverflow (L sid : Nat) (hL : 0 < L) (bs : List Bytes) (hne : ∀ b ∈ bs, b ≠ [])
    (out : List PTFR.State) (b : Bytes)
    (hout : out = (List.range out.length).map
      (frameOf L sid (bs.flatten ++ b) (startsAux 0 bs ++ [bs.flatten.length]))) :
    ∀ (C1 : PTFR.State) (X : Bytes) (A : Bool),
      C1 = frameOf L sid (bs.flatten ++ b) (startsAux 0 bs ++ [bs.flatten.length]) out.length →
      X = (bs.flatten ++ b).drop ((out.length + 1) * L) → X ≠ [] →
      (A = true → bs.flatten.length = (out.length + 1) * L) →
      (A = false → bs.flatten.length < (out.length + 1) * L) →
      ∃ cur' out', spill L sid (X.length + 2) A C1 X out = .ok (cur', out') ∧
        EncInv L sid (bs ++ [b]) cur' out' := by
  intro C1 X A hC hX hXne hAt hAf
  have hstlt : ∀ q ∈ startsAux 0 bs, q < bs.flatten.length := by
    intro q hq; have := startsAux_lt 0 bs hne q hq; omega
  have hS' : (bs ++ [b]).flatten = bs.flatten ++ b := by simp
  have hfl : FlightInv L sid (bs.flatten ++ b) (startsAux 0 bs) bs.flatten.length A X (out ++ [C1]) := by
    refine ⟨?_, ?_, ?_, ?_⟩
    · simp only [List.length_append, List.length_singleton]
      rw [← range_map_snoc, ← hout, hC]
    · simpa using hX
    · intro h; simpa using hAt h
    · intro h; simpa using hAf h
  obtain ⟨a', rem', out', hsf, inv', hle, hne'⟩ :=
    spillFull_inv L sid hL (bs.flatten ++ b) (startsAux 0 bs) bs.flatten.length hstlt
      (X.length + 1) A X (out ++ [C1]) hfl (by omega) hXne
  refine ⟨_, _, spill_nonempty L sid X.length A a' C1 X rem' out out' hXne hsf hle, ?_⟩
  have hremlen : rem'.length = (bs.flatten ++ b).length - out'.length * L := by rw [inv'.rem_eq]; simp
  have hpos : 0 < rem'.length := List.length_pos_iff.2 hne'
  have hsm := succ_mul' out'.length L
  refine ⟨?_, ?_, ?_, ?_, ?_⟩
  · rw [hS', startsAux_snoc]; exact inv'.out_eq
  · rw [hS', startsAux_snoc, ← inv'.rem_eq]
    congr 1
    cases hat : a' with
    | true =>
      have hx := inv'.at_true hat
      rw [offset_append_hit]
      · rw [offset_append_one L out'.length _ _ (by intro q hq; have := hstlt q hq; omega)]
        have : out'.length * L ≤ bs.flatten.length ∧ bs.flatten.length < (out'.length + 1) * L := by
          rw [hsm]; omega
        rw [if_pos this, hx, Nat.sub_self]; rfl
      · apply find_isSome_of_mem L _ _ bs.flatten.length (by simp)
        rw [hsm]; omega
    | false =>
      have hx := inv'.at_false hat
      rw [offset_append_one L out'.length _ _ (by
        intro q hq
        simp only [List.mem_append, List.mem_singleton] at hq
        rcases hq with hq | rfl
        · have := hstlt q hq; omega
        · exact hx)]
      simp only [Bool.false_eq_true, if_false]
      by_cases hfull : rem'.length = L
      · have : ¬ (out'.length * L ≤ (bs.flatten ++ b).length ∧
            (bs.flatten ++ b).length < (out'.length + 1) * L) := by
          rw [hsm]; omega
        rw [if_neg this]; simp [hfull]
      · have : out'.length * L ≤ (bs.flatten ++ b).length ∧
            (bs.flatten ++ b).length < (out'.length + 1) * L := by
          rw [hsm]; omega
        have hne2 : (rem'.length == L) = false := by simpa using hfull
        rw [if_pos this]
        simp only [hne2, Bool.false_eq_true, if_false]
        rw [hremlen]
  · rw [hS']; omega
  · rw [hS', hsm]; omega
  · intro _; rw [hS']; omega

/-- one normal PTDP with (non-empty) encoding `b` -/
theorem encStep_inv (L sid : Nat) (hL : 0 < L) (bs : List Bytes) (hne : ∀ b ∈ bs, b ≠ [])
    (cur : PTFR.State) (out : List PTFR.State) (inv : EncInv L sid bs cur out)
    (p : PTDP.State) (b : Bytes) (hp : (PTDP.pack p).2 = .ok b) (hll : p.low_latency = false) (hb : b ≠ []) :
    ∃ cur' out', encStep L sid (cur, out) p = .ok (cur', out') ∧ EncInv L sid (bs ++ [b]) cur' out' := by
  have hblen : 0 < b.length := List.length_pos_iff.2 hb
  have hcurp : cur.payload = bs.flatten.drop (out.length * L) := by rw [inv.cur_eq]
  have hcurl : cur.length = L := by rw [inv.cur_eq]; rfl
  have hcurlen : cur.payload.length = bs.flatten.length - out.length * L := by rw [hcurp]; simp
  have hlo := inv.lo
  have hhi := inv.hi
  have hsm := succ_mul' out.length L
  have hS' : (bs ++ [b]).flatten = bs.flatten ++ b := by simp
  have hdrop : (bs.flatten ++ b).drop (out.length * L) = cur.payload ++ b := by
    rw [hcurp, List.drop_append_of_le_length hlo]
  -- old frames are frames of the longer stream as well
  have hold : (List.range out.length).map
      (frameOf L sid (bs.flatten ++ b) (startsAux 0 bs ++ [bs.flatten.length])) = out := by
    conv => rhs; rw [inv.out_eq]
    apply List.map_congr_left
    intro k hk
    have hk' : k < out.length := List.mem_range.1 hk
    have hkl : (k + 1) * L ≤ out.length * L := Nat.mul_le_mul_right L hk'
    apply frameOf_grow
    · omega
    · intro q hq
      simp only [List.mem_singleton] at hq; subst hq
      omega
  unfold encStep
  simp only [hp, hll, Bool.not_false, Bool.and_true]
  rw [addPayload_normal]
  by_cases hov : (cur.payload ++ b).length > cur.length
  · -- the frame overflows
    simp only [hov, if_true]
    have hov' : cur.payload.length + b.length > L := by simpa [hcurl] using hov
    apply encOverflow L sid hL bs hne out b hold.symm
    · -- the frame that is emitted first
      have hpay : (cur.payload ++ b).take cur.length =
          slice (bs.flatten ++ b) (out.length * L) ((out.length + 1) * L) := by
        rw [← slice_drop_take, hdrop, hcurl]; simp [slice]
      rw [hpay, inv.cur_eq]; rfl
    · rw [hcurl, ← hdrop, List.drop_drop]; congr 1; omega
    · intro h; have := congrArg List.length h; simp [hcurl] at this; omega
    · intro h; simp only [beq_iff_eq] at h; rw [hsm]; omega
    · intro h
      have : cur.payload.length ≠ L := by simpa using h
      rw [hsm]; rw [hsm] at hhi; omega
  · -- the PTDP fits
    simp only [hov, if_false]
    have hov' : cur.payload.length + b.length ≤ L := by
      have : ¬ (cur.payload.length + b.length > L) := by simpa [hcurl] using hov
      omega
    unfold spill
    simp only [if_true]
    refine ⟨_, _, rfl, ?_⟩
    refine ⟨?_, ?_, ?_, ?_, ?_⟩
    · rw [hS', startsAux_snoc, hold]
    · rw [hS', startsAux_snoc, hdrop]
      conv => lhs; rw [inv.cur_eq]
      simp only [← hcurp]
      congr 1
      refine (offset_append_hit L out.length (startsAux 0 bs ++ [bs.flatten.length])
        [(bs.flatten ++ b).length] ?_).symm
      apply find_isSome_of_mem L _ _ bs.flatten.length (by simp)
      rw [hsm]; rw [hsm] at hhi; omega
    · rw [hS']; simp only [List.length_append]; omega
    · rw [hS', hsm]; rw [hsm] at hhi; simp only [List.length_append]; omega
    · intro _; rw [hS']; simp only [List.length_append]; omega


/-! ### the whole fold -/

/-- the bytes of a well-formed PTDP -/
def encB (p : PTDP.State) : Bytes := noisyWord (lswOf p) 0 ++ noisyWord p.payload.length 0 ++ p.payload

theorem encB_ne (p : PTDP.State) : encB p ≠ [] := by
  intro h; have := congrArg List.length h; simp [encB] at this

theorem encB_length (p : PTDP.State) : (encB p).length = 6 + p.payload.length := by
  simp [encB]; omega

theorem pack_encB (p : PTDP.State) (h : PTDP_WF p) : (PTDP.pack p).2 = .ok (encB p) := by
  rw [ptdp_pack_eq p h]; rfl

theorem encB_spec (p : PTDP.State) (h : PTDP_WF p) : encB p = Spec.PTDP.encode p.fragment p.content p.payload := by
  obtain ⟨_, _, hp⟩ := h
  simp only [encB, Spec.PTDP.encode, noisyWord_zero_spec, lswOf]
  rw [show p.payload.length / 4096 = 0 by omega, show p.payload.length % 4096 = p.payload.length by omega]
  rfl

theorem encFold_inv (L sid : Nat) (hL : 0 < L) (ps : List PTDP.State)
    (hps : ∀ p ∈ ps, PTDP_WF p ∧ p.low_latency = false) :
    ∀ (bs : List Bytes) (cur : PTFR.State) (out : List PTFR.State), (∀ b ∈ bs, b ≠ []) →
      EncInv L sid bs cur out →
      ∃ cur' out', encFold L sid ps (cur, out) = .ok (cur', out') ∧
        EncInv L sid (bs ++ ps.map encB) cur' out' := by
  induction ps with
  | nil => intro bs cur out _ inv; exact ⟨cur, out, rfl, by simpa using inv⟩
  | cons p ps ih =>
    intro bs cur out hne inv
    obtain ⟨hwf, hll⟩ := hps p (by simp)
    obtain ⟨cur1, out1, hs, inv1⟩ := encStep_inv L sid hL bs hne cur out inv p (encB p) (pack_encB p hwf) hll (encB_ne p)
    obtain ⟨cur2, out2, hf, inv2⟩ := ih (fun q hq => hps q (by simp [hq])) (bs ++ [encB p]) cur1 out1
      (by intro b hb; simp only [List.mem_append, List.mem_singleton] at hb
          rcases hb with hb | rfl
          · exact hne b hb
          · exact encB_ne p) inv1
    refine ⟨cur2, out2, ?_, ?_⟩
    · simp only [encFold, hs, hf]
    · simpa [List.append_assoc] using inv2

/-! ### fragmentation -/

/-- fragment `i` of `n` of a long packet -/
def fragOf (buffer : Bytes) (llp : Bool) (n i : Nat) : PTDP.State :=
  mkPtdp llp (if i = 0 then PTDP_FRAGMENT_FIRST else if i = n - 1 then PTDP_FRAGMENT_LAST else PTDP_FRAGMENT_MIDDLE)
    (slice buffer (2048 * i) (2048 * (i + 1)))

theorem fragmentsFrom_eq (buffer : Bytes) (llp : Bool) (n : Nat) (hn : buffer.length ≤ 2048 * n) :
    ∀ cnt i, i + cnt = n → fragmentsFrom buffer llp n cnt i = (List.range' i cnt).map (fragOf buffer llp n) := by
  intro cnt
  induction cnt with
  | zero => intro i _; simp [fragmentsFrom]
  | succ cnt ih =>
    intro i hi
    simp only [fragmentsFrom, List.range'_succ, List.map_cons, ih (i + 1) (by omega), List.cons.injEq, and_true]
    unfold fragOf
    by_cases h0 : i = 0
    · subst h0; simp [PTDP_MAX_LEN]
    · simp only [beq_iff_eq, h0, if_false]
      by_cases h1 : i = n - 1
      · simp only [h1, if_true, PTDP_MAX_LEN]
        congr 1
        simp only [slice]
        rw [List.take_of_length_le (by omega), Nat.mul_comm]
      · simp only [h1, if_false, PTDP_MAX_LEN]

theorem slice_append_slice (b : Bytes) (lo mid hi : Nat) (h1 : lo ≤ mid) (h2 : mid ≤ hi) :
    slice b lo mid ++ slice b mid hi = slice b lo hi := by
  simp only [slice]
  have e : List.take mid b = List.take mid (List.take hi b) := by
    rw [List.take_take, Nat.min_eq_left h2]
  rw [e]
  generalize List.take hi b = t
  conv => rhs; rw [← List.take_append_drop mid t]
  rw [List.drop_append]
  congr 1
  by_cases h : lo ≤ (List.take mid t).length
  · rw [Nat.sub_eq_zero_of_le h]; rfl
  · have : t.length < mid := by
      simp only [List.length_take] at h; omega
    rw [List.drop_eq_nil_of_le (by omega)]; simp

theorem frag_concat (buffer : Bytes) (cnt i : Nat) :
    ((List.range' i cnt).map (fun j => slice buffer (2048 * j) (2048 * (j + 1)))).flatten =
      slice buffer (2048 * i) (2048 * (i + cnt)) := by
  induction cnt generalizing i with
  | zero => simp [slice]
  | succ cnt ih =>
    simp only [List.range'_succ, List.map_cons, List.flatten_cons, ih (i + 1)]
    rw [slice_append_slice _ _ _ _ (by omega) (by omega)]
    congr 2; omega

theorem ptdpsOf_wf (buffer : Bytes) (llp : Bool) :
    ∀ p ∈ ptdpsOf buffer llp, PTDP_WF p ∧ p.low_latency = llp := by
  intro p hp
  unfold ptdpsOf at hp
  split at hp
  · rename_i h
    simp only [List.mem_singleton] at hp; subst hp
    simp only [PTDP_MAX_LEN] at h
    exact ⟨⟨by simp [mkPtdp, PTDP_FRAGMENT_COMPLETE], by simp [mkPtdp, PTDP_CONTENT_MAC], h⟩, rfl⟩
  · rename_i h
    simp only [PTDP_MAX_LEN] at h hp
    rw [fragmentsFrom_eq buffer llp _ (by omega) _ 0 (by omega)] at hp
    simp only [List.mem_map] at hp
    obtain ⟨i, _, rfl⟩ := hp
    refine ⟨⟨?_, by simp [fragOf, mkPtdp, PTDP_CONTENT_MAC], ?_⟩, rfl⟩
    · simp only [fragOf, mkPtdp, PTDP_FRAGMENT_FIRST, PTDP_FRAGMENT_LAST, PTDP_FRAGMENT_MIDDLE]
      repeat' split
      all_goals omega
    · simp only [fragOf, mkPtdp, slice_length]; omega


/-! ### normal traffic: names used by the C10 theorems -/

/-- the packets, none of them low-latency -/
def normal (pkts : List Bytes) : List (Bytes × Bool) := pkts.map fun b => (b, false)
def ptdps (pkts : List Bytes) : List PTDP.State := datapktsToPtdp (normal pkts)
/-- the PTDP encodings, in order -/
def encs (pkts : List Bytes) : List Bytes := (ptdps pkts).map encB
/-- the byte stream -/
def stream (pkts : List Bytes) : Bytes := (encs pkts).flatten

theorem ptdps_wf' (pkts : List Bytes) : ∀ p ∈ ptdps pkts, PTDP_WF p ∧ p.low_latency = false := by
  intro p hp
  simp only [ptdps, datapktsToPtdp, normal, List.flatMap_map, List.mem_flatMap] at hp
  obtain ⟨b, _, hb⟩ := hp
  exact ptdpsOf_wf b false p hb

theorem encap_inv (pkts : List Bytes) (L sid : Nat) (hL : 0 < L) :
    ∃ cur out, datapktsToPtfr (normal pkts) L sid = .ok (cur, out) ∧
      EncInv L sid (encs pkts) cur out := by
  obtain ⟨cur, out, h, inv⟩ := encFold_inv L sid hL (ptdps pkts) (ptdps_wf' pkts) [] (newPtfr L sid) []
    (by simp) (encInv_init L sid hL)
  exact ⟨cur, out, h, by simpa [encs] using inv⟩

/-- consecutive L-byte pieces put together again -/
theorem pieces_concat (S : Bytes) (L n : Nat) :
    ((List.range n).map (fun k => slice S (k * L) ((k + 1) * L))).flatten = S.take (n * L) := by
  induction n with
  | zero => simp
  | succ n ih =>
    rw [List.range_succ, List.map_append, List.flatten_append, ih]
    simp only [List.map_cons, List.map_nil, List.flatten_cons, List.flatten_nil, List.append_nil]
    have : S.take (n * L) = slice S 0 (n * L) := by simp [slice]
    rw [this, slice_append_slice _ _ _ _ (by omega) (by rw [succ_mul']; omega)]
    simp [slice]

theorem frameOf_payload (L sid : Nat) (S : Bytes) (st : List Nat) (k : Nat) :
    (frameOf L sid S st k).payload = slice S (k * L) ((k + 1) * L) := rfl

theorem offset_lt (L : Nat) (st : List Nat) (k : Nat) (hL : L ≤ 2047) : offset L st k < 2048 := by
  rw [offset_def]
  cases h : st.find? (inFrame L k) with
  | none => simp
  | some p =>
    have := List.find?_some h
    simp only [inFrame, Bool.and_eq_true, decide_eq_true_eq] at this
    simp only
    rw [succ_mul'] at this
    omega

end Acra.Lemmas.Chapter7
