/-
  Review (rev1) helper lemmas for C03: the two length fields of the Chapter 11 header, read back from the
  bytes of the declarative layout.
-/
import Acra.Lemmas.Ch11
namespace Acra.Lemmas.ReviewC03
open Acra.Py Acra

theorem header_len_fields (sync chid plen dlen dtv seq flag dt rtc : Nat) (rest : Bytes) :
    slice (Spec.Ch11.header sync chid plen dlen dtv seq flag dt rtc ++ rest) 4 8 = leBytes 4 plen ∧
    slice (Spec.Ch11.header sync chid plen dlen dtv seq flag dt rtc ++ rest) 8 12 = leBytes 4 dlen := by
  simp [Spec.Ch11.header, Spec.Ch11.header22, slice, leBytes]

/-- in the Chapter 11 layout the packet-length field (bytes 4..8, little-endian) is the real length of the
    packet and the data-length field (bytes 8..12) is the length of the data without filler -/
theorem encode_length_fields (sync chid dtv seq flag dt rtc : Nat) (ptp : Option (Nat × Nat)) (payload : Bytes)
    (h : payload.length + 28 + (if ptp.isSome then 12 else 0) < 2 ^ 32) :
    leNat (slice (Spec.Ch11.encode sync chid dtv seq flag dt rtc ptp payload) 4 8) =
      (Spec.Ch11.encode sync chid dtv seq flag dt rtc ptp payload).length ∧
    leNat (slice (Spec.Ch11.encode sync chid dtv seq flag dt rtc ptp payload) 8 12) = payload.length := by
  cases ptp with
  | none =>
    simp at h
    have hf := Acra.Lemmas.Ch11.fillLen_lt (24 + 0 + payload.length)
    simp only [Spec.Ch11.encode, List.append_assoc, List.length_nil]
    obtain ⟨h1, h2⟩ := header_len_fields sync chid
      (24 + 0 + payload.length + Spec.Ch11.fillLen (24 + 0 + payload.length)) payload.length dtv seq flag dt rtc
      ([] ++ (payload ++ List.replicate (Spec.Ch11.fillLen (24 + 0 + payload.length)) 0xFF))
    rw [h1, h2, leNat_leBytes_of_lt _ _ (by omega), leNat_leBytes_of_lt _ _ (by omega)]
    simp [Spec.Ch11.header, Spec.Ch11.header22]; omega
  | some p =>
    obtain ⟨s, ns⟩ := p
    simp at h
    have hl : (Spec.Ch11.secHeader s ns).length = 12 := by simp [Spec.Ch11.secHeader]
    have hf := Acra.Lemmas.Ch11.fillLen_lt (24 + 12 + payload.length)
    simp only [Spec.Ch11.encode, List.append_assoc, hl]
    obtain ⟨h1, h2⟩ := header_len_fields sync chid
      (24 + 12 + payload.length + Spec.Ch11.fillLen (24 + 12 + payload.length)) payload.length dtv seq flag dt rtc
      (Spec.Ch11.secHeader s ns ++ (payload ++ List.replicate (Spec.Ch11.fillLen (24 + 12 + payload.length)) 0xFF))
    rw [h1, h2, leNat_leBytes_of_lt _ _ (by omega), leNat_leBytes_of_lt _ _ (by omega)]
    simp [Spec.Ch11.header, Spec.Ch11.header22, hl]; omega
end Acra.Lemmas.ReviewC03
