/-
  Helper lemmas for the MIL-STD-1553 format 1 model.
-/
import Acra.Model.Ch11MIL1553
import Acra.Lemmas.Ch11Pay
namespace Acra.Lemmas.Ch11MIL1553
open Acra.Py Acra.Model.Ch11Pay Acra.Model.Ch11Pay.MIL1553 Acra.Gen.Ch11MIL1553 Acra.Lemmas.Ch11Pay

/-- a time stamp is present and fits, the two status words fit 16 bits, the data length fits 16 bits -/
def Msg_WF (m : Msg) : Prop :=
  Ipts_WF m.ipts ∧ m.ipts ≠ .none ∧ m.blockstatus < 2 ^ 16 ∧ m.gaptimes < 2 ^ 16 ∧ m.message.length < 2 ^ 16

/-- what `pack` turns a message into: its `length` field follows the data -/
def norm (m : Msg) : Msg := { m with length := m.message.length }

def msgHdr (m : Msg) : Bytes :=
  encInt false 2 m.blockstatus ++ (encInt false 2 m.gaptimes ++ encInt false 2 m.message.length)

/-- the bytes of one message: time stamp, block status, gap times, length, data -/
def msgBytes (m : Msg) : Bytes := iptsBytes m.ipts ++ (msgHdr m ++ m.message)

@[simp] theorem msgHdr_length (m : Msg) : (msgHdr m).length = 6 := by simp [msgHdr]

theorem msgBytes_length (m : Msg) (h : m.ipts ≠ .none) : (msgBytes m).length = 14 + m.message.length := by
  simp [msgBytes, iptsBytes_length _ h]; omega

theorem msgBytes_norm (m : Msg) : msgBytes (norm m) = msgBytes m := rfl

theorem norm_WF (m : Msg) (h : Msg_WF m) : Msg_WF (norm m) := h

theorem Msg_pack_eq (m : Msg) (h : Msg_WF m) : m.pack = (norm m, .ok (msgBytes m)) := by
  obtain ⟨h1, h2, h3, h4, h5⟩ := h
  have hf : Fits MSG_pack_fmt0.codes [m.blockstatus, m.gaptimes, m.message.length] := by
    simp [Fits, MSG_pack_fmt0, Code.bound]; omega
  simp only [Msg.pack, Ipts_pack_eq _ h1 h2, structPack_eq _ _ hf]
  simp [norm, msgBytes, msgHdr, MSG_pack_fmt0, encCodes, Code.size]

theorem Msg_unpack_bytes (m t : Msg) (rest : Bytes) (h : Msg_WF m) (hk : sameKind t.ipts m.ipts) :
    Msg.unpack t (msgBytes m ++ rest) = (norm m, .ok (msgBytes m).length) := by
  obtain ⟨h1, h2, h3, h4, h5⟩ := h
  have hl8 := iptsBytes_length _ h2
  have htake : List.take 8 (msgBytes m ++ rest) = iptsBytes m.ipts := by
    simp only [msgBytes, List.append_assoc]
    exact take_append_len _ _ _ hl8.symm
  have hdrop : List.drop 8 (msgBytes m ++ rest) = msgHdr m ++ (m.message ++ rest) := by
    simp only [msgBytes, List.append_assoc]
    exact drop_append_len _ _ _ hl8.symm
  have hlen : 8 + MSG_unpack_fmt0.size ≤ (msgBytes m ++ rest).length := by
    simp [msgBytes, hl8, MSG_unpack_fmt0, Fmt.size, codesSize, Code.size]; omega
  have hsl : slice (msgBytes m ++ rest) 14 (14 + m.message.length) = m.message := by
    have : msgBytes m ++ rest = (iptsBytes m.ipts ++ msgHdr m) ++ (m.message ++ rest) := by
      simp [msgBytes]
    rw [this]
    exact slice_mid _ _ _ _ _ (by simp [hl8]) (by simp [hl8])
  simp only [Msg.unpack, htake, Ipts_unpack_bytes _ _ h1 hk h2, structUnpackFrom, hlen, if_true, hdrop]
  simp only [msgHdr, MSG_unpack_fmt0, unpackCodes, Code.size, List.append_assoc, take_encInt_append, drop_encInt_append]
  rw [decInt_encInt2 _ _ (by omega), decInt_encInt2 _ _ (by omega), decInt_encInt2 _ _ (by omega)]
  simp only [hsl, msgBytes_length _ h2]
  rfl

theorem packMsgs_eq (ms : List Msg) (h : ∀ m ∈ ms, Msg_WF m) :
    packMsgs ms = (ms.map norm, .ok (ms.flatMap msgBytes)) := by
  induction ms with
  | nil => rfl
  | cons m ms ih =>
    simp only [packMsgs, Msg_pack_eq m (h m (by simp)), ih (fun x hx => h x (by simp [hx])), List.map_cons,
      List.flatMap_cons]

theorem flatMap_msgBytes_norm (ms : List Msg) : (ms.map norm).flatMap msgBytes = ms.flatMap msgBytes := by
  induction ms with
  | nil => rfl
  | cons m ms ih => simp [List.flatMap_cons, ih, msgBytes_norm]

theorem Msg_eq_iff (a b : Msg) : Msg.eq a b = true ↔ a = b := by
  cases a; cases b
  simp only [Msg.eq, Bool.and_eq_true, beq_iff_eq, Msg.mk.injEq]
  constructor
  · rintro ⟨⟨⟨⟨h1, h2⟩, h3⟩, h4⟩, h5⟩; exact ⟨h1, h2, h3, h4, h5⟩
  · rintro ⟨h1, h2, h3, h4, h5⟩; exact ⟨⟨⟨⟨h1, h2⟩, h3⟩, h4⟩, h5⟩

theorem msgsEq_iff (as bs : List Msg) : msgsEq as bs = true ↔ as = bs := by
  induction as generalizing bs with
  | nil => cases bs <;> simp [msgsEq]
  | cons a as ih =>
    cases bs with
    | nil => simp [msgsEq]
    | cons b bs => simp [msgsEq, Msg_eq_iff, ih]

/-- the kind of time stamp is all `Ipts.unpack` takes from the receiving object -/
theorem Ipts_unpack_congr (t u : Ipts) (buf : Bytes) (h : sameKind t u) : Ipts.unpack t buf = Ipts.unpack u buf := by
  cases t <;> cases u <;> simp_all [sameKind, Ipts.unpack]

end Acra.Lemmas.Ch11MIL1553
