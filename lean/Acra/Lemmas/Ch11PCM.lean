/-
  Helper lemmas for the PCM format 1 model.
-/
import Acra.Model.Ch11PCM
import Acra.Lemmas.Ch11Pay
namespace Acra.Lemmas.Ch11PCM
open Acra.Py Acra.Model.Ch11Pay Acra.Model.Ch11Pay.PCM Acra.Gen.Ch11PCM Acra.Gen.Ch11PayTs Acra.Lemmas.Ch11Pay

/-- width in bytes of the intra-packet data header for an alignment value 0 / 1 -/
def hdrLen (alignment : Nat) : Nat := if alignment = 0 then 2 else 4

/-- a packed-mode minor frame the layout can carry: a time stamp that fits, a data header that fits
    the alignment's width, alignment 0 (16 bit) or 1 (32 bit); the optional sync-word / sub-frame-id
    attributes are not set (they are not part of the layout: `pack` would emit them in front of the data) -/
def Frame_WF (f : Frame) : Prop :=
  f.throughput = false ∧ f.ipts ≠ .none ∧ Ipts_WF f.ipts ∧ f.alignment < 2 ∧
  (∃ h, f.hdr = some h ∧ h < 256 ^ hdrLen f.alignment) ∧ f.syncword = Option.none ∧ f.sfid = Option.none

def frameBytes (f : Frame) : Bytes :=
  iptsBytes f.ipts ++ (encInt false (hdrLen f.alignment) (f.hdr.getD 0) ++ f.data)

theorem frameBytes_length (f : Frame) (h : f.ipts ≠ .none) :
    (frameBytes f).length = f.data.length + 8 + hdrLen f.alignment := by
  simp [frameBytes, iptsBytes_length _ h]; omega

theorem hdrFmt_eq (a : Nat) (h : a < 2) :
    hdrFmt a = .ok (⟨false, [if a = 0 then Code.u16 else Code.u32]⟩, hdrLen a) := by
  have : a = 0 ∨ a = 1 := by omega
  rcases this with h | h <;> subst h <;> rfl

theorem Frame_pack_eq (f : Frame) (h : Frame_WF f) : f.pack = .ok (frameBytes f) := by
  obtain ⟨h1, h2, h3, h4, ⟨hv, h5, h6⟩, h7, h8⟩ := h
  have hf : Fits [if f.alignment = 0 then Code.u16 else Code.u32] [hv] := by
    have : f.alignment = 0 ∨ f.alignment = 1 := by omega
    rcases this with ha | ha <;> simp [ha, hdrLen, Fits, Code.bound] at h6 ⊢ <;> omega
  have hp : structPack ⟨false, [if f.alignment = 0 then Code.u16 else Code.u32]⟩ [hv] =
      .ok (encInt false (hdrLen f.alignment) hv) := by
    rw [structPack_eq _ _ hf]
    have : f.alignment = 0 ∨ f.alignment = 1 := by omega
    rcases this with ha | ha <;> simp [ha, hdrLen, encCodes, Code.size]
  simp only [Frame.pack, h1, h2, Bool.false_eq_true, if_false, Ipts_pack_eq _ h3 h2, hdrFmt_eq _ h4, h5, hp, h7, h8, packOpt]
  simp [frameBytes, h5]

/-- decoding a frame's bytes (no sync extraction) into a packed-mode object of the same time-stamp
    kind and alignment: the time stamp, the data header and the data are set, sync word and SFID cleared -/
theorem Frame_unpack_bytes (f t : Frame) (h : Frame_WF f) (ht : t.throughput = false)
    (hk : sameKind t.ipts f.ipts) (ha : t.alignment = f.alignment) :
    Frame.unpack t (frameBytes f) false =
      ({ t with ipts := f.ipts, hdr := f.hdr, data := f.data, syncword := Option.none, sfid := Option.none }, .ok ()) := by
  obtain ⟨h1, h2, h3, h4, ⟨hv, h5, h6⟩, h7, h8⟩ := h
  have htn : t.ipts ≠ .none := by
    intro hn; rw [hn] at hk; cases hi : f.ipts <;> simp_all [sameKind]
  have hl8 := iptsBytes_length _ h2
  have htake : List.take 8 (frameBytes f) = iptsBytes f.ipts := take_append_len _ _ _ hl8.symm
  have hdrop8 : List.drop 8 (frameBytes f) = encInt false (hdrLen f.alignment) hv ++ f.data := by
    simp only [frameBytes, h5, Option.getD_some]; exact drop_append_len _ _ _ hl8.symm
  have hdrop : List.drop (hdrLen f.alignment + TS_LEN) (frameBytes f) = f.data := by
    have : frameBytes f = (iptsBytes f.ipts ++ encInt false (hdrLen f.alignment) hv) ++ f.data := by
      simp [frameBytes, h5]
    rw [this]; exact drop_append_len _ _ _ (by simp [hl8, TS_LEN]; omega)
  have hlen := frameBytes_length f h2
  simp only [Frame.unpack, htn, if_false, htake, Ipts_unpack_bytes _ _ h3 hk h2, ht, Bool.false_eq_true, ha,
    hdrFmt_eq _ h4, structUnpackFrom, hlen, hdrop8, hdrop]
  have : f.alignment = 0 ∨ f.alignment = 1 := by omega
  rcases this with ha0 | ha0
  · simp only [ha0, hdrLen, if_true] at h6 ⊢
    have e : 8 + Fmt.size ⟨false, [Code.u16]⟩ ≤ f.data.length + 8 + 2 := by simp [Fmt.size, codesSize, Code.size]
    simp only [e, if_true, unpackCodes, Code.size, take_encInt_append, decInt_encInt2 _ _ (show hv < 65536 by omega), h5]
  · simp only [ha0, hdrLen, if_false, Nat.one_ne_zero] at h6 ⊢
    have e : 8 + Fmt.size ⟨false, [Code.u32]⟩ ≤ f.data.length + 8 + 4 := by simp [Fmt.size, codesSize, Code.size]
    simp only [e, if_true, unpackCodes, Code.size, take_encInt_append, decInt_encInt4 _ _ (show hv < 4294967296 by omega), h5]

/-- one frame as the packet encoder emits it: the frame and a zero fill byte when its size is odd -/
def fill (n : Nat) : Bytes := if n % 2 = 1 then [0] else []

def slotBytes (f : Frame) : Bytes := frameBytes f ++ fill (frameBytes f).length

theorem packFrame_eq (f : Frame) (h : Frame_WF f) : packFrame f = .ok (slotBytes f) := by
  have hz : Fits PCM_pack_fmt1.codes [PCM_DATA_FRAME_FILL] := by simp [Fits, PCM_pack_fmt1, PCM_DATA_FRAME_FILL, Code.bound]
  simp only [packFrame, Frame_pack_eq f h, structPack_eq _ _ hz]
  by_cases hodd : (frameBytes f).length % 2 = 1
  · simp [hodd, slotBytes, fill, PCM_pack_fmt1, PCM_DATA_FRAME_FILL, encCodes, Code.size, encInt, beBytes, leBytes]
  · simp [hodd, slotBytes, fill]

theorem slotBytes_length (f : Frame) : (slotBytes f).length = (frameBytes f).length + (frameBytes f).length % 2 := by
  simp only [slotBytes, fill, List.length_append]; split <;> simp <;> omega

/-- the packed-mode loop on frames of one size laid end to end returns them in order -/
theorem decFrames_enc (proto : Frame) (fs : List Frame) (pre : Bytes) (req fuel : Nat) (hfuel : fs.length < fuel)
    (hreq : 1 ≤ req)
    (hf : ∀ f ∈ fs, Frame_WF f ∧ (frameBytes f).length = req ∧ sameKind proto.ipts f.ipts ∧ proto.alignment = f.alignment ∧
      { proto with ipts := f.ipts, hdr := f.hdr, data := f.data, syncword := Option.none, sfid := Option.none } = f)
    (hp : proto.throughput = false) :
    decFrames proto false req (pre ++ fs.flatMap slotBytes) fuel pre.length = .ok fs := by
  induction fs generalizing pre fuel with
  | nil =>
    cases fuel with
    | zero => omega
    | succ fuel =>
      have : ¬ (pre.length + req ≤ pre.length) := by omega
      simp [decFrames, this]
  | cons f fs ih =>
    cases fuel with
    | zero => omega
    | succ fuel =>
      obtain ⟨hwf, hlen, hk, ha, heq⟩ := hf f (by simp)
      have hle : pre.length + req ≤ (pre ++ (f :: fs).flatMap slotBytes).length := by
        simp [slotBytes_length, hlen]; omega
      have hsl : slice (pre ++ (f :: fs).flatMap slotBytes) pre.length (pre.length + req) = frameBytes f := by
        simp only [List.flatMap_cons, slotBytes, List.append_assoc]
        exact slice_mid _ _ _ _ _ rfl (by omega)
      unfold decFrames
      simp only [hle, if_true, hsl, Frame_unpack_bytes f proto hwf hp hk ha, heq]
      have hnext : pre.length + req + (if req % 2 != 0 then 1 else 0) = (pre ++ slotBytes f).length := by
        rw [List.length_append, slotBytes_length, hlen]
        by_cases hodd : req % 2 = 1
        · simp [hodd]; omega
        · have : req % 2 = 0 := by omega
          simp [this]
      rw [hnext]
      have := ih (pre ++ slotBytes f) fuel (by simp at hfuel; omega) (fun g hg => hf g (by simp [hg]))
      simp only [List.flatMap_cons, ← List.append_assoc]
      simp only [List.append_assoc] at this ⊢
      rw [this]

theorem Frame_eq_iff (a b : Frame) :
    Frame.eq a b = true ↔ (a.ipts = b.ipts ∧ a.hdr = b.hdr ∧ a.data = b.data ∧ a.syncword = b.syncword ∧
      a.sfid = b.sfid ∧ a.throughput = b.throughput) := by
  simp only [Frame.eq, Bool.and_eq_true, beq_iff_eq]
  constructor
  · rintro ⟨⟨⟨⟨⟨h1, h2⟩, h3⟩, h4⟩, h5⟩, h6⟩; exact ⟨h1, h2, h3, h4, h5, h6⟩
  · rintro ⟨h1, h2, h3, h4, h5, h6⟩; exact ⟨⟨⟨⟨⟨h1, h2⟩, h3⟩, h4⟩, h5⟩, h6⟩

end Acra.Lemmas.Ch11PCM
