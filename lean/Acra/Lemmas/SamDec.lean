/-
  Helper lemmas for SAM/DEC pcap decommutation (C18): reading a capture laid out record by record,
  the fixed-offset UDP filter, iNET-X acceptance, frame-length inference, the slicing loop.
-/
import Acra.Model.SamDec
import Acra.Spec.Search
import Acra.Lemmas.Search
import Acra.Props.C01.iNetX
import Acra.Props.C09.iNetX
namespace Acra.Lemmas.SamDec
open Acra.Py Acra.Model.SamDec Acra.Model.Search Acra.Gen.SamDec Acra.Spec Acra.Spec.SamDec

/-! ### records laid end to end -/

/-- `decOff_encAll` for records whose decoded value is a projection of what was encoded -/
theorem decOff_encMap (dec1 : Bytes → R (α × Nat)) (more : Nat → Nat → Bool) (enc1 : β → Bytes) (out : β → α)
    (xs : List β) (pre : Bytes) (fuel : Nat) (hfuel : xs.length < fuel)
    (hdec : ∀ x ∈ xs, ∀ rest, dec1 (enc1 x ++ rest) = .ok (out x, (enc1 x).length))
    (hmore : ∀ x ∈ xs, ∀ (p q : Bytes), more p.length (p ++ (enc1 x ++ q)).length = true)
    (hstop : ∀ n, more n n = false) :
    decOff dec1 more (pre ++ xs.flatMap enc1) fuel pre.length = .ok (xs.map out) := by
  induction xs generalizing pre fuel with
  | nil =>
    cases fuel with
    | zero => omega
    | succ fuel => simp [decOff, hstop]
  | cons x xs ih =>
    cases fuel with
    | zero => omega
    | succ fuel =>
      unfold decOff
      have hm := hmore x (by simp) pre (xs.flatMap enc1)
      simp only [List.flatMap_cons] at hm ⊢
      rw [hm]
      simp only [if_true, List.drop_left']
      rw [hdec x (by simp) (xs.flatMap enc1)]
      simp only
      have := ih (pre ++ enc1 x) fuel (by simp at hfuel; omega)
        (fun y hy => hdec y (by simp [hy])) (fun y hy => hmore y (by simp [hy]))
      simp only [List.append_assoc, List.length_append] at this
      rw [this]
      simp

/-- one record as the reader sees it -/
theorem record_eq (sec usec : Nat) (pkt : Bytes) :
    record sec usec pkt = encInt false 4 sec ++ (encInt false 4 usec ++ (encInt false 4 pkt.length ++
      (encInt false 4 pkt.length ++ pkt))) := by
  simp [record, encInt]

theorem record_length (sec usec : Nat) (pkt : Bytes) : (record sec usec pkt).length = 16 + pkt.length := by
  simp [record]; omega

theorem pcapRec_record (sec usec : Nat) (pkt rest : Bytes) (hl : pkt.length < 2 ^ 32) :
    pcapRec (record sec usec pkt ++ rest) = .ok (pkt, (record sec usec pkt).length) := by
  have hl' : pkt.length < 4294967296 := by omega
  rw [record_length, record_eq]
  simp only [pcapRec, SamDec_PCAP_RECORD_HEADER_SIZE, SamDec_PCAP_RECORD_HEADER_FORMAT, structUnpack, Fmt.size,
    codesSize, Code.size, unpackCodes]
  have h16 : List.take 16 (encInt false 4 sec ++ (encInt false 4 usec ++ (encInt false 4 pkt.length ++
      (encInt false 4 pkt.length ++ pkt))) ++ rest) =
      encInt false 4 sec ++ (encInt false 4 usec ++ (encInt false 4 pkt.length ++ encInt false 4 pkt.length)) := by
    rw [show encInt false 4 sec ++ (encInt false 4 usec ++ (encInt false 4 pkt.length ++
      (encInt false 4 pkt.length ++ pkt))) ++ rest = (encInt false 4 sec ++ (encInt false 4 usec ++
      (encInt false 4 pkt.length ++ encInt false 4 pkt.length))) ++ (pkt ++ rest) by simp]
    rw [List.take_left' (by simp)]
  rw [h16]
  have hd16 : List.drop 16 (encInt false 4 sec ++ (encInt false 4 usec ++ (encInt false 4 pkt.length ++
      (encInt false 4 pkt.length ++ (pkt ++ rest))))) = pkt ++ rest := by
    rw [show encInt false 4 sec ++ (encInt false 4 usec ++ (encInt false 4 pkt.length ++
      (encInt false 4 pkt.length ++ (pkt ++ rest)))) = (encInt false 4 sec ++ (encInt false 4 usec ++
      (encInt false 4 pkt.length ++ encInt false 4 pkt.length))) ++ (pkt ++ rest) by simp]
    rw [List.drop_left' (by simp)]
  simp [decInt_encInt4 _ _ hl']
  refine ⟨?_, by omega⟩
  rw [hd16]
  simp


theorem le_flatMap_length (enc1 : β → Bytes) (xs : List β) (h : ∀ x ∈ xs, 1 ≤ (enc1 x).length) :
    xs.length ≤ (xs.flatMap enc1).length := by
  induction xs with
  | nil => simp
  | cons x xs ih =>
    have := h x (by simp)
    have := ih (fun y hy => h y (by simp [hy]))
    simp only [List.flatMap_cons, List.length_append, List.length_cons]
    omega

/-- reading a capture laid out as global header + records returns the packets in order -/
theorem pcapRecords_capture (ghdr : Bytes) (hg : ghdr.length = 24) (rs : List (Nat × Nat × Bytes))
    (hl : ∀ r ∈ rs, r.2.2.length < 2 ^ 32) :
    pcapRecords (capture ghdr (rs.map fun r => record r.1 r.2.1 r.2.2)) = .ok (rs.map (·.2.2)) := by
  unfold pcapRecords capture
  rw [← List.flatMap_def, show SamDec_PCAP_GLOBAL_HEADER_SIZE = ghdr.length by rw [hg]; rfl]
  apply decOff_encMap pcapRec pcapMore (fun r : Nat × Nat × Bytes => record r.1 r.2.1 r.2.2) (·.2.2)
  · have := le_flatMap_length (fun r : Nat × Nat × Bytes => record r.1 r.2.1 r.2.2) rs
      (by intro x _; simp only [record_length]; omega)
    simp only [List.length_append]
    omega
  · intro x hx rest
    exact pcapRec_record x.1 x.2.1 x.2.2 rest (hl x hx)
  · intro x _ p q
    simp [pcapMore, SamDec_PCAP_RECORD_HEADER_SIZE, record_length]
    omega
  · intro n
    simp only [pcapMore, SamDec_PCAP_RECORD_HEADER_SIZE]
    apply decide_eq_false
    omega

/-! ### the UDP filter -/

theorem udpData_eq (pkt : Bytes) :
    udpData pkt = if 70 < pkt.length ∧ pkt[23]? = some 17 then some (pkt.drop 42) else none := by
  unfold udpData
  simp only [SamDec_min_len, SamDec_get_data_fmt0, SamDec_proto_off, SamDec_UDP_TYPE, SamDec_data_off,
    structUnpackFrom, Fmt.size, codesSize, Code.size, unpackCodes]
  by_cases hl : 70 < pkt.length
  · have h23 : 23 < pkt.length := by omega
    have h1 : 23 + (1 + 0) ≤ pkt.length := by omega
    have ht : List.take 1 (List.drop 23 pkt) = [pkt[23]] := by
      rw [List.drop_eq_getElem_cons h23]; rfl
    simp only [gt_iff_lt, hl, if_true, h1, ht, true_and, List.getElem?_eq_getElem h23, Option.some.injEq]
    have hd : decInt true [pkt[23]] = pkt[23].toNat := by simp [decInt, beNat, leNat]
    rw [hd]
    by_cases h17 : pkt[23] = 17
    · simp [h17]
    · have : ¬ pkt[23].toNat = 17 := by
        intro h; apply h17; apply UInt8.toNat_inj.mp; simpa using h
      simp [h17, this]
  · simp [hl]


/-! ### iNET-X -/

open Acra.Model in
theorem unpack_encode (c sid seq secs nanos pif : Nat) (payload : Bytes)
    (hc : c < 2 ^ 32) (hsid : sid < 2 ^ 32) (hseq : seq < 2 ^ 32) (hsecs : secs < 2 ^ 32) (hn : nanos < 2 ^ 32)
    (hpif : pif < 2 ^ 32) (hp : payload.length + 28 < 2 ^ 32) :
    ∃ st, iNetX.unpack iNetX.fresh (Spec.iNetX.encode c sid seq secs nanos pif payload) = (st, .ok ()) ∧
      st.streamid = sid ∧ st.payload = payload := by
  have hwf : Acra.Props.C01.iNetX_WF ⟨c, sid, seq, 0, secs, nanos, pif, payload⟩ := ⟨hc, hsid, hseq, hsecs, hn, hpif, hp⟩
  obtain ⟨b, h1, h2, h3, _⟩ := Acra.Props.C01.iNetX_roundtrip _ iNetX.fresh hwf
  have h4 := Acra.Props.C01.iNetX_pack_layout _ hwf
  rw [h1] at h4
  injection h4 with h4
  dsimp only at h4
  subst h4
  generalize iNetX.unpack iNetX.fresh (Spec.iNetX.encode c sid seq secs nanos pif payload) = u at h2 h3
  obtain ⟨st, r⟩ := u
  dsimp only at h2 h3
  subst h2 h3
  exact ⟨_, rfl, rfl, rfl⟩

open Acra.Model in
/-- a datagram that `iNetX.unpack` refuses is skipped -/
theorem onPacket_not_inetx (sync d : Bytes) (fl : Option Int)
    (h : ¬ (28 ≤ d.length ∧ beNat (slice d 12 16) = d.length)) : onPacket sync d fl = ([], fl, none) := by
  have := mt (Acra.Props.C09.iNetX_accepts_iff iNetX.fresh d).1 h
  unfold onPacket
  rcases hu : iNetX.unpack iNetX.fresh d with ⟨st, r⟩
  rw [hu] at this
  cases r with
  | error e => rfl
  | ok u => exact absurd rfl this

open Acra.Model Acra.Gen.iNetX in
theorem unpack_streamid (d : Bytes) (h : (iNetX.unpack iNetX.fresh d).2 = .ok ()) :
    (iNetX.unpack iNetX.fresh d).1.streamid = beNat (slice d 4 8) := by
  have hh := (Acra.Props.C09.iNetX_accepts_iff iNetX.fresh d).1 h
  revert h
  simp only [iNetX.unpack, iNetX_INETX_HEADER_LENGTH, structUnpackFrom, iNetX_INETX_HEADER_FORMAT, Fmt.size,
    codesSize, Code.size, unpackCodes, decInt, Nat.zero_add, List.drop_zero]
  have h' : ¬ d.length < 28 := by omega
  have h'' : 28 ≤ d.length := by omega
  simp only [h', h'', if_false, if_true, ne_eq, ite_not]
  have : slice d 4 8 = List.take 4 (List.drop 4 d) := by
    simp [slice, List.take_drop]
  rw [this]
  split <;> simp_all

open Acra.Model in
/-- a datagram on another stream is skipped -/
theorem onPacket_other_stream (sync d : Bytes) (fl : Option Int)
    (h : beNat (slice d 4 8) ≠ 339) : onPacket sync d fl = ([], fl, none) := by
  unfold onPacket
  rcases hu : iNetX.unpack iNetX.fresh d with ⟨st, r⟩
  cases r with
  | error e => rfl
  | ok u =>
    have h2 : (iNetX.unpack iNetX.fresh d).2 = .ok () := by rw [hu]
    have h3 := unpack_streamid d h2
    rw [hu] at h3
    simp only at h3
    have : (st.streamid == SamDec_streamid) = false := by
      simp only [SamDec_streamid, beq_eq_false_iff_ne, ne_eq]
      rw [h3]; exact h
    simp only [this]
    rfl


/-! ### slicing -/

theorem sync_packed : structPack SamDec_frames_fmt0 [SamDec_sync_word] = .ok syncWord := by rfl

theorem pySlice_nat (b : List α) (lo hi : Nat) : pySlice b (lo : Int) (hi : Int) = slice b lo hi := by
  have h1 : normIdx b.length (lo : Int) = min lo b.length := by
    simp only [normIdx]; rw [if_neg (by omega)]; simp
  have h2 : normIdx b.length (hi : Int) = min hi b.length := by
    simp only [normIdx]; rw [if_neg (by omega)]; simp
  simp only [pySlice, h1, h2, slice]
  rw [List.take_eq_take_min (i := hi), Nat.min_comm hi b.length]
  apply List.ext_getElem?
  intro i
  simp only [List.getElem?_drop, List.getElem?_take]
  by_cases h : lo ≤ b.length
  · rw [Nat.min_eq_left h]
  · have : min lo b.length = b.length := by omega
    rw [this]
    have e1 : b[b.length + i]? = none := by simp
    have e2 : b[lo + i]? = none := by simp; omega
    simp [e2]

/-- frames laid end to end after `pre` come back one by one, and the loop then stops cleanly -/
theorem sliceLoop_frames (L : Nat) (hL : 1 ≤ L) (fs : List Bytes)
    (hfs : ∀ f ∈ fs, f.length = L ∧ f.take 4 = syncWord) :
    ∀ (pre : Bytes) (fuel : Nat), fs.length < fuel →
      sliceLoop syncWord (pre ++ fs.flatten) fuel (pre.length : Int) (some (L : Int)) = (fs, some (L : Int), none) := by
  induction fs with
  | nil =>
    intro pre fuel hf
    cases fuel with
    | zero => omega
    | succ fuel =>
      have : ¬ ((pre.length : Int) + (L : Int) ≤ ((pre ++ ([] : List Bytes).flatten).length : Nat)) := by
        simp; omega
      simp only [sliceLoop, this, if_false]
  | cons f fs ih =>
    intro pre fuel hf
    cases fuel with
    | zero => omega
    | succ fuel =>
      obtain ⟨hfl, hfsync⟩ := hfs f (by simp)
      have hc : ((pre.length : Int) + (L : Int) ≤ ((pre ++ (f :: fs).flatten).length : Nat)) := by
        simp [hfl]; omega
      have hsl : pySlice (pre ++ (f :: fs).flatten) (pre.length : Int) ((pre.length : Int) + (L : Int)) = f := by
        rw [show ((pre.length : Int) + (L : Int)) = ((pre.length + L : Nat) : Int) by omega, pySlice_nat]
        simp only [List.flatten_cons]
        exact slice_mid pre f fs.flatten _ _ rfl (by rw [hfl])
      have hne : (f.take 4 != syncWord) = false := by simp [hfsync]
      have ihh := ih (fun g hg => hfs g (by simp [hg])) (pre ++ f) fuel (by simp at hf; omega)
      simp only [sliceLoop, hc, if_true, hsl, hne, Bool.false_eq_true, if_false]
      rw [show ((pre.length : Int) + (L : Int)) = (((pre ++ f).length : Nat) : Int) by simp [hfl],
        show pre ++ (f :: fs).flatten = (pre ++ f) ++ fs.flatten by simp, ihh]

/-- frame length inference on a packet whose sync words are exactly the `k ≥ 1` frame starts -/
theorem inferLength_frames (L k : Nat) (hk : 1 ≤ k) (payload : Bytes) (hlen : payload.length = 10 + k * L)
    (hocc : occ payload syncWord = (List.range k).map (fun j => 10 + L * j)) :
    inferLength syncWord payload = .ok (L : Int) := by
  unfold inferLength
  rw [Acra.Lemmas.Search.bmh_eq_occ payload syncWord (by simp [syncWord]), hocc]
  match k, hk with
  | 1, _ =>
    simp [SamDec_PCM_HDR_LEN, hlen]
    omega
  | k + 2, _ =>
    rw [List.range_succ_eq_map, List.range_succ_eq_map]
    simp
    omega


/-! ### the items of a capture -/

/-- a packet the decommutator must ignore (C18): too short, not UDP, not an iNET-X packet (C09
    `iNetX_accepts_iff`: header complete and length word equal to the datagram length), or another stream.
    Offsets are those of an untagged Ethernet II / IPv4-without-options / UDP frame. -/
def Foreign (pkt : Bytes) : Prop :=
  pkt.length ≤ 0x46 ∨ pkt[0x17]? ≠ some 17 ∨
  ¬ (28 ≤ (pkt.drop 0x2A).length ∧ beNat (slice (pkt.drop 0x2A) 12 16) = (pkt.drop 0x2A).length) ∨
  beNat (slice (pkt.drop 0x2A) 4 8) ≠ streamId

/-- what a capture is made of -/
inductive Item where
  | foreign (pkt : Bytes)
  | samdec (l234 : Bytes) (control sequence secs nanos pif : Nat) (hdr10 : Bytes) (frames : List Bytes)

def Item.bytes : Item → Bytes
  | .foreign p => p
  | .samdec l c s a b p h fs => packet l c s a b p h fs

def Item.frames : Item → List Bytes
  | .foreign _ => []
  | .samdec _ _ _ _ _ _ _ fs => fs

/-- well-formed item for frame length `L`: a foreign packet, or a SAM/DEC packet whose 42 header bytes say
    UDP, whose iNET-X fields fit 32 bits, with a 10-byte SAM/DEC header and `k ≥ 1` frames of length `L`
    each starting with the sync word; the packet length fits the 32-bit `incl_len` of its record -/
def Item.WF (L : Nat) : Item → Prop
  | .foreign p => Foreign p ∧ p.length < 2 ^ 32
  | .samdec l c s a b p h fs =>
    l.length = 42 ∧ l[23]? = some 17 ∧ c < 2 ^ 32 ∧ s < 2 ^ 32 ∧ a < 2 ^ 32 ∧ b < 2 ^ 32 ∧ p < 2 ^ 32 ∧
    h.length = 10 ∧ fs ≠ [] ∧ (∀ f ∈ fs, f.length = L ∧ f.take 4 = syncWord) ∧ 80 + fs.length * L < 2 ^ 32

/-- in the first SAM/DEC packet the sync word occurs at the frame starts only -/
def FirstSync (L : Nat) : List Item → Prop
  | [] => True
  | .foreign _ :: rest => FirstSync L rest
  | .samdec _ _ _ _ _ _ h fs :: _ =>
    occ (h ++ fs.flatten) syncWord = (List.range fs.length).map (fun j => 10 + L * j)

/-- what the code needs (weaker than `FirstSync`): in the first SAM/DEC packet the FIRST TWO occurrences of
    the sync word are the first two frame starts, or the packet carries one frame and its start is the only
    occurrence.  The pattern may occur as data anywhere from the second frame on. -/
def FirstSync' (L : Nat) : List Item → Prop
  | [] => True
  | .foreign _ :: rest => FirstSync' L rest
  | .samdec _ _ _ _ _ _ h fs :: _ =>
    (∃ rest, occ (h ++ fs.flatten) syncWord = 10 :: (10 + L) :: rest) ∨
    (occ (h ++ fs.flatten) syncWord = [10] ∧ fs.length = 1)

/-- the same condition said without lists: the first SAM/DEC packet has no occurrence of the sync word that
    begins inside the 10-byte header or inside the first frame's data -/
def FirstClean (L : Nat) : List Item → Prop
  | [] => True
  | .foreign _ :: rest => FirstClean L rest
  | .samdec _ _ _ _ _ _ h fs :: _ => ∀ i ∈ occ (h ++ fs.flatten) syncWord, i < 10 + L → i = 10

/-- the exact condition on the first SAM/DEC packet: the inferred frame length is `L` -/
def FirstLen (L : Nat) : List Item → Prop
  | [] => True
  | .foreign _ :: rest => FirstLen L rest
  | .samdec _ _ _ _ _ _ h fs :: _ => inferLength syncWord (h ++ fs.flatten) = .ok (L : Int)

theorem flatten_length_const (L : Nat) (fs : List Bytes) (h : ∀ f ∈ fs, f.length = L) :
    fs.flatten.length = fs.length * L := by
  induction fs with
  | nil => simp
  | cons f fs ih =>
    simp only [List.flatten_cons, List.length_append, List.length_cons, h f (by simp),
      ih (fun g hg => h g (by simp [hg]))]
    rw [Nat.add_mul]; omega

theorem onPacket_foreign (pkt : Bytes) (h : Foreign pkt) (fl : Option Int) :
    udpData pkt = none ∨ ∃ d, udpData pkt = some d ∧ onPacket syncWord d fl = ([], fl, none) := by
  rw [udpData_eq]
  by_cases hc : 70 < pkt.length ∧ pkt[23]? = some 17
  · right
    refine ⟨pkt.drop 42, by rw [if_pos hc], ?_⟩
    rcases h with h | h | h | h
    · omega
    · exact absurd hc.2 h
    · exact onPacket_not_inetx _ _ _ h
    · exact onPacket_other_stream _ _ _ h
  · left; rw [if_neg hc]

open Acra.Model in
theorem onPacket_samdec (L : Nat) (l : Bytes) (c s a b p : Nat) (h : Bytes) (fs : List Bytes)
    (hwf : Item.WF L (.samdec l c s a b p h fs)) (fl : Option Int)
    (hfl : fl = some (L : Int) ∨ (fl = none ∧ inferLength syncWord (h ++ fs.flatten) = .ok (L : Int))) :
    udpData (packet l c s a b p h fs) = some (datagram c s a b p h fs) ∧
    onPacket syncWord (datagram c s a b p h fs) fl = (fs, some (L : Int), none) := by
  obtain ⟨hl, h17, hc, hs, ha, hb, hp, hh, hne, hfs, hsz⟩ := hwf
  have hflat := flatten_length_const L fs (fun f hf => (hfs f hf).1)
  have hk : 1 ≤ fs.length := by
    cases fs with
    | nil => exact absurd rfl hne
    | cons f fs => simp
  have hL : 4 ≤ L := by
    cases fs with
    | nil => exact absurd rfl hne
    | cons f fs =>
      obtain ⟨h1, h2⟩ := hfs f (by simp)
      have := congrArg List.length h2
      simp [syncWord] at this
      omega
  have hplen : (h ++ fs.flatten).length = 10 + fs.length * L := by simp [hh, hflat]
  constructor
  · rw [udpData_eq, packet]
    have h23 : (l ++ datagram c s a b p h fs)[23]? = some 17 := by
      rw [List.getElem?_append_left (by omega)]; exact h17
    have hlen : 70 < (l ++ datagram c s a b p h fs).length := by
      simp [datagram, Spec.iNetX.encode, hl, hh]; omega
    rw [if_pos ⟨hlen, h23⟩, List.drop_left' hl]
  · obtain ⟨st, hu, hsid, hpay⟩ := unpack_encode c streamId s a b p (h ++ fs.flatten) hc (by decide) hs ha hb hp
      (by rw [hplen]; omega)
    unfold onPacket datagram
    rw [hu]
    have hst : (st.streamid == SamDec_streamid) = true := by rw [hsid]; rfl
    simp only [hst, if_true, hpay]
    have hloop := sliceLoop_frames L (by omega) fs hfs h ((h ++ fs.flatten).length + 2)
      (by rw [hplen]; have := Nat.le_mul_of_pos_right fs.length (show 0 < L by omega); omega)
    rw [show SamDec_PCM_HDR_LEN = h.length by rw [hh]; rfl]
    rcases hfl with hfl | ⟨hfl, hocc⟩
    · subst hfl
      exact hloop
    · subst hfl
      simp only
      rw [hocc]
      exact hloop

/-- the main induction, under the exact condition `FirstLen` -/
theorem framesLoop_items_len (L : Nat) (items : List Item) (hwf : ∀ it ∈ items, it.WF L) (fl : Option Int)
    (hfl : fl = some (L : Int) ∨ (fl = none ∧ FirstLen L items)) :
    framesLoop syncWord ((items.map Item.bytes).filterMap udpData) fl = (items.flatMap Item.frames, none) := by
  induction items generalizing fl with
  | nil => simp [framesLoop]
  | cons it items ih =>
    have ihh := ih (fun x hx => hwf x (by simp [hx]))
    cases it with
    | foreign pkt =>
      have hf : Foreign pkt := (hwf (.foreign pkt) (by simp)).1
      have hfl' : fl = some (L : Int) ∨ (fl = none ∧ FirstLen L items) := by
        rcases hfl with h | ⟨h1, h2⟩
        · exact Or.inl h
        · exact Or.inr ⟨h1, h2⟩
      simp only [List.map_cons, Item.bytes, List.flatMap_cons, Item.frames, List.nil_append]
      rcases onPacket_foreign pkt hf fl with h | ⟨d, h1, h2⟩
      · rw [List.filterMap_cons_none h]
        exact ihh fl hfl'
      · rw [List.filterMap_cons_some h1]
        simp only [framesLoop, h2]
        rw [ihh fl hfl']
        simp
    | samdec l c s a b p h fs =>
      have hw := hwf (.samdec l c s a b p h fs) (by simp)
      have hfl' : fl = some (L : Int) ∨ (fl = none ∧
          inferLength syncWord (h ++ fs.flatten) = .ok (L : Int)) := by
        rcases hfl with h | ⟨h1, h2⟩
        · exact Or.inl h
        · exact Or.inr ⟨h1, h2⟩
      obtain ⟨h1, h2⟩ := onPacket_samdec L l c s a b p h fs hw fl hfl'
      simp only [List.map_cons, Item.bytes, List.flatMap_cons, Item.frames]
      rw [List.filterMap_cons_some h1]
      simp only [framesLoop, h2]
      rw [ihh (some (L : Int)) (Or.inl rfl)]

/-- the first two occurrences decide the inferred length -/
theorem FirstSync'.firstLen {L : Nat} : ∀ {items : List Item}, (∀ it ∈ items, it.WF L) → FirstSync' L items → FirstLen L items
  | [], _, _ => trivial
  | .foreign _ :: rest, hwf, h => FirstSync'.firstLen (items := rest) (fun x hx => hwf x (by simp [hx])) h
  | .samdec l c s a b p hd fs :: _, hwf, h => by
    obtain ⟨_, _, _, _, _, _, _, hh, _, hfs, _⟩ := hwf (.samdec l c s a b p hd fs) (by simp)
    have hflat := flatten_length_const L fs (fun f hf => (hfs f hf).1)
    show inferLength syncWord (hd ++ fs.flatten) = .ok (L : Int)
    unfold inferLength
    rw [Acra.Lemmas.Search.bmh_eq_occ _ syncWord (by simp [syncWord])]
    rcases h with ⟨rest, h⟩ | ⟨h, h1⟩
    · rw [h]
      simp
      omega
    · rw [h]
      simp [SamDec_PCM_HDR_LEN, hh, hflat, h1]
      omega

/-- the old hypothesis (sync word at the frame starts only) is a special case -/
theorem FirstSync.firstSync' {L : Nat} : ∀ {items : List Item}, (∀ it ∈ items, it.WF L) → FirstSync L items → FirstSync' L items
  | [], _, _ => trivial
  | .foreign _ :: rest, hwf, h => FirstSync.firstSync' (items := rest) (fun x hx => hwf x (by simp [hx])) h
  | .samdec l c s a b p hd fs :: _, hwf, h => by
    obtain ⟨_, _, _, _, _, _, _, _, hne, _, _⟩ := hwf (.samdec l c s a b p hd fs) (by simp)
    show (∃ rest, occ (hd ++ fs.flatten) syncWord = 10 :: (10 + L) :: rest) ∨
      (occ (hd ++ fs.flatten) syncWord = [10] ∧ fs.length = 1)
    have h : occ (hd ++ fs.flatten) syncWord = (List.range fs.length).map (fun j => 10 + L * j) := h
    rw [h]
    match hk : fs.length with
    | 0 => exact absurd (List.length_eq_zero_iff.mp hk) hne
    | 1 => right; simp
    | k + 2 =>
      left
      rw [List.range_succ_eq_map, List.range_succ_eq_map]
      exact ⟨_, by simp; rfl⟩

/-- "no occurrence begins inside the header or inside the first frame's data" is the same condition -/
theorem firstSync'_iff_clean {L : Nat} : ∀ {items : List Item}, (∀ it ∈ items, it.WF L) →
    (FirstSync' L items ↔ FirstClean L items)
  | [], _ => Iff.rfl
  | .foreign _ :: rest, hwf => firstSync'_iff_clean (items := rest) (fun x hx => hwf x (by simp [hx]))
  | .samdec l c s a b p hd fs :: _, hwf => by
    obtain ⟨_, _, _, _, _, _, _, hh, hne, hfs, _⟩ := hwf (.samdec l c s a b p hd fs) (by simp)
    have hflat := flatten_length_const L fs (fun f hf => (hfs f hf).1)
    have hpw := Acra.Lemmas.Search.occ_pairwise (hd ++ fs.flatten) syncWord
    show ((∃ rest, occ (hd ++ fs.flatten) syncWord = 10 :: (10 + L) :: rest) ∨
      (occ (hd ++ fs.flatten) syncWord = [10] ∧ fs.length = 1)) ↔
      ∀ i ∈ occ (hd ++ fs.flatten) syncWord, i < 10 + L → i = 10
    -- the first frame starts with the sync word, and so does the second when there is one
    obtain ⟨f, fs', rfl⟩ := List.exists_cons_of_ne_nil hne
    obtain ⟨hfl, hfsync⟩ := hfs f (by simp)
    have hL : 4 ≤ L := by
      have := congrArg List.length hfsync
      simp [syncWord] at this
      omega
    have h10 : 10 ∈ occ (hd ++ (f :: fs').flatten) syncWord := by
      rw [Acra.Lemmas.Search.mem_occ]
      refine ⟨by simp [syncWord, hh, hfl]; omega, ?_⟩
      rw [show (10 : Nat) = hd.length from hh.symm, List.drop_left]
      simp only [List.flatten_cons, syncWord, List.length_cons, List.length_nil]
      rw [List.take_append_of_le_length (by rw [hfl]; omega)]
      exact hfsync
    constructor
    · rintro (⟨rest, h⟩ | ⟨h, _⟩) i hi hlt
      · rw [h] at hi hpw
        simp only [List.mem_cons] at hi
        rcases hi with rfl | rfl | hi
        · rfl
        · omega
        · have := (List.pairwise_cons.mp (List.pairwise_cons.mp hpw).2).1 i hi
          omega
      · rw [h] at hi
        simpa using hi
    · intro hcl
      match hocc : occ (hd ++ (f :: fs').flatten) syncWord with
      | [] => rw [hocc] at h10; simp at h10
      | [o0] =>
        rw [hocc] at h10
        simp only [List.mem_singleton] at h10
        subst h10
        right
        refine ⟨rfl, ?_⟩
        cases fs' with
        | nil => rfl
        | cons g gs =>
          exfalso
          obtain ⟨hgl, hgsync⟩ := hfs g (by simp)
          have : 10 + L ∈ occ (hd ++ (f :: g :: gs).flatten) syncWord := by
            rw [Acra.Lemmas.Search.mem_occ]
            refine ⟨by simp [syncWord, hh, hfl, hgl]; omega, ?_⟩
            rw [show hd ++ (f :: g :: gs).flatten = (hd ++ f) ++ (g ++ gs.flatten) by simp,
              show 10 + L = (hd ++ f).length by simp [hh, hfl], List.drop_left]
            simp only [syncWord, List.length_cons, List.length_nil]
            rw [List.take_append_of_le_length (by rw [hgl]; omega)]
            exact hgsync
          rw [hocc] at this
          simp at this
          omega
      | o0 :: o1 :: rest =>
        left
        rw [hocc] at h10 hpw hcl
        have hp1 := List.pairwise_cons.mp hpw
        have hp2 := List.pairwise_cons.mp hp1.2
        have h01 : o0 < o1 := hp1.1 o1 (by simp)
        have ho0 : o0 = 10 := by
          apply hcl o0 (by simp)
          simp only [List.mem_cons] at h10
          rcases h10 with h | h | h
          · omega
          · omega
          · have := hp1.1 10 (by simp [h]); omega
        subst ho0
        -- the second frame exists (otherwise every occurrence begins before 10 + L) and starts at 10 + L
        have ho1 : o1 = 10 + L := by
          have hmem : o1 ∈ occ (hd ++ (f :: fs').flatten) syncWord := by rw [hocc]; simp
          cases fs' with
          | nil =>
            have := ((Acra.Lemmas.Search.mem_occ _ _ _).mp hmem).1
            simp [syncWord, hh, hfl] at this
            have := hcl o1 (by simp) (by omega)
            omega
          | cons g gs =>
            obtain ⟨hgl, hgsync⟩ := hfs g (by simp)
            have : 10 + L ∈ occ (hd ++ (f :: g :: gs).flatten) syncWord := by
              rw [Acra.Lemmas.Search.mem_occ]
              refine ⟨by simp [syncWord, hh, hfl, hgl]; omega, ?_⟩
              rw [show hd ++ (f :: g :: gs).flatten = (hd ++ f) ++ (g ++ gs.flatten) by simp,
                show 10 + L = (hd ++ f).length by simp [hh, hfl], List.drop_left]
              simp only [syncWord, List.length_cons, List.length_nil]
              rw [List.take_append_of_le_length (by rw [hgl]; omega)]
              exact hgsync
            rw [hocc] at this
            simp only [List.mem_cons] at this
            rcases this with h | h | h
            · omega
            · exact h.symm
            · have hlt := hp2.1 (10 + L) h
              have := hcl o1 (by simp) hlt
              omega
        subst ho1
        exact ⟨rest, rfl⟩

theorem framesLoop_items' (L : Nat) (items : List Item) (hwf : ∀ it ∈ items, it.WF L) (fl : Option Int)
    (hfl : fl = some (L : Int) ∨ (fl = none ∧ FirstSync' L items)) :
    framesLoop syncWord ((items.map Item.bytes).filterMap udpData) fl = (items.flatMap Item.frames, none) :=
  framesLoop_items_len L items hwf fl (hfl.imp id fun h => ⟨h.1, h.2.firstLen hwf⟩)

theorem framesLoop_items (L : Nat) (items : List Item) (hwf : ∀ it ∈ items, it.WF L) (fl : Option Int)
    (hfl : fl = some (L : Int) ∨ (fl = none ∧ FirstSync L items)) :
    framesLoop syncWord ((items.map Item.bytes).filterMap udpData) fl = (items.flatMap Item.frames, none) :=
  framesLoop_items' L items hwf fl (hfl.imp id fun h => ⟨h.1, h.2.firstSync' hwf⟩)


theorem items_WF_of_recs {L : Nat} {recs : List (Nat × Nat × Item)} (hwf : ∀ r ∈ recs, r.2.2.WF L) :
    ∀ it ∈ recs.map (·.2.2), it.WF L := by
  intro it hit
  simp only [List.mem_map] at hit
  obtain ⟨r, hr, rfl⟩ := hit
  exact hwf r hr

theorem Item.WF.length_lt {L : Nat} {it : Item} (h : it.WF L) : it.bytes.length < 2 ^ 32 := by
  cases it with
  | foreign p => exact h.2
  | samdec l c s a b p hd fs =>
    obtain ⟨hl, _, _, _, _, _, _, hh, _, hfs, hsz⟩ := h
    have hflat := flatten_length_const L fs (fun f hf => (hfs f hf).1)
    simp [Item.bytes, packet, datagram, Spec.iNetX.encode, hl, hh, hflat]
    omega

theorem pcapRec_progress : Progress pcapRec where
  pos := by
    intro b x n h
    unfold pcapRec at h
    have e16 : SamDec_PCAP_RECORD_HEADER_SIZE = 16 := rfl
    by_cases h16 : SamDec_PCAP_RECORD_HEADER_SIZE ≠ (List.take SamDec_PCAP_RECORD_HEADER_SIZE b).length
    · rw [if_pos h16] at h; simp at h
    · rw [if_neg h16] at h
      split at h
      · simp only [Except.ok.injEq, Prod.mk.injEq] at h; omega
      · simp at h
      · simp at h
  nofuel := by
    intro b h
    unfold pcapRec at h
    by_cases h16 : SamDec_PCAP_RECORD_HEADER_SIZE ≠ (List.take SamDec_PCAP_RECORD_HEADER_SIZE b).length
    · rw [if_pos h16] at h; simp at h
    · rw [if_neg h16] at h
      split at h
      · simp at h
      · simp at h
      · rename_i e he
        have := structUnpack_error _ _ _ he
        simp only [Except.error.injEq] at h
        rw [h] at this
        simp at this
  empty := by
    intro x n h
    simp [pcapRec, SamDec_PCAP_RECORD_HEADER_SIZE] at h

end Acra.Lemmas.SamDec
