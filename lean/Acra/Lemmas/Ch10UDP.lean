/-
  Helper lemmas for Chapter10UDP: well-formedness per format, the bytes `pack` emits (= the
  declarative layouts of Acra.Spec.Ch10UDP), and what `unpack` makes of ARBITRARY bytes whose first
  byte selects each format (decode-side layout).  Property theorems are in Acra/Props/C03.
-/
import Acra.Lemmas.Ch10
namespace Acra.Lemmas.Ch10UDP
open Acra.Py Acra.Model.Ch10UDP Acra.Gen.Ch10UDP Acra.Lemmas.Ch10 Acra


def WF1 (s : State) : Prop := s.version = 1 ∧ s.type < 16 ∧ s.type ≠ 1 ∧ s.sequence < 2 ^ 24
def WF1seg (s : State) : Prop :=
  s.version = 1 ∧ s.type = 1 ∧ s.sequence < 2 ^ 24 ∧ s.channelID < 2 ^ 16 ∧ s.channelsequence < 2 ^ 8 ∧
  s.segmentoffset < 2 ^ 32
def WF2 (s : State) : Prop :=
  s.version = 2 ∧ s.type < 16 ∧ s.sequence < 2 ^ 24 ∧ s.segmentoffset < 2 ^ 24 ∧ s.channelID < 2 ^ 16 ∧
  s.payload.length / 4 < 2 ^ 24
def WF3 (s : State) (o : Nat) : Prop :=
  s.version = 3 ∧ s.sourceid_len ≤ 4 ∧ s.sourceid < 2 ^ (4 * s.sourceid_len) ∧
  s.sequence < 2 ^ (32 - 4 * s.sourceid_len) ∧ s.offset_pkt_start = some o ∧ o < 2 ^ 16

theorem pack_fmt1 (s : State) (h : WF1 s) :
    pack s = (s, .ok (Spec.Ch10UDP.fmt1 s.type s.sequence s.payload)) := by
  obtain ⟨hv, ht, ht1, hs⟩ := h
  have hf : Fits [.u8, .u8, .u16] [s.type * 16 + 1, s.sequence % 256, s.sequence / 256] := by
    simp only [Fits, Code.bound, and_true]; omega
  simp [pack, hv, TYPE_SEG, ht1, CH10_UDP_HEADER_FORMAT1]
  bits_simp
  rw [structPack_eq ⟨false, _⟩ _ hf]
  simp [encCodes, Code.size, encInt, Spec.Ch10UDP.fmt1, leBytes]
  congr 1; omega

theorem pack_fmt1seg (s : State) (h : WF1seg s) :
    pack s = (s, .ok (Spec.Ch10UDP.fmt1seg s.sequence s.channelID s.channelsequence s.segmentoffset s.payload)) := by
  obtain ⟨hv, ht, hs, hc, hcs, hso⟩ := h
  have hf : Fits [.u8, .u8, .u16] [17, s.sequence % 256, s.sequence / 256] := by
    simp only [Fits, Code.bound, and_true]; omega
  have hf2 : Fits [.u16, .u8, .u8, .u32] [s.channelID, s.channelsequence, 0, s.segmentoffset] := by
    simp only [Fits, Code.bound, and_true]; omega
  simp [pack, hv, TYPE_SEG, ht, CH10_UDP_HEADER_FORMAT1, CH10_UDP_SEG_HEADER_FORMAT1]
  bits_simp
  rw [structPack_eq ⟨false, _⟩ _ hf, structPack_eq ⟨false, _⟩ _ hf2]
  simp [encCodes, Code.size, encInt, Spec.Ch10UDP.fmt1seg, leBytes]

theorem pack_fmt2 (s : State) (h : WF2 s) :
    pack s = ({ s with packetsize := some (s.payload.length / 4) },
      .ok (Spec.Ch10UDP.fmt2 s.type s.sequence s.segmentoffset s.channelID s.payload)) := by
  obtain ⟨hv, ht, hs, hso, hc, hp⟩ := h
  have hf : Fits [.u16, .u8, .u8] [s.sequence / 256, s.sequence % 256, s.type * 16 + 2] := by
    simp only [Fits, Code.bound, and_true]; omega
  have hf2 : Fits [.u8, .u8, .u16, .u16, .u16] [s.segmentoffset / 65536, s.payload.length / 4 / 65536,
      s.payload.length / 4 % 65536, s.segmentoffset % 65536, s.channelID] := by
    simp only [Fits, Code.bound, and_true]; omega
  simp [pack, hv, TYPE_SEG, CH10_UDP_HEADER_FORMAT2, UDP_pack_fmt0]
  bits_simp
  rw [structPack_eq ⟨true, _⟩ _ hf, structPack_eq ⟨true, _⟩ _ hf2]
  simp [encCodes, Code.size, encInt, Spec.Ch10UDP.fmt2, leBytes, beBytes]
  refine ⟨by congr 1; omega, by congr 1; omega, by congr 1; omega⟩

theorem pack_fmt3_aux (s : State) (o n sidB seqB : Nat) (hv : s.version = 3) (hl : s.sourceid_len = n)
    (hsid : s.sourceid < sidB) (hseq : s.sequence < seqB)
    (hcases : (n = 0 ∧ sidB = 1 ∧ seqB = 4294967296) ∨ (n = 1 ∧ sidB = 16 ∧ seqB = 268435456) ∨
      (n = 2 ∧ sidB = 256 ∧ seqB = 16777216) ∨ (n = 3 ∧ sidB = 4096 ∧ seqB = 1048576) ∨
      (n = 4 ∧ sidB = 65536 ∧ seqB = 65536))
    (ho : s.offset_pkt_start = some o) (ho2 : o < 65536) :
    pack s = (s, .ok (Spec.Ch10UDP.fmt3 n s.sourceid s.sequence o s.payload)) := by
  have hn : n ≤ 4 := by omega
  have hf : Fits [.u8, .u8, .u16] [n * 16 + 3, 0, o] := by
    simp only [Fits, Code.bound, and_true]; omega
  have hw : s.sourceid * seqB + s.sequence < 4294967296 := by
    rcases hcases with ⟨_, h1, h2⟩ | ⟨_, h1, h2⟩ | ⟨_, h1, h2⟩ | ⟨_, h1, h2⟩ | ⟨_, h1, h2⟩ <;> subst h1 <;> subst h2 <;> omega
  have hf2 : Fits [.u32] [s.sourceid * seqB + s.sequence] := by
    simp only [Fits, Code.bound, and_true]; omega
  have hfield : srcField s = some (s.sourceid * seqB + s.sequence) := by
    rcases hcases with ⟨h0, h1, h2⟩ | ⟨h0, h1, h2⟩ | ⟨h0, h1, h2⟩ | ⟨h0, h1, h2⟩ | ⟨h0, h1, h2⟩ <;>
      subst h0 <;> subst h1 <;> subst h2 <;>
      simp [srcField, hl, and_28, and_24, and_20, and_65535, shl] <;> omega
  have hspec : 2 ^ (32 - 4 * n) = seqB := by
    rcases hcases with ⟨h0, h1, h2⟩ | ⟨h0, h1, h2⟩ | ⟨h0, h1, h2⟩ | ⟨h0, h1, h2⟩ | ⟨h0, h1, h2⟩ <;>
      subst h0 <;> subst h2 <;> rfl
  simp only [pack, hv, ho, hfield, TYPE_SEG, CH10_UDP_HEADER_FORMAT1, UDP_pack_fmt1]
  simp
  bits_simp
  rw [hl, structPack_eq ⟨false, _⟩ _ hf, structPack_eq ⟨false, _⟩ _ hf2]
  simp only [Spec.Ch10UDP.fmt3, hspec]
  simp [encCodes, Code.size, encInt, leBytes]
  congr 1; omega

theorem pack_fmt3 (s : State) (o : Nat) (h : WF3 s o) :
    pack s = (s, .ok (Spec.Ch10UDP.fmt3 s.sourceid_len s.sourceid s.sequence o s.payload)) := by
  obtain ⟨hv, hl, hsid, hseq, ho, ho2⟩ := h
  have hc : s.sourceid_len = 0 ∨ s.sourceid_len = 1 ∨ s.sourceid_len = 2 ∨ s.sourceid_len = 3 ∨ s.sourceid_len = 4 := by omega
  rcases hc with hc | hc | hc | hc | hc <;> rw [hc] at hsid hseq ⊢
  · exact pack_fmt3_aux s o 0 1 4294967296 hv hc hsid hseq (by simp) ho ho2
  · exact pack_fmt3_aux s o 1 16 268435456 hv hc hsid hseq (by simp) ho ho2
  · exact pack_fmt3_aux s o 2 256 16777216 hv hc hsid hseq (by simp) ho ho2
  · exact pack_fmt3_aux s o 3 4096 1048576 hv hc hsid hseq (by simp) ho ho2
  · exact pack_fmt3_aux s o 4 65536 65536 hv hc hsid hseq (by simp) ho ho2

theorem unpack_bytes_fmt1 (t : State) (b0 b1 b2 b3 : UInt8) (rest : Bytes)
    (h1 : b0.toNat % 16 = 1) (h2 : b0.toNat / 16 ≠ 1) :
    unpack t (b0 :: b1 :: b2 :: b3 :: rest) =
      ({ version := 1, type := b0.toNat / 16, channelID := 0, channelsequence := 0,
         sequence := b1.toNat + (b2.toNat + 256 * b3.toNat) * 256, segmentoffset := 0, packetsize := none,
         sourceid_len := 0, sourceid := 0, offset_pkt_start := none, payload := rest }, .ok ()) := by
  simp only [unpack, structUnpackFrom, CH10_UDP_HEADER_FORMAT1, Fmt.size, codesSize, Code.size,
    List.length_cons, unpackCodes, decInt, List.drop_zero, List.take_succ_cons, List.take_zero,
    List.drop_succ_cons, leNat, TYPE_SEG, CH10_UDP_HEADER_LENGTH]
  bits_simp
  simp [h1, h2]


theorem unpack_bytes_fmt2 (t : State) (b0 b1 b2 b3 b4 b5 b6 b7 b8 b9 b10 b11 : UInt8) (rest : Bytes)
    (h1 : b0.toNat % 16 ≠ 1) (h2 : b0.toNat % 16 ≠ 3) :
    unpack t (b0 :: b1 :: b2 :: b3 :: b4 :: b5 :: b6 :: b7 :: b8 :: b9 :: b10 :: b11 :: rest) =
      ({ version := 2, type := b3.toNat / 16, channelID := b11.toNat + 256 * b10.toNat, channelsequence := 0,
         sequence := b2.toNat + (b1.toNat + 256 * b0.toNat) * 256,
         segmentoffset := (b9.toNat + 256 * b8.toNat) + b4.toNat * 65536,
         packetsize := some ((b7.toNat + 256 * b6.toNat) + b5.toNat * 65536),
         sourceid_len := 0, sourceid := 0, offset_pkt_start := none, payload := rest }, .ok ()) := by
  simp only [unpack, structUnpackFrom, CH10_UDP_HEADER_FORMAT1, CH10_UDP_HEADER_FORMAT2, UDP_unpack_fmt0,
    UDP_unpack_fmt1, Fmt.size, codesSize, Code.size,
    List.length_cons, unpackCodes, decInt, List.drop_zero, List.take_succ_cons, List.take_zero,
    List.drop_succ_cons, leNat, beNat, TYPE_SEG, CH10_UDP_HEADER_LENGTH, List.reverse_cons, List.reverse_nil,
    List.nil_append, List.cons_append]
  bits_simp
  simp [h1, h2]

theorem unpack_bytes_fmt3 (t : State) (b0 b1 b2 b3 b4 b5 b6 b7 : UInt8) (rest : Bytes)
    (h1 : b0.toNat % 16 = 3) (h2 : b0.toNat / 16 ≤ 4) :
    unpack t (b0 :: b1 :: b2 :: b3 :: b4 :: b5 :: b6 :: b7 :: rest) =
      ({ version := 3, type := b0.toNat / 16, channelID := 0, channelsequence := 0,
         sequence := (b4.toNat + 256 * (b5.toNat + 256 * (b6.toNat + 256 * b7.toNat))) % 2 ^ (32 - 4 * (b0.toNat / 16)),
         segmentoffset := 0, packetsize := none,
         sourceid_len := b0.toNat / 16,
         sourceid := if b0.toNat / 16 = 0 then 0 else
            (b4.toNat + 256 * (b5.toNat + 256 * (b6.toNat + 256 * b7.toNat))) / 2 ^ (32 - 4 * (b0.toNat / 16)),
         offset_pkt_start := some (b2.toNat + 256 * b3.toNat), payload := rest }, .ok ()) := by
  have hb4 := b4.toNat_lt; have hb5 := b5.toNat_lt; have hb6 := b6.toNat_lt; have hb7 := b7.toNat_lt
  simp only [unpack, structUnpackFrom, CH10_UDP_HEADER_FORMAT1, UDP_unpack_fmt2, Fmt.size, codesSize, Code.size,
    List.length_cons, unpackCodes, decInt, List.drop_zero, List.take_succ_cons, List.take_zero,
    List.drop_succ_cons, leNat, TYPE_SEG, CH10_UDP_HEADER_LENGTH, srcSplit]
  bits_simp
  have h3 : b0.toNat % 16 ≠ 1 := by omega
  generalize hw : b4.toNat + 256 * (b5.toNat + 256 * (b6.toNat + 256 * b7.toNat)) = w
  have hwlt : w < 4294967296 := by omega
  have : b0.toNat / 16 = 0 ∨ b0.toNat / 16 = 1 ∨ b0.toNat / 16 = 2 ∨ b0.toNat / 16 = 3 ∨ b0.toNat / 16 = 4 := by omega
  rcases this with h | h | h | h | h <;> simp [h1, h, Nat.mod_eq_of_lt hwlt]

/-- what a fresh-or-used object holds after decoding a format-1 full header -/
def dec1 (type seq : Nat) (payload : Bytes) : State :=
  { version := 1, type := type, channelID := 0, channelsequence := 0, sequence := seq, segmentoffset := 0,
    packetsize := none, sourceid_len := 0, sourceid := 0, offset_pkt_start := none, payload := payload }
def dec2 (type seq segoff chid : Nat) (payload : Bytes) : State :=
  { version := 2, type := type, channelID := chid, channelsequence := 0, sequence := seq, segmentoffset := segoff,
    packetsize := some (payload.length / 4), sourceid_len := 0, sourceid := 0, offset_pkt_start := none,
    payload := payload }
def dec3 (len sid seq off : Nat) (payload : Bytes) : State :=
  { version := 3, type := len, channelID := 0, channelsequence := 0, sequence := seq, segmentoffset := 0,
    packetsize := none, sourceid_len := len, sourceid := sid, offset_pkt_start := some off, payload := payload }

theorem unpack_spec_fmt1 (s t : State) (h : WF1 s) :
    unpack t (Spec.Ch10UDP.fmt1 s.type s.sequence s.payload) = (dec1 s.type s.sequence s.payload, .ok ()) := by
  obtain ⟨hv, ht, ht1, hs⟩ := h
  simp only [Spec.Ch10UDP.fmt1, leBytes, List.cons_append, List.nil_append]
  rw [unpack_bytes_fmt1 _ _ _ _ _ _ (by simp <;> omega) (by simp <;> omega)]
  simp only [toNat_ofNat, dec1]
  congr 2 <;> omega

theorem unpack_spec_fmt2 (s t : State) (h : WF2 s) (hk : s.sequence / 65536 % 16 ≠ 1 ∧ s.sequence / 65536 % 16 ≠ 3) :
    unpack t (Spec.Ch10UDP.fmt2 s.type s.sequence s.segmentoffset s.channelID s.payload) =
      (dec2 s.type s.sequence s.segmentoffset s.channelID s.payload, .ok ()) := by
  obtain ⟨hv, ht, hs, hso, hc, hp⟩ := h
  simp only [Spec.Ch10UDP.fmt2, beBytes, leBytes, List.cons_append, List.nil_append, List.reverse_cons, List.reverse_nil]
  rw [unpack_bytes_fmt2 _ _ _ _ _ _ _ _ _ _ _ _ _ _ (by simp <;> omega) (by simp <;> omega)]
  simp only [toNat_ofNat, dec2]
  congr 2
  · omega
  · omega
  · omega
  · omega
  · congr 1; omega

theorem unpack_spec_fmt3 (s t : State) (o : Nat) (h : WF3 s o) :
    unpack t (Spec.Ch10UDP.fmt3 s.sourceid_len s.sourceid s.sequence o s.payload) =
      (dec3 s.sourceid_len s.sourceid s.sequence o s.payload, .ok ()) := by
  obtain ⟨hv, hl, hsid, hseq, ho, ho2⟩ := h
  simp only [Spec.Ch10UDP.fmt3, leBytes, List.cons_append, List.nil_append]
  rw [unpack_bytes_fmt3 _ _ _ _ _ _ _ _ _ _ (by simp <;> omega) (by simp <;> omega)]
  have hlen : (UInt8.ofNat ((3 + 16 * s.sourceid_len) % 256)).toNat / 16 = s.sourceid_len := by simp; omega
  simp only [hlen]
  simp only [toNat_ofNat, dec3]
  have hc : s.sourceid_len = 0 ∨ s.sourceid_len = 1 ∨ s.sourceid_len = 2 ∨ s.sourceid_len = 3 ∨ s.sourceid_len = 4 := by omega
  rcases hc with hc | hc | hc | hc | hc <;> simp only [hc] at hsid hseq ⊢ <;> simp at hsid hseq ⊢ <;> omega

/-! ### state (C13) and accept/reject (C09) lemmas -/

theorem udp_unpack_state_independent (t : State) (buf : Bytes) (h : (unpack t buf).2 = .ok ()) :
    unpack t buf = unpack fresh buf := by
  revert h
  simp only [unpack]
  repeat' split
  all_goals simp_all

theorem udp_pack_fields (s : State) :
    (pack s).1 = s ∨ (pack s).1 = { s with packetsize := some (s.payload.length / 4) } := by
  simp only [pack]
  repeat' split
  all_goals simp

theorem udp_pack_ignores_packetsize (s : State) (ps : Option Nat) :
    (pack { s with packetsize := ps }).2 = (pack s).2 := by
  simp only [pack, srcField]
  repeat' split
  all_goals simp_all

theorem udp_pack_not2 (s : State) (h : s.version ≠ 2) : (pack s).1 = s := by
  simp only [pack]
  repeat' split
  all_goals simp_all

/-- `pack` in format 2, spelled out -/
theorem udp_pack_v2 (s : State) (h : s.version = 2) :
    pack s =
      match structPack CH10_UDP_HEADER_FORMAT2 [s.sequence >>> 8, s.sequence &&& 0xFF, (s.type <<< 4) + 2] with
      | .error e => (s, .error e)
      | .ok hdr =>
        match structPack UDP_pack_fmt0 [s.segmentoffset >>> 16, (s.payload.length / 4) >>> 16,
            (s.payload.length / 4) &&& 0xFFFF, s.segmentoffset &&& 0xFFFF, s.channelID] with
        | .error e => ({ s with packetsize := some (s.payload.length / 4) }, .error e)
        | .ok ext => ({ s with packetsize := some (s.payload.length / 4) }, .ok (hdr ++ ext ++ s.payload)) := by
  simp [pack, h]
  generalize structPack CH10_UDP_HEADER_FORMAT2 _ = x
  cases x with
  | error e => rfl
  | ok hdr =>
    simp only
    generalize structPack UDP_pack_fmt0 _ = y
    cases y <;> simp

theorem udp_pack_idempotent (s : State) : pack (pack s).1 = pack s := by
  by_cases h : s.version = 2
  · rw [udp_pack_v2 s h]
    cases h1 : structPack CH10_UDP_HEADER_FORMAT2 [s.sequence >>> 8, s.sequence &&& 0xFF, (s.type <<< 4) + 2] with
    | error e => simp only; rw [udp_pack_v2 s h, h1]
    | ok hdr =>
      simp only
      cases h2 : structPack UDP_pack_fmt0 [s.segmentoffset >>> 16, (s.payload.length / 4) >>> 16,
            (s.payload.length / 4) &&& 0xFFFF, s.segmentoffset &&& 0xFFFF, s.channelID] with
      | error e => simp only; rw [udp_pack_v2 { s with packetsize := some (s.payload.length / 4) } h]; simp only [h1, h2]
      | ok ext => simp only; rw [udp_pack_v2 { s with packetsize := some (s.payload.length / 4) } h]; simp only [h1, h2]
  · rw [udp_pack_not2 s h]

/-- the first byte of a buffer: format in the low nibble, type / source-id length in the high nibble -/
def byte0 (buf : Bytes) : Nat := decInt false (buf.take 1)

theorem byte0_lt (buf : Bytes) : byte0 buf < 256 := by
  have := decInt_lt false (buf.take 1)
  have h2 : (buf.take 1).length ≤ 1 := by simp; omega
  unfold byte0
  calc _ < 256 ^ (buf.take 1).length := this
    _ ≤ 256 ^ 1 := Nat.pow_le_pow_right (by omega) h2

theorem udp_accepts_iff (t : State) (buf : Bytes) :
    (unpack t buf).2 = .ok () ↔
      4 ≤ buf.length ∧
      ((byte0 buf % 16 = 1 ∧ byte0 buf / 16 ≠ 1) ∨
       (byte0 buf % 16 = 3 ∧ byte0 buf / 16 ≤ 4 ∧ 8 ≤ buf.length) ∨
       (byte0 buf % 16 ≠ 1 ∧ byte0 buf % 16 ≠ 3 ∧ 12 ≤ buf.length)) := by
  have hfl := byte0_lt buf
  unfold byte0 at *
  generalize hfb : decInt false (List.take 1 buf) = fb at *
  by_cases hlen : 4 ≤ buf.length
  · simp only [unpack, structUnpackFrom, CH10_UDP_HEADER_FORMAT1, Fmt.size, codesSize, Code.size, Nat.zero_add, hlen,
      if_true, unpackCodes, List.drop_zero, List.drop_drop, Nat.reduceAdd, hfb, TYPE_SEG, CH10_UDP_HEADER_LENGTH]
    bits_simp
    by_cases h1 : fb % 16 = 1
    · simp only [h1, if_true]
      by_cases h2 : fb / 16 = 1 <;> simp [h2] <;> omega
    · simp only [h1, if_false]
      by_cases h3 : fb % 16 = 3
      · simp only [h3, if_true, UDP_unpack_fmt2, codesSize, Code.size, unpackCodes, srcSplit]
        by_cases h8 : 4 + (4 + 0) ≤ buf.length
        · simp only [h8, if_true]
          have : fb / 16 = 0 ∨ fb / 16 = 1 ∨ fb / 16 = 2 ∨ fb / 16 = 3 ∨ fb / 16 = 4 ∨ 4 < fb / 16 := by omega
          rcases this with h | h | h | h | h | h
          · simp [h] <;> omega
          · simp [h] <;> omega
          · simp [h] <;> omega
          · simp [h] <;> omega
          · simp [h] <;> omega
          · have n0 : ¬ fb / 16 = 0 := by omega
            have n1 : ¬ fb / 16 = 1 := by omega
            have n2 : ¬ fb / 16 = 2 := by omega
            have n3 : ¬ fb / 16 = 3 := by omega
            have n4 : ¬ fb / 16 = 4 := by omega
            simp [n0, n1, n2, n3, n4] <;> omega
        · simp [h8] <;> omega
      · simp only [h3, if_false, CH10_UDP_HEADER_FORMAT2, UDP_unpack_fmt0, UDP_unpack_fmt1, codesSize, Code.size,
          unpackCodes, hlen, if_true]
        by_cases h8 : 5 + (1 + (2 + 0)) ≤ buf.length
        · by_cases h12 : 4 + (1 + (1 + (2 + (2 + (2 + 0))))) ≤ buf.length <;> simp [h8, h12] <;> omega
        · have h12 : ¬ 4 + (1 + (1 + (2 + (2 + (2 + 0))))) ≤ buf.length := by omega
          simp [h8] <;> omega
  · simp only [unpack, structUnpackFrom, CH10_UDP_HEADER_FORMAT1, Fmt.size, codesSize, Code.size]
    have : ¬ (0 + (1 + (1 + (2 + 0))) ≤ buf.length) := by omega
    simp only [this, if_false]
    simp <;> omega

/-! ### equality (C14) -/

/-- the bytes (or exception) of `pack`, as a function of the fields it reads -/
def packR (version type channelID channelsequence sequence segmentoffset sourceid_len sourceid : Nat)
    (offset_pkt_start : Option Nat) (payload : Bytes) : R Bytes :=
  (pack { version := version, type := type, channelID := channelID, channelsequence := channelsequence,
          sequence := sequence, segmentoffset := segmentoffset, packetsize := none, sourceid_len := sourceid_len,
          sourceid := sourceid, offset_pkt_start := offset_pkt_start, payload := payload }).2

theorem pack_snd (s : State) :
    (pack s).2 = packR s.version s.type s.channelID s.channelsequence s.sequence s.segmentoffset s.sourceid_len
      s.sourceid s.offset_pkt_start s.payload := by
  have := Acra.Lemmas.Ch10UDP.udp_pack_ignores_packetsize s none
  rw [← this]
  rfl

/-- fields `pack` does not read, per format -/
theorem packR_v3 (t t' c c' cs cs' so so' sq sl sid : Nat) (o : Option Nat) (p : Bytes) :
    packR 3 t c cs sq so sl sid o p = packR 3 t' c' cs' sq so' sl sid o p := by
  simp only [packR, pack, srcField, TYPE_SEG]
  simp
  repeat' split
  all_goals simp_all

theorem packR_v2 (t c cs cs' sq so sl sl' sid sid' : Nat) (o o' : Option Nat) (p : Bytes) :
    packR 2 t c cs sq so sl sid o p = packR 2 t c cs' sq so sl' sid' o' p := by
  simp only [packR, pack, srcField, TYPE_SEG]
  simp
  repeat' split
  all_goals simp_all

theorem packR_other (v t c c' cs cs' sq so so' sl sl' sid sid' : Nat) (o o' : Option Nat) (p : Bytes)
    (h2 : v ≠ 2) (h3 : v ≠ 3) (h1 : ¬ (t = TYPE_SEG ∧ v = 1)) :
    packR v t c cs sq so sl sid o p = packR v t c' cs' sq so' sl' sid' o' p := by
  simp only [packR, pack, srcField, h2, h3, h1, if_false]
  repeat' split
  all_goals simp_all

theorem packR_seg (c cs sq so sl sl' sid sid' : Nat) (o o' : Option Nat) (p : Bytes) :
    packR 1 1 c cs sq so sl sid o p = packR 1 1 c cs sq so sl' sid' o' p := by
  simp only [packR, pack, srcField, TYPE_SEG]
  simp
  repeat' split
  all_goals simp_all

theorem udp_eq_sound (a b : State) (h : eq a b = true) : (pack a).2 = (pack b).2 := by
  rw [pack_snd a, pack_snd b]
  simp only [eq] at h
  by_cases h1 : a.type = TYPE_SEG ∧ a.version = 1
  · simp only [h1, and_self, if_true, Bool.and_eq_true, beq_iff_eq] at h
    obtain ⟨⟨⟨⟨⟨⟨e1, e2⟩, e3⟩, e4⟩, e5⟩, e6⟩, e7⟩ := h
    rw [← e1, ← e2, ← e3, ← e4, ← e5, ← e6, ← e7, h1.1, h1.2]
    exact packR_seg _ _ _ _ _ _ _ _ _ _ _
  · simp only [h1, if_false] at h
    by_cases h2 : a.version = 2
    · simp only [h2, if_true, Bool.and_eq_true, beq_iff_eq] at h
      obtain ⟨⟨⟨⟨⟨⟨⟨e1, e2⟩, e3⟩, e4⟩, e5⟩, e6⟩, e7⟩, e8⟩ := h
      rw [← e1, ← e2, ← e3, ← e4, ← e6, ← e8, h2]
      exact packR_v2 _ _ _ _ _ _ _ _ _ _ _ _ _
    · simp only [h2, if_false] at h
      by_cases h3 : a.version = 3
      · simp only [h3, if_true, Bool.and_eq_true, beq_iff_eq] at h
        obtain ⟨⟨⟨⟨⟨e1, e2⟩, e3⟩, e4⟩, e5⟩, e6⟩ := h
        rw [← e1, ← e2, ← e3, ← e4, ← e5, ← e6, h3]
        exact packR_v3 _ _ _ _ _ _ _ _ _ _ _ _ _
      · simp only [h3, if_false, Bool.and_eq_true, beq_iff_eq] at h
        obtain ⟨⟨⟨e1, e2⟩, e3⟩, e4⟩ := h
        rw [← e1, ← e2, ← e3, ← e4]
        exact packR_other _ _ _ _ _ _ _ _ _ _ _ _ _ _ _ _ h2 h3 h1

end Acra.Lemmas.Ch10UDP
