/-
  Helper lemmas for iNETPackage / iNET: the bytes pack emits under the well-formedness predicates and
  what unpack makes of them.
-/
import Acra.Model.iNET
import Acra.Lemmas.Bits
namespace Acra.Lemmas.iNET
open Acra.Py Acra.Model.iNET Acra.Gen.iNET Acra.Lemmas.Bits

/-! ### 32-bit word lists (`">{}I".format(n)`) -/

def words32 (ws : List Nat) : Bytes := ws.flatMap (encInt true 4)

@[simp] theorem words32_length (ws : List Nat) : (words32 ws).length = 4 * ws.length := by
  induction ws with
  | nil => rfl
  | cons w ws ih => simp only [words32, List.flatMap_cons, List.length_append, encInt_length, List.length_cons] at ih ⊢; omega

theorem codesSize_replicate_u32 (n : Nat) : codesSize (List.replicate n Code.u32) = 4 * n := by
  induction n with
  | zero => rfl
  | succ n ih => simp only [List.replicate_succ, codesSize, Code.size, ih]; omega

theorem packCodes_words32 (ws : List Nat) (h : ∀ w ∈ ws, w < 4294967296) :
    packCodes true (List.replicate ws.length Code.u32) ws = .ok (words32 ws) := by
  induction ws with
  | nil => rfl
  | cons w ws ih =>
    have hw : w < Code.u32.bound := h w (by simp)
    simp only [List.length_cons, List.replicate_succ, packCodes, hw, if_true, ih (fun x hx => h x (by simp [hx])),
      words32, List.flatMap_cons, Code.size]

theorem unpackCodes_words32 (ws : List Nat) (rest : Bytes) (h : ∀ w ∈ ws, w < 4294967296) :
    unpackCodes true (List.replicate ws.length Code.u32) (words32 ws ++ rest) = ws := by
  induction ws with
  | nil => rfl
  | cons w ws ih =>
    simp only [words32, List.flatMap_cons, List.length_cons, List.replicate_succ, unpackCodes, Code.size,
      List.append_assoc, take_encInt_append, drop_encInt_append]
    rw [decInt_encInt4 _ _ (h w (by simp))]
    have := ih (fun x hx => h x (by simp [hx]))
    simp only [words32] at this
    rw [this]

/-! ### packages -/

/-- every field fits its width; the length field (header + payload, without padding) fits 16 bits -/
def Pkg_WF (p : Pkg) : Prop :=
  p.definitionID < 4294967296 ∧ p.flags < 256 ∧ p.timedelta < 4294967296 ∧ 12 + p.payload.length < 65536

/-- zero bytes up to the next multiple of four -/
def pad4 (n : Nat) : Bytes := if n % 4 ≠ 0 then List.replicate (4 - n % 4) 0 else []

theorem pad4_length (n : Nat) : (pad4 n).length = (4 - n % 4) % 4 := by
  unfold pad4; split <;> simp <;> omega

theorem padBytes_eq (n : Nat) : padBytes n = List.replicate n 0 := by
  induction n with
  | zero => rfl
  | succ n ih =>
    simp only [padBytes, List.replicate_succ, List.flatten_cons, PKG_PAD_BYTE] at ih ⊢
    rw [ih]; rfl

def pkgHdr (p : Pkg) : Bytes :=
  encInt true 4 p.definitionID ++ (encInt true 2 (12 + p.payload.length) ++ (encInt true 1 0 ++
    (encInt true 1 p.flags ++ encInt true 4 p.timedelta)))

def pkgBytes (p : Pkg) : Bytes := pkgHdr p ++ (p.payload ++ pad4 p.payload.length)

/-- the object `pack` leaves behind (and a decode produces): `_length` is header + payload -/
def norm (p : Pkg) : Pkg := { p with length := 12 + p.payload.length }

@[simp] theorem pkgHdr_length (p : Pkg) : (pkgHdr p).length = 12 := by simp [pkgHdr]
theorem pkgBytes_length (p : Pkg) : (pkgBytes p).length = 12 + p.payload.length + (4 - p.payload.length % 4) % 4 := by
  simp [pkgBytes, pad4_length]; omega
theorem pkgBytes_mod4 (p : Pkg) : (pkgBytes p).length % 4 = 0 := by
  rw [pkgBytes_length]; omega
theorem norm_norm (p : Pkg) : norm (norm p) = norm p := rfl
theorem pkgBytes_norm (p : Pkg) : pkgBytes (norm p) = pkgBytes p := rfl
theorem Pkg_WF_norm (p : Pkg) (h : Pkg_WF p) : Pkg_WF (norm p) := h

theorem Pkg_pack_eq (p : Pkg) (h : Pkg_WF p) : Pkg.pack p = (norm p, .ok (pkgBytes p)) := by
  obtain ⟨h1, h2, h3, h4⟩ := h
  have hf : Fits PKG_FORMAT.codes [p.definitionID, 12 + p.payload.length, 0, p.flags, p.timedelta] := by
    simp [Fits, PKG_FORMAT, Code.bound]; omega
  simp only [Pkg.pack, PKG_FORMAT_LEN, structPack_eq _ _ hf, padBytes_eq]
  simp [norm, pkgBytes, pkgHdr, pad4, encCodes, PKG_FORMAT, Code.size]

theorem Pkg_unpack_eq (p t : Pkg) (rest : Bytes) (h : Pkg_WF p) :
    Pkg.unpack t (pkgBytes p ++ rest) = (norm p, .ok rest) := by
  obtain ⟨h1, h2, h3, h4⟩ := h
  have hhdr : structUnpackFrom PKG_FORMAT (pkgBytes p ++ rest) 0 =
      .ok [p.definitionID, 12 + p.payload.length, 0, p.flags, p.timedelta] := by
    have hf : Fits PKG_FORMAT.codes [p.definitionID, 12 + p.payload.length, 0, p.flags, p.timedelta] := by
      simp [Fits, PKG_FORMAT, Code.bound]; omega
    have := structUnpackFrom_enc0 PKG_FORMAT _ ((p.payload ++ pad4 p.payload.length) ++ rest) hf
    simpa [pkgBytes, pkgHdr, encCodes, PKG_FORMAT, Code.size] using this
  have hpl : slice (pkgBytes p ++ rest) 12 (12 + p.payload.length) = p.payload := by
    simp only [pkgBytes, List.append_assoc]
    exact slice_mid _ _ _ _ _ (by simp) (by simp)
  have hdrop : List.drop (12 + p.payload.length + (if (12 + p.payload.length) % 4 ≠ 0 then 4 - (12 + p.payload.length) % 4 else 0))
      (pkgBytes p ++ rest) = rest := by
    apply drop_append_len
    rw [pkgBytes_length]
    split <;> omega
  have c1 : ¬ (12 + p.payload.length < 12) := by omega
  simp only [Pkg.unpack, hhdr, PKG_FORMAT_LEN, c1, if_false, hpl, hdrop]
  rfl

theorem packPkgs_eq (ps : List Pkg) (h : ∀ p ∈ ps, Pkg_WF p) :
    packPkgs ps = (ps.map norm, .ok (ps.flatMap pkgBytes)) := by
  induction ps with
  | nil => rfl
  | cons p ps ih =>
    simp only [packPkgs, Pkg_pack_eq p (h p (by simp)), ih (fun q hq => h q (by simp [hq])), List.map_cons,
      List.flatMap_cons]

theorem decPkg_enc (p : Pkg) (rest : Bytes) (h : Pkg_WF p) :
    decPkg (pkgBytes p ++ rest) = .ok (norm p, (pkgBytes p).length) := by
  simp only [decPkg, Pkg_unpack_eq p Pkg.fresh rest h, pkgBytes_length, norm]
  congr 2
  split <;> omega

theorem flatMap_pkgBytes_length_ge (ps : List Pkg) : ps.length ≤ (ps.flatMap pkgBytes).length := by
  induction ps with
  | nil => simp
  | cons p ps ih => simp only [List.flatMap_cons, List.length_cons, List.length_append, pkgBytes_length]; omega

theorem flatMap_pkgBytes_norm (ps : List Pkg) : (ps.map norm).flatMap pkgBytes = ps.flatMap pkgBytes := by
  induction ps with
  | nil => rfl
  | cons b bs ih => simp only [List.map_cons, List.flatMap_cons, ih, pkgBytes_norm]

theorem flatMap_pkgBytes_mod4 (ps : List Pkg) : (ps.flatMap pkgBytes).length % 4 = 0 := by
  induction ps with
  | nil => rfl
  | cons p ps ih =>
    have := pkgBytes_mod4 p
    simp only [List.flatMap_cons, List.length_append]; omega

/-- decoding the package area returns the packages (with their computed length fields) -/
theorem decPkg_all (ps : List Pkg) (h : ∀ p ∈ ps, Pkg_WF p) :
    decOff decPkg moreRem (ps.flatMap pkgBytes) ((ps.flatMap pkgBytes).length + 1) 0 = .ok (ps.map norm) := by
  have := decOff_encAll decPkg moreRem pkgBytes (ps.map norm) [] ((ps.flatMap pkgBytes).length + 1)
    (by have := flatMap_pkgBytes_length_ge ps; simp only [List.length_map]; omega)
    (fun x hx rest => by
      simp only [List.mem_map] at hx
      obtain ⟨y, hy, rfl⟩ := hx
      have := decPkg_enc (norm y) rest (Pkg_WF_norm y (h y hy))
      rwa [norm_norm] at this)
    (fun x hx p q => by
      have := pkgBytes_length x
      simp [moreRem]; omega)
    (fun n => by simp [moreRem])
  simpa [flatMap_pkgBytes_norm] using this

/-! ### messages -/

/-- every header field fits its width (version and type four bits, at most 15 option words), every
    option word and package is well-formed, and the total length fits 32 bits -/
def iNET_WF (s : State) : Prop :=
  s.flags < 65536 ∧ s.type < 16 ∧ s.version < 16 ∧ s.definition_ID < 4294967296 ∧ s.sequence < 4294967296 ∧
  s.ptptimeseconds < 4294967296 ∧ s.ptptimenanoseconds < 4294967296 ∧ s.app_fields.length < 16 ∧
  (∀ a ∈ s.app_fields, a < 4294967296) ∧ (∀ p ∈ s.packages, Pkg_WF p) ∧
  (s.packages.flatMap pkgBytes).length + 24 + s.app_fields.length * 4 < 4294967296

def msgLen (s : State) : Nat := (s.packages.flatMap pkgBytes).length + 24 + s.app_fields.length * 4

def msgHdr (s : State) : Bytes :=
  encInt true 1 (s.app_fields.length + s.version * 16) ++ (encInt true 1 s.type ++ (encInt true 2 s.flags ++
  (encInt true 4 s.definition_ID ++ (encInt true 4 s.sequence ++ (encInt true 4 (msgLen s) ++
  (encInt true 4 s.ptptimeseconds ++ encInt true 4 s.ptptimenanoseconds))))))

def msgBytes (s : State) : Bytes := msgHdr s ++ (words32 s.app_fields ++ s.packages.flatMap pkgBytes)

/-- the state `pack` leaves behind -/
def packed (s : State) : State :=
  { s with packages := s.packages.map norm, payload := s.packages.flatMap pkgBytes, length := msgLen s }

/-- the state a decode of the packed bytes produces: as `packed`, and the option word count recorded -/
def decoded (s : State) : State := { packed s with option_wc := s.app_fields.length }

@[simp] theorem msgHdr_length (s : State) : (msgHdr s).length = 24 := by simp [msgHdr]

theorem iNET_pack_eq (s : State) (h : iNET_WF s) : pack s = (packed s, .ok (msgBytes s)) := by
  obtain ⟨h1, h2, h3, h4, h5, h6, h7, h8, h9, h10, h11⟩ := h
  have hf : Fits INET_HEADER_FORMAT.codes [s.app_fields.length + s.version * 16, s.type, s.flags, s.definition_ID,
      s.sequence, msgLen s, s.ptptimeseconds, s.ptptimenanoseconds] := by
    have hml : msgLen s < 4294967296 := h11
    simp [Fits, INET_HEADER_FORMAT, Code.bound]; omega
  simp only [pack, packPkgs_eq _ h10, shl_4, INET_HEADER_LENGTH]
  have hl : (s.packages.flatMap pkgBytes).length + 24 + s.app_fields.length * 4 = msgLen s := rfl
  simp only [hl, structPack_eq _ _ hf]
  by_cases haf : s.app_fields.length > 0
  · have hp : structPack (iNET_pack_fmt0 s.app_fields.length) s.app_fields = .ok (words32 s.app_fields) := by
      simp only [structPack, iNET_pack_fmt0]
      exact packCodes_words32 _ h9
    simp only [haf, if_true, hp]
    simp [packed, msgBytes, msgHdr, encCodes, INET_HEADER_FORMAT, Code.size]
  · have : s.app_fields = [] := by
      cases hs : s.app_fields with
      | nil => rfl
      | cons a l => rw [hs] at haf; simp at haf
    simp only [haf, if_false]
    simp [packed, msgBytes, msgHdr, encCodes, INET_HEADER_FORMAT, Code.size, this, words32]

theorem iNET_unpack_eq (s t : State) (h : iNET_WF s) : unpack t (msgBytes s) = (decoded s, .ok ()) := by
  obtain ⟨h1, h2, h3, h4, h5, h6, h7, h8, h9, h10, h11⟩ := h
  have hlen : (msgBytes s).length = 24 + (4 * s.app_fields.length + (s.packages.flatMap pkgBytes).length) := by
    simp [msgBytes]
  have hhdr : structUnpackFrom INET_HEADER_FORMAT (msgBytes s) 0 =
      .ok [s.app_fields.length + s.version * 16, s.type, s.flags, s.definition_ID, s.sequence, msgLen s,
           s.ptptimeseconds, s.ptptimenanoseconds] := by
    have hf : Fits INET_HEADER_FORMAT.codes [s.app_fields.length + s.version * 16, s.type, s.flags, s.definition_ID,
        s.sequence, msgLen s, s.ptptimeseconds, s.ptptimenanoseconds] := by
      have hml : msgLen s < 4294967296 := h11
      simp [Fits, INET_HEADER_FORMAT, Code.bound]; omega
    have := structUnpackFrom_enc0 INET_HEADER_FORMAT _ (words32 s.app_fields ++ s.packages.flatMap pkgBytes) hf
    simpa [msgBytes, msgHdr, encCodes, INET_HEADER_FORMAT, Code.size] using this
  have c1 : ¬ ((msgBytes s).length < 24) := by omega
  have e1 : (s.app_fields.length + s.version * 16) % 16 = s.app_fields.length := by omega
  have e2 : (s.app_fields.length + s.version * 16) / 16 % 16 = s.version := by omega
  have e3 : s.type % 16 = s.type := by omega
  have hd24 : List.drop 24 (msgBytes s) = words32 s.app_fields ++ s.packages.flatMap pkgBytes := by
    simp only [msgBytes]; exact drop_append_len _ _ _ (by simp)
  have hdpl : List.drop (24 + s.app_fields.length * 4) (msgBytes s) = s.packages.flatMap pkgBytes := by
    simp only [msgBytes]
    rw [← List.append_assoc]
    exact drop_append_len _ _ _ (by simp; omega)
  have haf : (if s.app_fields.length > 0 then
        structUnpackFrom (iNET_unpack_fmt0 s.app_fields.length) (List.drop 24 (msgBytes s)) 0
      else .ok []) = .ok s.app_fields := by
    by_cases hpos : s.app_fields.length > 0
    · simp only [hpos, if_true, hd24, structUnpackFrom, iNET_unpack_fmt0, Fmt.size, codesSize_replicate_u32,
        List.length_append, words32_length, Nat.zero_add, Nat.le_add_right, List.drop_zero]
      rw [unpackCodes_words32 _ _ h9]
    · have : s.app_fields = [] := by
        cases hs : s.app_fields with
        | nil => rfl
        | cons a l => rw [hs] at hpos; simp at hpos
      simp [this]
  simp only [unpack, INET_HEADER_LENGTH, c1, if_false, hhdr, and_F, shr_4, e1, e2, e3, haf, hdpl,
    decPkg_all _ h10]
  rfl

end Acra.Lemmas.iNET
