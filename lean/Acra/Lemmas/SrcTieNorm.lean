/-
  Normalisation lemmas for the source-tie proofs: bring the bit idioms a harmless rewrite may exchange
  (`& 1` / `% 2`, `>> 1` / `// 2`, `& 0xFFFF` / `% 65536`, `x & (m << k)` / `(x >> k) & m`, `|` / `+` on disjoint
  fields) to ONE form — division and remainder by literals — on which `omega` decides equalities.  The tie theorems
  end with `simp only [… these …]; omega` instead of `rfl` against one syntactic shape.  Core Lean only.
-/
import Lean.Elab.Tactic
import Acra.Py.IntOps
import Acra.Lemmas.SrcTie

/-- `unfold_src_helpers`: unfold every regenerated definition `Acra.Gen.Src.<Module>._name` (a PRIVATE helper of the
    Python module, translated on demand because the function under proof calls it) that occurs in the goal.  A helper
    extracted from — or inlined into — a tied function therefore does not change the proof. -/
elab "unfold_src_helpers" : tactic => do
  let g ← Lean.Elab.Tactic.getMainGoal
  let t ← Lean.instantiateMVars (← g.getType)
  for n in t.getUsedConstants do
    if (`Acra.Gen.Src).isPrefixOf n && n.components.length == 5 then
      match n with
      | .str _ last =>
        if last.startsWith "_" then
          Lean.Elab.Tactic.evalTactic (← `(tactic| try unfold $(Lean.mkIdent n)))
      | _ => pure ()

namespace Acra.Lemmas.SrcTieNorm
open Acra Acra.Py Acra.Lemmas.SrcTie

theorem and_1 (n : Nat) : n &&& 1 = n % 2 := Nat.and_one_is_mod n
theorem and_ffff (n : Nat) : n &&& 65535 = n % 65536 := and_low n 65535 16 (by decide)
theorem and_fff (n : Nat) : n &&& 4095 = n % 4096 := and_low n 4095 12 (by decide)
theorem and_7fff (n : Nat) : n &&& 32767 = n % 32768 := and_low n 32767 15 (by decide)
theorem and_7 (n : Nat) : n &&& 7 = n % 8 := and_low n 7 3 (by decide)
theorem shr_div (n k : Nat) : n >>> k = n / 2 ^ k := Nat.shiftRight_eq_div_pow n k
theorem shl_mul (n k : Nat) : n <<< k = n * 2 ^ k := Nat.shiftLeft_eq n k

/-- a field selected IN PLACE and then moved (`(x & (m << k)) << s`) is the field extracted and then placed
    (`((x >> k) & m) << (k + s)`), for a low mask `m = 2^j - 1` -/
theorem field_in_place (x m j k s : Nat) (h : m + 1 = 2 ^ j) :
    (x &&& (m <<< k)) <<< s = ((x >>> k) &&& m) <<< (k + s) := by
  have hm : m = 2 ^ j - 1 := by omega
  subst hm
  apply Nat.eq_of_testBit_eq
  intro i
  simp only [Nat.testBit_shiftLeft, Nat.testBit_and, Nat.testBit_shiftRight, Nat.testBit_two_pow_sub_one]
  by_cases h1 : k + s ≤ i
  · have e1 : s ≤ i := by omega
    have e2 : k ≤ i - s := by omega
    have e3 : k + (i - (k + s)) = i - s := by omega
    have e4 : i - s - k = i - (k + s) := by omega
    simp [h1, e1, e2, e3, e4]
  · by_cases h2 : s ≤ i
    · have e2 : ¬ k ≤ i - s := by omega
      simp [h1, h2, e2]
    · simp [h1, h2]

theorem field_in_place_15 (x k s : Nat) : (x &&& (32767 <<< k)) <<< s = ((x >>> k) &&& 32767) <<< (k + s) :=
  field_in_place x 32767 15 k s (by decide)
theorem field_in_place_3 (x k s : Nat) : (x &&& (7 <<< k)) <<< s = ((x >>> k) &&& 7) <<< (k + s) :=
  field_in_place x 7 3 k s (by decide)
theorem field_in_place_12 (x k s : Nat) : (x &&& (4095 <<< k)) <<< s = ((x >>> k) &&& 4095) <<< (k + s) :=
  field_in_place x 4095 12 k s (by decide)
theorem field_in_place_8 (x k s : Nat) : (x &&& (255 <<< k)) <<< s = ((x >>> k) &&& 255) <<< (k + s) :=
  field_in_place x 255 8 k s (by decide)
theorem field_in_place_16 (x k s : Nat) : (x &&& (65535 <<< k)) <<< s = ((x >>> k) &&& 65535) <<< (k + s) :=
  field_in_place x 65535 16 k s (by decide)

/-- two loops over the same list agree when their bodies agree ON THE ELEMENTS OF THE LIST (so a body may be replaced by
    one that is equal only for the indices the loop really visits) -/
theorem foldl_congr_mem {σ α : Type} (f g : σ → α → σ) (l : List α) (st : σ)
    (h : ∀ st, ∀ i ∈ l, f st i = g st i) : List.foldl f st l = List.foldl g st l := by
  induction l generalizing st with
  | nil => rfl
  | cons a l ih =>
    rw [List.foldl_cons, List.foldl_cons, h st a (List.mem_cons_self ..)]
    exact ih _ (fun st i hi => h st i (List.mem_cons_of_mem _ hi))

theorem foldlM_congr_mem {σ α : Type} (f g : σ → α → R σ) (l : List α) (st : σ)
    (h : ∀ st, ∀ i ∈ l, f st i = g st i) : List.foldlM f st l = List.foldlM g st l := by
  induction l generalizing st with
  | nil => rfl
  | cons a l ih =>
    rw [List.foldlM_cons, List.foldlM_cons, h st a (List.mem_cons_self ..)]
    cases g st a with
    | error e => rfl
    | ok s => exact ih _ (fun st i hi => h st i (List.mem_cons_of_mem _ hi))

theorem mem_range (N : Nat) (i : Int) (h : i ∈ Py.range (N : Int)) : ∃ n : Nat, n < N ∧ i = (n : Int) := by
  unfold Py.range at h
  simp only [Int.toNat_natCast, List.mem_map, List.mem_range] at h
  obtain ⟨n, hn, rfl⟩ := h
  exact ⟨n, hn, rfl⟩

theorem mem_range_lit (N : Nat) (M i : Int) (hM : M = (N : Int)) (h : i ∈ Py.range M) :
    ∃ n : Nat, n < N ∧ i = (n : Int) := by subst hM; exact mem_range N i h

/-- the two ways of testing bit `11 - n` of `x` in a 12-step row loop: `x & (0x800 >> n)` and `(x >> (11 - n)) & 1` -/
theorem bit_forms (x n : Nat) (hn : n < 12) :
    (band (x : Int) (shr 2048 (n : Int)) ≠ 0) ↔ (band (shr (x : Int) (11 - (n : Int))) 1 ≠ 0) := by
  have e : (11 - (n : Int)).toNat = 11 - n := by omega
  simp only [shr_natCast, shr_lit, band_natCast, band_natCast_lit, Int.toNat_natCast, e, ne_eq, Int.natCast_eq_zero]
  have hp : 2048 >>> n = 2 ^ (11 - n) := by
    rw [Nat.shiftRight_eq_div_pow, show (2048 : Nat) = 2 ^ 11 from rfl, Nat.pow_div (by omega) (by decide)]
  rw [hp, and_1, shr_div]
  have := and_two_pow_ne_zero x (11 - n)
  simp only [ne_eq] at this
  rw [this]
  omega

/-- an `if` whose test is equivalent to another test -/
theorem ite_iff {α : Type} {c d : Prop} [Decidable c] [Decidable d] (h : c ↔ d) (a b : α) :
    (if c then a else b) = (if d then a else b) := by
  by_cases hc : c
  · rw [if_pos hc, if_pos (h.mp hc)]
  · rw [if_neg hc, if_neg (fun hd => hc (h.mpr hd))]

end Acra.Lemmas.SrcTieNorm
