/-
  Normalisation lemmas for the source-tie proofs: bring the bit idioms a harmless rewrite may exchange
  (`& 1` / `% 2`, `>> 1` / `// 2`, `& 0xFFFF` / `% 65536`, `x & (m << k)` / `(x >> k) & m`, `|` / `+` on disjoint
  fields) to ONE form — division and remainder by literals — on which `omega` decides equalities.  The tie theorems
  end with `simp only [… these …]; omega` instead of `rfl` against one syntactic shape.  Core Lean only.
-/
import Lean.Elab.Tactic
import Acra.Py.IntOps
import Acra.Lemmas.SrcTie

/-- `unfold_src_helpers`: unfold every regenerated definition `Acra.Gen.Src.<Module>._name` (a PRIVATE helper of the
    Python module, translated on demand because the function under proof calls it) that occurs in the goal.  A helper
    extracted from — or inlined into — a tied function therefore does not change the proof. -/
elab "unfold_src_helpers" : tactic => do
  let g ← Lean.Elab.Tactic.getMainGoal
  let t ← Lean.instantiateMVars (← g.getType)
  for n in t.getUsedConstants do
    if (`Acra.Gen.Src).isPrefixOf n && n.components.length == 5 then
      match n with
      | .str _ last =>
        if last.startsWith "_" then
          Lean.Elab.Tactic.evalTactic (← `(tactic| try unfold $(Lean.mkIdent n)))
      | _ => pure ()

namespace Acra.Lemmas.SrcTieNorm
open Acra Acra.Py Acra.Lemmas.SrcTie

theorem and_1 (n : Nat) : n &&& 1 = n % 2 := Nat.and_one_is_mod n
theorem and_ffff (n : Nat) : n &&& 65535 = n % 65536 := and_low n 65535 16 (by decide)
theorem and_fff (n : Nat) : n &&& 4095 = n % 4096 := and_low n 4095 12 (by decide)
theorem and_7fff (n : Nat) : n &&& 32767 = n % 32768 := and_low n 32767 15 (by decide)
theorem and_7 (n : Nat) : n &&& 7 = n % 8 := and_low n 7 3 (by decide)
theorem shr_div (n k : Nat) : n >>> k = n / 2 ^ k := Nat.shiftRight_eq_div_pow n k
theorem shl_mul (n k : Nat) : n <<< k = n * 2 ^ k := Nat.shiftLeft_eq n k

/-- an `if` whose test is equivalent to another test -/
theorem ite_iff {α : Type} {c d : Prop} [Decidable c] [Decidable d] (h : c ↔ d) (a b : α) :
    (if c then a else b) = (if d then a else b) := by
  by_cases hc : c
  · rw [if_pos hc, if_pos (h.mp hc)]
  · rw [if_neg hc, if_neg (fun hd => hc (h.mpr hd))]

end Acra.Lemmas.SrcTieNorm
