/-
  Helper lemmas for IENA-Q (the bytes pack emits, what unpack makes of them) and for the decode-only
  classes IENA-D / IENA-N (what unpack makes of a payload laid out as fixed-size parameters).
-/
import Acra.Model.IENAQDN
import Acra.Lemmas.IENA
import Acra.Lemmas.Bits
namespace Acra.Lemmas.IENA
open Acra.Py Acra.Model.IENA Acra.Gen.IENA

/-! ### IENA-Q -/

def QParam_WF (p : QParam) : Prop := p.paramid < 65536 ∧ p.dataset.length < 65536

/-- one IENA-Q parameter on the wire: id, dataset length (big-endian 16-bit), dataset, pad to 16 bits -/
def encQb (p : QParam) : Bytes :=
  encInt true 2 p.paramid ++ (encInt true 2 p.dataset.length ++ (p.dataset ++ padM p.dataset.length))

theorem encQb_length (p : QParam) : (encQb p).length = 4 + p.dataset.length + p.dataset.length % 2 := by
  simp only [encQb, padM, List.length_append, encInt_length]
  split <;> simp <;> omega

theorem encQb_even (p : QParam) : (encQb p).length % 2 = 0 := by
  rw [encQb_length]; omega

theorem encQ_eq (p : QParam) (h : QParam_WF p) : encQ p = .ok (encQb p) := by
  obtain ⟨h1, h3⟩ := h
  have hf : Fits IENAQ_FORMAT.codes [p.paramid, p.dataset.length] := by
    simp [Fits, IENAQ_FORMAT, Code.bound]; omega
  have hz : Fits IENAQ_pack_fmt0.codes [0] := by simp [Fits, IENAQ_pack_fmt0, Code.bound]
  simp only [encQ, structPack_eq _ _ hf, structPack_eq _ _ hz]
  by_cases hodd : p.dataset.length % 2 = 1
  · simp [hodd, encQb, padM, encCodes, IENAQ_FORMAT, IENAQ_pack_fmt0, Code.size, encInt, beBytes, leBytes]
  · simp [hodd, encQb, padM, encCodes, IENAQ_FORMAT, Code.size]

theorem decQ_encQb (p : QParam) (rest : Bytes) (h : QParam_WF p) :
    decQ (encQb p ++ rest) = .ok (p, (encQb p).length) := by
  obtain ⟨h1, h3⟩ := h
  have htake : List.take 4 (encQb p ++ rest) = encInt true 2 p.paramid ++ encInt true 2 p.dataset.length := by
    simp only [encQb, List.append_assoc]
    rw [← List.append_assoc (encInt true 2 p.paramid)]
    exact take_append_len _ _ _ (by simp)
  have hu : structUnpack IENAQ_FORMAT (List.take 4 (encQb p ++ rest)) = .ok [p.paramid, p.dataset.length] := by
    rw [htake]
    simp only [structUnpack, IENAQ_FORMAT, Fmt.size, codesSize, Code.size, List.length_append, encInt_length,
      unpackCodes, if_true, take_encInt_append, drop_encInt_append, take_encInt]
    rw [decInt_encInt2 _ _ h1, decInt_encInt2 _ _ h3]
  have hdrop : List.drop 4 (encQb p ++ rest) = p.dataset ++ (padM p.dataset.length ++ rest) := by
    simp only [encQb, List.append_assoc]
    rw [← List.append_assoc (encInt true 2 p.paramid)]
    exact drop_append_len _ _ _ (by simp)
  have hsl : slice (encQb p ++ rest) 4 (4 + p.dataset.length) = p.dataset := by
    simp only [encQb, List.append_assoc]
    rw [← List.append_assoc (encInt true 2 p.paramid)]
    exact slice_mid _ _ _ _ _ (by simp) (by simp)
  simp only [decQ, IENAQ_FORMAT_LEN, hu, hdrop, hsl, encQb_length]
  have : ¬ ((p.dataset ++ (padM p.dataset.length ++ rest)).length < p.dataset.length) := by simp
  simp only [this, if_false]
  congr 2
  by_cases hodd : p.dataset.length % 2 = 1 <;> simp [hodd] <;> omega

theorem encAllQ_eq (ps : List QParam) (h : ∀ p ∈ ps, QParam_WF p) :
    encAllQ ps = .ok (ps.flatMap encQb) := by
  induction ps with
  | nil => rfl
  | cons p ps ih =>
    simp only [encAllQ, encQ_eq p (h p (by simp)), ih (fun q hq => h q (by simp [hq])), List.flatMap_cons]

theorem flatMap_encQb_length_ge (ps : List QParam) : ps.length ≤ (ps.flatMap encQb).length := by
  induction ps with
  | nil => simp
  | cons p ps ih => simp only [List.flatMap_cons, List.length_cons, List.length_append, encQb_length]; omega

theorem flatMap_encQb_even (ps : List QParam) : (ps.flatMap encQb).length % 2 = 0 := by
  induction ps with
  | nil => simp
  | cons p ps ih =>
    have := encQb_even p
    simp only [List.flatMap_cons, List.length_append]; omega

/-- decoding the parameter area of an IENA-Q packet returns exactly the parameters -/
theorem decQ_all (ps : List QParam) (h : ∀ p ∈ ps, QParam_WF p) :
    decOff decQ moreRem (ps.flatMap encQb) ((ps.flatMap encQb).length + 1) 0 = .ok ps := by
  have := decOff_encAll decQ moreRem encQb ps [] ((ps.flatMap encQb).length + 1)
    (by have := flatMap_encQb_length_ge ps; omega)
    (fun x hx rest => decQ_encQb x rest (h x hx))
    (fun x hx p q => by
      have := encQb_length x
      simp [moreRem]; omega)
    (fun n => by simp [moreRem])
  simpa using this

/-! ### 16-bit word lists (`">{}H".format(n)`) -/

def words16 (ws : List Nat) : Bytes := ws.flatMap (encInt true 2)

@[simp] theorem words16_length (ws : List Nat) : (words16 ws).length = 2 * ws.length := by
  induction ws with
  | nil => rfl
  | cons w ws ih => simp only [words16, List.flatMap_cons, List.length_append, encInt_length, List.length_cons] at ih ⊢; omega

theorem codesSize_replicate_u16 (n : Nat) : codesSize (List.replicate n Code.u16) = 2 * n := by
  induction n with
  | zero => rfl
  | succ n ih => simp only [List.replicate_succ, codesSize, Code.size, ih]; omega

theorem unpackCodes_words16 (ws : List Nat) (rest : Bytes) (h : ∀ w ∈ ws, w < 65536) :
    unpackCodes true (List.replicate ws.length Code.u16) (words16 ws ++ rest) = ws := by
  induction ws with
  | nil => rfl
  | cons w ws ih =>
    simp only [words16, List.flatMap_cons, List.length_cons, List.replicate_succ, unpackCodes, Code.size,
      List.append_assoc, take_encInt_append, drop_encInt_append]
    rw [decInt_encInt2 _ _ (h w (by simp))]
    have := ih (fun x hx => h x (by simp [hx]))
    simp only [words16] at this
    rw [this]

/-- `struct.unpack_from(">nH", pre ++ words ++ rest, len(pre))` returns the words -/
theorem structUnpackFrom_words16 (f : Fmt) (ws : List Nat) (pre rest : Bytes) (hf : f = ⟨true, List.replicate ws.length .u16⟩)
    (h : ∀ w ∈ ws, w < 65536) (off : Nat) (hoff : off = pre.length) :
    structUnpackFrom f (pre ++ (words16 ws ++ rest)) off = .ok ws := by
  subst hf hoff
  have hle : pre.length + codesSize (List.replicate ws.length Code.u16) ≤ (pre ++ (words16 ws ++ rest)).length := by
    rw [codesSize_replicate_u16]; simp
  simp only [structUnpackFrom, Fmt.size, hle, if_true, List.drop_left']
  rw [unpackCodes_words16 ws rest h]

/-! ### IENA-D -/

/-- an IENA-D parameter with exactly `n` data words, every field 16 bits -/
def DParam_WF (n : Nat) (p : DParam) : Prop :=
  p.paramid < 65536 ∧ p.delay < 65536 ∧ p.dwords.length = n ∧ ∀ w ∈ p.dwords, w < 65536

def encDb (p : DParam) : Bytes := words16 (p.paramid :: p.delay :: p.dwords)

theorem encDb_length (n : Nat) (p : DParam) (h : DParam_WF n p) : (encDb p).length = n * 2 + 4 := by
  simp [encDb, h.2.2.1]; omega

theorem decD1_enc (n : Nat) (p : DParam) (pre rest : Bytes) (h : DParam_WF n p) (off : Nat) (hoff : off = pre.length) :
    decD1 n (pre ++ (encDb p ++ rest)) off = .ok p := by
  obtain ⟨h1, h2, h3, h4⟩ := h
  have := structUnpackFrom_words16 (IENAD_unpack_fmt0 (n + 2)) (p.paramid :: p.delay :: p.dwords) pre rest
    (by simp [IENAD_unpack_fmt0, h3]) (by intro w hw; simp at hw; rcases hw with rfl | rfl | hw <;> first | assumption | exact h4 w hw)
    off hoff
  simp only [decD1, encDb, this]

theorem flatMap_encDb_length (n : Nat) (ps : List DParam) (h : ∀ p ∈ ps, DParam_WF n p) :
    (ps.flatMap encDb).length = ps.length * (n * 2 + 4) := by
  induction ps with
  | nil => simp
  | cons p ps ih =>
    simp only [List.flatMap_cons, List.length_append, List.length_cons, encDb_length n p (h p (by simp)),
      ih (fun q hq => h q (by simp [hq])), Nat.add_mul]
    omega

theorem decDAll_enc (n : Nat) (ps : List DParam) (h : ∀ p ∈ ps, DParam_WF n p) (pre rest : Bytes) (k : Nat)
    (hk : pre.length = k * (n * 2 + 4)) :
    decDAll n (pre ++ (ps.flatMap encDb ++ rest)) (List.range' k ps.length) = .ok ps := by
  induction ps generalizing pre k with
  | nil => rfl
  | cons p ps ih =>
    simp only [List.length_cons, List.range'_succ, decDAll, List.flatMap_cons, List.append_assoc]
    rw [decD1_enc n p pre _ (h p (by simp)) _ hk.symm]
    have := ih (fun q hq => h q (by simp [hq])) (pre ++ encDb p) (k + 1)
      (by simp [encDb_length n p (h p (by simp)), hk, Nat.add_mul])
    simp only [List.append_assoc] at this
    simp only [this]

/-! ### IENA-N -/

def NParam_WF (n : Nat) (p : NParam) : Prop :=
  p.paramid < 65536 ∧ p.dwords.length = n ∧ ∀ w ∈ p.dwords, w < 65536

def encNb (p : NParam) : Bytes := words16 (p.paramid :: p.dwords)

theorem encNb_length (n : Nat) (p : NParam) (h : NParam_WF n p) : (encNb p).length = n * 2 + 2 := by
  simp [encNb, h.2.1]; omega

theorem decN1_enc (n : Nat) (p : NParam) (pre rest : Bytes) (h : NParam_WF n p) (off : Nat) (hoff : off = pre.length) :
    decN1 n (pre ++ (encNb p ++ rest)) off = .ok p := by
  obtain ⟨h1, h3, h4⟩ := h
  have := structUnpackFrom_words16 (IENAN_unpack_fmt0 (n + 1)) (p.paramid :: p.dwords) pre rest
    (by simp [IENAN_unpack_fmt0, h3]) (by intro w hw; simp at hw; rcases hw with rfl | hw <;> first | assumption | exact h4 w hw)
    off hoff
  simp only [decN1, encNb, this]

theorem flatMap_encNb_length (n : Nat) (ps : List NParam) (h : ∀ p ∈ ps, NParam_WF n p) :
    (ps.flatMap encNb).length = ps.length * (n * 2 + 2) := by
  induction ps with
  | nil => simp
  | cons p ps ih =>
    simp only [List.flatMap_cons, List.length_append, List.length_cons, encNb_length n p (h p (by simp)),
      ih (fun q hq => h q (by simp [hq])), Nat.add_mul]
    omega

theorem decNAll_enc (n : Nat) (ps : List NParam) (h : ∀ p ∈ ps, NParam_WF n p) (pre rest : Bytes) (k : Nat)
    (hk : pre.length = k * (n * 2 + 2)) :
    decNAll n (pre ++ (ps.flatMap encNb ++ rest)) (List.range' k ps.length) = .ok ps := by
  induction ps generalizing pre k with
  | nil => rfl
  | cons p ps ih =>
    simp only [List.length_cons, List.range'_succ, decNAll, List.flatMap_cons, List.append_assoc]
    rw [decN1_enc n p pre _ (h p (by simp)) _ hk.symm]
    have := ih (fun q hq => h q (by simp [hq])) (pre ++ encNb p) (k + 1)
      (by simp [encNb_length n p (h p (by simp)), hk, Nat.add_mul])
    simp only [List.append_assoc] at this
    simp only [this]

end Acra.Lemmas.IENA
