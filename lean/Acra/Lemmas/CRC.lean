/-
  Reflected CRC-32 (IEEE 802.3, polynomial 0xEDB88320): the register update is injective in the register
  for a fixed input byte and injective in the input byte for a fixed register, hence two messages of the
  same length that differ in one byte (in particular: in one bit) have different CRCs.  No polynomial
  algebra is needed: the top bit of the shifted register tells whether the polynomial was added.
-/
import Acra.Py.Basic
import Acra.Spec.Net
namespace Acra.Lemmas.CRC
open Acra.Py Acra.Spec

theorem xor_cancel_right (a b c : Nat) (h : a ^^^ c = b ^^^ c) : a = b := by
  have := congrArg (· ^^^ c) h
  simpa [Nat.xor_assoc, Nat.xor_self] using this

theorem xor_cancel_left (a b c : Nat) (h : c ^^^ a = c ^^^ b) : a = b := by
  rw [Nat.xor_comm c a, Nat.xor_comm c b] at h; exact xor_cancel_right a b c h

theorem crcPoly_lt : crcPoly < 2 ^ 32 := by decide

/-- adding the polynomial sets bit 31 of a 31-bit value -/
theorem xor_poly_ge (a : Nat) (h : a < 2 ^ 31) : 2 ^ 31 ≤ a ^^^ crcPoly := by
  apply Nat.ge_two_pow_of_testBit
  rw [Nat.testBit_xor, Nat.testBit_lt_two_pow h]
  decide

theorem crcStep_lt (r : Nat) (h : r < 2 ^ 32) : crcStep r < 2 ^ 32 := by
  unfold crcStep
  split
  · exact Nat.xor_lt_two_pow (by omega) crcPoly_lt
  · omega

theorem crcStep_inj (r r' : Nat) (h : r < 2 ^ 32) (h' : r' < 2 ^ 32) (he : crcStep r = crcStep r') : r = r' := by
  unfold crcStep at he
  have p1 := xor_poly_ge (r / 2) (by omega)
  have p2 := xor_poly_ge (r' / 2) (by omega)
  split at he <;> split at he
  · have := xor_cancel_right _ _ _ he; omega
  · omega
  · omega
  · omega

theorem crcStep8_lt (r : Nat) (h : r < 2 ^ 32) : crcStep8 r < 2 ^ 32 := by
  unfold crcStep8
  repeat apply crcStep_lt
  exact h

theorem crcStep8_inj (r r' : Nat) (h : r < 2 ^ 32) (h' : r' < 2 ^ 32) (he : crcStep8 r = crcStep8 r') : r = r' := by
  unfold crcStep8 at he
  have l1 := crcStep_lt r h
  have l2 := crcStep_lt _ l1
  have l3 := crcStep_lt _ l2
  have l4 := crcStep_lt _ l3
  have l5 := crcStep_lt _ l4
  have l6 := crcStep_lt _ l5
  have l7 := crcStep_lt _ l6
  have m1 := crcStep_lt r' h'
  have m2 := crcStep_lt _ m1
  have m3 := crcStep_lt _ m2
  have m4 := crcStep_lt _ m3
  have m5 := crcStep_lt _ m4
  have m6 := crcStep_lt _ m5
  have m7 := crcStep_lt _ m6
  have e7 := crcStep_inj _ _ l7 m7 he
  have e6 := crcStep_inj _ _ l6 m6 e7
  have e5 := crcStep_inj _ _ l5 m5 e6
  have e4 := crcStep_inj _ _ l4 m4 e5
  have e3 := crcStep_inj _ _ l3 m3 e4
  have e2 := crcStep_inj _ _ l2 m2 e3
  have e1 := crcStep_inj _ _ l1 m1 e2
  exact crcStep_inj _ _ h h' e1

theorem byte_lt (b : UInt8) : b.toNat < 2 ^ 32 := by have := b.toNat_lt; omega

theorem crcByte_lt (r : Nat) (b : UInt8) (h : r < 2 ^ 32) : crcByte r b < 2 ^ 32 :=
  crcStep8_lt _ (Nat.xor_lt_two_pow h (byte_lt b))

/-- fixed input byte: injective in the register -/
theorem crcByte_inj_reg (r r' : Nat) (b : UInt8) (h : r < 2 ^ 32) (h' : r' < 2 ^ 32)
    (he : crcByte r b = crcByte r' b) : r = r' := by
  have := crcStep8_inj _ _ (Nat.xor_lt_two_pow h (byte_lt b)) (Nat.xor_lt_two_pow h' (byte_lt b)) he
  exact xor_cancel_right _ _ _ this

/-- fixed register: injective in the input byte -/
theorem crcByte_inj_byte (r : Nat) (b b' : UInt8) (h : r < 2 ^ 32) (he : crcByte r b = crcByte r b') : b = b' := by
  have := crcStep8_inj _ _ (Nat.xor_lt_two_pow h (byte_lt b)) (Nat.xor_lt_two_pow h (byte_lt b')) he
  exact UInt8.toNat_inj.1 (xor_cancel_left _ _ _ this)

theorem crcUpdate_lt (r : Nat) (bs : Bytes) (h : r < 2 ^ 32) : crcUpdate r bs < 2 ^ 32 := by
  induction bs generalizing r with
  | nil => exact h
  | cons b bs ih => exact ih _ (crcByte_lt r b h)

/-- the same suffix keeps two different registers different -/
theorem crcUpdate_inj (r r' : Nat) (bs : Bytes) (h : r < 2 ^ 32) (h' : r' < 2 ^ 32)
    (he : crcUpdate r bs = crcUpdate r' bs) : r = r' := by
  induction bs generalizing r r' with
  | nil => exact he
  | cons b bs ih =>
    have := ih _ _ (crcByte_lt r b h) (crcByte_lt r' b h') he
    exact crcByte_inj_reg r r' b h h' this

theorem crc32_lt (bs : Bytes) : crc32 bs < 2 ^ 32 :=
  Nat.xor_lt_two_pow (crcUpdate_lt _ _ (by decide)) (by decide)

/-- **two messages that differ in exactly one byte have different CRC-32s** -/
theorem crc32_detects_byte (pre suf : Bytes) (b b' : UInt8) (hne : b ≠ b') :
    crc32 (pre ++ b :: suf) ≠ crc32 (pre ++ b' :: suf) := by
  intro he
  unfold crc32 at he
  have he := xor_cancel_right _ _ _ he
  simp only [crcUpdate, List.foldl_append, List.foldl_cons] at he
  have hr : List.foldl crcByte 0xFFFFFFFF pre < 2 ^ 32 := crcUpdate_lt _ pre (by decide)
  have := crcUpdate_inj _ _ suf (crcByte_lt _ b hr) (crcByte_lt _ b' hr) he
  exact hne (crcByte_inj_byte _ b b' hr this)

/-- flip bit `k % 8` (least significant = 0) of byte `k / 8` -/
def flipBit (bs : Bytes) (k : Nat) : Bytes :=
  bs.set (k / 8) (bs.getD (k / 8) 0 ^^^ ((1 : UInt8) <<< UInt8.ofNat (k % 8)))

theorem flip_ne_aux : ∀ n, n < 256 → ∀ j, j < 8 → (UInt8.ofNat n ^^^ ((1 : UInt8) <<< UInt8.ofNat j)) ≠ UInt8.ofNat n := by
  decide +kernel

theorem flip_ne (b : UInt8) (j : Nat) (hj : j < 8) : b ^^^ ((1 : UInt8) <<< UInt8.ofNat j) ≠ b := by
  have := flip_ne_aux b.toNat b.toNat_lt j hj
  simpa using this

/-- the standard check value -/
theorem crc32_check : crc32 [0x31, 0x32, 0x33, 0x34, 0x35, 0x36, 0x37, 0x38, 0x39] = 0xCBF43926 := by decide +kernel

end Acra.Lemmas.CRC
