/- Kernel evaluation, part 3 of 5: `_onesincode(e, 24)` (string slicing of `bin(e)`) counts the set
   bits of every pattern the triple loop writes. -/
import Acra.Lemmas.GolayBase
namespace Acra.Lemmas.Golay
open Acra.Model.Golay

set_option maxRecDepth 100000 in
theorem ones_sorted : ∀ a, a < 24 → ∀ b, b < a + 1 → ∀ c, c < b + 1 →
    onesincode (pat a b c) 24 = wt (pat a b c) := by
  decide +kernel

end Acra.Lemmas.Golay
