/-
  Helper lemmas for the source-tie theorems (`Props/Cxx/SrcTie.lean`): facts that bring the translated
  Python operators (`Acra.Py.IntOps`) into the arithmetic form the hand-written models use.
-/
import Acra.Py.IntOps
namespace Acra.Lemmas.SrcTie
open Acra Acra.Py

end Acra.Lemmas.SrcTie
