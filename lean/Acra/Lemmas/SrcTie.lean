/-
  Helper lemmas for the source-tie theorems (`Props/Cxx/SrcTie.lean`): facts that bring the translated
  Python operators (`Acra.Py.IntOps`) into the arithmetic form the hand-written models use.
-/
import Acra.Py.IntOps
import Acra.Model.PES
import Acra.Model.Ch11
namespace Acra.Lemmas.SrcTie
open Acra Acra.Py

/-- `x & m` for a low mask `m = 2^j - 1` is `x % 2^j` -/
theorem and_low (x m j : Nat) (h : m + 1 = 2 ^ j) : x &&& m = x % 2 ^ j := by
  have : m = 2 ^ j - 1 := by omega
  rw [this, Nat.and_two_pow_sub_one_eq_mod]

/-- `x & (m << k)` for a low mask `m = 2^j - 1`: the `j`-bit field of `x` at position `k`, left in place -/
theorem and_field (x m j k mk : Nat) (h : m + 1 = 2 ^ j) (hmk : mk = m * 2 ^ k) :
    x &&& mk = (x / 2 ^ k % 2 ^ j) * 2 ^ k := by
  have hm : m = 2 ^ j - 1 := by omega
  subst hmk
  apply Nat.eq_of_testBit_eq
  intro i
  rw [Nat.testBit_and, Nat.testBit_mul_two_pow, Nat.testBit_mul_two_pow, Nat.testBit_mod_two_pow,
    Nat.testBit_div_two_pow, hm, Nat.testBit_two_pow_sub_one]
  by_cases hk : k ≤ i
  · have : i - k + k = i := by omega
    simp [hk, this, Bool.and_comm]
  · simp [hk]

/-- or-ing a `w`-bit field `a` at position `k` into a value whose bits `k … k+w-1` are zero adds it -/
theorem or_field (t a k w : Nat) (ht : t / 2 ^ k % 2 ^ w = 0) (ha : a < 2 ^ w) :
    t ||| a * 2 ^ k = t + a * 2 ^ k := by
  have hr : t % 2 ^ k < 2 ^ k := Nat.mod_lt _ (Nat.two_pow_pos k)
  have hq : (t / 2 ^ k) = (t / 2 ^ k / 2 ^ w) <<< w := by
    rw [Nat.shiftLeft_eq]
    have := Nat.div_add_mod (t / 2 ^ k) (2 ^ w)
    rw [ht, Nat.add_zero, Nat.mul_comm] at this
    exact this.symm
  have h1 : (t / 2 ^ k) ||| a = t / 2 ^ k + a := by
    rw [hq]; exact (Nat.shiftLeft_add_eq_or_of_lt ha _).symm
  have ht' : t = (t / 2 ^ k) <<< k ||| t % 2 ^ k := by
    rw [← Nat.shiftLeft_add_eq_or_of_lt hr, Nat.shiftLeft_eq, Nat.mul_comm]
    exact (Nat.div_add_mod t (2 ^ k)).symm
  calc t ||| a * 2 ^ k
      = ((t / 2 ^ k) <<< k ||| t % 2 ^ k) ||| a <<< k := by rw [← ht', Nat.shiftLeft_eq]
    _ = ((t / 2 ^ k) <<< k ||| a <<< k) ||| t % 2 ^ k := by
        rw [Nat.or_assoc, Nat.or_comm (t % 2 ^ k), ← Nat.or_assoc]
    _ = ((t / 2 ^ k + a) <<< k) ||| t % 2 ^ k := by rw [← Nat.shiftLeft_or_distrib, h1]
    _ = (t / 2 ^ k + a) <<< k + t % 2 ^ k := (Nat.shiftLeft_add_eq_or_of_lt hr _).symm
    _ = t + a * 2 ^ k := by
        rw [Nat.shiftLeft_eq, Nat.add_mul]
        have := Nat.div_add_mod t (2 ^ k)
        rw [Nat.mul_comm] at this
        omega

/-- `struct.unpack` returns as many values as the format has codes -/
theorem structUnpack_vals_length (f : Fmt) (buf : Bytes) (vs : List Nat) (h : structUnpack f buf = .ok vs) :
    vs.length = f.codes.length := by
  unfold structUnpack at h
  split at h
  · injection h with h; subst h; exact unpackCodes_length _ _ _
  · cases h

/-! ### index loops: `for i in range(len(b)): … b[i] …` -/

theorem range_eq (n : Nat) : Py.range (n : Int) = (List.range' 0 n).map Int.ofNat := by
  simp [Py.range, List.range_eq_range']

theorem byteAt_append (pre : Bytes) (b : UInt8) (bs : Bytes) :
    byteAt (pre ++ b :: bs) (Int.ofNat pre.length) = (b.toNat : Int) := by
  simp [byteAt]

/-- the loop of `checksum_stanag` started at position `|pre|` with accumulator `acc` -/
theorem stanag_fold (pre rest : Bytes) (acc : Int) :
    List.foldl (fun (bcc : Int) (i : Int) => bcc + shl (byteAt (pre ++ rest) i) (8 * pymod (i + 1) 2)) acc
      ((List.range' pre.length rest.length).map Int.ofNat)
    = acc + (Model.PES.stanagSum rest pre.length : Int) := by
  induction rest generalizing pre acc with
  | nil => simp [Model.PES.stanagSum]
  | cons b bs ih =>
    simp only [List.length_cons, List.range'_succ, List.map_cons, List.foldl_cons, byteAt_append]
    have h := ih (pre ++ [b]) (acc + shl (b.toNat : Int) (8 * pymod (Int.ofNat pre.length + 1) 2))
    simp only [List.append_assoc, List.singleton_append, List.length_append, List.length_singleton] at h
    rw [h]
    simp only [Model.PES.stanagSum]
    have hm : pymod (Int.ofNat pre.length + 1) 2 = (((pre.length + 1) % 2 : Nat) : Int) := by
      rw [pymod_of_pos _ _ (by decide)]; simp
    rw [hm]
    rcases Nat.mod_two_eq_zero_or_one (pre.length + 1) with h0 | h1
    · rw [h0]; simp [shl_natCast, Nat.shiftLeft_eq]; omega
    · rw [h1]; simp [shl_natCast, Nat.shiftLeft_eq]; omega

/-! ### `reduce(lambda x, y: x + y, words)` -/

theorem foldl_add_natCast (xs : List Nat) (x : Nat) :
    (xs.map Int.ofNat).foldl (fun (x y : Int) => x + y) (x : Int) = ((x + Model.Ch11.sumList xs : Nat) : Int) := by
  induction xs generalizing x with
  | nil => simp [Model.Ch11.sumList]
  | cons y ys ih =>
    simp only [List.map_cons, List.foldl_cons, Model.Ch11.sumList]
    have : (x : Int) + Int.ofNat y = ((x + y : Nat) : Int) := by simp
    rw [this, ih]; congr 1; omega

theorem reduce_add_natCast (ws : List Nat) :
    Py.reduce (fun (x y : Int) => x + y) (ws.map Int.ofNat)
      = match ws with
        | [] => .error .type
        | _ :: _ => .ok ((Model.Ch11.sumList ws : Nat) : Int) := by
  cases ws with
  | nil => rfl
  | cons x xs =>
    simp only [List.map_cons, Py.reduce]
    have := foldl_add_natCast xs x
    simp only [Model.Ch11.sumList]
    rw [← this]; rfl

end Acra.Lemmas.SrcTie
