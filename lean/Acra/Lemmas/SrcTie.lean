/-
  Helper lemmas for the source-tie theorems (`Props/Cxx/SrcTie.lean`): facts that bring the translated
  Python operators (`Acra.Py.IntOps`) into the arithmetic form the hand-written models use.
-/
import Acra.Py.IntOps
import Acra.Model.PES
import Acra.Model.Ch11
import Acra.Model.PMT
namespace Acra.Lemmas.SrcTie
open Acra Acra.Py

/-- `x & m` for a low mask `m = 2^j - 1` is `x % 2^j` -/
theorem and_low (x m j : Nat) (h : m + 1 = 2 ^ j) : x &&& m = x % 2 ^ j := by
  have : m = 2 ^ j - 1 := by omega
  rw [this, Nat.and_two_pow_sub_one_eq_mod]

/-- `x & (m << k)` for a low mask `m = 2^j - 1`: the `j`-bit field of `x` at position `k`, left in place -/
theorem and_field (x m j k mk : Nat) (h : m + 1 = 2 ^ j) (hmk : mk = m * 2 ^ k) :
    x &&& mk = (x / 2 ^ k % 2 ^ j) * 2 ^ k := by
  have hm : m = 2 ^ j - 1 := by omega
  subst hmk
  apply Nat.eq_of_testBit_eq
  intro i
  rw [Nat.testBit_and, Nat.testBit_mul_two_pow, Nat.testBit_mul_two_pow, Nat.testBit_mod_two_pow,
    Nat.testBit_div_two_pow, hm, Nat.testBit_two_pow_sub_one]
  by_cases hk : k ≤ i
  · have : i - k + k = i := by omega
    simp [hk, this, Bool.and_comm]
  · simp [hk]

/-- or-ing a `w`-bit field `a` at position `k` into a value whose bits `k … k+w-1` are zero adds it -/
theorem or_field (t a k w : Nat) (ht : t / 2 ^ k % 2 ^ w = 0) (ha : a < 2 ^ w) :
    t ||| a * 2 ^ k = t + a * 2 ^ k := by
  have hr : t % 2 ^ k < 2 ^ k := Nat.mod_lt _ (Nat.two_pow_pos k)
  have hq : (t / 2 ^ k) = (t / 2 ^ k / 2 ^ w) <<< w := by
    rw [Nat.shiftLeft_eq]
    have := Nat.div_add_mod (t / 2 ^ k) (2 ^ w)
    rw [ht, Nat.add_zero, Nat.mul_comm] at this
    exact this.symm
  have h1 : (t / 2 ^ k) ||| a = t / 2 ^ k + a := by
    rw [hq]; exact (Nat.shiftLeft_add_eq_or_of_lt ha _).symm
  have ht' : t = (t / 2 ^ k) <<< k ||| t % 2 ^ k := by
    rw [← Nat.shiftLeft_add_eq_or_of_lt hr, Nat.shiftLeft_eq, Nat.mul_comm]
    exact (Nat.div_add_mod t (2 ^ k)).symm
  calc t ||| a * 2 ^ k
      = ((t / 2 ^ k) <<< k ||| t % 2 ^ k) ||| a <<< k := by rw [← ht', Nat.shiftLeft_eq]
    _ = ((t / 2 ^ k) <<< k ||| a <<< k) ||| t % 2 ^ k := by
        rw [Nat.or_assoc, Nat.or_comm (t % 2 ^ k), ← Nat.or_assoc]
    _ = ((t / 2 ^ k + a) <<< k) ||| t % 2 ^ k := by rw [← Nat.shiftLeft_or_distrib, h1]
    _ = (t / 2 ^ k + a) <<< k + t % 2 ^ k := (Nat.shiftLeft_add_eq_or_of_lt hr _).symm
    _ = t + a * 2 ^ k := by
        rw [Nat.shiftLeft_eq, Nat.add_mul]
        have := Nat.div_add_mod t (2 ^ k)
        rw [Nat.mul_comm] at this
        omega

/-- `struct.unpack` returns as many values as the format has codes -/
theorem structUnpack_vals_length (f : Fmt) (buf : Bytes) (vs : List Nat) (h : structUnpack f buf = .ok vs) :
    vs.length = f.codes.length := by
  unfold structUnpack at h
  split at h
  · injection h with h; subst h; exact unpackCodes_length _ _ _
  · cases h

/-! ### index loops: `for i in range(len(b)): … b[i] …` -/

theorem range_eq (n : Nat) : Py.range (n : Int) = (List.range' 0 n).map Int.ofNat := by
  simp [Py.range, List.range_eq_range']

theorem byteAt_append (pre : Bytes) (b : UInt8) (bs : Bytes) :
    byteAt (pre ++ b :: bs) (Int.ofNat pre.length) = (b.toNat : Int) := by
  simp [byteAt]

/-- the loop of `checksum_stanag` started at position `|pre|` with accumulator `acc` -/
theorem stanag_fold (pre rest : Bytes) (acc : Int) :
    List.foldl (fun (bcc : Int) (i : Int) => bcc + shl (byteAt (pre ++ rest) i) (8 * pymod (i + 1) 2)) acc
      ((List.range' pre.length rest.length).map Int.ofNat)
    = acc + (Model.PES.stanagSum rest pre.length : Int) := by
  induction rest generalizing pre acc with
  | nil => simp [Model.PES.stanagSum]
  | cons b bs ih =>
    simp only [List.length_cons, List.range'_succ, List.map_cons, List.foldl_cons, byteAt_append]
    have h := ih (pre ++ [b]) (acc + shl (b.toNat : Int) (8 * pymod (Int.ofNat pre.length + 1) 2))
    simp only [List.append_assoc, List.singleton_append, List.length_append, List.length_singleton] at h
    rw [h]
    simp only [Model.PES.stanagSum]
    have hm : pymod (Int.ofNat pre.length + 1) 2 = (((pre.length + 1) % 2 : Nat) : Int) := by
      rw [pymod_of_pos _ _ (by decide)]; simp
    rw [hm]
    rcases Nat.mod_two_eq_zero_or_one (pre.length + 1) with h0 | h1
    · rw [h0]; simp [shl_natCast, Nat.shiftLeft_eq]; omega
    · rw [h1]; simp [shl_natCast, Nat.shiftLeft_eq]; omega

/-! ### `reduce(lambda x, y: x + y, words)` -/

theorem foldl_add_natCast (xs : List Nat) (x : Nat) :
    (xs.map Int.ofNat).foldl (fun (x y : Int) => x + y) (x : Int) = ((x + Model.Ch11.sumList xs : Nat) : Int) := by
  induction xs generalizing x with
  | nil => simp [Model.Ch11.sumList]
  | cons y ys ih =>
    simp only [List.map_cons, List.foldl_cons, Model.Ch11.sumList]
    have : (x : Int) + Int.ofNat y = ((x + y : Nat) : Int) := by simp
    rw [this, ih]; congr 1; omega

theorem reduce_add_natCast (ws : List Nat) :
    Py.reduce (fun (x y : Int) => x + y) (ws.map Int.ofNat)
      = match ws with
        | [] => .error .type
        | _ :: _ => .ok ((Model.Ch11.sumList ws : Nat) : Int) := by
  cases ws with
  | nil => rfl
  | cons x xs =>
    simp only [List.map_cons, Py.reduce]
    have := foldl_add_natCast xs x
    simp only [Model.Ch11.sumList]
    rw [← this]; rfl

/-! ### folds whose accumulator stays a non-negative int -/

/-- a fold over ints that maps casts to casts is the cast of the fold over naturals -/
theorem foldl_natCast {β : Type} (F : Int → Int → Int) (G : Nat → β → Nat) (g : β → Int)
    (h : ∀ (a : Nat) (b : β), F (a : Int) (g b) = ((G a b : Nat) : Int)) (l : List β) (a : Nat) :
    List.foldl F (a : Int) (l.map g) = ((List.foldl G a l : Nat) : Int) := by
  induction l generalizing a with
  | nil => rfl
  | cons b bs ih => simp only [List.map_cons, List.foldl_cons, h, ih]

/-- testing one bit: `c & 2^k` is non-zero iff bit `k` of `c` is set -/
theorem and_two_pow_ne_zero (c k : Nat) : (c &&& 2 ^ k ≠ 0) ↔ (c / 2 ^ k % 2 = 1) := by
  rw [and_field c 1 1 k (2 ^ k) (by decide) (by simp)]
  have hp : 0 < 2 ^ k := Nat.two_pow_pos k
  rcases Nat.mod_two_eq_zero_or_one (c / 2 ^ k) with h | h
  · simp [h]
  · simp [h]

/-- one shift step of `crc32mpeg2` -/
theorem crcShift_tie (c : Nat) :
    (if band (c : Int) 2147483648 ≠ 0 then bxor (shl (c : Int) 1) 79764919 else shl (c : Int) 1)
      = ((Model.PMT.crcShift c : Nat) : Int) := by
  unfold Model.PMT.crcShift
  have hc : (band (c : Int) 2147483648 ≠ 0) ↔ (c / 2147483648 % 2 = 1) := by
    rw [band_natCast_lit]
    have := and_two_pow_ne_zero c 31
    simpa using this
  have hs : shl (c : Int) 1 = ((c * 2 : Nat) : Int) := by
    rw [shl_natCast, toNat_lit, Nat.shiftLeft_eq]
  rw [hs]
  by_cases h : c / 2147483648 % 2 = 1
  · rw [if_pos (hc.mpr h), if_pos h, bxor_natCast_lit]
  · rw [if_neg (fun x => h (hc.mp x)), if_neg h]

theorem range8 : Py.range 8 = [0, 1, 2, 3, 4, 5, 6, 7] := by decide

/-- one byte step of `crc32mpeg2` -/
theorem crcByte_tie (c : Nat) (b : UInt8) :
    List.foldl (fun (crc : Int) (_ : Int) =>
        if band crc 2147483648 ≠ 0 then bxor (shl crc 1) 79764919 else shl crc 1)
      (bxor (c : Int) (shl ((b.toNat : Nat) : Int) 24)) (Py.range 8)
    = ((Model.PMT.crcByte c b : Nat) : Int) := by
  rw [range8]
  have h0 : bxor (c : Int) (shl ((b.toNat : Nat) : Int) 24) = ((c ^^^ (b.toNat * 16777216) : Nat) : Int) := by
    rw [shl_natCast, toNat_lit, Nat.shiftLeft_eq, bxor_natCast]
  simp only [List.foldl_cons, List.foldl_nil, h0, crcShift_tie, Model.PMT.crcByte]

end Acra.Lemmas.SrcTie
