/-
  Chapter 7, part 7: low-latency frames, one frame at a time.
  Layout of a frame that holds low-latency PTDPs p₁ … pₙ (most recently inserted first):
      enc p₁ ++ [0xFF] ++ … ++ enc pₙ ++ [0x00] ++ normal data,      offset = length of that prefix.
  * `addPayload_llp_layout`: `add_payload(…, is_llp=True)` keeps that layout as long as the insertion
    does not overflow the frame (NoLLPOverflow, one insertion);
  * `gap_llp_frame`: the decapsulator returns p₁ … pₙ flagged low-latency, then parses
    (carried remainder ++ normal data) exactly as for a frame without low-latency data.
  The glue over a whole packet sequence (frames × insertions) is not proved — see notes/golay7.md.
-/
import Acra.Lemmas.Chapter7Dec
namespace Acra.Lemmas.Chapter7
open Acra.Py Acra.Model Acra.Model.Chapter7 Acra.Gen.Chapter7

/-- the low-latency prefix of a frame: each PTDP followed by its continuation byte -/
def llpBytes : List PTDP.State → Bytes
  | [] => []
  | [p] => encB p ++ [0x00]
  | p :: q :: rest => encB p ++ [0xFF] ++ llpBytes (q :: rest)

theorem llpBytes_cons (p : PTDP.State) (ps : List PTDP.State) :
    llpBytes (p :: ps) = encB p ++ [if ps = [] then 0x00 else 0xFF] ++ llpBytes ps := by
  cases ps with
  | nil => simp [llpBytes]
  | cons q rest => simp [llpBytes]

/-- a frame holding the low-latency PTDPs `llps` in front of the normal data `N` -/
structure LlpLayout (s : PTFR.State) (llps : List PTDP.State) (N : Bytes) : Prop where
  flag : s.llp = !llps.isEmpty
  payload : s.payload = llpBytes llps ++ N
  off : llps ≠ [] → s.ptdp_offset = (llpBytes llps).length

theorem byte1_val (f : Fmt) (v : Nat) (hf : f = ⟨true, [.u8]⟩) (hv : v < 256) : PTFR.byte1 f v = [UInt8.ofNat v] := by
  subst hf
  simp [PTFR.byte1, structPack, packCodes, Code.bound, hv, Code.size, encInt, beBytes, leBytes,
    Nat.mod_eq_of_lt hv]

theorem llpBytes_pos (q : PTDP.State) (rest : List PTDP.State) : 0 < (llpBytes (q :: rest)).length := by
  cases rest <;> simp [llpBytes] <;> omega

/-- inserting a low-latency PTDP that fits (with its continuation byte) keeps the layout -/
theorem addPayload_llp_layout (s : PTFR.State) (llps : List PTDP.State) (N : Bytes) (p : PTDP.State)
    (h : LlpLayout s llps N) (hfit : (encB p).length + 1 + s.payload.length ≤ s.length) :
    (PTFR.addPayload s (encB p) true).2 = [] ∧
    (PTFR.addPayload s (encB p) true).1.length = s.length ∧
    LlpLayout (PTFR.addPayload s (encB p) true).1 (p :: llps) N := by
  have hb0 : PTFR.byte1 PTFR_add_payload_fmt0 0xFF = [0xFF] := byte1_val _ _ rfl (by decide)
  have hb1 : PTFR.byte1 PTFR_add_payload_fmt1 0x0 = [0x00] := byte1_val _ _ rfl (by decide)
  have hb2 : PTFR.byte1 PTFR_add_payload_fmt2 0x0 = [0x00] := byte1_val _ _ rfl (by decide)
  cases llps with
  | nil =>
    have hfl : s.llp = false := by simpa using h.flag
    have hpl : s.payload = N := by simpa [llpBytes] using h.payload
    by_cases hN : s.payload.length = 0
    · have hN' : s.payload = [] := List.eq_nil_of_length_eq_zero hN
      have hNn : N = [] := by rw [← hpl, hN']
      have hnov : ¬ ((encB p).length + 1 > s.length) := by omega
      have hcalc : PTFR.addPayload s (encB p) true =
          ({ s with llp := true, ptdp_offset := (encB p).length + 1, payload := encB p ++ [0x00] }, []) := by
        simp [PTFR.addPayload, hN, hfl, hb2, hnov]
      rw [hcalc]
      exact ⟨rfl, rfl, ⟨by simp, by simp [llpBytes, hNn], fun _ => by simp [llpBytes]⟩⟩
    · have hpos : s.payload.length > 0 := by omega
      have hnov : ¬ ((encB p).length + (1 + s.payload.length) > s.length) := by omega
      have hcalc : PTFR.addPayload s (encB p) true =
          ({ s with llp := true, ptdp_offset := (encB p).length + 1, payload := encB p ++ [0x00] ++ s.payload }, []) := by
        simp [PTFR.addPayload, hpos, hfl, hb1]
        intro hh; omega
      rw [hcalc]
      exact ⟨rfl, rfl, ⟨by simp, by simp [llpBytes, hpl], fun _ => by simp [llpBytes]⟩⟩
  | cons q rest =>
    have hfl : s.llp = true := by simpa using h.flag
    have hoff := h.off (by simp)
    have hpl := h.payload
    have hpos : s.payload.length > 0 := by
      rw [hpl, List.length_append]; have := llpBytes_pos q rest; omega
    have hnov : ¬ ((encB p).length + (1 + s.payload.length) > s.length) := by omega
    have hcalc : PTFR.addPayload s (encB p) true =
        ({ s with llp := true, ptdp_offset := s.ptdp_offset + ((encB p).length + 1),
                  payload := encB p ++ [0xFF] ++ s.payload }, []) := by
      simp [PTFR.addPayload, hpos, hfl, hb0]
      intro hh; omega
    rw [hcalc]
    refine ⟨rfl, rfl, ⟨by simp, ?_, fun _ => ?_⟩⟩
    · simp only [llpBytes, hpl, List.append_assoc]
    · simp only [llpBytes, hoff, List.length_append, List.length_cons, List.length_nil]; omega


/-! ### decoding a frame with that layout -/

/-- a low-latency PTDP as the decapsulator returns it -/
def asLlp (p : PTDP.State) : PTDP.State := { p with length := p.payload.length, low_latency := true }

theorem unpack_encB_any (p : PTDP.State) (h : PTDP_WF p) (rest : Bytes) :
    PTDP.unpack PTDP.fresh (encB p ++ rest) =
      ({ p with length := p.payload.length, low_latency := false }, .ok rest) := by
  have := ptdp_unpack_noisy p PTDP.fresh h 0 0 (by decide) (by decide) wt_zero_le wt_zero_le rest
  simpa [encB, List.append_assoc] using this

theorem gap_byte (m : UInt8) (more : Bytes) :
    structUnpackFrom PTFR_gap_fmt0 (m :: more) 0 = .ok [m.toNat] := by
  simp [structUnpackFrom, PTFR_gap_fmt0, Fmt.size, codesSize, Code.size, unpackCodes, decInt, beNat, leNat]

theorem gapLoop_llp (self : PTFR.State) (first : Bool) (r N : Bytes)
    (hjump : first = true → r = []) :
    ∀ (llps : List PTDP.State), llps ≠ [] → (∀ p ∈ llps, PTDP_WF p) →
      (∀ (fuel : Nat) (st : GapSt), st.isLlp = true → st.buf = llpBytes llps ++ N →
        self.payload.drop self.ptdp_offset = N →
        llps.length + (r ++ N).length < fuel →
        (gapLoop self first (some r) fuel st).items =
          llps.map (fun p => Item.pkt (asLlp p)) ++ (parseB (r ++ N)).1.map Item.pkt ++ [lastItem (parseB (r ++ N))] ∧
        (gapLoop self first (some r) fuel st).raised = none) := by
  intro llps
  induction llps with
  | nil => intro h; exact absurd rfl h
  | cons p ps ih =>
    intro _ hwf fuel st hl hbuf hN hfuel
    cases fuel with
    | zero => omega
    | succ fuel =>
      have hpw := hwf p (by simp)
      unfold gapLoop
      rw [hbuf, llpBytes_cons, List.append_assoc, List.append_assoc, unpack_encB_any p hpw]
      simp only [hl, if_true, List.singleton_append, gap_byte]
      cases hbk : bookkeep st ((PTDP.len { p with length := p.payload.length, low_latency := false } : Nat) : Int) with
      | mk st1 chk =>
        simp only
        have hb := bookkeep_buf st ((PTDP.len { p with length := p.payload.length, low_latency := false } : Nat) : Int)
        rw [hbk] at hb
        simp only at hb
        cases ps with
        | nil =>
          -- the last low-latency PTDP: continuation byte 0x00, switch to the normal data
          simp only [if_true, llpBytes, List.nil_append]
          have h0 : (0 : UInt8).toNat = 0 := rfl
          have hst2 : (afterLlp self first (some r) st1
              ((PTDP.len { p with length := p.payload.length, low_latency := false } : Nat) : Int) (0 :: N) 0).isLlp = false ∧
              (afterLlp self first (some r) st1
              ((PTDP.len { p with length := p.payload.length, low_latency := false } : Nat) : Int) (0 :: N) 0).buf = r ++ N := by
            unfold afterLlp
            have hne : ((0 : Nat) == 0xFF) = false := by decide
            simp only [hne, Bool.false_eq_true, if_false]
            by_cases hj : ((some r == some ([] : Bytes)) && decide (self.ptdp_offset > 0) || first) = true
            · simp only [hj, if_true, hN]
              refine ⟨trivial, ?_⟩
              have hr : r = [] := by
                simp only [Bool.or_eq_true, Bool.and_eq_true] at hj
                rcases hj with ⟨h1, _⟩ | h1
                · simpa using h1
                · exact hjump h1
              simp [hr]
            · simp only [hj, Bool.false_eq_true, if_false]
              exact ⟨trivial, by simp⟩
          rw [h0]
          have hpar := gapLoop_parse self first (some r) fuel _ hst2.1 (by rw [hst2.2]; simp at hfuel ⊢; omega)
          rw [items_cons, raised_cons, hpar.1, hpar.2, hst2.2,
            parse_fuel fuel ((r ++ N).length + 1) _ (by simp at hfuel ⊢; omega) (by omega)]
          simp [asLlp, parseB]
        | cons q rest =>
          have hff : (0xFF : UInt8).toNat = 0xFF := rfl
          have hne : (q :: rest) ≠ [] := by simp
          simp only [hne, if_false, hff]
          have hst2 : (afterLlp self first (some r) st1
              ((PTDP.len { p with length := p.payload.length, low_latency := false } : Nat) : Int)
              (0xFF :: (llpBytes (q :: rest) ++ N)) 0xFF).isLlp = true ∧
              (afterLlp self first (some r) st1
              ((PTDP.len { p with length := p.payload.length, low_latency := false } : Nat) : Int)
              (0xFF :: (llpBytes (q :: rest) ++ N)) 0xFF).buf = llpBytes (q :: rest) ++ N := by
            unfold afterLlp
            simp
          have := ih hne (fun x hx => hwf x (by simp [hx])) fuel _ hst2.1 hst2.2 hN (by simp at hfuel ⊢; omega)
          rw [items_cons, raised_cons, this.1, this.2]
          simp [asLlp]


theorem llpBytes_len_ge (llps : List PTDP.State) : llps.length ≤ (llpBytes llps).length := by
  induction llps with
  | nil => simp [llpBytes]
  | cons p ps ih => rw [llpBytes_cons]; simp only [List.length_append, List.length_cons, List.length_nil]; omega

/-- `get_aligned_payload` on a frame with the low-latency layout -/
theorem gap_llp_frame (self : PTFR.State) (llps : List PTDP.State) (N : Bytes) (hne : llps ≠ [])
    (h : LlpLayout self llps N) (hwf : ∀ p ∈ llps, PTDP_WF p) (first : Bool) (r : Bytes)
    (hjump : first = true → r = []) :
    (getAlignedPayload self first (some r)).items =
      llps.map (fun p => Item.pkt (asLlp p)) ++ (parseB (r ++ N)).1.map Item.pkt ++ [lastItem (parseB (r ++ N))] ∧
    (getAlignedPayload self first (some r)).raised = none := by
  have hfl : self.llp = true := by
    rw [h.flag]; cases llps with
    | nil => exact absurd rfl hne
    | cons _ _ => rfl
  have hN : self.payload.drop self.ptdp_offset = N := by
    rw [h.off hne, h.payload, List.drop_left' rfl]
  unfold getAlignedPayload
  simp only [hfl, if_true, Option.getD_some]
  apply gapLoop_llp self first r N hjump llps hne hwf _ _ rfl h.payload hN
  have := llpBytes_len_ge llps
  rw [h.payload]
  simp only [List.length_append]; omega

end Acra.Lemmas.Chapter7
