/-
  Chapter 7, part 8: the encapsulator `datapkts_to_ptfr` on MIXED traffic (normal and low-latency
  PTDPs in any order) under `NoLLPOverflow`.

  Ghost state: `bs` = encodings of the normal PTDPs folded so far (`S = bs.flatten` the normal stream,
  `st = startsAux 0 bs` the positions at which a normal PTDP header begins), `lls` = for every frame
  already yielded the low-latency PTDPs it holds (most recently inserted first), `ll` = those of the
  frame under construction.  A frame holding `ll` carries `cap L ll = L - |llpBytes ll|` bytes of the
  normal stream, so the cuts of the normal stream are no longer multiples of L: frame k carries
  bytes [c_k, c_k + cap L ll_k) with c_0 = 0, c_{k+1} = c_k + cap L ll_k  (`cutAfter`).
  Invariant `MixInv`: every yielded frame is `mixFrame` = layout
      llpBytes ll_k ++ S[c_k, c_{k+1}),   LLP flag = (ll_k ≠ []),
      offset = |llpBytes ll_k| if ll_k ≠ [] else first normal PTDP start in [c_k, c_k + L) (or 0x7FF),
  and the frame under construction is the same thing for the rest of the stream.
-/
import Acra.Lemmas.Chapter7Llp
import Acra.Lemmas.Chapter7Len
import Acra.Model.Chapter7NoOverflow
namespace Acra.Lemmas.Chapter7
open Acra.Py Acra.Model Acra.Model.Chapter7 Acra.Gen.Chapter7
open Acra.Spec.Ch7 (offset startsAux)

/- `NoLLPOverflow` / `noLLPOverflowFrom` are defined in Acra.Model.Chapter7NoOverflow (core Lean, also run by the driver). -/

/-! ### offsets for arbitrary cuts -/

def inRange (lo hi : Nat) (p : Nat) : Bool := decide (lo ≤ p) && decide (p < hi)

/-- offset field of a frame whose normal data are the bytes [lo, hi) of the stream: first PTDP start
    in that range, relative to `lo`; else the reserved 0x7FF -/
def offAt (st : List Nat) (lo hi : Nat) : Nat :=
  match st.find? (inRange lo hi) with
  | some p => p - lo
  | none => 0x7FF

theorem offset_eq_offAt (L : Nat) (st : List Nat) (k : Nat) : offset L st k = offAt st (k * L) ((k + 1) * L) := rfl

theorem findR_none_of_lt (lo hi : Nat) (st : List Nat) (h : ∀ p ∈ st, p < lo) :
    st.find? (inRange lo hi) = none := by
  rw [List.find?_eq_none]
  intro p hp
  have := h p hp
  simp [inRange]; omega

theorem findR_none_of_ge (lo hi : Nat) (st : List Nat) (h : ∀ p ∈ st, hi ≤ p) :
    st.find? (inRange lo hi) = none := by
  rw [List.find?_eq_none]
  intro p hp
  have := h p hp
  simp [inRange]; omega

theorem offAt_append_one (lo hi : Nat) (st : List Nat) (y : Nat) (h : ∀ p ∈ st, p < lo) :
    offAt (st ++ [y]) lo hi = if lo ≤ y ∧ y < hi then y - lo else 0x7FF := by
  unfold offAt
  rw [List.find?_append, findR_none_of_lt lo hi st h]
  simp only [Option.none_or, List.find?_cons, List.find?_nil, inRange]
  by_cases h1 : lo ≤ y ∧ y < hi
  · simp [h1]
  · simp only [h1, if_false]
    have : (decide (lo ≤ y) && decide (y < hi)) = false := by
      simp only [Bool.and_eq_false_imp, decide_eq_true_eq, decide_eq_false_iff_not]; omega
    simp [this]

theorem offAt_append_ge (lo hi : Nat) (st l : List Nat) (h : ∀ p ∈ l, hi ≤ p) :
    offAt (st ++ l) lo hi = offAt st lo hi := by
  unfold offAt
  rw [List.find?_append, findR_none_of_ge lo hi l h]
  cases st.find? (inRange lo hi) <;> rfl

theorem offAt_append_hit (lo hi : Nat) (st l : List Nat) (h : (st.find? (inRange lo hi)).isSome) :
    offAt (st ++ l) lo hi = offAt st lo hi := by
  unfold offAt
  rw [List.find?_append]
  cases hf : st.find? (inRange lo hi) with
  | none => rw [hf] at h; cases h
  | some p => rfl

theorem findR_isSome_of_mem (lo hi : Nat) (st : List Nat) (y : Nat) (hy : y ∈ st)
    (h : lo ≤ y ∧ y < hi) : (st.find? (inRange lo hi)).isSome := by
  rw [List.find?_isSome]
  exact ⟨y, hy, by simp [inRange, h]⟩

theorem offAt_lt (st : List Nat) (lo L : Nat) (hL : L ≤ 2047) : offAt st lo (lo + L) < 2048 := by
  unfold offAt
  cases h : st.find? (inRange lo (lo + L)) with
  | none => simp
  | some p =>
    have := List.find?_some h
    simp only [inRange, Bool.and_eq_true, decide_eq_true_eq] at this
    simp only
    omega

/-! ### frames of a mixed stream -/

/-- bytes of the normal stream a frame holding the low-latency PTDPs `ll` can carry -/
def cap (L : Nat) (ll : List PTDP.State) : Nat := L - (llpBytes ll).length

@[simp] theorem cap_nil (L : Nat) : cap L [] = L := by simp [cap, llpBytes]

/-- the frame that holds the low-latency PTDPs `ll` and the bytes of the normal stream from `c` on -/
def mixFrame (L sid : Nat) (S : Bytes) (st : List Nat) (c : Nat) (ll : List PTDP.State) : PTFR.State :=
  { newPtfr L sid with
      llp := !ll.isEmpty,
      ptdp_offset := if ll.isEmpty then offAt st c (c + L) else (llpBytes ll).length,
      payload := llpBytes ll ++ slice S c (c + cap L ll) }

def mixFrames (L sid : Nat) (S : Bytes) (st : List Nat) : Nat → List (List PTDP.State) → List PTFR.State
  | _, [] => []
  | c, ll :: r => mixFrame L sid S st c ll :: mixFrames L sid S st (c + cap L ll) r

/-- where the normal stream is cut after the frames `lls`, starting from `c` -/
def cutAfter (L : Nat) : Nat → List (List PTDP.State) → Nat
  | c, [] => c
  | c, ll :: r => cutAfter L (c + cap L ll) r

theorem cutAfter_ge (L : Nat) (lls : List (List PTDP.State)) (c : Nat) : c ≤ cutAfter L c lls := by
  induction lls generalizing c with
  | nil => simp [cutAfter]
  | cons ll r ih => simp only [cutAfter]; have := ih (c + cap L ll); omega

theorem cutAfter_append (L : Nat) (a b : List (List PTDP.State)) (c : Nat) :
    cutAfter L c (a ++ b) = cutAfter L (cutAfter L c a) b := by
  induction a generalizing c with
  | nil => simp [cutAfter]
  | cons ll r ih => simp only [List.cons_append, cutAfter, ih]

theorem cutAfter_snoc (L : Nat) (lls : List (List PTDP.State)) (ll : List PTDP.State) (c : Nat) :
    cutAfter L c (lls ++ [ll]) = cutAfter L c lls + cap L ll := by
  rw [cutAfter_append]; simp [cutAfter]

theorem mixFrames_snoc (L sid : Nat) (S : Bytes) (st : List Nat) (lls : List (List PTDP.State))
    (ll : List PTDP.State) (c : Nat) :
    mixFrames L sid S st c (lls ++ [ll]) =
      mixFrames L sid S st c lls ++ [mixFrame L sid S st (cutAfter L c lls) ll] := by
  induction lls generalizing c with
  | nil => simp [mixFrames, cutAfter]
  | cons l r ih => simp only [List.cons_append, mixFrames, cutAfter, ih]

theorem mixFrames_length (L sid : Nat) (S : Bytes) (st : List Nat) (lls : List (List PTDP.State)) (c : Nat) :
    (mixFrames L sid S st c lls).length = lls.length := by
  induction lls generalizing c with
  | nil => simp [mixFrames]
  | cons l r ih => simp [mixFrames, ih]

theorem mixFrame_grow (L sid : Nat) (S b : Bytes) (st l : List Nat) (c : Nat) (ll : List PTDP.State)
    (hS : c + cap L ll ≤ S.length) (hl : ∀ p ∈ l, c + cap L ll ≤ p) :
    mixFrame L sid (S ++ b) (st ++ l) c ll = mixFrame L sid S st c ll := by
  unfold mixFrame
  have h1 : slice (S ++ b) c (c + cap L ll) = slice S c (c + cap L ll) := by
    simp only [slice, List.take_append_of_le_length hS]
  rw [h1]
  cases ll with
  | nil =>
    simp only [List.isEmpty_nil, if_true]
    rw [offAt_append_ge c (c + L) st l (by simpa using hl)]
  | cons q r => simp

theorem mixFrames_grow (L sid : Nat) (S b : Bytes) (st l : List Nat) (lls : List (List PTDP.State)) (c : Nat)
    (hS : cutAfter L c lls ≤ S.length) (hl : ∀ p ∈ l, cutAfter L c lls ≤ p) :
    mixFrames L sid (S ++ b) (st ++ l) c lls = mixFrames L sid S st c lls := by
  induction lls generalizing c with
  | nil => simp [mixFrames]
  | cons ll r ih =>
    simp only [mixFrames, cutAfter] at hS hl ⊢
    have hge := cutAfter_ge L r (c + cap L ll)
    rw [ih (c + cap L ll) hS hl, mixFrame_grow L sid S b st l c ll (by omega)
      (fun p hp => by have := hl p hp; omega)]

theorem ptfr_ext (a b : PTFR.State) (h1 : a.version = b.version) (h2 : a.streamid = b.streamid)
    (h3 : a.llp = b.llp) (h4 : a.ptdp_offset = b.ptdp_offset) (h5 : a.length = b.length)
    (h6 : a.payload = b.payload) : a = b := by
  cases a; cases b; simp_all

/-! ### the invariant -/

structure MixInv (L sid : Nat) (bs : List Bytes) (lls : List (List PTDP.State)) (ll : List PTDP.State)
    (cur : PTFR.State) (out : List PTFR.State) : Prop where
  out_eq : out = mixFrames L sid bs.flatten (startsAux 0 bs) 0 lls
  cur_eq : cur = { newPtfr L sid with
                    llp := !ll.isEmpty,
                    ptdp_offset :=
                      if ll.isEmpty then
                        offAt (startsAux 0 bs ++ [bs.flatten.length]) (cutAfter L 0 lls) (cutAfter L 0 lls + L)
                      else (llpBytes ll).length,
                    payload := llpBytes ll ++ bs.flatten.drop (cutAfter L 0 lls) }
  lo : cutAfter L 0 lls ≤ bs.flatten.length
  hi : (llpBytes ll).length + (bs.flatten.length - cutAfter L 0 lls) ≤ L
  pos : 0 < bs.flatten.length → cutAfter L 0 lls < bs.flatten.length
  fit : ∀ l ∈ lls, (llpBytes l).length ≤ L
  ne : lls ≠ [] → 0 < bs.flatten.length

theorem mixInv_init (L sid : Nat) (hL : 0 < L) : MixInv L sid [] [] [] (newPtfr L sid) [] := by
  refine ⟨rfl, ?_, by simp [cutAfter], by simp [llpBytes], by simp, by simp, by simp⟩
  have h0 : offAt [0] 0 L = 0 := by simp [offAt, inRange, hL]
  simp [startsAux, cutAfter, h0, newPtfr, PTFR.fresh, llpBytes]

/-- the frame under construction has the low-latency layout -/
theorem mixInv_layout {L sid : Nat} {bs : List Bytes} {lls : List (List PTDP.State)} {ll : List PTDP.State}
    {cur : PTFR.State} {out : List PTFR.State} (inv : MixInv L sid bs lls ll cur out) :
    LlpLayout cur ll (bs.flatten.drop (cutAfter L 0 lls)) := by
  refine ⟨by rw [inv.cur_eq], by rw [inv.cur_eq], fun hne => ?_⟩
  rw [inv.cur_eq]
  cases ll with
  | nil => exact absurd rfl hne
  | cons q r => simp

/-! ### one low-latency PTDP that fits -/

theorem encStep_llp (L sid : Nat) (bs : List Bytes) (lls : List (List PTDP.State)) (ll : List PTDP.State)
    (cur : PTFR.State) (out : List PTFR.State) (inv : MixInv L sid bs lls ll cur out)
    (p : PTDP.State) (hwf : PTDP_WF p) (hll : p.low_latency = true)
    (hfit : p.payload.length + 6 + 1 + cur.payload.length ≤ L) :
    ∃ cur', encStep L sid (cur, out) p = .ok (cur', out) ∧ MixInv L sid bs lls (p :: ll) cur' out := by
  have hlay := mixInv_layout inv
  have hcl : cur.length = L := by rw [inv.cur_eq]; rfl
  have hcv : cur.version = 0 := by rw [inv.cur_eq]; rfl
  have hcs : cur.streamid = sid := by rw [inv.cur_eq]; rfl
  have hcp : cur.payload.length = (llpBytes ll).length + (bs.flatten.length - cutAfter L 0 lls) := by
    rw [inv.cur_eq]; simp
  have henc := encB_length p
  obtain ⟨h2, h1, hlay'⟩ := addPayload_llp_layout cur ll (bs.flatten.drop (cutAfter L 0 lls)) p hlay
    (by rw [hcl]; omega)
  have hf := addPayload_facts cur (encB p) true
  have hadd : PTFR.addPayload cur (encB p) true = ((PTFR.addPayload cur (encB p) true).1, []) :=
    Prod.ext rfl h2
  refine ⟨(PTFR.addPayload cur (encB p) true).1, ?_, ?_⟩
  · unfold encStep
    simp only [pack_encB p hwf, hll]
    rw [hadd]
    simp only [List.length_nil, Nat.zero_add]
    unfold spill
    simp
  · have hoff := hlay'.off (by simp)
    have hlen' : (llpBytes (p :: ll)).length = (encB p).length + 1 + (llpBytes ll).length := by
      rw [llpBytes_cons]; simp; omega
    refine ⟨inv.out_eq, ?_, inv.lo, ?_, inv.pos, inv.fit, inv.ne⟩
    · apply ptfr_ext
      · rw [hf.2.1, hcv]; rfl
      · rw [hf.2.2.1, hcs]; rfl
      · rw [hlay'.flag]
      · rw [hoff]; simp
      · rw [h1, hcl]; rfl
      · rw [hlay'.payload]
    · rw [hlen']; omega

/-! ### a normal PTDP -/

structure FlightInv2 (L sid : Nat) (S : Bytes) (st : List Nat) (x : Nat) (atStart : Bool) (rem : Bytes)
    (lls : List (List PTDP.State)) (out : List PTFR.State) : Prop where
  out_eq : out = mixFrames L sid S (st ++ [x]) 0 lls
  rem_eq : rem = S.drop (cutAfter L 0 lls)
  at_true : atStart = true → x = cutAfter L 0 lls
  at_false : atStart = false → x < cutAfter L 0 lls

theorem slice_drop_take' (S : Bytes) (c n : Nat) : slice (S.drop c) 0 n = slice S c (c + n) := by
  simp only [slice, List.drop_zero, List.drop_take]
  congr 1
  omega

theorem spillFull_inv2 (L sid : Nat) (hL : 0 < L) (S : Bytes) (st : List Nat) (x : Nat)
    (hst : ∀ p ∈ st, p < x) :
    ∀ (fuel : Nat) (atStart : Bool) (rem : Bytes) (lls : List (List PTDP.State)) (out : List PTFR.State),
      FlightInv2 L sid S st x atStart rem lls out → rem.length < fuel → rem ≠ [] →
      ∃ atStart' rem' out' n, spillFull L sid fuel atStart (newPtfr L sid) rem out =
          .ok (atStart', newPtfr L sid, rem', out') ∧
        FlightInv2 L sid S st x atStart' rem' (lls ++ List.replicate n []) out' ∧ rem'.length ≤ L ∧ rem' ≠ [] := by
  intro fuel
  induction fuel with
  | zero => intro _ _ _ _ _ h; omega
  | succ fuel ih =>
    intro atStart rem lls out inv hf hne
    unfold spillFull
    by_cases hlen : rem.length > L
    · simp only [hlen, if_true]
      have hadd : PTFR.addPayload { newPtfr L sid with ptdp_offset := if atStart = true then 0x0 else 0x7FF }
          (slice rem 0 L) false =
          ({ newPtfr L sid with ptdp_offset := if atStart = true then 0x0 else 0x7FF,
                                 payload := slice rem 0 L }, []) := by
        exact addPayload_fill _ _ rfl (by simp [slice, newPtfr]; omega)
      rw [hadd]
      simp only
      have hfr : ({ newPtfr L sid with ptdp_offset := if atStart = true then 0x0 else 0x7FF,
                                        payload := slice rem 0 L } : PTFR.State) =
          mixFrame L sid S (st ++ [x]) (cutAfter L 0 lls) [] := by
        apply ptfr_ext
        · rfl
        · rfl
        · rfl
        · show (if atStart = true then 0x0 else 0x7FF) =
            (if ([] : List PTDP.State).isEmpty then
              offAt (st ++ [x]) (cutAfter L 0 lls) (cutAfter L 0 lls + L)
             else (llpBytes ([] : List PTDP.State)).length)
          simp only [List.isEmpty_nil, if_true]
          cases hat : atStart with
          | true =>
            have hx := inv.at_true hat
            rw [offAt_append_one _ _ st x (by intro p hp; have := hst p hp; omega)]
            have : cutAfter L 0 lls ≤ x ∧ x < cutAfter L 0 lls + L := by omega
            rw [if_pos this, hx, Nat.sub_self]; rfl
          | false =>
            have hx := inv.at_false hat
            unfold offAt
            rw [findR_none_of_lt _ _ (st ++ [x])]
            · simp
            · intro p hp
              simp only [List.mem_append, List.mem_singleton] at hp
              rcases hp with hp | rfl
              · have := hst p hp; omega
              · exact hx
        · rfl
        · show slice rem 0 L = llpBytes [] ++ slice S (cutAfter L 0 lls) (cutAfter L 0 lls + cap L [])
          rw [inv.rem_eq, slice_drop_take']; simp [llpBytes]
      rw [hfr]
      have inv' : FlightInv2 L sid S st x false (rem.drop L) (lls ++ [[]])
          (out ++ [mixFrame L sid S (st ++ [x]) (cutAfter L 0 lls) []]) := by
        refine ⟨?_, ?_, ?_, ?_⟩
        · rw [mixFrames_snoc, ← inv.out_eq]
        · rw [cutAfter_snoc, cap_nil, inv.rem_eq, List.drop_drop]
        · intro h; cases h
        · intro _
          rw [cutAfter_snoc, cap_nil]
          cases hat : atStart with
          | true => have := inv.at_true hat; omega
          | false => have := inv.at_false hat; omega
      have hne' : rem.drop L ≠ [] := by
        intro h
        have := congrArg List.length h
        simp at this; omega
      obtain ⟨a', rem', out', n, h1, h2, h3, h4⟩ := ih false (rem.drop L) _ _ inv' (by simp; omega) hne'
      refine ⟨a', rem', out', n + 1, h1, ?_, h3, h4⟩
      have : lls ++ List.replicate (n + 1) [] = lls ++ [[]] ++ List.replicate n ([] : List PTDP.State) := by
        rw [List.append_assoc, List.replicate_succ]; rfl
      rw [this]; exact h2
    · simp only [hlen, if_false]
      exact ⟨atStart, rem, out, 0, rfl, by simpa using inv, by omega, hne⟩

theorem fit_replicate (L : Nat) (lls : List (List PTDP.State)) (n : Nat)
    (h : ∀ l ∈ lls, (llpBytes l).length ≤ L) :
    ∀ l ∈ lls ++ List.replicate n [], (llpBytes l).length ≤ L := by
  intro l hl
  simp only [List.mem_append, List.mem_replicate] at hl
  rcases hl with hl | ⟨_, rfl⟩
  · exact h l hl
  · simp [llpBytes]

/-- a normal PTDP that overflows the frame under construction (which holds the low-latency PTDPs `ll`) -/
theorem mixOverflow (L sid : Nat) (hL : 0 < L) (bs : List Bytes) (hne : ∀ b ∈ bs, b ≠ [])
    (lls : List (List PTDP.State)) (ll : List PTDP.State) (out : List PTFR.State) (b : Bytes)
    (hfit : ∀ l ∈ lls ++ [ll], (llpBytes l).length ≤ L)
    (hout : out = mixFrames L sid (bs.flatten ++ b) (startsAux 0 bs ++ [bs.flatten.length]) 0 lls) :
    ∀ (C1 : PTFR.State) (X : Bytes) (A : Bool),
      C1 = mixFrame L sid (bs.flatten ++ b) (startsAux 0 bs ++ [bs.flatten.length]) (cutAfter L 0 lls) ll →
      X = (bs.flatten ++ b).drop (cutAfter L 0 lls + cap L ll) → X ≠ [] →
      (A = true → bs.flatten.length = cutAfter L 0 lls + cap L ll) →
      (A = false → bs.flatten.length < cutAfter L 0 lls + cap L ll) →
      ∃ cur' out' n, spill L sid (X.length + 2) A C1 X out = .ok (cur', out') ∧
        MixInv L sid (bs ++ [b]) (lls ++ [ll] ++ List.replicate n []) [] cur' out' := by
  intro C1 X A hC hX hXne hAt hAf
  have hstlt : ∀ q ∈ startsAux 0 bs, q < bs.flatten.length := by
    intro q hq; have := startsAux_lt 0 bs hne q hq; omega
  have hS' : (bs ++ [b]).flatten = bs.flatten ++ b := by simp
  have hfl : FlightInv2 L sid (bs.flatten ++ b) (startsAux 0 bs) bs.flatten.length A X (lls ++ [ll]) (out ++ [C1]) := by
    refine ⟨?_, ?_, ?_, ?_⟩
    · rw [mixFrames_snoc, ← hout, hC]
    · rw [cutAfter_snoc]; exact hX
    · intro h; rw [cutAfter_snoc]; exact hAt h
    · intro h; rw [cutAfter_snoc]; exact hAf h
  obtain ⟨a', rem', out', n, hsf, inv', hle, hne'⟩ :=
    spillFull_inv2 L sid hL (bs.flatten ++ b) (startsAux 0 bs) bs.flatten.length hstlt
      (X.length + 1) A X (lls ++ [ll]) (out ++ [C1]) hfl (by omega) hXne
  refine ⟨_, _, n, spill_nonempty L sid X.length A a' C1 X rem' out out' hXne hsf hle, ?_⟩
  have hrem_eq := inv'.rem_eq
  have hat_true := inv'.at_true
  have hat_false := inv'.at_false
  have hout_eq := inv'.out_eq
  clear inv'
  generalize hcc : cutAfter L 0 (lls ++ [ll] ++ List.replicate n []) = cc at hrem_eq hat_true hat_false
  have hremlen : rem'.length = (bs.flatten ++ b).length - cc := by rw [hrem_eq]; simp
  have hpos : 0 < rem'.length := List.length_pos_iff.2 hne'
  refine ⟨?_, ?_, ?_, ?_, ?_, ?_, ?_⟩
  · rw [hS', startsAux_snoc]; exact hout_eq
  · rw [hS', startsAux_snoc, hcc]
    apply ptfr_ext
    · rfl
    · rfl
    · rfl
    · show (if a' = true then 0x0 else if (rem'.length == L) = true then 0x7FF else rem'.length) =
        (if ([] : List PTDP.State).isEmpty then
          offAt (startsAux 0 bs ++ [bs.flatten.length] ++ [(bs.flatten ++ b).length]) cc (cc + L)
         else (llpBytes ([] : List PTDP.State)).length)
      simp only [List.isEmpty_nil, if_true]
      cases hat : a' with
      | true =>
        have hx := hat_true hat
        rw [offAt_append_hit]
        · rw [offAt_append_one cc _ _ _ (by intro q hq; have := hstlt q hq; omega)]
          have : cc ≤ bs.flatten.length ∧ bs.flatten.length < cc + L := by omega
          rw [if_pos this, hx, Nat.sub_self]; rfl
        · apply findR_isSome_of_mem _ _ _ bs.flatten.length (by simp)
          omega
      | false =>
        have hx := hat_false hat
        rw [offAt_append_one cc _ _ _ (by
          intro q hq
          simp only [List.mem_append, List.mem_singleton] at hq
          rcases hq with hq | rfl
          · have := hstlt q hq; omega
          · exact hx)]
        simp only [Bool.false_eq_true, if_false]
        by_cases hfull : rem'.length = L
        · have : ¬ (cc ≤ (bs.flatten ++ b).length ∧ (bs.flatten ++ b).length < cc + L) := by omega
          rw [if_neg this]; simp [hfull]
        · have : cc ≤ (bs.flatten ++ b).length ∧ (bs.flatten ++ b).length < cc + L := by omega
          have hne2 : (rem'.length == L) = false := by simpa using hfull
          rw [if_pos this]
          simp only [hne2, Bool.false_eq_true, if_false]
          rw [hremlen]
    · rfl
    · show rem' = llpBytes [] ++ (bs.flatten ++ b).drop cc
      rw [← hrem_eq]; simp [llpBytes]
  · rw [hS', hcc]; omega
  · rw [hS', hcc]; simp only [llpBytes, List.length_nil]; omega
  · intro _; rw [hS', hcc]; omega
  · exact fit_replicate L _ n hfit
  · intro _; rw [hS']; omega

theorem take_prefix_append (P X : Bytes) (L : Nat) (h : P.length ≤ L) :
    (P ++ X).take L = P ++ X.take (L - P.length) := by
  rw [List.take_append, List.take_of_length_le h]

theorem drop_prefix_append (P X : Bytes) (L : Nat) (h : P.length ≤ L) :
    (P ++ X).drop L = X.drop (L - P.length) := by
  rw [List.drop_append, List.drop_eq_nil_of_le h, List.nil_append]

/-- one normal PTDP with (non-empty) encoding `b` -/
theorem encStep_mix_normal (L sid : Nat) (hL : 0 < L) (bs : List Bytes) (hne : ∀ b ∈ bs, b ≠ [])
    (lls : List (List PTDP.State)) (ll : List PTDP.State)
    (cur : PTFR.State) (out : List PTFR.State) (inv : MixInv L sid bs lls ll cur out)
    (p : PTDP.State) (b : Bytes) (hp : (PTDP.pack p).2 = .ok b) (hll : p.low_latency = false) (hb : b ≠ []) :
    ∃ cur' out' lls' ll', encStep L sid (cur, out) p = .ok (cur', out') ∧
      MixInv L sid (bs ++ [b]) lls' ll' cur' out' ∧
      ((lls' = lls ∧ ll' = ll) ∨ (∃ n, lls' = lls ++ [ll] ++ List.replicate n [] ∧ ll' = [])) := by
  have hblen : 0 < b.length := List.length_pos_iff.2 hb
  have hcurp : cur.payload = llpBytes ll ++ bs.flatten.drop (cutAfter L 0 lls) := by rw [inv.cur_eq]
  have hcurl : cur.length = L := by rw [inv.cur_eq]; rfl
  have hcurlen : cur.payload.length = (llpBytes ll).length + (bs.flatten.length - cutAfter L 0 lls) := by
    rw [hcurp]; simp
  have hlo := inv.lo
  have hhi := inv.hi
  have hPL : (llpBytes ll).length ≤ L := by omega
  have hS' : (bs ++ [b]).flatten = bs.flatten ++ b := by simp
  have hdrop : (bs.flatten ++ b).drop (cutAfter L 0 lls) = bs.flatten.drop (cutAfter L 0 lls) ++ b := by
    rw [List.drop_append_of_le_length hlo]
  have hcurb : cur.payload ++ b = llpBytes ll ++ (bs.flatten ++ b).drop (cutAfter L 0 lls) := by
    rw [hcurp, hdrop, List.append_assoc]
  -- old frames are frames of the longer stream as well
  have hold : mixFrames L sid (bs.flatten ++ b) (startsAux 0 bs ++ [bs.flatten.length]) 0 lls = out := by
    rw [inv.out_eq]
    apply mixFrames_grow
    · exact hlo
    · intro q hq
      simp only [List.mem_singleton] at hq; subst hq
      exact hlo
  unfold encStep
  simp only [hp, hll, Bool.not_false, Bool.and_true]
  rw [addPayload_normal]
  by_cases hov : (cur.payload ++ b).length > cur.length
  · -- the frame overflows
    simp only [hov, if_true]
    have hov' : cur.payload.length + b.length > L := by simpa [hcurl] using hov
    have hcap : cap L ll = L - (llpBytes ll).length := rfl
    obtain ⟨cur', out', n, h1, h2⟩ := mixOverflow L sid hL bs hne lls ll out b
      (by
        intro l hl
        simp only [List.mem_append, List.mem_singleton] at hl
        rcases hl with hl | rfl
        · exact inv.fit l hl
        · exact hPL) hold.symm
      { cur with payload := (cur.payload ++ b).take cur.length }
      ((cur.payload ++ b).drop cur.length) (cur.payload.length == L)
      (by
        -- the frame that is emitted first
        rw [hcurb, hcurl, take_prefix_append _ _ _ hPL]
        apply ptfr_ext
        · rw [inv.cur_eq]; rfl
        · rw [inv.cur_eq]; rfl
        · rw [inv.cur_eq]; rfl
        · rw [inv.cur_eq]
          show (if ll.isEmpty then _ else _) = (if ll.isEmpty then _ else _)
          rfl
        · rw [inv.cur_eq]; rfl
        · show llpBytes ll ++ _ = llpBytes ll ++ slice _ _ _
          rw [← slice_drop_take']; simp [slice, hcap])
      (by rw [hcurb, hcurl, drop_prefix_append _ _ _ hPL, List.drop_drop, hcap])
      (by intro h; have := congrArg List.length h; simp [hcurl] at this; omega)
      (by intro h; simp only [beq_iff_eq] at h; omega)
      (by
        intro h
        have : cur.payload.length ≠ L := by simpa using h
        omega)
    exact ⟨cur', out', _, [], h1, h2, Or.inr ⟨n, rfl, rfl⟩⟩
  · -- the PTDP fits
    simp only [hov, if_false]
    have hov' : cur.payload.length + b.length ≤ L := by
      have : ¬ (cur.payload.length + b.length > L) := by simpa [hcurl] using hov
      omega
    unfold spill
    simp only [if_true]
    refine ⟨_, _, lls, ll, rfl, ?_, Or.inl ⟨rfl, rfl⟩⟩
    refine ⟨?_, ?_, ?_, ?_, ?_, inv.fit, ?_⟩
    · rw [hS', startsAux_snoc, hold]
    · rw [hS', startsAux_snoc]
      apply ptfr_ext
      · rw [inv.cur_eq]
      · rw [inv.cur_eq]
      · rw [inv.cur_eq]
      · rw [inv.cur_eq]
        show (if ll.isEmpty then _ else _) = (if ll.isEmpty then _ else _)
        cases ll with
        | nil =>
          simp only [List.isEmpty_nil, if_true]
          refine (offAt_append_hit _ _ (startsAux 0 bs ++ [bs.flatten.length])
            [(bs.flatten ++ b).length] ?_).symm
          apply findR_isSome_of_mem _ _ _ bs.flatten.length (by simp)
          simp only [llpBytes, List.length_nil] at hcurlen
          omega
        | cons q r => simp
      · rw [inv.cur_eq]
      · exact hcurb
    · rw [hS']; simp only [List.length_append]; omega
    · rw [hS']; simp only [List.length_append]; omega
    · intro _; rw [hS']; simp only [List.length_append]; omega
    · intro _; rw [hS']; simp only [List.length_append]; omega

end Acra.Lemmas.Chapter7
