/-
  Chapter 7, part 6: every frame `datapkts_to_ptfr` yields is full (payload of exactly `length`
  bytes) — for ANY traffic, low-latency insertions and overflows included.
-/
import Acra.Lemmas.Chapter7Enc
namespace Acra.Lemmas.Chapter7
open Acra.Py Acra.Model Acra.Model.Chapter7 Acra.Gen.Chapter7

/-- a frame the generator may yield -/
def FullFrame (L sid : Nat) (f : PTFR.State) : Prop :=
  f.length = L ∧ f.payload.length = L ∧ f.version = 0 ∧ f.streamid = sid

/-- the frame under construction -/
def OpenFrame (L sid : Nat) (f : PTFR.State) : Prop :=
  f.length = L ∧ f.payload.length ≤ L ∧ f.version = 0 ∧ f.streamid = sid

theorem cut_facts (s s1 : PTFR.State) (h1 : s1.length = s.length) (h2 : s1.version = s.version)
    (h3 : s1.streamid = s.streamid) :
    let r : PTFR.State × Bytes :=
      if s1.payload.length > s1.length then
        ({ s1 with payload := s1.payload.take s1.length }, s1.payload.drop s1.length)
      else (s1, [])
    r.1.length = s.length ∧ r.1.version = s.version ∧ r.1.streamid = s.streamid ∧
    r.1.payload.length ≤ s.length ∧ (r.2 ≠ [] → r.1.payload.length = s.length) := by
  intro r
  by_cases h : s1.payload.length > s1.length
  · have hr : r = ({ s1 with payload := s1.payload.take s1.length }, s1.payload.drop s1.length) := by
      simp only [r, h, if_true]
    rw [hr]
    refine ⟨h1, h2, h3, ?_, ?_⟩
    · show (s1.payload.take s1.length).length ≤ s.length
      rw [List.length_take]; omega
    · intro _
      show (s1.payload.take s1.length).length = s.length
      rw [List.length_take]; omega
  · have hr : r = (s1, []) := by simp only [r, h, if_false]
    rw [hr]
    exact ⟨h1, h2, h3, by show s1.payload.length ≤ s.length; omega, fun hh => absurd rfl hh⟩

theorem addPayload_facts (s : PTFR.State) (buf : Bytes) (isLlp : Bool) :
    (PTFR.addPayload s buf isLlp).1.length = s.length ∧
    (PTFR.addPayload s buf isLlp).1.version = s.version ∧
    (PTFR.addPayload s buf isLlp).1.streamid = s.streamid ∧
    (PTFR.addPayload s buf isLlp).1.payload.length ≤ s.length ∧
    ((PTFR.addPayload s buf isLlp).2 ≠ [] → (PTFR.addPayload s buf isLlp).1.payload.length = s.length) := by
  unfold PTFR.addPayload
  simp only
  split
  · exact cut_facts s _ rfl rfl rfl
  · split
    · exact cut_facts s _ rfl rfl rfl
    · split
      · exact cut_facts s _ rfl rfl rfl
      · exact cut_facts s _ rfl rfl rfl

theorem newPtfr_open (L sid : Nat) : OpenFrame L sid (newPtfr L sid) := by
  simp [OpenFrame, newPtfr, PTFR.fresh]

theorem spillFull_full (L sid : Nat) :
    ∀ (fuel : Nat) (a : Bool) (rem : Bytes) (out : List PTFR.State) (a' : Bool) (c' : PTFR.State) (r' : Bytes)
      (o' : List PTFR.State), (∀ f ∈ out, FullFrame L sid f) →
      spillFull L sid fuel a (newPtfr L sid) rem out = .ok (a', c', r', o') →
      c' = newPtfr L sid ∧ (∀ f ∈ o', FullFrame L sid f) ∧ r'.length ≤ L := by
  intro fuel
  induction fuel with
  | zero => intro a rem out a' c' r' o' _ h; simp [spillFull] at h
  | succ fuel ih =>
    intro a rem out a' c' r' o' hout h
    unfold spillFull at h
    by_cases hlen : rem.length > L
    · simp only [hlen, if_true] at h
      rw [addPayload_fill _ (slice rem 0 L) rfl (by simp [slice, newPtfr]; omega)] at h
      simp only at h
      refine ih false (rem.drop L) _ a' c' r' o' ?_ h
      intro f hfm
      simp only [List.mem_append, List.mem_singleton] at hfm
      rcases hfm with hfm | rfl
      · exact hout f hfm
      · refine ⟨rfl, ?_, rfl, rfl⟩
        show (slice rem 0 L).length = L
        simp [slice]; omega
    · simp only [hlen, if_false, Except.ok.injEq, Prod.mk.injEq] at h
      obtain ⟨_, h2, h3, h4⟩ := h
      subst h2 h3 h4
      exact ⟨rfl, hout, by omega⟩

theorem spill_full (L sid : Nat) :
    ∀ (fuel : Nat) (a : Bool) (cur : PTFR.State) (rem : Bytes) (out : List PTFR.State) (c' : PTFR.State)
      (o' : List PTFR.State), OpenFrame L sid cur → (rem ≠ [] → cur.payload.length = L) →
      (∀ f ∈ out, FullFrame L sid f) → spill L sid fuel a cur rem out = .ok (c', o') →
      OpenFrame L sid c' ∧ (∀ f ∈ o', FullFrame L sid f) := by
  intro fuel
  induction fuel with
  | zero => intro a cur rem out c' o' _ _ _ h; simp [spill] at h
  | succ fuel ih =>
    intro a cur rem out c' o' hcur hfull hout h
    unfold spill at h
    by_cases hr : rem = []
    · simp only [hr, if_true, Except.ok.injEq, Prod.mk.injEq] at h
      obtain ⟨h1, h2⟩ := h
      subst h1 h2
      exact ⟨hcur, hout⟩
    · simp only [hr, if_false] at h
      have hout1 : ∀ f ∈ out ++ [cur], FullFrame L sid f := by
        intro f hf
        simp only [List.mem_append, List.mem_singleton] at hf
        rcases hf with hf | rfl
        · exact hout f hf
        · exact ⟨hcur.1, hfull hr, hcur.2.2.1, hcur.2.2.2⟩
      cases hsf : spillFull L sid (rem.length + 1) a (newPtfr L sid) rem (out ++ [cur]) with
      | error e => rw [hsf] at h; cases h
      | ok res =>
        obtain ⟨a1, cur1, rem1, out1⟩ := res
        rw [hsf] at h
        simp only at h
        obtain ⟨hc1, ho1, hl1⟩ := spillFull_full L sid _ _ _ _ _ _ _ _ hout1 hsf
        subst hc1
        have hf := addPayload_facts { newPtfr L sid with ptdp_offset :=
          if a1 = true then 0x0 else if (rem1.length == L) = true then 0x7FF else rem1.length } rem1 false
        cases hadd : PTFR.addPayload { newPtfr L sid with ptdp_offset :=
          if a1 = true then 0x0 else if (rem1.length == L) = true then 0x7FF else rem1.length } rem1 false with
        | mk cur3 rem2 =>
          rw [hadd] at h hf
          simp only at h hf
          refine ih a1 cur3 rem2 out1 c' o' ⟨by rw [hf.1]; rfl, by rw [show L = (newPtfr L sid).length from rfl]; exact hf.2.2.2.1,
            by rw [hf.2.1]; rfl, by rw [hf.2.2.1]; rfl⟩ ?_ ho1 h
          intro hne
          rw [hf.2.2.2.2 hne]; rfl

theorem encFold_full (L sid : Nat) (ps : List PTDP.State) :
    ∀ (cur : PTFR.State) (out : List PTFR.State) (c' : PTFR.State) (o' : List PTFR.State),
      OpenFrame L sid cur → (∀ f ∈ out, FullFrame L sid f) → encFold L sid ps (cur, out) = .ok (c', o') →
      OpenFrame L sid c' ∧ (∀ f ∈ o', FullFrame L sid f) := by
  induction ps with
  | nil =>
    intro cur out c' o' hc ho h
    simp only [encFold, Except.ok.injEq, Prod.mk.injEq] at h
    obtain ⟨h1, h2⟩ := h; subst h1 h2; exact ⟨hc, ho⟩
  | cons p ps ih =>
    intro cur out c' o' hc ho h
    simp only [encFold] at h
    cases hs : encStep L sid (cur, out) p with
    | error e => rw [hs] at h; cases h
    | ok st1 =>
      obtain ⟨cur1, out1⟩ := st1
      rw [hs] at h
      simp only at h
      have : OpenFrame L sid cur1 ∧ ∀ f ∈ out1, FullFrame L sid f := by
        unfold encStep at hs
        simp only at hs
        cases hp : (PTDP.pack p).2 with
        | error e => rw [hp] at hs; cases hs
        | ok packed =>
          rw [hp] at hs
          simp only at hs
          have hf := addPayload_facts cur packed p.low_latency
          cases hadd : PTFR.addPayload cur packed p.low_latency with
          | mk cur0 rem =>
            rw [hadd] at hs hf
            simp only at hs hf
            exact spill_full L sid _ _ cur0 rem out cur1 out1
              ⟨by rw [hf.1]; exact hc.1, by rw [← hc.1]; exact hf.2.2.2.1, by rw [hf.2.1]; exact hc.2.2.1,
                by rw [hf.2.2.1]; exact hc.2.2.2⟩
              (fun hne => by rw [hf.2.2.2.2 hne]; exact hc.1) ho hs
      exact ih cur1 out1 c' o' this.1 this.2 h

/-- a full frame packs to 4 + L bytes -/
theorem fullFrame_pack (L sid : Nat) (hs : sid < 16) (f : PTFR.State) (h : FullFrame L sid f) :
    ∃ b, (PTFR.pack f).2 = .ok b ∧ b.length = 4 + L := by
  obtain ⟨h1, h2, h3, h4⟩ := h
  have hb : f.version + (f.streamid <<< 4) < 256 := by rw [h3, h4, shl]; omega
  unfold PTFR.pack
  simp only [h2, h1, ne_eq, not_true_eq_false, if_false, structPack, PTFR_pack_fmt0, packCodes, Code.bound, hb,
    if_true, Code.size, encInt, encodeStr_word, List.append_nil]
  exact ⟨_, rfl, by simp [h2]; omega⟩

end Acra.Lemmas.Chapter7
