/-
  Helper lemmas for `combine_ip_fragments`: the stable insertion sort by fragment offset does not depend on
  the order of its input when the offsets are pairwise distinct (`List.Perm`), the checking loop accepts
  exactly the lists of IP objects with one identification, and a list cut in ascending offsets is already sorted.
-/
import Acra.Model.Net
namespace Acra.Lemmas.Reassembly
open Acra.Py Acra.Model.Net

/-- fragment offsets pairwise distinct -/
def Distinct (l : List IP) : Prop := l.Pairwise fun a b => a.fragment_offset ≠ b.fragment_offset

theorem insertFrag_comm (p q : IP) (l : List IP) (h : p.fragment_offset ≠ q.fragment_offset) :
    insertFrag p (insertFrag q l) = insertFrag q (insertFrag p l) := by
  induction l with
  | nil =>
    simp only [insertFrag]
    by_cases h1 : p.fragment_offset ≤ q.fragment_offset
    · have h2 : ¬ q.fragment_offset ≤ p.fragment_offset := by omega
      simp [h1, h2]
    · have h2 : q.fragment_offset ≤ p.fragment_offset := by omega
      simp [h1, h2]
  | cons x xs ih =>
    simp only [insertFrag]
    by_cases hq : q.fragment_offset ≤ x.fragment_offset <;> by_cases hp : p.fragment_offset ≤ x.fragment_offset
    · by_cases h1 : p.fragment_offset ≤ q.fragment_offset
      · have h2 : ¬ q.fragment_offset ≤ p.fragment_offset := by omega
        simp [insertFrag, hq, hp, h1, h2]
      · have h2 : q.fragment_offset ≤ p.fragment_offset := by omega
        simp [insertFrag, hq, hp, h1, h2]
    · have h1 : ¬ p.fragment_offset ≤ q.fragment_offset := by omega
      simp [insertFrag, hq, hp, h1]
    · have h1 : ¬ q.fragment_offset ≤ p.fragment_offset := by omega
      simp [insertFrag, hq, hp, h1]
    · simp [insertFrag, hq, hp, ih]

/-- **the sort is independent of the arrival order** when the offsets are pairwise distinct -/
theorem sortFrags_perm {l₁ l₂ : List IP} (hp : l₁.Perm l₂) (hd : Distinct l₁) : sortFrags l₁ = sortFrags l₂ := by
  induction hp with
  | nil => rfl
  | cons x _ ih =>
    simp only [sortFrags]
    rw [ih (List.pairwise_cons.1 hd).2]
  | swap x y l =>
    simp only [sortFrags]
    have := (List.pairwise_cons.1 hd).1 x (by simp)
    exact insertFrag_comm y x _ this
  | trans h1 _ ih1 ih2 =>
    rw [ih1 hd]
    exact ih2 ((List.Perm.pairwise_iff (fun h => Ne.symm h) h1).1 hd)

theorem insertFrag_perm (p : IP) (l : List IP) : (insertFrag p l).Perm (p :: l) := by
  induction l with
  | nil => exact List.Perm.refl _
  | cons x xs ih =>
    simp only [insertFrag]
    split
    · exact List.Perm.refl _
    · exact ((List.Perm.cons x ih).trans (List.Perm.swap p x xs))

theorem sortFrags_perm_self (l : List IP) : (sortFrags l).Perm l := by
  induction l with
  | nil => exact List.Perm.refl _
  | cons x xs ih => exact (insertFrag_perm x _).trans (List.Perm.cons x ih)

/-- a list in strictly ascending offset order is left alone -/
theorem sortFrags_sorted (l : List IP) (h : l.Pairwise fun a b => a.fragment_offset < b.fragment_offset) :
    sortFrags l = l := by
  induction l with
  | nil => rfl
  | cons x xs ih =>
    obtain ⟨h1, h2⟩ := List.pairwise_cons.1 h
    simp only [sortFrags, ih h2]
    cases xs with
    | nil => rfl
    | cons y ys =>
      have := h1 y (by simp)
      simp only [insertFrag]
      rw [if_pos (by omega)]

/-! the checking loop -/

/-- all identifications equal -/
def SameId (l : List IP) : Prop := ∀ a ∈ l, ∀ b ∈ l, a.ident = b.ident

theorem checkItems_error (i : Option Nat) (items : List Item) (e : Err) (h : checkItems i items = .error e) :
    e = .generic := by
  induction items generalizing i with
  | nil => simp [checkItems] at h
  | cons it rest ih =>
    cases it with
    | other => simp [checkItems] at h; exact h.symm
    | ip p =>
      cases i with
      | none =>
        simp only [checkItems, Bool.false_eq_true, if_false] at h
        cases hr : checkItems (some p.ident) rest with
        | ok ps => simp [hr] at h
        | error e' => simp only [hr, Except.error.injEq] at h; subst h; exact ih _ hr
      | some j =>
        by_cases hj : p.ident = j
        · have hb : (p.ident != j) = false := by simp [hj]
          simp only [checkItems, hb, Bool.false_eq_true, if_false] at h
          cases hr : checkItems (some p.ident) rest with
          | ok ps => simp [hr] at h
          | error e' => simp only [hr, Except.error.injEq] at h; subst h; exact ih _ hr
        · have hb : (p.ident != j) = true := by simp [hj]
          simp only [checkItems, hb, if_true, Except.error.injEq] at h
          exact h.symm

theorem checkItems_some (i : Nat) (l : List IP) (h : ∀ a ∈ l, a.ident = i) :
    checkItems (some i) (l.map .ip) = .ok l := by
  induction l generalizing i with
  | nil => rfl
  | cons p rest ih =>
    have hp := h p (by simp)
    have : (p.ident != i) = false := by simp [hp]
    simp only [List.map_cons, checkItems, this, Bool.false_eq_true, if_false]
    rw [ih p.ident (fun a ha => by rw [h a (by simp [ha]), hp])]

theorem checkItems_ok_of_sameId (l : List IP) (h : SameId l) : checkItems none (l.map .ip) = .ok l := by
  cases l with
  | nil => rfl
  | cons p rest =>
    simp only [List.map_cons, checkItems, Bool.false_eq_true, if_false]
    rw [checkItems_some p.ident rest (fun a ha => h a (by simp [ha]) p (by simp))]

/-- what an accepted list looks like -/
theorem checkItems_ok (i : Option Nat) (items : List Item) (ps : List IP) (h : checkItems i items = .ok ps) :
    items = ps.map .ip ∧ (∀ j, i = some j → ∀ a ∈ ps, a.ident = j) ∧ SameId ps := by
  induction items generalizing i ps with
  | nil => simp [checkItems] at h; subst h; simp [SameId]
  | cons it rest ih =>
    cases it with
    | other => simp [checkItems] at h
    | ip p =>
      -- the recursive call, and what the identification check says
      have key : ∀ (hok : ∀ j, i = some j → p.ident = j)
          (hrec : (match checkItems (some p.ident) rest with
                   | .ok qs => (.ok (p :: qs) : R (List IP))
                   | .error e => .error e) = .ok ps),
          Item.ip p :: rest = ps.map .ip ∧ (∀ j, i = some j → ∀ a ∈ ps, a.ident = j) ∧ SameId ps := by
        intro hok hrec
        cases hr : checkItems (some p.ident) rest with
        | error e => simp [hr] at hrec
        | ok qs =>
          simp only [hr, Except.ok.injEq] at hrec
          subst hrec
          obtain ⟨h1, h2, _⟩ := ih _ _ hr
          have hall := h2 p.ident rfl
          refine ⟨by simp [h1], ?_, ?_⟩
          · intro j hj a ha
            have hpj := hok j hj
            rcases List.mem_cons.1 ha with rfl | ha
            · exact hpj
            · rw [hall a ha, hpj]
          · intro a ha b hb
            have ea : a.ident = p.ident := by
              rcases List.mem_cons.1 ha with rfl | ha
              · rfl
              · exact hall a ha
            have eb : b.ident = p.ident := by
              rcases List.mem_cons.1 hb with rfl | hb
              · rfl
              · exact hall b hb
            rw [ea, eb]
      cases i with
      | none =>
        simp only [checkItems, Bool.false_eq_true, if_false] at h
        exact key (fun j hj => by simp at hj) h
      | some j =>
        by_cases hj : p.ident = j
        · have hb : (p.ident != j) = false := by simp [hj]
          simp only [checkItems, hb, Bool.false_eq_true, if_false] at h
          exact key (fun j' hj' => by simp at hj'; rw [← hj', hj]) h
        · have hb : (p.ident != j) = true := by simp [hj]
          simp [checkItems, hb] at h

theorem SameId_perm {l₁ l₂ : List IP} (hp : l₁.Perm l₂) (h : SameId l₁) : SameId l₂ :=
  fun a ha b hb => h a (hp.mem_iff.2 ha) b (hp.mem_iff.2 hb)

/-! fragments cut from a payload -/

/-- the fragments carrying the given pieces one after the other from byte offset `off`; every fragment has its
    own header fields -/
def mkFrags : List (IP × Bytes) → Nat → List IP
  | [], _ => []
  | (h, p) :: rest, off => { h with fragment_offset := off, payload := p } :: mkFrags rest (off + p.length)

theorem mkFrags_ge (l : List (IP × Bytes)) (off : Nat) : ∀ f ∈ mkFrags l off, off ≤ f.fragment_offset := by
  induction l generalizing off with
  | nil => simp [mkFrags]
  | cons hp rest ih =>
    obtain ⟨h, p⟩ := hp
    intro f hf
    simp only [mkFrags, List.mem_cons] at hf
    rcases hf with rfl | hf
    · simp
    · have := ih _ f hf; omega

/-- every piece but the last is non-empty (cuts at positive multiples of 8 are): strictly ascending offsets -/
theorem mkFrags_sorted (l : List (IP × Bytes)) (off : Nat) (hne : ∀ hp ∈ l.dropLast, hp.2 ≠ []) :
    (mkFrags l off).Pairwise fun a b => a.fragment_offset < b.fragment_offset := by
  induction l generalizing off with
  | nil => simp [mkFrags]
  | cons hp rest ih =>
    obtain ⟨h, p⟩ := hp
    simp only [mkFrags, List.pairwise_cons]
    constructor
    · intro f hf
      have hge := mkFrags_ge rest _ f hf
      cases rest with
      | nil => simp [mkFrags] at hf
      | cons r rs =>
        have : p ≠ [] := hne (h, p) (by simp [List.dropLast])
        have : 0 < p.length := List.length_pos_iff.2 this
        omega
    · apply ih
      intro x hx
      apply hne x
      cases rest with
      | nil => simp [List.dropLast] at hx
      | cons r rs => simp only [List.dropLast_cons₂, List.mem_cons]; exact Or.inr hx

theorem mkFrags_payload (l : List (IP × Bytes)) (off : Nat) :
    (mkFrags l off).flatMap (·.payload) = (l.map (·.2)).flatten := by
  induction l generalizing off with
  | nil => rfl
  | cons hp rest ih =>
    obtain ⟨h, p⟩ := hp
    simp [mkFrags, ih]

end Acra.Lemmas.Reassembly
