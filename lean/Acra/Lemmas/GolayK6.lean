/- Kernel evaluation, part 6: the row-XOR encoder with the regenerated G_P is the extended Golay code
   of the Spec (cyclic (23,12) code with g(x) = 0xC75 plus overall parity) on all 4096 values. -/
import Acra.Lemmas.GolayBase
import Acra.Spec.Chapter7
namespace Acra.Lemmas.Golay
open Acra.Model.Golay

set_option maxRecDepth 100000 in
theorem encodeEntry_spec : ∀ x, x < 4096 → encodeEntry x = Spec.Golay.encode x := by decide +kernel

end Acra.Lemmas.Golay
