/-
  `MPEGPacketPMT.unpack` on an ARBITRARY section — no assumption on the two steering fields `section_length` and
  `program_info_length` (C07, rev1 B2).  `Lemmas/MpegFlip.lean` (`PMT_unpack_reduce`) needs the two fields to be
  consistent with the bytes that follow; here they are whatever the twelve header bytes say, and the Python slices clamp.

  Result (`sectionResultAny_ok`, `PMT_any_section`): whatever the section bytes are, IF the decoder returns a value it is

      "the four bytes that end where `section_length` says the section ends (clamped to the packet)  ==
       CRC-32/MPEG-2 of the bytes from `table_id` up to `section_length − 1` (clamped)"

  — `steerCoincides`, a decidable function of the bytes.  A change of `section_length` moves both operands, so no CRC
  argument applies: the decoder is fooled exactly when the comparison happens to hold at the moved position.
-/
import Acra.Lemmas.MpegFlip
namespace Acra.Lemmas.MpegSteer
open Acra.Py Acra.Model.MPEGTS Acra.Model.PMT Acra.Gen.MPEGTS Acra.Gen.PMT
open Acra.Lemmas.MPEGTS Acra.Lemmas.PMT Acra.Lemmas.CRCMpeg Acra.Lemmas.MpegFlip

/-- `section_length` as the decoder reads it: low 12 bits of section bytes 1–2 -/
def fieldL (P : Bytes) : Nat := ((P.getD 1 0).toNat * 256 + (P.getD 2 0).toNat) % 4096

/-- `program_info_length` as the decoder reads it: low 12 bits of section bytes 10–11 -/
def fieldPil (P : Bytes) : Nat := ((P.getD 10 0).toNat * 256 + (P.getD 11 0).toNat) % 4096

/-- `stream_buf`: from the end of the descriptor loop to the end `section_length` designates (`P` = the section and
    whatever follows it in the packet; the slice clamps at the end of the packet) -/
def streamRange (P : Bytes) (L pil : Nat) : Bytes := slice P (12 + pil) (L + 3)

/-- `crc_buffer`: from `table_id` to four bytes before the designated end -/
def crcRange (P : Bytes) (L : Nat) : Bytes := slice P 0 (L - 1)

/-- the comparison the decoder ends in, as a function of the bytes: at least four bytes are left for the stored CRC and
    the LAST four bytes of `stream_buf`, big-endian, equal the CRC of `crc_buffer` -/
def steerCoincides (P : Bytes) (L pil : Nat) : Bool :=
  decide (4 ≤ (streamRange P L pil).length) &&
  (beNat ((streamRange P L pil).drop ((streamRange P L pil).length - 4)) == crc32mpeg2 (crcRange P L))

/-- the value `MPEGPacketPMT.unpack` returns once the base class has decoded the packet and the pointer field is 0,
    for an arbitrary payload `00 ‖ P` -/
def sectionResultAny (P : Bytes) : R Bool :=
  match (if 0 < fieldPil P then
      decDescs ((slice P 12 (12 + fieldPil P)).length + 1) (slice P 12 (12 + fieldPil P)) else .ok []) with
  | .error e => .error e
  | .ok _ =>
    if (crcRange P (fieldL P)).length = 0 then .error .index else
    match decStreams ((streamRange P (fieldL P) (fieldPil P)).length + 1) (streamRange P (fieldL P) (fieldPil P)) with
    | .error e => .error e
    | .ok (_, left) =>
      match structUnpack PMT_unpack_fmt0 left with
      | .error e => .error e
      | .ok [crc] => .ok (crc == crc32mpeg2 (crcRange P (fieldL P)))
      | .ok _ => .error .struct

theorem slice_cons_succ {α} (a : α) (l : List α) (lo hi : Nat) : slice (a :: l) (lo + 1) (hi + 1) = slice l lo hi := by
  simp [slice]

set_option maxRecDepth 8000 in
/-- **`MPEGPacketPMT.unpack` on an arbitrary section**: the base class decoded a payload `00 ‖ P` with at least the
    twelve fixed section bytes -/
theorem PMT_unpack_any (t : PMT) (buf : Bytes) (p : Pkt) (P : Bytes)
    (hp : Pkt.unpack t.pkt buf = (p, .ok ())) (hpl : p.payload = (0 : UInt8) :: P) (hP : 12 ≤ P.length) :
    (PMT.unpack t buf).2 = sectionResultAny P := by
  have hsplit : P = P.take 12 ++ P.drop 12 := (List.take_append_drop 12 P).symm
  have hH : (P.take 12).length = 12 := by simp; omega
  generalize P.drop 12 = W at hsplit
  obtain ⟨b0, b1, b2, b3, b4, b5, b6, b7, b8, b9, b10, b11, hHd⟩ := list12 (P.take 12) hH
  rw [hHd] at hsplit
  subst hsplit
  have hfL : fieldL ([b0, b1, b2, b3, b4, b5, b6, b7, b8, b9, b10, b11] ++ W) = (b1.toNat * 256 + b2.toNat) % 4096 := by
    simp [fieldL]
  have hfP : fieldPil ([b0, b1, b2, b3, b4, b5, b6, b7, b8, b9, b10, b11] ++ W) = (b10.toNat * 256 + b11.toNat) % 4096 := by
    simp [fieldPil]
  unfold PMT.unpack
  rw [hp]
  simp only [hpl]
  have hptr : structUnpackFrom PMT_FMT_POINTER ((0 : UInt8) :: ([b0, b1, b2, b3, b4, b5, b6, b7, b8, b9, b10, b11] ++ W)) 0
      = .ok [0] := by
    simp [structUnpackFrom, PMT_FMT_POINTER, Fmt.size, codesSize, Code.size, unpackCodes, decInt, beNat, leNat]
  have hfx : structUnpackFrom PMT_FMT ((0 : UInt8) :: ([b0, b1, b2, b3, b4, b5, b6, b7, b8, b9, b10, b11] ++ W)) (PMT_FMT_POINTER.size + 0)
      = .ok [b0.toNat, b1.toNat * 256 + b2.toNat, b3.toNat * 256 + b4.toNat, b5.toNat, b6.toNat, b7.toNat,
             b8.toNat * 256 + b9.toNat, b10.toNat * 256 + b11.toNat] := by
    simp [structUnpackFrom, PMT_FMT, PMT_FMT_POINTER, Fmt.size, codesSize, Code.size, unpackCodes, decInt, beNat, leNat]
    omega
  simp only [hptr, hfx]
  unfold sectionResultAny
  rw [hfL, hfP]
  clear hptr hfx hpl hfL hfP hHd hH hP
  generalize (b1.toNat * 256 + b2.toNat) % 4096 = L
  generalize (b10.toNat * 256 + b11.toNat) % 4096 = pil
  generalize [b0, b1, b2, b3, b4, b5, b6, b7, b8, b9, b10, b11] ++ W = P
  have hE : L + PMT_HDR_LEN_NOT_INCL_IN_LEN + (PMT_FMT.size + PMT_FMT_POINTER.size + 0 + pil) - PMT_FMT.size - pil = L + 4 := by
    simp only [PMT_HDR_LEN_NOT_INCL_IN_LEN, PMT_FMT, PMT_FMT_POINTER, Fmt.size, codesSize, Code.size]; omega
  have hdbuf : slice ((0 : UInt8) :: P) (PMT_FMT.size + PMT_FMT_POINTER.size + 0)
      (PMT_FMT.size + PMT_FMT_POINTER.size + 0 + pil) = slice P 12 (12 + pil) := by
    have e1 : PMT_FMT.size + PMT_FMT_POINTER.size + 0 = 12 + 1 := rfl
    have e2 : 12 + 1 + pil = (12 + pil) + 1 := by omega
    rw [e1, e2, slice_cons_succ]
  have hsbuf : slice ((0 : UInt8) :: P) (PMT_FMT.size + PMT_FMT_POINTER.size + 0 + pil) (L + 4) = streamRange P L pil := by
    have e1 : PMT_FMT.size + PMT_FMT_POINTER.size + 0 + pil = (12 + pil) + 1 := by
      have : PMT_FMT.size + PMT_FMT_POINTER.size + 0 = 13 := rfl
      omega
    have e2 : L + 4 = (L + 3) + 1 := rfl
    rw [e1, e2, slice_cons_succ]; rfl
  have hcrcbuf : slice ((0 : UInt8) :: P) (0 + PMT_FMT_POINTER.size) (L + 4 - PMT_CRC_LEN) = crcRange P L := by
    have e1 : 0 + PMT_FMT_POINTER.size = 0 + 1 := rfl
    have e2 : L + 4 - PMT_CRC_LEN = L := by simp [PMT_CRC_LEN]
    rw [e1, e2]
    cases L with
    | zero => simp [slice, crcRange]
    | succ k => rw [slice_cons_succ]; rfl
  simp only [hE, hdbuf, hsbuf, hcrcbuf]
  split
  · next heq => simp only [heq]
  · next heq =>
    simp only [heq]
    split
    · rfl
    · split
      · next heq2 => simp only [heq2]
      · next heq2 =>
        simp only [heq2]
        split
        · next heq3 => simp only [heq3]
        · next heq3 => simp only [heq3]
        · next hno heq3 =>
          simp only [heq3]

/-- **whenever the decoder returns, it returns `steerCoincides`** — for every section, whatever its steering fields -/
theorem sectionResultAny_ok (P : Bytes) (b : Bool) (hb : sectionResultAny P = .ok b) :
    b = steerCoincides P (fieldL P) (fieldPil P) := by
  unfold sectionResultAny at hb
  split at hb
  · simp at hb
  · split at hb
    · simp at hb
    · split at hb
      · simp at hb
      · rename_i ss left hdec
        obtain ⟨hl4, n, hn⟩ := decStreams_left _ _ _ _ hdec
        split at hb
        · simp at hb
        · rename_i crc hcrc
          have hl := structUnpack_ok_length _ _ _ hcrc
          have hl' : left.length = 4 := by simpa [PMT_unpack_fmt0, Fmt.size, codesSize, Code.size] using hl
          have hlen := congrArg List.length hn
          simp only [List.length_drop, hl'] at hlen
          have hn' : n = (streamRange P (fieldL P) (fieldPil P)).length - 4 := by omega
          have h4 : 4 ≤ (streamRange P (fieldL P) (fieldPil P)).length := by omega
          simp only [structUnpack, hl, if_true, PMT_unpack_fmt0, unpackCodes, Code.size, decInt, Except.ok.injEq,
            List.cons.injEq, and_true] at hcrc
          rw [List.take_of_length_le (by omega)] at hcrc
          injection hb with hb
          rw [← hb, ← hcrc, hn, hn']
          simp [steerCoincides, h4]
        · simp at hb

/-- header, adaptation bytes and pointer field of the packet `pack s` emits, followed by ANY section bytes `P` -/
theorem PMT_any_section (s t : PMT) (h : PMT_WF s) (hs : s.pkt.sync = 0x47)
    (hafc : s.pkt.adaption_ctrl = 1 ∨ s.pkt.adaption_ctrl = 3) (P : Bytes) (hP : 12 ≤ P.length) (b : Bool)
    (hb : (PMT.unpack t ((Pkt_hdr (PMT_pkt s) ++ Pkt_af (PMT_pkt s) ++ [0]) ++ P)).2 = .ok b) :
    b = steerCoincides P (fieldL P) (fieldPil P) := by
  have hwp : Pkt_WF (PMT_pkt s) := h.1
  have h2af : (PMT_pkt s).adaption_ctrl = 2 → (PMT_pkt s).adaption_field.isSome = true := by
    intro c; have : s.pkt.adaption_ctrl = 2 := c; omega
  have hafc' : (PMT_pkt s).adaption_ctrl = 1 ∨ (PMT_pkt s).adaption_ctrl = 3 := hafc
  have hbuf : (Pkt_hdr (PMT_pkt s) ++ Pkt_af (PMT_pkt s) ++ [0]) ++ P =
      Pkt_hdr (PMT_pkt s) ++ (Pkt_af (PMT_pkt s) ++ ((0 : UInt8) :: P)) := by
    simp [List.append_assoc]
  rw [hbuf] at hb
  have hp := Pkt_unpack_tail (PMT_pkt s) t.pkt ((0 : UInt8) :: P) hwp hs h2af
  have hpl : (Pkt_decodedT (PMT_pkt s) ((0 : UInt8) :: P)).payload = (0 : UInt8) :: P := by
    simp only [Pkt_decodedT, if_pos hafc']
  rw [PMT_unpack_any t _ _ P hp hpl hP] at hb
  exact sectionResultAny_ok P b hb

/-- CRC-free: when `section_length` ends the section before the descriptor loop plus four CRC bytes, the comparison is
    never reached with four bytes (the decoder raises `struct.error`) -/
theorem steerCoincides_short (P : Bytes) (L pil : Nat) (h : L < 13 + pil) : steerCoincides P L pil = false := by
  have : (streamRange P L pil).length < 4 := by
    simp only [streamRange, slice_length]; omega
  simp only [steerCoincides, Bool.and_eq_false_iff, decide_eq_false_iff_not]
  left; omega

/-- `section_length` intact, `program_info_length` arbitrary: the comparison is the one of the untouched CRC position
    against the CRC of the twelve header bytes AS THEY NOW ARE followed by the untouched loop bytes -/
theorem steerCoincides_same_L (Hd X C R : Bytes) (pil : Nat) (hH : Hd.length = 12) (hC : C.length = 4)
    (h : steerCoincides (Hd ++ (X ++ (C ++ R))) (13 + X.length) pil = true) :
    beNat C = crc32mpeg2 (Hd ++ X) := by
  simp only [steerCoincides, Bool.and_eq_true, decide_eq_true_eq, beq_iff_eq] at h
  obtain ⟨h4, he⟩ := h
  have htake : List.take (13 + X.length + 3) (Hd ++ (X ++ (C ++ R))) = Hd ++ (X ++ C) := by
    have : Hd ++ (X ++ (C ++ R)) = (Hd ++ (X ++ C)) ++ R := by simp [List.append_assoc]
    rw [this]
    exact take_append_len _ _ _ (by simp [hH, hC]; omega)
  have hsr : streamRange (Hd ++ (X ++ (C ++ R))) (13 + X.length) pil = (Hd ++ (X ++ C)).drop (12 + pil) := by
    simp only [streamRange, slice, htake]
  have hcr : crcRange (Hd ++ (X ++ (C ++ R))) (13 + X.length) = Hd ++ X := by
    simp only [crcRange, slice, List.drop_zero]
    have : Hd ++ (X ++ (C ++ R)) = (Hd ++ X) ++ (C ++ R) := by simp [List.append_assoc]
    rw [this]
    exact take_append_len _ _ _ (by simp [hH])
  rw [hsr, hcr] at he
  rw [hsr] at h4
  rw [← he, List.drop_drop]
  simp only [List.length_drop, List.length_append, hH, hC] at h4 ⊢
  have e : 12 + pil + (12 + (X.length + 4) - (12 + pil) - 4) = (Hd ++ X).length := by
    simp [hH]; omega
  rw [e]
  have : Hd ++ (X ++ C) = (Hd ++ X) ++ C := by simp [List.append_assoc]
  rw [this, List.drop_left' rfl]

/-! ### one changed byte inside a steering field of a packed PMT packet -/

theorem getD_append_lt {α} (A B : List α) (k : Nat) (d : α) (h : k < A.length) : (A ++ B).getD k d = A.getD k d := by
  simp [List.getD_eq_getElem?_getD, List.getElem?_append_left h]

/-- the packed packet with one byte of the twelve fixed section bytes replaced: the frame, the new twelve bytes, and
    the untouched rest -/
theorem PMT_fixed_byte_split (s : PMT) (pre suf : Bytes) (a : UInt8)
    (hbuf : Pkt_bytes (PMT_pkt s) = pre ++ a :: suf)
    (hlo : PMT_secOff s ≤ pre.length) (hhi : pre.length < PMT_secOff s + 12) :
    ∃ pre2 suf1, pre = (Pkt_hdr (PMT_pkt s) ++ Pkt_af (PMT_pkt s) ++ [0]) ++ pre2 ∧
      suf = suf1 ++ (PMT_loops s ++ (PMT_crc4 s ++ Pkt_stuffing (PMT_pkt s))) ∧
      PMT_hdr s = pre2 ++ a :: suf1 ∧ pre2.length + PMT_secOff s = pre.length := by
  rw [PMT_bytes_parts s] at hbuf
  have hFl : (Pkt_hdr (PMT_pkt s) ++ Pkt_af (PMT_pkt s) ++ [0]).length = PMT_secOff s := by
    simp [PMT_secOff]; omega
  obtain ⟨pre2, rfl, hsec⟩ := split_right _ _ pre suf a hbuf (by omega)
  simp only [List.length_append, hFl] at hlo hhi
  obtain ⟨suf1, hHd, rfl⟩ := split_left _ _ pre2 suf a hsec (by rw [PMT_hdr_length]; omega)
  exact ⟨pre2, suf1, rfl, rfl, hHd, by simp only [List.length_append, hFl]; omega⟩

/-- **`program_info_length` corrupted** (section byte 10 or 11 replaced by ANY other value): the decoder never
    returns True.  `section_length` is intact, so the CRC is still read at its place and computed over the twelve
    header bytes as they now are followed by the untouched loops — and those differ from the original in one byte. -/
theorem PMT_pil_byte_rejected (s t : PMT) (h : PMT_WF s) (hs : s.pkt.sync = 0x47)
    (hafc : s.pkt.adaption_ctrl = 1 ∨ s.pkt.adaption_ctrl = 3)
    (pre suf : Bytes) (a a' : UInt8) (hbuf : Pkt_bytes (PMT_pkt s) = pre ++ a :: suf) (hne : a ≠ a')
    (hpos : pre.length = PMT_secOff s + 10 ∨ pre.length = PMT_secOff s + 11)
    (b : Bool) (hb : (PMT.unpack t (pre ++ a' :: suf)).2 = .ok b) : b = false := by
  obtain ⟨pre2, suf1, rfl, rfl, hHd, hpl⟩ := PMT_fixed_byte_split s pre suf a hbuf (by omega) (by omega)
  obtain ⟨hst1, _⟩ := PMT_hdr_steer s h
  have hLL := PMT_loops_length s
  have hHl := PMT_hdr_length s
  have hCl : (PMT_crc4 s).length = 4 := by simp [PMT_crc4]
  have hlen' : (pre2 ++ a' :: suf1).length = 12 := by
    have := congrArg List.length hHd; simp [hHl] at this ⊢; omega
  have hp2 : pre2.length = 10 ∨ pre2.length = 11 := by omega
  have hb' : (PMT.unpack t ((Pkt_hdr (PMT_pkt s) ++ Pkt_af (PMT_pkt s) ++ [0]) ++
      ((pre2 ++ a' :: suf1) ++ (PMT_loops s ++ (PMT_crc4 s ++ Pkt_stuffing (PMT_pkt s)))))).2 = .ok b := by
    simpa [List.append_assoc] using hb
  have hres := PMT_any_section s t h hs hafc _ (by simp only [List.length_append, hlen']; omega) b hb'
  have hfL : fieldL ((pre2 ++ a' :: suf1) ++ (PMT_loops s ++ (PMT_crc4 s ++ Pkt_stuffing (PMT_pkt s)))) =
      13 + (PMT_loops s).length := by
    unfold fieldL
    rw [getD_append_lt _ _ 1 0 (by omega), getD_append_lt _ _ 2 0 (by omega),
      getD_changed_ne pre2 suf1 a a' 0 1 (by omega), getD_changed_ne pre2 suf1 a a' 0 2 (by omega), ← hHd, hst1, hLL]
  rw [hfL] at hres
  cases b with
  | false => rfl
  | true =>
    exfalso
    have hc := steerCoincides_same_L _ _ _ _ _ hlen' hCl hres.symm
    have hcrc0 : beNat (PMT_crc4 s) = crc32mpeg2 (PMT_hdr s ++ PMT_loops s) := by
      have : crc32mpeg2 (PMT_body s) < 256 ^ 4 := by unfold crc32mpeg2; omega
      have e : PMT_body s = PMT_hdr s ++ PMT_loops s := rfl
      rw [← e]
      simp only [PMT_crc4, encInt, if_true]
      exact beNat_beBytes_of_lt 4 _ this
    rw [hcrc0, hHd] at hc
    have hd := crc_detects_byte pre2 (suf1 ++ PMT_loops s) a a' hne
    simp only [List.append_assoc, List.cons_append] at hd hc
    exact hd hc

/-- **`section_length` corrupted** (section byte 1 or 2 replaced): if the decoder returns a value, it is the comparison
    at the MOVED position — `steerCoincides` on the corrupted section, with the new `section_length` and the intact
    `program_info_length` -/
theorem PMT_slen_byte_result (s t : PMT) (h : PMT_WF s) (hs : s.pkt.sync = 0x47)
    (hafc : s.pkt.adaption_ctrl = 1 ∨ s.pkt.adaption_ctrl = 3)
    (pre suf : Bytes) (a a' : UInt8) (hbuf : Pkt_bytes (PMT_pkt s) = pre ++ a :: suf)
    (hpos : pre.length = PMT_secOff s + 1 ∨ pre.length = PMT_secOff s + 2)
    (b : Bool) (hb : (PMT.unpack t (pre ++ a' :: suf)).2 = .ok b) :
    b = steerCoincides ((pre ++ a' :: suf).drop (PMT_secOff s))
          (fieldL ((pre ++ a' :: suf).drop (PMT_secOff s))) (PMT_dbytes s).length := by
  obtain ⟨pre2, suf1, rfl, rfl, hHd, hpl⟩ := PMT_fixed_byte_split s pre suf a hbuf (by omega) (by omega)
  obtain ⟨_, hst2⟩ := PMT_hdr_steer s h
  have hHl := PMT_hdr_length s
  have hFl : (Pkt_hdr (PMT_pkt s) ++ Pkt_af (PMT_pkt s) ++ [0]).length = PMT_secOff s := by
    simp [PMT_secOff]; omega
  have hlen' : (pre2 ++ a' :: suf1).length = 12 := by
    have := congrArg List.length hHd; simp [hHl] at this ⊢; omega
  have hp2 : pre2.length = 1 ∨ pre2.length = 2 := by omega
  have hb' : (PMT.unpack t ((Pkt_hdr (PMT_pkt s) ++ Pkt_af (PMT_pkt s) ++ [0]) ++
      ((pre2 ++ a' :: suf1) ++ (PMT_loops s ++ (PMT_crc4 s ++ Pkt_stuffing (PMT_pkt s)))))).2 = .ok b := by
    simpa [List.append_assoc] using hb
  have hres := PMT_any_section s t h hs hafc _ (by simp only [List.length_append, hlen']; omega) b hb'
  have hdrop : ((Pkt_hdr (PMT_pkt s) ++ Pkt_af (PMT_pkt s) ++ [0]) ++ pre2 ++
      a' :: (suf1 ++ (PMT_loops s ++ (PMT_crc4 s ++ Pkt_stuffing (PMT_pkt s))))).drop (PMT_secOff s) =
      (pre2 ++ a' :: suf1) ++ (PMT_loops s ++ (PMT_crc4 s ++ Pkt_stuffing (PMT_pkt s))) := by
    rw [List.append_assoc (Pkt_hdr (PMT_pkt s) ++ Pkt_af (PMT_pkt s) ++ [0])]
    rw [drop_append_len _ _ _ hFl.symm]
    simp [List.append_assoc]
  have hfP : fieldPil ((pre2 ++ a' :: suf1) ++ (PMT_loops s ++ (PMT_crc4 s ++ Pkt_stuffing (PMT_pkt s)))) =
      (PMT_dbytes s).length := by
    unfold fieldPil
    rw [getD_append_lt _ _ 10 0 (by omega), getD_append_lt _ _ 11 0 (by omega),
      getD_changed_ne pre2 suf1 a a' 0 10 (by omega), getD_changed_ne pre2 suf1 a a' 0 11 (by omega), ← hHd, hst2]
  rw [hdrop, ← hfP]
  exact hres

end Acra.Lemmas.MpegSteer
