/-
  Chapter 7, part 10: mixed traffic, packet level —
  * the normal PTDPs of a mixed packet sequence are the PTDPs of its normal packets; under
    `NoLLPOverflow` with L ≤ 2047 every low-latency packet is one COMPLETE PTDP (a 2048-byte fragment
    can never fit with its continuation byte);
  * fragment reassembly of what the consumer loop collects from mixed frames (`mixPtdps`): per frame
    the low-latency packets, flagged, then the normal packets completed by that frame (`mixPkts`);
  * `decap_encap_mix`: decap ∘ encap for mixed traffic.
-/
import Acra.Lemmas.Chapter7Llp3
import Acra.Lemmas.Chapter7Asm
namespace Acra.Lemmas.Chapter7
open Acra.Py Acra.Model Acra.Model.Chapter7 Acra.Gen.Chapter7
open Acra.Spec.Ch7 (offset startsAux)

/-! ### packets and PTDPs -/

/-- the normal packets of a mixed sequence, in order -/
def normalPkts (pkts : List (Bytes × Bool)) : List Bytes := (pkts.filter fun p => !p.2).map (·.1)
/-- the low-latency packets of a mixed sequence, in order -/
def llpPkts (pkts : List (Bytes × Bool)) : List Bytes := (pkts.filter fun p => p.2).map (·.1)

theorem ptdpsOf_canon' (b : Bytes) (llp : Bool) :
    ∀ p ∈ ptdpsOf b llp, PTDP_WF p ∧ p.low_latency = llp ∧ p.length = p.payload.length := by
  intro p hp
  have h := ptdpsOf_wf b llp p hp
  refine ⟨h.1, h.2, ?_⟩
  unfold ptdpsOf at hp
  split at hp
  · simp only [List.mem_singleton] at hp; subst hp; rfl
  · rename_i hgt
    simp only [PTDP_MAX_LEN] at hgt hp
    rw [fragmentsFrom_eq b llp _ (by omega) _ 0 (by omega)] at hp
    simp only [List.mem_map] at hp
    obtain ⟨i, _, rfl⟩ := hp
    rfl

theorem normalOf_append (a b : List PTDP.State) : normalOf (a ++ b) = normalOf a ++ normalOf b := by
  simp [normalOf]
theorem llpOf_append (a b : List PTDP.State) : llpOf (a ++ b) = llpOf a ++ llpOf b := by
  simp [llpOf]

theorem datapktsToPtdp_cons (p : Bytes × Bool) (r : List (Bytes × Bool)) :
    datapktsToPtdp (p :: r) = ptdpsOf p.1 p.2 ++ datapktsToPtdp r := by
  simp [datapktsToPtdp]

theorem normalOf_ptdpsOf (b : Bytes) (llp : Bool) :
    normalOf (ptdpsOf b llp) = if llp then [] else ptdpsOf b false := by
  cases llp with
  | true =>
    simp only [normalOf, if_true, List.filter_eq_nil_iff]
    intro q hq; simp [(ptdpsOf_wf b true q hq).2]
  | false =>
    simp only [normalOf, Bool.false_eq_true, if_false, List.filter_eq_self]
    intro q hq; simp [(ptdpsOf_wf b false q hq).2]

theorem llpOf_ptdpsOf (b : Bytes) (llp : Bool) :
    llpOf (ptdpsOf b llp) = if llp then ptdpsOf b true else [] := by
  cases llp with
  | true =>
    simp only [llpOf, if_true, List.filter_eq_self]
    intro q hq; simp [(ptdpsOf_wf b true q hq).2]
  | false =>
    simp only [llpOf, Bool.false_eq_true, if_false, List.filter_eq_nil_iff]
    intro q hq; simp [(ptdpsOf_wf b false q hq).2]

/-- the normal PTDPs of a mixed sequence are the PTDPs of its normal packets -/
theorem normalOf_datapkts (pkts : List (Bytes × Bool)) :
    normalOf (datapktsToPtdp pkts) = ptdps (normalPkts pkts) := by
  induction pkts with
  | nil => simp [normalOf, datapktsToPtdp, ptdps, normalPkts, normal]
  | cons p r ih =>
    rw [datapktsToPtdp_cons, normalOf_append, ih, normalOf_ptdpsOf]
    obtain ⟨b, llp⟩ := p
    cases llp with
    | true => simp [normalPkts]
    | false => simp [normalPkts, ptdps, normal, datapktsToPtdp]

/-- a low-latency packet as one COMPLETE PTDP -/
def llpPtdp (b : Bytes) : PTDP.State := mkPtdp true PTDP_FRAGMENT_COMPLETE b

/-- when every low-latency PTDP is shorter than 2048 bytes, every low-latency packet is one COMPLETE PTDP -/
theorem llpOf_datapkts (pkts : List (Bytes × Bool))
    (hsz : ∀ q ∈ llpOf (datapktsToPtdp pkts), q.payload.length < 2048) :
    llpOf (datapktsToPtdp pkts) = (llpPkts pkts).map llpPtdp := by
  induction pkts with
  | nil => simp [llpOf, datapktsToPtdp, llpPkts]
  | cons p r ih =>
    rw [datapktsToPtdp_cons, llpOf_append] at hsz ⊢
    rw [ih (fun q hq => hsz q (by simp [hq])), llpOf_ptdpsOf]
    obtain ⟨b, llp⟩ := p
    cases llp with
    | false => simp [llpPkts]
    | true =>
      simp only [if_true]
      have hb : b.length ≤ 2048 := by
        refine Decidable.byContradiction fun hgt => ?_
        have hn : b.length ≤ 2048 * ((b.length + 2047) / 2048) := by omega
        have hmem : fragOf b true ((b.length + 2047) / 2048) 0 ∈ ptdpsOf b true := by
          unfold ptdpsOf
          rw [if_neg (by simp only [PTDP_MAX_LEN]; omega)]
          simp only [PTDP_MAX_LEN]
          rw [show b.length + 2048 - 1 = b.length + 2047 by omega,
            fragmentsFrom_eq b true _ hn _ 0 (by omega), List.mem_map]
          exact ⟨0, by simp [List.mem_range']; omega, rfl⟩
        have := hsz _ (by
          rw [llpOf_ptdpsOf]
          simp only [if_true, List.mem_append]
          exact Or.inl hmem)
        simp only [fragOf, mkPtdp, slice_length] at this
        omega
      have : ptdpsOf b true = [llpPtdp b] := by simp [ptdpsOf, PTDP_MAX_LEN, hb, llpPtdp]
      rw [this]
      simp [llpPkts]

theorem mem_llpOrder (lls : List (List PTDP.State)) (ll l : List PTDP.State) (q : PTDP.State)
    (hl : l ∈ lls) (hq : q ∈ l) : q ∈ llpOrder lls ll := by
  simp only [llpOrder, List.mem_append, List.mem_flatten, List.mem_map]
  exact Or.inl ⟨l.reverse, ⟨l, hl, rfl⟩, by simpa using hq⟩

/-! ### reassembly of interleaved PTDPs -/

theorem asmStep_llp_complete (a : Asm) (q : PTDP.State) (hq : q.fragment = PTDP_FRAGMENT_COMPLETE) :
    asmStep a (asLlp q) = { a with done := a.done ++ [(q.payload, true)] } := by
  simp [asmStep, asLlp, hq]

theorem asmFold_llp_complete (l : List PTDP.State) (hl : ∀ q ∈ l, q.fragment = PTDP_FRAGMENT_COMPLETE) (a : Asm) :
    (l.map asLlp).foldl asmStep a = { a with done := a.done ++ l.map fun q => (q.payload, true) } := by
  induction l generalizing a with
  | nil => simp
  | cons q r ih =>
    simp only [List.map_cons, List.foldl_cons]
    rw [asmStep_llp_complete a q (hl q (by simp)), ih (fun x hx => hl x (by simp [hx]))]
    simp

/-- a normal PTDP acts on the normal channel only, and what it appends to `done` depends on that channel only -/
theorem asmStep_normal_rel (a a' : Asm) (p : PTDP.State) (hll : p.low_latency = false) (hn : a.normal = a'.normal) :
    ∃ e, (asmStep a p).done = a.done ++ e ∧ (asmStep a' p).done = a'.done ++ e ∧
      (asmStep a p).normal = (asmStep a' p).normal := by
  unfold asmStep
  simp only [hll, Bool.false_eq_true, if_false]
  split
  · exact ⟨[(p.payload, false)], rfl, rfl, hn⟩
  · split
    · exact ⟨[], by simp, by simp, rfl⟩
    · split
      · exact ⟨[], by simp, by simp, by simp [hn]⟩
      · rw [← hn]
        cases a.normal with
        | none => exact ⟨[], by simp, by simp, hn⟩
        | some b => exact ⟨[(b ++ p.payload, false)], rfl, rfl, rfl⟩

theorem asmFold_normal_rel (xs : List PTDP.State) (hxs : ∀ p ∈ xs, p.low_latency = false) :
    ∀ (a a' : Asm), a.normal = a'.normal →
      ∃ e, (xs.foldl asmStep a).done = a.done ++ e ∧ (xs.foldl asmStep a').done = a'.done ++ e ∧
        (xs.foldl asmStep a).normal = (xs.foldl asmStep a').normal := by
  induction xs with
  | nil => intro a a' hn; exact ⟨[], by simp, by simp, hn⟩
  | cons p r ih =>
    intro a a' hn
    obtain ⟨e1, h1, h2, h3⟩ := asmStep_normal_rel a a' p (hxs p (by simp)) hn
    obtain ⟨e2, g1, g2, g3⟩ := ih (fun x hx => hxs x (by simp [hx])) (asmStep a p) (asmStep a' p) h3
    refine ⟨e1 ++ e2, ?_, ?_, g3⟩
    · simp only [List.foldl_cons]; rw [g1, h1, List.append_assoc]
    · simp only [List.foldl_cons]; rw [g2, h2, List.append_assoc]

theorem pktDone_le (pkts : List Bytes) (c : Nat) : pktDone pkts c ≤ pkts.length := by
  induction pkts generalizing c with
  | nil => simp [pktDone]
  | cons b r ih =>
    simp only [pktDone]
    split
    · have := ih (c - (pktEnc b).flatten.length); simp only [List.length_cons]; omega
    · omega

theorem pktDone_mono (pkts : List Bytes) (c c' : Nat) (h : c ≤ c') : pktDone pkts c ≤ pktDone pkts c' := by
  induction pkts generalizing c c' with
  | nil => simp [pktDone]
  | cons b r ih =>
    simp only [pktDone]
    by_cases h1 : (pktEnc b).flatten.length ≤ c
    · have h2 : (pktEnc b).flatten.length ≤ c' := by omega
      simp only [h1, h2, if_true]
      have := ih (c - (pktEnc b).flatten.length) (c' - (pktEnc b).flatten.length) (by omega); omega
    · simp only [h1, if_false]; omega

theorem pktEnc_pos (b : Bytes) : 0 < (pktEnc b).flatten.length := by
  have hne : ptdpsOf b false ≠ [] := by
    unfold ptdpsOf
    split
    · simp
    · rename_i h
      simp only [PTDP_MAX_LEN] at h ⊢
      obtain ⟨m, hm⟩ : ∃ m, (b.length + 2048 - 1) / 2048 = m + 1 := ⟨(b.length + 2048 - 1) / 2048 - 1, by omega⟩
      rw [hm]
      simp [fragmentsFrom]
  obtain ⟨p, r, hp⟩ := List.exists_cons_of_ne_nil hne
  simp only [pktEnc, hp, List.map_cons, List.flatten_cons, List.length_append, encB_length]
  omega

theorem pktDone_zero (pkts : List Bytes) : pktDone pkts 0 = 0 := by
  cases pkts with
  | nil => rfl
  | cons b r =>
    have := pktEnc_pos b
    have h : ¬ (pktEnc b).flatten.length ≤ 0 := by omega
    simp only [pktDone, h, if_false]

/-- what the consumer has after reassembly: per frame, the low-latency packets it holds (flagged), then
    the normal packets whose last byte lies in that frame -/
def mixPkts (L : Nat) (npkts : List Bytes) : Nat → List (List PTDP.State) → List (Bytes × Bool)
  | _, [] => []
  | c, ll :: r =>
    (ll.map fun q => (q.payload, true)) ++
      normal ((npkts.take (pktDone npkts (c + cap L ll))).drop (pktDone npkts c)) ++
      mixPkts L npkts (c + cap L ll) r

/-- the reassembler's state after the first `d` normal PTDPs alone -/
def asmAt (npkts : List Bytes) (c : Nat) : Asm :=
  ((ptdps npkts).take (doneCount (encs npkts) c)).foldl asmStep { normal := none, low := none, done := [] }

theorem asmAt_done (npkts : List Bytes) (c : Nat) :
    (asmAt npkts c).done = normal (npkts.take (pktDone npkts c)) := by
  have := asm_stream npkts c { normal := none, low := none, done := [] } rfl
  simpa [asmAt, ptdps, encs, normal] using this

theorem doneCount_zero (bs : List Bytes) (hne : ∀ b ∈ bs, b ≠ []) : doneCount bs 0 = 0 := by
  cases bs with
  | nil => rfl
  | cons b r =>
    have : 0 < b.length := List.length_pos_iff.2 (hne b (by simp))
    have h : ¬ b.length ≤ 0 := by omega
    simp [doneCount, h]

theorem asmAt_zero (npkts : List Bytes) : asmAt npkts 0 = { normal := none, low := none, done := [] } := by
  have : doneCount (encs npkts) 0 = 0 := doneCount_zero _ (by
    intro b hb; simp only [encs, List.mem_map] at hb; obtain ⟨p, _, rfl⟩ := hb; exact encB_ne p)
  simp [asmAt, this]

theorem asm_mix (L : Nat) (npkts : List Bytes) :
    ∀ (lls : List (List PTDP.State)) (c : Nat) (a : Asm),
      (∀ l ∈ lls, ∀ q ∈ l, q.fragment = PTDP_FRAGMENT_COMPLETE) →
      a.normal = (asmAt npkts c).normal →
      ((mixPtdps L (ptdps npkts) c lls).foldl asmStep a).done = a.done ++ mixPkts L npkts c lls := by
  intro lls
  induction lls with
  | nil => intro c a _ _; simp [mixPtdps, mixPkts]
  | cons ll r ih =>
    intro c a hc hn
    simp only [mixPtdps, mixPkts, List.foldl_append]
    rw [asmFold_llp_complete ll (hc ll (by simp))]
    -- the normal PTDPs completed by this frame
    have hmono := doneCount_mono ((ptdps npkts).map encB) c (c + cap L ll) (by omega)
    have hsplit : (ptdps npkts).take (doneCount ((ptdps npkts).map encB) (c + cap L ll)) =
        (ptdps npkts).take (doneCount ((ptdps npkts).map encB) c) ++
          ((ptdps npkts).take (doneCount ((ptdps npkts).map encB) (c + cap L ll))).drop
            (doneCount ((ptdps npkts).map encB) c) := by
      conv => lhs; rw [← List.take_append_drop (doneCount ((ptdps npkts).map encB) c)
        ((ptdps npkts).take (doneCount ((ptdps npkts).map encB) (c + cap L ll)))]
      rw [List.take_take, Nat.min_eq_left hmono]
    have hB : ∀ p ∈ ((ptdps npkts).take (doneCount ((ptdps npkts).map encB) (c + cap L ll))).drop
        (doneCount ((ptdps npkts).map encB) c), p.low_latency = false := by
      intro p hp
      exact (ptdps_wf' npkts p (List.mem_of_mem_take (List.mem_of_mem_drop hp))).2
    have hT : asmAt npkts (c + cap L ll) =
        (((ptdps npkts).take (doneCount ((ptdps npkts).map encB) (c + cap L ll))).drop
          (doneCount ((ptdps npkts).map encB) c)).foldl asmStep (asmAt npkts c) := by
      simp only [asmAt, encs]
      conv => lhs; rw [hsplit, List.foldl_append]
    obtain ⟨e, h1, h2, h3⟩ := asmFold_normal_rel _ hB (asmAt npkts c)
      { a with done := a.done ++ ll.map fun q => (q.payload, true) } (by simp [hn])
    rw [← hT] at h1 h3
    have he : e = normal ((npkts.take (pktDone npkts (c + cap L ll))).drop (pktDone npkts c)) := by
      rw [asmAt_done, asmAt_done] at h1
      have := congrArg (List.drop (pktDone npkts c)) h1
      rw [List.drop_left' (by simp [normal]; exact Nat.min_eq_left (pktDone_le npkts c))] at this
      rw [← this]; simp [normal, List.map_drop]
    rw [ih (c + cap L ll) _ (fun l hl => hc l (by simp [hl])) h3.symm, h2, he]
    simp [List.append_assoc]

/-! ### projections of `mixPkts` -/

theorem normal_filter_false (xs : List Bytes) : (normal xs).filter (fun q => !q.2) = normal xs := by
  simp [normal, List.filter_eq_self]
theorem normal_filter_true (xs : List Bytes) : (normal xs).filter (fun q => q.2) = [] := by
  simp [normal, List.filter_eq_nil_iff]

/-- the normal packets of `mixPkts`: in order, those completed between the first and the last cut -/
theorem mixPkts_normal (L : Nat) (npkts : List Bytes) (lls : List (List PTDP.State)) (c : Nat) :
    (mixPkts L npkts c lls).filter (fun q => !q.2) =
      normal ((npkts.take (pktDone npkts (cutAfter L c lls))).drop (pktDone npkts c)) := by
  induction lls generalizing c with
  | nil => simp [mixPkts, cutAfter, normal]
  | cons ll r ih =>
    simp only [mixPkts, cutAfter, List.filter_append, ih, normal_filter_false]
    have h0 : (ll.map fun q => (q.payload, true)).filter (fun q => !q.2) = [] := by
      simp [List.filter_eq_nil_iff]
    rw [h0, List.nil_append]
    have hm1 := pktDone_mono npkts c (c + cap L ll) (by omega)
    have hm2 := pktDone_mono npkts (c + cap L ll) (cutAfter L (c + cap L ll) r) (cutAfter_ge L r _)
    simp only [normal, ← List.map_append]
    congr 1
    generalize pktDone npkts c = k1 at *
    generalize pktDone npkts (c + cap L ll) = k2 at *
    generalize pktDone npkts (cutAfter L (c + cap L ll) r) = k3 at *
    have e1 : npkts.take k2 = (npkts.take k3).take k2 := by rw [List.take_take, Nat.min_eq_left hm2]
    rw [e1]
    conv => rhs; rw [← List.take_append_drop (k2 - k1) ((npkts.take k3).drop k1)]
    rw [List.drop_drop, List.take_drop]
    rw [show k1 + (k2 - k1) = k2 by omega]

/-- the low-latency packets of `mixPkts`: frame by frame -/
theorem mixPkts_llp (L : Nat) (npkts : List Bytes) (lls : List (List PTDP.State)) (c : Nat) :
    (mixPkts L npkts c lls).filter (fun q => q.2) = lls.flatten.map fun q => (q.payload, true) := by
  induction lls generalizing c with
  | nil => simp [mixPkts]
  | cons ll r ih =>
    simp only [mixPkts, List.filter_append, ih, normal_filter_true, List.flatten_cons, List.map_append,
      List.append_nil]
    congr 1
    simp [List.filter_eq_self]

/-! ### decap ∘ encap on mixed traffic -/

theorem mixFrames_wf (L sid : Nat) (hL2 : L ≤ 2047) (hs : sid < 16) (S : Bytes) (st : List Nat)
    (lls : List (List PTDP.State)) (c : Nat) (hfit : ∀ l ∈ lls, (llpBytes l).length ≤ L)
    (hc : cutAfter L c lls ≤ S.length) :
    ∀ f ∈ mixFrames L sid S st c lls, PTFR_WF f ∧ f.payload.length = L := by
  induction lls generalizing c with
  | nil => simp [mixFrames]
  | cons ll r ih =>
    intro f hf
    simp only [mixFrames, List.mem_cons, cutAfter] at hf hc
    have hge := cutAfter_ge L r (c + cap L ll)
    rcases hf with rfl | hf
    · exact mixFrame_wf L sid hL2 hs S st c ll (hfit ll (by simp)) (by omega)
    · exact ih (c + cap L ll) (fun l hl => hfit l (by simp [hl])) hc f hf

/-- decap ∘ encap, mixed traffic under `NoLLPOverflow` -/
theorem decap_encap_mix (pkts : List (Bytes × Bool)) (L sid : Nat) (hL : 0 < L) (hL2 : L ≤ 2047) (hs : sid < 16)
    (hno : NoLLPOverflow pkts L sid) :
    ∃ cur out lls ll, datapktsToPtfr pkts L sid = .ok (cur, out) ∧
      MixInv L sid (encs (normalPkts pkts)) lls ll cur out ∧
      llpOrder lls ll = (llpPkts pkts).map llpPtdp ∧
      (∀ b ∈ llpPkts pkts, b.length + 7 ≤ L) ∧
      (∀ f ∈ out, (PTFR.pack f).2 = .ok (wire f) ∧ f.payload.length = L) ∧
      decap L (out.map wire) =
        ({ ptdps := mixPtdps L (ptdps (normalPkts pkts)) 0 lls,
           rem := some (parseB ((stream (normalPkts pkts)).take (cutAfter L 0 lls))).2.1,
           first := lls.isEmpty }, none) ∧
      reassemble (mixPtdps L (ptdps (normalPkts pkts)) 0 lls) = mixPkts L (normalPkts pkts) 0 lls := by
  obtain ⟨cur, out, lls, ll, h, inv, hord, hsz⟩ := encap_mix pkts L sid hL hno
  rw [normalOf_datapkts] at inv
  have hllp := llpOf_datapkts pkts (fun q hq => by have := hsz q hq; omega)
  rw [hllp] at hord hsz
  have hqs : ∀ l ∈ lls, ∀ q ∈ l, ∃ b, q = llpPtdp b := by
    intro l hl q hq
    have := mem_llpOrder lls ll l q hl hq
    rw [hord, List.mem_map] at this
    obtain ⟨b, _, rfl⟩ := this
    exact ⟨b, rfl⟩
  have hS : (encs (normalPkts pkts)).flatten = stream (normalPkts pkts) := rfl
  have hwfs := mixFrames_wf L sid hL2 hs (encs (normalPkts pkts)).flatten (startsAux 0 (encs (normalPkts pkts)))
    lls 0 inv.fit inv.lo
  refine ⟨cur, out, lls, ll, h, inv, hord, ?_, ?_, ?_, ?_⟩
  · intro b hb
    have := hsz (llpPtdp b) (List.mem_map.2 ⟨b, hb, rfl⟩)
    simpa [llpPtdp, mkPtdp] using this
  · intro f hf
    rw [inv.out_eq] at hf
    exact ⟨pack_wire f (hwfs f hf).1, (hwfs f hf).2⟩
  · by_cases hn : lls = []
    · subst hn
      have : out = [] := by rw [inv.out_eq]; rfl
      subst this
      have h0 : parseB ([] : Bytes) = ([], [], false) :=
        parseB_remaining [] (by rw [ptdp_unpack_short _ _ (by simp)])
      simp [decap, decFold, mixPtdps, cutAfter, h0]
    · have hpos := inv.pos (inv.ne hn)
      have hfold := decFold_mix L sid hL hL2 hs (ptdps (normalPkts pkts))
        (fun p hp => by
          simp only [ptdps, datapktsToPtdp, normal, List.flatMap_map, List.mem_flatMap] at hp
          obtain ⟨b, _, hb⟩ := hp
          exact ptdpsOf_canon b p hb)
        lls 0 [] true
        (fun l hl => ⟨inv.fit l hl, fun q hq => by
          obtain ⟨b, rfl⟩ := hqs l hl q hq
          have := hsz (llpPtdp b) (by
            have := mem_llpOrder lls ll l _ hl hq
            rwa [hord] at this)
          refine ⟨by simp [llpPtdp, mkPtdp, PTDP_FRAGMENT_COMPLETE], by simp [llpPtdp, mkPtdp, PTDP_CONTENT_MAC], ?_⟩
          omega⟩)
        (by simpa [encs] using hpos) (fun _ => rfl)
      have h0 : parseB ([] : Bytes) = ([], [], false) :=
        parseB_remaining [] (by rw [ptdp_unpack_short _ _ (by simp)])
      simp only [List.take_zero, h0, List.nil_append, Bool.true_and] at hfold
      unfold decap
      rw [inv.out_eq]
      rw [hfold]
      rfl
  · unfold reassemble
    have := asm_mix L (normalPkts pkts) lls 0 { normal := none, low := none, done := [] }
      (fun l hl q hq => by obtain ⟨b, rfl⟩ := hqs l hl q hq; rfl)
      (by rw [asmAt_zero])
    simpa using this

end Acra.Lemmas.Chapter7
