/-
  CRC-32/MPEG-2 and the MISB 0601 running sum:
    * the library's `crc32mpeg2` (unbounded Python int, masked at the end) equals the bit-serial
      register definition of ISO 13818-1 Annex A (`Spec.MPEG.crc32mpeg2`);
    * two equal-length messages that differ in exactly one byte (a fortiori in one bit) have
      different CRCs (the byte step is injective in the register and in the byte — no polynomial
      algebra needed);
    * the library's `checksum_stanag` equals the MISB 16-bit big-endian word sum, and a change of
      one byte changes the sum.
-/
import Acra.Model.PMT
import Acra.Model.PES
import Acra.Spec.MPEG
namespace Acra.Lemmas.CRCMpeg
open Acra.Py Acra.Model.PMT Acra.Model.PES

def M : Nat := 4294967296
def poly : Nat := 0x04C11DB7

/-- one zero-input step of the 32-bit register -/
def step32 (r : Nat) : Nat :=
  if r / 2147483648 % 2 = 1 then (r * 2 % 4294967296) ^^^ 0x04C11DB7 else r * 2 % 4294967296

def iter (n : Nat) (r : Nat) : Nat := Nat.repeat step32 n r

def byte32 (r : Nat) (b : UInt8) : Nat := iter 8 (r ^^^ (b.toNat * 16777216))

theorem xor_cancel_right (a b c : Nat) (h : a ^^^ c = b ^^^ c) : a = b := by
  have := congrArg (· ^^^ c) h
  simpa [Nat.xor_assoc, Nat.xor_self] using this

theorem xor_lt32 (a b : Nat) (ha : a < 4294967296) (hb : b < 4294967296) : a ^^^ b < 4294967296 := by
  have := @Nat.xor_lt_two_pow a b 32 (by simpa using ha) (by simpa using hb)
  simpa using this

theorem step32_lt (r : Nat) : step32 r < 4294967296 := by
  unfold step32
  split
  · exact xor_lt32 _ _ (Nat.mod_lt _ (by decide)) (by decide)
  · exact Nat.mod_lt _ (by decide)

theorem iter_lt (n r : Nat) (h : r < 4294967296) : iter n r < 4294967296 := by
  induction n with
  | zero => simpa [iter, Nat.repeat] using h
  | succ n ih => simp only [iter, Nat.repeat] at ih ⊢; exact step32_lt _

/-- the unbounded step agrees with the register step modulo 2^32 -/
theorem crcShift_mod (c : Nat) : crcShift c % 4294967296 = step32 (c % 4294967296) := by
  unfold crcShift step32
  have h1 : c % 4294967296 / 2147483648 % 2 = c / 2147483648 % 2 := by omega
  rw [h1]
  split
  · have := @Nat.xor_mod_two_pow (c * 2) 0x04C11DB7 32
    simp only [show (2:Nat) ^ 32 = 4294967296 from rfl] at this
    rw [this]
    congr 1
    omega
  · omega

theorem crcByte_mod (c : Nat) (b : UInt8) : crcByte c b % 4294967296 = byte32 (c % 4294967296) b := by
  have hb := b.toNat_lt
  unfold crcByte byte32 iter
  simp only [Nat.repeat, crcShift_mod]
  have := @Nat.xor_mod_two_pow c (b.toNat * 16777216) 32
  simp only [show (2:Nat) ^ 32 = 4294967296 from rfl] at this
  rw [this]
  have : b.toNat * 16777216 % 4294967296 = b.toNat * 16777216 := by omega
  rw [this]

theorem byte32_lt (r : Nat) (b : UInt8) : byte32 r b < 4294967296 := by
  unfold byte32 iter; simp only [Nat.repeat]; exact step32_lt _

theorem fold_mod (msg : Bytes) (c : Nat) :
    (msg.foldl crcByte c) % 4294967296 = msg.foldl byte32 (c % 4294967296) := by
  induction msg generalizing c with
  | nil => rfl
  | cons b bs ih => simp only [List.foldl_cons, ih, crcByte_mod]

/-- the library function as a fold of the 32-bit byte step -/
theorem crc_eq_fold32 (msg : Bytes) : crc32mpeg2 msg = msg.foldl byte32 0xFFFFFFFF := by
  unfold crc32mpeg2; rw [fold_mod]

/-! ### single-byte corruption is detected -/

theorem xor_parity (a b : Nat) : (a ^^^ b) % 2 = (a % 2 + b % 2) % 2 := by
  have := @Nat.xor_mod_two_pow a b 1
  simp only [Nat.pow_one] at this
  rw [this]
  have ha : a % 2 = 0 ∨ a % 2 = 1 := by omega
  have hb : b % 2 = 0 ∨ b % 2 = 1 := by omega
  rcases ha with ha | ha <;> rcases hb with hb | hb <;> simp [ha, hb]

theorem step32_inj (r s : Nat) (hr : r < 4294967296) (hs : s < 4294967296) (h : step32 r = step32 s) : r = s := by
  have pr : step32 r % 2 = r / 2147483648 % 2 := by
    unfold step32; split
    · rw [xor_parity]; omega
    · omega
  have ps : step32 s % 2 = s / 2147483648 % 2 := by
    unfold step32; split
    · rw [xor_parity]; omega
    · omega
  have htop : r / 2147483648 % 2 = s / 2147483648 % 2 := by rw [← pr, ← ps, h]
  unfold step32 at h
  by_cases c : r / 2147483648 % 2 = 1
  · have c' : s / 2147483648 % 2 = 1 := by omega
    rw [if_pos c, if_pos c'] at h
    have := xor_cancel_right _ _ _ h
    omega
  · have c' : ¬ s / 2147483648 % 2 = 1 := by omega
    rw [if_neg c, if_neg c'] at h
    omega

theorem iter_inj (n r s : Nat) (hr : r < 4294967296) (hs : s < 4294967296) (h : iter n r = iter n s) : r = s := by
  induction n generalizing r s with
  | zero => simpa [iter, Nat.repeat] using h
  | succ n ih =>
    simp only [iter, Nat.repeat] at h ih
    have := step32_inj _ _ (iter_lt n r hr) (iter_lt n s hs) h
    exact ih r s hr hs this

theorem byte32_inj_reg (r s : Nat) (b : UInt8) (hr : r < 4294967296) (hs : s < 4294967296)
    (h : byte32 r b = byte32 s b) : r = s := by
  have hb := b.toNat_lt
  unfold byte32 at h
  have := iter_inj 8 _ _ (xor_lt32 _ _ hr (by omega)) (xor_lt32 _ _ hs (by omega)) h
  exact xor_cancel_right _ _ _ this

theorem byte32_inj_byte (r : Nat) (a b : UInt8) (hr : r < 4294967296) (h : byte32 r a = byte32 r b) : a = b := by
  have ha := a.toNat_lt
  have hb := b.toNat_lt
  unfold byte32 at h
  have := iter_inj 8 _ _ (xor_lt32 _ _ hr (by omega)) (xor_lt32 _ _ hr (by omega)) h
  rw [Nat.xor_comm r, Nat.xor_comm r] at this
  have := xor_cancel_right _ _ _ this
  apply UInt8.toNat_inj.mp
  omega

theorem fold32_lt (msg : Bytes) (r : Nat) (hr : r < 4294967296) : msg.foldl byte32 r < 4294967296 := by
  induction msg generalizing r with
  | nil => simpa using hr
  | cons b bs ih => exact ih _ (byte32_lt r b)

theorem fold32_inj (msg : Bytes) (r s : Nat) (hr : r < 4294967296) (hs : s < 4294967296)
    (h : msg.foldl byte32 r = msg.foldl byte32 s) : r = s := by
  induction msg generalizing r s with
  | nil => simpa using h
  | cons b bs ih =>
    have := ih _ _ (byte32_lt r b) (byte32_lt s b) h
    exact byte32_inj_reg r s b hr hs this

/-- **two equal-length messages that differ in exactly one byte have different CRC-32/MPEG-2 values**
    (in particular: every single-bit corruption changes the CRC) -/
theorem crc_detects_byte (pre suf : Bytes) (a a' : UInt8) (h : a ≠ a') :
    crc32mpeg2 (pre ++ a :: suf) ≠ crc32mpeg2 (pre ++ a' :: suf) := by
  rw [crc_eq_fold32, crc_eq_fold32]
  simp only [List.foldl_append, List.foldl_cons]
  intro hc
  have hR : pre.foldl byte32 0xFFFFFFFF < 4294967296 := fold32_lt pre _ (by decide)
  have := fold32_inj suf _ _ (byte32_lt _ a) (byte32_lt _ a') hc
  exact h (byte32_inj_byte _ a a' hR this)

/-! ### the library function is the standard's bit-serial CRC -/

theorem step32_zero : step32 0 = 0 := by decide

/-- the register step is GF(2)-linear -/
theorem step32_xor (a b : Nat) (ha : a < 4294967296) (hb : b < 4294967296) :
    step32 (a ^^^ b) = step32 a ^^^ step32 b := by
  have hx := xor_lt32 a b ha hb
  have htop : (a ^^^ b) / 2147483648 % 2 = (a / 2147483648 % 2 + b / 2147483648 % 2) % 2 := by
    have := @Nat.xor_div_two_pow a b 31
    simp only [show (2:Nat) ^ 31 = 2147483648 from rfl] at this
    rw [this, xor_parity]
  have hsh : (a ^^^ b) * 2 % 4294967296 = (a * 2 % 4294967296) ^^^ (b * 2 % 4294967296) := by
    have h1 : (a ^^^ b) * 2 = (a * 2) ^^^ (b * 2) := by
      have := @Nat.shiftLeft_xor_distrib 1 a b
      simpa [Nat.shiftLeft_eq] using this
    rw [h1]
    have := @Nat.xor_mod_two_pow (a * 2) (b * 2) 32
    simpa using this
  have ta : a / 2147483648 % 2 = 0 ∨ a / 2147483648 % 2 = 1 := by omega
  have tb : b / 2147483648 % 2 = 0 ∨ b / 2147483648 % 2 = 1 := by omega
  unfold step32
  rw [htop, hsh]
  rcases ta with ta | ta <;> rcases tb with tb | tb <;> simp only [ta, tb] <;> simp
  · rw [Nat.xor_assoc]
  · generalize a * 2 % 4294967296 = A; generalize b * 2 % 4294967296 = B
    rw [Nat.xor_assoc, Nat.xor_comm B, ← Nat.xor_assoc]
  · generalize a * 2 % 4294967296 = A; generalize b * 2 % 4294967296 = B
    rw [Nat.xor_assoc A, Nat.xor_comm B 79764919, ← Nat.xor_assoc 79764919 79764919 B, Nat.xor_self, Nat.zero_xor]

theorem iter_xor (n a b : Nat) (ha : a < 4294967296) (hb : b < 4294967296) :
    iter n (a ^^^ b) = iter n a ^^^ iter n b := by
  induction n with
  | zero => simp [iter, Nat.repeat]
  | succ n ih =>
    simp only [iter, Nat.repeat] at ih ⊢
    rw [ih]
    exact step32_xor _ _ (iter_lt n a ha) (iter_lt n b hb)

theorem iter_zero (n : Nat) : iter n 0 = 0 := by
  induction n with
  | zero => rfl
  | succ n ih => simp only [iter, Nat.repeat] at ih ⊢; rw [ih]; exact step32_zero

def tap (bit : Bool) : Nat := if bit then 0x04C11DB7 else 0

/-- feeding one bit = zero-input step, plus the polynomial when the bit is 1 -/
theorem crcBit_eq (r : Nat) (bit : Bool) : Spec.MPEG.crcBit r bit = step32 r ^^^ tap bit := by
  unfold Spec.MPEG.crcBit step32 tap Spec.MPEG.crcPoly
  have t : r / 2147483648 % 2 = 0 ∨ r / 2147483648 % 2 = 1 := by omega
  rcases t with t | t <;> cases bit <;> simp [t]
  rw [Nat.xor_assoc, Nat.xor_self, Nat.xor_zero]

theorem crcBit_lt (r : Nat) (bit : Bool) : Spec.MPEG.crcBit r bit < 4294967296 := by
  rw [crcBit_eq]; exact xor_lt32 _ _ (step32_lt r) (by unfold tap; split <;> decide)

theorem foldBits_lt (bits : List Bool) (r : Nat) (hr : r < 4294967296) :
    bits.foldl Spec.MPEG.crcBit r < 4294967296 := by
  induction bits generalizing r with
  | nil => simpa using hr
  | cons x xs ih => exact ih _ (crcBit_lt r x)

/-- superposition: the register after feeding `bits` from `r` is the zero-input response of `r`
    XOR the response of the bits from an all-zero register -/
theorem foldBits_split (bits : List Bool) (r : Nat) (hr : r < 4294967296) :
    bits.foldl Spec.MPEG.crcBit r = iter bits.length r ^^^ bits.foldl Spec.MPEG.crcBit 0 := by
  induction bits generalizing r with
  | nil => simp [iter, Nat.repeat]
  | cons x xs ih =>
    have htap : tap x < 4294967296 := by unfold tap; split <;> decide
    simp only [List.foldl_cons, List.length_cons]
    rw [ih _ (crcBit_lt r x), ih (Spec.MPEG.crcBit 0 x) (crcBit_lt 0 x), crcBit_eq r x, crcBit_eq 0 x, step32_zero,
      Nat.zero_xor, iter_xor _ _ _ (step32_lt r) htap, Nat.xor_assoc]
    congr 1
    show Nat.repeat step32 xs.length (step32 r) = Nat.repeat step32 (xs.length + 1) r
    clear ih
    induction xs.length with
    | zero => rfl
    | succ n ihn => simp only [Nat.repeat] at ihn ⊢; rw [ihn]

/-- the 256-entry table: eight zero-input steps of a byte placed at the top of the register equal
    feeding its eight bits, most significant first, into an all-zero register -/
theorem byte_table : ∀ n < 256, iter 8 (n * 16777216) = (Spec.MPEG.bitsMSB (UInt8.ofNat n)).foldl Spec.MPEG.crcBit 0 := by
  decide +kernel

theorem byte32_eq_bits (r : Nat) (b : UInt8) (hr : r < 4294967296) :
    byte32 r b = (Spec.MPEG.bitsMSB b).foldl Spec.MPEG.crcBit r := by
  have hb := b.toNat_lt
  have htab := byte_table b.toNat hb
  have hbb : UInt8.ofNat b.toNat = b := by simp
  rw [hbb] at htab
  rw [foldBits_split _ r hr, ← htab]
  unfold byte32
  rw [iter_xor _ _ _ hr (by omega)]
  rfl

/-- **`crc32mpeg2` is CRC-32/MPEG-2**: polynomial 0x04C11DB7, initial value 0xFFFFFFFF, bits fed
    most significant first, no reflection, no final XOR -/
theorem crc_eq_spec (msg : Bytes) : crc32mpeg2 msg = Spec.MPEG.crc32mpeg2 msg := by
  rw [crc_eq_fold32]
  unfold Spec.MPEG.crc32mpeg2
  have : ∀ r, r < 4294967296 → msg.foldl byte32 r = (msg.flatMap Spec.MPEG.bitsMSB).foldl Spec.MPEG.crcBit r := by
    induction msg with
    | nil => intro r _; rfl
    | cons b bs ih =>
      intro r hr
      simp only [List.foldl_cons, List.flatMap_cons, List.foldl_append]
      rw [byte32_eq_bits r b hr]
      exact ih _ (foldBits_lt _ r hr)
  exact this _ (by decide)

/-- the standard check value -/
example : crc32mpeg2 [0x31, 0x32, 0x33, 0x34, 0x35, 0x36, 0x37, 0x38, 0x39] = 0x0376E6E7 := by decide +kernel

/-! ### MISB 0601 running sum -/

theorem stanagSum_even (bs : Bytes) (i : Nat) (h : i % 2 = 0) : stanagSum bs i = Spec.MPEG.misbSum bs := by
  induction bs using Spec.MPEG.misbSum.induct generalizing i with
  | case1 => rfl
  | case2 a =>
    have : (i + 1) % 2 = 1 := by omega
    simp [stanagSum, Spec.MPEG.misbSum, this]
  | case3 a b r ih =>
    have h1 : (i + 1) % 2 = 1 := by omega
    have h2 : ¬ (i + 1 + 1) % 2 = 1 := by omega
    simp only [stanagSum, Spec.MPEG.misbSum, h1, h2, if_true, if_false]
    rw [ih (i + 1 + 1) (by omega)]
    omega

/-- **`checksum_stanag` is the MISB 0601 checksum**: 16-bit sum of big-endian 16-bit words -/
theorem checksum_eq_spec (bs : Bytes) : checksum_stanag bs = Spec.MPEG.misbChecksum bs := by
  unfold checksum_stanag Spec.MPEG.misbChecksum
  rw [stanagSum_even bs 0 rfl]

theorem stanagSum_append (pre suf : Bytes) (x : UInt8) (i : Nat) :
    stanagSum (pre ++ x :: suf) i = stanagSum pre i + x.toNat * (if (i + pre.length + 1) % 2 = 1 then 256 else 1) +
      stanagSum suf (i + pre.length + 1) := by
  induction pre generalizing i with
  | nil => simp [stanagSum]
  | cons p ps ih =>
    simp only [List.cons_append, stanagSum, ih (i + 1), List.length_cons]
    have : i + 1 + ps.length + 1 = i + (ps.length + 1) + 1 := by omega
    rw [this]
    omega

/-- a change of one byte (a fortiori of one bit) changes the 16-bit sum -/
theorem checksum_detects_byte (pre suf : Bytes) (a a' : UInt8) (h : a ≠ a') :
    checksum_stanag (pre ++ a :: suf) ≠ checksum_stanag (pre ++ a' :: suf) := by
  have ha := a.toNat_lt
  have ha' := a'.toNat_lt
  have hne : a.toNat ≠ a'.toNat := fun c => h (UInt8.toNat_inj.mp c)
  unfold checksum_stanag
  rw [stanagSum_append, stanagSum_append]
  split <;> omega

end Acra.Lemmas.CRCMpeg
