/-
  Helper lemmas for the Golay source ties (`Props/C11/SrcTie.lean`): loops that fill a table cell by cell.
-/
import Acra.Py.IntOps
import Acra.Gen.Src.Golay
import Acra.Model.Golay
import Acra.Lemmas.Golay
namespace Acra.Lemmas.SrcTieGolay
open Acra Acra.Py

theorem intAt_natCast (T : List Int) (x : Nat) : intAt T (x : Int) = T.getD x 0 := rfl
theorem setAt_natCast (T : List Int) (x : Nat) (v : Int) : setAt T (x : Int) v = T.set x v := rfl

/-- a loop that only ever updates cell `x` of a table (`if c i: T[x] = h(T[x], i)`) is one update of that cell
    with the folded value -/
theorem foldl_cell (x : Nat) (c : Int → Prop) [DecidablePred c] (h : Int → Int → Int) (is : List Int)
    (T : List Int) (hx : x < T.length) :
    List.foldl (fun (T : List Int) (i : Int) => if c i then T.set x (h (T.getD x 0) i) else T) T is
      = T.set x (List.foldl (fun (a : Int) (i : Int) => if c i then h a i else a) (T.getD x 0) is) := by
  induction is generalizing T with
  | nil =>
    simp only [List.foldl_nil]
    simp [List.getD_eq_getElem?_getD, hx]
  | cons i is ih =>
    simp only [List.foldl_cons]
    by_cases hc : c i
    · simp only [if_pos hc]
      rw [ih _ (by simpa using hx)]
      simp [List.getD_eq_getElem?_getD, hx]
    · simp only [if_neg hc]
      exact ih T hx

/-- a loop over `range(N)` whose body sets cell `x` to a value that depends on `x` only builds the table of
    those values -/
theorem foldl_table (N : Nat) (f : Nat → Int) (step : List Int → Int → List Int)
    (hstep : ∀ (T : List Int) (x : Nat), x < T.length → step T (x : Int) = T.set x (f x)) :
    List.foldl step (List.replicate N 0) (Py.range (N : Int)) = (List.range N).map f := by
  have key : ∀ k, k ≤ N →
      List.foldl step (List.replicate N 0) ((List.range k).map Int.ofNat)
        = (List.range k).map f ++ List.replicate (N - k) 0 := by
    intro k
    induction k with
    | zero => intro _; simp
    | succ k ih =>
      intro hk
      rw [List.range_succ, List.map_append, List.foldl_append, ih (by omega)]
      simp only [List.map_cons, List.map_nil, List.foldl_cons, List.foldl_nil]
      rw [show (Int.ofNat k) = ((k : Nat) : Int) from rfl, hstep _ k (by simp; omega)]
      have hrep : List.replicate (N - k) (0 : Int) = 0 :: List.replicate (N - (k + 1)) 0 := by
        rw [show N - k = (N - (k + 1)) + 1 by omega, List.replicate_succ]
      rw [hrep, List.map_append]
      have hlen : ((List.range k).map f).length = k := by simp
      rw [List.set_append_right _ _ (by simp)]
      simp [hlen]
  have := key N (Nat.le_refl N)
  simpa [Py.range] using this

theorem range12 : Py.range 12 = [0, 1, 2, 3, 4, 5, 6, 7, 8, 9, 10, 11] := by decide

/-- the inner loop of `_init_Table` for one `x`: twelve conditional xors of the rows of `G_P` -/
theorem encode_entry_fold (x : Nat) :
    List.foldl (fun (a : Int) (i : Int) =>
        if band (shr (x : Int) (11 - i)) 1 ≠ 0 then bxor a (intAt Gen.Src.Golay.G_P i) else a)
      (shl (x : Int) 12) (Py.range 12)
    = (Model.Golay.encodeEntry x : Int) := by
  rw [range12]
  simp only [List.foldl_cons, List.foldl_nil, Model.Golay.encodeEntry, Gen.Golay.G_P, Model.Golay.rowXorAcc,
    Gen.Src.Golay.G_P, intAt, toNat_lit, List.getD_cons_zero, List.getD_cons_succ, Int.reduceSub,
    shr_natCast, shl_natCast, band_natCast_lit, bxor_natCast_lit, natCast_ite, List.length_cons, List.length_nil,
    Int.natCast_eq_zero, ne_eq, Nat.reduceAdd]

/-! ### the instance tables as Python lists -/

/-- a model table (`Array Nat`) as the Python list of ints the instance attribute holds -/
def pyList (T : Array Nat) : List Int := T.toList.map Int.ofNat

/-- `self.SyndromeTable` in model state `s`: filled by `_initgolaydecode`, all zero before -/
def synList (s : Model.Golay.State) : List Int :=
  if s.inited then pyList Model.Golay.synTable else List.replicate 4096 0

@[simp] theorem pyList_length (T : Array Nat) : (pyList T).length = T.size := by simp [pyList]

theorem pyList_getD (T : Array Nat) (i : Nat) : (pyList T).getD i 0 = ((T.getD i 0 : Nat) : Int) := by
  simp only [pyList, List.getD_eq_getElem?_getD, List.getElem?_map, Array.getElem?_toList, Array.getD_eq_getD_getElem?]
  cases T[i]? <;> rfl

theorem getItem_natCast (T : List Int) (i : Nat) (h : i < T.length) : getItem T (i : Int) = .ok (T.getD i 0) := by
  unfold getItem
  have : (0 : Int) ≤ (i : Int) ∧ (i : Int) < Py.len T := by simp [Py.len]; omega
  rw [if_pos this]; rfl

theorem getItem_natCast_out (T : List Int) (i : Nat) (h : T.length ≤ i) : getItem T (i : Int) = .error .index := by
  unfold getItem
  have h1 : ¬ ((0 : Int) ≤ (i : Int) ∧ (i : Int) < Py.len T) := by simp [Py.len]; omega
  have h2 : ¬ (-(Py.len T) ≤ (i : Int) ∧ (i : Int) < 0) := by omega
  rw [if_neg h1, if_neg h2]

theorem synTable_size : Model.Golay.synTable.size = 4096 := by simp [Model.Golay.synTable, Gen.Golay.GOLAY_SIZE]

/-- `_decode2` on abstract tables, given what `_syndrome2` returns -/
theorem decode2_abs (S : List Int) (C : Array Nat) (v1 : Nat) (v2 : Int) (idx : Nat)
    (hs : Gen.Src.Golay.Golay._syndrome2 S v1 v2 = .ok (idx : Int)) :
    Gen.Src.Golay.Golay._decode2 S (pyList C) v1 v2
      = (Model.Golay.lookup C idx (fun c => v1 ^^^ c)).map Int.ofNat := by
  unfold Gen.Src.Golay.Golay._decode2
  rw [hs]
  simp only [bind, Except.bind, Model.Golay.lookup]
  by_cases hi : idx < C.size
  · rw [getItem_natCast _ _ (by rw [pyList_length]; exact hi), pyList_getD]
    simp [Array.getD_eq_getD_getElem?, Array.getElem?_eq_getElem hi, Except.map]
  · rw [getItem_natCast_out _ _ (by rw [pyList_length]; exact Nat.le_of_not_lt hi)]
    simp [Array.getElem?_eq_none (Nat.le_of_not_lt hi), Except.map]

/-- the loop of `_onesincode_old` counts the set bits below `size` -/
theorem ones_fold (code size : Nat) :
    List.foldl (fun (ret : Int) (t : Int) => if band (shr (code : Int) t) 1 ≠ 0 then ret + 1 else ret) 0
      (Py.range (size : Int))
    = ((((List.range size).filter (fun i => code.testBit i)).length : Nat) : Int) := by
  have hr : Py.range (size : Int) = (List.range size).map Int.ofNat := by simp [Py.range]
  rw [hr]
  clear hr
  induction size with
  | zero => rfl
  | succ n ih =>
    rw [List.range_succ, List.map_append, List.foldl_append, ih, List.filter_append, List.length_append]
    simp only [List.map_cons, List.map_nil, List.foldl_cons, List.foldl_nil, List.filter_cons, List.filter_nil]
    have hb : (band (shr (code : Int) (Int.ofNat n)) 1 ≠ 0) ↔ code.testBit n = true := by
      show band (shr (code : Int) ((n : Nat) : Int)) 1 ≠ 0 ↔ _
      simp only [shr_natCast, Int.toNat_natCast, band_natCast_lit, ne_eq, Int.natCast_eq_zero, Nat.testBit,
        Nat.and_comm 1, bne_iff_ne]
    by_cases h : code.testBit n = true
    · rw [if_pos (hb.mpr h)]; simp [h]
    · rw [if_neg (fun hc => h (hb.mp hc))]; simp [h]

theorem synList_length (s : Model.Golay.State) : (synList s).length = 4096 := by
  unfold synList
  split
  · rw [pyList_length, synTable_size]
  · exact List.length_replicate

theorem synList_getD (s : Model.Golay.State) (i : Nat) (h : i < 4096) :
    (synList s).getD i 0 = (((if s.inited then Model.Golay.synTable.getD i 0 else 0) : Nat) : Int) := by
  unfold synList
  split
  · exact pyList_getD _ _
  · rw [List.getD_eq_getElem?_getD, List.getElem?_replicate, if_pos h]; rfl

end Acra.Lemmas.SrcTieGolay
