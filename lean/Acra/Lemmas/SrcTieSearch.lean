/-
  Helper lemmas for the source tie of the search algorithms (C17): the raising index operations of the
  prelude against the models' `[i]?` / `pyIdx`, the fall-back loop of KMP (`Py.whileLoopM` against `kmpFall`),
  Horspool's inner loop and skip table.  Core Lean only.
-/
import Acra.Py.IntOps
import Acra.Model.Search
namespace Acra.Lemmas.SrcTieSearch
open Acra Acra.Py Acra.Model.Search

/-- a byte read that may fail, as a Python int -/
def liftB (o : Option UInt8) : R Int :=
  match o with
  | some x => .ok (x.toNat : Int)
  | none => .error .index

/-- a table read that may fail, as a Python int -/
def liftN (o : Option Nat) : R Int :=
  match o with
  | some x => .ok (x : Int)
  | none => .error .index

@[simp] theorem liftB_some (x : UInt8) : liftB (some x) = .ok (x.toNat : Int) := rfl
@[simp] theorem liftB_none : liftB none = .error .index := rfl
@[simp] theorem liftN_some (x : Nat) : liftN (some x) = .ok (x : Int) := rfl
@[simp] theorem liftN_none : liftN none = .error .index := rfl

theorem bind_ok_self {α : Type} (x : R α) : (x >>= fun a => (Except.ok a : R α)) = x := by
  cases x <;> rfl

theorem toNat_succ (j : Nat) : Int.toNat ((j : Int) + 1) = j + 1 := by omega

theorem bind_ok_snd {α β : Type} (x : R (α × β)) : (x >>= fun a => (Except.ok a.2 : R β)) = x.map Prod.snd := by
  cases x <;> rfl

theorem byteAt_nat (b : Bytes) (i : Nat) (c : UInt8) (h : b[i]? = some c) : byteAt b (i : Int) = (c.toNat : Int) := by
  unfold byteAt
  simp [List.getD_eq_getElem?_getD, h]

theorem ok_bind {α β : Type} (a : α) (f : α → R β) : ((Except.ok a : R α) >>= f) = f a := rfl

theorem bind_ok_fst {α β : Type} (x : R (α × β)) : (x >>= fun a => (Except.ok a.1 : R α)) = x.map Prod.fst := by
  cases x <;> rfl

theorem getByte_nat (b : Bytes) (j : Nat) : getByte b (j : Int) = liftB b[j]? := by
  unfold getByte len byteAt
  by_cases h : j < b.length
  · rw [if_pos ⟨by omega, by omega⟩]
    simp [List.getD_eq_getElem?_getD, h]
  · rw [if_neg (by omega), if_neg (by omega)]
    simp [List.getElem?_eq_none (by omega : b.length ≤ j)]

theorem getItem_nat (t : List Nat) (j : Nat) : getItem (t.map Int.ofNat) (j : Int) = liftN t[j]? := by
  unfold getItem len intAt
  by_cases h : j < t.length
  · rw [if_pos ⟨by omega, by simp; omega⟩]
    simp [List.getD_eq_getElem?_getD, h]
  · rw [if_neg (by simp; omega), if_neg (by omega)]
    simp [List.getElem?_eq_none (by omega : t.length ≤ j)]

/-- Python's index rule on `bytes` (negative indices count from the end) is the models' `pyIdx` -/
theorem getByte_pyIdx (b : Bytes) (i : Int) : getByte b i = liftB (pyIdx b i) := by
  by_cases h0 : 0 ≤ i
  · obtain ⟨n, rfl⟩ := Int.eq_ofNat_of_zero_le h0
    rw [getByte_nat]; unfold pyIdx; simp
  · unfold pyIdx; rw [if_neg h0]
    unfold getByte len
    rw [if_neg (by omega)]
    by_cases h1 : 0 ≤ i + (b.length : Int)
    · rw [if_pos ⟨by omega, by omega⟩, if_pos h1]
      obtain ⟨k, hk⟩ := Int.eq_ofNat_of_zero_le h1
      have hkl : k < b.length := by omega
      have e : (b.length : Int) + i = (k : Int) := by omega
      rw [e, hk]; unfold byteAt
      simp [List.getD_eq_getElem?_getD, hkl]
    · rw [if_neg (by omega), if_neg h1]; rfl

theorem u8_ne_iff (x c : UInt8) : ((x.toNat : Int) ≠ (c.toNat : Int)) ↔ x ≠ c := by
  constructor
  · intro h e; exact h (by rw [e])
  · intro h e; apply h; apply UInt8.toNat_inj.mp; omega

theorem u8_eq_iff (x c : UInt8) : ((x.toNat : Int) = (c.toNat : Int)) ↔ x = c := by
  constructor
  · intro e; apply UInt8.toNat_inj.mp; omega
  · intro e; rw [e]

/-! ### KMP: the fall-back loop -/

/-- `while j > 0 and pattern[j] != c: j = ret[j - 1]`, for any condition / body that read the pattern and the
    table the way the two loops of `KMP` do -/
theorem fall_tie (p : Bytes) (tbl : List Nat) (c : UInt8) (cond : Int → R Bool) (body : Int → R Int)
    (hc : ∀ j : Nat, cond (j : Int) =
      if j > 0 then (match p[j]? with | none => .error .index | some x => .ok (decide (x ≠ c))) else .ok false)
    (hb : ∀ j : Nat, j > 0 → body (j : Int) = liftN tbl[j - 1]?) :
    ∀ (fuel j : Nat), whileLoopM cond body fuel (j : Int) = (kmpFall p tbl c fuel j).map Int.ofNat := by
  intro fuel
  induction fuel with
  | zero => intro j; rfl
  | succ fuel ih =>
    intro j
    unfold whileLoopM kmpFall
    rw [hc j]
    by_cases hj : j > 0
    · rw [if_pos hj, if_pos hj]
      cases hpj : p[j]? with
      | none => rfl
      | some x =>
        by_cases hx : x ≠ c
        · simp only [hx, ne_eq, not_false_eq_true, decide_true, bind, Except.bind, if_true]
          rw [hb j hj]
          cases htj : tbl[j - 1]? with
          | none => rfl
          | some j' => simp only [liftN_some]; exact ih j'
        · simp only [hx, decide_false, bind, Except.bind]; rfl
    · rw [if_neg hj, if_neg hj]; rfl

/-! ### KMP: the two `for` loops as folds -/

/-- one pass of the body of `for i in range(1, len(pattern))` in `KMP.partial` (the model, one step) -/
def partialStep (p : Bytes) (ret : List Nat) (i : Nat) (c : UInt8) : R (List Nat) :=
  match ret[i - 1]? with
  | none => .error .index
  | some j =>
    match kmpFall p ret c (j + 1) j with
    | .error e => .error e
    | .ok j =>
      match p[j]? with
      | none => .error .index
      | some x => .ok (ret ++ [if x == c then j + 1 else j])

theorem kmpPartialLoop_cons (p : Bytes) (c : UInt8) (cs : Bytes) (i : Nat) (ret : List Nat) :
    kmpPartialLoop p (c :: cs) i ret = partialStep p ret i c >>= fun r => kmpPartialLoop p cs (i + 1) r := by
  unfold partialStep
  rw [kmpPartialLoop]
  cases ret[i - 1]? with
  | none => rfl
  | some j =>
    simp only []
    cases kmpFall p ret c (j + 1) j with
    | error e => rfl
    | ok j2 =>
      simp only []
      cases p[j2]? with
      | none => rfl
      | some x => rfl

theorem shift_range (n : Nat) (i : Nat) :
    (List.range (n + 1)).map (fun (k : Nat) => (i : Int) + (k : Int)) =
      (i : Int) :: (List.range n).map (fun (k : Nat) => ((i + 1 : Nat) : Int) + (k : Int)) := by
  rw [List.range_succ_eq_map]
  simp only [List.map_cons, List.map_map]
  simp only [Int.natCast_zero, Int.add_zero, Function.comp_def, Nat.succ_eq_add_one, List.cons.injEq, true_and]
  apply List.map_congr_left; intro k _; omega

/-- a fold whose step is the model's step builds the model's table -/
theorem partialLoop_tie (p : Bytes) (F : List Int → Int → R (List Int))
    (hF : ∀ (ret : List Nat) (i : Nat) (c : UInt8), 1 ≤ i → p[i]? = some c →
      F (ret.map Int.ofNat) (i : Int) = (partialStep p ret i c).map (List.map Int.ofNat)) :
    ∀ (cs : Bytes) (i : Nat) (ret : List Nat), p.drop i = cs → 1 ≤ i →
      List.foldlM F (ret.map Int.ofNat) ((List.range cs.length).map (fun (k : Nat) => (i : Int) + (k : Int))) =
        (kmpPartialLoop p cs i ret).map (List.map Int.ofNat) := by
  intro cs
  induction cs with
  | nil => intro i ret _ _; simp [kmpPartialLoop, pure, Except.pure, Except.map]
  | cons c cs ih =>
    intro i ret hd hi
    have hpi : p[i]? = some c := by
      have := congrArg (fun l => l[0]?) hd
      simpa using this
    have hd' : p.drop (i + 1) = cs := by
      have := congrArg (List.drop 1) hd
      simpa [List.drop_drop, Nat.add_comm] using this
    rw [List.length_cons, shift_range, List.foldlM_cons, hF ret i c hi hpi, kmpPartialLoop_cons]
    cases partialStep p ret i c with
    | error e => rfl
    | ok r => exact ih (i + 1) r hd' (by omega)

/-- one pass of the body of `for i in range(len(T))` in `KMP.search` (the model, one step) -/
def searchStep (p : Bytes) (tbl : List Nat) (c : UInt8) (i j : Nat) (ret : List Int) : R (Nat × List Int) :=
  match kmpFall p tbl c (j + 1) j with
  | .error e => .error e
  | .ok j =>
    match p[j]? with
    | none => .error .index
    | some x =>
      let j := if c == x then j + 1 else j
      if j == p.length then
        match tbl[j - 1]? with
        | none => .error .index
        | some j' => .ok (j', ret ++ [(i : Int) - ((j : Int) - 1)])
      else .ok (j, ret)

theorem kmpSearchLoop_cons (p : Bytes) (tbl : List Nat) (c : UInt8) (rest : Bytes) (i j : Nat) (ret : List Int) :
    kmpSearchLoop p tbl (c :: rest) i j ret =
      searchStep p tbl c i j ret >>= fun s => kmpSearchLoop p tbl rest (i + 1) s.1 s.2 := by
  unfold searchStep
  rw [kmpSearchLoop]
  cases kmpFall p tbl c (j + 1) j with
  | error e => rfl
  | ok j2 =>
    simp only []
    cases p[j2]? with
    | none => rfl
    | some x =>
      simp only []
      generalize (if c == x then j2 + 1 else j2) = J
      by_cases hJ : (J == p.length) = true
      · simp only [hJ, if_true]
        cases tbl[J - 1]? with
        | none => rfl
        | some j' => rfl
      · simp only [hJ]; rfl

theorem searchLoop_tie (t p : Bytes) (tbl : List Nat) (F : Int × List Int → Int → R (Int × List Int))
    (hF : ∀ (j : Nat) (ret : List Int) (i : Nat) (c : UInt8), t[i]? = some c →
      F ((j : Int), ret) (i : Int) = (searchStep p tbl c i j ret).map (fun s => ((s.1 : Int), s.2))) :
    ∀ (rest : Bytes) (i j : Nat) (ret : List Int), t.drop i = rest →
        (List.foldlM F ((j : Int), ret) ((List.range rest.length).map (fun (k : Nat) => (i : Int) + (k : Int)))).map Prod.snd =
        kmpSearchLoop p tbl rest i j ret := by
  intro rest
  induction rest with
  | nil => intro i j ret _; simp [kmpSearchLoop, pure, Except.pure, Except.map]
  | cons c rest ih =>
    intro i j ret hd
    have hti : t[i]? = some c := by
      have := congrArg (fun l => l[0]?) hd
      simpa using this
    have hd' : t.drop (i + 1) = rest := by
      have := congrArg (List.drop 1) hd
      simpa [List.drop_drop, Nat.add_comm] using this
    rw [List.length_cons, shift_range, List.foldlM_cons, hF j ret i c hti, kmpSearchLoop_cons]
    cases searchStep p tbl c i j ret with
    | error e => rfl
    | ok s => exact ih (i + 1) s.1 s.2 hd'

/-! ### Horspool -/

/-- `skip = []; for k in range(256): skip.append(m)` -/
theorem foldl_append_const (m : Int) (l : List Int) (acc : List Int) :
    List.foldl (fun (sk : List Int) (_ : Int) => sk ++ [m]) acc l = acc ++ List.replicate l.length m := by
  induction l generalizing acc with
  | nil => simp
  | cons x xs ih =>
    rw [List.foldl_cons, ih, List.length_cons, List.replicate_succ, List.append_assoc]; rfl

theorem range_length (n : Nat) : (Py.range (n : Int)).length = n := by
  unfold Py.range; simp

theorem setItem_nat (t : List Nat) (j : Nat) (v : Nat) (h : j < t.length) :
    setItem (t.map Int.ofNat) (j : Int) (v : Int) = .ok ((t.set j v).map Int.ofNat) := by
  unfold setItem len setAt
  rw [if_pos ⟨by omega, by simp; omega⟩]
  simp [List.map_set]

theorem setAt_nat (t : List Nat) (j : Nat) (v : Nat) :
    setAt (t.map Int.ofNat) (j : Int) (v : Int) = (t.set j v).map Int.ofNat := by
  unfold setAt
  simp [List.map_set]

theorem replicate_nat (n : Nat) (N : Int) (hN : N = (n : Int)) (m : Nat) :
    Py.replicate N (m : Int) = (List.replicate n m).map Int.ofNat := by
  subst hN
  unfold Py.replicate
  rw [Int.toNat_natCast, List.map_replicate]; rfl

/-- one pass of `for k in range(m - 1): skip[pattern[k]] = m - k - 1` (the model, one step) -/
def skipStep (pat : Bytes) (sk : List Nat) (k : Nat) : List Nat :=
  match pat[k]? with
  | some c => sk.set c.toNat (pat.length - k - 1)
  | none => sk

theorem skipStep_length (pat : Bytes) (sk : List Nat) (k : Nat) : (skipStep pat sk k).length = sk.length := by
  unfold skipStep; cases pat[k]? <;> simp

theorem skipLoop_tie (pat : Bytes) (G : List Int → Int → R (List Int))
    (hG : ∀ (sk : List Nat) (k : Nat), sk.length = 256 → k < pat.length - 1 →
      G (sk.map Int.ofNat) (k : Int) = .ok ((skipStep pat sk k).map Int.ofNat)) :
    ∀ (l : List Nat) (sk : List Nat), sk.length = 256 → (∀ k ∈ l, k < pat.length - 1) →
      List.foldlM G (sk.map Int.ofNat) (l.map Int.ofNat) = .ok ((l.foldl (skipStep pat) sk).map Int.ofNat) := by
  intro l
  induction l with
  | nil => intro sk _ _; rfl
  | cons k l ih =>
    intro sk hs hl
    rw [List.map_cons, List.foldlM_cons, show Int.ofNat k = (k : Int) from rfl,
      hG sk k hs (hl k (List.mem_cons_self ..)), ok_bind, List.foldl_cons]
    exact ih _ (by rw [skipStep_length, hs]) (fun k' hk' => hl k' (List.mem_cons_of_mem _ hk'))

theorem intAt_nat (t : List Nat) (j s : Nat) (h : t[j]? = some s) : intAt (t.map Int.ofNat) (j : Int) = (s : Int) := by
  unfold intAt
  simp [List.getD_eq_getElem?_getD, h]

theorem foldl_skipStep_length (pat : Bytes) (l : List Nat) : ∀ sk : List Nat,
    (l.foldl (skipStep pat) sk).length = sk.length := by
  induction l with
  | nil => intro sk; rfl
  | cons k l ih => intro sk; rw [List.foldl_cons, ih, skipStep_length]

theorem bmhSkip_length (pat : Bytes) : (bmhSkip pat).length = 256 := by
  show ((List.range (pat.length - 1)).foldl (skipStep pat) (List.replicate 256 pat.length)).length = 256
  rw [foldl_skipStep_length, List.length_replicate]

theorem bmhSkip_eq (pat : Bytes) :
    bmhSkip pat = (List.range (pat.length - 1)).foldl (skipStep pat) (List.replicate 256 pat.length) := rfl

/-- the inner loop `while j >= 0 and text[i] == pattern[j]: j -= 1; i -= 1` started at `j = j1 - 1` with fuel `j + 2` -/
theorem inner_tie (text pat : Bytes) (cond : Int × Int → R Bool) (body : Int × Int → R (Int × Int))
    (hc : ∀ (j i : Int), cond (j, i) =
      if j ≥ 0 then (getByte text i >>= fun a => getByte pat j >>= fun b => .ok (decide (a = b))) else .ok false)
    (hb : ∀ (j i : Int), body (j, i) = .ok (j - 1, i - 1)) :
    ∀ (j1 : Nat) (i : Int), whileLoopM cond body (j1 + 1) ((j1 : Int) - 1, i) =
      (bmhInner text pat j1 i).map (fun r => ((r.1 : Int) - 1, r.2)) := by
  intro j1
  induction j1 with
  | zero =>
    intro i
    unfold whileLoopM bmhInner
    rw [hc, if_neg (by omega)]; rfl
  | succ j1 ih =>
    intro i
    unfold whileLoopM bmhInner
    rw [hc, if_pos (by omega), getByte_pyIdx]
    have e : ((j1 + 1 : Nat) : Int) - 1 = (j1 : Int) := by omega
    rw [e, getByte_nat]
    cases pyIdx text i with
    | none => cases pat[j1]? <;> rfl
    | some a =>
      cases pat[j1]? with
      | none => rfl
      | some b =>
        simp only [liftB_some, ok_bind, u8_eq_iff, beq_iff_eq]
        by_cases hab : a = b
        · simp only [hab, decide_true, if_true]
          rw [hb, ok_bind]
          exact ih (i - 1)
        · simp only [hab, decide_false, if_false]
          simp only [Except.map, Bool.false_eq_true, if_false]
          rw [e]

/-- one pass of the body of `while k < n` (the model, one step): returns the new `(offsets, k)` -/
def outerStep (text pat : Bytes) (skip : List Nat) (k : Int) (offs : List Int) : R (List Int × Int) :=
  match bmhInner text pat pat.length k with
  | .error e => .error e
  | .ok (j1, i) =>
    let offs := if j1 == 0 then offs ++ [i + 1] else offs
    match pyIdx text k with
    | none => .error .index
    | some c =>
      match skip[c.toNat]? with
      | none => .error .index
      | some s => .ok (offs, k + s)

theorem bmhOuter_succ (text pat : Bytes) (skip : List Nat) (fuel : Nat) (k : Int) (offs : List Int) :
    bmhOuter text pat skip (fuel + 1) k offs =
      if k < text.length then
        outerStep text pat skip k offs >>= fun s => bmhOuter text pat skip fuel s.2 s.1
      else .ok offs := by
  unfold outerStep
  rw [bmhOuter]
  split
  · cases bmhInner text pat pat.length k with
    | error e => rfl
    | ok r =>
      obtain ⟨j1, i⟩ := r
      simp only []
      cases pyIdx text k with
      | none => rfl
      | some c =>
        simp only []
        cases skip[c.toNat]? with
        | none => rfl
        | some s => rfl
  · rfl

theorem outer_tie (text pat : Bytes) (skip : List Nat) (cond : List Int × Int → R Bool)
    (body : List Int × Int → R (List Int × Int))
    (hc : ∀ offs k, cond (offs, k) = .ok (decide (k < (text.length : Int))))
    (hb : ∀ offs k, body (offs, k) = outerStep text pat skip k offs) :
    ∀ (fuel : Nat) (k : Int) (offs : List Int),
      (whileLoopM cond body fuel (offs, k)).map Prod.fst = bmhOuter text pat skip fuel k offs := by
  intro fuel
  induction fuel with
  | zero => intro k offs; rfl
  | succ fuel ih =>
    intro k offs
    rw [bmhOuter_succ]
    unfold whileLoopM
    rw [hc, ok_bind]
    by_cases hk : k < (text.length : Int)
    · simp only [hk, decide_true, if_true]
      rw [hb]
      cases outerStep text pat skip k offs with
      | error e => rfl
      | ok s => exact ih s.2 s.1
    · simp only [hk, decide_false, if_false, Bool.false_eq_true]; rfl

end Acra.Lemmas.SrcTieSearch
