/-
  Golay(24,12), proof side: the loops of Golay.py as GF(2)-linear maps, the "last write wins" table
  lemma, the sorted-representative reduction for the (i, j, k) error patterns and the bridge from
  "weight ≤ 3 / = 4" to explicit bit positions.  No large kernel evaluation in this file (those are
  in GolayK1 … GolayK5 so that lake checks them in parallel).
-/
import Acra.Model.Golay
namespace Acra.Lemmas.Golay
open Acra.Py Acra.Model.Golay Acra.Gen.Golay

/-! ### the row-XOR loop is linear -/

theorem bit_test (x n : Nat) : ((x >>> n) &&& 1 ≠ 0) ↔ x.testBit n = true := by
  simp [Nat.testBit, Nat.and_comm]

/-- accumulator-free form of `rowXorAcc` -/
def rowXor : List Nat → Nat → Nat
  | [], _ => 0
  | r :: rs, x => (if x.testBit rs.length then r else 0) ^^^ rowXor rs x

theorem rowXorAcc_eq (rs : List Nat) (x acc : Nat) : rowXorAcc rs x acc = acc ^^^ rowXor rs x := by
  induction rs generalizing acc with
  | nil => simp [rowXorAcc, rowXor]
  | cons r rs ih =>
    simp only [rowXorAcc, rowXor, ih, bit_test]
    by_cases h : x.testBit rs.length = true
    · simp [h, Nat.xor_assoc]
    · simp [h]

theorem rowXor_xor (rs : List Nat) (a b : Nat) : rowXor rs (a ^^^ b) = rowXor rs a ^^^ rowXor rs b := by
  induction rs with
  | nil => simp [rowXor]
  | cons r rs ih =>
    simp only [rowXor, ih, Nat.testBit_xor]
    have key : ∀ p q : Bool, (if (p ^^ q) = true then r else 0) =
        (if p = true then r else 0) ^^^ (if q = true then r else 0) := by
      intro p q; cases p <;> cases q <;> simp
    rw [key]; ac_rfl

theorem rowXor_lt (rs : List Nat) (n : Nat) (h : ∀ r ∈ rs, r < 2 ^ n) (x : Nat) : rowXor rs x < 2 ^ n := by
  induction rs with
  | nil => simp [rowXor, Nat.two_pow_pos]
  | cons r rs ih =>
    simp only [rowXor]
    apply Nat.xor_lt_two_pow
    · split
      · exact h r (by simp)
      · exact Nat.two_pow_pos n
    · exact ih (fun r' hr' => h r' (by simp [hr']))

/-- the syndrome as a pure function of the 24-bit word (what `_syndrome` computes once the table is filled) -/
def synF (e : Nat) : Nat := rowXorAcc H_P (e &&& 0xfff) 0 ^^^ ((e >>> 12) &&& 0xfff)

theorem synF_xor (a b : Nat) : synF (a ^^^ b) = synF a ^^^ synF b := by
  simp only [synF, rowXorAcc_eq, Nat.and_xor_distrib_right, Nat.shiftRight_xor_distrib, rowXor_xor,
    Nat.zero_xor]
  ac_rfl

theorem H_P_lt : ∀ r ∈ H_P, r < 2 ^ 12 := by decide
theorem G_P_lt : ∀ r ∈ G_P, r < 2 ^ 12 := by decide

theorem synF_lt (e : Nat) : synF e < 4096 := by
  have h1 : rowXor H_P (e &&& 0xfff) < 2 ^ 12 := rowXor_lt H_P 12 H_P_lt _
  have h2 : (e >>> 12) &&& 0xfff < 2 ^ 12 := Nat.and_lt_two_pow _ (by decide)
  have := Nat.xor_lt_two_pow h1 h2
  simpa [synF, rowXorAcc_eq] using this

theorem initEntry_fst (rs : List Nat) (x s e c : Nat) : (initEntry rs x (s, e, c)).1 = rowXorAcc rs x s := by
  induction rs generalizing s e c with
  | nil => simp [initEntry, rowXorAcc]
  | cons r rs ih =>
    simp only [initEntry, rowXorAcc]
    split <;> simp [ih]

theorem synTable_get (x : Nat) (h : x < 4096) : synTable.getD x 0 = rowXorAcc H_P x 0 := by
  simp [synTable, Array.getD_eq_getD_getElem?, GOLAY_SIZE, h, initEntry_fst]

theorem and_fff_lt (v : Nat) : v &&& 0xfff < 4096 := Nat.and_lt_two_pow _ (by decide : (0xfff : Nat) < 2 ^ 12)

theorem syndrome_eq (v : Nat) : syndrome v = synF v := by
  simp [syndrome, synF, synTable_get _ (and_fff_lt v)]

/-! ### "last write wins" -/

/-- value at index `s` after a sequence of writes `(key w, val w)` into a table that held `init` there -/
def lastW {W : Type} (key val : W → Nat) (ws : List W) (s init : Nat) : Nat :=
  ws.foldl (fun cur w => if key w = s then val w else cur) init

theorem lastW_const {W : Type} (key val : W → Nat) (ws : List W) (s init v : Nat)
    (hall : ∀ w ∈ ws, key w = s → val w = v) (hex : init = v ∨ ∃ w ∈ ws, key w = s) :
    lastW key val ws s init = v := by
  induction ws generalizing init with
  | nil => simpa [lastW] using hex
  | cons w ws ih =>
    simp only [lastW, List.foldl_cons]
    apply ih _ (fun w' hw' => hall w' (by simp [hw']))
    by_cases hk : key w = s
    · left; simp [hk, hall w (by simp) hk]
    · simp only [hk, if_false]
      rcases hex with h | ⟨w', hw', hk'⟩
      · exact Or.inl h
      · right
        simp only [List.mem_cons] at hw'
        rcases hw' with rfl | hw'
        · exact absurd hk' hk
        · exact ⟨w', hw', hk'⟩

theorem lastW_none {W : Type} (key val : W → Nat) (ws : List W) (s init : Nat)
    (h : ∀ w ∈ ws, key w ≠ s) : lastW key val ws s init = init :=
  lastW_const key val ws s init init (fun w hw hk => absurd hk (h w hw)) (Or.inl rfl)

theorem applyWrites_get (ws : List (Nat × Nat × Nat)) (c e : Array Nat) (s : Nat)
    (hc : s < c.size) (he : s < e.size) :
    (applyWrites ws (c, e)).1[s]? = some (lastW (·.1) (·.2.1) ws s (c.getD s 0)) ∧
    (applyWrites ws (c, e)).2[s]? = some (lastW (·.1) (·.2.2) ws s (e.getD s 0)) := by
  induction ws generalizing c e with
  | nil => simp [applyWrites, lastW, Array.getD_eq_getD_getElem?, hc, he]
  | cons w ws ih =>
    have := ih (c.setIfInBounds w.1 w.2.1) (e.setIfInBounds w.1 w.2.2) (by simpa using hc) (by simpa using he)
    simp only [applyWrites, List.foldl_cons] at this ⊢
    rw [this.1, this.2]
    simp only [lastW, List.foldl_cons, Array.getD_eq_getD_getElem?, Array.getElem?_setIfInBounds]
    by_cases hk : w.1 = s
    · subst hk; simp [hc, he]
    · simp [hk]

/-! ### the error patterns -/

def pat4 (a b c d : Nat) : Nat := (1 <<< a) ||| (1 <<< b) ||| (1 <<< c) ||| (1 <<< d)

/-- number of set bits among the 24 bit positions of a code word -/
def wt (e : Nat) : Nat := ((List.range 24).filter (fun i => e.testBit i)).length

/-- a witness table: slot `s` (24 bits wide) holds the first pattern of weight ≤ 3 (sorted
    representatives) whose syndrome is `s`.  Only a witness — everything used about it is checked. -/
def lookupT (T s : Nat) : Nat := (T >>> (24 * s)) &&& 0xFFFFFF
def sorted3 : List (Nat × Nat × Nat) :=
  (List.range 24).flatMap fun i => (List.range (i + 1)).flatMap fun j => (List.range (j + 1)).map fun k => (i, j, k)
def buildT : Nat :=
  sorted3.foldl (fun t (p : Nat × Nat × Nat) =>
    let e := pat p.1 p.2.1 p.2.2
    let s := synF e
    if lookupT t s = 0 then t ||| (e <<< (24 * s)) else t) 0

theorem pat_swap12 (i j k : Nat) : pat i j k = pat j i k := by
  simp only [pat]; ac_rfl
theorem pat_swap23 (i j k : Nat) : pat i j k = pat i k j := by
  simp only [pat]; ac_rfl

/-- a property of the patterns that holds for sorted index triples holds for all triples -/
theorem sorted_rep (P : Nat → Prop)
    (h : ∀ a, a < 24 → ∀ b, b < a + 1 → ∀ c, c < b + 1 → P (pat a b c))
    (i j k : Nat) (hi : i < 24) (hj : j < 24) (hk : k < 24) : P (pat i j k) := by
  by_cases h1 : j ≤ i <;> by_cases h2 : k ≤ j <;> by_cases h3 : k ≤ i
  · exact h i hi j (by omega) k (by omega)
  · omega
  · -- j ≤ i, j < k ≤ i : i k j
    rw [pat_swap23]; exact h i hi k (by omega) j (by omega)
  · -- j ≤ i, j < k, i < k : k i j
    rw [pat_swap23, pat_swap12]; exact h k hk i (by omega) j (by omega)
  · -- i < j, k ≤ j, k ≤ i : j i k
    rw [pat_swap12]; exact h j hj i (by omega) k (by omega)
  · -- i < j, k ≤ j, i < k : j k i
    rw [pat_swap12, pat_swap23]; exact h j hj k (by omega) i (by omega)
  · omega
  · -- i < j < k : k j i
    rw [pat_swap12, pat_swap23, pat_swap12]; exact h k hk j (by omega) i (by omega)

theorem pat_ne_zero (i j k : Nat) : pat i j k ≠ 0 := by
  intro h
  have : (pat i j k).testBit i = true := by
    simp [pat, Nat.testBit_or, Nat.one_shiftLeft, Nat.testBit_two_pow]
  simp [h] at this

/-! ### from weights to bit positions -/

def bitsOr : List Nat → Nat
  | [] => 0
  | i :: l => (1 <<< i) ||| bitsOr l

theorem testBit_bitsOr (l : List Nat) (p : Nat) : (bitsOr l).testBit p = decide (p ∈ l) := by
  induction l with
  | nil => simp [bitsOr]
  | cons i l ih =>
    simp only [bitsOr, Nat.testBit_or, ih, Nat.one_shiftLeft, Nat.testBit_two_pow, List.mem_cons]
    by_cases h : i = p
    · simp [h]
    · have h' : ¬ p = i := fun hh => h hh.symm
      simp [h, h']

/-- the set bit positions of a 24-bit word, ascending -/
def bitsOf (e : Nat) : List Nat := (List.range 24).filter (fun i => e.testBit i)

theorem eq_bitsOr (e : Nat) (he : e < 2 ^ 24) : e = bitsOr (bitsOf e) := by
  apply Nat.eq_of_testBit_eq
  intro p
  rw [testBit_bitsOr]
  by_cases hp : p < 24
  · simp [bitsOf, hp]
  · have : e < 2 ^ p := Nat.lt_of_lt_of_le he (Nat.pow_le_pow_right (by decide) (by omega))
    simp [bitsOf, hp, Nat.testBit_lt_two_pow this]

theorem bitsOf_lt (e : Nat) : ∀ i ∈ bitsOf e, i < 24 := by
  intro i hi
  simp [bitsOf] at hi
  exact hi.1

theorem bitsOf_sorted (e : Nat) : (bitsOf e).Pairwise (· < ·) :=
  List.Pairwise.filter _ List.pairwise_lt_range

theorem wt_eq (e : Nat) : wt e = (bitsOf e).length := rfl

/-- a 24-bit word of weight ≤ 3 is 0 or one of the patterns the triple loop enumerates -/
theorem le3_cases (e : Nat) (he : e < 2 ^ 24) (hw : wt e ≤ 3) :
    e = 0 ∨ ∃ i j k, i < 24 ∧ j < 24 ∧ k < 24 ∧ e = pat i j k := by
  have hb := eq_bitsOr e he
  have hl := bitsOf_lt e
  rw [wt_eq] at hw
  match hm : bitsOf e, hw with
  | [], _ => left; rw [hb, hm]; rfl
  | [a], _ =>
    right; rw [hm] at hl hb
    exact ⟨a, a, a, hl a (by simp), hl a (by simp), hl a (by simp), by rw [hb]; simp [bitsOr, pat]⟩
  | [a, b], _ =>
    right; rw [hm] at hl hb
    exact ⟨a, b, b, hl a (by simp), hl b (by simp), hl b (by simp), by
      rw [hb]; simp [bitsOr, pat, Nat.or_assoc]⟩
  | [a, b, c], _ =>
    right; rw [hm] at hl hb
    exact ⟨a, b, c, hl a (by simp), hl b (by simp), hl c (by simp), by
      rw [hb]; simp [bitsOr, pat, Nat.or_assoc]⟩
  | _ :: _ :: _ :: _ :: _, h => simp at h

/-- a 24-bit word of weight 4 is `pat4 a b c d` with 24 > a > b > c > d -/
theorem eq4_cases (e : Nat) (he : e < 2 ^ 24) (hw : wt e = 4) :
    ∃ a b c d, a < 24 ∧ b < a ∧ c < b ∧ d < c ∧ e = pat4 a b c d := by
  have hb := eq_bitsOr e he
  have hl := bitsOf_lt e
  have hs := bitsOf_sorted e
  rw [wt_eq] at hw
  match hm : bitsOf e, hw with
  | [d, c, b, a], _ =>
    rw [hm] at hl hb hs
    simp only [List.pairwise_cons, List.mem_cons, List.not_mem_nil, or_false, forall_eq_or_imp,
      forall_eq] at hs
    refine ⟨a, b, c, d, hl a (by simp), by omega, by omega, by omega, ?_⟩
    rw [hb]; simp only [bitsOr, pat4, Nat.or_zero]; ac_rfl

end Acra.Lemmas.Golay
