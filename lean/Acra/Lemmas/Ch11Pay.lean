/-
  Helper lemmas shared by the Chapter 11 payload theorems: the intra-packet time stamp, element
  lists, and a variant of `Py.decOff_encAll` for loops whose continuation test cannot see a trailing
  element of minimal size (UART `abs(offset-len) > 4`, 1553 `offset + 14 < len`).
-/
import Acra.Model.Ch11PayTs
import Acra.Spec.Ch11
namespace Acra.Lemmas.Ch11Pay
open Acra.Py Acra.Model.Ch11Pay Acra.Gen.Ch11PayTs

/-- the time stamp fits its 64-bit field: a 48-bit counter, or two 32-bit words -/
def Ipts_WF : Ipts → Prop
  | .rtc c => c < 2 ^ 48
  | .ptp s ns => s < 2 ^ 32 ∧ ns < 2 ^ 32
  | .none => True

/-- the 8 bytes of a time stamp (none: no bytes) -/
def iptsBytes : Ipts → Bytes
  | .rtc c => encInt false 4 (c % 4294967296) ++ (encInt false 2 (c / 4294967296 % 65536) ++ encInt false 2 0)
  | .ptp s ns => encInt false 4 ns ++ encInt false 4 s
  | .none => []

def sameKind : Ipts → Ipts → Prop
  | .rtc _, .rtc _ => True
  | .ptp _ _, .ptp _ _ => True
  | .none, .none => True
  | _, _ => False

theorem iptsBytes_length (i : Ipts) (h : i ≠ .none) : (iptsBytes i).length = 8 := by
  cases i <;> simp_all [iptsBytes]

theorem iptsBytes_length' (i : Ipts) : (iptsBytes i).length = if i = .none then 0 else 8 := by
  cases i <;> simp [iptsBytes]

theorem Ipts_pack_eq (i : Ipts) (h : Ipts_WF i) (hn : i ≠ .none) : i.pack = .ok (iptsBytes i) := by
  cases i with
  | rtc c =>
    have hf : Fits RTC_pack_fmt0.codes [c % 4294967296, c / 4294967296 % 65536, 0] := by
      simp [Fits, RTC_pack_fmt0, Code.bound]; omega
    simp only [Ipts.pack, structPack_eq _ _ hf]
    simp [iptsBytes, RTC_pack_fmt0, encCodes, Code.size]
  | ptp s ns =>
    obtain ⟨h1, h2⟩ := h
    have hf : Fits PTP_pack_fmt0.codes [ns, s] := by
      simp [Fits, PTP_pack_fmt0, Code.bound]; omega
    simp only [Ipts.pack, structPack_eq _ _ hf]
    simp [iptsBytes, PTP_pack_fmt0, encCodes, Code.size]
  | none => exact absurd rfl hn

/-- decoding the 8 bytes into a time stamp object of the same kind (whatever it held) gives the value back -/
theorem Ipts_unpack_bytes (i t : Ipts) (h : Ipts_WF i) (hk : sameKind t i) (hn : i ≠ .none) :
    Ipts.unpack t (iptsBytes i) = .ok i := by
  cases i with
  | rtc c =>
    cases t <;> simp [sameKind] at hk
    simp only [Ipts_WF] at h
    simp only [Ipts.unpack, iptsBytes, structUnpack, RTC_unpack_fmt0, Fmt.size, codesSize, Code.size,
      List.length_append, encInt_length, unpackCodes, if_true, take_encInt_append, drop_encInt_append, take_encInt]
    rw [decInt_encInt4 _ _ (by omega), decInt_encInt2 _ _ (by omega)]
    simp only [Except.ok.injEq, Ipts.rtc.injEq]
    omega
  | ptp s ns =>
    cases t <;> simp [sameKind] at hk
    obtain ⟨h1, h2⟩ := h
    simp only [Ipts.unpack, iptsBytes, structUnpack, PTP_unpack_fmt0, Fmt.size, codesSize, Code.size,
      List.length_append, encInt_length, unpackCodes, if_true, take_encInt_append, drop_encInt_append, take_encInt]
    rw [decInt_encInt4 _ _ (by omega), decInt_encInt4 _ _ (by omega)]
  | none => exact absurd rfl hn

/-- the time-stamp step of the word / frame decoders on bytes that start with an encoded time stamp -/
theorem unpackTs_bytes (i t : Ipts) (rest : Bytes) (h : Ipts_WF i) (hk : sameKind t i) :
    unpackTs t (iptsBytes i ++ rest) = .ok (i, (iptsBytes i).length) := by
  by_cases hn : i = .none
  · have ht : t = .none := by
      rw [hn] at hk; cases t <;> simp_all [sameKind]
    simp [unpackTs, ht, hn, iptsBytes]
  · have ht : t ≠ .none := by
      intro ht; rw [ht] at hk; cases i <;> simp_all [sameKind]
    have hl8 := iptsBytes_length _ hn
    have htake : List.take 8 (iptsBytes i ++ rest) = iptsBytes i := take_append_len _ _ _ hl8.symm
    simp [unpackTs, ht, htake, Ipts_unpack_bytes _ _ h hk hn, hl8]

theorem Ipts_unpack_kind (t i : Ipts) (buf : Bytes) (h : Ipts.unpack t buf = .ok i) : sameKind t i := by
  cases t <;> simp only [Ipts.unpack] at h
  · repeat' split at h
    all_goals simp_all [sameKind]
    all_goals (subst h; trivial)
  · repeat' split at h
    all_goals simp_all [sameKind]
    all_goals (subst h; trivial)
  · simp at h

/-- the declarative form of the same time stamp -/
def toSpec : Ipts → Spec.Ch11.TS
  | .rtc c => .rtc c
  | .ptp s ns => .ptp s ns
  | .none => .absent

theorem iptsBytes_spec (i : Ipts) (h : Ipts_WF i) : iptsBytes i = (toSpec i).encode := by
  cases i with
  | rtc c =>
    simp only [Ipts_WF] at h
    simp only [iptsBytes, toSpec, Spec.Ch11.TS.encode, encInt]
    have h6 := leBytes_add 2 4 c
    have e1 : leBytes 4 (c % 4294967296) = leBytes 4 c := by
      have := leBytes_mod 4 c; simpa using this
    have e2 : leBytes 2 (c / 4294967296 % 65536) = leBytes 2 (c / 4294967296) := by
      have := leBytes_mod 2 (c / 4294967296); simpa using this
    have e3 : leBytes 2 0 = [0, 0] := by decide
    simp only [Bool.false_eq_true, if_false, e1, e2, e3]
    rw [show (6 : Nat) = 4 + 2 from rfl, h6]
    simp
  | ptp s ns => simp [iptsBytes, toSpec, Spec.Ch11.TS.encode, encInt]
  | none => rfl

/-! ### element lists -/

theorem packList_eq (f : α → R Bytes) (g : α → Bytes) (xs : List α) (h : ∀ x ∈ xs, f x = .ok (g x)) :
    packList f xs = .ok (xs.flatMap g) := by
  induction xs with
  | nil => rfl
  | cons x xs ih =>
    simp only [packList, h x (by simp), ih (fun y hy => h y (by simp [hy])), List.flatMap_cons]

theorem packList_congr (f g : α → R Bytes) (xs : List α) (h : ∀ x ∈ xs, f x = g x) :
    packList f xs = packList g xs := by
  induction xs with
  | nil => rfl
  | cons x xs ih =>
    simp only [packList, h x (by simp), ih (fun y hy => h y (by simp [hy]))]

theorem packList_nofuel (f : α → R Bytes) (xs : List α) (h : ∀ x, f x ≠ .error .fuel) :
    packList f xs ≠ .error .fuel := by
  induction xs with
  | nil => simp [packList]
  | cons x xs ih =>
    simp only [packList]
    have := h x
    split
    · simp_all
    · split <;> simp_all

/-- Round trip for a list of records when the loop condition needs either a following byte or a
    "big" element: every element but the last may be of minimal size. -/
theorem decOff_encAll_last (dec1 : Bytes → R (α × Nat)) (more : Nat → Nat → Bool) (enc1 : α → Bytes)
    (Big : α → Prop) (xs : List α) (pre : Bytes) (fuel : Nat) (hfuel : xs.length < fuel)
    (hdec : ∀ x ∈ xs, ∀ rest, dec1 (enc1 x ++ rest) = .ok (x, (enc1 x).length))
    (hne : ∀ x ∈ xs, enc1 x ≠ [])
    (hmore : ∀ x ∈ xs, ∀ (p q : Bytes), (q ≠ [] ∨ Big x) → more p.length (p ++ (enc1 x ++ q)).length = true)
    (hlast : ∀ x, xs.getLast? = some x → Big x)
    (hstop : ∀ n, more n n = false) :
    decOff dec1 more (pre ++ xs.flatMap enc1) fuel pre.length = .ok xs := by
  induction xs generalizing pre fuel with
  | nil =>
    cases fuel with
    | zero => omega
    | succ fuel => simp [decOff, hstop]
  | cons x xs ih =>
    cases fuel with
    | zero => omega
    | succ fuel =>
      unfold decOff
      have hq : (xs.flatMap enc1 ≠ [] ∨ Big x) := by
        cases xs with
        | nil => right; exact hlast x (by simp)
        | cons y ys =>
          left
          have := hne y (by simp)
          simp only [List.flatMap_cons, ne_eq, List.append_eq_nil_iff, not_and]
          intro h; exact absurd h this
      have hm := hmore x (by simp) pre (xs.flatMap enc1) hq
      simp only [List.flatMap_cons] at hm ⊢
      rw [hm]
      simp only [if_true, List.drop_left']
      rw [hdec x (by simp) (xs.flatMap enc1)]
      simp only
      have := ih (pre ++ enc1 x) fuel (by simp at hfuel; omega)
        (fun y hy => hdec y (by simp [hy])) (fun y hy => hne y (by simp [hy]))
        (fun y hy => hmore y (by simp [hy]))
        (fun y hy => hlast y (by
          cases xs with
          | nil => simp at hy
          | cons z zs => simpa [List.getLast?_cons_cons] using hy))
      simp only [List.append_assoc, List.length_append] at this
      rw [this]

theorem flatMap_length_ge (enc1 : α → Bytes) (xs : List α) (h : ∀ x ∈ xs, 1 ≤ (enc1 x).length) :
    xs.length ≤ (xs.flatMap enc1).length := by
  induction xs with
  | nil => simp
  | cons x xs ih =>
    have h1 := h x (by simp)
    have h2 := ih (fun y hy => h y (by simp [hy]))
    simp only [List.flatMap_cons, List.length_cons, List.length_append]; omega

end Acra.Lemmas.Ch11Pay
