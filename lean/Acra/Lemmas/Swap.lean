/-
  Helper lemmas for `endianness_swap` (C17): the slice-assignment model unfolds to the obvious
  recursion on groups; index formula; involution.
-/
import Acra.Model.Search
import Acra.Spec.Search
namespace Acra.Lemmas.Swap
open Acra.Py Acra.Model.Search

theorem swap2_nil : swap2 ([] : List α) = [] := by simp [swap2, getStride, setStride]

theorem swap2_cons2 (x y : α) (r : List α) : swap2 (x :: y :: r) = y :: x :: swap2 r := by
  simp [swap2, getStride, setStride]

theorem swap4_nil : swap4 ([] : List α) = [] := by simp [swap4, getStride, setStride]

theorem swap4_cons4 (a b c d : α) (r : List α) :
    swap4 (a :: b :: c :: d :: r) = d :: c :: b :: a :: swap4 r := by
  simp [swap4, getStride, setStride]

/-- induction in steps of two -/
theorem two_step {P : List α → Prop} (nil : P []) (one : ∀ x, P [x])
    (step : ∀ x y r, P r → P (x :: y :: r)) : ∀ l : List α, P l
  | [] => nil
  | [x] => one x
  | x :: y :: r => step x y r (two_step nil one step r)

/-- induction in steps of four -/
theorem four_step {P : List α → Prop} (nil : P []) (one : ∀ x, P [x]) (two : ∀ x y, P [x, y])
    (three : ∀ x y z, P [x, y, z])
    (step : ∀ a b c d r, P r → P (a :: b :: c :: d :: r)) : ∀ l : List α, P l
  | [] => nil
  | [x] => one x
  | [x, y] => two x y
  | [x, y, z] => three x y z
  | a :: b :: c :: d :: r => step a b c d r (four_step nil one two three step r)

theorem swap2_length (l : List α) (h : l.length % 2 = 0) : (swap2 l).length = l.length := by
  induction l using two_step with
  | nil => simp [swap2_nil]
  | one x => simp at h
  | step x y r ih => simp at h; simp [swap2_cons2, ih (by omega)]

theorem swap4_length (l : List α) (h : l.length % 4 = 0) : (swap4 l).length = l.length := by
  induction l using four_step with
  | nil => simp [swap4_nil]
  | one x => simp at h
  | two x y => simp at h
  | three x y z => simp at h
  | step a b c d r ih => simp at h; simp [swap4_cons4, ih (by omega)]

theorem swap2_swap2 (l : List α) (h : l.length % 2 = 0) : swap2 (swap2 l) = l := by
  induction l using two_step with
  | nil => simp [swap2_nil]
  | one x => simp at h
  | step x y r ih => simp at h; simp [swap2_cons2, ih (by omega)]

theorem swap4_swap4 (l : List α) (h : l.length % 4 = 0) : swap4 (swap4 l) = l := by
  induction l using four_step with
  | nil => simp [swap4_nil]
  | one x => simp at h
  | two x y => simp at h
  | three x y z => simp at h
  | step a b c d r ih => simp at h; simp [swap4_cons4, ih (by omega)]

theorem swap2_getD (l : List UInt8) (h : l.length % 2 = 0) (k : Nat) (hk : k < l.length) :
    (swap2 l).getD k 0 = l.getD (2 * (k / 2) + (2 - 1 - k % 2)) 0 := by
  induction l using two_step generalizing k with
  | nil => simp at hk
  | one x => simp at h
  | step x y r ih =>
    have h' : r.length % 2 = 0 := by simp at h; omega
    rw [swap2_cons2]
    match k with
    | 0 => simp
    | 1 => simp
    | k + 2 =>
      have e : 2 * ((k + 2) / 2) + (2 - 1 - (k + 2) % 2) = (2 * (k / 2) + (2 - 1 - k % 2)) + 2 := by omega
      rw [e]
      simp only [List.getD_cons_succ]
      exact ih h' k (by simp at hk; omega)

theorem swap4_getD (l : List UInt8) (h : l.length % 4 = 0) (k : Nat) (hk : k < l.length) :
    (swap4 l).getD k 0 = l.getD (4 * (k / 4) + (4 - 1 - k % 4)) 0 := by
  induction l using four_step generalizing k with
  | nil => simp at hk
  | one x => simp at h
  | two x y => simp at h
  | three x y z => simp at h
  | step a b c d r ih =>
    have h' : r.length % 4 = 0 := by simp at h; omega
    rw [swap4_cons4]
    match k with
    | 0 => simp
    | 1 => simp
    | 2 => simp
    | 3 => simp
    | k + 4 =>
      have e : 4 * ((k + 4) / 4) + (4 - 1 - (k + 4) % 4) = (4 * (k / 4) + (4 - 1 - k % 4)) + 4 := by omega
      rw [e]
      simp only [List.getD_cons_succ]
      exact ih h' k (by simp at hk; omega)

theorem swap2_eq_spec (l : Bytes) (h : l.length % 2 = 0) : swap2 l = Spec.swapGroups 2 l := by
  apply List.ext_getElem
  · simp [Spec.swapGroups, swap2_length l h]
  · intro i h1 h2
    have hi : i < l.length := by rwa [swap2_length l h] at h1
    have := swap2_getD l h i hi
    simp only [List.getD_eq_getElem?_getD, List.getElem?_eq_getElem h1, Option.getD_some] at this
    simp [Spec.swapGroups, this]

theorem swap4_eq_spec (l : Bytes) (h : l.length % 4 = 0) : swap4 l = Spec.swapGroups 4 l := by
  apply List.ext_getElem
  · simp [Spec.swapGroups, swap4_length l h]
  · intro i h1 h2
    have hi : i < l.length := by rwa [swap4_length l h] at h1
    have := swap4_getD l h i hi
    simp only [List.getD_eq_getElem?_getD, List.getElem?_eq_getElem h1, Option.getD_some] at this
    simp [Spec.swapGroups, this]

end Acra.Lemmas.Swap
