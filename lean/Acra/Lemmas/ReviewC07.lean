/-
  Review additions for C07: the PMT CRC and the STANAG 4609 checksum located in the BYTES `pack` emits
  (the existing `PMT_crc_std` / `STANAG_checksum_std` speak about the object's `payload` / `pesdata`
  attribute after `pack`).
-/
import Acra.Lemmas.MpegFlip
import Acra.Lemmas.CRCMpeg
import Acra.Spec.MPEG
namespace Acra.Lemmas.ReviewC07
open Acra.Py Acra.Model.MPEGTS Acra.Model.PMT Acra.Model.PES Acra.Lemmas.MPEGTS Acra.Lemmas.PMT Acra.Lemmas.PES
open Acra.Lemmas.MpegFlip Acra.Lemmas.CRCMpeg Acra.Gen.PES

/-- the 29 bytes the STANAG checksum protects: universal key, BER length 14, tag 2, length 8, time, tag 1, length 2 -/
def stanagProt (tm : Nat) : Bytes := Spec.MPEG.uasKey ++ [14, 2, 8] ++ beBytes 8 tm ++ [1, 2]

theorem stanagProt_length (tm : Nat) : (stanagProt tm).length = 29 := by simp [stanagProt, Spec.MPEG.uasKey]

theorem STANAG_prot_eq (tm : Nat) : STANAG_prot tm = stanagProt tm := by
  simp [STANAG_prot, stanagProt, STANAG4609_UNIVERSAL_KEY, Spec.MPEG.uasKey, STANAG4609_LEN, STANAG4609_DATA_TAG,
    STANAG4609_DTAG_LEN, STANAG4609_TIME_TAG, STANAG4609_TTAG_LEN, encInt, beBytes, leBytes]

/-- the metadata block: 5 bytes (counter, two undocumented fields), the protected bytes, their MISB checksum -/
theorem STANAG_data_split (c u1 u2 tm : Nat) :
    STANAG_data c u1 u2 tm =
      (beBytes 2 c ++ [Spec.MPEG.byte u1] ++ beBytes 2 u2) ++
        (stanagProt tm ++ beBytes 2 (Spec.MPEG.misbChecksum (stanagProt tm))) := by
  unfold STANAG_data
  rw [checksum_eq_spec, STANAG_prot_eq]
  simp [encInt, Spec.MPEG.byte, beBytes, leBytes]

/-- the bytes `STANAG4609.pack` emits: everything in front of the PES data (TS header, adaptation bytes, PES prefix,
    optional PES header), the 5 leading data bytes, the protected bytes, their checksum, 0xFF stuffing -/
theorem STANAG_pack_bytes (s : STANAG) (h : STANAG_WF s) (hw : PES_WF (STANAG_pes s)) :
    (STANAG.pack s).2 = .ok
      ((PES_front (STANAG_pes s) ++ (beBytes 2 s.stanag_counter ++ [Spec.MPEG.byte s.unknown] ++ beBytes 2 s.unknown2)) ++
        (stanagProt s.time_us ++ (beBytes 2 (Spec.MPEG.misbChecksum (stanagProt s.time_us)) ++
          List.replicate (188 - Pkt_used (PES_pkt (STANAG_pes s))) 0xFF))) := by
  rw [STANAG_pack_eq s h, PES_pack_eq _ hw]
  have hb := PES_bytes_withData (STANAG_pes s) (STANAG_pes s).pesdata rfl
  rw [withData_self] at hb
  show Except.ok (Pkt_bytes (PES_pkt (STANAG_pes s))) = _
  rw [hb]
  have hd : (STANAG_pes s).pesdata = STANAG_data s.stanag_counter s.unknown s.unknown2 s.time_us := rfl
  rw [hd, STANAG_data_split]
  simp [Pkt_stuffing, List.append_assoc]

/-- length of the part in front of the protected bytes -/
theorem STANAG_front_length (s : STANAG) :
    (PES_front (STANAG_pes s) ++ (beBytes 2 s.stanag_counter ++ [Spec.MPEG.byte s.unknown] ++ beBytes 2 s.unknown2)).length + 31 =
      Pkt_used (PES_pkt (STANAG_pes s)) := by
  have hd : (STANAG_pes s).pesdata.length = 36 := STANAG_data_length _ _ _ _
  have hp : (PES_pkt (STANAG_pes s)).payload = PES_payload (STANAG_pes s) := rfl
  simp only [Pkt_used, hp, PES_payload, PES_front, List.length_append, Pkt_hdr_length, PES_prefix_length, hd,
    beBytes_length, List.length_cons, List.length_nil]
  omega

/-- the bytes `MPEGPacketPMT.pack` emits: TS header, adaptation bytes, pointer field 0, the section without its CRC,
    the CRC-32/MPEG-2 of exactly those section bytes big-endian, 0xFF stuffing -/
theorem PMT_pack_bytes (s : PMT) (h : PMT_WF s) :
    (PMT.pack s).2 = .ok
      ((Pkt_hdr (PMT_pkt s) ++ Pkt_af (PMT_pkt s) ++ [0]) ++
        (PMT_body s ++ (beBytes 4 (Spec.MPEG.crc32mpeg2 (PMT_body s)) ++
          List.replicate (188 - Pkt_used (PMT_pkt s)) 0xFF))) := by
  rw [PMT_pack_eq s h, PMT_bytes_parts s]
  simp [PMT_body, PMT_loops, PMT_crc4, Pkt_stuffing, crc_eq_spec, encInt, List.append_assoc]

/-- the `section_length` field inside the emitted section: the CRC range (`PMT_body`) plus the 4 CRC bytes is the
    3 bytes up to and including `section_length` plus `section_length` bytes -/
theorem PMT_body_section_length (s : PMT) (h : PMT_WF s) :
    (((PMT_body s).getD 1 0).toNat * 256 + ((PMT_body s).getD 2 0).toNat) % 4096 + 3 = (PMT_body s).length + 4 := by
  have h1 : (PMT_body s).getD 1 0 = (PMT_hdr s).getD 1 0 := by
    simp only [PMT_body, List.getD_eq_getElem?_getD]
    rw [List.getElem?_append_left (by rw [PMT_hdr_length]; omega)]
  have h2 : (PMT_body s).getD 2 0 = (PMT_hdr s).getD 2 0 := by
    simp only [PMT_body, List.getD_eq_getElem?_getD]
    rw [List.getElem?_append_left (by rw [PMT_hdr_length]; omega)]
  rw [h1, h2, (PMT_hdr_steer s h).1]
  have := PMT_body_length s
  omega

end Acra.Lemmas.ReviewC07
