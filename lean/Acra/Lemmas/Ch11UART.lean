/-
  Helper lemmas for the UART format 0 model.
-/
import Acra.Model.Ch11UART
import Acra.Lemmas.Ch11Pay
import Acra.Lemmas.Ch11MIL1553
namespace Acra.Lemmas.Ch11UART
open Acra.Py Acra.Model.Ch11Pay Acra.Model.Ch11Pay.UART Acra.Gen.Ch11UART Acra.Lemmas.Ch11Pay

/-! ### `endian_swap` -/

theorem endianSwap_length (x : Bytes) : (endianSwap x).length = x.length - x.length % 2 := by
  induction x using endianSwap.induct with
  | case1 a b rest ih => simp only [endianSwap, List.length_cons, ih]; omega
  | case2 x hx =>
    match x with
    | [] => simp [endianSwap]
    | [a] => simp [endianSwap]
    | a :: b :: rest => exact absurd rfl (hx a b rest)

/-- on whole 16-bit words the swap is its own inverse -/
theorem endianSwap_involutive (x : Bytes) (h : x.length % 2 = 0) : endianSwap (endianSwap x) = x := by
  induction x using endianSwap.induct with
  | case1 a b rest ih =>
    simp only [List.length_cons] at h
    simp only [endianSwap, ih (by omega)]
  | case2 x hx =>
    match x with
    | [] => simp [endianSwap]
    | [a] => simp at h
    | a :: b :: rest => exact absurd rfl (hx a b rest)

/-- an odd trailing byte is dropped -/
theorem endianSwap_drops_odd (x : Bytes) (a : UInt8) (h : x.length % 2 = 0) : endianSwap (x ++ [a]) = endianSwap x := by
  induction x using endianSwap.induct with
  | case1 c b rest ih =>
    simp only [List.length_cons] at h
    simp only [List.cons_append, endianSwap, ih (by omega)]
  | case2 x hx =>
    match x with
    | [] => simp [endianSwap]
    | [c] => simp at h
    | c :: b :: rest => exact absurd rfl (hx c b rest)

/-! ### data words -/

/-- what the layout can carry: a 16-bit data length, a 14-bit sub-channel, a time stamp that fits -/
def Word_Fits (w : Word) : Prop := Ipts_WF w.ipts ∧ w.subchannel < 2 ^ 14 ∧ w.payload.length < 2 ^ 16

/-- what the decoder returns unchanged: additionally the sub-channel below 2^13 (the decoder masks
    with 0x1FFF — known finding K4) -/
def Word_WF (w : Word) : Prop := Word_Fits w ∧ w.subchannel < 2 ^ 13

def pad (n : Nat) : Bytes := if n % 2 = 1 then [0xFF] else []

/-- the data bytes with their fill byte, in the byte order selected by `data_endianness` -/
def body (w : Word) : Bytes :=
  if w.data_endianness = ENDIAN_LITTLE then endianSwap (w.payload ++ pad w.payload.length) else w.payload ++ pad w.payload.length

def wordHdr (w : Word) : Bytes :=
  encInt false 2 w.payload.length ++ encInt false 2 (if w.parity_error then w.subchannel + 0x8000 else w.subchannel)

def wordBytes (w : Word) : Bytes := iptsBytes w.ipts ++ (wordHdr w ++ body w)

/-- the decoder resets `datalength` to the number of data bytes -/
def norm (w : Word) : Word := { w with datalength := some w.payload.length }

theorem padded_even (n : Nat) (x : Bytes) (h : x.length = n) : (x ++ pad n).length % 2 = 0 := by
  simp only [pad, List.length_append, h]
  split <;> simp <;> omega

theorem body_length (w : Word) : (body w).length = w.payload.length + w.payload.length % 2 := by
  have he := padded_even w.payload.length w.payload rfl
  have hl : (w.payload ++ pad w.payload.length).length = w.payload.length + w.payload.length % 2 := by
    simp only [pad, List.length_append]; split <;> simp <;> omega
  simp only [body]
  split
  · rw [endianSwap_length, he, hl]; omega
  · exact hl

@[simp] theorem wordHdr_length (w : Word) : (wordHdr w).length = 4 := by simp [wordHdr]

theorem wordBytes_length (w : Word) :
    (wordBytes w).length = (if w.ipts = .none then 0 else 8) + 4 + w.payload.length + w.payload.length % 2 := by
  simp only [wordBytes, List.length_append, iptsBytes_length', wordHdr_length, body_length]; omega

theorem Word_pack_eq (w : Word) (h : Word_Fits w) : w.pack = .ok (wordBytes w) := by
  obtain ⟨h1, h2, h3⟩ := h
  have hts : (if w.ipts = .none then (.ok [] : R Bytes) else w.ipts.pack) = .ok (iptsBytes w.ipts) := by
    split
    · rename_i hn; rw [hn]; rfl
    · rename_i hn; exact Ipts_pack_eq _ h1 hn
  have hf : Fits UW_pack_fmt0.codes [w.payload.length, if w.parity_error then w.subchannel + 0x8000 else w.subchannel] := by
    simp only [Fits, UW_pack_fmt0, Code.bound, and_true]
    constructor
    · omega
    · split <;> omega
  have hz : Fits UW_pack_fmt1.codes [0xFF] := by simp [Fits, UW_pack_fmt1, Code.bound]
  simp only [Word.pack, hts, structPack_eq _ _ hf, structPack_eq _ _ hz]
  by_cases hodd : w.payload.length % 2 = 1
  · simp [hodd, wordBytes, wordHdr, body, pad, UW_pack_fmt0, UW_pack_fmt1, encCodes, Code.size, encInt, leBytes]
  · simp [hodd, wordBytes, wordHdr, body, pad, UW_pack_fmt0, encCodes, Code.size]

/-- what the decoder extracts from a word's bytes is the payload, in either byte order -/
theorem extract_body (w : Word) (pre rest : Bytes) (off : Nat) (hoff : off = pre.length) :
    Word.extract w.data_endianness (pre ++ (body w ++ rest)) off w.payload.length = w.payload := by
  subst hoff
  have he := padded_even w.payload.length w.payload rfl
  have hbl := body_length w
  unfold Word.extract
  by_cases hle : w.data_endianness = ENDIAN_LITTLE
  · have hb : body w = endianSwap (w.payload ++ pad w.payload.length) := by simp [body, hle]
    have hle' : (w.data_endianness == ENDIAN_LITTLE) = true := by simp [hle]
    by_cases hodd : w.payload.length % 2 = 1
    · have hs : slice (pre ++ (body w ++ rest)) pre.length (pre.length + w.payload.length + 1) = body w :=
        slice_mid _ _ _ _ _ rfl (by rw [hbl]; omega)
      have ho' : (w.payload.length % 2 == 1) = true := by simp [hodd]
      rw [if_pos hle', if_pos ho', hs, hb, endianSwap_involutive _ he]
      simp [pad, hodd]
    · have hp : pad w.payload.length = [] := by simp [pad, hodd]
      have hs : slice (pre ++ (body w ++ rest)) pre.length (pre.length + w.payload.length) = body w :=
        slice_mid _ _ _ _ _ rfl (by rw [hbl]; omega)
      have hev : w.payload.length % 2 = 0 := by omega
      have ho' : ¬ (w.payload.length % 2 == 1) = true := by simp [hodd]
      rw [if_pos hle', if_neg ho', hs, hb, hp, List.append_nil, endianSwap_involutive _ hev]
  · have hb : body w = w.payload ++ pad w.payload.length := by simp [body, hle]
    have hne : ¬ (w.data_endianness == ENDIAN_LITTLE) = true := by simpa using hle
    rw [if_neg hne, hb, List.append_assoc]
    exact slice_mid _ _ _ _ _ rfl rfl

theorem Word_unpack_bytes (w t : Word) (rest : Bytes) (h : Word_WF w) (hk : sameKind t.ipts w.ipts)
    (he : t.data_endianness = w.data_endianness) :
    Word.unpack t (wordBytes w ++ rest) = (norm w, .ok (wordBytes w).length) := by
  obtain ⟨⟨h1, h2, h3⟩, h4⟩ := h
  have hsplit : wordBytes w ++ rest = iptsBytes w.ipts ++ (wordHdr w ++ (body w ++ rest)) := by
    simp [wordBytes]
  have hts : unpackTs t.ipts (wordBytes w ++ rest) = .ok (w.ipts, (iptsBytes w.ipts).length) := by
    rw [hsplit]; exact unpackTs_bytes _ _ _ h1 hk
  generalize hoff : (iptsBytes w.ipts).length = off at hts
  have hdrop : List.drop off (wordBytes w ++ rest) = wordHdr w ++ (body w ++ rest) := by
    rw [hsplit]; exact drop_append_len _ _ _ hoff.symm
  have hlen : off + UW_unpack_fmt0.size ≤ (wordBytes w ++ rest).length := by
    rw [hsplit]; simp [UW_unpack_fmt0, Fmt.size, codesSize, Code.size, hoff]
  have hext : Word.extract t.data_endianness (wordBytes w ++ rest) (off + 4) w.payload.length = w.payload := by
    have : wordBytes w ++ rest = (iptsBytes w.ipts ++ wordHdr w) ++ (body w ++ rest) := by simp [wordBytes]
    rw [this, he]
    exact extract_body w _ rest _ (by simp [hoff])
  simp only [Word.unpack, hts, structUnpackFrom, hlen, if_true, hdrop]
  simp only [wordHdr, UW_unpack_fmt0, unpackCodes, Code.size, List.append_assoc, take_encInt_append, drop_encInt_append]
  have hsub : (if w.parity_error then w.subchannel + 0x8000 else w.subchannel) < 65536 := by split <;> omega
  have hl16 : w.payload.length < 65536 := by omega
  simp only [decInt_encInt2 _ _ hl16, decInt_encInt2 _ _ hsub, hext]
  have e1 : (if w.parity_error then w.subchannel + 0x8000 else w.subchannel) % 8192 = w.subchannel := by
    split <;> omega
  have e2 : decide ((if w.parity_error then w.subchannel + 0x8000 else w.subchannel) / 32768 ≠ 0) = w.parity_error := by
    cases hpe : w.parity_error
    · simp; omega
    · simp
  have e3 : off + 4 + w.payload.length + (if w.payload.length % 2 == 1 then 1 else 0) = (wordBytes w).length := by
    rw [wordBytes_length, ← hoff, iptsBytes_length']
    by_cases hodd : w.payload.length % 2 = 1
    · simp [hodd]
    · have : w.payload.length % 2 = 0 := by omega
      simp [this]
  simp only [e1, e2, e3, norm, he]

theorem Word_eq_iff (a b : Word) :
    Word.eq a b = true ↔ (a.ipts = b.ipts ∧ a.parity_error = b.parity_error ∧ a.subchannel = b.subchannel ∧
      a.datalength = b.datalength ∧ a.payload = b.payload) := by
  simp only [Word.eq, Bool.and_eq_true, beq_iff_eq]
  constructor
  · rintro ⟨⟨⟨⟨h1, h2⟩, h3⟩, h4⟩, h5⟩; exact ⟨h1, h2, h3, h4, h5⟩
  · rintro ⟨h1, h2, h3, h4, h5⟩; exact ⟨⟨⟨⟨h1, h2⟩, h3⟩, h4⟩, h5⟩

end Acra.Lemmas.Ch11UART
