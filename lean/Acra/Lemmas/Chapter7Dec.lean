/-
  Chapter 7, part 4: the decapsulator on the frames of normal traffic.
  `parse` = the greedy PTDP parser that the non-low-latency phase of `get_aligned_payload` runs;
  chunking: parsing `x ++ y` = parsing `x`, then parsing (what was left of x) ++ y;
  on a truncated valid stream the parser returns exactly the PTDPs that are complete.
-/
import Acra.Lemmas.Chapter7Gap
import Acra.Lemmas.Chapter7Enc
namespace Acra.Lemmas.Chapter7
open Acra.Py Acra.Model Acra.Model.Chapter7 Acra.Gen.Chapter7
open Acra.Spec.Ch7 (offset startsAux)

/-- a PTDP as the library's `datapkts_to_ptdp` builds it and as the decapsulator returns it -/
def Canon (p : PTDP.State) : Prop := PTDP_WF p ∧ p.low_latency = false ∧ p.length = p.payload.length

theorem canon_eta (p : PTDP.State) (h : Canon p) :
    ({ p with length := p.payload.length, low_latency := false } : PTDP.State) = p := by
  obtain ⟨_, h2, h3⟩ := h
  cases p; simp_all

theorem unpack_encB (p : PTDP.State) (h : Canon p) (rest : Bytes) :
    PTDP.unpack PTDP.fresh (encB p ++ rest) = (p, .ok rest) := by
  have := ptdp_unpack_noisy p PTDP.fresh h.1 0 0 (by decide) (by decide) wt_zero_le wt_zero_le rest
  rw [canon_eta p h] at this
  simpa [encB, List.append_assoc] using this

/-- a proper prefix of a PTDP's bytes cannot be decoded yet -/
theorem unpack_proper_prefix (p : PTDP.State) (h : PTDP_WF p) (m : Nat) (hm : m < (encB p).length)
    (t : PTDP.State) : (PTDP.unpack t ((encB p).take m)).2 = .error .ptdpRemaining := by
  by_cases h6 : m < 6
  · rw [ptdp_unpack_short t _ (by simp; omega)]
  · have hsplit : (encB p).take m = noisyWord (lswOf p) 0 ++ noisyWord p.payload.length 0 ++ p.payload.take (m - 6) := by
      simp only [encB, List.take_append, noisyWord_length, List.length_append]
      rw [List.take_of_length_le (by simp; omega), List.take_of_length_le (by simp; omega)]
    obtain ⟨hf, hc, hp⟩ := h
    have hl : lswOf p < 4096 := by simp only [lswOf]; omega
    rw [hsplit, ptdp_unpack_words t _ _ _ (lswOf p) p.payload.length (by simp) (by simp)
      (decode_noisyWord _ _ hl (by decide) wt_zero_le) (decode_noisyWord _ _ (by omega) (by decide) wt_zero_le)]
    have a1 : lswOf p &&& 0xF = 0 := by rw [and_f]; simp only [lswOf]; omega
    rw [encB_length] at hm
    unfold ptdpCore
    simp only [a1, Nat.zero_shiftLeft, Nat.add_zero, PTDP_MAX_LEN, List.length_take]
    have h1 : ¬ p.payload.length > 2048 := by omega
    have h2 : min (m - 6) p.payload.length < p.payload.length := by omega
    simp only [h1, if_false, h2, if_true]

/-! ### the greedy parser -/

/-- PTDPs decoded from the front of `b` and what is left; the flag says the parser stopped on an
    illegal length rather than on incomplete data -/
def parse : Nat → Bytes → List PTDP.State × Bytes × Bool
  | 0, b => ([], b, false)
  | fuel + 1, b =>
    match PTDP.unpack PTDP.fresh b with
    | (p, .ok rest) =>
      let r := parse fuel rest
      (p :: r.1, r.2.1, r.2.2)
    | (_, .error .ptdpLength) => ([], b, true)
    | (_, .error _) => ([], b, false)


theorem parse_fuel : ∀ (f1 f2 : Nat) (b : Bytes), b.length < f1 → b.length < f2 → parse f1 b = parse f2 b := by
  intro f1
  induction f1 with
  | zero => intro _ _ h; omega
  | succ f1 ih =>
    intro f2 b h1 h2
    cases f2 with
    | zero => omega
    | succ f2 =>
      unfold parse
      cases hu : PTDP.unpack PTDP.fresh b with
      | mk p r =>
        cases r with
        | error e => cases e <;> rfl
        | ok rest =>
          have := (ptdp_unpack_ok_len _ _ _ _ hu).1
          simp only
          rw [ih f2 rest (by omega) (by omega)]

/-- the parser with the canonical amount of fuel -/
def parseB (b : Bytes) : List PTDP.State × Bytes × Bool := parse (b.length + 1) b

theorem parseB_ok (b : Bytes) (p : PTDP.State) (rest : Bytes) (h : PTDP.unpack PTDP.fresh b = (p, .ok rest)) :
    parseB b = (p :: (parseB rest).1, (parseB rest).2.1, (parseB rest).2.2) := by
  have hl := (ptdp_unpack_ok_len _ _ _ _ h).1
  unfold parseB
  conv => lhs; unfold parse
  simp only [h]
  rw [parse_fuel b.length (rest.length + 1) rest (by omega) (by omega)]

theorem parseB_remaining (b : Bytes) (h : (PTDP.unpack PTDP.fresh b).2 = .error .ptdpRemaining) :
    parseB b = ([], b, false) := by
  unfold parseB parse
  cases hu : PTDP.unpack PTDP.fresh b with
  | mk p r => rw [hu] at h; simp only at h; subst h; rfl

/-- success is stable under appending more bytes -/
theorem unpack_append_ok (t p : PTDP.State) (x y rest : Bytes) (h : PTDP.unpack t x = (p, .ok rest)) :
    PTDP.unpack t (x ++ y) = (p, .ok (rest ++ y)) := by
  have h6 : 6 ≤ x.length := by
    have := (ptdp_unpack_ok_len _ _ _ _ h).1; omega
  rw [ptdp_unpack_any t x h6] at h
  rw [ptdp_unpack_any t (x ++ y) (by simp; omega)]
  rw [slice_append_left x y (by omega), slice_append_left x y (by omega),
    List.drop_append_of_le_length (by omega)]
  unfold ptdpCore at h ⊢
  simp only at h ⊢
  split at h
  · cases h
  · rename_i h1
    split at h
    · cases h
    · rename_i h2
      simp only [h1, if_false]
      have h3 : ¬ (x.drop 6 ++ y).length < gval (slice x 3 6) + ((gval (slice x 0 3) &&& 0xF) <<< 12) := by
        simp only [List.length_append] at h2 ⊢; omega
      simp only [h3, if_false]
      injection h with hp hr
      injection hr with hr
      have hle : gval (slice x 3 6) + ((gval (slice x 0 3) &&& 0xF) <<< 12) ≤ (x.drop 6).length := by omega
      rw [List.take_append_of_le_length hle, List.drop_append_of_le_length hle, ← hp, ← hr]

/-- chunking: parse `x ++ y` = parse `x`, then parse what `x` left over followed by `y` -/
theorem parseB_append : ∀ (n : Nat) (x y : Bytes) (ps : List PTDP.State) (t : Bytes), x.length < n →
    parseB x = (ps, t, false) →
    parseB (x ++ y) = (ps ++ (parseB (t ++ y)).1, (parseB (t ++ y)).2.1, (parseB (t ++ y)).2.2) := by
  intro n
  induction n with
  | zero => intro _ _ _ _ h; omega
  | succ n ih =>
    intro x y ps t hn hx
    cases hu : PTDP.unpack PTDP.fresh x with
    | mk p r =>
      cases r with
      | ok rest =>
        have hl := (ptdp_unpack_ok_len _ _ _ _ hu).1
        rw [parseB_ok x p rest hu] at hx
        injection hx with h1 h2
        injection h2 with h2 h3
        have hrest : parseB rest = ((parseB rest).1, t, false) := by
          rw [← h2, ← h3]
        have := ih rest y (parseB rest).1 t (by omega) hrest
        rw [parseB_ok (x ++ y) p (rest ++ y) (unpack_append_ok _ _ _ _ _ hu), this, ← h1]
        rfl
      | error e =>
        have hx2 : parseB x = ([], x, e == .ptdpLength) := by
          unfold parseB parse
          rw [hu]
          cases e <;> rfl
        rw [hx2] at hx
        injection hx with h1 h2
        injection h2 with h2 h3
        subst h1 h2
        simp

/-- number of leading encodings that fit completely into the first `c` bytes -/
def doneCount : List Bytes → Nat → Nat
  | [], _ => 0
  | b :: bs, c => if b.length ≤ c then 1 + doneCount bs (c - b.length) else 0

theorem doneCount_le (bs : List Bytes) (c : Nat) : doneCount bs c ≤ bs.length := by
  induction bs generalizing c with
  | nil => simp [doneCount]
  | cons b bs ih => simp only [doneCount]; split <;> simp <;> have := ih (c - b.length) <;> omega

/-- the bytes of the complete PTDPs fit -/
theorem doneCount_fit (bs : List Bytes) (c : Nat) : ((bs.take (doneCount bs c)).flatten).length ≤ c := by
  induction bs generalizing c with
  | nil => simp [doneCount]
  | cons b bs ih =>
    simp only [doneCount]
    split
    · rw [Nat.add_comm, List.take_succ_cons]
      simp only [List.flatten_cons, List.length_append]
      have := ih (c - b.length); omega
    · simp

/-- on a truncated valid stream the parser returns exactly the complete PTDPs -/
theorem parseB_stream (ps : List PTDP.State) (hps : ∀ p ∈ ps, Canon p) (c : Nat)
    (hc : c < ((ps.map encB).flatten).length) :
    parseB (((ps.map encB).flatten).take c) =
      (ps.take (doneCount (ps.map encB) c),
       (((ps.map encB).flatten).take c).drop (((ps.map encB).take (doneCount (ps.map encB) c)).flatten).length,
       false) := by
  induction ps generalizing c with
  | nil => simp at hc
  | cons p ps ih =>
    simp only [List.map_cons, List.flatten_cons, doneCount]
    by_cases hle : (encB p).length ≤ c
    · simp only [hle, if_true]
      have ht : (encB p ++ (ps.map encB).flatten).take c = encB p ++ ((ps.map encB).flatten).take (c - (encB p).length) := by
        rw [List.take_append]
        rw [List.take_of_length_le hle]
      rw [ht, parseB_ok _ p _ (unpack_encB p (hps p (by simp)) _)]
      simp only [List.map_cons, List.flatten_cons, List.length_append] at hc
      rw [ih (fun q hq => hps q (by simp [hq])) (c - (encB p).length) (by omega)]
      rw [Nat.add_comm 1, List.take_succ_cons, List.take_succ_cons]
      simp only [List.flatten_cons, List.length_append]
      congr 2
      rw [← List.drop_drop, List.drop_left' rfl]
    · simp only [hle, if_false, List.take_zero, List.flatten_nil, List.length_nil, List.drop_zero]
      have ht : (encB p ++ (ps.map encB).flatten).take c = (encB p).take c := by
        rw [List.take_append_of_le_length (by omega)]
      rw [ht]
      exact parseB_remaining _ (unpack_proper_prefix p (hps p (by simp)).1 c (by omega) _)


/-! ### the decapsulator loop on a frame without low-latency data is the parser -/

theorem unpack_ll_false (t p : PTDP.State) (b rest : Bytes) (h : PTDP.unpack t b = (p, .ok rest)) :
    p.low_latency = false := by
  have h6 : 6 ≤ b.length := by
    have := (ptdp_unpack_ok_len _ _ _ _ h).1; omega
  rw [ptdp_unpack_any t b h6] at h
  unfold ptdpCore at h
  simp only at h
  split at h
  · cases h
  · split at h
    · cases h
    · injection h with hp _; rw [← hp]

/-- the last tuple the generator yields -/
def lastItem (r : List PTDP.State × Bytes × Bool) : Item := if r.2.2 then .lengthError else .remaining r.2.1

theorem gapLoop_parse (self : PTFR.State) (first : Bool) (rem : Option Bytes) :
    ∀ (fuel : Nat) (st : GapSt), st.isLlp = false → st.buf.length < fuel →
      (gapLoop self first rem fuel st).items = (parse fuel st.buf).1.map Item.pkt ++ [lastItem (parse fuel st.buf)] ∧
      (gapLoop self first rem fuel st).raised = none := by
  intro fuel
  induction fuel with
  | zero => intro _ _ h; omega
  | succ fuel ih =>
    intro st hl hf
    unfold gapLoop parse
    cases hu : PTDP.unpack PTDP.fresh st.buf with
    | mk p0 r =>
      have htot := ptdp_unpack_total PTDP.fresh st.buf
      rw [hu] at htot
      cases r with
      | error e =>
        rcases htot with ⟨_, h⟩ | h | h
        · cases h
        · simp only at h; injection h with h; subst h; simp [lastItem]
        · simp only at h; injection h with h; subst h; simp [lastItem]
      | ok rest =>
        have hlen := (ptdp_unpack_ok_len _ _ _ _ hu).1
        have hll := unpack_ll_false _ _ _ _ hu
        simp only [hl, Bool.false_eq_true, if_false]
        have hb := bookkeep_buf st ((PTDP.len p0 : Nat) : Int)
        cases hbk : bookkeep st ((PTDP.len p0 : Nat) : Int) with
        | mk st1 chk =>
          rw [hbk] at hb
          simp only at hb ⊢
          have := ih { st1 with buf := rest } (by simp only; rw [hb.2, hl]) (by simp only; omega)
          simp only at this
          rw [items_cons, raised_cons, this.1, this.2]
          have hp : ({ p0 with low_latency := false } : PTDP.State) = p0 := by
            cases p0; simp_all
          simp only [hp, List.map_cons, List.cons_append, lastItem, and_self]

/-- `get_aligned_payload` on a frame whose LLP flag is clear, given the carried remainder `r`, when
    the offset does not make it skip (the skip happens only for an empty remainder and 0 < offset < 0x7FF) -/
theorem gap_normal_frame (self : PTFR.State) (first : Bool) (r : Bytes) (hl : self.llp = false)
    (hoff : r = [] → self.ptdp_offset = 0 ∨ 0x7FF ≤ self.ptdp_offset) :
    (getAlignedPayload self first (some r)).items =
      (parseB (r ++ self.payload)).1.map Item.pkt ++ [lastItem (parseB (r ++ self.payload))] ∧
    (getAlignedPayload self first (some r)).raised = none := by
  unfold getAlignedPayload
  simp only [hl, Bool.false_eq_true, if_false, Option.isNone_some, Bool.false_and, Option.getD_some]
  have hbuf : (if (some r == some []) = true ∧
        (decide (self.ptdp_offset > 0) && decide (self.ptdp_offset < 0x7FF)) = true
      then self.payload.drop self.ptdp_offset else r ++ self.payload) = r ++ self.payload := by
    by_cases hr : r = []
    · rcases hoff hr with h | h
      · simp [h]
      · have : ¬ self.ptdp_offset < 2047 := by omega
        simp [this]
    · have : (some r == some []) = false := by
        simp only [Option.some_beq_some, beq_eq_false_iff_ne, ne_eq]; exact hr
      simp [this]
  simp only [Bool.and_eq_true] at hbuf ⊢
  rw [hbuf]
  have := gapLoop_parse self first (some r) (self.payload.length + r.length + 2)
    { buf := r ++ self.payload, isLlp := false, byteOffset := -(r.length : Int), doCheck := true, checkCount := 0 }
    rfl (by simp; omega)
  simp only at this
  rw [parse_fuel _ ((r ++ self.payload).length + 1) _ (by simp; omega) (by omega)] at this
  exact this

theorem consume_fold (ps : List PTDP.State) (last : Item) (acc : List PTDP.State) (rm : Option Bytes) :
    (ps.map Item.pkt ++ [last]).foldl consume (acc, rm) = consume (acc ++ ps, rm) last := by
  induction ps generalizing acc with
  | nil => simp
  | cons p ps ih =>
    simp only [List.map_cons, List.cons_append, List.foldl_cons, consume]
    rw [ih, List.append_assoc]; rfl

/-- the bytes `PTFR.pack` returns for a well-formed frame -/
def wire (f : PTFR.State) : Bytes := beBytes 1 (f.version + f.streamid * 16) ++ noisyWord (protOf f) 0 ++ f.payload

theorem pack_wire (f : PTFR.State) (h : PTFR_WF f) : (PTFR.pack f).2 = .ok (wire f) := by
  rw [ptfr_pack_eq f h]; rfl

/-- one step of the consumer loop, once the frame is known to unpack -/
theorem decStep_of_unpack (L : Nat) (st : DecSt) (frame : Bytes) (ptfr : PTFR.State)
    (hunp : PTFR.unpack { PTFR.fresh with length := L } frame = (ptfr, .ok ())) :
    decStep L st frame =
      ({ ptdps := ((getAlignedPayload ptfr st.first st.rem).items.foldl consume (st.ptdps, st.rem)).1,
         rem := ((getAlignedPayload ptfr st.first st.rem).items.foldl consume (st.ptdps, st.rem)).2,
         first := false }, (getAlignedPayload ptfr st.first st.rem).raised) := by
  unfold decStep
  rw [hunp]

/-- one step of the consumer loop on a frame without low-latency data -/
theorem decStep_normal (L : Nat) (st : DecSt) (f : PTFR.State) (r : Bytes) (hwf : PTFR_WF f) (hl : f.llp = false)
    (hL : f.payload.length ≤ L) (hr : st.rem = some r)
    (hoff : r = [] → f.ptdp_offset = 0 ∨ 0x7FF ≤ f.ptdp_offset)
    (hflag : (parseB (r ++ f.payload)).2.2 = false) :
    decStep L st (wire f) =
      ({ ptdps := st.ptdps ++ (parseB (r ++ f.payload)).1, rem := some (parseB (r ++ f.payload)).2.1,
         first := false }, none) := by
  have hu := ptfr_unpack_noisy f { PTFR.fresh with length := L } hwf 0 (by decide) wt_zero_le hL
  rw [decStep_of_unpack L st (wire f) _ hu, hr]
  have hg := gap_normal_frame { f with length := L } st.first r hl hoff
  simp only at hg
  rw [hg.1, hg.2, consume_fold]
  simp only [lastItem, hflag, Bool.false_eq_true, if_false, consume]


/-! ### all the frames of a normal stream -/

theorem frameOf_facts (L sid : Nat) (hL2 : L ≤ 2047) (hs : sid < 16) (S : Bytes) (st : List Nat) (k : Nat)
    (hk : (k + 1) * L ≤ S.length) :
    PTFR_WF (frameOf L sid S st k) ∧ (frameOf L sid S st k).llp = false ∧
    (frameOf L sid S st k).payload.length = L := by
  have hlen : (slice S (k * L) ((k + 1) * L)).length = L := by
    rw [slice_length]; rw [succ_mul'] at hk ⊢; omega
  refine ⟨⟨by simp [frameOf, newPtfr, PTFR.fresh], by simpa [frameOf, newPtfr, PTFR.fresh] using hs,
    offset_lt L _ k hL2, ?_⟩, rfl, hlen⟩
  simp only [frameOf, newPtfr]; exact hlen

/-- a frame that begins exactly where a PTDP begins has offset 0 -/
theorem offset_zero_at_boundary (L : Nat) (hL : 0 < L) (bs : List Bytes) (hne : ∀ b ∈ bs, b ≠ []) (k m : Nat)
    (ha : ((bs.take m).flatten).length = k * L) (hlt : k * L < bs.flatten.length) :
    offset L (startsAux 0 bs) k = 0 := by
  have hsplit : bs = bs.take m ++ bs.drop m := (List.take_append_drop m bs).symm
  have hdne : bs.drop m ≠ [] := by
    intro h
    rw [h, List.append_nil] at hsplit
    rw [← hsplit] at ha; omega
  obtain ⟨b, rest, hd⟩ := List.exists_cons_of_ne_nil hdne
  rw [hsplit, startsAux_append, hd, Nat.zero_add, ha]
  simp only [startsAux]
  rw [offset_def, List.find?_append, find_none_of_lt L k _ (by
    intro q hq
    have := startsAux_lt 0 (bs.take m) (fun x hx => hne x (List.mem_of_mem_take hx)) q hq
    omega)]
  have hin : inFrame L k (k * L) = true := by simp [inFrame, succ_mul']; omega
  simp [hin]

theorem take_succ_frame (S : Bytes) (k L : Nat) :
    S.take (k * L) ++ slice S (k * L) ((k + 1) * L) = S.take ((k + 1) * L) := by
  have h1 : S.take (k * L) = slice S 0 (k * L) := by simp [slice]
  have h2 : S.take ((k + 1) * L) = slice S 0 ((k + 1) * L) := by simp [slice]
  rw [h1, h2, slice_append_slice _ _ _ _ (by omega) (by rw [succ_mul']; omega)]

/-- the consumer loop over frames k, k+1, …, n-1 of a normal stream -/
theorem decFold_frames (L sid : Nat) (hL : 0 < L) (hL2 : L ≤ 2047) (hs : sid < 16)
    (ps : List PTDP.State) (hps : ∀ p ∈ ps, Canon p) (n : Nat)
    (hn : n * L < ((ps.map encB).flatten).length) :
    ∀ (j k : Nat) (fst : Bool), k + j = n →
      decFold L ((List.range' k j).map
          (fun i => wire (frameOf L sid (ps.map encB).flatten (startsAux 0 (ps.map encB)) i)))
        { ptdps := (parseB (((ps.map encB).flatten).take (k * L))).1,
          rem := some (parseB (((ps.map encB).flatten).take (k * L))).2.1, first := fst } =
      ({ ptdps := (parseB (((ps.map encB).flatten).take (n * L))).1,
         rem := some (parseB (((ps.map encB).flatten).take (n * L))).2.1,
         first := if j = 0 then fst else false }, none) := by
  intro j
  induction j with
  | zero => intro k fst hk; simp only [Nat.add_zero] at hk; subst hk; simp [decFold]
  | succ j ih =>
    intro k fst hk
    have hkn : (k + 1) * L ≤ n * L := Nat.mul_le_mul_right L (by omega)
    have hkn' : k * L ≤ (k + 1) * L := by rw [succ_mul']; omega
    have hencne : ∀ b ∈ ps.map encB, b ≠ [] := by
      intro b hb; simp only [List.mem_map] at hb; obtain ⟨p, _, rfl⟩ := hb; exact encB_ne p
    -- what the parser has after k frames, and after k+1
    have hk1 := parseB_stream ps hps (k * L) (by omega)
    have hk2 := parseB_stream ps hps ((k + 1) * L) (by omega)
    have happ := parseB_append (((ps.map encB).flatten).take (k * L)).length.succ
      (((ps.map encB).flatten).take (k * L))
      (slice (ps.map encB).flatten (k * L) ((k + 1) * L)) _ _ (Nat.lt_succ_self _) hk1
    rw [take_succ_frame, hk2] at happ
    simp only [Prod.mk.injEq] at happ
    obtain ⟨h1, h2, h3⟩ := happ
    obtain ⟨hwf, hll, hplen⟩ := frameOf_facts L sid hL2 hs (ps.map encB).flatten (startsAux 0 (ps.map encB)) k (by omega)
    simp only [List.range'_succ, List.map_cons, decFold]
    have hstep := decStep_normal L
      { ptdps := (parseB (((ps.map encB).flatten).take (k * L))).1,
        rem := some (parseB (((ps.map encB).flatten).take (k * L))).2.1, first := fst }
      (frameOf L sid (ps.map encB).flatten (startsAux 0 (ps.map encB)) k)
      (parseB (((ps.map encB).flatten).take (k * L))).2.1 hwf hll (by omega) rfl
      (by
        intro hr
        left
        rw [hk1] at hr
        simp only at hr
        have hfit := doneCount_fit (ps.map encB) (k * L)
        have hlen := congrArg List.length hr
        simp only [List.length_drop, List.length_take, List.length_nil] at hlen
        exact offset_zero_at_boundary L hL (ps.map encB) hencne k (doneCount (ps.map encB) (k * L))
          (by omega) (by omega))
      (by rw [hk1]; simp only [frameOf_payload]; exact h3.symm)
    rw [hstep]
    simp only
    have hnext := ih (k + 1) false (by omega)
    rw [hk2] at hnext
    simp only [hk1, frameOf_payload, ← h1, ← h2] at hnext ⊢
    rw [hnext]
    simp

theorem ptdpsOf_canon (b : Bytes) : ∀ p ∈ ptdpsOf b false, Canon p := by
  intro p hp
  have h := ptdpsOf_wf b false p hp
  refine ⟨h.1, h.2, ?_⟩
  unfold ptdpsOf at hp
  split at hp
  · simp only [List.mem_singleton] at hp; subst hp; rfl
  · rename_i hgt
    simp only [PTDP_MAX_LEN] at hgt hp
    rw [fragmentsFrom_eq b false _ (by omega) _ 0 (by omega)] at hp
    simp only [List.mem_map] at hp
    obtain ⟨i, _, rfl⟩ := hp
    rfl

end Acra.Lemmas.Chapter7
