/-
  Chapter 7, part 2: the decapsulator loop (`get_aligned_payload`) terminates — the fuel the model
  gives it never runs out — and yields at most one tuple per iteration.
  Measure: a low-latency iteration consumes ≥ 7 bytes of the frame payload (6 header bytes and the
  continuation byte), a normal one ≥ 6 bytes of `remainder + payload`; the switch from the first
  phase to the second happens at most once.
-/
import Acra.Lemmas.Chapter7
namespace Acra.Lemmas.Chapter7
open Acra.Py Acra.Model Acra.Model.Chapter7 Acra.Gen.Chapter7

/-- PTDP.unpack only ever raises the two PTDP exceptions -/
theorem ptdp_unpack_total (t : PTDP.State) (b : Bytes) :
    (∃ rest, (PTDP.unpack t b).2 = .ok rest) ∨ (PTDP.unpack t b).2 = .error .ptdpRemaining ∨
    (PTDP.unpack t b).2 = .error .ptdpLength := by
  by_cases h : b.length < 6
  · right; left; rw [ptdp_unpack_short t b h]
  · rw [ptdp_unpack_any t b (by omega)]
    unfold ptdpCore
    simp only
    split
    · right; right; rfl
    · split
      · right; left; rfl
      · left; exact ⟨_, rfl⟩

/-- a successful PTDP.unpack consumes at least the 6 header bytes -/
theorem ptdp_unpack_ok_len (t p : PTDP.State) (b rest : Bytes) (h : PTDP.unpack t b = (p, .ok rest)) :
    rest.length + 6 ≤ b.length ∧ rest.length + PTDP.len p = b.length := by
  by_cases h6 : b.length < 6
  · rw [ptdp_unpack_short t b h6] at h; cases h
  · rw [ptdp_unpack_any t b (by omega)] at h
    unfold ptdpCore at h
    simp only at h
    split at h
    · cases h
    · split at h
      · cases h
      · rename_i h1 h2
        injection h with hp hr
        injection hr with hr
        subst hp hr
        simp only [List.length_drop, PTDP.len, List.length_take, PTDP_HDR_LEN] at h2 ⊢
        omega

theorem bookkeep_buf (st : GapSt) (plen : Int) :
    (bookkeep st plen).1.buf = st.buf ∧ (bookkeep st plen).1.isLlp = st.isLlp := by
  unfold bookkeep
  repeat' split
  all_goals exact ⟨rfl, rfl⟩

/-- phase and buffer after a low-latency PTDP -/
theorem afterLlp_cases (self : PTFR.State) (first : Bool) (rem : Option Bytes) (st1 : GapSt) (plen : Int)
    (rest : Bytes) (n : Nat) :
    let st2 := afterLlp self first rem st1 plen rest n
    (st2.isLlp = true ∧ st2.buf = rest.drop 1) ∨
    (st2.isLlp = false ∧ st2.buf.length ≤ self.payload.length) ∨
    (st2.isLlp = false ∧ st2.buf.length ≤ (rem.getD []).length + (rest.length - 1)) := by
  simp only [afterLlp]
  split
  · left; exact ⟨rfl, rfl⟩
  · split
    · right; left; refine ⟨rfl, ?_⟩; simp
    · cases rem with
      | none => right; right; refine ⟨rfl, ?_⟩; simp
      | some r => right; right; refine ⟨rfl, ?_⟩; simp

/-- iterations the loop can still make: see the file header -/
def gapNeed (P R : Nat) (st : GapSt) : Nat :=
  if st.isLlp then st.buf.length / 7 + (P + R) / 6 + 2 else st.buf.length / 6 + 1

theorem raised_cons (i : Item) (c : List Int) (o : GapOut) : (o.cons i c).raised = o.raised := rfl
theorem items_cons (i : Item) (c : List Int) (o : GapOut) : (o.cons i c).items = i :: o.items := rfl

theorem gapLoop_fuel (self : PTFR.State) (first : Bool) (rem : Option Bytes) (fuel : Nat) (st : GapSt)
    (hn : gapNeed self.payload.length (rem.getD []).length st ≤ fuel)
    (hinv : st.isLlp = true → st.buf.length ≤ self.payload.length) :
    (gapLoop self first rem fuel st).raised ≠ some .fuel := by
  induction fuel generalizing st with
  | zero => simp only [gapNeed] at hn; split at hn <;> omega
  | succ fuel ih =>
    unfold gapLoop
    cases hu : PTDP.unpack PTDP.fresh st.buf with
    | mk p0 r =>
      have htot := ptdp_unpack_total PTDP.fresh st.buf
      rw [hu] at htot
      cases r with
      | error e =>
        rcases htot with ⟨_, h⟩ | h | h
        · cases h
        · simp only at h; injection h with h; subst h; simp
        · simp only at h; injection h with h; subst h; simp
      | ok rest =>
        have hlen := (ptdp_unpack_ok_len _ _ _ _ hu).1
        simp only
        have hb := bookkeep_buf st ((PTDP.len p0 : Nat) : Int)
        cases hbk : bookkeep st ((PTDP.len p0 : Nat) : Int) with
        | mk st1 chk =>
          rw [hbk] at hb
          simp only at hb ⊢
          by_cases hl : st.isLlp = true
          · simp only [hl, if_true]
            cases hs : structUnpackFrom PTFR_gap_fmt0 rest 0 with
            | error e =>
              have := structUnpackFrom_error _ _ _ _ hs
              subst this; simp
            | ok vs =>
              have hr1 : 1 ≤ rest.length := by
                have := structUnpackFrom_ok_length _ _ _ _ hs
                simpa [PTFR_gap_fmt0, Fmt.size, codesSize, Code.size] using this
              match vs with
              | [] => simp
              | [n] =>
                simp only [raised_cons]
                apply ih
                · have hc := afterLlp_cases self first rem st1 ((PTDP.len p0 : Nat) : Int) rest n
                  simp only [gapNeed, hl, if_true] at hn
                  have hP := hinv hl
                  simp only [gapNeed]
                  rcases hc with ⟨h1, h2⟩ | ⟨h1, h2⟩ | ⟨h1, h2⟩
                  · simp only [h1, if_true, h2, List.length_drop]; omega
                  · simp only [h1]; simp only [Bool.false_eq_true, if_false]; omega
                  · simp only [h1]; simp only [Bool.false_eq_true, if_false]; omega
                · intro h2
                  have hc := afterLlp_cases self first rem st1 ((PTDP.len p0 : Nat) : Int) rest n
                  have hP := hinv hl
                  rcases hc with ⟨_, h3⟩ | ⟨h1, _⟩ | ⟨h1, _⟩
                  · rw [h3, List.length_drop]; omega
                  · rw [h1] at h2; cases h2
                  · rw [h1] at h2; cases h2
              | _ :: _ :: _ => simp
          · have hl' : st.isLlp = false := by cases h : st.isLlp <;> simp_all
            simp only [hl', Bool.false_eq_true, if_false, raised_cons]
            apply ih
            · simp only [gapNeed, hl', Bool.false_eq_true, if_false] at hn
              simp only [gapNeed, hb.2, hl', Bool.false_eq_true, if_false]
              omega
            · intro h2; rw [hb.2, hl'] at h2; cases h2

theorem gapLoop_items_le (self : PTFR.State) (first : Bool) (rem : Option Bytes) (fuel : Nat) (st : GapSt) :
    (gapLoop self first rem fuel st).items.length ≤ fuel := by
  induction fuel generalizing st with
  | zero => simp [gapLoop]
  | succ fuel ih =>
    unfold gapLoop
    split
    · simp
    · simp
    · simp
    · simp only
      split
      · split
        · simp
        · simp only [items_cons, List.length_cons]; exact Nat.succ_le_succ (ih _)
        · simp
      · simp only [items_cons, List.length_cons]
        exact Nat.succ_le_succ (ih _)

end Acra.Lemmas.Chapter7
