/- Kernel evaluation, part 5 of 5: after the first loop of `_initgolaydecode` every non-zero entry
   of ErrorTable is 4 and of CorrectTable is 0xFFF. -/
import Acra.Lemmas.GolayBase
namespace Acra.Lemmas.Golay
open Acra.Model.Golay Acra.Gen.Golay

set_option maxRecDepth 100000 in
theorem init_entries : ∀ s, s < 4096 → s ≠ 0 →
    (initEntry H_P s (0, 0, 0)).2.1 = 4 ∧ (initEntry H_P s (0, 0, 0)).2.2 = 0xFFF := by
  decide +kernel

end Acra.Lemmas.Golay
