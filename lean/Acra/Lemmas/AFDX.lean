/-
  Helper lemmas for `SimpleEthernet.AFDX`: closed forms of `unpack` (by buffer length) and of `pack` (under the
  well-formedness predicate), the frame against the declarative layout, and the shape of `__eq__`.
-/
import Acra.Model.AFDX
import Acra.Spec.AFDX
import Acra.Lemmas.Net
namespace Acra.Lemmas.AFDX
open Acra.Py Acra.Model.AFDX Acra.Gen.AFDX Acra.Lemmas.Net

/-! ### unpack -/

theorem set_dstmac_short (s : AFDX) (mac : Bytes) (h : mac.length < 6) :
    AFDX.set_dstmac s mac = (s, .error .struct) := by
  have : ¬ (4 + (2 + 0) ≤ mac.length) := by omega
  simp [AFDX.set_dstmac, structUnpackFrom, AFDX_set_dstmac_fmt0, Fmt.size, codesSize, Code.size, this]

theorem set_dstmac_eq (s : AFDX) (mac : Bytes) (h : 6 ≤ mac.length) :
    AFDX.set_dstmac s mac = ({ s with vlink := some (fld mac 4 6) }, .ok ()) := by
  have : 4 + (2 + 0) ≤ mac.length := by omega
  simp [AFDX.set_dstmac, structUnpackFrom, AFDX_set_dstmac_fmt0, Fmt.size, codesSize, Code.size, this, unpackCodes,
    decInt, take2_drop, fld]

theorem fld_take (buf : Bytes) (lo hi n : Nat) (h : hi ≤ n) : fld (buf.take n) lo hi = fld buf lo hi := by
  simp [fld, slice, List.take_take, Nat.min_eq_left h]

/-- fewer than 6 bytes: `set_dstmac` fails, nothing is assigned -/
theorem unpack_lt6 (s : AFDX) (buf : Bytes) (h : buf.length < 6) : AFDX.unpack s buf = (s, .error .struct) := by
  simp [AFDX.unpack, set_dstmac_short s (buf.take 6) (by simp; omega)]

/-- 6..13 bytes: the virtual link is assigned, then `unpack48(buf[6:12])` (6..11) or the ethertype read (12, 13) fails -/
theorem unpack_lt14 (s : AFDX) (buf : Bytes) (h6 : 6 ≤ buf.length) (h : buf.length < 14) :
    AFDX.unpack s buf = ({ s with vlink := some (fld buf 4 6) }, .error .struct) := by
  simp only [AFDX.unpack, set_dstmac_eq s (buf.take 6) (by simp; omega), fld_take buf 4 6 6 (by omega)]
  by_cases h12 : buf.length < 12
  · rw [unpack48_error _ (by simp; omega)]
  · rw [unpack48_eq _ (by simp; omega)]
    have : ¬ (12 + (2 + 0) ≤ buf.length) := by omega
    simp [AFDX.unpacksrcmac, structUnpackFrom, AFDX_unpack_fmt0, Fmt.size, codesSize, Code.size, this]

/-- 14 bytes or more: virtual link, ethertype and payload are assigned, then the sequence-number statement raises
    TypeError -/
theorem unpack_ge14 (s : AFDX) (buf : Bytes) (h : 14 ≤ buf.length) :
    AFDX.unpack s buf =
      ({ s with vlink := some (fld buf 4 6), type := some (fld buf 12 14),
                payload := some (slice buf 14 (buf.length - 1)) }, .error .type) := by
  simp only [AFDX.unpack, set_dstmac_eq s (buf.take 6) (by simp; omega), fld_take buf 4 6 6 (by omega)]
  rw [unpack48_eq _ (by simp; omega)]
  have : 12 + (2 + 0) ≤ buf.length := by omega
  simp [AFDX.unpacksrcmac, structUnpackFrom, AFDX_unpack_fmt0, Fmt.size, codesSize, Code.size, this, unpackCodes,
    decInt, take2_drop, fld, AFDX_HEADERLEN]

/-! ### pack -/

/-- every attribute exists and fits the width the frame allots (interface ID: 3 bits; the payload has the minimum
    length the class demands) -/
structure WF (s : AFDX) (ty net equip iface vlink : Nat) (payload : Bytes) (sq : Nat) : Prop where
  e_type : s.type = some ty
  e_net : s.networkID = some net
  e_equip : s.equipmentID = some equip
  e_iface : s.interfaceID = some iface
  e_vlink : s.vlink = some vlink
  e_payload : s.payload = some payload
  e_sq : s.sequencenum = some sq
  hty : ty < 2 ^ 16
  hnet : net < 2 ^ 8
  hequip : equip < 2 ^ 8
  hiface : iface < 2 ^ 3
  hvlink : vlink < 2 ^ 16
  hpayload : AFDX_MIN_PAYLOAD_LEN ≤ payload.length
  hsq : sq < 2 ^ 8

/-- the object with all seven attributes assigned -/
def full (ty net equip iface vlink : Nat) (payload : Bytes) (sq : Nat) : AFDX :=
  { type := some ty, networkID := some net, equipmentID := some equip, interfaceID := some iface,
    vlink := some vlink, payload := some payload, sequencenum := some sq }

theorem WF.eq_full {s : AFDX} (h : WF s ty net equip iface vlink payload sq) : s = full ty net equip iface vlink payload sq := by
  cases s; cases h; simp_all [full]

/-- the frame as the code builds it -/
def frame (ty net equip iface vlink : Nat) (payload : Bytes) (sq : Nat) : Bytes :=
  (encInt true 4 AFDX_DSTMAC_CONST ++ (encInt true 2 vlink ++ (encInt true 2 (AFDX_SRCMAC_CONST >>> 8) ++
    (encInt true 1 0 ++ (encInt true 1 net ++ (encInt true 1 equip ++ (encInt true 1 (iface <<< 5) ++
    encInt true 2 ty))))))) ++ payload ++ encInt true 1 sq

theorem pack_eq (s : AFDX) (h : WF s ty net equip iface vlink payload sq) :
    AFDX.pack s = (s, .ok (frame ty net equip iface vlink payload sq)) := by
  have h1 : Fits AFDX_pack_fmt0.codes [AFDX_DSTMAC_CONST, vlink, AFDX_SRCMAC_CONST >>> 8, 0, net, equip, iface <<< 5, ty] := by
    have := h.hty; have := h.hnet; have := h.hequip; have := h.hiface; have := h.hvlink
    simp only [shl5]
    simp [Fits, AFDX_pack_fmt0, Code.bound, AFDX_DSTMAC_CONST, AFDX_SRCMAC_CONST]; omega
  have h2 : Fits AFDX_pack_fmt1.codes [sq] := by
    have := h.hsq
    simp [Fits, AFDX_pack_fmt1, Code.bound]; omega
  have hp : ¬ payload.length < AFDX_MIN_PAYLOAD_LEN := by have := h.hpayload; omega
  simp only [AFDX.pack, h.e_payload, h.e_vlink, h.e_net, h.e_equip, h.e_iface, h.e_type, h.e_sq, hp,
    if_false, structPack_eq _ _ h1, structPack_eq _ _ h2]
  simp [frame, AFDX_pack_fmt0, AFDX_pack_fmt1, encCodes, Code.size]

theorem frame_length (ty net equip iface vlink : Nat) (payload : Bytes) (sq : Nat) :
    (frame ty net equip iface vlink payload sq).length = 14 + payload.length + 1 := by
  simp [frame]; omega

/-- the frame the code builds is the ARINC 664 layout -/
theorem frame_eq_spec (ty net equip iface vlink : Nat) (payload : Bytes) (sq : Nat) :
    frame ty net equip iface vlink payload sq = Spec.AFDX.encode vlink net equip iface ty payload sq := by
  have c1 : encInt true 4 AFDX_DSTMAC_CONST = Spec.AFDX.dstConst := by decide
  have c2 : encInt true 2 (AFDX_SRCMAC_CONST >>> 8) ++ encInt true 1 0 = Spec.AFDX.srcConst := by decide
  simp only [frame, Spec.AFDX.encode, Spec.AFDX.dstMac, Spec.AFDX.srcMac, c1, shl5]
  rw [← c2]
  simp [encInt]

/-- the twelve address bytes -/
def pre12 (net equip iface vlink : Nat) : Bytes :=
  encInt true 4 AFDX_DSTMAC_CONST ++ (encInt true 2 vlink ++ (encInt true 2 (AFDX_SRCMAC_CONST >>> 8) ++
    (encInt true 1 0 ++ (encInt true 1 net ++ (encInt true 1 equip ++ encInt true 1 (iface <<< 5))))))

@[simp] theorem pre12_length (net equip iface vlink : Nat) : (pre12 net equip iface vlink).length = 12 := by
  simp [pre12]

theorem frame_split (ty net equip iface vlink : Nat) (payload : Bytes) (sq : Nat) :
    frame ty net equip iface vlink payload sq =
      pre12 net equip iface vlink ++ (encInt true 2 ty ++ (payload ++ encInt true 1 sq)) := by
  simp [frame, pre12]

theorem fld_frame_vlink (ty net equip iface vlink : Nat) (payload : Bytes) (sq : Nat) (h : vlink < 2 ^ 16) :
    fld (frame ty net equip iface vlink payload sq) 4 6 = vlink := by
  simp only [fld, frame, List.append_assoc]
  rw [slice_mid _ _ _ 4 6 (by simp) (by simp)]
  simpa [decInt] using decInt_encInt2 true vlink (by omega)

theorem fld_frame_type (ty net equip iface vlink : Nat) (payload : Bytes) (sq : Nat) (h : ty < 2 ^ 16) :
    fld (frame ty net equip iface vlink payload sq) 12 14 = ty := by
  rw [fld, frame_split, slice_mid _ _ _ 12 14 (by simp) (by simp)]
  simpa [decInt] using decInt_encInt2 true ty (by omega)

theorem slice_frame_payload (ty net equip iface vlink : Nat) (payload : Bytes) (sq : Nat) :
    slice (frame ty net equip iface vlink payload sq) 14 ((frame ty net equip iface vlink payload sq).length - 1) = payload := by
  rw [frame_length, frame_split, ← List.append_assoc (pre12 _ _ _ _), slice_mid _ _ _ _ _ (by simp) (by simp)]

/-! ### `__eq__` -/

/-- both operands have all seven attributes: the loop is the comparison of the seven values -/
theorem eq_full (ty net equip iface vlink : Nat) (payload : Bytes) (sq : Nat)
    (ty' net' equip' iface' vlink' : Nat) (payload' : Bytes) (sq' : Nat) :
    AFDX.eq (full ty net equip iface vlink payload sq) (full ty' net' equip' iface' vlink' payload' sq') =
      .ok (decide (full ty net equip iface vlink payload sq = full ty' net' equip' iface' vlink' payload' sq')) := by
  simp only [AFDX.eq, AFDX_EQ_ATTRS, AFDX.eqLoop, AFDX.getattr, full, Option.map, AVal.lift]
  by_cases h1 : ty = ty' <;> by_cases h2 : net = net' <;> by_cases h3 : iface = iface' <;>
    by_cases h4 : equip = equip' <;> by_cases h5 : vlink = vlink' <;> by_cases h6 : sq = sq' <;>
    by_cases h7 : payload = payload' <;> simp [h1, h2, h3, h4, h5, h6, h7]

theorem eqLoop_cons_true (a b : AFDX) (attr : String) (rest : List String) :
    AFDX.eqLoop a b (attr :: rest) = .ok true ↔
      ∃ x, a.getattr attr = .ok x ∧ b.getattr attr = .ok x ∧ AFDX.eqLoop a b rest = .ok true := by
  simp only [AFDX.eqLoop]
  cases ha : a.getattr attr with
  | error e => simp
  | ok x =>
    cases hb : b.getattr attr with
    | error e => simp
    | ok y =>
      by_cases hxy : x = y
      · subst hxy; simp
      · simp [hxy]; intro h; exact absurd h.symm hxy

theorem lift_nat_ok (o : Option Nat) (x : AVal) :
    AVal.lift (o.map AVal.nat) = .ok x ↔ ∃ n, o = some n ∧ x = .nat n := by
  cases o <;> simp [Option.map, AVal.lift, eq_comm]

theorem lift_bytes_ok (o : Option Bytes) (x : AVal) :
    AVal.lift (o.map AVal.bytes) = .ok x ↔ ∃ n, o = some n ∧ x = .bytes n := by
  cases o <;> simp [Option.map, AVal.lift, eq_comm]

/-- `a == b` is `True` only if every attribute exists on both sides with the same value -/
theorem eq_true_fields (a b : AFDX) (h : AFDX.eq a b = .ok true) :
    a = b ∧ ∃ ty net equip iface vlink payload sq, a = full ty net equip iface vlink payload sq := by
  simp only [AFDX.eq, AFDX_EQ_ATTRS, eqLoop_cons_true, AFDX.getattr, lift_nat_ok, lift_bytes_ok] at h
  obtain ⟨_, ⟨t, ht, rfl⟩, ⟨t', ht', e1⟩, _, ⟨n, hn, rfl⟩, ⟨n', hn', e2⟩, _, ⟨i, hi, rfl⟩, ⟨i', hi', e3⟩,
    _, ⟨q, hq, rfl⟩, ⟨q', hq', e4⟩, _, ⟨v, hv, rfl⟩, ⟨v', hv', e5⟩, _, ⟨sq, hs, rfl⟩, ⟨sq', hs', e6⟩,
    _, ⟨p, hp, rfl⟩, ⟨p', hp', e7⟩, _⟩ := h
  cases e1; cases e2; cases e3; cases e4; cases e5; cases e6; cases e7
  obtain ⟨_, _, _, _, _, _, _⟩ := a
  obtain ⟨_, _, _, _, _, _, _⟩ := b
  simp only at ht ht' hn hn' hi hi' hq hq' hv hv' hs hs' hp hp'
  subst ht ht' hn hn' hi hi' hq hq' hv hv' hs hs' hp hp'
  exact ⟨rfl, _, _, _, _, _, _, _, rfl⟩

end Acra.Lemmas.AFDX
