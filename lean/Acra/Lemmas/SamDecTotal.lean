/-
  Termination of the SAM/DEC decommutator on arbitrary bytes (C08): none of the model's fuelled loops
  runs out.  The only loop whose progress depends on data is the slicing loop; it advances by
  `frame_length`, which is ≥ 1 whenever it survives the first iteration (an inferred length ≤ 0 yields
  an empty slice, which is not the sync word, so `frame_length` becomes None and the next test raises).
-/
import Acra.Lemmas.SamDec
namespace Acra.Lemmas.SamDec
open Acra.Py Acra.Model.SamDec Acra.Model.Search Acra.Gen.SamDec Acra.Spec Acra.Spec.SamDec

/-- result of a step that did not run out of fuel and keeps `frame_length` unset, unchanged-positive, or positive -/
def GoodOut (r : List Bytes × Option Int × Option Err) : Prop :=
  r.2.2 ≠ some .fuel ∧ (r.2.1 = none ∨ ∃ x : Int, r.2.1 = some x ∧ 1 ≤ x)

theorem sliceLoop_none (sync payload : Bytes) (fuel : Nat) (hf : 1 ≤ fuel) (off : Int) :
    sliceLoop sync payload fuel off none = ([], none, some .type) := by
  cases fuel with
  | zero => omega
  | succ fuel => rfl

/-- with a positive frame length and a non-negative offset the loop needs at most `len - off + 2` rounds -/
theorem sliceLoop_pos (sync payload : Bytes) (fl : Int) (hfl : 1 ≤ fl) :
    ∀ (fuel : Nat) (off : Int), 0 ≤ off → (payload.length : Int) - off + 2 ≤ fuel → 2 ≤ fuel →
      GoodOut (sliceLoop sync payload fuel off (some fl))
  | 0, _, _, _, h => by omega
  | fuel + 1, off, hoff, hfuel, _ => by
    unfold sliceLoop
    by_cases hc : off + fl ≤ payload.length
    · rw [if_pos hc]
      simp only
      have hfuel' : 2 ≤ fuel := by omega
      by_cases hs : ((pySlice payload off (off + fl)).take 4 != sync) = true
      · rw [if_pos hs, sliceLoop_none sync payload fuel (by omega)]
        exact ⟨by simp, Or.inl rfl⟩
      · rw [if_neg hs]
        have ih := sliceLoop_pos sync payload fl hfl fuel (off + fl) (by omega) (by omega) hfuel'
        exact ⟨ih.1, ih.2⟩
    · rw [if_neg hc]
      exact ⟨by simp, Or.inr ⟨fl, rfl, hfl⟩⟩

/-- an inferred length `len(payload) - 10 ≤ 0` dies at the first frame -/
theorem sliceLoop_nonpos (sync payload : Bytes) (hs : sync ≠ []) (hlen : payload.length ≤ 10) :
    sliceLoop sync payload (payload.length + 2) 10 (some ((payload.length : Int) - 10)) = ([], none, some .type) := by
  unfold sliceLoop
  have hc : (10 : Int) + ((payload.length : Int) - 10) ≤ payload.length := by omega
  rw [if_pos hc]
  simp only
  have e : (10 : Int) + ((payload.length : Int) - 10) = ((payload.length : Nat) : Int) := by omega
  rw [e, show (10 : Int) = ((10 : Nat) : Int) by rfl, pySlice_nat]
  have : slice payload 10 payload.length = [] := by
    simp [slice]; omega
  rw [this]
  have hne : (List.take 4 ([] : Bytes) != sync) = true := by
    cases sync with
    | nil => exact absurd rfl hs
    | cons a l => rfl
  rw [if_pos hne, sliceLoop_none _ _ _ (by omega)]

theorem occ_second_gt (t p : Bytes) (o0 o1 : Nat) (rest : List Nat) (h : occ t p = o0 :: o1 :: rest) : o0 < o1 := by
  have := Acra.Lemmas.Search.occ_pairwise t p
  rw [h, List.pairwise_cons] at this
  exact this.1 o1 (by simp)

open Acra.Model in
theorem onPacket_good (udp : Bytes) (fl : Option Int) (hfl : fl = none ∨ ∃ x : Int, fl = some x ∧ 1 ≤ x) :
    GoodOut (onPacket syncWord udp fl) := by
  unfold onPacket
  rcases iNetX.unpack iNetX.fresh udp with ⟨st, r⟩
  cases r with
  | error e => exact ⟨by simp, hfl⟩
  | ok u =>
    simp only
    split
    · rcases hfl with hfl | ⟨x, hfl, hx⟩
      · subst hfl
        simp only
        unfold inferLength
        rw [Acra.Lemmas.Search.bmh_eq_occ st.payload syncWord (by simp [syncWord])]
        match hocc : occ st.payload syncWord with
        | [] => exact ⟨by simp, Or.inl rfl⟩
        | [o0] =>
          simp only [List.map_cons, List.map_nil, SamDec_PCM_HDR_LEN]
          by_cases hl : st.payload.length ≤ 10
          · have := sliceLoop_nonpos syncWord st.payload (by simp [syncWord]) hl
            rw [show ((10 : Nat) : Int) = (10 : Int) by rfl, this]
            exact ⟨by simp, Or.inl rfl⟩
          · exact sliceLoop_pos syncWord st.payload _ (by omega) _ 10 (by omega) (by omega) (by omega)
        | o0 :: o1 :: rest =>
          simp only [List.map_cons, SamDec_PCM_HDR_LEN]
          have := occ_second_gt _ _ _ _ _ hocc
          exact sliceLoop_pos syncWord st.payload _ (by simp only [Int.ofNat_eq_natCast]; omega) _ 10
            (by omega) (by omega) (by omega)
      · subst hfl
        simp only [SamDec_PCM_HDR_LEN]
        exact sliceLoop_pos syncWord st.payload x hx _ 10 (by omega) (by omega) (by omega)
    · exact ⟨by simp, hfl⟩

theorem framesLoop_no_fuel (udps : List Bytes) (fl : Option Int)
    (hfl : fl = none ∨ ∃ x : Int, fl = some x ∧ 1 ≤ x) : (framesLoop syncWord udps fl).2 ≠ some .fuel := by
  induction udps generalizing fl with
  | nil => simp [framesLoop]
  | cons u us ih =>
    have hg := onPacket_good u fl hfl
    unfold framesLoop
    rcases hr : onPacket syncWord u fl with ⟨fs, fl', e⟩
    rw [hr] at hg
    cases e with
    | some e => simpa using hg.1
    | none =>
      simp only
      exact ih fl' hg.2

end Acra.Lemmas.SamDec
