/-
  The Internet checksum (RFC 1071) and its byte-order independence.

  `Spec.rfc1071` sums big-endian 16-bit words with end-around carry.  `ip_calc_checksum` in the code sums
  little-endian words as ordinary integers, folds the carries twice, complements, and stores the result
  with a native (little-endian) "H".  The two agree on the stored BYTES:

      leBytes 2 (65535 - sumFold (Σ wordsLE bs)) = beBytes 2 (Spec.rfc1071 bs)        (bs shorter than 128 KiB)

  Proof idea: both folds compute the representative `norm t` of the word sum modulo 65535 in [1, 65535]
  (0 only for an all-zero sum); swapping the bytes of a 16-bit word multiplies it by 256 modulo 65535;
  and the little-endian word sum is 256 times the big-endian one modulo 65535.
-/
import Acra.Py.Basic
import Acra.Spec.Net
namespace Acra.Lemmas.Sum16
open Acra.Py Acra.Spec

/-- the message as little-endian 16-bit words, an odd trailing byte padded with a zero byte -/
def wordsLE : Bytes → List Nat
  | [] => []
  | [a] => [a.toNat]
  | a :: b :: rest => (a.toNat + 256 * b.toNat) :: wordsLE rest

/-- the two folding steps of `ip_calc_checksum`, then `& 0xFFFF` -/
def sumFold (s : Nat) : Nat :=
  (s / 65536 + s % 65536 + (s / 65536 + s % 65536) / 65536) % 65536

/-- the representative of `t` modulo 65535 in 1..65535, and 0 for 0: the value of a one's-complement sum -/
def norm (t : Nat) : Nat := if t = 0 then 0 else (t - 1) % 65535 + 1

def swap16 (w : Nat) : Nat := (w % 256) * 256 + w / 256

theorem norm_le (t : Nat) : norm t ≤ 65535 := by unfold norm; split <;> omega
theorem norm_mod (t : Nat) : norm t % 65535 = t % 65535 := by unfold norm; split <;> omega
theorem norm_zero_iff (t : Nat) : norm t = 0 ↔ t = 0 := by unfold norm; split <;> omega

/-- uniqueness of the representative -/
theorem eq_norm (y t : Nat) (h1 : y ≤ 65535) (h2 : y % 65535 = t % 65535) (h3 : y = 0 ↔ t = 0) : y = norm t := by
  unfold norm; split <;> omega

/-- two folding steps are enough below 2^32 -/
theorem sumFold_eq_norm (s : Nat) (h : s < 4294967296) : sumFold s = norm s := by
  have hmod : s % 65535 = (s / 65536 + s % 65536) % 65535 := by omega
  have hzero : s = 0 ↔ s / 65536 + s % 65536 = 0 := by omega
  have hlt : s / 65536 + s % 65536 < 131071 := by omega
  unfold sumFold
  generalize s / 65536 + s % 65536 = s1 at *
  by_cases hc : s1 < 65536
  · have e : s1 / 65536 = 0 := by omega
    rw [e]
    apply eq_norm <;> omega
  · have e : s1 / 65536 = 1 := by omega
    rw [e]
    apply eq_norm <;> omega

theorem onesAdd_eq_norm (a b : Nat) (ha : a ≤ 65535) (hb : b ≤ 65535) : onesAdd a b = norm (a + b) := by
  apply eq_norm <;> unfold onesAdd <;> split <;> omega

/-- the one's-complement sum of 16-bit words is the representative of their ordinary sum -/
theorem foldl_onesAdd (ws : List Nat) (acc : Nat) (hacc : acc ≤ 65535) (hw : ∀ w ∈ ws, w ≤ 65535) :
    ws.foldl onesAdd acc = norm (norm acc + ws.sum) := by
  induction ws generalizing acc with
  | nil =>
    simp only [List.foldl_nil, List.sum_nil, Nat.add_zero]
    apply eq_norm _ _ hacc
    · rw [norm_mod]
    · rw [norm_zero_iff]
  | cons w ws ih =>
    have hw1 := hw w (by simp)
    simp only [List.foldl_cons, List.sum_cons]
    rw [ih _ (by rw [onesAdd_eq_norm _ _ hacc hw1]; exact norm_le _) (fun x hx => hw x (by simp [hx]))]
    rw [onesAdd_eq_norm _ _ hacc hw1]
    have e1 := norm_mod (acc + w)
    have e2 := norm_zero_iff (acc + w)
    have e3 := norm_mod acc
    have e4 := norm_zero_iff acc
    have e5 := norm_le acc
    have e6 := norm_le (acc + w)
    have e7 := norm_mod (norm (acc + w))
    have e8 := norm_zero_iff (norm (acc + w))
    apply eq_norm _ _ (norm_le _)
    · rw [norm_mod]; omega
    · rw [norm_zero_iff]; omega

theorem wordsBE_le : ∀ (bs : Bytes) (w : Nat), w ∈ wordsBE bs → w ≤ 65535
  | [], w, h => by simp [wordsBE] at h
  | [a], w, h => by
    have := a.toNat_lt
    simp [wordsBE] at h; omega
  | a :: b :: rest, w, h => by
    have := a.toNat_lt
    have := b.toNat_lt
    simp only [wordsBE, List.mem_cons] at h
    rcases h with h | h
    · omega
    · exact wordsBE_le rest w h

theorem wordsLE_sum_le : ∀ (bs : Bytes), (wordsLE bs).sum ≤ 65535 * ((bs.length + 1) / 2)
  | [] => by simp [wordsLE]
  | [a] => by
    have := a.toNat_lt
    simp [wordsLE]; omega
  | a :: b :: rest => by
    have := a.toNat_lt
    have := b.toNat_lt
    have ih := wordsLE_sum_le rest
    simp only [wordsLE, List.sum_cons, List.length_cons]
    omega

/-- the little-endian word sum is 256 times the big-endian one modulo 65535, and they vanish together -/
theorem sums_related : ∀ (bs : Bytes),
    (wordsLE bs).sum % 65535 = (256 * (wordsBE bs).sum) % 65535 ∧ ((wordsLE bs).sum = 0 ↔ (wordsBE bs).sum = 0)
  | [] => by simp [wordsLE, wordsBE]
  | [a] => by
    have := a.toNat_lt
    simp only [wordsLE, wordsBE, List.sum_cons, List.sum_nil, Nat.add_zero]
    omega
  | a :: b :: rest => by
    have := a.toNat_lt
    have := b.toNat_lt
    have ih := sums_related rest
    simp only [wordsLE, wordsBE, List.sum_cons]
    omega

/-- byte swap of a 16-bit representative: multiplies by 256 modulo 65535 -/
theorem swap16_norm (x l : Nat) (h1 : l % 65535 = (256 * x) % 65535) (h2 : l = 0 ↔ x = 0) :
    swap16 (norm x) = norm l := by
  have e1 := norm_mod x
  have e2 := norm_zero_iff x
  have e3 := norm_le x
  apply eq_norm <;> unfold swap16 <;> omega

theorem swap16_compl (y : Nat) (h : y ≤ 65535) : swap16 (65535 - y) = 65535 - swap16 y := by
  unfold swap16; omega

theorem swap16_swap16 (y : Nat) (h : y ≤ 65535) : swap16 (swap16 y) = y := by
  unfold swap16; omega

theorem swap16_le (y : Nat) (h : y ≤ 65535) : swap16 y ≤ 65535 := by unfold swap16; omega

/-- a 16-bit value stored little-endian is its byte swap stored big-endian -/
theorem leBytes2_eq_beBytes2_swap (z : Nat) (h : z ≤ 65535) : leBytes 2 z = beBytes 2 (swap16 z) := by
  have e0 : z / 256 < 256 := by omega
  have e1 : swap16 z % 256 = z / 256 := by unfold swap16; omega
  have e4 : swap16 z / 256 = z % 256 := by unfold swap16; omega
  have e2 : swap16 z / 256 % 256 = z % 256 := by rw [e4]; omega
  have e3 : z / 256 % 256 = z / 256 := by omega
  simp [beBytes, leBytes, e1, e2, e3]

/-- RFC 1071 in closed form -/
theorem rfc1071_eq (bs : Bytes) : rfc1071 bs = 65535 - norm (wordsBE bs).sum := by
  unfold rfc1071
  rw [foldl_onesAdd _ 0 (by omega) (wordsBE_le bs)]
  simp [norm]

/-- **Byte-order independence of the Internet checksum.**  The bytes the code stores (little-endian word
    sum, two folds, complement, native little-endian "H") are the big-endian RFC 1071 checksum. -/
theorem stored_bytes_eq (bs : Bytes) (h : bs.length < 131072) :
    leBytes 2 (65535 - sumFold (wordsLE bs).sum) = beBytes 2 (rfc1071 bs) := by
  have hs : (wordsLE bs).sum < 4294967296 := by
    have := wordsLE_sum_le bs
    have : (bs.length + 1) / 2 ≤ 65536 := by omega
    have : 65535 * ((bs.length + 1) / 2) ≤ 65535 * 65536 := Nat.mul_le_mul_left _ this
    omega
  obtain ⟨r1, r2⟩ := sums_related bs
  rw [sumFold_eq_norm _ hs, rfc1071_eq, leBytes2_eq_beBytes2_swap _ (by omega),
    swap16_compl _ (norm_le _), ← swap16_norm _ _ r1 r2, swap16_swap16 _ (norm_le _)]

/-- the value the code computes, seen big-endian -/
theorem swap16_code_value (bs : Bytes) (h : bs.length < 131072) :
    swap16 (65535 - sumFold (wordsLE bs).sum) = rfc1071 bs := by
  have hs : (wordsLE bs).sum < 4294967296 := by
    have := wordsLE_sum_le bs
    have : (bs.length + 1) / 2 ≤ 65536 := by omega
    have : 65535 * ((bs.length + 1) / 2) ≤ 65535 * 65536 := Nat.mul_le_mul_left _ this
    omega
  obtain ⟨r1, r2⟩ := sums_related bs
  rw [sumFold_eq_norm _ hs, rfc1071_eq, swap16_compl _ (norm_le _), ← swap16_norm _ _ r1 r2,
    swap16_swap16 _ (norm_le _)]

/-! verification: a message that carries its own checksum sums to "minus zero" -/

theorem wordsLE_append_even : ∀ (a b : Bytes), a.length % 2 = 0 → wordsLE (a ++ b) = wordsLE a ++ wordsLE b
  | [], b, _ => rfl
  | [x], b, h => by simp at h
  | x :: y :: rest, b, h => by
    have ih := wordsLE_append_even rest b (by simp at h; omega)
    simp only [List.cons_append, wordsLE, ih]

theorem wordsLE_leBytes2 (c : Nat) (h : c ≤ 65535) (b : Bytes) : wordsLE (leBytes 2 c ++ b) = c :: wordsLE b := by
  have e1 : (UInt8.ofNat (c % 256)).toNat = c % 256 := toNat_ofNat_mod c
  have e2 : (UInt8.ofNat (c / 256 % 256)).toNat = c / 256 % 256 := toNat_ofNat_mod (c / 256)
  simp only [leBytes, List.cons_append, List.nil_append, wordsLE, e1, e2]
  congr 1
  omega

theorem wordsLE_zero2 (b : Bytes) : wordsLE ([0, 0] ++ b) = 0 :: wordsLE b := by
  simp [wordsLE]

theorem sum_append (a b : List Nat) : (a ++ b).sum = a.sum + b.sum := by
  induction a with
  | nil => simp
  | cons x xs ih => simp only [List.cons_append, List.sum_cons, ih]; omega

/-- **verification gives 0**: inserting the computed value into the (even-aligned, zeroed) field and running the
    code's checksum over the whole message gives 0 -/
theorem verify_zero (front back : Bytes) (hf : front.length % 2 = 0)
    (hl : (front ++ ([0, 0] ++ back)).length < 131072) :
    65535 - sumFold (wordsLE (front ++ (leBytes 2 (65535 - sumFold (wordsLE (front ++ ([0, 0] ++ back))).sum) ++ back))).sum = 0 := by
  have hs : (wordsLE (front ++ ([0, 0] ++ back))).sum < 4294967296 := by
    have := wordsLE_sum_le (front ++ ([0, 0] ++ back))
    have : ((front ++ ([0, 0] ++ back)).length + 1) / 2 ≤ 65536 := by omega
    have : 65535 * (((front ++ ([0, 0] ++ back)).length + 1) / 2) ≤ 65535 * 65536 := Nat.mul_le_mul_left _ this
    omega
  generalize hS : (wordsLE (front ++ ([0, 0] ++ back))).sum = S at hs
  have hS0 : (wordsLE front).sum + (wordsLE back).sum = S := by
    rw [← hS, wordsLE_append_even _ _ hf, wordsLE_zero2, sum_append]; simp
  rw [sumFold_eq_norm S hs]
  have hn := norm_le S
  rw [wordsLE_append_even _ _ hf, wordsLE_leBytes2 _ (by omega), sum_append, List.sum_cons]
  have hsum : (wordsLE front).sum + (65535 - norm S + (wordsLE back).sum) = S + (65535 - norm S) := by omega
  rw [hsum]
  have hlt : S + (65535 - norm S) < 4294967296 + 65536 := by omega
  -- S + 65535 - norm S is a positive multiple of 65535: its fold is 65535
  have hm := norm_mod S
  have hz := norm_zero_iff S
  have key : sumFold (S + (65535 - norm S)) = 65535 := by
    have h1 : (S + (65535 - norm S)) % 65535 = 0 := by omega
    have h2 : 0 < S + (65535 - norm S) := by omega
    generalize S + (65535 - norm S) = T at *
    unfold sumFold
    have hT : T / 65536 + T % 65536 < 2 * 65536 := by omega
    have hT2 : (T / 65536 + T % 65536) % 65535 = 0 := by omega
    have hT3 : 0 < T / 65536 + T % 65536 := by omega
    generalize T / 65536 + T % 65536 = U at *
    by_cases hc : U < 65536
    · have e : U / 65536 = 0 := by omega
      rw [e]; omega
    · have e : U / 65536 = 1 := by omega
      rw [e]; omega
  rw [key]

end Acra.Lemmas.Sum16
