/-
  Re-encoding a packet decoded from ARBITRARY bytes (at most 188): `MPEGPacket.pack` never fails with
  `struct.error` (nor the `TypeError` of D07): every value the decoder stores fits the field the
  encoder writes it to.  The only exception `pack` can raise is its own input validation (bare
  `Exception`: a PCR / LTW / piecewise / seamless part of the wrong size, which a truncated
  adaptation field leaves behind).
-/
import Acra.Lemmas.MPEGTS
import Acra.Py.Records
namespace Acra.Lemmas.MpegReencode
open Acra.Py Acra.Model.MPEGTS Acra.Gen.MPEGTS Acra.Lemmas.MPEGTS

theorem decInt_take_lt (buf : Bytes) (k : Nat) : decInt true (buf.take k) < 256 ^ k := by
  have h := decInt_lt true (buf.take k)
  have hl : (buf.take k).length ≤ k := by simp; omega
  exact Nat.lt_of_lt_of_le h (Nat.pow_le_pow_right (by decide) hl)

theorem unpack_u8_lt (f : Fmt) (hf : f = ⟨true, [.u8]⟩) (buf : Bytes) (off x : Nat)
    (h : structUnpackFrom f buf off = .ok [x]) : x < 256 := by
  subst hf
  unfold structUnpackFrom at h
  split at h
  · simp only [unpackCodes, Code.size, Except.ok.injEq, List.cons.injEq, and_true] at h
    have := decInt_take_lt (List.drop off buf) 1
    omega
  · simp at h

theorem unpack_u8u8_lt (f : Fmt) (hf : f = ⟨true, [.u8, .u8]⟩) (buf : Bytes) (off x y : Nat)
    (h : structUnpackFrom f buf off = .ok [x, y]) : x < 256 ∧ y < 256 := by
  subst hf
  unfold structUnpackFrom at h
  split at h
  · simp only [unpackCodes, Code.size, Except.ok.injEq, List.cons.injEq, and_true] at h
    have h1 := decInt_take_lt (List.drop off buf) 1
    have h2 := decInt_take_lt (List.drop 1 (List.drop off buf)) 1
    omega
  · simp at h

/-- what the encoder needs of an adaptation-field object so that no `struct.pack` can fail -/
def AF_bounded (a : AF) : Prop :=
  a.length < 256 ∧ a.pcr.length ≤ 6 ∧ a.opcr.length ≤ 6 ∧ a.splice_countdown < 256 ∧ a.private_data.length ≤ 184

theorem AF_fresh_bounded : AF_bounded AF.fresh := by simp [AF_bounded, AF.fresh]

theorem slice_len_le (b : Bytes) (lo n : Nat) : (slice b lo (lo + n)).length ≤ n := by
  simp only [slice_length]; omega

theorem slice_len_le_buf (b : Bytes) (lo hi : Nat) : (slice b lo hi).length ≤ b.length := by
  simp only [slice_length]; omega

/-- whatever bytes `MPEGAdaption.unpack` is given (at most 184), and whether or not it fails half-way,
    the object it leaves is bounded -/
theorem AF_unpack_bounded (t : AF) (X : Bytes) (ht : AF_bounded t) (hX : X.length ≤ 184) :
    AF_bounded (AF.unpack t X).1 := by
  unfold AF.unpack
  split
  · exact ht
  · next len flags h0 =>
    obtain ⟨hlen, _⟩ := unpack_u8u8_lt _ rfl _ _ _ _ h0
    have hp : (if (flags / 16 % 2 == 1) = true then slice X 2 8 else []).length ≤ 6 := by
      split
      · exact slice_len_le X 2 6
      · simp
    have ho : ∀ o1, (if (flags / 8 % 2 == 1) = true then slice X o1 (o1 + 6) else []).length ≤ 6 := by
      intro o1; split
      · exact slice_len_le X o1 6
      · simp
    simp only
    split
    · exact ⟨hlen, hp, ho _, by simp, by simp⟩
    · next sc h1 =>
      have hsc : sc < 256 := by
        split at h1
        · exact unpack_u8_lt _ rfl _ _ _ h1
        · simp only [Except.ok.injEq, List.cons.injEq, and_true] at h1; omega
      split
      · exact ⟨hlen, hp, ho _, hsc, by simp⟩
      · next tl h2 =>
        have hpd : ∀ lo hi, (if (flags / 2 % 2 == 1) = true then slice X lo hi else []).length ≤ 184 := by
          intro lo hi; split
          · exact Nat.le_trans (slice_len_le_buf X lo hi) hX
          · simp
        split
        · exact ⟨hlen, hp, ho _, hsc, hpd _ _⟩
        · exact ⟨hlen, hp, ho _, hsc, hpd _ _⟩
      · exact ⟨hlen, hp, ho _, hsc, by simp⟩
    · exact ⟨hlen, hp, ho _, by simp, by simp⟩
  · exact ht

/-- `MPEGAdaptionExtension.pack` either raises its bare `Exception` or emits at most 12 bytes -/
theorem Ext_pack_ok_or_generic (x : Ext) :
    (Ext.pack x).2 = .error .generic ∨ ∃ eb, (Ext.pack x).2 = .ok eb ∧ eb.length ≤ 12 := by
  by_cases h : Ext_WF x
  · right
    rw [Ext_pack_eq x h]
    exact ⟨_, rfl, by rw [Ext_bytes_length]; exact Ext_len_le x h⟩
  · left
    unfold Ext_WF at h
    unfold Ext.pack
    by_cases c1 : x.ltw.length ≠ 2 ∧ x.ltw.length ≠ 0
    · rw [if_pos c1]
    · by_cases c2 : x.piecewise.length ≠ 3 ∧ x.piecewise.length ≠ 0
      · rw [if_neg c1, if_pos c2]
      · by_cases c3 : x.seamless_splice.length ≠ 5 ∧ x.seamless_splice.length ≠ 0
        · rw [if_neg c1, if_neg c2, if_pos c3]
        · exfalso; apply h; omega

theorem spl_len (a : AF) : (AF_spl a).length ≤ 1 := by rw [AF_spl_length]; split <;> omega
theorem tl_len (a : AF) : (AF_tl a).length ≤ 1 := by rw [AF_tl_length]; split <;> omega

/-- `MPEGAdaption.pack` of a bounded object: succeeds, or raises its bare `Exception` -/
theorem AF_pack_ok_or_generic (a : AF) (h : AF_bounded a) :
    (AF.pack a).2 = .error .generic ∨ ∃ b, (AF.pack a).2 = .ok b := by
  obtain ⟨hlen, hp, ho, hs, hd⟩ := h
  have p0 : (if 0 < a.splice_countdown then structPack AF_pack_fmt0 [a.splice_countdown] else .ok []) = .ok (AF_spl a) := by
    unfold AF_spl; split <;> simp [pack_u8 AF_pack_fmt0 rfl a.splice_countdown hs]
  have p1 : (if 0 < a.private_data.length then structPack AF_pack_fmt1 [a.private_data.length] else .ok []) = .ok (AF_tl a) := by
    unfold AF_tl; split <;> simp [pack_u8 AF_pack_fmt1 rfl a.private_data.length (by omega)]
  have hsl := spl_len a
  have htl := tl_len a
  unfold AF.pack
  by_cases c0 : 0 < a.pcr.length ∧ a.pcr.length ≠ 6
  · left; rw [if_pos c0]
  · rw [if_neg c0]
    simp only [p0, p1]
    cases hx : a.adaption_extension with
    | none =>
      right
      simp only [List.length_nil]
      split
      · next e he =>
        exfalso
        revert he
        generalize hL : (if a.length > a.pcr.length + a.opcr.length + (AF_tl a).length + a.private_data.length + 0 +
          (AF_spl a).length + 1 then a.length else a.pcr.length + a.opcr.length + (AF_tl a).length + a.private_data.length + 0 +
          (AF_spl a).length + 1) = L
        have hL' : L < 256 := by rw [← hL]; split <;> omega
        intro he
        have hf := (flag_bits a.discontinutiy a.random_access a.es_priority
          (a.pcr_flag || decide (0 < a.pcr.length)) (a.opcr_flag || decide (0 < a.opcr.length))
          (a.splicing_flag || decide (0 < a.splice_countdown)) (a.transpart_flag || decide (0 < a.private_data.length))
          a.extension_flag).2.2.2.2.2.2.2.2
        rw [pack_u8u8 AF_pack_fmt2 rfl _ _ hL' hf] at he
        simp at he
      · exact ⟨_, rfl⟩
    | some x =>
      rcases Ext_pack_ok_or_generic x with hg | ⟨eb, hok, hebl⟩
      · left; simp only [hg]
      · right
        simp only [hok]
        split
        · next e he =>
          exfalso
          revert he
          generalize hL : (if a.length > a.pcr.length + a.opcr.length + (AF_tl a).length + a.private_data.length + eb.length +
            (AF_spl a).length + 1 then a.length else a.pcr.length + a.opcr.length + (AF_tl a).length + a.private_data.length + eb.length +
            (AF_spl a).length + 1) = L
          have hL' : L < 256 := by rw [← hL]; split <;> omega
          intro he
          have hf := (flag_bits a.discontinutiy a.random_access a.es_priority
            (a.pcr_flag || decide (0 < a.pcr.length)) (a.opcr_flag || decide (0 < a.opcr.length))
            (a.splicing_flag || decide (0 < a.splice_countdown)) (a.transpart_flag || decide (0 < a.private_data.length))
            true).2.2.2.2.2.2.2.2
          rw [pack_u8u8 AF_pack_fmt2 rfl _ _ hL' hf] at he
          simp at he
        · exact ⟨_, rfl⟩

def Pkt_bounded (q : Pkt) : Prop :=
  q.sync < 256 ∧ q.pid < 8192 ∧ q.transport_priority < 2 ∧ q.tsc < 4 ∧ q.adaption_ctrl < 4 ∧
  q.continuitycounter < 16 ∧ (∀ a, q.adaption_field = some a → AF_bounded a)

/-- every packet `MPEGPacket.unpack` accepts from at most 188 bytes is bounded -/
theorem Pkt_unpack_bounded' (t : Pkt) (buf : Bytes) (hlen : buf.length ≤ 188) :
    (Pkt.unpack t buf).2 = .ok () → Pkt_bounded (Pkt.unpack t buf).1 := by
  have hd4 : (buf.drop 4).length ≤ 184 := by simp; omega
  have hsl : ∀ n, (slice buf 4 n).length ≤ 184 := by intro n; simp only [slice_length]; omega
  unfold Pkt.unpack
  split
  · intro hok; simp at hok
  · simp only []
    repeat' split
    all_goals intro hok
    all_goals first
      | (simp at hok; done)
      | (refine ⟨by simp only []; omega, Nat.mod_lt _ (by decide), Nat.mod_lt _ (by decide), Nat.mod_lt _ (by decide),
          Nat.mod_lt _ (by decide), Nat.mod_lt _ (by decide), ?_⟩
         intro a ha
         cases ha <;> first
           | exact AF_unpack_bounded _ _ AF_fresh_bounded (hsl _)
           | exact AF_unpack_bounded _ _ AF_fresh_bounded hd4)
  · intro hok; simp at hok

theorem Pkt_unpack_bounded (t : Pkt) (buf : Bytes) (q : Pkt) (hlen : buf.length ≤ 188)
    (hq : Pkt.unpack t buf = (q, .ok ())) : Pkt_bounded q := by
  have := Pkt_unpack_bounded' t buf hlen (by rw [hq])
  rwa [hq] at this

/-- `MPEGPacket.pack` (with or without stuffing) of a bounded packet: succeeds, or raises the bare
    `Exception` of the adaptation-field validation — never `struct.error` -/
theorem Pkt_pack_ok_or_generic (q : Pkt) (ns : Bool) (h : Pkt_bounded q) :
    (Pkt.pack q ns).2 = .error .generic ∨ ∃ b, (Pkt.pack q ns).2 = .ok b := by
  obtain ⟨h1, h2, h3, h4, h5, h6, h7⟩ := h
  have hfit : Fits Pkt_pack_fmt0.codes [q.sync, Pkt_pidFull q, Pkt_cont q] := by
    simp only [Fits, Pkt_pack_fmt0, Code.bound, Pkt_pidFull, Pkt_cont, and_true]
    cases q.pusi <;> cases q.tei <;> simp <;> omega
  have hz := pack_u8 Pkt_pack_fmt1 rfl 0 (by omega)
  unfold Pkt.pack
  have e1 : q.pid + q.transport_priority * 8192 + q.pusi.toNat * 16384 + q.tei.toNat * 32768 = Pkt_pidFull q := rfl
  have e2 : q.continuitycounter + q.adaption_ctrl * 16 + q.tsc * 64 = Pkt_cont q := rfl
  simp only [e1, e2, structPack_eq _ _ hfit]
  by_cases hc : q.adaption_ctrl = ADAPTION_ADAPTION_ONLY ∨ q.adaption_ctrl = ADAPTION_PAYLOAD_AND_ADAPTION
  · simp only [if_pos hc]
    cases hx : q.adaption_field with
    | none => right; simp only [hz]; exact ⟨_, rfl⟩
    | some a =>
      rcases AF_pack_ok_or_generic a (h7 a hx) with hg | ⟨b, hb⟩
      · left; simp only [hg]
      · right; simp only [hb]; exact ⟨_, rfl⟩
  · simp only [if_neg hc]; right; exact ⟨_, rfl⟩

/-! ### streams -/

theorem decOff_all {α} (dec1 : Bytes → R (α × Nat)) (more : Nat → Nat → Bool) (buf : Bytes) (P : α → Prop)
    (hdec : ∀ b x n, dec1 b = .ok (x, n) → P x) (fuel off : Nat) (xs : List α)
    (h : decOff dec1 more buf fuel off = .ok xs) : ∀ x ∈ xs, P x := by
  induction fuel generalizing off xs with
  | zero => simp [decOff] at h
  | succ fuel ih =>
    unfold decOff at h
    split at h
    · cases hd : dec1 (buf.drop off) with
      | error e => simp [hd] at h
      | ok r =>
        obtain ⟨x, n⟩ := r
        simp only [hd] at h
        cases hr : decOff dec1 more buf fuel (off + n) with
        | error e => simp [hr] at h
        | ok ys =>
          simp only [hr, Except.ok.injEq] at h
          subst h
          intro y hy
          rcases List.mem_cons.mp hy with rfl | hy
          · exact hdec _ _ _ hd
          · exact ih (off + n) ys hr y hy
    · simp at h; subst h; simp

/-- every block of a stream `MPEGTS.unpack` accepts is bounded (each is decoded from ≤ 188 bytes) -/
theorem TS_unpack_bounded (t : TS) (buf : Bytes) (ts : TS) (r : Bool) (h : TS.unpack t buf = (ts, .ok r)) :
    ∀ q ∈ ts.blocks, Pkt_bounded q := by
  unfold TS.unpack at h
  split at h
  · next bs hbs =>
    simp only [Prod.mk.injEq] at h
    obtain ⟨rfl, _⟩ := h
    refine decOff_all decBlock moreBlocks buf Pkt_bounded ?_ _ _ bs hbs
    intro b x n hd
    unfold decBlock at hd
    split at hd
    · next p hp =>
      simp only [Except.ok.injEq, Prod.mk.injEq] at hd
      obtain ⟨rfl, _⟩ := hd
      exact Pkt_unpack_bounded Pkt.fresh (b.take 188) p (by simp; omega) hp
    · simp at hd
  · simp at h

/-- `MPEGTS.pack` of bounded blocks: succeeds, or a block's adaptation-field validation raises -/
theorem packBlocks_ok_or_generic (qs : List Pkt) (h : ∀ q ∈ qs, Pkt_bounded q) :
    (packBlocks qs).2 = .error .generic ∨ ∃ b, (packBlocks qs).2 = .ok b := by
  induction qs with
  | nil => right; exact ⟨[], rfl⟩
  | cons q qs ih =>
    unfold packBlocks
    rcases Pkt_pack_ok_or_generic q false (h q (by simp)) with hg | ⟨b, hb⟩
    · left
      cases hp : Pkt.pack q with
      | mk p' r =>
        rw [hp] at hg
        simp only at hg
        subst hg
        rfl
    · cases hp : Pkt.pack q with
      | mk p' r =>
        rw [hp] at hb
        simp only at hb
        subst hb
        simp only
        rcases ih (fun x hx => h x (by simp [hx])) with hg | ⟨b2, hb2⟩
        · left
          cases hq : packBlocks qs with
          | mk ps' r2 =>
            rw [hq] at hg
            simp only at hg
            subst hg
            rfl
        · right
          cases hq : packBlocks qs with
          | mk ps' r2 =>
            rw [hq] at hb2
            simp only at hb2
            subst hb2
            exact ⟨_, rfl⟩

end Acra.Lemmas.MpegReencode
