/-
  Chapter 7: the reassembler `reassemble` (statement vocabulary of C10 — the library has none) characterised
  declaratively:
  (1) it inverts `datapkts_to_ptdp` on every packet list (any lengths, any low-latency marking);
  (2) the two channels (normal / low-latency PTDPs) do not interact: the packets it returns with flag `f` are what it
      returns for the PTDPs flagged `f` alone.
-/
import Acra.Lemmas.Chapter7Asm
namespace Acra.Lemmas.Chapter7
open Acra.Py Acra.Model Acra.Model.Chapter7 Acra.Gen.Chapter7

/-- the open fragment of channel `f` -/
def chan (f : Bool) (a : Asm) : Option Bytes := if f then a.low else a.normal
def setChan (f : Bool) (a : Asm) (v : Option Bytes) : Asm := if f then { a with low := v } else { a with normal := v }

theorem asmG_complete (a : Asm) (b : Bytes) (f : Bool) :
    asmStep a (mkPtdp f PTDP_FRAGMENT_COMPLETE b) = { a with done := a.done ++ [(b, f)] } := by
  simp [asmStep, mkPtdp]

theorem asmG_first (a : Asm) (b : Bytes) (f : Bool) (n : Nat) :
    asmStep a (fragOf b f n 0) = setChan f a (some (slice b 0 2048)) := by
  cases f <;> simp [asmStep, fragOf, mkPtdp, setChan, PTDP_FRAGMENT_FIRST, PTDP_FRAGMENT_COMPLETE]

theorem asmG_middle (a : Asm) (b : Bytes) (f : Bool) (n i : Nat) (h0 : i ≠ 0) (h1 : i ≠ n - 1) :
    asmStep a (fragOf b f n i) = setChan f a ((chan f a).map (· ++ slice b (2048 * i) (2048 * (i + 1)))) := by
  cases f <;>
    simp [asmStep, fragOf, mkPtdp, setChan, chan, PTDP_FRAGMENT_FIRST, PTDP_FRAGMENT_COMPLETE, PTDP_FRAGMENT_MIDDLE, h0, h1]

theorem asmG_last (a : Asm) (b acc : Bytes) (f : Bool) (n i : Nat) (h0 : i ≠ 0) (h1 : i = n - 1) (ha : chan f a = some acc) :
    asmStep a (fragOf b f n i) =
      setChan f { a with done := a.done ++ [(acc ++ slice b (2048 * i) (2048 * (i + 1)), f)] } none := by
  subst h1
  cases f <;> simp only [chan, Bool.false_eq_true, if_false, if_true] at ha <;>
    simp [asmStep, fragOf, mkPtdp, setChan, PTDP_FRAGMENT_FIRST, PTDP_FRAGMENT_COMPLETE, PTDP_FRAGMENT_MIDDLE,
      PTDP_FRAGMENT_LAST, h0, ha]

theorem chan_setChan (f : Bool) (a : Asm) (v : Option Bytes) : chan f (setChan f a v) = v := by
  cases f <;> simp [chan, setChan]
theorem setChan_setChan (f : Bool) (a : Asm) (v w : Option Bytes) : setChan f (setChan f a v) w = setChan f a w := by
  cases f <;> simp [setChan]

theorem asmG_prefix (a : Asm) (b : Bytes) (f : Bool) (n : Nat) :
    ∀ i, 1 ≤ i → i < n →
      ((List.range i).map (fragOf b f n)).foldl asmStep a = setChan f a (some (slice b 0 (2048 * i))) := by
  intro i
  induction i with
  | zero => intro h; omega
  | succ i ih =>
    intro _ hi
    rw [List.range_succ, List.map_append, List.foldl_append]
    by_cases h1 : i = 0
    · subst h1; simp [asmG_first]
    · rw [ih (by omega) (by omega)]
      simp only [List.map_cons, List.map_nil, List.foldl_cons, List.foldl_nil]
      rw [asmG_middle _ b f n i h1 (by omega), chan_setChan, setChan_setChan]
      simp only [Option.map_some]
      rw [slice_append_slice _ _ _ _ (by omega) (by omega)]

/-- a whole packet on channel `f`, whatever the channel held: one output `(b, f)`; the channel is clear afterwards
    if the packet was fragmented, untouched if it was one COMPLETE PTDP; the other channel is untouched -/
theorem asmG_packet (a : Asm) (b : Bytes) (f : Bool) :
    (ptdpsOf b f).foldl asmStep a =
      if b.length ≤ 2048 then { a with done := a.done ++ [(b, f)] }
      else setChan f { a with done := a.done ++ [(b, f)] } none := by
  by_cases hs : b.length ≤ 2048
  · have : ptdpsOf b f = [mkPtdp f PTDP_FRAGMENT_COMPLETE b] := by simp [ptdpsOf, PTDP_MAX_LEN, hs]
    rw [this, if_pos hs]; simp [asmG_complete]
  · rw [if_neg hs]
    have hgt : ¬ b.length ≤ PTDP_MAX_LEN := by simpa [PTDP_MAX_LEN] using hs
    have hn : b.length ≤ 2048 * ((b.length + 2047) / 2048) := by omega
    unfold ptdpsOf
    rw [if_neg hgt]
    simp only [PTDP_MAX_LEN]
    rw [show b.length + 2048 - 1 = b.length + 2047 by omega,
      fragmentsFrom_eq b f _ hn _ 0 (by omega), ← List.range_eq_range']
    have hn2 : 2 ≤ (b.length + 2047) / 2048 := by omega
    obtain ⟨m, hm⟩ : ∃ m, (b.length + 2047) / 2048 = m + 1 := ⟨(b.length + 2047) / 2048 - 1, by omega⟩
    rw [hm, List.range_succ, List.map_append, List.foldl_append, ← hm, asmG_prefix a b f _ m (by omega) (by omega)]
    simp only [List.map_cons, List.map_nil, List.foldl_cons, List.foldl_nil]
    rw [asmG_last _ b (slice b 0 (2048 * m)) f _ m (by omega) (by omega) (chan_setChan _ _ _)]
    rw [slice_append_slice _ _ _ _ (by omega) (by omega)]
    have : slice b 0 (2048 * (m + 1)) = b := by
      simp only [slice, List.drop_zero]; rw [List.take_of_length_le (by rw [← hm]; exact hn)]
    rw [this]
    cases f <;> simp [setChan]

/-- (1) the reassembler inverts `datapkts_to_ptdp`, from any state with both channels clear -/
theorem asm_datapkts (pkts : List (Bytes × Bool)) :
    ∀ a : Asm, a.normal = none → a.low = none →
      (datapktsToPtdp pkts).foldl asmStep a = { a with done := a.done ++ pkts } := by
  induction pkts with
  | nil => intro a _ _; simp [datapktsToPtdp]
  | cons p r ih =>
    intro a h1 h2
    have hc : datapktsToPtdp (p :: r) = ptdpsOf p.1 p.2 ++ datapktsToPtdp r := by simp [datapktsToPtdp]
    rw [hc, List.foldl_append, asmG_packet]
    have hsame : (if p.1.length ≤ 2048 then { a with done := a.done ++ [(p.1, p.2)] }
        else setChan p.2 { a with done := a.done ++ [(p.1, p.2)] } none) = { a with done := a.done ++ [p] } := by
      obtain ⟨b, f⟩ := p
      split
      · rfl
      · cases f <;> simp [setChan, h1, h2]
    rw [hsame, ih { a with done := a.done ++ [p] } h1 h2]
    simp [List.append_assoc]

/-! ### (2) channel independence -/

/-- the run on the PTDPs of channel `f` alone tracks the full run: same open fragment on `f`, the outputs flagged `f` -/
def ChanRel (f : Bool) (A B : Asm) : Prop :=
  B.done = A.done.filter (fun q => q.2 == f) ∧ chan f B = chan f A

theorem asmStep_same (f : Bool) (A B : Asm) (p : PTDP.State) (hp : p.low_latency = f) (h : ChanRel f A B) :
    ChanRel f (asmStep A p) (asmStep B p) := by
  obtain ⟨h1, h2⟩ := h
  subst hp
  unfold ChanRel asmStep
  cases hf : p.low_latency <;> simp only [chan, hf, Bool.false_eq_true, if_false, if_true] at h2 ⊢ <;>
    (repeat' split) <;> simp_all [List.filter_append]

theorem asmStep_other (f : Bool) (A B : Asm) (p : PTDP.State) (hp : p.low_latency ≠ f) (h : ChanRel f A B) :
    ChanRel f (asmStep A p) B := by
  obtain ⟨h1, h2⟩ := h
  unfold ChanRel asmStep
  cases hf : p.low_latency <;> cases f <;> simp only [hf, ne_eq, not_true_eq_false] at hp <;>
    simp only [chan, Bool.false_eq_true, if_false, if_true] at h2 ⊢ <;>
    (repeat' split) <;> simp_all [List.filter_append]

theorem asmFold_chan (f : Bool) (ps : List PTDP.State) :
    ∀ A B : Asm, ChanRel f A B →
      ChanRel f (ps.foldl asmStep A) ((ps.filter fun p => p.low_latency == f).foldl asmStep B) := by
  induction ps with
  | nil => intro A B h; exact h
  | cons p r ih =>
    intro A B h
    simp only [List.foldl_cons, List.filter_cons]
    by_cases hp : p.low_latency = f
    · simp only [hp, beq_self_eq_true, if_true, List.foldl_cons]
      exact ih _ _ (asmStep_same f A B p hp h)
    · have : (p.low_latency == f) = false := by simpa using hp
      simp only [this, Bool.false_eq_true, if_false]
      exact ih _ _ (asmStep_other f A B p hp h)

/-! ### outputs are only ever appended -/

theorem asmStep_done (a : Asm) (p : PTDP.State) : ∃ m, (asmStep a p).done = a.done ++ m := by
  unfold asmStep
  simp only
  split
  · exact ⟨_, rfl⟩
  · split
    · exact ⟨[], by split <;> simp⟩
    · split
      · exact ⟨[], by split <;> simp⟩
      · split
        · split
          · exact ⟨_, rfl⟩
          · exact ⟨_, rfl⟩
        · exact ⟨[], by simp⟩

theorem asmFold_done (qs : List PTDP.State) : ∀ a : Asm, ∃ m, (qs.foldl asmStep a).done = a.done ++ m := by
  induction qs with
  | nil => intro a; exact ⟨[], by simp⟩
  | cons q r ih =>
    intro a
    obtain ⟨m1, h1⟩ := asmStep_done a q
    obtain ⟨m2, h2⟩ := ih (asmStep a q)
    exact ⟨m1 ++ m2, by rw [List.foldl_cons, h2, h1, List.append_assoc]⟩

end Acra.Lemmas.Chapter7
