/-
  Helper lemmas for the NPD segment classes and NPD: the bytes pack emits under the well-formedness
  predicates and what unpack makes of them.
-/
import Acra.Model.NPD
import Acra.Lemmas.Bits
namespace Acra.Lemmas.NPD
open Acra.Py Acra.Model.NPD Acra.Gen.NPD Acra.Lemmas.Bits

/-! ### segment header and padding -/

/-- 0xFF bytes up to the next multiple of four -/
def padFF (n : Nat) : Bytes := if n % 4 = 0 then [] else List.replicate (4 - n % 4) 255

theorem padFF_length (n : Nat) : (padFF n).length = (4 - n % 4) % 4 := by
  unfold padFF; split <;> simp <;> omega

theorem flatten_replicate_single (k : Nat) (x : UInt8) : (List.replicate k [x]).flatten = List.replicate k x := by
  induction k with
  | zero => rfl
  | succ k ih => simp only [List.replicate_succ, List.flatten_cons, ih]; rfl

theorem pad_pack : structPack NPDSegment_pack_fmt0 [NPD_SEGMENT_PAD] = .ok [255] := rfl

def segHdr (td sl ec fl : Nat) : Bytes :=
  encInt true 4 td ++ (encInt true 2 sl ++ (encInt true 1 ec ++ encInt true 1 fl))

@[simp] theorem segHdr_length (td sl ec fl : Nat) : (segHdr td sl ec fl).length = 8 := by simp [segHdr]

/-- header (with the length field `sl`), data, pad -/
def segBytesL (td sl ec fl : Nat) (pl : Bytes) : Bytes := segHdr td sl ec fl ++ (pl ++ padFF pl.length)

theorem segBytesL_length (td sl ec fl : Nat) (pl : Bytes) :
    (segBytesL td sl ec fl pl).length = 8 + pl.length + (4 - pl.length % 4) % 4 := by
  simp [segBytesL, padFF_length]; omega

theorem segBytesL_mod4 (td sl ec fl : Nat) (pl : Bytes) : (segBytesL td sl ec fl pl).length % 4 = 0 := by
  rw [segBytesL_length]; omega

/-- `NPDSegment.pack` emits the header with `segmentlen` AS STORED, the payload and the 0xFF pad -/
theorem packBase_eq (g : Seg) (h1 : g.timedelta < 4294967296) (h2 : g.segmentlen < 65536) (h3 : g.errorcode < 256)
    (h4 : g.flags < 256) :
    g.packBase = .ok (segBytesL g.timedelta g.segmentlen g.errorcode g.flags g.payload) := by
  have hf : Fits NPD_SEGMENT_HDR_FORMAT.codes [g.timedelta, g.segmentlen, g.errorcode, g.flags] := by
    simp [Fits, NPD_SEGMENT_HDR_FORMAT, Code.bound]; omega
  unfold Seg.packBase
  rw [structPack_eq _ _ hf]
  by_cases hm : g.payload.length % 4 = 0
  · simp [hm, segBytesL, segHdr, padFF, encCodes, NPD_SEGMENT_HDR_FORMAT, Code.size]
  · simp [hm, pad_pack, segBytesL, segHdr, padFF, encCodes, NPD_SEGMENT_HDR_FORMAT, Code.size]

/-- the base-class fields after `NPDSegment.unpack` of a segment whose length field is right -/
def withBase (t : Seg) (td ec fl : Nat) (pl : Bytes) : Seg :=
  { t with timedelta := td, segmentlen := pl.length + 8, errorcode := ec, flags := fl, payload := pl }

theorem unpackBase_eq (t : Seg) (td ec fl : Nat) (pl rest : Bytes) (h1 : td < 4294967296) (h2 : 8 + pl.length < 65536)
    (h3 : ec < 256) (h4 : fl < 256) :
    Seg.unpackBase t (segBytesL td (8 + pl.length) ec fl pl ++ rest) = (withBase t td ec fl pl, .ok rest) := by
  have hhdr : structUnpackFrom NPD_SEGMENT_HDR_FORMAT (segBytesL td (8 + pl.length) ec fl pl ++ rest) 0 =
      .ok [td, 8 + pl.length, ec, fl] := by
    have hf : Fits NPD_SEGMENT_HDR_FORMAT.codes [td, 8 + pl.length, ec, fl] := by
      simp [Fits, NPD_SEGMENT_HDR_FORMAT, Code.bound]; omega
    have := structUnpackFrom_enc0 NPD_SEGMENT_HDR_FORMAT _ ((pl ++ padFF pl.length) ++ rest) hf
    simpa [segBytesL, segHdr, encCodes, NPD_SEGMENT_HDR_FORMAT, Code.size] using this
  have hpl : slice (segBytesL td (8 + pl.length) ec fl pl ++ rest) 8 (8 + pl.length) = pl := by
    simp only [segBytesL, List.append_assoc]
    exact slice_mid _ _ _ _ _ (by simp) (by simp)
  have hdrop : List.drop (pl.length + 8 + (if ((pl.length + 8) % 4 == 0) = true then 0 else 4 - (pl.length + 8) % 4))
      (segBytesL td (8 + pl.length) ec fl pl ++ rest) = rest := by
    apply drop_append_len
    rw [segBytesL_length]
    by_cases hm : (pl.length + 8) % 4 = 0
    · simp [hm]; omega
    · simp [hm]; omega
  simp only [Seg.unpackBase, hhdr, Seg.setPayload, NPD_SEGMENT_HDR_LEN, hpl, hdrop]
  rfl

/-! ### well-formed segments -/

/-- the data a segment encodes: RS-232 segments rebuild it from block status, sync bytes and data
    (the low three bits of the status word are the sync byte count); every other class emits its payload -/
def effPayload (g : Seg) : Bytes :=
  match g.kind with
  | .rs232 => encInt true 2 (g.block_status % 65536 / 8 * 8 + g.sync_bytes.length) ++
      (g.sync_bytes.flatMap (encInt true 1) ++ g.data)
  | _ => g.payload

/-- every field fits its width; the length field is header + data (what the `payload` setter
    establishes, and `RS232Segment.pack` re-establishes); an RS-232 segment has at most seven sync bytes -/
def Seg_WF (g : Seg) : Prop :=
  g.timedelta < 4294967296 ∧ g.errorcode < 256 ∧ g.flags < 256 ∧ 8 + (effPayload g).length < 65536 ∧
  (g.kind = .rs232 → g.sync_bytes.length < 8 ∧ ∀ b ∈ g.sync_bytes, b < 256) ∧
  (g.kind ≠ .rs232 → g.segmentlen = 8 + g.payload.length)

def segBytes (g : Seg) : Bytes :=
  segBytesL g.timedelta (8 + (effPayload g).length) g.errorcode g.flags (effPayload g)

/-- the object `pack` leaves behind -/
def packedSeg (g : Seg) : Seg :=
  match g.kind with
  | .rs232 => { g with block_status := g.block_status % 65536 / 8 * 8 + g.sync_bytes.length,
                       payload := effPayload g, segmentlen := (effPayload g).length + 8 }
  | _ => g

theorem packSync_eq (l : List Nat) (h : ∀ b ∈ l, b < 256) : packSync l = .ok (l.flatMap (encInt true 1)) := by
  induction l with
  | nil => rfl
  | cons b bs ih =>
    have hf : Fits RS232Segment_pack_fmt1.codes [b] := by
      simp [Fits, RS232Segment_pack_fmt1, Code.bound]; exact h b (by simp)
    simp only [packSync, structPack_eq _ _ hf, ih (fun x hx => h x (by simp [hx])), List.flatMap_cons]
    simp [encCodes, RS232Segment_pack_fmt1, Code.size]

theorem Seg_pack_eq (g : Seg) (h : Seg_WF g) : Seg.pack g = (packedSeg g, .ok (segBytes g)) := by
  obtain ⟨h1, h2, h3, h4, h5, h6⟩ := h
  by_cases hk : g.kind = .rs232
  · obtain ⟨h7, h8⟩ := h5 hk
    have hbs : Fits RS232Segment_pack_fmt0.codes [g.block_status % 65536 / 8 * 8 + g.sync_bytes.length] := by
      simp [Fits, RS232Segment_pack_fmt0, Code.bound]; omega
    have heff : effPayload g = encInt true 2 (g.block_status % 65536 / 8 * 8 + g.sync_bytes.length) ++
        (g.sync_bytes.flatMap (encInt true 1) ++ g.data) := by simp [effPayload, hk]
    have hp : Seg.pack g = g.packRS232 := by simp only [Seg.pack, hk]
    rw [hp]
    simp only [Seg.packRS232, and_FFF8, structPack_eq _ _ hbs, packSync_eq _ h8]
    have henc : encCodes RS232Segment_pack_fmt0.big RS232Segment_pack_fmt0.codes
        [g.block_status % 65536 / 8 * 8 + g.sync_bytes.length] =
        encInt true 2 (g.block_status % 65536 / 8 * 8 + g.sync_bytes.length) := by
      simp [encCodes, RS232Segment_pack_fmt0, Code.size]
    simp only [henc, List.append_assoc, ← heff]
    have hpb := packBase_eq ({ g with block_status := g.block_status % 65536 / 8 * 8 + g.sync_bytes.length }.setPayload (effPayload g))
      (by simpa [Seg.setPayload] using h1) (by simp [Seg.setPayload, NPD_SEGMENT_HDR_LEN]; omega)
      (by simpa [Seg.setPayload] using h2) (by simpa [Seg.setPayload] using h3)
    rw [hpb]
    simp [packedSeg, hk, Seg.setPayload, NPD_SEGMENT_HDR_LEN, segBytes, Nat.add_comm]
  · have hsl := h6 hk
    have heff : effPayload g = g.payload := by
      cases hkk : g.kind <;> simp_all [effPayload]
    have : Seg.pack g = (g, g.packBase) := by
      cases hkk : g.kind <;> simp_all [Seg.pack]
    rw [this, packBase_eq g h1 (by rw [hsl, ← heff]; omega) h2 h3]
    have : packedSeg g = g := by
      cases hkk : g.kind <;> simp_all [packedSeg]
    simp [this, segBytes, heff, hsl]

theorem segBytes_length (g : Seg) : (segBytes g).length = 8 + (effPayload g).length + (4 - (effPayload g).length % 4) % 4 :=
  segBytesL_length _ _ _ _ _

theorem segBytes_mod4 (g : Seg) : (segBytes g).length % 4 = 0 := segBytesL_mod4 _ _ _ _ _

theorem packSegs_eq (gs : List Seg) (h : ∀ g ∈ gs, Seg_WF g) :
    packSegs gs = (gs.map packedSeg, .ok (gs.flatMap segBytes)) := by
  induction gs with
  | nil => rfl
  | cons g gs ih =>
    simp only [packSegs, Seg_pack_eq g (h g (by simp)), ih (fun q hq => h q (by simp [hq])), List.map_cons,
      List.flatMap_cons]

theorem flatMap_segBytes_mod4 (gs : List Seg) : (gs.flatMap segBytes).length % 4 = 0 := by
  induction gs with
  | nil => rfl
  | cons g gs ih =>
    have := segBytes_mod4 g
    simp only [List.flatMap_cons, List.length_append]; omega

theorem flatMap_segBytes_length_ge (gs : List Seg) : gs.length ≤ (gs.flatMap segBytes).length := by
  induction gs with
  | nil => simp
  | cons p ps ih => simp only [List.flatMap_cons, List.length_cons, List.length_append, segBytes_length]; omega

/-! ### packets -/

/-- every header field fits its width, the header is the five words `pack` emits, data type, multicast
    address and time stamp are set, every segment is well-formed and the total length fits 16 bits of words -/
def NPD_WF (s : State) (dt mc ts : Nat) : Prop :=
  s.version < 16 ∧ s.hdrlen = 5 ∧ s.datatype = some dt ∧ dt < 256 ∧ s.cfgcnt < 256 ∧ s.flags < 256 ∧
  s.sequence < 65536 ∧ s.datasrcid < 4294967296 ∧ s.mcastaddr = some mc ∧ mc < 4294967296 ∧
  s.timestamp = some ts ∧ ts < 4294967296 ∧ (∀ g ∈ s.segments, Seg_WF g) ∧
  (20 + (s.segments.flatMap segBytes).length) / 4 < 65536

def npdHdr (s : State) (dt mc ts : Nat) : Bytes :=
  encInt true 1 (s.version * 16 + s.hdrlen) ++ (encInt true 1 dt ++
  (encInt true 2 ((20 + (s.segments.flatMap segBytes).length) / 4) ++ (encInt true 1 s.cfgcnt ++ (encInt true 1 s.flags ++
  (encInt true 2 s.sequence ++ (encInt true 4 s.datasrcid ++ (encInt true 4 mc ++ encInt true 4 ts)))))))

def npdBytes (s : State) (dt mc ts : Nat) : Bytes := npdHdr s dt mc ts ++ s.segments.flatMap segBytes

def packedNPD (s : State) : State :=
  { s with segments := s.segments.map packedSeg, packetlen := (20 + (s.segments.flatMap segBytes).length) / 4 }

@[simp] theorem npdHdr_length (s : State) (dt mc ts : Nat) : (npdHdr s dt mc ts).length = 20 := by simp [npdHdr]

theorem npdBytes_length (s : State) (dt mc ts : Nat) :
    (npdBytes s dt mc ts).length = 20 + (s.segments.flatMap segBytes).length := by simp [npdBytes]

theorem NPD_pack_eq (s : State) (dt mc ts : Nat) (h : NPD_WF s dt mc ts) :
    pack s = (packedNPD s, .ok (npdBytes s dt mc ts)) := by
  obtain ⟨h1, h2, h3, h4, h5, h6, h7, h8, h9, h10, h11, h12, h13, h14⟩ := h
  have hf : Fits NPD_HEADER_FORMAT.codes [s.version * 16 + s.hdrlen, dt, (20 + (s.segments.flatMap segBytes).length) / 4,
      s.cfgcnt, s.flags, s.sequence, s.datasrcid, mc, ts] := by
    simp only [Fits, NPD_HEADER_FORMAT, Code.bound]
    refine ⟨by omega, h4, h14, h5, h6, h7, h8, h10, h12, trivial⟩
  simp only [pack, h9, packSegs_eq _ h13, h3, h11, shl_4, NPD_HEADER_LENGTH, structPack_eq _ _ hf]
  simp [packedNPD, npdBytes, npdHdr, encCodes, NPD_HEADER_FORMAT, Code.size]
  exact ⟨h3.symm, h9.symm, h11.symm⟩

/-! ### lists of fixed-width words (`">{}H"`, `">{}B"`) -/

def wordsC (c : Code) (ws : List Nat) : Bytes := ws.flatMap (encInt true c.size)

theorem wordsC_length (c : Code) (ws : List Nat) : (wordsC c ws).length = c.size * ws.length := by
  induction ws with
  | nil => simp [wordsC]
  | cons w ws ih =>
    simp only [wordsC, List.flatMap_cons, List.length_append, encInt_length, List.length_cons] at ih ⊢
    rw [ih, Nat.mul_add]; omega

theorem codesSize_replicate (c : Code) (n : Nat) : codesSize (List.replicate n c) = c.size * n := by
  induction n with
  | zero => simp [codesSize]
  | succ n ih => simp only [List.replicate_succ, codesSize, ih, Nat.mul_add]; omega

theorem unpackCodes_wordsC (c : Code) (ws : List Nat) (rest : Bytes) (h : ∀ w ∈ ws, w < 256 ^ c.size) :
    unpackCodes true (List.replicate ws.length c) (wordsC c ws ++ rest) = ws := by
  induction ws with
  | nil => rfl
  | cons w ws ih =>
    simp only [wordsC, List.flatMap_cons, List.length_cons, List.replicate_succ, unpackCodes,
      List.append_assoc, take_encInt_append, drop_encInt_append]
    rw [decInt_encInt _ _ _ (h w (by simp))]
    have := ih (fun x hx => h x (by simp [hx]))
    simp only [wordsC] at this
    rw [this]

theorem structUnpackFrom_wordsC (c : Code) (f : Fmt) (ws : List Nat) (pre rest : Bytes)
    (hf : f = ⟨true, List.replicate ws.length c⟩) (h : ∀ w ∈ ws, w < 256 ^ c.size) (off : Nat) (hoff : off = pre.length) :
    structUnpackFrom f (pre ++ (wordsC c ws ++ rest)) off = .ok ws := by
  subst hf hoff
  have hle : pre.length + codesSize (List.replicate ws.length c) ≤ (pre ++ (wordsC c ws ++ rest)).length := by
    rw [codesSize_replicate]; simp [wordsC_length]
  simp only [structUnpackFrom, Fmt.size, hle, if_true, List.drop_left']
  rw [unpackCodes_wordsC c ws rest h]

/-! ### typed segment data: what the typed decoders make of data laid out as the format says -/

/-- MIL-STD-1553 segment data: block status(16) gap1(8) gap2(8) message data -/
def data1553 (bs g1 g2 : Nat) (data : Bytes) : Bytes :=
  encInt true 2 bs ++ (encInt true 1 g1 ++ (encInt true 1 g2 ++ data))

theorem unpack1553_eq (s : Seg) (bs g1 g2 : Nat) (data : Bytes) (hp : s.payload = data1553 bs g1 g2 data)
    (h1 : bs < 65536) (h2 : g1 < 256) (h3 : g2 < 256) :
    s.unpack1553 = ({ s with blockstatus := bs, gap1 := g1, gap2 := g2, data := data }, .ok ()) := by
  have hf : Fits MIL1553Segment_unpack_fmt0.codes [bs, g1, g2] := by
    simp [Fits, MIL1553Segment_unpack_fmt0, Code.bound]; omega
  have hu : structUnpackFrom MIL1553Segment_unpack_fmt0 s.payload 0 = .ok [bs, g1, g2] := by
    have := structUnpackFrom_enc0 MIL1553Segment_unpack_fmt0 _ data hf
    rw [hp]
    simpa [data1553, encCodes, MIL1553Segment_unpack_fmt0, Code.size] using this
  have hd : s.payload.drop 4 = data := by
    rw [hp]; simp only [data1553]
    rw [← List.append_assoc (encInt true 1 g1), ← List.append_assoc (encInt true 2 bs)]
    exact drop_append_len _ _ _ (by simp)
  simp only [Seg.unpack1553, hu, hd]

/-- ACQ segment data: sub-frame id(8), CAL flag byte(8), reserved(16), 16-bit words -/
def dataACQ (sfid calbyte reserved : Nat) (words : List Nat) : Bytes :=
  encInt true 1 sfid ++ (encInt true 1 calbyte ++ (encInt true 2 reserved ++ wordsC .u16 words))

theorem unpackACQ_eq (s : Seg) (sfid calbyte reserved : Nat) (words : List Nat)
    (hp : s.payload = dataACQ sfid calbyte reserved words)
    (h1 : sfid < 256) (h2 : calbyte < 256) (h3 : reserved < 65536) (h4 : ∀ w ∈ words, w < 65536) :
    s.unpackACQ = ({ s with sfid := sfid, cal := calbyte / 128, words := words }, .ok ()) := by
  have hf : Fits ACQSegment_unpack_fmt0.codes [sfid, calbyte, reserved] := by
    simp [Fits, ACQSegment_unpack_fmt0, Code.bound]; omega
  have hu : structUnpackFrom ACQSegment_unpack_fmt0 s.payload 0 = .ok [sfid, calbyte, reserved] := by
    have := structUnpackFrom_enc0 ACQSegment_unpack_fmt0 _ (wordsC .u16 words) hf
    rw [hp]
    simpa [dataACQ, encCodes, ACQSegment_unpack_fmt0, Code.size] using this
  have hl : s.payload.length = 4 + 2 * words.length := by
    rw [hp]; simp [dataACQ, wordsC_length, Code.size]; omega
  have hw : structUnpackFrom (ACQSegment_unpack_fmt1 ((s.payload.length - 4) / 2)) s.payload 4 = .ok words := by
    have hn : (s.payload.length - 4) / 2 = words.length := by omega
    rw [hn, hp]
    have := structUnpackFrom_wordsC .u16 (ACQSegment_unpack_fmt1 words.length) words
      (encInt true 1 sfid ++ (encInt true 1 calbyte ++ encInt true 2 reserved)) [] rfl
      (by intro w hw; exact h4 w hw) 4 (by simp)
    simpa [dataACQ] using this
  simp only [Seg.unpackACQ, hu, shr_7, hw]

/-- RS-232 segment data: block status (high 13 bits, then the sync byte count), sync bytes, data -/
def dataRS232 (hi13 : Nat) (sync : List Nat) (data : Bytes) : Bytes :=
  encInt true 2 (hi13 * 8 + sync.length) ++ (wordsC .u8 sync ++ data)

theorem unpackRS232_eq (s : Seg) (hi13 : Nat) (sync : List Nat) (data : Bytes)
    (hp : s.payload = dataRS232 hi13 sync data) (h1 : hi13 < 8192) (h2 : sync.length < 8) (h3 : ∀ b ∈ sync, b < 256) :
    s.unpackRS232 = ({ s with block_status := hi13 * 8 + sync.length, sync_bytes := sync, data := data }, .ok ()) := by
  have hf : Fits RS232Segment_unpack_fmt0.codes [hi13 * 8 + sync.length] := by
    simp [Fits, RS232Segment_unpack_fmt0, Code.bound]; omega
  have hu : structUnpackFrom RS232Segment_unpack_fmt0 s.payload 0 = .ok [hi13 * 8 + sync.length] := by
    have := structUnpackFrom_enc0 RS232Segment_unpack_fmt0 _ (wordsC .u8 sync ++ data) hf
    rw [hp]
    simpa [dataRS232, encCodes, RS232Segment_unpack_fmt0, Code.size] using this
  have hcnt : (hi13 * 8 + sync.length) % 8 = sync.length := by omega
  have hd2 : s.payload.drop 2 = wordsC .u8 sync ++ data := by
    rw [hp]; exact drop_append_len _ _ _ (by simp)
  simp only [Seg.unpackRS232, hu, BSL_SYNC_COUNT_MASK, and_7', hcnt]
  by_cases hpos : sync.length > 0
  · have hs : structUnpackFrom (RS232Segment_unpack_fmt1 sync.length) (s.payload.drop 2) 0 = .ok sync := by
      rw [hd2]
      have := structUnpackFrom_wordsC .u8 (RS232Segment_unpack_fmt1 sync.length) sync [] data rfl
        (by intro w hw; exact h3 w hw) 0 rfl
      simpa using this
    have hd : s.payload.drop (2 + sync.length) = data := by
      rw [hp]; simp only [dataRS232]
      rw [← List.append_assoc]
      exact drop_append_len _ _ _ (by simp [wordsC_length, Code.size])
    simp only [hpos, if_true, hs, hd]
  · have : sync = [] := by
      cases sync with
      | nil => rfl
      | cons a l => simp at hpos
    subst this
    simp [hd2, wordsC]

end Acra.Lemmas.NPD
