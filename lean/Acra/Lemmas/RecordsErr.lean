/-
  C08 helper: WHERE the exception of a record loop `decOff` (Acra/Py/Records.lean) comes from, exactly.
  `Reach dec1 more buf off xs o`: starting at offset `off` the loop condition held and the step decoded the
  records `xs` one after the other, and the loop now stands at offset `o`.
  `decOff_error_iff`: with the fuel the models give the loop, it ends with exception `e` iff it reaches an
  offset where the condition still holds and the step raises `e` there — the exception is that of the
  FIRST record that fails, nothing is added or swallowed by the loop.
  (`ReviewC08Records.decOff_error_source` is the weaker one-directional form without the prefix.)
-/
import Acra.Py.Records
namespace Acra.Lemmas.RecordsErr
open Acra.Py

def Reach (dec1 : Bytes → R (α × Nat)) (more : Nat → Nat → Bool) (buf : Bytes) : Nat → List α → Nat → Prop
  | off, [], o => o = off
  | off, x :: xs, o =>
    more off buf.length = true ∧ ∃ n, dec1 (buf.drop off) = .ok (x, n) ∧ Reach dec1 more buf (off + n) xs o

theorem decOff_error_reach (dec1 : Bytes → R (α × Nat)) (more : Nat → Nat → Bool) (buf : Bytes)
    (fuel off : Nat) (e : Err) (h : decOff dec1 more buf fuel off = .error e) :
    e = .fuel ∨ ∃ xs o, Reach dec1 more buf off xs o ∧ more o buf.length = true ∧ dec1 (buf.drop o) = .error e := by
  induction fuel generalizing off with
  | zero => simp [decOff] at h; exact Or.inl h.symm
  | succ fuel ih =>
    unfold decOff at h
    by_cases hm : more off buf.length = true
    · simp only [hm, if_true] at h
      cases hd : dec1 (buf.drop off) with
      | error e' =>
        simp only [hd, Except.error.injEq] at h
        subst h
        exact Or.inr ⟨[], off, rfl, hm, hd⟩
      | ok r =>
        obtain ⟨x, n⟩ := r
        simp only [hd] at h
        cases hr : decOff dec1 more buf fuel (off + n) with
        | ok ys => simp [hr] at h
        | error e' =>
          simp only [hr, Except.error.injEq] at h
          subst h
          rcases ih _ hr with hf | ⟨xs, o, hreach, hmo, hdo⟩
          · exact Or.inl hf
          · exact Or.inr ⟨x :: xs, o, ⟨hm, n, hd, hreach⟩, hmo, hdo⟩
    · simp [hm] at h

theorem reach_error_decOff (dec1 : Bytes → R (α × Nat)) (more : Nat → Nat → Bool) (buf : Bytes)
    (fuel off : Nat) (xs : List α) (o : Nat) (e : Err) (hr : Reach dec1 more buf off xs o)
    (hm : more o buf.length = true) (hd : dec1 (buf.drop o) = .error e) (hf : xs.length < fuel) :
    decOff dec1 more buf fuel off = .error e := by
  induction xs generalizing off fuel with
  | nil =>
    cases fuel with
    | zero => simp at hf
    | succ fuel =>
      simp only [Reach] at hr
      subst hr
      simp [decOff, hm, hd]
  | cons x xs ih =>
    cases fuel with
    | zero => simp at hf
    | succ fuel =>
      obtain ⟨hm0, n, hd0, hr'⟩ := hr
      unfold decOff
      simp only [hm0, if_true, hd0]
      rw [ih fuel (off + n) hr' (by simp at hf; omega)]

/-- a step that always advances and fails on the empty string decodes at most one record per byte -/
theorem reach_length_le (dec1 : Bytes → R (α × Nat)) (more : Nat → Nat → Bool) (buf : Bytes)
    (hp : Progress dec1) (off : Nat) (xs : List α) (o : Nat) (h : Reach dec1 more buf off xs o) :
    xs.length ≤ buf.length - off ∧ off ≤ o := by
  induction xs generalizing off with
  | nil => simp only [Reach] at h; subst h; simp
  | cons x xs ih =>
    obtain ⟨_, n, hd, hr⟩ := h
    have hn := hp.pos _ _ _ hd
    have hne : off < buf.length := by
      by_cases hoff : buf.length ≤ off
      · rw [List.drop_eq_nil_of_le hoff] at hd
        exact absurd hd (hp.empty x n)
      · omega
    have := ih _ hr
    simp only [List.length_cons]
    omega

/-- with fuel `len − off + 1` (what every model gives its loop) the loop ends with exception `e` exactly when it
    reaches an offset where the loop condition holds and the record decoder raises `e` -/
theorem decOff_error_iff (dec1 : Bytes → R (α × Nat)) (more : Nat → Nat → Bool) (buf : Bytes)
    (hp : Progress dec1) (fuel off : Nat) (hf : buf.length - off + 1 ≤ fuel) (e : Err) :
    decOff dec1 more buf fuel off = .error e ↔
      ∃ xs o, Reach dec1 more buf off xs o ∧ more o buf.length = true ∧ dec1 (buf.drop o) = .error e := by
  constructor
  · intro h
    rcases decOff_error_reach dec1 more buf fuel off e h with rfl | h'
    · exact absurd h (decOff_fuel_sufficient dec1 more buf hp fuel off hf)
    · exact h'
  · rintro ⟨xs, o, hr, hm, hd⟩
    have := (reach_length_le dec1 more buf hp off xs o hr).1
    exact reach_error_decOff dec1 more buf fuel off xs o e hr hm hd (by omega)

/-- the successful run, in the same vocabulary: the loop returns `xs` iff it reaches, through `xs`, an offset where
    the condition fails -/
theorem decOff_ok_iff (dec1 : Bytes → R (α × Nat)) (more : Nat → Nat → Bool) (buf : Bytes)
    (hp : Progress dec1) (fuel off : Nat) (hf : buf.length - off + 1 ≤ fuel) (xs : List α) :
    decOff dec1 more buf fuel off = .ok xs ↔
      ∃ o, Reach dec1 more buf off xs o ∧ more o buf.length = false := by
  constructor
  · intro h
    induction fuel generalizing off xs with
    | zero => simp [decOff] at h
    | succ fuel ih =>
      unfold decOff at h
      by_cases hm : more off buf.length = true
      · simp only [hm, if_true] at h
        cases hd : dec1 (buf.drop off) with
        | error e => simp [hd] at h
        | ok r =>
          obtain ⟨x, n⟩ := r
          simp only [hd] at h
          cases hr : decOff dec1 more buf fuel (off + n) with
          | error e => simp [hr] at h
          | ok ys =>
            simp only [hr, Except.ok.injEq] at h
            subst h
            have hn := hp.pos _ _ _ hd
            have hne : off < buf.length := by
              by_cases hoff : buf.length ≤ off
              · rw [List.drop_eq_nil_of_le hoff] at hd
                exact absurd hd (hp.empty x n)
              · omega
            obtain ⟨o, hreach, hmo⟩ := ih (off + n) (by omega) ys hr
            exact ⟨o, ⟨hm, n, hd, hreach⟩, hmo⟩
      · simp only [hm, Bool.false_eq_true, if_false, Except.ok.injEq] at h
        subst h
        exact ⟨off, rfl, by simpa using hm⟩
  · rintro ⟨o, hr, hm⟩
    have hlen := (reach_length_le dec1 more buf hp off xs o hr).1
    have hfuel : xs.length < fuel := by omega
    clear hf hlen
    induction xs generalizing off fuel with
    | nil =>
      cases fuel with
      | zero => simp at hfuel
      | succ fuel =>
        simp only [Reach] at hr
        subst hr
        simp [decOff, hm]
    | cons x xs ih =>
      cases fuel with
      | zero => simp at hfuel
      | succ fuel =>
        obtain ⟨hm0, n, hd0, hr'⟩ := hr
        unfold decOff
        simp only [hm0, if_true, hd0]
        rw [ih fuel (off + n) hr' (by simp at hfuel; omega)]

end Acra.Lemmas.RecordsErr
