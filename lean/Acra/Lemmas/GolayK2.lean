/- Kernel evaluation, part 2 of 5: the witness table sends the syndrome of every pattern of weight
   1..3 (sorted index triples, 2600 of them) back to the pattern; slot 0 is empty. -/
import Acra.Lemmas.GolayBase
namespace Acra.Lemmas.Golay
open Acra.Model.Golay

set_option maxRecDepth 100000 in
theorem lookup_sorted : ∀ a, a < 24 → ∀ b, b < a + 1 → ∀ c, c < b + 1 →
    lookupT buildT (synF (pat a b c)) = pat a b c := by
  decide +kernel

set_option maxRecDepth 100000 in
theorem lookup_zero : lookupT buildT 0 = 0 := by decide +kernel

end Acra.Lemmas.Golay
