/-
  Helper lemmas for the `endianness_swap` source tie (`Props/C17/SrcTie.lean`): extended slices.
-/
import Acra.Py.IntOps
import Acra.Model.Search
namespace Acra.Lemmas.SrcTieSwap
open Acra Acra.Py

theorem getStride_eq (step skip : Nat) (l : List α) :
    Py.getStride step skip l = Model.Search.getStride step skip l := by
  induction l generalizing skip with
  | nil => cases skip <;> rfl
  | cons x xs ih =>
    cases skip with
    | zero => simp only [Py.getStride, Model.Search.getStride, ih]
    | succ k => simp only [Py.getStride, Model.Search.getStride, ih]

theorem setStride_eq (step skip : Nat) (l vs : List α) :
    Py.setStride step skip l vs = Model.Search.setStride step skip l vs := by
  induction l generalizing skip vs with
  | nil => cases skip <;> rfl
  | cons x xs ih =>
    cases skip with
    | zero =>
      cases vs with
      | nil => rfl
      | cons v vs => simp only [Py.setStride, Model.Search.setStride, ih]
    | succ k => simp only [Py.setStride, Model.Search.setStride, ih]

/-- the size of `b[skip::step]` -/
theorem getStride_length (step : Nat) (hs : 0 < step) (skip : Nat) (l : List α) :
    (Py.getStride step skip l).length = (l.length + step - 1 - skip) / step := by
  induction l generalizing skip with
  | nil =>
    have : (Py.getStride step skip ([] : List α)) = [] := by cases skip <;> rfl
    rw [this]
    simp only [List.length_nil, Nat.zero_add]
    exact (Nat.div_eq_of_lt (by omega)).symm
  | cons x xs ih =>
    cases skip with
    | zero =>
      simp only [Py.getStride, List.length_cons, ih]
      have h1 : xs.length + step - 1 - (step - 1) = xs.length := by omega
      have h2 : xs.length + 1 + step - 1 - 0 = xs.length + step := by omega
      rw [h1, h2, Nat.add_div_right _ hs]
    | succ k =>
      simp only [Py.getStride, List.length_cons, ih]
      have : xs.length + 1 + step - 1 - (k + 1) = xs.length + step - 1 - k := by omega
      rw [this]

theorem setStride_length (step skip : Nat) (l vs : List α) :
    (Py.setStride step skip l vs).length = l.length := by
  induction l generalizing skip vs with
  | nil => cases skip <;> rfl
  | cons x xs ih =>
    cases skip with
    | zero =>
      cases vs with
      | nil => rfl
      | cons v vs => simp only [Py.setStride, List.length_cons, ih]
    | succ k => simp only [Py.setStride, List.length_cons, ih]

/-- `b[start::step] = vals` succeeds when the sizes agree -/
theorem strideSetE_ok (b vals : List α) (start step : Nat) (hs : 0 < step)
    (h : (b.length + step - 1 - start) / step = vals.length) :
    Py.strideSetE b start step vals = .ok (Py.setStride step start b vals) := by
  unfold Py.strideSetE
  rw [getStride_length step hs, if_pos h]

/-- Python's `%` is zero exactly when Lean's `%` is (both say "divisible") -/
theorem pymod_eq_zero_iff (a b : Int) : pymod a b = 0 ↔ a % b = 0 := by
  unfold pymod
  constructor
  · intro h; exact Int.emod_eq_zero_of_dvd (Int.dvd_of_fmod_eq_zero h)
  · intro h; exact Int.fmod_eq_zero_of_dvd (Int.dvd_of_emod_eq_zero h)

end Acra.Lemmas.SrcTieSwap
