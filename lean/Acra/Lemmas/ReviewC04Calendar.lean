/-
  Review addition (rev1-C04): an INDEPENDENT characterisation of the calendar the time-format-1 model
  uses.  `Lemmas/Ch11Calendar.lean` proves that `civilFromDays` and `daysFromCivil` invert each other
  and yield valid dates; that is internal consistency of two algorithms of the model.  The layout
  theorems of `Props/C04/TimeFmt1.lean` are phrased with `civil n` (= `civilFromDays`), so they say
  "pack emits the BCD digits of the MODEL's date".  Here the model's date is tied to the textbook
  Gregorian day count: 365 days per year passed since 1970, one more per leap year passed, the
  lengths of the months passed, and the day of the month.  1 560 kernel evaluations (130 years × 12
  months), a fraction of a second.
-/
import Acra.Lemmas.Ch11TimeFmt
namespace Acra.Lemmas.ReviewC04Calendar
open Acra.Model.Ch11Pay.TimeFmt Acra.Lemmas.Ch11Calendar Acra.Lemmas.Ch11TimeFmt

/-- number of leap years among 1970, …, 1970+k−1 (counted one by one with the Gregorian rule) -/
def leapsBefore : Nat → Nat
  | 0 => 0
  | k + 1 => leapsBefore k + (if isLeap (1970 + k) then 1 else 0)

/-- days of a year that lie before the first of month `m` (1…12); `lp`: the year is a leap year -/
def cumDays (lp : Bool) (m : Nat) : Nat :=
  [0, 31, 59, 90, 120, 151, 181, 212, 243, 273, 304, 334].getD (m - 1) 0 + (if lp && decide (2 < m) then 1 else 0)

def checkMonth (k m : Nat) : Bool :=
  daysFromCivil (1970 + k) (m + 1) 1 == EPOCH + 365 * k + leapsBefore k + cumDays (isLeap (1970 + k)) (m + 1)

theorem months_all : allBelow (fun k => allBelow (fun m => checkMonth k m) 12) 130 = true := by decide +kernel

/-- within a month the day number advances with the day of the month -/
theorem daysFromCivil_day (y m d : Nat) (hd : 1 ≤ d) : daysFromCivil y m d = daysFromCivil y m 1 + (d - 1) := by
  unfold daysFromCivil
  simp only []
  omega

/-- the first of every month of 1970…2099 is where the textbook count puts it -/
theorem monthStart (y m : Nat) (hy1 : 1970 ≤ y) (hy2 : y ≤ 2099) (hm1 : 1 ≤ m) (hm2 : m ≤ 12) :
    daysFromCivil y m 1 = EPOCH + 365 * (y - 1970) + leapsBefore (y - 1970) + cumDays (isLeap y) m := by
  have h1 := allBelow_spec _ _ months_all (y - 1970) (by omega)
  have h2 := allBelow_spec _ _ h1 (m - 1) (by omega)
  simp only [checkMonth, beq_iff_eq] at h2
  have e1 : 1970 + (y - 1970) = y := by omega
  have e2 : m - 1 + 1 = m := by omega
  rw [e1, e2] at h2
  exact h2

/-- pure arithmetic, with the epoch constant kept opaque (the kernel must not unfold it) -/
theorem cg_arith (n x L C A B J d : Nat)
    (hm : A = EPOCH + 365 * x + L + C) (f1 : B = n / 86400 + EPOCH) (hd : B = A + (d - 1))
    (hj : J = EPOCH + 365 * x + L + 0) :
    n / 86400 = 365 * x + L + C + (d - 1) ∧ J = EPOCH + 365 * x + L := by
  generalize EPOCH = E at *
  refine ⟨?_, ?_⟩
  · omega
  · omega

/-- the model's calendar is the Gregorian one on 1970…2099: the civil date `(y, m, d)` it assigns to
    second `n` is the date whose textbook day count (365 per year passed, one more per leap year
    passed, the days of the months passed, `d − 1`) is `n / 86400`; and 1 January of that year is day
    `365·(y−1970) + leap years passed` -/
theorem civil_gregorian (n : Nat) (h : n < 86400 * DAYS) :
    let c := civilFromDays (n / 86400 + EPOCH)
    n / 86400 = 365 * (c.1 - 1970) + leapsBefore (c.1 - 1970) + cumDays (isLeap c.1) c.2.1 + (c.2.2 - 1) ∧
    daysFromCivil c.1 1 1 = EPOCH + 365 * (c.1 - 1970) + leapsBefore (c.1 - 1970) := by
  have hf := day_facts n h
  simp only at hf ⊢
  generalize civilFromDays (n / 86400 + EPOCH) = c at hf ⊢
  obtain ⟨f1, f2, f3, f4, f5, f6, f7, f8, f9, f10⟩ := hf
  have hm := monthStart c.1 c.2.1 f2 f3 f4 f5
  have hj := monthStart c.1 1 f2 f3 (by omega) (by omega)
  have hd := daysFromCivil_day c.1 c.2.1 c.2.2 f6
  have hc : cumDays (isLeap c.1) 1 = 0 := by simp [cumDays]
  rw [hc] at hj
  exact cg_arith n (c.1 - 1970) _ _ _ _ _ c.2.2 hm f1 hd hj

theorem ys_arith (n K J : Nat) (hj : J = EPOCH + K) (f9 : J ≤ n / 86400 + EPOCH) (f10 : n / 86400 + EPOCH < J + 366) :
    86400 * (J - EPOCH) = 86400 * K ∧ 86400 * (J - EPOCH) ≤ n ∧ n < 86400 * (J - EPOCH) + 366 * 86400 := by
  generalize EPOCH = E at *
  subst hj
  have e : E + K - E = K := by omega
  rw [e]
  refine ⟨rfl, ?_, ?_⟩ <;> omega

/-- the first second of the year that contains second `n`: where the textbook count puts it, not
    after `n`, and less than 366 days before `n` -/
theorem yearStart_facts (n : Nat) (h : n < 86400 * DAYS) :
    let c := civilFromDays (n / 86400 + EPOCH)
    86400 * (daysFromCivil c.1 1 1 - EPOCH) = 86400 * (365 * (c.1 - 1970) + leapsBefore (c.1 - 1970)) ∧
    86400 * (daysFromCivil c.1 1 1 - EPOCH) ≤ n ∧ n < 86400 * (daysFromCivil c.1 1 1 - EPOCH) + 366 * 86400 := by
  have hg := civil_gregorian n h
  have hf := day_facts n h
  simp only at hf hg ⊢
  generalize civilFromDays (n / 86400 + EPOCH) = c at hf hg ⊢
  obtain ⟨f1, f2, f3, f4, f5, f6, f7, f8, f9, f10⟩ := hf
  exact ys_arith n _ _ (by rw [hg.2, Nat.add_assoc]) f9 f10

theorem y1970_arith (n x L J : Nat) (hn : n < 365 * 86400) (hj : J = EPOCH + 365 * x + L) (f9 : J ≤ n / 86400 + EPOCH) : x = 0 := by
  generalize EPOCH = E at *
  omega

/-- every second of 1970 lies in the year that starts at second 0 -/
theorem yearStart_1970 (n : Nat) (hn : n < 365 * 86400) :
    daysFromCivil (civilFromDays (n / 86400 + EPOCH)).1 1 1 = EPOCH := by
  have h : n < 86400 * DAYS := by unfold DAYS; omega
  have hg := civil_gregorian n h
  have hf := day_facts n h
  simp only at hf hg
  generalize civilFromDays (n / 86400 + EPOCH) = c at hf hg ⊢
  obtain ⟨f1, f2, f3, f4, f5, f6, f7, f8, f9, f10⟩ := hf
  have hx := y1970_arith n _ _ _ hn hg.2 f9
  have := hg.2
  rw [hx] at this
  simpa [leapsBefore] using this

end Acra.Lemmas.ReviewC04Calendar
