/-
  Chapter 7, part 9: mixed traffic —
  (a) the invariant `MixInv` over the whole encapsulation fold under `NoLLPOverflow` (`encap_mix`);
  (b) the consumer loop over frames with the mixed layout (`decFold_mix`): every frame returns its
      low-latency PTDPs, flagged, then the normal PTDPs completed by the frame's share of the normal stream.
-/
import Acra.Lemmas.Chapter7Llp2
namespace Acra.Lemmas.Chapter7
open Acra.Py Acra.Model Acra.Model.Chapter7 Acra.Gen.Chapter7
open Acra.Spec.Ch7 (offset startsAux)

/-! ### (a) the encapsulation fold -/

/-- the normal PTDPs of a PTDP sequence, in order -/
def normalOf (qs : List PTDP.State) : List PTDP.State := qs.filter fun q => !q.low_latency
/-- the low-latency PTDPs of a PTDP sequence, in order -/
def llpOf (qs : List PTDP.State) : List PTDP.State := qs.filter fun q => q.low_latency

/-- the low-latency PTDPs of the frames, in the order in which they were inserted -/
def llpOrder (lls : List (List PTDP.State)) (ll : List PTDP.State) : List PTDP.State :=
  (lls.map List.reverse).flatten ++ ll.reverse

theorem llpOrder_spill (lls : List (List PTDP.State)) (ll : List PTDP.State) (n : Nat) :
    llpOrder (lls ++ [ll] ++ List.replicate n []) [] = llpOrder lls ll := by
  simp [llpOrder]

theorem encFold_mix (L sid : Nat) (hL : 0 < L) (qs : List PTDP.State) (hwf : ∀ q ∈ qs, PTDP_WF q) :
    ∀ (bs : List Bytes) (lls : List (List PTDP.State)) (ll : List PTDP.State) (cur : PTFR.State)
      (out : List PTFR.State), (∀ b ∈ bs, b ≠ []) → MixInv L sid bs lls ll cur out →
      noLLPOverflowFrom L sid qs (cur, out) = true →
      ∃ cur' out' lls' ll', encFold L sid qs (cur, out) = .ok (cur', out') ∧
        MixInv L sid (bs ++ (normalOf qs).map encB) lls' ll' cur' out' ∧
        llpOrder lls' ll' = llpOrder lls ll ++ llpOf qs ∧
        (∀ q ∈ llpOf qs, q.payload.length + 7 ≤ L) := by
  induction qs with
  | nil =>
    intro bs lls ll cur out _ inv _
    exact ⟨cur, out, lls, ll, rfl, by simpa [normalOf] using inv, by simp [llpOf], by simp [llpOf]⟩
  | cons q qs ih =>
    intro bs lls ll cur out hne inv hno
    have hq := hwf q (by simp)
    have hwf' : ∀ x ∈ qs, PTDP_WF x := fun x hx => hwf x (by simp [hx])
    unfold noLLPOverflowFrom at hno
    simp only [Bool.and_eq_true, Bool.or_eq_true, Bool.not_eq_true', decide_eq_true_eq] at hno
    obtain ⟨hfit, hrest⟩ := hno
    cases hll : q.low_latency with
    | true =>
      have hfit' : q.payload.length + 6 + 1 + cur.payload.length ≤ L := by
        rcases hfit with h | h
        · rw [hll] at h; cases h
        · exact h
      obtain ⟨cur1, hs, inv1⟩ := encStep_llp L sid bs lls ll cur out inv q hq hll hfit'
      rw [hs] at hrest
      obtain ⟨cur2, out2, lls2, ll2, hf, inv2, hord, hsz⟩ := ih hwf' bs lls (q :: ll) cur1 out hne inv1 hrest
      refine ⟨cur2, out2, lls2, ll2, ?_, ?_, ?_, ?_⟩
      · simp only [encFold, hs, hf]
      · have : normalOf (q :: qs) = normalOf qs := by simp [normalOf, hll]
        rw [this]; exact inv2
      · have : llpOf (q :: qs) = q :: llpOf qs := by simp [llpOf, hll]
        rw [this, hord]; simp [llpOrder]
      · have : llpOf (q :: qs) = q :: llpOf qs := by simp [llpOf, hll]
        rw [this]
        intro x hx
        simp only [List.mem_cons] at hx
        rcases hx with rfl | hx
        · omega
        · exact hsz x hx
    | false =>
      obtain ⟨cur1, out1, lls1, ll1, hs, inv1, hcase⟩ :=
        encStep_mix_normal L sid hL bs hne lls ll cur out inv q (encB q) (pack_encB q hq) hll (encB_ne q)
      rw [hs] at hrest
      obtain ⟨cur2, out2, lls2, ll2, hf, inv2, hord, hsz⟩ := ih hwf' (bs ++ [encB q]) lls1 ll1 cur1 out1
        (by intro b hb; simp only [List.mem_append, List.mem_singleton] at hb
            rcases hb with hb | rfl
            · exact hne b hb
            · exact encB_ne q) inv1 hrest
      have hord1 : llpOrder lls1 ll1 = llpOrder lls ll := by
        rcases hcase with ⟨h1, h2⟩ | ⟨n, h1, h2⟩
        · rw [h1, h2]
        · rw [h1, h2, llpOrder_spill]
      refine ⟨cur2, out2, lls2, ll2, ?_, ?_, ?_, ?_⟩
      · simp only [encFold, hs, hf]
      · have : normalOf (q :: qs) = q :: normalOf qs := by simp [normalOf, hll]
        rw [this]
        simpa [List.append_assoc] using inv2
      · have : llpOf (q :: qs) = llpOf qs := by simp [llpOf, hll]
        rw [this, hord, hord1]
      · have : llpOf (q :: qs) = llpOf qs := by simp [llpOf, hll]
        rw [this]; exact hsz

theorem datapktsToPtdp_wf (pkts : List (Bytes × Bool)) : ∀ q ∈ datapktsToPtdp pkts, PTDP_WF q := by
  intro q hq
  simp only [datapktsToPtdp, List.mem_flatMap] at hq
  obtain ⟨p, _, hp⟩ := hq
  exact (ptdpsOf_wf p.1 p.2 q hp).1

/-- the encapsulator on mixed traffic under `NoLLPOverflow`: it terminates, its state is `MixInv`, the
    low-latency PTDPs of the frames are those of the input, each once -/
theorem encap_mix (pkts : List (Bytes × Bool)) (L sid : Nat) (hL : 0 < L) (hno : NoLLPOverflow pkts L sid) :
    ∃ cur out lls ll, datapktsToPtfr pkts L sid = .ok (cur, out) ∧
      MixInv L sid ((normalOf (datapktsToPtdp pkts)).map encB) lls ll cur out ∧
      llpOrder lls ll = llpOf (datapktsToPtdp pkts) ∧
      (∀ q ∈ llpOf (datapktsToPtdp pkts), q.payload.length + 7 ≤ L) := by
  obtain ⟨cur, out, lls, ll, h, inv, hord, hsz⟩ :=
    encFold_mix L sid hL (datapktsToPtdp pkts) (datapktsToPtdp_wf pkts) [] [] [] (newPtfr L sid) []
      (by simp) (mixInv_init L sid hL) hno
  exact ⟨cur, out, lls, ll, h, by simpa using inv, by simpa [llpOrder] using hord, hsz⟩

/-! ### (b) the consumer loop on frames with the mixed layout -/

/-- what the consumer loop collects from the frames `lls` whose normal data start at `c` -/
def mixPtdps (L : Nat) (ps : List PTDP.State) : Nat → List (List PTDP.State) → List PTDP.State
  | _, [] => []
  | c, ll :: r =>
    ll.map asLlp ++
      (ps.take (doneCount (ps.map encB) (c + cap L ll))).drop (doneCount (ps.map encB) c) ++
      mixPtdps L ps (c + cap L ll) r

theorem consume_fold2 (as ps : List PTDP.State) (last : Item) (acc : List PTDP.State) (rm : Option Bytes) :
    (as.map Item.pkt ++ ps.map Item.pkt ++ [last]).foldl consume (acc, rm) = consume (acc ++ as ++ ps, rm) last := by
  rw [← List.map_append, consume_fold, List.append_assoc]

/-- one step of the consumer loop on a frame that holds low-latency PTDPs -/
theorem decStep_llp (L : Nat) (st : DecSt) (f : PTFR.State) (ll : List PTDP.State) (N r : Bytes)
    (hne : ll ≠ []) (hlay : LlpLayout f ll N) (hllwf : ∀ p ∈ ll, PTDP_WF p)
    (hwf : PTFR_WF f) (hL : f.payload.length ≤ L) (hr : st.rem = some r) (hjump : st.first = true → r = [])
    (hflag : (parseB (r ++ N)).2.2 = false) :
    decStep L st (wire f) =
      ({ ptdps := st.ptdps ++ ll.map asLlp ++ (parseB (r ++ N)).1, rem := some (parseB (r ++ N)).2.1,
         first := false }, none) := by
  have hu := ptfr_unpack_noisy f { PTFR.fresh with length := L } hwf 0 (by decide) wt_zero_le hL
  rw [decStep_of_unpack L st (wire f) _ hu, hr]
  have hg := gap_llp_frame { f with length := L } ll N hne ⟨hlay.flag, hlay.payload, hlay.off⟩ hllwf st.first r hjump
  have e : ll.map (fun p => Item.pkt (asLlp p)) = (ll.map asLlp).map Item.pkt := by
    rw [List.map_map]; rfl
  rw [hg.1, hg.2, e, consume_fold2]
  simp only [lastItem, hflag, Bool.false_eq_true, if_false, consume]

/-- a frame whose normal data begin exactly where a PTDP begins has offset 0 -/
theorem offAt_zero_at_boundary (L : Nat) (hL : 0 < L) (bs : List Bytes) (hne : ∀ b ∈ bs, b ≠ []) (c m : Nat)
    (ha : ((bs.take m).flatten).length = c) (hlt : c < bs.flatten.length) :
    offAt (startsAux 0 bs) c (c + L) = 0 := by
  have hsplit : bs = bs.take m ++ bs.drop m := (List.take_append_drop m bs).symm
  have hdne : bs.drop m ≠ [] := by
    intro h
    rw [h, List.append_nil] at hsplit
    rw [← hsplit] at ha; omega
  obtain ⟨b, rest, hd⟩ := List.exists_cons_of_ne_nil hdne
  rw [hsplit, startsAux_append, hd, Nat.zero_add, ha]
  simp only [startsAux]
  unfold offAt
  rw [List.find?_append, findR_none_of_lt c (c + L) _ (by
    intro q hq
    have := startsAux_lt 0 (bs.take m) (fun x hx => hne x (List.mem_of_mem_take hx)) q hq
    omega)]
  have hin : inRange c (c + L) c = true := by simp [inRange]; omega
  simp [hin]

theorem take_append_slice (S : Bytes) (c c' : Nat) (h : c ≤ c') : S.take c ++ slice S c c' = S.take c' := by
  have h1 : S.take c = slice S 0 c := by simp [slice]
  have h2 : S.take c' = slice S 0 c' := by simp [slice]
  rw [h1, h2, slice_append_slice _ _ _ _ (by omega) h]

theorem doneCount_mono (bs : List Bytes) (c c' : Nat) (h : c ≤ c') : doneCount bs c ≤ doneCount bs c' := by
  induction bs generalizing c c' with
  | nil => simp [doneCount]
  | cons b bs ih =>
    simp only [doneCount]
    by_cases h1 : b.length ≤ c
    · have h2 : b.length ≤ c' := by omega
      simp only [h1, h2, if_true]
      have := ih (c - b.length) (c' - b.length) (by omega); omega
    · simp only [h1, if_false]; omega

theorem mixFrame_wf (L sid : Nat) (hL2 : L ≤ 2047) (hs : sid < 16) (S : Bytes) (st : List Nat) (c : Nat)
    (ll : List PTDP.State) (hfit : (llpBytes ll).length ≤ L) (hc : c + cap L ll ≤ S.length) :
    PTFR_WF (mixFrame L sid S st c ll) ∧ (mixFrame L sid S st c ll).payload.length = L := by
  have hlen : (llpBytes ll ++ slice S c (c + cap L ll)).length = L := by
    rw [List.length_append, slice_length]; simp only [cap] at hc ⊢; omega
  refine ⟨⟨by simp [mixFrame, newPtfr, PTFR.fresh], by simpa [mixFrame, newPtfr, PTFR.fresh] using hs, ?_, ?_⟩, hlen⟩
  · show (if ll.isEmpty then offAt st c (c + L) else (llpBytes ll).length) < 2048
    split
    · exact offAt_lt st c L hL2
    · omega
  · exact hlen

/-- one step of the consumer loop on a frame of a mixed stream, carried remainder `r` -/
theorem decStep_mix (L sid : Nat) (hL2 : L ≤ 2047) (hs : sid < 16) (S : Bytes) (st : List Nat) (c : Nat)
    (ll : List PTDP.State) (hfit : (llpBytes ll).length ≤ L) (hllwf : ∀ p ∈ ll, PTDP_WF p)
    (hc : c + cap L ll ≤ S.length) (acc : List PTDP.State) (fst : Bool) (r : Bytes)
    (hjump : fst = true → r = [])
    (hoff : ll = [] → r = [] → offAt st c (c + L) = 0)
    (hflag : (parseB (r ++ slice S c (c + cap L ll))).2.2 = false) :
    decStep L { ptdps := acc, rem := some r, first := fst } (wire (mixFrame L sid S st c ll)) =
      ({ ptdps := acc ++ ll.map asLlp ++ (parseB (r ++ slice S c (c + cap L ll))).1,
         rem := some (parseB (r ++ slice S c (c + cap L ll))).2.1, first := false }, none) := by
  obtain ⟨hwf, hplen⟩ := mixFrame_wf L sid hL2 hs S st c ll hfit hc
  cases hll : ll with
  | nil =>
    subst hll
    have hpay : (mixFrame L sid S st c []).payload = slice S c (c + cap L []) := by simp [mixFrame, llpBytes]
    have := decStep_normal L { ptdps := acc, rem := some r, first := fst } (mixFrame L sid S st c [])
      r hwf (by simp [mixFrame]) (by omega) rfl
      (by
        intro hr
        left
        show (if ([] : List PTDP.State).isEmpty then offAt st c (c + L)
          else (llpBytes ([] : List PTDP.State)).length) = 0
        simp only [List.isEmpty_nil, if_true]
        exact hoff rfl hr)
      (by rw [hpay]; exact hflag)
    rw [this, hpay]
    simp
  | cons q qs =>
    rw [← hll]
    have hne : ll ≠ [] := by rw [hll]; simp
    have hlay : LlpLayout (mixFrame L sid S st c ll) ll (slice S c (c + cap L ll)) := by
      refine ⟨rfl, rfl, fun _ => ?_⟩
      show (if ll.isEmpty then _ else (llpBytes ll).length) = _
      rw [hll]; simp
    exact decStep_llp L { ptdps := acc, rem := some r, first := fst } (mixFrame L sid S st c ll) ll
      (slice S c (c + cap L ll)) r hne hlay hllwf hwf (by omega) rfl hjump hflag

/-- the consumer loop over the frames `lls` of a mixed stream whose normal data start at `c` -/
theorem decFold_mix (L sid : Nat) (hL : 0 < L) (hL2 : L ≤ 2047) (hs : sid < 16)
    (ps : List PTDP.State) (hps : ∀ p ∈ ps, Canon p) :
    ∀ (lls : List (List PTDP.State)) (c : Nat) (acc : List PTDP.State) (fst : Bool),
      (∀ l ∈ lls, (llpBytes l).length ≤ L ∧ ∀ p ∈ l, PTDP_WF p) →
      cutAfter L c lls < ((ps.map encB).flatten).length →
      (fst = true → c = 0) →
      decFold L ((mixFrames L sid (ps.map encB).flatten (startsAux 0 (ps.map encB)) c lls).map wire)
        { ptdps := acc, rem := some (parseB (((ps.map encB).flatten).take c)).2.1, first := fst } =
      ({ ptdps := acc ++ mixPtdps L ps c lls,
         rem := some (parseB (((ps.map encB).flatten).take (cutAfter L c lls))).2.1,
         first := fst && lls.isEmpty }, none) := by
  intro lls
  induction lls with
  | nil => intro c acc fst _ _ _; simp [mixFrames, decFold, mixPtdps, cutAfter]
  | cons ll rest ih =>
    intro c acc fst hlls hcut hfst
    simp only [cutAfter] at hcut
    have hge := cutAfter_ge L rest (c + cap L ll)
    obtain ⟨hfit, hllwf⟩ := hlls ll (by simp)
    have hencne : ∀ b ∈ ps.map encB, b ≠ [] := by
      intro b hb; simp only [List.mem_map] at hb; obtain ⟨p, _, rfl⟩ := hb; exact encB_ne p
    -- what the parser has at the cut c, and at the next cut
    have hk1 := parseB_stream ps hps c (by omega)
    have hk2 := parseB_stream ps hps (c + cap L ll) (by omega)
    have happ := parseB_append (((ps.map encB).flatten).take c).length.succ
      (((ps.map encB).flatten).take c)
      (slice (ps.map encB).flatten c (c + cap L ll)) _ _ (Nat.lt_succ_self _) hk1
    rw [take_append_slice _ _ _ (by omega), hk2] at happ
    simp only [Prod.mk.injEq] at happ
    obtain ⟨h1, h2, h3⟩ := happ
    have hr := congrArg (fun x => x.2.1) hk1
    have hr' := congrArg (fun x => x.2.1) hk2
    simp only at hr hr'
    have hd : doneCount (ps.map encB) c ≤ ps.length := by
      have := doneCount_le (ps.map encB) c; simpa using this
    have hnew := congrArg (List.drop (doneCount (ps.map encB) c)) h1
    rw [List.drop_left' (by rw [List.length_take]; omega)] at hnew
    simp only [mixFrames, List.map_cons, decFold]
    rw [hr, decStep_mix L sid hL2 hs _ _ c ll hfit hllwf (by omega) acc fst _
      (by
        intro hf
        have hc0 := hfst hf
        subst hc0
        simp)
      (by
        intro _ hrn
        have hfit' := doneCount_fit (ps.map encB) c
        have hlen := congrArg List.length hrn
        simp only [List.length_drop, List.length_take, List.length_nil] at hlen
        exact offAt_zero_at_boundary L hL (ps.map encB) hencne c (doneCount (ps.map encB) c)
          (by omega) (by omega))
      h3.symm]
    simp only
    rw [← h2, ← hr', ← hnew]
    have hnext := ih (c + cap L ll)
      (acc ++ ll.map asLlp ++ (ps.take (doneCount (ps.map encB) (c + cap L ll))).drop (doneCount (ps.map encB) c))
      false (fun l hl => hlls l (by simp [hl])) hcut (by intro h; cases h)
    rw [hnext]
    simp [mixPtdps, cutAfter, List.append_assoc]

end Acra.Lemmas.Chapter7
