/-
  `MPEGPacketPMT.pack` and `STANAG4609.pack` factored as "build the payload / the metadata from fields that `pack`
  does not write" followed by `MPEGPacket.pack` / `PES.pack`.  Used by the C13 pack-idempotence theorems
  (`Props/C13/MpegPack.lean`).  No well-formedness is assumed here: the factorisations hold for every object,
  including those on which one of the nested `struct.pack` calls fails.
-/
import Acra.Model.PMT
import Acra.Model.PES
namespace Acra.Lemmas.MpegPackVia
open Acra.Py Acra.Model.MPEGTS Acra.Model.PMT Acra.Model.PES Acra.Gen.PMT Acra.Gen.PES

/-! ### MPEGPacketPMT -/

/-- the TS payload `MPEGPacketPMT.pack` builds (or the `struct.error` of the first failing part); reads neither
    `pkt` nor `program_info_len` nor `_crc` -/
def PMT_payloadR (s : PMT) : R Bytes :=
  let pil := (s.descriptor_tags.map Desc.len).sum
  let len := PMT_FMT.size - PMT_HDR_LEN_NOT_INCL_IN_LEN + PMT_CRC_LEN + (s.streams.map Stream.len).sum + pil
  match structPack PMT_FMT_POINTER [0] with
  | .error e => .error e
  | .ok ptr =>
    match structPack PMT_FMT [s.tableid, s.syntax_indicator * 32768 + 3 * 4096 + len, s.program_number,
        3 * 64 + s.version * 2 + s.current_next_indicator, s.sectionNo, s.last_section,
        7 * 8192 + s.pcr_pid, 15 * 4096 + pil] with
    | .error e => .error e
    | .ok hdr =>
      match packDescs s.descriptor_tags with
      | .error e => .error e
      | .ok db =>
        match packStreams s.streams with
        | .error e => .error e
        | .ok sb =>
          match structPack PMT_pack_fmt0 [crc32mpeg2 (hdr ++ db ++ sb)] with
          | .error e => .error e
          | .ok cb => .ok (ptr ++ (hdr ++ db ++ sb) ++ cb)

/-- the recomputed `program_info_len` -/
def PMT_pil (s : PMT) : Nat := (s.descriptor_tags.map Desc.len).sum

theorem PMT_pack_via (s : PMT) :
    PMT.pack s =
      match PMT_payloadR s with
      | .error e => ({ s with program_info_len := PMT_pil s }, .error e)
      | .ok pl => ({ s with program_info_len := PMT_pil s, pkt := (Pkt.pack { s.pkt with payload := pl }).1 },
                   (Pkt.pack { s.pkt with payload := pl }).2) := by
  unfold PMT.pack PMT_payloadR PMT_pil
  simp only
  cases structPack PMT_FMT_POINTER [0] with
  | error e => rfl
  | ok ptr =>
    simp only
    cases structPack PMT_FMT [s.tableid, s.syntax_indicator * 32768 + 3 * 4096 +
        (PMT_FMT.size - PMT_HDR_LEN_NOT_INCL_IN_LEN + PMT_CRC_LEN + (s.streams.map Stream.len).sum +
          (s.descriptor_tags.map Desc.len).sum), s.program_number,
        3 * 64 + s.version * 2 + s.current_next_indicator, s.sectionNo, s.last_section,
        7 * 8192 + s.pcr_pid, 15 * 4096 + (s.descriptor_tags.map Desc.len).sum] with
    | error e => rfl
    | ok hdr =>
      simp only
      cases packDescs s.descriptor_tags with
      | error e => rfl
      | ok db =>
        simp only
        cases packStreams s.streams with
        | error e => rfl
        | ok sb =>
          simp only
          cases structPack PMT_pack_fmt0 [crc32mpeg2 (hdr ++ db ++ sb)] with
          | error e => rfl
          | ok cb => rfl

theorem PMT_payloadR_irrel (s : PMT) (q : Pkt) (n : Nat) :
    PMT_payloadR { s with pkt := q, program_info_len := n } = PMT_payloadR s := rfl

theorem PMT_pil_irrel (s : PMT) (q : Pkt) (n : Nat) :
    PMT_pil { s with pkt := q, program_info_len := n } = PMT_pil s := rfl

/-! ### STANAG4609 -/

/-- the 36 metadata bytes `STANAG4609.pack` builds (or the `struct.error` of the first failing part); reads only
    `stanag_counter`, `_unknown`, `_unknown2`, `time_us` -/
def STANAG_dataR (s : STANAG) : R Bytes :=
  match structPack STANAG_pack_fmt0 [s.stanag_counter, s.unknown, s.unknown2] with
  | .error e => .error e
  | .ok h =>
    match structPack STANAG_pack_fmt1 [STANAG4609_LEN, STANAG4609_DATA_TAG, STANAG4609_DTAG_LEN] with
    | .error e => .error e
    | .ok l =>
      match structPack STANAG_pack_fmt2 [s.time_us] with
      | .error e => .error e
      | .ok tm =>
        match structPack STANAG_pack_fmt3 [STANAG4609_TIME_TAG, STANAG4609_TTAG_LEN] with
        | .error e => .error e
        | .ok tt =>
          match structPack STANAG_pack_fmt4
              [checksum_stanag ((h ++ STANAG4609_UNIVERSAL_KEY ++ l ++ tm ++ tt).drop STANAG4609_UNKNOWN_OFFSET)] with
          | .error e => .error e
          | .ok c => .ok (h ++ STANAG4609_UNIVERSAL_KEY ++ l ++ tm ++ tt ++ c)

/-- the object after the first statement of `STANAG4609.pack` (`self.pid = STANAG4609_PID`) -/
def STANAG_pidForced (s : STANAG) : STANAG :=
  { s with pes := { s.pes with pkt := { s.pes.pkt with pid := STANAG4609_PID } } }

theorem STANAG_pack_via (s : STANAG) :
    STANAG.pack s =
      match STANAG_dataR s with
      | .error e => (STANAG_pidForced s, .error e)
      | .ok d => ({ STANAG_pidForced s with pes := (PES.pack { (STANAG_pidForced s).pes with pesdata := d }).1 },
                  (PES.pack { (STANAG_pidForced s).pes with pesdata := d }).2) := by
  unfold STANAG.pack STANAG_dataR STANAG_pidForced
  simp only
  cases structPack STANAG_pack_fmt0 [s.stanag_counter, s.unknown, s.unknown2] with
  | error e => rfl
  | ok h =>
    simp only
    cases structPack STANAG_pack_fmt1 [STANAG4609_LEN, STANAG4609_DATA_TAG, STANAG4609_DTAG_LEN] with
    | error e => rfl
    | ok l =>
      simp only
      cases structPack STANAG_pack_fmt2 [s.time_us] with
      | error e => rfl
      | ok tm =>
        simp only
        cases structPack STANAG_pack_fmt3 [STANAG4609_TIME_TAG, STANAG4609_TTAG_LEN] with
        | error e => rfl
        | ok tt =>
          simp only
          cases structPack STANAG_pack_fmt4
              [checksum_stanag ((h ++ STANAG4609_UNIVERSAL_KEY ++ l ++ tm ++ tt).drop STANAG4609_UNKNOWN_OFFSET)] with
          | error e => rfl
          | ok c => rfl

theorem STANAG_dataR_irrel (s : STANAG) (p : PES) : STANAG_dataR { s with pes := p } = STANAG_dataR s := rfl

/-- `MPEGPacket.pack` changes nothing but the adaptation-field object -/
theorem Pkt_pack_keeps_pid (p : Pkt) (ns : Bool) : (Pkt.pack p ns).1.pid = p.pid := by
  simp only [Pkt.pack]
  repeat' split
  all_goals simp_all

/-- `PES.pack` changes nothing but the embedded packet's payload and adaptation-field object -/
theorem PES_pack_keeps (x : PES) :
    (PES.pack x).1.pesdata = x.pesdata ∧ (PES.pack x).1.pkt.pid = x.pkt.pid := by
  simp only [PES.pack]
  repeat' split
  all_goals simp [Pkt_pack_keeps_pid]

end Acra.Lemmas.MpegPackVia
