/-
  Helper lemmas for KMP (C17): borders, the failure table computed by `KMP.partial`, the scan
  invariant of `KMP.search`, and the list of match positions.

  `PS p s l`  — the prefix of `p` of length `l` is a suffix of `s`.
  The failure table entry `tbl[k]` is the longest proper border of `p[0..k]` (`LPB p (k+1)`); the scan
  keeps `j` = the longest `l < |p|` with `PS p s l` for the text `s` read so far (`MaxPS`).
  `KMP.partial` is the same scan run on the text `p[1:]`, which is how its correctness is obtained.
-/
import Acra.Lemmas.Search
namespace Acra.Lemmas.KMP
open Acra.Py Acra.Model.Search Acra.Spec Acra.Lemmas.Search

/-! ### prefix-suffixes -/

def PS (p s : Bytes) (l : Nat) : Prop := l ≤ p.length ∧ p.take l <:+ s

theorem PS_zero (p s : Bytes) : PS p s 0 := ⟨Nat.zero_le _, by simp⟩

theorem PS.le_length {p s : Bytes} {l : Nat} (h : PS p s l) : l ≤ s.length := by
  have := h.2.length_le
  simp only [List.length_take] at this
  have := h.1
  omega

/-- two prefix-suffixes of the same string: the shorter is a border of the longer -/
theorem PS.chain {p s : Bytes} {l l' : Nat} (h : PS p s l) (h' : PS p s l') (hle : l' ≤ l) :
    PS p (p.take l) l' :=
  ⟨h'.1, List.suffix_of_suffix_length_le h'.2 h.2 (by have := h.1; have := h'.1; simp; omega)⟩

theorem PS.trans {p s : Bytes} {l l' : Nat} (h' : PS p (p.take l) l') (h : PS p s l) : PS p s l' :=
  ⟨h'.1, h'.2.trans h.2⟩

theorem suffix_concat_iff (a s : Bytes) (x c : UInt8) : a ++ [x] <:+ s ++ [c] ↔ a <:+ s ∧ x = c := by
  rw [← List.reverse_prefix, List.reverse_append, List.reverse_append]
  simp only [List.reverse_cons, List.reverse_nil, List.nil_append, List.singleton_append]
  rw [List.cons_prefix_cons, List.reverse_prefix]
  exact And.comm

theorem PS_succ_snoc (p s : Bytes) (c : UInt8) (l : Nat) :
    PS p (s ++ [c]) (l + 1) ↔ PS p s l ∧ p[l]? = some c := by
  unfold PS
  constructor
  · rintro ⟨h1, h2⟩
    have hl : l < p.length := by omega
    rw [← List.take_append_getElem hl, suffix_concat_iff] at h2
    exact ⟨⟨by omega, h2.1⟩, by rw [List.getElem?_eq_getElem hl, h2.2]⟩
  · rintro ⟨⟨h1, h2⟩, h3⟩
    have hl : l < p.length := by
      rcases Nat.lt_or_ge l p.length with h | h
      · exact h
      · rw [List.getElem?_eq_none h] at h3; exact absurd h3 (by simp)
    refine ⟨by omega, ?_⟩
    rw [← List.take_append_getElem hl, suffix_concat_iff]
    rw [List.getElem?_eq_getElem hl] at h3
    exact ⟨h2, Option.some.inj h3⟩

/-! ### failure table -/

/-- `b` is the length of the longest proper border of `p[0..k)` -/
def LPB (p : Bytes) (k b : Nat) : Prop :=
  b < k ∧ PS p (p.take k) b ∧ ∀ b', b' < k → PS p (p.take k) b' → b' ≤ b

/-- the first `n` entries of the table are right -/
def TblOK (p : Bytes) (tbl : List Nat) (n : Nat) : Prop :=
  ∀ k, k < n → ∃ b, tbl[k]? = some b ∧ LPB p (k + 1) b

/-- `j` is the longest prefix-suffix of `s` that is shorter than the pattern -/
def MaxPS (p s : Bytes) (j : Nat) : Prop :=
  j < p.length ∧ PS p s j ∧ ∀ l, l < p.length → PS p s l → l ≤ j

/-- `r` is the longest prefix-suffix of `s` -/
def MaxPSle (p s : Bytes) (r : Nat) : Prop := PS p s r ∧ ∀ l, PS p s l → l ≤ r

/-- the inner `while` loop: walks down the border chain until the next pattern byte is `c` or `j = 0` -/
theorem kmpFall_spec (p : Bytes) (tbl : List Nat) (n : Nat) (htbl : TblOK p tbl n) (s : Bytes) (c : UInt8) :
    ∀ fuel j, j < fuel → j ≤ n → j < p.length → PS p s j →
      (∀ l, l < p.length → PS p s l → j < l → p[l]? ≠ some c) →
      ∃ j', kmpFall p tbl c fuel j = .ok j' ∧ j' < p.length ∧ PS p s j' ∧
        (∀ l, l < p.length → PS p s l → j' < l → p[l]? ≠ some c) ∧ (j' = 0 ∨ p[j']? = some c)
  | 0, _, h, _, _, _, _ => by omega
  | fuel + 1, j, hf, hn, hj, hps, hex => by
    unfold kmpFall
    by_cases hj0 : j > 0
    · rw [if_pos hj0, List.getElem?_eq_getElem hj]
      simp only
      by_cases hx : p[j] ≠ c
      · rw [if_pos hx]
        obtain ⟨b, hb1, hb2, hb3, hb4⟩ := htbl (j - 1) (by omega)
        rw [hb1]
        simp only
        have e : j - 1 + 1 = j := by omega
        rw [e] at hb2 hb3 hb4
        refine kmpFall_spec p tbl n htbl s c fuel b (by omega) (by omega) (by omega) (hb3.trans hps) ?_
        intro l hl hpl hbl
        by_cases hlj : j < l
        · exact hex l hl hpl hlj
        · by_cases hlj' : l = j
          · subst hlj'
            rw [List.getElem?_eq_getElem hj]
            intro h; exact hx (Option.some.inj h)
          · have := hb4 l (by omega) (hps.chain hpl (by omega))
            omega
      · rw [if_neg hx]
        have hx' : p[j] = c := by simpa using hx
        exact ⟨j, rfl, hj, hps, hex, Or.inr (by rw [List.getElem?_eq_getElem hj, hx'])⟩
    · rw [if_neg hj0]
      exact ⟨j, rfl, hj, hps, hex, Or.inl (by omega)⟩

/-- after the loop, `j+1` (next byte matches) or `j` (then `j = 0`) is the longest prefix-suffix of `s ++ [c]` -/
theorem step_max (p s : Bytes) (c : UInt8) (j : Nat) (hj : j < p.length) (hps : PS p s j)
    (hex : ∀ l, l < p.length → PS p s l → j < l → p[l]? ≠ some c) (hend : j = 0 ∨ p[j]? = some c) :
    MaxPSle p (s ++ [c]) (if p[j]? = some c then j + 1 else j) := by
  by_cases hc : p[j]? = some c
  · rw [if_pos hc]
    refine ⟨(PS_succ_snoc p s c j).2 ⟨hps, hc⟩, ?_⟩
    intro l hl
    match l, hl with
    | 0, _ => omega
    | l + 1, hl =>
      obtain ⟨h1, h2⟩ := (PS_succ_snoc p s c l).1 hl
      have hlp : l < p.length := by have := hl.1; omega
      by_cases hjl : j < l
      · exact absurd h2 (hex l hlp h1 hjl)
      · omega
  · rw [if_neg hc]
    have hj0 : j = 0 := by rcases hend with h | h; exact h; exact absurd h hc
    subst hj0
    refine ⟨PS_zero _ _, ?_⟩
    intro l hl
    match l, hl with
    | 0, _ => omega
    | l + 1, hl =>
      obtain ⟨h1, h2⟩ := (PS_succ_snoc p s c l).1 hl
      have hlp : l < p.length := by have := hl.1; omega
      by_cases hjl : 0 < l
      · exact absurd h2 (hex l hlp h1 hjl)
      · have : l = 0 := by omega
        subst this
        exact absurd h2 hc


/-! ### `KMP.partial` -/

/-- a proper border of `p[0..i)` is a prefix-suffix of `p[1..i)` and conversely -/
theorem PS_drop1_iff (p : Bytes) (i l : Nat) (hl : l < i) (hi : i ≤ p.length) :
    PS p (p.take i) l ↔ PS p ((p.take i).drop 1) l := by
  unfold PS
  constructor
  · rintro ⟨h1, h2⟩
    refine ⟨h1, ?_⟩
    match hq : p.take i with
    | [] =>
      have := congrArg List.length hq
      simp only [List.length_take, List.length_nil] at this; omega
    | x :: rest =>
      rw [hq] at h2
      rcases List.suffix_cons_iff.1 h2 with h | h
      · have := congrArg List.length h
        have h3 := congrArg List.length hq
        simp only [List.length_take, List.length_cons] at this h3
        omega
      · simpa using h
  · rintro ⟨h1, h2⟩
    exact ⟨h1, h2.trans (List.drop_suffix 1 _)⟩

theorem drop1_take_succ (p : Bytes) (i : Nat) (hi1 : 1 ≤ i) (hi : i < p.length) :
    (p.take (i + 1)).drop 1 = (p.take i).drop 1 ++ [p[i]] := by
  rw [← List.take_append_getElem hi, List.drop_append_of_le_length (by simp; omega)]

/-- longest proper border of `p[0..i]` from the longest prefix-suffix of `p[1..i]` -/
theorem LPB_of_MaxPSle (p : Bytes) (i r : Nat) (hi : i + 1 ≤ p.length)
    (h : MaxPSle p ((p.take (i + 1)).drop 1) r) : LPB p (i + 1) r := by
  have hlen : ((p.take (i + 1)).drop 1).length = i := by simp; omega
  have hr : r < i + 1 := by have := h.1.le_length; omega
  refine ⟨hr, (PS_drop1_iff p (i + 1) r hr hi).2 h.1, ?_⟩
  intro b hb hps
  exact h.2 b ((PS_drop1_iff p (i + 1) b hb hi).1 hps)

theorem kmpPartialLoop_spec (p : Bytes) :
    ∀ (cs : Bytes) (i : Nat) (ret : List Nat), 1 ≤ i → i ≤ p.length → cs = p.drop i → ret.length = i →
      TblOK p ret i →
      ∃ tbl, kmpPartialLoop p cs i ret = .ok tbl ∧ tbl.length = p.length ∧ TblOK p tbl p.length
  | [], i, ret, _, hi, hcs, hlen, htbl => by
    have : p.length ≤ i := by
      have := congrArg List.length hcs
      simp at this; omega
    have e : i = p.length := by omega
    subst e
    exact ⟨ret, rfl, hlen, htbl⟩
  | c :: cs, i, ret, hi1, hi, hcs, hlen, htbl => by
    have hip : i < p.length := by
      have := congrArg List.length hcs
      simp at this; omega
    rw [List.drop_eq_getElem_cons hip] at hcs
    injection hcs with hc hcs
    obtain ⟨j, hj1, hj2, hj3, hj4⟩ := htbl (i - 1) (by omega)
    have e : i - 1 + 1 = i := by omega
    rw [e] at hj2 hj3 hj4
    unfold kmpPartialLoop
    rw [hj1]
    simp only
    -- the text read so far is p[1..i)
    have hslen : ((p.take i).drop 1).length = i - 1 := by simp; omega
    have hps : PS p ((p.take i).drop 1) j := (PS_drop1_iff p i j hj2 (by omega)).1 hj3
    have hex : ∀ l, l < p.length → PS p ((p.take i).drop 1) l → j < l → p[l]? ≠ some c := by
      intro l _ hl hjl
      have hli : l < i := by have := hl.le_length; omega
      have := hj4 l hli ((PS_drop1_iff p i l hli (by omega)).2 hl)
      omega
    obtain ⟨j', hf1, hf2, hf3, hf4, hf5⟩ :=
      kmpFall_spec p ret i htbl ((p.take i).drop 1) c (j + 1) j (by omega) (by omega) (by omega) hps hex
    rw [hf1]
    simp only
    rw [List.getElem?_eq_getElem hf2]
    simp only
    have hmax := step_max p ((p.take i).drop 1) c j' hf2 hf3 hf4 hf5
    rw [hc, ← drop1_take_succ p i hi1 hip] at hmax
    have hr : (if p[j']? = some p[i] then j' + 1 else j') = (if (p[j'] == c) = true then j' + 1 else j') := by
      rw [List.getElem?_eq_getElem hf2, hc]
      simp
    rw [hr] at hmax
    have hlpb := LPB_of_MaxPSle p i _ (by omega) hmax
    apply kmpPartialLoop_spec p cs (i + 1) _ (by omega) (by omega) hcs (by simp [hlen])
    intro k hk
    by_cases hki : k < i
    · obtain ⟨b, hb1, hb2⟩ := htbl k hki
      exact ⟨b, by rw [List.getElem?_append_left (by omega)]; exact hb1, hb2⟩
    · have : k = i := by omega
      subst this
      refine ⟨_, ?_, hlpb⟩
      rw [← hlen, List.getElem?_concat_length]

theorem kmpPartial_spec (p : Bytes) (hp : p ≠ []) :
    ∃ tbl, kmpPartial p = .ok tbl ∧ tbl.length = p.length ∧ TblOK p tbl p.length := by
  have hm : 1 ≤ p.length := by
    cases p with
    | nil => exact absurd rfl hp
    | cons a l => simp
  apply kmpPartialLoop_spec p (p.drop 1) 1 [0] (by omega) hm rfl rfl
  intro k hk
  have : k = 0 := by omega
  subst this
  refine ⟨0, rfl, by omega, PS_zero _ _, ?_⟩
  intro b hb _
  omega


/-! ### `KMP.search` -/

/-- the offsets reported while reading `rest` after `s`: one for every prefix of the text that ends with `p` -/
def matchEnds (p : Bytes) : Bytes → Bytes → List Nat
  | _, [] => []
  | s, c :: rest => (if p <:+ s ++ [c] then [s.length + 1 - p.length] else []) ++ matchEnds p (s ++ [c]) rest

theorem MaxPSle_full_iff (p s : Bytes) (r : Nat) (h : MaxPSle p s r) : r = p.length ↔ p <:+ s := by
  constructor
  · intro hr
    have := h.1.2
    rw [hr, List.take_length] at this
    exact this
  · intro hs
    have h1 := h.2 p.length ⟨Nat.le_refl _, by rw [List.take_length]; exact hs⟩
    have h2 := h.1.1
    omega

theorem kmpSearchLoop_spec (p : Bytes) (tbl : List Nat) (htbl : TblOK p tbl p.length) :
    ∀ (rest s : Bytes) (j : Nat) (ret : List Int), MaxPS p s j →
      kmpSearchLoop p tbl rest s.length j ret = .ok (ret ++ (matchEnds p s rest).map Int.ofNat)
  | [], s, j, ret, _ => by simp [kmpSearchLoop, matchEnds]
  | c :: rest, s, j, ret, ⟨hj, hps, hmax⟩ => by
    unfold kmpSearchLoop
    obtain ⟨j', hf1, hf2, hf3, hf4, hf5⟩ :=
      kmpFall_spec p tbl p.length htbl s c (j + 1) j (by omega) (by omega) hj hps
        (fun l hl hpl hjl => by have := hmax l hl hpl; omega)
    rw [hf1]
    simp only
    rw [List.getElem?_eq_getElem hf2]
    simp only
    have hm := step_max p s c j' hf2 hf3 hf4 hf5
    have hr : (if p[j']? = some c then j' + 1 else j') = (if (c == p[j']) = true then j' + 1 else j') := by
      rw [List.getElem?_eq_getElem hf2]
      by_cases hx : p[j'] = c
      · simp [hx]
      · have : ¬ c = p[j'] := fun h => hx h.symm
        simp [hx, this]
    rw [hr] at hm
    generalize (if (c == p[j']) = true then j' + 1 else j') = r at hm
    have hfull := MaxPSle_full_iff p (s ++ [c]) r hm
    have hslen : (s ++ [c]).length = s.length + 1 := by simp
    by_cases hrp : r = p.length
    · have hsuf : p <:+ s ++ [c] := hfull.1 hrp
      have hbeq : (r == p.length) = true := by simp [hrp]
      rw [if_pos hbeq]
      have hp1 : 1 ≤ p.length := by omega
      obtain ⟨b, hb1, hb2, hb3, hb4⟩ := htbl (r - 1) (by omega)
      rw [hb1]
      simp only
      have e : r - 1 + 1 = p.length := by omega
      rw [e, List.take_length] at hb3 hb4
      rw [e] at hb2
      have hmp : MaxPS p (s ++ [c]) b := by
        refine ⟨hb2, ?_, ?_⟩
        · have : PS p (p.take p.length) b := by rw [List.take_length]; exact hb3
          exact this.trans (by rw [← hrp]; exact hm.1)
        · intro l hl hpl
          have hc := (show PS p (s ++ [c]) p.length by rw [← hrp]; exact hm.1).chain hpl (by omega)
          rw [List.take_length] at hc
          exact hb4 l hl hc
      have ih := kmpSearchLoop_spec p tbl htbl rest (s ++ [c]) b
        (ret ++ [(s.length : Int) - ((r : Int) - 1)]) hmp
      rw [hslen] at ih
      rw [ih]
      have hle := hsuf.length_le
      rw [hslen] at hle
      have hval : (s.length : Int) - ((r : Int) - 1) = Int.ofNat (s.length + 1 - p.length) := by
        rw [hrp]; simp only [Int.ofNat_eq_natCast]; omega
      simp [matchEnds, hsuf, hval]
    · have hsuf : ¬ p <:+ s ++ [c] := fun h => hrp (hfull.2 h)
      have hbeq : (r == p.length) = false := by simp [hrp]
      rw [hbeq]
      simp only [Bool.false_eq_true, if_false]
      have hmp : MaxPS p (s ++ [c]) r := by
        have := hm.1.1
        exact ⟨by omega, hm.1, fun l _ hpl => hm.2 l hpl⟩
      have ih := kmpSearchLoop_spec p tbl htbl rest (s ++ [c]) r ret hmp
      rw [hslen] at ih
      rw [ih]
      simp [matchEnds, hsuf]


/-! ### the reported offsets are the occurrences -/

theorem mem_matchEnds (p : Bytes) : ∀ (rest s : Bytes) (x : Nat),
    x ∈ matchEnds p s rest ↔
      ∃ e, s.length < e ∧ e ≤ s.length + rest.length ∧ p <:+ (s ++ rest).take e ∧ x + p.length = e
  | [], s, x => by
    simp only [matchEnds, List.not_mem_nil, List.length_nil, Nat.add_zero, false_iff]
    rintro ⟨e, h1, h2, _, _⟩
    omega
  | c :: rest, s, x => by
    have hassoc : s ++ c :: rest = (s ++ [c]) ++ rest := by simp
    have htk : (s ++ c :: rest).take (s.length + 1) = s ++ [c] := by
      rw [hassoc, List.take_left' (by simp)]
    simp only [matchEnds, List.mem_append, mem_matchEnds p rest (s ++ [c]) x]
    constructor
    · rintro (h | ⟨e, h1, h2, h3, h4⟩)
      · split at h
        · rename_i hs
          simp only [List.mem_singleton] at h
          have := hs.length_le
          simp only [List.length_append, List.length_singleton] at this
          exact ⟨s.length + 1, by omega, by simp, by rw [htk]; exact hs, by omega⟩
        · simp at h
      · simp only [List.length_append, List.length_singleton] at h1 h2
        exact ⟨e, by omega, by simp only [List.length_cons]; omega, by rw [hassoc]; exact h3, h4⟩
    · rintro ⟨e, h1, h2, h3, h4⟩
      simp only [List.length_cons] at h2
      by_cases he : e = s.length + 1
      · left
        subst he
        rw [htk] at h3
        rw [if_pos h3]
        simp only [List.mem_singleton]
        omega
      · right
        exact ⟨e, by simp only [List.length_append, List.length_singleton]; omega,
          by simp only [List.length_append, List.length_singleton]; omega, by rw [← hassoc]; exact h3, h4⟩

theorem matchEnds_pairwise (p : Bytes) : ∀ (rest s : Bytes), (matchEnds p s rest).Pairwise (· < ·)
  | [], s => by simp [matchEnds]
  | c :: rest, s => by
    simp only [matchEnds]
    rw [List.pairwise_append]
    refine ⟨by split <;> simp, matchEnds_pairwise p rest (s ++ [c]), ?_⟩
    intro a ha b hb
    split at ha
    · rename_i hs
      simp only [List.mem_singleton] at ha
      have := hs.length_le
      simp only [List.length_append, List.length_singleton] at this
      obtain ⟨e, h1, _, _, h4⟩ := (mem_matchEnds p rest (s ++ [c]) b).1 hb
      simp only [List.length_append, List.length_singleton] at h1
      omega
    · simp at ha

theorem matchEnds_eq_occ (t p : Bytes) (hp : p ≠ []) : matchEnds p [] t = occ t p := by
  have hm : 1 ≤ p.length := by
    cases p with
    | nil => exact absurd rfl hp
    | cons a l => simp
  apply eq_of_pairwise_lt_of_mem_iff (matchEnds_pairwise p t []) (occ_pairwise t p)
  intro x
  rw [mem_matchEnds, mem_occ]
  simp only [List.length_nil, List.nil_append, Nat.zero_add, OccAt]
  constructor
  · rintro ⟨e, _, h2, h3, h4⟩
    subst h4
    refine ⟨h2, ?_⟩
    have := List.suffix_iff_eq_drop.1 h3
    rw [List.length_take, Nat.min_eq_left h2, Nat.add_sub_cancel] at this
    rw [List.take_drop]
    exact this.symm
  · rintro ⟨h1, h2⟩
    refine ⟨x + p.length, by omega, h1, ?_, rfl⟩
    have : p = List.drop x (List.take (x + p.length) t) := by
      rw [← List.take_drop]; exact h2.symm
    rw [this]
    have hlen : (List.drop x (List.take (x + p.length) t)).length = p.length := by
      rw [← this]
    rw [hlen]
    exact List.drop_suffix _ _

/-- `KMP.search` returns the occurrences -/
theorem kmpSearch_eq_occ (t p : Bytes) (hp : p ≠ []) : kmpSearch t p = .ok ((occ t p).map Int.ofNat) := by
  have hm : 0 < p.length := by
    cases p with
    | nil => exact absurd rfl hp
    | cons a l => simp
  obtain ⟨tbl, h1, _, h3⟩ := kmpPartial_spec p hp
  unfold kmpSearch
  rw [h1]
  simp only
  have h0 : MaxPS p [] 0 := by
    refine ⟨hm, PS_zero _ _, ?_⟩
    intro l _ hl
    have := hl.le_length
    simpa using this
  have := kmpSearchLoop_spec p tbl h3 t [] 0 [] h0
  simp only [List.length_nil, List.nil_append] at this
  rw [this, matchEnds_eq_occ t p hp]

end Acra.Lemmas.KMP
