/-
  Helper lemmas for the IENA family: the bytes the model's pack emits under the well-formedness
  predicate, and what the model's unpack makes of them.  Property theorems are in Acra/Props.
-/
import Acra.Model.IENA
namespace Acra.Lemmas.IENA
open Acra.Py Acra.Model.IENA Acra.Gen.IENA

def IENA_WF (s : Base) : Prop :=
  s.key < 2^16 ∧ s.timeusec < 2^48 ∧ s.keystatus < 2^8 ∧ s.status < 2^8 ∧ s.sequence < 2^16 ∧
  s.endfield < 2^16 ∧ s.payload.length % 2 = 0 ∧ (s.payload.length + 16) / 2 < 2^16

def IENA_hdr (s : Base) : Bytes :=
  encInt true 2 s.key ++ (encInt true 2 ((s.payload.length + 16) / 2) ++ (encInt true 2 (s.timeusec / 4294967296) ++
  (encInt true 4 (s.timeusec % 4294967296) ++ (encInt true 1 s.keystatus ++ (encInt true 1 s.status ++
  encInt true 2 s.sequence)))))

/-- the bytes `IENA.pack` emits for a well-formed packet -/
def IENA_bytes (s : Base) : Bytes := IENA_hdr s ++ (s.payload ++ encInt true 2 s.endfield)

@[simp] theorem IENA_hdr_length (s : Base) : (IENA_hdr s).length = 14 := by simp [IENA_hdr]

theorem IENA_pack_eq (s : Base) (h : IENA_WF s) :
    Base.pack s = ({ s with size := (s.payload.length + 16) / 2 }, .ok (IENA_bytes s)) := by
  obtain ⟨h1, h2, h3, h4, h5, h6, h7, h8⟩ := h
  have hf1 : Fits IENA_HEADER_FORMAT.codes [s.key, (s.payload.length + (14 + 2)) / 2, s.timeusec / 4294967296,
      s.timeusec % 4294967296, s.keystatus, s.status, s.sequence] := by
    simp [Fits, IENA_HEADER_FORMAT, Code.bound]; omega
  have hf2 : Fits IENA_pack_fmt0.codes [s.endfield] := by
    simp [Fits, IENA_pack_fmt0, Code.bound]; omega
  simp only [Base.pack, IENA_HEADER_LENGTH, IENA_TRAILER_LENGTH, Nat.add_assoc, structPack_eq _ _ hf1, structPack_eq _ _ hf2]
  simp [IENA_bytes, IENA_hdr, IENA_HEADER_FORMAT, IENA_pack_fmt0, encCodes, Code.size]

theorem IENA_unpack_pack (s t : Base) (h : IENA_WF s) :
    Base.unpack t (IENA_bytes s) =
      ({ s with size := (s.payload.length + 16) / 2, lengthError := t.lengthError }, .ok ()) := by
  obtain ⟨h1, h2, h3, h4, h5, h6, h7, h8⟩ := h
  have hlen : (IENA_bytes s).length = s.payload.length + 16 := by simp [IENA_bytes]; omega
  have hhdr : unpackCodes true IENA_HEADER_FORMAT.codes (IENA_bytes s) =
      [s.key, (s.payload.length + 16) / 2, s.timeusec / 4294967296, s.timeusec % 4294967296,
       s.keystatus, s.status, s.sequence] := by
    simp only [IENA_bytes, IENA_hdr, IENA_HEADER_FORMAT, unpackCodes, Code.size, List.append_assoc,
      take_encInt_append, drop_encInt_append]
    rw [decInt_encInt2 _ _ (by omega), decInt_encInt2 _ _ (by omega), decInt_encInt2 _ _ (by omega),
      decInt_encInt4 _ _ (by omega), decInt_encInt1 _ _ (by omega), decInt_encInt1 _ _ (by omega),
      decInt_encInt2 _ _ (by omega)]
  have htl : List.drop (s.payload.length + 16 - 2) (IENA_bytes s) = encInt true 2 s.endfield := by
    rw [IENA_bytes, ← List.append_assoc]
    exact drop_append_len _ _ _ (by simp; omega)
  have hpl : slice (IENA_bytes s) 14 (s.payload.length + 16 - 2) = s.payload :=
    slice_mid _ _ _ _ _ (by simp) (by simp; omega)
  have e1 : ¬ (s.payload.length + 16 < 14) := by omega
  simp only [Base.unpack, hlen, IENA_HEADER_LENGTH, structUnpackFrom, Fmt.size, e1, if_false, List.drop_zero,
    show IENA_HEADER_FORMAT.big = true from rfl, hhdr, htl, hpl, show IENA_unpack_fmt0.big = true from rfl]
  have e2 : 0 + codesSize IENA_HEADER_FORMAT.codes ≤ s.payload.length + 16 := by
    simp [IENA_HEADER_FORMAT, codesSize, Code.size]
  have e3 : s.payload.length + 16 - 2 + codesSize IENA_unpack_fmt0.codes ≤ s.payload.length + 16 := by
    simp [IENA_unpack_fmt0, codesSize, Code.size]
  simp only [e2, e3, if_true]
  have e4 : (s.payload.length + 16) / 2 * 2 = s.payload.length + 16 := by omega
  have e5 : s.timeusec % 4294967296 + s.timeusec / 4294967296 * 4294967296 = s.timeusec := by omega
  simp [e4, e5, IENA_unpack_fmt0, unpackCodes, Code.size, decInt_encInt2 _ _ (show s.endfield < 65536 by omega)]


def MParam_WF (p : MParam) : Prop := p.paramid < 65536 ∧ p.delay < 65536 ∧ p.dataset.length < 65536

def padM (n : Nat) : Bytes := if n % 2 = 1 then [0] else []

/-- one IENA-M parameter on the wire: id, delay, dataset length (big-endian 16-bit), dataset, pad to 16 bits -/
def encMb (p : MParam) : Bytes :=
  encInt true 2 p.paramid ++ (encInt true 2 p.delay ++ (encInt true 2 p.dataset.length ++
    (p.dataset ++ padM p.dataset.length)))

theorem encMb_length (p : MParam) : (encMb p).length = 6 + p.dataset.length + p.dataset.length % 2 := by
  simp only [encMb, padM, List.length_append, encInt_length]
  split <;> simp <;> omega

theorem encMb_even (p : MParam) : (encMb p).length % 2 = 0 := by
  rw [encMb_length]; omega

theorem encM_eq (p : MParam) (h : MParam_WF p) : encM p = .ok (encMb p) := by
  obtain ⟨h1, h2, h3⟩ := h
  have hf : Fits IENAM_FORMAT.codes [p.paramid, p.delay, p.dataset.length] := by
    simp [Fits, IENAM_FORMAT, Code.bound]; omega
  have hz : Fits IENAM_pack_fmt0.codes [0] := by simp [Fits, IENAM_pack_fmt0, Code.bound]
  simp only [encM, structPack_eq _ _ hf, structPack_eq _ _ hz]
  by_cases hodd : p.dataset.length % 2 = 1
  · simp [hodd, encMb, padM, encCodes, IENAM_FORMAT, IENAM_pack_fmt0, Code.size, encInt, beBytes, leBytes]
  · simp [hodd, encMb, padM, encCodes, IENAM_FORMAT, Code.size]

theorem decM_encMb (p : MParam) (rest : Bytes) (h : MParam_WF p) :
    decM (encMb p ++ rest) = .ok (p, (encMb p).length) := by
  obtain ⟨h1, h2, h3⟩ := h
  have htake : List.take 6 (encMb p ++ rest) =
      encInt true 2 p.paramid ++ (encInt true 2 p.delay ++ encInt true 2 p.dataset.length) := by
    simp only [encMb, List.append_assoc]
    rw [← List.append_assoc (encInt true 2 p.delay), ← List.append_assoc (encInt true 2 p.paramid)]
    exact take_append_len _ _ _ (by simp)
  have hu : structUnpack IENAM_FORMAT (List.take 6 (encMb p ++ rest)) = .ok [p.paramid, p.delay, p.dataset.length] := by
    rw [htake]
    simp only [structUnpack, IENAM_FORMAT, Fmt.size, codesSize, Code.size, List.length_append, encInt_length,
      unpackCodes, if_true, take_encInt_append, drop_encInt_append, take_encInt]
    rw [decInt_encInt2 _ _ h1, decInt_encInt2 _ _ h2, decInt_encInt2 _ _ h3]
  have hdrop : List.drop 6 (encMb p ++ rest) = p.dataset ++ (padM p.dataset.length ++ rest) := by
    simp only [encMb, List.append_assoc]
    rw [← List.append_assoc (encInt true 2 p.delay), ← List.append_assoc (encInt true 2 p.paramid)]
    exact drop_append_len _ _ _ (by simp)
  have hsl : slice (encMb p ++ rest) 6 (6 + p.dataset.length) = p.dataset := by
    simp only [encMb, List.append_assoc]
    rw [← List.append_assoc (encInt true 2 p.delay), ← List.append_assoc (encInt true 2 p.paramid)]
    exact slice_mid _ _ _ _ _ (by simp) (by simp)
  simp only [decM, IENAM_FORMAT_LEN, hu, hdrop, hsl, encMb_length]
  have : ¬ ((p.dataset ++ (padM p.dataset.length ++ rest)).length < p.dataset.length) := by simp
  simp only [this, if_false]
  congr 2
  by_cases hodd : p.dataset.length % 2 = 1 <;> simp [hodd] <;> omega

theorem encAllM_eq (ps : List MParam) (h : ∀ p ∈ ps, MParam_WF p) :
    encAllM ps = .ok (ps.flatMap encMb) := by
  induction ps with
  | nil => rfl
  | cons p ps ih =>
    simp only [encAllM, encM_eq p (h p (by simp)), ih (fun q hq => h q (by simp [hq])), List.flatMap_cons]

theorem flatMap_encMb_length_ge (ps : List MParam) : ps.length ≤ (ps.flatMap encMb).length := by
  induction ps with
  | nil => simp
  | cons p ps ih => simp only [List.flatMap_cons, List.length_cons, List.length_append, encMb_length]; omega

theorem flatMap_encMb_even (ps : List MParam) : (ps.flatMap encMb).length % 2 = 0 := by
  induction ps with
  | nil => simp
  | cons p ps ih =>
    have := encMb_even p
    simp only [List.flatMap_cons, List.length_append]; omega

/-- decoding the parameter area of an IENA-M packet returns exactly the parameters -/
theorem decM_all (ps : List MParam) (h : ∀ p ∈ ps, MParam_WF p) :
    decOff decM moreRem (ps.flatMap encMb) ((ps.flatMap encMb).length + 1) 0 = .ok ps := by
  have := decOff_encAll decM moreRem encMb ps [] ((ps.flatMap encMb).length + 1)
    (by have := flatMap_encMb_length_ge ps; omega)
    (fun x hx rest => decM_encMb x rest (h x hx))
    (fun x hx p q => by
      have := encMb_length x
      simp [moreRem]; omega)
    (fun n => by simp [moreRem])
  simpa using this


end Acra.Lemmas.IENA
