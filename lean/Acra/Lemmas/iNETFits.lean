/-
  The iNET package area read declaratively, in the style of `FitsM` / `FitsBlocks` (Props/C09):
  `FitsPkgs rem` walks the DECLARED package lengths over the bytes — no reference to the decoder model or to
  the generic `Walk`.  `PkgsReject e rem` is the complementary predicate, per exception kind: the walk reaches
  (with bytes left) a package whose 12-byte header is incomplete (`struct.error`) or whose declared length is
  below 12 (`ValueError`).  `decPkg_loop_ok_iff` / `decPkg_loop_error_iff` tie both to the model's loop.
-/
import Acra.Lemmas.iNETWalk
import Acra.Lemmas.WalkErr
namespace Acra.Lemmas.iNET
open Acra.Py Acra.Model.iNET Acra.Gen.iNET Acra.Lemmas.Bits Acra.Lemmas.Walk

/-- the package area, read declaratively: empty, or a complete 12-byte package header declaring a length
    `d ≥ 12`, followed — after `d` rounded up to a multiple of four — by a package area again
    (`drop` past the end is empty: a declared length beyond the buffer ends the walk, notes/fti.md §4 F2) -/
inductive FitsPkgs : Bytes → Prop
  | done : FitsPkgs []
  | pkg (rem : Bytes) : 12 ≤ rem.length → 12 ≤ pkgDeclared rem →
      FitsPkgs (rem.drop (roundUp4 (pkgDeclared rem))) → FitsPkgs rem

/-- the complement, per exception kind -/
inductive PkgsReject (e : Err) : Bytes → Prop
  | short (rem : Bytes) : rem ≠ [] → rem.length < 12 → e = .struct → PkgsReject e rem
  | small (rem : Bytes) : 12 ≤ rem.length → pkgDeclared rem < 12 → e = .value → PkgsReject e rem
  | later (rem : Bytes) : 12 ≤ rem.length → 12 ≤ pkgDeclared rem →
      PkgsReject e (rem.drop (roundUp4 (pkgDeclared rem))) → PkgsReject e rem

theorem fitsPkgs_iff_walk (rem : Bytes) : FitsPkgs rem ↔ PkgWalk rem := by
  constructor
  · intro h
    induction h with
    | done => exact .done
    | pkg rem h12 hl _ ih =>
      refine .step ?_ ⟨h12, hl⟩ ih
      intro h; subst h; simp at h12
  · intro h
    induction h with
    | done => exact .done
    | step _ hok _ ih => exact .pkg _ hok.1 hok.2 ih

/-- the exceptions of one loop step: `struct.error` for an incomplete header, `ValueError` for a declared
    length below 12 -/
theorem decPkg_error_iff (rem : Bytes) (e : Err) :
    decPkg rem = .error e ↔
      (rem.length < 12 ∧ e = .struct) ∨ (12 ≤ rem.length ∧ pkgDeclared rem < 12 ∧ e = .value) := by
  by_cases h12 : 12 ≤ rem.length
  · by_cases hl : 12 ≤ pkgDeclared rem
    · rw [decPkg, Pkg_unpack_closed Pkg.fresh rem h12 hl]
      simp only [reduceCtorEq, false_iff]
      omega
    · have hl' : pkgDeclared rem < 12 := by omega
      simp only [decPkg, Pkg.unpack, pkgHdr_unpack rem h12, PKG_FORMAT_LEN, hl', if_true, Except.error.injEq, h12,
        true_and]
      constructor
      · rintro rfl; right; rfl
      · rintro (⟨h, _⟩ | h)
        · omega
        · exact h.symm
  · have : structUnpackFrom PKG_FORMAT rem 0 = .error .struct := by
      simp only [structUnpackFrom, PKG_FORMAT, Fmt.size, codesSize, Code.size]
      have : ¬ (0 + (4 + (2 + (1 + (1 + (4 + 0))))) ≤ rem.length) := by omega
      simp [this]
    simp only [decPkg, Pkg.unpack, this, Except.error.injEq, h12, false_and, or_false]
    constructor
    · rintro rfl; exact ⟨by omega, rfl⟩
    · rintro ⟨_, rfl⟩; rfl

private theorem decPkg_rej (rem : Bytes) (x : Pkg) (n : Nat) (h : decPkg rem = .ok (x, n)) :
    PkgOk rem ∧ n = pkgAdvance rem := by
  simp only [decPkg] at h
  split at h
  · rename_i p r hp
    have hok := (Pkg_unpack_ok_iff Pkg.fresh rem).1 ⟨p, r, hp⟩
    refine ⟨hok, ?_⟩
    rw [Pkg_unpack_closed Pkg.fresh rem hok.1 hok.2] at hp
    simp only [Prod.mk.injEq] at hp
    simp only [Except.ok.injEq, Prod.mk.injEq] at h
    rw [← h.2, ← hp.1]
    simp only [pkgDecoded, pkgAdvance, roundUp4]
    by_cases hm : pkgDeclared rem % 4 = 0
    · simp [hm]
    · have : (4 - pkgDeclared rem % 4) % 4 = 4 - pkgDeclared rem % 4 := by omega
      simp [hm, this]
  · cases h

private theorem decPkg_acc (rem : Bytes) (hok : PkgOk rem) : ∃ x, decPkg rem = .ok (x, pkgAdvance rem) := by
  rw [decPkg, Pkg_unpack_closed Pkg.fresh rem hok.1 hok.2]
  refine ⟨pkgDecoded Pkg.fresh rem, ?_⟩
  simp only [pkgDecoded, pkgAdvance, roundUp4]
  by_cases hm : pkgDeclared rem % 4 = 0
  · simp [hm]
  · have : (4 - pkgDeclared rem % 4) % 4 = 4 - pkgDeclared rem % 4 := by omega
    simp [hm, this]

/-- the package loop returns exactly on `FitsPkgs` -/
theorem decPkg_loop_ok_iff (buf : Bytes) :
    (∃ ps, decOff decPkg moreRem buf (buf.length + 1) 0 = .ok ps) ↔ FitsPkgs buf := by
  rw [fitsPkgs_iff_walk, ← decPkg_walk]
  cases decOff decPkg moreRem buf (buf.length + 1) 0 <;> simp [R.isOk]

/-- … and raises `e` exactly on `PkgsReject e` -/
theorem decPkg_loop_error_iff (buf : Bytes) (e : Err) :
    decOff decPkg moreRem buf (buf.length + 1) 0 = .error e ↔ PkgsReject e buf := by
  have key := decOff_error_iff_walkErr decPkg moreRem PkgOk pkgAdvance
    (fun e rem => (rem.length < 12 ∧ e = .struct) ∨ (12 ≤ rem.length ∧ pkgDeclared rem < 12 ∧ e = .value))
    (fun _ _ => rfl) decPkg_rej decPkg_acc
    (by
      intro rem hok
      have := hok.2
      have := roundUp4_ge (pkgDeclared rem)
      simp only [pkgAdvance]
      omega)
    decPkg_error_iff buf e (buf.length + 1) 0 (by omega)
  rw [List.drop_zero] at key
  rw [key]
  clear key
  constructor
  · intro h
    induction h with
    | here hne he =>
      rcases he with ⟨h1, h2⟩ | ⟨h1, h2, h3⟩
      · exact .short _ hne h1 h2
      · exact .small _ h1 h2 h3
    | later _ hok _ ih => exact .later _ hok.1 hok.2 ih
  · intro h
    induction h with
    | short rem hne hs he => exact .here hne (Or.inl ⟨hs, he⟩)
    | small rem h12 hl he =>
      refine .here ?_ (Or.inr ⟨h12, hl, he⟩)
      intro h; subst h; simp at h12
    | later rem h12 hl _ ih =>
      refine .later ?_ ⟨h12, hl⟩ ih
      intro h; subst h; simp at h12

/-- only `struct.error` and `ValueError` can come out of the package loop -/
theorem pkgsReject_kind (e : Err) (rem : Bytes) (h : PkgsReject e rem) : e = .struct ∨ e = .value := by
  induction h with
  | short _ _ _ he => exact Or.inl he
  | small _ _ _ he => exact Or.inr he
  | later _ _ _ _ ih => exact ih

/-- the option word count the first byte declares -/
def optWc (buf : Bytes) : Nat := beNat (buf.take 1) % 16

/-- `iNET.unpack`'s verdict in one equation, for every buffer that passes the short-buffer check:
    `struct.error` when the declared option words are not all present, else the verdict of the package loop
    on the rest -/
theorem unpack_verdict (t : State) (buf : Bytes) (h24 : ¬ buf.length < 24) :
    (unpack t buf).2 =
      if buf.length < 24 + 4 * optWc buf then .error .struct else
      match decOff decPkg moreRem (buf.drop (24 + 4 * optWc buf)) ((buf.drop (24 + 4 * optWc buf)).length + 1) 0 with
      | .ok _ => .ok ()
      | .error e => .error e := by
  have hh : ∃ ty fl di sq ln ps pn, structUnpackFrom INET_HEADER_FORMAT buf 0 =
      .ok [beNat (buf.take 1), ty, fl, di, sq, ln, ps, pn] := by
    simp only [structUnpackFrom, INET_HEADER_FORMAT, Fmt.size, codesSize, Code.size, unpackCodes, decInt, List.drop_zero]
    have : 0 + (1 + (1 + (2 + (4 + (4 + (4 + (4 + (4 + 0)))))))) ≤ buf.length := by omega
    simp only [this, if_true]
    exact ⟨_, _, _, _, _, _, _, rfl⟩
  obtain ⟨ty, fl, di, sq, ln, ps, pn, hh⟩ := hh
  simp only [unpack, INET_HEADER_LENGTH, h24, if_false, hh, and_F, optWc]
  have hs : (iNET_unpack_fmt0 (beNat (buf.take 1) % 16)).size = 4 * (beNat (buf.take 1) % 16) := by
    simp only [iNET_unpack_fmt0, Fmt.size, codesSize_replicate_u32]
  split
  · rename_i e he
    split at he
    · have hes := structUnpackFrom_error _ _ _ _ he
      subst hes
      have := (structUnpackFrom_ok_iff (iNET_unpack_fmt0 (beNat (buf.take 1) % 16)) (List.drop 24 buf) 0)
      rw [he] at this
      simp only [hs, List.length_drop, R.isOk, Bool.false_eq_true, false_iff] at this
      have hlt : buf.length < 24 + 4 * (beNat (buf.take 1) % 16) := by omega
      simp only [hlt, if_true]
    · cases he
  · rename_i af haf
    have hlt : ¬ buf.length < 24 + 4 * (beNat (buf.take 1) % 16) := by
      split at haf
      · have := structUnpackFrom_ok_length _ _ _ _ haf
        simp only [hs, List.length_drop] at this
        omega
      · omega
    simp only [hlt, if_false, Nat.mul_comm (beNat (List.take 1 buf) % 16) 4]
    split <;> (rename_i heq; rw [heq])

/-- … and the object it leaves behind never keeps a stale package list once the short-buffer check and the
    option words are passed -/
theorem unpack_short (t : State) (buf : Bytes) (h : buf.length < 24) : unpack t buf = (t, .error .value) := by
  simp [unpack, INET_HEADER_LENGTH, h]

/-- past the short-buffer check, a `ValueError` comes from the package loop, and the package list has been reset by then -/
theorem unpack_value_packages (t : State) (buf : Bytes) (h24 : ¬ buf.length < 24)
    (hv : (unpack t buf).2 = .error .value) : (unpack t buf).1.packages = [] := by
  have hh : ∃ ty fl di sq ln ps pn, structUnpackFrom INET_HEADER_FORMAT buf 0 =
      .ok [beNat (buf.take 1), ty, fl, di, sq, ln, ps, pn] := by
    simp only [structUnpackFrom, INET_HEADER_FORMAT, Fmt.size, codesSize, Code.size, unpackCodes, decInt, List.drop_zero]
    have : 0 + (1 + (1 + (2 + (4 + (4 + (4 + (4 + (4 + 0)))))))) ≤ buf.length := by omega
    simp only [this, if_true]
    exact ⟨_, _, _, _, _, _, _, rfl⟩
  obtain ⟨ty, fl, di, sq, ln, ps, pn, hh⟩ := hh
  revert hv
  simp only [unpack, INET_HEADER_LENGTH, h24, if_false, hh]
  split
  · rename_i e he
    split at he
    · have hes := structUnpackFrom_error _ _ _ _ he
      subst hes
      intro hv; cases hv
    · cases he
  · split
    · intro hv; cases hv
    · intro _; rfl

/-- a successful loop step stood on an acceptable package and advanced by `pkgAdvance` -/
theorem decPkg_walk_step (rem : Bytes) (x : Pkg) (n : Nat) (h : decPkg rem = .ok (x, n)) :
    PkgOk rem ∧ n = pkgAdvance rem := decPkg_rej rem x n h

end Acra.Lemmas.iNET
