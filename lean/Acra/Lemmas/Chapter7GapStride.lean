/-
  Chapter 7, `get_aligned_payload`: the number of yielded tuples is bounded by the STRIDE of the loop, not by its
  fuel.  `gapNeed P R st` (Chapter7Gap) = iterations still possible: a low-latency iteration consumes ≥ 7 bytes of
  the frame payload (6 header bytes + continuation byte), a normal one ≥ 6 bytes of the current buffer, which after
  the (single) switch from the low-latency phase is at most `payload` again (jump to `ptdp_offset`) or
  `remainder ++ rest of the payload`; + 1 for the tuple that ends the loop.  Holds for EVERY fuel.
-/
import Acra.Lemmas.Chapter7Gap
namespace Acra.Lemmas.Chapter7
open Acra.Py Acra.Model Acra.Model.Chapter7 Acra.Gen.Chapter7

theorem gapNeed_pos (P R : Nat) (st : GapSt) : 1 ≤ gapNeed P R st := by
  unfold gapNeed; split <;> omega

theorem gapLoop_items_need (self : PTFR.State) (first : Bool) (rem : Option Bytes) (fuel : Nat) (st : GapSt)
    (hinv : st.isLlp = true → st.buf.length ≤ self.payload.length) :
    (gapLoop self first rem fuel st).items.length ≤ gapNeed self.payload.length (rem.getD []).length st := by
  induction fuel generalizing st with
  | zero => simp [gapLoop]
  | succ fuel ih =>
    have hpos := gapNeed_pos self.payload.length (rem.getD []).length st
    unfold gapLoop
    cases hu : PTDP.unpack PTDP.fresh st.buf with
    | mk p0 r =>
      have htot := ptdp_unpack_total PTDP.fresh st.buf
      rw [hu] at htot
      cases r with
      | error e =>
        rcases htot with ⟨_, h⟩ | h | h
        · cases h
        · simp only at h; injection h with h; subst h; simpa using hpos
        · simp only at h; injection h with h; subst h; simpa using hpos
      | ok rest =>
        have hlen := (ptdp_unpack_ok_len _ _ _ _ hu).1
        simp only
        have hb := bookkeep_buf st ((PTDP.len p0 : Nat) : Int)
        cases hbk : bookkeep st ((PTDP.len p0 : Nat) : Int) with
        | mk st1 chk =>
          rw [hbk] at hb
          simp only at hb ⊢
          by_cases hl : st.isLlp = true
          · simp only [hl, if_true]
            cases hs : structUnpackFrom PTFR_gap_fmt0 rest 0 with
            | error e => simp
            | ok vs =>
              have hr1 : 1 ≤ rest.length := by
                have := structUnpackFrom_ok_length _ _ _ _ hs
                simpa [PTFR_gap_fmt0, Fmt.size, codesSize, Code.size] using this
              match vs with
              | [] => simp
              | [n] =>
                simp only [items_cons, List.length_cons]
                have hc := afterLlp_cases self first rem st1 ((PTDP.len p0 : Nat) : Int) rest n
                have hP := hinv hl
                have hrec := ih (afterLlp self first rem st1 ((PTDP.len p0 : Nat) : Int) rest n) (by
                  intro h2
                  rcases hc with ⟨_, h3⟩ | ⟨h1, _⟩ | ⟨h1, _⟩
                  · rw [h3, List.length_drop]; omega
                  · rw [h1] at h2; cases h2
                  · rw [h1] at h2; cases h2)
                refine Nat.le_trans (Nat.succ_le_succ hrec) ?_
                simp only [gapNeed, hl, if_true]
                rcases hc with ⟨h1, h2⟩ | ⟨h1, h2⟩ | ⟨h1, h2⟩
                · simp only [h1, if_true, h2, List.length_drop]; omega
                · simp only [h1]; simp only [Bool.false_eq_true, if_false]; omega
                · simp only [h1]; simp only [Bool.false_eq_true, if_false]; omega
              | _ :: _ :: _ => simp
          · have hl' : st.isLlp = false := by cases h : st.isLlp <;> simp_all
            simp only [hl', Bool.false_eq_true, if_false, items_cons, List.length_cons]
            have hrec := ih { st1 with buf := rest } (by intro h2; rw [hb.2, hl'] at h2; cases h2)
            refine Nat.le_trans (Nat.succ_le_succ hrec) ?_
            simp only [gapNeed, hb.2, hl', Bool.false_eq_true, if_false]
            omega

/-- the start state of `get_aligned_payload`: its buffer is at most `remainder ++ payload` -/
theorem gap_items_stride (self : PTFR.State) (first : Bool) (rem : Option Bytes) :
    (getAlignedPayload self first rem).items.length ≤
      (if self.llp then self.payload.length / 7 + 1 else 0) + (self.payload.length + (rem.getD []).length) / 6 + 1 := by
  unfold getAlignedPayload
  simp only
  refine Nat.le_trans (gapLoop_items_need self first rem _ _ ?_) ?_
  · intro h; simp only at h; simp [h]
  · simp only [gapNeed]
    cases hl : self.llp with
    | true => simp only [if_true]; omega
    | false =>
      simp only [Bool.false_eq_true, if_false]
      split
      · simp only [List.length_drop]; omega
      · split
        · simp only [List.length_drop]; omega
        · cases rem with
          | none =>
            simp only [Option.getD_none, List.length_nil]
            split
            · simp only [List.length_nil]; omega
            · omega
          | some r => simp only [Option.getD_some, List.length_append]; omega

end Acra.Lemmas.Chapter7
