/-
  Helper lemmas for Chapter11: the header bytes, the secondary header, the filler; the bytes `pack`
  emits under the two well-formedness predicates (= Acra.Spec.Ch11.encode) and what `unpack` makes of
  a header followed by arbitrary bytes.  Property theorems are in Acra/Props (C03, C07, C13, C14).
-/
import Acra.Lemmas.Ch10
namespace Acra.Lemmas.Ch11
open Acra.Py Acra.Model.Ch11 Acra.Gen.Ch11 Acra.Lemmas.Ch10 Acra

def codes10 : List Code := [.u16, .u16, .u32, .u32, .u8, .u8, .u8, .u8, .u32, .u16]

/-- the first ten header values as `pack` passes them to `struct.pack` -/
def vals10 (s : State) (plen dlen : Nat) : List Nat :=
  [s.syncpattern, s.channelID, plen, dlen, s.datatypeversion, s.sequence, s.packetflag, s.datatype,
   s.relativetimecounter % 4294967296, s.relativetimecounter / 4294967296]

/-- the 22 header bytes before the checksum -/
def h22 (s : State) (plen dlen : Nat) : Bytes := encCodes false codes10 (vals10 s plen dlen)

@[simp] theorem h22_length (s : State) (plen dlen : Nat) : (h22 s plen dlen).length = 22 := by
  simp [h22, codes10, vals10, encCodes, Code.size]

theorem hdr_codes : CH10_HDR_FORMAT.codes = codes10 ++ [.u16] := rfl

theorem h22_eq_spec (s : State) (plen dlen : Nat) :
    h22 s plen dlen = Spec.Ch11.header22 s.syncpattern s.channelID plen dlen s.datatypeversion s.sequence
      s.packetflag s.datatype s.relativetimecounter := by
  have e1 : leBytes 6 s.relativetimecounter =
      leBytes 4 (s.relativetimecounter % 4294967296) ++ leBytes 2 (s.relativetimecounter / 4294967296) := by
    have := leBytes_add 2 4 s.relativetimecounter
    have h2 := leBytes_mod 4 s.relativetimecounter
    simp only [Nat.reducePow, Nat.reduceAdd] at this h2
    rw [this, h2]
  simp only [h22, codes10, vals10, encCodes, encInt, Code.size, Spec.Ch11.header22, e1, List.append_assoc,
    List.append_nil, Bool.false_eq_true, if_false]

/-- the whole 24-byte header with checksum value `c` -/
theorem hdr_with_cs (s : State) (plen dlen c : Nat) :
    encCodes false CH10_HDR_FORMAT.codes (vals10 s plen dlen ++ [c]) = h22 s plen dlen ++ encInt false 2 c := by
  rw [hdr_codes, encCodes_append _ _ _ _ _ (by simp [codes10, vals10])]
  simp [h22, encCodes, Code.size]

/-- no secondary header: flag bit 7 clear, derived fields as the setter leaves them -/
def WFn (s : State) : Prop :=
  s.syncpattern < 2 ^ 16 ∧ s.channelID < 2 ^ 16 ∧ s.datatypeversion < 2 ^ 8 ∧ s.sequence < 2 ^ 8 ∧
  s.packetflag < 2 ^ 7 ∧ s.datatype < 2 ^ 8 ∧ s.relativetimecounter < 2 ^ 48 ∧ s.data_checksum_size = 0 ∧
  s.has_secondary_header = false ∧ s.ts_source = TS_RTC ∧ s.payload.length + 28 < 2 ^ 32

theorem fill_eq (n : Nat) :
    (if n % 4 = 0 then ([] : Bytes) else List.replicate (4 - n % 4) 0xFF) = List.replicate (Spec.Ch11.fillLen n) 0xFF := by
  unfold Spec.Ch11.fillLen
  split
  · rename_i h; simp [h]
  · rename_i h
    have : (4 - n % 4) % 4 = 4 - n % 4 := by omega
    rw [this]

theorem fillR_eq (n : Nat) :
    (if n % 4 = 0 then (.ok [] : R Bytes)
     else structPack (Ch11_pack_fmt2 (4 - n % 4)) (List.replicate (4 - n % 4) 0xFF)) =
      .ok (List.replicate (Spec.Ch11.fillLen n) 0xFF) := by
  rw [← fill_eq]
  split
  · rfl
  · simp only [structPack, Ch11_pack_fmt2, packCodes_fill]

theorem fillLen_lt (n : Nat) : Spec.Ch11.fillLen n < 4 := by unfold Spec.Ch11.fillLen; omega
theorem fillLen_mod (n : Nat) : (n + Spec.Ch11.fillLen n) % 4 = 0 := by unfold Spec.Ch11.fillLen; omega

/-- the state `pack` leaves behind -/
def packed (s : State) (secLen : Nat) : State :=
  { s with filler := List.replicate (Spec.Ch11.fillLen (24 + secLen + s.payload.length)) 0xFF,
           packetlen := 24 + secLen + s.payload.length + Spec.Ch11.fillLen (24 + secLen + s.payload.length),
           datalen := s.payload.length }

/-- the checksum `pack` writes -/
def hcs (s : State) (secLen : Nat) : Nat :=
  Spec.sum16le (h22 s (24 + secLen + s.payload.length + Spec.Ch11.fillLen (24 + secLen + s.payload.length))
    s.payload.length) % 65536

theorem pack_core (s : State) (sec : Bytes) (hsec : secHdr s = .ok sec)
    (hw : s.syncpattern < 2 ^ 16 ∧ s.channelID < 2 ^ 16 ∧ s.datatypeversion < 2 ^ 8 ∧ s.sequence < 2 ^ 8 ∧
      s.packetflag < 2 ^ 8 ∧ s.datatype < 2 ^ 8 ∧ s.relativetimecounter < 2 ^ 48 ∧ s.data_checksum_size = 0 ∧
      sec.length + s.payload.length + 28 < 2 ^ 32) :
    pack s = (packed s sec.length,
      .ok (h22 s (packed s sec.length).packetlen s.payload.length ++ encInt false 2 (hcs s sec.length) ++ sec ++
        s.payload ++ List.replicate (Spec.Ch11.fillLen (24 + sec.length + s.payload.length)) 0xFF)) := by
  obtain ⟨h1, h2, h3, h4, h5, h6, h7, h8, h9⟩ := hw
  have hk := fillLen_lt (24 + sec.length + s.payload.length)
  have htot : sec.length + s.payload.length + CH10_HDR_FORMAT_LEN + s.data_checksum_size = 24 + sec.length + s.payload.length := by
    simp [CH10_HDR_FORMAT_LEN, h8]; omega
  simp only [pack, hsec, htot, fillR_eq, List.length_replicate]
  bits_simp
  have hf : Fits CH10_HDR_FORMAT.codes (vals10 s (24 + sec.length + s.payload.length + Spec.Ch11.fillLen (24 + sec.length + s.payload.length)) s.payload.length ++ [0]) := by
    simp only [CH10_HDR_FORMAT, vals10, Fits, Code.bound, List.cons_append, List.nil_append, and_true]
    omega
  have hv : [s.syncpattern, s.channelID, 24 + sec.length + s.payload.length + Spec.Ch11.fillLen (24 + sec.length + s.payload.length),
      s.payload.length, s.datatypeversion, s.sequence, s.packetflag, s.datatype, s.relativetimecounter % 4294967296,
      s.relativetimecounter / 4294967296, 0] =
      vals10 s (24 + sec.length + s.payload.length + Spec.Ch11.fillLen (24 + sec.length + s.payload.length)) s.payload.length ++ [0] := by
    simp [vals10]
  rw [hv, structPack_eq _ _ hf, show CH10_HDR_FORMAT.big = false from rfl, hdr_with_cs]
  have hcsum : getChecksumBuf (h22 s (24 + sec.length + s.payload.length + Spec.Ch11.fillLen (24 + sec.length + s.payload.length)) s.payload.length ++ encInt false 2 0)
      = .ok (hcs s sec.length) := by
    rw [getChecksumBuf_eq _ (by simp) (by simp)]
    rw [sum16le_append _ _ (by simp)]
    simp [hcs, encInt, leBytes, Spec.sum16le]
  simp only [hcsum]
  have hf3 : Fits Ch11_pack_fmt3.codes [hcs s sec.length] := by
    simp only [Ch11_pack_fmt3, Fits, Code.bound, and_true, hcs]; omega
  simp only [structPack_eq _ _ hf3]
  simp [packed, Ch11_pack_fmt3, encCodes, Code.size]

/-- IEEE-1588 secondary header present: flag bit 7 set, time format 01, derived fields as the setter leaves them -/
def WFs (s : State) : Prop :=
  s.syncpattern < 2 ^ 16 ∧ s.channelID < 2 ^ 16 ∧ s.datatypeversion < 2 ^ 8 ∧ s.sequence < 2 ^ 8 ∧
  (s.packetflag < 2 ^ 8 ∧ s.packetflag / 128 = 1 ∧ s.packetflag / 4 % 4 = 1) ∧ s.datatype < 2 ^ 8 ∧
  s.relativetimecounter < 2 ^ 48 ∧ s.data_checksum_size = 0 ∧
  s.has_secondary_header = true ∧ s.ts_source = TS_IEEE1558 ∧
  s.ptptime.seconds < 2 ^ 32 ∧ s.ptptime.nanoseconds < 2 ^ 32 ∧ s.payload.length + 40 < 2 ^ 32

theorem secHdr_none (s : State) (h : s.has_secondary_header = false) : secHdr s = .ok [] := by
  simp [secHdr, h]

theorem secHdr_some (s : State) (h : s.has_secondary_header = true) (ht : s.ts_source = TS_IEEE1558)
    (h1 : s.ptptime.seconds < 2 ^ 32) (h2 : s.ptptime.nanoseconds < 2 ^ 32) :
    secHdr s = .ok (Spec.Ch11.secHeader s.ptptime.seconds s.ptptime.nanoseconds) := by
  have hf : Fits PTP_pack_fmt0.codes [s.ptptime.nanoseconds, s.ptptime.seconds] := by
    simp only [PTP_pack_fmt0, Fits, Code.bound, and_true]; omega
  have hf0 : Fits Ch11_pack_fmt0.codes [0, 0] := by
    simp only [Ch11_pack_fmt0, Fits, Code.bound, and_true]; omega
  simp only [secHdr, h, ht, PTP.pack, structPack_eq _ _ hf, structPack_eq _ _ hf0, if_true]
  have e : encCodes PTP_pack_fmt0.big PTP_pack_fmt0.codes [s.ptptime.nanoseconds, s.ptptime.seconds] ++
      encCodes Ch11_pack_fmt0.big Ch11_pack_fmt0.codes [0, 0] =
      (leBytes 4 s.ptptime.nanoseconds ++ leBytes 4 s.ptptime.seconds ++ [0, 0]) ++ [0, 0] := by
    simp [PTP_pack_fmt0, Ch11_pack_fmt0, encCodes, encInt, Code.size, beBytes, leBytes]
  rw [e]
  simp only [TS_IEEE1558, TS_CH4]
  rw [getChecksumByteBuf_eq _ (by simp)]
  simp only [show (1:Nat) = 0 ↔ False by decide, if_false]
  have hf1 : Fits Ch11_pack_fmt1.codes [Spec.byteSum (leBytes 4 s.ptptime.nanoseconds ++ leBytes 4 s.ptptime.seconds ++ [0, 0] ++ [0, 0]) % 65536] := by
    simp only [Ch11_pack_fmt1, Fits, Code.bound, and_true]; omega
  simp only [structPack_eq _ _ hf1]
  rw [byteSum_append]
  have ht10 : ∀ (A B : Bytes), A.length = 4 → B.length = 4 →
      List.take 10 (A ++ (B ++ [0, 0, 0, 0])) = A ++ (B ++ [(0 : UInt8), 0]) := by
    intro A B hA hB
    have : A ++ (B ++ [0, 0, 0, 0]) = (A ++ (B ++ [0, 0])) ++ [(0 : UInt8), 0] := by simp
    rw [this, List.take_left' (by simp [hA, hB])]
  simp [Spec.Ch11.secHeader, Spec.Ch11.secChecksum, Ch11_pack_fmt1, encCodes, encInt, Code.size, Spec.byteSum,
    ht10 _ _ (leBytes_length 4 _) (leBytes_length 4 _)]

theorem pack_nosec (s : State) (h : WFn s) :
    pack s = (packed s 0, .ok (Spec.Ch11.encode s.syncpattern s.channelID s.datatypeversion s.sequence s.packetflag
      s.datatype s.relativetimecounter none s.payload)) := by
  obtain ⟨h1, h2, h3, h4, h5, h6, h7, h8, h9, h10, h11⟩ := h
  have := pack_core s [] (secHdr_none s h9) ⟨h1, h2, h3, h4, by omega, h6, h7, h8, by simp; omega⟩
  rw [this]
  simp only [List.length_nil, Spec.Ch11.encode, Spec.Ch11.header, Spec.Ch11.hdrChecksum, ← h22_eq_spec, hcs, packed,
    encInt, List.append_nil, Nat.add_zero, Bool.false_eq_true, if_false]

theorem pack_sec (s : State) (h : WFs s) :
    pack s = (packed s 12, .ok (Spec.Ch11.encode s.syncpattern s.channelID s.datatypeversion s.sequence s.packetflag
      s.datatype s.relativetimecounter (some (s.ptptime.seconds, s.ptptime.nanoseconds)) s.payload)) := by
  obtain ⟨h1, h2, h3, h4, ⟨h5, h5a, h5b⟩, h6, h7, h8, h9, h10, h11, h12, h13⟩ := h
  have hl : (Spec.Ch11.secHeader s.ptptime.seconds s.ptptime.nanoseconds).length = 12 := by
    simp [Spec.Ch11.secHeader]
  have := pack_core s _ (secHdr_some s h9 h10 h11 h12) ⟨h1, h2, h3, h4, h5, h6, h7, h8, by omega⟩
  rw [this, hl]
  simp only [Spec.Ch11.encode, Spec.Ch11.header, Spec.Ch11.hdrChecksum, ← h22_eq_spec, hcs, packed,
    encInt, hl, Bool.false_eq_true, if_false]

/-- `unpack` of a 24-byte header (eleven values that fit their fields) followed by anything, flag bit 7 clear -/
theorem unpack_hdr_nosec (t : State) (sync chid plen dlen dtv sq flag dt rl ru c : Nat) (rest : Bytes)
    (hf : Fits CH10_HDR_FORMAT.codes [sync, chid, plen, dlen, dtv, sq, flag, dt, rl, ru, c]) (hflag : flag < 128) :
    unpack t (encCodes false CH10_HDR_FORMAT.codes [sync, chid, plen, dlen, dtv, sq, flag, dt, rl, ru, c] ++ rest) =
      ({ syncpattern := sync, channelID := chid, packetlen := plen, datalen := dlen, datatypeversion := dtv,
         sequence := sq, packetflag := flag, datatype := dt, relativetimecounter := rl + ru * 4294967296,
         ptptime := ⟨0, 0⟩, ts_source := TS_RTC, payload := rest, data_checksum_size := t.data_checksum_size,
         filler := [], has_secondary_header := false }, .ok ()) := by
  have hu := structUnpackFrom_enc0 CH10_HDR_FORMAT _ rest hf
  have hlen : (encCodes false CH10_HDR_FORMAT.codes [sync, chid, plen, dlen, dtv, sq, flag, dt, rl, ru, c]).length = 24 := by
    rw [encCodes_length _ _ _ hf]; rfl
  simp only [show CH10_HDR_FORMAT.big = false from rfl] at hu
  simp only [unpack, hu, setPacketflag]
  bits_simp
  have h1 : ¬ flag > 255 := by omega
  have h2 : ¬ flag / 128 = 1 := by omega
  simp only [h1, h2, if_false, CH10_HDR_FORMAT_LEN]
  rw [drop_append_len _ _ _ hlen.symm]

theorem unpack_hdr_sec (t : State) (sync chid plen dlen dtv sq flag dt rl ru c ns sec r2 c2 : Nat) (rest : Bytes)
    (hf : Fits CH10_HDR_FORMAT.codes [sync, chid, plen, dlen, dtv, sq, flag, dt, rl, ru, c])
    (hf2 : Fits CH10_OPT_HDR_FORMAT.codes [ns, sec, r2, c2])
    (hflag : flag < 256 ∧ flag / 128 = 1 ∧ flag / 4 % 4 = 1) :
    unpack t (encCodes false CH10_HDR_FORMAT.codes [sync, chid, plen, dlen, dtv, sq, flag, dt, rl, ru, c] ++
        (encCodes false CH10_OPT_HDR_FORMAT.codes [ns, sec, r2, c2] ++ rest)) =
      ({ syncpattern := sync, channelID := chid, packetlen := plen, datalen := dlen, datatypeversion := dtv,
         sequence := sq, packetflag := flag, datatype := dt, relativetimecounter := rl + ru * 4294967296,
         ptptime := ⟨sec, ns⟩, ts_source := TS_IEEE1558, payload := rest, data_checksum_size := t.data_checksum_size,
         filler := [], has_secondary_header := true }, .ok ()) := by
  obtain ⟨hfl, hfa, hfb⟩ := hflag
  have hu := structUnpackFrom_enc0 CH10_HDR_FORMAT _ (encCodes false CH10_OPT_HDR_FORMAT.codes [ns, sec, r2, c2] ++ rest) hf
  have hlen : (encCodes false CH10_HDR_FORMAT.codes [sync, chid, plen, dlen, dtv, sq, flag, dt, rl, ru, c]).length = 24 := by
    rw [encCodes_length _ _ _ hf]; rfl
  have hlen2 : (encCodes false CH10_OPT_HDR_FORMAT.codes [ns, sec, r2, c2]).length = 12 := by
    rw [encCodes_length _ _ _ hf2]; rfl
  have hu2 := structUnpackFrom_enc CH10_OPT_HDR_FORMAT _ (encCodes false CH10_HDR_FORMAT.codes [sync, chid, plen, dlen, dtv, sq, flag, dt, rl, ru, c]) rest hf2 24 hlen.symm
  simp only [show CH10_HDR_FORMAT.big = false from rfl, show CH10_OPT_HDR_FORMAT.big = false from rfl] at hu hu2
  simp only [unpack, hu, setPacketflag]
  bits_simp
  have h1 : ¬ flag > 255 := by omega
  simp only [h1, hfa, hfb, if_false, if_true, CH10_HDR_FORMAT_LEN, CH10_OPT_HDR_FORMAT_LEN, hu2]
  simp only [show (1:Nat) = 0 ↔ False by decide, if_false]
  rw [← List.append_assoc, drop_append_len _ _ _ (by simp [hlen, hlen2])]

/-- what an object (in any prior state `t`) holds after decoding the encoding of `s`: the fields of `s`,
    the computed lengths, an empty filler, and the payload FOLLOWED BY the filler bytes (K5) -/
def decoded (s t : State) (secLen : Nat) : State :=
  { packed s secLen with
      payload := s.payload ++ List.replicate (Spec.Ch11.fillLen (24 + secLen + s.payload.length)) 0xFF,
      filler := [], data_checksum_size := t.data_checksum_size,
      ptptime := if secLen = 0 then ⟨0, 0⟩ else s.ptptime }

theorem roundtrip_nosec (s t : State) (h : WFn s) :
    ∃ b, pack s = (packed s 0, .ok b) ∧ unpack t b = (decoded s t 0, .ok ()) := by
  obtain ⟨h1, h2, h3, h4, h5, h6, h7, h8, h9, h10, h11⟩ := h
  have hp := pack_core s [] (secHdr_none s h9) ⟨h1, h2, h3, h4, by omega, h6, h7, h8, by simp; omega⟩
  refine ⟨_, hp, ?_⟩
  have hk := fillLen_lt (24 + 0 + s.payload.length)
  simp only [List.length_nil, List.append_nil]
  rw [← hdr_with_cs, List.append_assoc]
  simp only [vals10, List.cons_append, List.nil_append]
  rw [unpack_hdr_nosec _ _ _ _ _ _ _ _ _ _ _ _ _ (by
      simp only [CH10_HDR_FORMAT, Fits, Code.bound, and_true, packed, hcs]; omega) (by omega)]
  simp only [decoded, packed, h9, h10, if_true]
  congr 2
  omega

theorem roundtrip_sec (s t : State) (h : WFs s) :
    ∃ b, pack s = (packed s 12, .ok b) ∧ unpack t b = (decoded s t 12, .ok ()) := by
  obtain ⟨h1, h2, h3, h4, ⟨h5, h5a, h5b⟩, h6, h7, h8, h9, h10, h11, h12, h13⟩ := h
  have hl : (Spec.Ch11.secHeader s.ptptime.seconds s.ptptime.nanoseconds).length = 12 := by
    simp [Spec.Ch11.secHeader]
  have hp := pack_core s _ (secHdr_some s h9 h10 h11 h12) ⟨h1, h2, h3, h4, h5, h6, h7, h8, by omega⟩
  rw [hl] at hp
  refine ⟨_, hp, ?_⟩
  have hk := fillLen_lt (24 + 12 + s.payload.length)
  rw [← hdr_with_cs]
  simp only [vals10, List.cons_append, List.nil_append, List.append_assoc]
  have hsec : Spec.Ch11.secHeader s.ptptime.seconds s.ptptime.nanoseconds =
      encCodes false CH10_OPT_HDR_FORMAT.codes [s.ptptime.nanoseconds, s.ptptime.seconds, 0,
        Spec.Ch11.secChecksum (leBytes 4 s.ptptime.nanoseconds ++ leBytes 4 s.ptptime.seconds ++ [0, 0])] := by
    simp [Spec.Ch11.secHeader, CH10_OPT_HDR_FORMAT, encCodes, encInt, Code.size, leBytes]
  rw [hsec, List.append_assoc]
  rw [unpack_hdr_sec _ _ _ _ _ _ _ _ _ _ _ _ _ _ _ _ _ (by
      simp only [CH10_HDR_FORMAT, Fits, Code.bound, and_true, packed, hcs]; omega) (by
      simp only [CH10_OPT_HDR_FORMAT, Fits, Code.bound, and_true, Spec.Ch11.secChecksum]; omega) ⟨h5, h5a, h5b⟩]
  simp only [decoded, packed, h9, h10]
  congr 2
  omega

/-! ### state (C13) and accept/reject (C09) lemmas -/

theorem secHdr_indep (s : State) (f : Bytes) (pl dl : Nat) :
    secHdr { s with filler := f, packetlen := pl, datalen := dl } = secHdr s := by
  simp only [secHdr]

/-- `pack` reads neither `filler` nor `packetlen` nor `datalen` -/
theorem pack_ignores (s : State) (f : Bytes) (pl dl : Nat) :
    (pack { s with filler := f, packetlen := pl, datalen := dl }).2 = (pack s).2 := by
  simp only [pack, secHdr_indep]
  repeat' split
  all_goals simp_all

/-- the filler `pack` computes from the secondary header and payload lengths -/
def fillOf (s : State) (sec : Bytes) : R Bytes :=
  let total := sec.length + s.payload.length + CH10_HDR_FORMAT_LEN + s.data_checksum_size
  if total % 4 = 0 then .ok []
  else structPack (Ch11_pack_fmt2 (4 - total % 4)) (List.replicate (4 - total % 4) 0xFF)

/-- the state `pack` leaves once the filler is known -/
def withFill (s : State) (sec filler : Bytes) : State :=
  { s with filler := filler,
           packetlen := sec.length + s.payload.length + CH10_HDR_FORMAT_LEN + s.data_checksum_size + filler.length,
           datalen := s.payload.length }

/-- the only fields `pack` writes are `filler`, `packetlen`, `datalen` — and it writes them whenever the
    secondary header could be built, whatever happens afterwards -/
theorem pack_state (s : State) :
    (pack s).1 =
      match secHdr s with
      | .error _ => s
      | .ok sec =>
        match fillOf s sec with
        | .error _ => s
        | .ok filler => withFill s sec filler := by
  simp only [pack, fillOf, withFill]
  repeat' split
  all_goals simp_all

theorem ch11_pack_idempotent (s : State) : pack (pack s).1 = pack s := by
  apply Prod.ext
  · rw [pack_state (pack s).1, pack_state s]
    cases hs : secHdr s with
    | error e => simp only [hs]
    | ok sec =>
      simp only
      cases hf : fillOf s sec with
      | error e => simp only [hs, hf]
      | ok filler =>
        have h1 : secHdr (withFill s sec filler) = secHdr s := secHdr_indep s _ _ _
        have h2 : fillOf (withFill s sec filler) sec = fillOf s sec := rfl
        simp only [h1, hs, h2, hf]
        rfl
  · rw [pack_state s]
    cases hs : secHdr s with
    | error e => rfl
    | ok sec =>
      simp only
      cases hf : fillOf s sec with
      | error e => rfl
      | ok filler => simp only; exact pack_ignores s _ _ _

/-- the packet-flag byte of a buffer (byte 14) -/
def flagByte (buf : Bytes) : Nat := decInt false ((buf.drop 14).take 1)

theorem flagByte_lt (buf : Bytes) : flagByte buf < 256 := by
  have := decInt_lt false ((buf.drop 14).take 1)
  have h2 : ((buf.drop 14).take 1).length ≤ 1 := by simp; omega
  unfold flagByte
  calc _ < 256 ^ ((buf.drop 14).take 1).length := this
    _ ≤ 256 ^ 1 := Nat.pow_le_pow_right (by omega) h2

theorem ch11_accepts_iff (t : State) (buf : Bytes) :
    (unpack t buf).2 = .ok () ↔
      24 ≤ buf.length ∧ (flagByte buf < 128 ∨ (flagByte buf / 4 % 4 = 1 ∧ 36 ≤ buf.length)) := by
  have hfl := flagByte_lt buf
  unfold flagByte at *
  generalize hfb : decInt false (List.take 1 (List.drop 14 buf)) = fb at *
  by_cases hlen : 24 ≤ buf.length
  · simp only [unpack, structUnpackFrom, CH10_HDR_FORMAT, Fmt.size, codesSize, Code.size, Nat.zero_add, hlen, if_true,
      unpackCodes, List.drop_zero, List.drop_drop, setPacketflag]
    simp only [Nat.reduceAdd, hfb]
    bits_simp
    have h1 : ¬ fb > 255 := by omega
    simp only [h1, if_false]
    by_cases h7 : fb / 128 = 1
    · simp only [h7, if_true]
      by_cases h0 : fb / 4 % 4 = 0
      · simp only [h0, if_true, CH10_OPT_HDR_FORMAT, CH10_HDR_FORMAT_LEN, codesSize, Code.size]
        by_cases h36 : 24 + (4 + (4 + (2 + (2 + 0)))) ≤ buf.length <;> simp [h36, unpackCodes] <;> omega
      · by_cases h1' : fb / 4 % 4 = 1
        · simp only [h1', if_true, CH10_OPT_HDR_FORMAT, CH10_HDR_FORMAT_LEN, codesSize, Code.size]
          simp only [show (1:Nat) = 0 ↔ False by decide, if_false, unpackCodes]
          by_cases h36 : 24 + (4 + (4 + (2 + (2 + 0)))) ≤ buf.length <;> simp [h36] <;> omega
        · simp only [h0, h1', if_false]
          simp <;> omega
    · simp only [h7, if_false]
      simp <;> omega
  · simp only [unpack, structUnpackFrom, CH10_HDR_FORMAT, Fmt.size, codesSize, Code.size]
    have : ¬ (0 + (2 + (2 + (4 + (4 + (1 + (1 + (1 + (1 + (4 + (2 + (2 + 0))))))))))) ≤ buf.length) := by omega
    simp only [this, if_false]
    simp <;> omega

theorem ch11_accepted_payload_exact (t : State) (buf : Bytes) (h : (unpack t buf).2 = .ok ()) :
    (unpack t buf).1.payload = buf.drop (if flagByte buf < 128 then 24 else 36) ∧
    (unpack t buf).1.filler = [] := by
  have hfl := flagByte_lt buf
  revert h
  unfold flagByte at *
  generalize hfb : decInt false (List.take 1 (List.drop 14 buf)) = fb at *
  by_cases hlen : 24 ≤ buf.length
  · simp only [unpack, structUnpackFrom, CH10_HDR_FORMAT, Fmt.size, codesSize, Code.size, Nat.zero_add, hlen, if_true,
      unpackCodes, List.drop_zero, List.drop_drop, setPacketflag]
    simp only [Nat.reduceAdd, hfb]
    bits_simp
    have h1 : ¬ fb > 255 := by omega
    simp only [h1, if_false]
    by_cases h7 : fb / 128 = 1
    · have hn : ¬ fb < 128 := by omega
      simp only [h7, if_true, hn, if_false]
      by_cases h0 : fb / 4 % 4 = 0
      · simp only [h0, if_true, CH10_OPT_HDR_FORMAT, CH10_HDR_FORMAT_LEN, codesSize, Code.size]
        by_cases h36 : 24 + (4 + (4 + (2 + (2 + 0)))) ≤ buf.length <;> simp [h36, unpackCodes]
      · by_cases h1' : fb / 4 % 4 = 1
        · simp only [h1', if_true, CH10_OPT_HDR_FORMAT, CH10_HDR_FORMAT_LEN, CH10_OPT_HDR_FORMAT_LEN, codesSize, Code.size]
          simp only [show (1:Nat) = 0 ↔ False by decide, if_false, unpackCodes]
          by_cases h36 : 24 + (4 + (4 + (2 + (2 + 0)))) ≤ buf.length <;> simp [h36]
        · simp only [h0, h1', if_false]
          simp
    · have hn : fb < 128 := by omega
      simp only [h7, if_false, hn, if_true, CH10_HDR_FORMAT_LEN]
      simp
  · simp only [unpack, structUnpackFrom, CH10_HDR_FORMAT, Fmt.size, codesSize, Code.size]
    have : ¬ (0 + (2 + (2 + (4 + (4 + (1 + (1 + (1 + (1 + (4 + (2 + (2 + 0))))))))))) ≤ buf.length) := by omega
    simp only [this, if_false]
    simp

theorem ch11_unpack_state_independent (t : State) (buf : Bytes) (h : (unpack t buf).2 = .ok ()) :
    unpack t buf = unpack { fresh with data_checksum_size := t.data_checksum_size } buf := by
  have hfl := flagByte_lt buf
  revert h
  unfold flagByte at *
  generalize hfb : decInt false (List.take 1 (List.drop 14 buf)) = fb at *
  by_cases hlen : 24 ≤ buf.length
  · simp only [unpack, structUnpackFrom, CH10_HDR_FORMAT, Fmt.size, codesSize, Code.size, Nat.zero_add, hlen, if_true,
      unpackCodes, List.drop_zero, List.drop_drop, setPacketflag]
    simp only [Nat.reduceAdd, hfb]
    bits_simp
    have h1 : ¬ fb > 255 := by omega
    simp only [h1, if_false]
    by_cases h7 : fb / 128 = 1
    · simp only [h7, if_true]
      by_cases h0 : fb / 4 % 4 = 0
      · simp only [h0, if_true, CH10_OPT_HDR_FORMAT, CH10_HDR_FORMAT_LEN, codesSize, Code.size]
        by_cases h36 : 24 + (4 + (4 + (2 + (2 + 0)))) ≤ buf.length <;> simp [h36, unpackCodes]
      · by_cases h1' : fb / 4 % 4 = 1
        · simp only [h1', if_true, CH10_OPT_HDR_FORMAT, CH10_HDR_FORMAT_LEN, CH10_OPT_HDR_FORMAT_LEN, codesSize, Code.size]
          simp only [show (1:Nat) = 0 ↔ False by decide, if_false, unpackCodes]
          by_cases h36 : 24 + (4 + (4 + (2 + (2 + 0)))) ≤ buf.length <;> simp [h36]
        · simp only [h0, h1', if_false]
          simp
    · simp only [h7, if_false, CH10_HDR_FORMAT_LEN]
      simp
  · simp only [unpack, structUnpackFrom, CH10_HDR_FORMAT, Fmt.size, codesSize, Code.size]
    have : ¬ (0 + (2 + (2 + (4 + (4 + (1 + (1 + (1 + (1 + (4 + (2 + (2 + 0))))))))))) ≤ buf.length) := by omega
    simp only [this, if_false]
    simp

/-- the flag setter raises nothing but a bare Exception -/
theorem setPacketflag_err (s : State) (v : Nat) (s2 : State) (e : Err)
    (h : setPacketflag s v = (s2, .error e)) : e = .generic := by
  simp only [setPacketflag] at h
  repeat' split at h
  all_goals simp_all

end Acra.Lemmas.Ch11
