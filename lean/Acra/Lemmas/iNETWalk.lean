/-
  Closed forms for `iNETPackage.unpack` (any buffer holding the 12-byte package header with a declared length
  of at least 12) and for the package loop of `iNET.unpack` (a walk over the bytes by the DECLARED lengths).
-/
import Acra.Model.iNET
import Acra.Lemmas.Bits
import Acra.Lemmas.iNET
import Acra.Lemmas.Walk
namespace Acra.Lemmas.iNET
open Acra.Py Acra.Model.iNET Acra.Gen.iNET Acra.Lemmas.Bits Acra.Lemmas.Walk

/-- the length a package header declares: big-endian 16 bits at bytes 4..5 -/
def pkgDeclared (rem : Bytes) : Nat := beNat ((rem.drop 4).take 2)

/-- bytes the package loop advances by: the DECLARED length rounded up to four (the package length is not
    rewritten, unlike an NPD segment's) -/
def pkgAdvance (rem : Bytes) : Nat := roundUp4 (pkgDeclared rem)

theorem pkgHdr_unpack (buf : Bytes) (h : 12 ≤ buf.length) :
    structUnpackFrom PKG_FORMAT buf 0 =
      .ok [beNat (buf.take 4), pkgDeclared buf, beNat ((buf.drop 6).take 1), beNat ((buf.drop 7).take 1),
           beNat ((buf.drop 8).take 4)] := by
  simp only [structUnpackFrom, PKG_FORMAT, Fmt.size, codesSize, Code.size, unpackCodes, decInt, List.drop_zero,
    pkgDeclared, List.drop_drop]
  have : 0 + (4 + (2 + (1 + (1 + (4 + 0))))) ≤ buf.length := by omega
  simp only [this, if_true]

/-- the object `iNETPackage.unpack` leaves behind -/
def pkgDecoded (t : Pkg) (buf : Bytes) : Pkg :=
  { t with definitionID := beNat (buf.take 4), length := pkgDeclared buf, flags := beNat ((buf.drop 7).take 1),
           timedelta := beNat ((buf.drop 8).take 4), payload := slice buf 12 (pkgDeclared buf) }

/-- `iNETPackage.unpack` in closed form -/
theorem Pkg_unpack_closed (t : Pkg) (buf : Bytes) (h12 : 12 ≤ buf.length) (hl : 12 ≤ pkgDeclared buf) :
    Pkg.unpack t buf = (pkgDecoded t buf, .ok (buf.drop (pkgAdvance buf))) := by
  have hl' : ¬ pkgDeclared buf < 12 := by omega
  simp only [Pkg.unpack, pkgHdr_unpack buf h12, PKG_FORMAT_LEN, hl', if_false, pkgDecoded, pkgAdvance, roundUp4]
  by_cases hm : pkgDeclared buf % 4 = 0
  · simp [hm]
  · have : (4 - pkgDeclared buf % 4) % 4 = 4 - pkgDeclared buf % 4 := by omega
    simp [hm, this]

/-- a package at the front of `rem` is accepted: header complete, declared length not below the header's -/
def PkgOk (rem : Bytes) : Prop := 12 ≤ rem.length ∧ 12 ≤ pkgDeclared rem

instance (rem : Bytes) : Decidable (PkgOk rem) := by unfold PkgOk; exact inferInstance

theorem Pkg_unpack_ok_iff (t : Pkg) (rem : Bytes) : (∃ p r, Pkg.unpack t rem = (p, .ok r)) ↔ PkgOk rem := by
  by_cases h12 : 12 ≤ rem.length
  · by_cases hl : 12 ≤ pkgDeclared rem
    · rw [Pkg_unpack_closed t rem h12 hl]
      exact ⟨fun _ => ⟨h12, hl⟩, fun _ => ⟨_, _, rfl⟩⟩
    · have hl' : pkgDeclared rem < 12 := by omega
      simp only [Pkg.unpack, pkgHdr_unpack rem h12, PKG_FORMAT_LEN, hl', if_true, PkgOk, hl, and_false, iff_false]
      rintro ⟨p, r, h⟩
      cases h
  · have : structUnpackFrom PKG_FORMAT rem 0 = .error .struct := by
      simp only [structUnpackFrom, PKG_FORMAT, Fmt.size, codesSize, Code.size]
      have : ¬ (0 + (4 + (2 + (1 + (1 + (4 + 0))))) ≤ rem.length) := by omega
      simp [this]
    simp only [Pkg.unpack, this, PkgOk, h12, false_and, iff_false]
    rintro ⟨p, r, h⟩
    cases h

/-- the walk `iNET.unpack` performs over the package area -/
def PkgWalk : Bytes → Prop := Walk PkgOk pkgAdvance

theorem decPkg_walk (buf : Bytes) :
    (decOff decPkg moreRem buf (buf.length + 1) 0).isOk = true ↔ PkgWalk buf := by
  have := decOff_isOk_iff_walk decPkg moreRem PkgOk pkgAdvance (fun _ _ => rfl)
    (by
      intro rem hok
      rw [decPkg, Pkg_unpack_closed Pkg.fresh rem hok.1 hok.2]
      refine ⟨pkgDecoded Pkg.fresh rem, ?_⟩
      simp only [pkgDecoded, pkgAdvance, roundUp4]
      by_cases hm : pkgDeclared rem % 4 = 0
      · simp [hm]
      · have : (4 - pkgDeclared rem % 4) % 4 = 4 - pkgDeclared rem % 4 := by omega
        simp [hm, this])
    (by
      intro rem x n h
      simp only [decPkg] at h
      split at h
      · rename_i p r hp
        have hok := (Pkg_unpack_ok_iff Pkg.fresh rem).1 ⟨p, r, hp⟩
        refine ⟨hok, ?_⟩
        rw [Pkg_unpack_closed Pkg.fresh rem hok.1 hok.2] at hp
        simp only [Prod.mk.injEq] at hp
        simp only [Except.ok.injEq, Prod.mk.injEq] at h
        rw [← h.2, ← hp.1]
        simp only [pkgDecoded, pkgAdvance, roundUp4]
        by_cases hm : pkgDeclared rem % 4 = 0
        · simp [hm]
        · have : (4 - pkgDeclared rem % 4) % 4 = 4 - pkgDeclared rem % 4 := by omega
          simp [hm, this]
      · cases h)
    (by
      intro rem hok
      have := hok.2
      have := roundUp4_ge (pkgDeclared rem)
      simp only [pkgAdvance]
      omega)
    buf (buf.length + 1) 0 (by omega)
  simpa [PkgWalk] using this

end Acra.Lemmas.iNET
