/-
  Canonical forms for C14 `eq_decode` of the MPEG classes: the objects each class can encode EXACTLY, i.e. for which
  the object `pack` leaves behind and the object `unpack` builds from the emitted bytes are the same value.  Each
  predicate is an explicit, decidable conjunction; every clause is necessary (the counter-examples are in
  `Props/C14/MpegDecode.lean`).
-/
import Acra.Lemmas.MPEGTS
import Acra.Lemmas.PES
import Acra.Lemmas.PMT
import Acra.Lemmas.ReviewC06
namespace Acra.Lemmas.MpegCanon
open Acra.Py Acra.Model.MPEGTS Acra.Model.PMT Acra.Model.PES Acra.Lemmas.MPEGTS Acra.Lemmas.PES Acra.Lemmas.PMT

/-! ### MPEGPacket -/

/-- a transport packet the class encodes exactly: every field fits its width, sync byte 0x47, a packet that carries a
    payload (control 1 or 3) has no 0xFF stuffing after it (the format has no payload length), control 2 has its
    adaptation-field object, controls 0 and 2 carry no payload, controls 0 and 1 hold no adaptation-field object -/
def Pkt_canon (p : Pkt) : Prop :=
  Pkt_WF p ∧ p.sync = 0x47 ∧
  ((p.adaption_ctrl = 1 ∨ p.adaption_ctrl = 3) → 188 ≤ Pkt_used p) ∧
  (p.adaption_ctrl = 2 → p.adaption_field.isSome = true) ∧
  ((p.adaption_ctrl = 0 ∨ p.adaption_ctrl = 2) → p.payload = []) ∧
  (¬ hasAF p → p.adaption_field = none)

instance (p : Pkt) : Decidable (Pkt_canon p) := by unfold Pkt_canon; infer_instance

/-- the object `pack` leaves and the object `unpack` builds coincide -/
theorem Pkt_packed_eq_decoded (p : Pkt) (h5 : p.adaption_ctrl < 4)
    (hst : (p.adaption_ctrl = 1 ∨ p.adaption_ctrl = 3) → 188 ≤ Pkt_used p)
    (hpl : (p.adaption_ctrl = 0 ∨ p.adaption_ctrl = 2) → p.payload = [])
    (hnoaf : ¬ hasAF p → p.adaption_field = none) :
    Pkt_packed p = Pkt_decoded p := by
  have hstuff : (p.adaption_ctrl = 1 ∨ p.adaption_ctrl = 3) → Pkt_stuffing p = [] := by
    intro hc
    have := hst hc
    simp only [Pkt_stuffing, List.replicate_eq_nil_iff]
    omega
  by_cases haf : hasAF p
  · have hc : p.adaption_ctrl = 2 ∨ p.adaption_ctrl = 3 := haf
    simp only [Pkt_packed, Pkt_decoded, if_pos haf]
    rcases hc with hc | hc
    · have := hpl (Or.inr hc)
      simp [hc, this]
    · simp [hc, hstuff (Or.inr hc)]
  · have hx := hnoaf haf
    have hc : ¬ (p.adaption_ctrl = 2 ∨ p.adaption_ctrl = 3) := haf
    simp only [Pkt_packed, Pkt_decoded, if_neg haf]
    by_cases h1 : p.adaption_ctrl = 1
    · have := hstuff (Or.inl h1)
      cases p; simp_all
    · have h0 : p.adaption_ctrl = 0 := by omega
      have := hpl (Or.inl h0)
      cases p; simp_all

theorem Pkt_canon_packed_eq_decoded (p : Pkt) (h : Pkt_canon p) : Pkt_packed p = Pkt_decoded p :=
  Pkt_packed_eq_decoded p h.1.2.2.2.2.1 h.2.2.1 h.2.2.2.2.1 h.2.2.2.2.2

/-! ### MPEGPacketPMT -/

/-- a PMT packet the class encodes exactly (its `__eq__` does not look at `payload` and `_crc`): well formed, sync
    byte, adaptation control 1 or 3 (the section needs a payload), no adaptation-field object with control 1 -/
def PMT_canon (s : PMT) : Prop :=
  PMT_WF s ∧ s.pkt.sync = 0x47 ∧ (s.pkt.adaption_ctrl = 1 ∨ s.pkt.adaption_ctrl = 3) ∧
  (s.pkt.adaption_ctrl = 1 → s.pkt.adaption_field = none)

instance (s : PMT) : Decidable (PMT_canon s) := by unfold PMT_canon; infer_instance

/-! ### PES -/

/-- a PES packet the class encodes exactly: well formed, sync byte, adaptation control 1 or 3, no adaptation-field
    object with control 1, the PES packet ends where the TS packet ends (no 0xFF stuffing after the data — the decoder
    takes everything after the prefix as data), and EITHER all three optional-header attributes are set and the
    first flag byte has the high nibble 8 (the decoder's test) OR all three are `None` and the first data byte does
    not have the high nibble 8 (K2: the decoder would take the data for an optional header) -/
def PES_canon (s : PES) : Prop :=
  PES_WF s ∧ s.pkt.sync = 0x47 ∧ (s.pkt.adaption_ctrl = 1 ∨ s.pkt.adaption_ctrl = 3) ∧
  (s.pkt.adaption_ctrl = 1 → s.pkt.adaption_field = none) ∧
  188 ≤ Pkt_used (PES_pkt s) ∧
  ((s.extension_w1.isSome = true ∧ s.extension_w2.isSome = true ∧ s.header_data.isSome = true ∧
      s.extension_w1.getD 0 / 16 = 8) ∨
   (s.extension_w1 = none ∧ s.extension_w2 = none ∧ s.header_data = none ∧
      (3 ≤ (PES_tail s).length → PES_firstByte s / 16 ≠ 8)))

instance (s : PES) : Decidable (PES_canon s) := by unfold PES_canon; infer_instance

theorem PES_canon_pkt (s : PES) (h : PES_canon s) : Pkt_packed (PES_pkt s) = Pkt_decoded (PES_pkt s) := by
  obtain ⟨hw, _, hafc, hnoaf, hfull, _⟩ := h
  have hwp : Pkt_WF (PES_pkt s) := hw.1
  have hafc' : (PES_pkt s).adaption_ctrl = 1 ∨ (PES_pkt s).adaption_ctrl = 3 := hafc
  refine Pkt_packed_eq_decoded _ hwp.2.2.2.2.1 (fun _ => hfull) (fun c => absurd c (by omega)) ?_
  intro hn
  have : ¬ (s.pkt.adaption_ctrl = 2 ∨ s.pkt.adaption_ctrl = 3) := hn
  exact hnoaf (by omega)

theorem PES_canon_stuffing (s : PES) (h : PES_canon s) : Pkt_stuffing (PES_pkt s) = [] := by
  have := h.2.2.2.2.1
  simp only [Pkt_stuffing, List.replicate_eq_nil_iff]
  omega

/-- what `PES.unpack` (any prior state) makes of the encoding of a canonical object: the object `pack` left -/
theorem PES_canon_unpack (s t : PES) (h : PES_canon s) :
    PES.unpack t (Pkt_bytes (PES_pkt s)) = ({ s with pkt := Pkt_packed (PES_pkt s) }, .ok ()) := by
  have hpk := PES_canon_pkt s h
  have hst := PES_canon_stuffing s h
  obtain ⟨hw, hs, hafc, _, _, hx⟩ := h
  rcases hx with ⟨h1, h2, h3, h4⟩ | ⟨h1, h2, h3, h4⟩
  · obtain ⟨w1, e1⟩ := Option.isSome_iff_exists.mp h1
    obtain ⟨w2, e2⟩ := Option.isSome_iff_exists.mp h2
    obtain ⟨hd, e3⟩ := Option.isSome_iff_exists.mp h3
    have he : PES.ext s = some (w1, w2, hd) := by simp [PES.ext, e1, e2, e3]
    rw [e1] at h4
    rw [PES_unpack_header s t hw hs hafc w1 w2 hd he h4 (by rw [hst]; rfl), hpk]
    cases s; simp_all
  · have he : PES.ext s = none := by simp [PES.ext, h1]
    have hnl : 3 ≤ (PES_tail s).length → ¬ looksLikeHeader s := fun h9 c => h4 h9 c.1
    rw [PES_unpack_headerless_any s t hw hs hafc he hnl, hst, List.append_nil, hpk]
    cases s; simp_all

/-! ### STANAG4609 -/

/-- a STANAG 4609 packet the class encodes exactly: the four metadata values fit their fields and the PES packet
    `pack` builds from it (PID forced to 0x104, 36 metadata bytes) is canonical — in particular the metadata ends
    at byte 188 (E3) and, without the optional PES header, `stanag_counter` is not 0x8000..0x8FFF (K2) -/
def STANAG_canon (s : STANAG) : Prop := STANAG_WF s ∧ PES_canon (STANAG_pes s)

instance (s : STANAG) : Decidable (STANAG_canon s) := by unfold STANAG_canon; infer_instance

end Acra.Lemmas.MpegCanon
