/-
  Helper lemmas for the parser-aligned block / packet: the bytes pack emits under the well-formedness
  predicate and what unpack makes of them.
-/
import Acra.Model.ParserAligned
import Acra.Lemmas.Bits
namespace Acra.Lemmas.ParserAligned
open Acra.Py Acra.Model.ParserAligned Acra.Gen.ParserAligned Acra.Lemmas.Bits

/-- every field fits the width the block header allots (error code 6 bits, quad-byte count 9 bits
    including the two header quad-bytes, message count and bus id 8 bits, elapsed time 32 bits) and the
    payload is a whole number of quad-bytes -/
def Block_WF (s : Block) : Prop :=
  s.errorcode < 64 ∧ s.messagecount < 256 ∧ s.busid < 256 ∧ s.elapsedtime < 4294967296 ∧
  s.payload.length % 4 = 0 ∧ 2 + s.payload.length / 4 < 512

/-- the first header word: error flag, error code, quad-byte count -/
def eaq (s : Block) : Nat :=
  (if s.error then 1 else 0) * 32768 + s.errorcode * 512 + (2 + s.payload.length / 4)

def blockHdr (s : Block) : Bytes :=
  encInt true 2 (eaq s) ++ (encInt true 1 s.messagecount ++ (encInt true 1 s.busid ++ encInt true 4 s.elapsedtime))

def blockBytes (s : Block) : Bytes := blockHdr s ++ s.payload

/-- the object `pack` leaves behind (and a decode produces): `quadbytes` is the computed count -/
def norm (s : Block) : Block := { s with quadbytes := 2 + s.payload.length / 4 }

@[simp] theorem blockHdr_length (s : Block) : (blockHdr s).length = 8 := by simp [blockHdr]
theorem blockBytes_length (s : Block) : (blockBytes s).length = 8 + s.payload.length := by simp [blockBytes]

theorem norm_norm (s : Block) : norm (norm s) = norm s := rfl
theorem blockBytes_norm (s : Block) : blockBytes (norm s) = blockBytes s := rfl
theorem Block_WF_norm (s : Block) (h : Block_WF s) : Block_WF (norm s) := h

theorem eaq_lt (s : Block) (h : Block_WF s) : eaq s < 65536 := by
  obtain ⟨h1, _, _, _, _, h6⟩ := h
  unfold eaq; split <;> omega

theorem Block_pack_eq (s : Block) (h : Block_WF s) : Block.pack s = (norm s, .ok (blockBytes s)) := by
  have hq := eaq_lt s h
  obtain ⟨h1, h2, h3, h4, h5, h6⟩ := h
  have hm : ¬ (s.payload.length % 4 ≠ 0) := by omega
  have he : s.errorcode % 64 = s.errorcode := Nat.mod_eq_of_lt h1
  have hf : Fits PAB_FORMAT.codes [eaq s, s.messagecount, s.busid, s.elapsedtime] := by
    simp [Fits, PAB_FORMAT, Code.bound]; omega
  simp only [Block.pack, hm, if_false, shl_15, shl_9, and_3F, he]
  have : (if s.error = true then 1 else 0) * 32768 + s.errorcode * 512 + (2 + s.payload.length / 4) = eaq s := rfl
  simp only [this, structPack_eq _ _ hf]
  simp [norm, blockBytes, blockHdr, encCodes, PAB_FORMAT, Code.size]

theorem Block_unpack_eq (s t : Block) (rest : Bytes) (h : Block_WF s) :
    Block.unpack t (blockBytes s ++ rest) = (norm s, .ok ((2 + s.payload.length / 4) * 4)) := by
  have hq := eaq_lt s h
  obtain ⟨h1, h2, h3, h4, h5, h6⟩ := h
  have hhdr : structUnpackFrom PAB_FORMAT (blockBytes s ++ rest) 0 =
      .ok [eaq s, s.messagecount, s.busid, s.elapsedtime] := by
    have hf : Fits PAB_FORMAT.codes [eaq s, s.messagecount, s.busid, s.elapsedtime] := by
      simp [Fits, PAB_FORMAT, Code.bound]; omega
    have := structUnpackFrom_enc0 PAB_FORMAT _ (s.payload ++ rest) hf
    simpa [blockBytes, blockHdr, encCodes, PAB_FORMAT, Code.size] using this
  have e1 : eaq s / 32768 = if s.error then 1 else 0 := by
    unfold eaq; split <;> omega
  have e2 : eaq s / 512 % 64 = s.errorcode := by
    unfold eaq; split <;> omega
  have e3 : eaq s % 512 = 2 + s.payload.length / 4 := by
    unfold eaq; split <;> omega
  have e4 : decide ((if s.error = true then 1 else 0) = 1) = s.error := by
    cases s.error <;> simp
  have hpl : slice (blockBytes s ++ rest) 8 ((2 + s.payload.length / 4) * 4) = s.payload := by
    simp only [blockBytes, List.append_assoc]
    exact slice_mid _ _ _ _ _ (by simp) (by simp; omega)
  have hlen : (blockBytes s ++ rest).length = 8 + s.payload.length + rest.length := by
    simp [blockBytes_length]
  simp only [Block.unpack, hhdr, shr_15, shr_9, and_3F, and_1FF, e1, e2, e3, e4, PAB_HEADERLEN, hlen, hpl]
  have c1 : ¬ (2 + s.payload.length / 4 < 2) := by omega
  have c2 : ¬ (8 + s.payload.length + rest.length < 8 + (2 + s.payload.length / 4 - 2) * 4) := by omega
  simp only [c1, c2, if_false]
  rfl

/-! ### packets -/

theorem packBlocks_eq (bs : List Block) (h : ∀ b ∈ bs, Block_WF b) :
    packBlocks bs = (bs.map norm, .ok (bs.flatMap blockBytes)) := by
  induction bs with
  | nil => rfl
  | cons b bs ih =>
    simp only [packBlocks, Block_pack_eq b (h b (by simp)), ih (fun q hq => h q (by simp [hq])), List.map_cons,
      List.flatMap_cons]

theorem decBlock_enc (s : Block) (rest : Bytes) (h : Block_WF s) :
    decBlock (blockBytes s ++ rest) = .ok (norm s, (blockBytes s).length) := by
  simp only [decBlock, Block_unpack_eq s Block.fresh rest h, blockBytes_length]
  have := h.2.2.2.2.1
  congr 2
  omega

theorem flatMap_blockBytes_length_ge (bs : List Block) : bs.length ≤ (bs.flatMap blockBytes).length := by
  induction bs with
  | nil => simp
  | cons p ps ih => simp only [List.flatMap_cons, List.length_cons, List.length_append, blockBytes_length]; omega

theorem flatMap_blockBytes_norm (bs : List Block) : (bs.map norm).flatMap blockBytes = bs.flatMap blockBytes := by
  induction bs with
  | nil => rfl
  | cons b bs ih => simp only [List.map_cons, List.flatMap_cons, ih, blockBytes_norm]

/-- decoding the concatenated blocks returns the blocks (with their computed counts) -/
theorem decBlock_all (bs : List Block) (h : ∀ b ∈ bs, Block_WF b) :
    decOff decBlock moreLt (bs.flatMap blockBytes) ((bs.flatMap blockBytes).length + 1) 0 = .ok (bs.map norm) := by
  have := decOff_encAll decBlock moreLt blockBytes (bs.map norm) [] ((bs.flatMap blockBytes).length + 1)
    (by have := flatMap_blockBytes_length_ge bs; simp only [List.length_map]; omega)
    (fun x hx rest => by
      simp only [List.mem_map] at hx
      obtain ⟨y, hy, rfl⟩ := hx
      have := decBlock_enc (norm y) rest (Block_WF_norm y (h y hy))
      rwa [norm_norm] at this)
    (fun x hx p q => by
      have := blockBytes_length x
      simp [moreLt]; omega)
    (fun n => by simp [moreLt])
  simpa [flatMap_blockBytes_norm] using this

end Acra.Lemmas.ParserAligned
