/-
  Chapter 11 packets with `data_checksum_size = k ≠ 0` (review rev2 item 8 / rev1 C03 §4).

  What the code does (AcraNetwork/IRIG106/Chapter11/__init__.py, `pack`): `k` is ADDED to the length from which the
  filler and the packet-length field are computed, and nothing else happens — no checksum byte is emitted, the packet
  flags are not touched, `unpack` never looks at the attribute.  The model (Model/Ch11.lean) has this in full; the
  lemmas below are `pack_core` / `roundtrip_*` of Lemmas/Ch11.lean without the hypothesis `data_checksum_size = 0`:
  the emitted bytes, the state left behind and what `unpack` makes of the bytes, for every `k`.

  Consequences proved here and in Props/C03, Props/C12:
  * layout: header ++ secondary header ++ payload ++ filler, the packet-length field holds `|bytes| + k`;
  * `(|bytes| + k) % 4 = 0` — so `|bytes|` is a multiple of four only when `k` is;
  * object round trip: `unpack (pack s)` gives back every field of `s`, `packetlen = |bytes| + k`, payload ++ filler;
  * the FILE round trip fails for every `k > 0`: the reader takes `packetlen` bytes, i.e. `k` bytes more than the packet
    has (`Lemmas.Ch10File` part at the end of this file).
-/
import Acra.Lemmas.Ch11
import Acra.Lemmas.Ch10File
namespace Acra.Lemmas.Ch11
open Acra.Py Acra.Model.Ch11 Acra.Gen.Ch11 Acra.Lemmas.Ch10 Acra

/-- `WFn` without `data_checksum_size = 0` (the size bound includes the checksum size) -/
def WFnK (s : State) : Prop :=
  s.syncpattern < 2 ^ 16 ∧ s.channelID < 2 ^ 16 ∧ s.datatypeversion < 2 ^ 8 ∧ s.sequence < 2 ^ 8 ∧
  s.packetflag < 2 ^ 7 ∧ s.datatype < 2 ^ 8 ∧ s.relativetimecounter < 2 ^ 48 ∧
  s.has_secondary_header = false ∧ s.ts_source = TS_RTC ∧ s.payload.length + s.data_checksum_size + 28 < 2 ^ 32

/-- `WFs` without `data_checksum_size = 0` -/
def WFsK (s : State) : Prop :=
  s.syncpattern < 2 ^ 16 ∧ s.channelID < 2 ^ 16 ∧ s.datatypeversion < 2 ^ 8 ∧ s.sequence < 2 ^ 8 ∧
  (s.packetflag < 2 ^ 8 ∧ s.packetflag / 128 = 1 ∧ s.packetflag / 4 % 4 = 1) ∧ s.datatype < 2 ^ 8 ∧
  s.relativetimecounter < 2 ^ 48 ∧ s.has_secondary_header = true ∧ s.ts_source = TS_IEEE1558 ∧
  s.ptptime.seconds < 2 ^ 32 ∧ s.ptptime.nanoseconds < 2 ^ 32 ∧ s.payload.length + s.data_checksum_size + 40 < 2 ^ 32

theorem WFn_iff_K (s : State) : WFn s ↔ WFnK s ∧ s.data_checksum_size = 0 := by
  simp only [WFn, WFnK]
  constructor
  · rintro ⟨h1, h2, h3, h4, h5, h6, h7, h8, h9, h10, h11⟩
    exact ⟨⟨h1, h2, h3, h4, h5, h6, h7, h9, h10, by omega⟩, h8⟩
  · rintro ⟨⟨h1, h2, h3, h4, h5, h6, h7, h9, h10, h11⟩, h8⟩
    exact ⟨h1, h2, h3, h4, h5, h6, h7, h8, h9, h10, by omega⟩

theorem WFs_iff_K (s : State) : WFs s ↔ WFsK s ∧ s.data_checksum_size = 0 := by
  simp only [WFs, WFsK]
  constructor
  · rintro ⟨h1, h2, h3, h4, h5, h6, h7, h8, h9, h10, h11, h12, h13⟩
    exact ⟨⟨h1, h2, h3, h4, h5, h6, h7, h9, h10, h11, h12, by omega⟩, h8⟩
  · rintro ⟨⟨h1, h2, h3, h4, h5, h6, h7, h9, h10, h11, h12, h13⟩, h8⟩
    exact ⟨h1, h2, h3, h4, h5, h6, h7, h8, h9, h10, h11, h12, by omega⟩

/-- the length `pack` computes filler and packet length from: header, secondary header, payload AND the checksum size -/
def totalK (s : State) (secLen : Nat) : Nat := 24 + secLen + s.payload.length + s.data_checksum_size

/-- the state `pack` leaves behind -/
def packedK (s : State) (secLen : Nat) : State :=
  { s with filler := List.replicate (Spec.Ch11.fillLen (totalK s secLen)) 0xFF,
           packetlen := totalK s secLen + Spec.Ch11.fillLen (totalK s secLen),
           datalen := s.payload.length }

/-- the bytes `pack` emits: the header declaring `totalK + filler` bytes, then secondary header, payload, filler —
    and NO checksum bytes -/
def bytesK (s : State) (sec : Bytes) : Bytes :=
  Spec.Ch11.header s.syncpattern s.channelID (totalK s sec.length + Spec.Ch11.fillLen (totalK s sec.length))
    s.payload.length s.datatypeversion s.sequence s.packetflag s.datatype s.relativetimecounter ++ sec ++ s.payload ++
    List.replicate (Spec.Ch11.fillLen (totalK s sec.length)) 0xFF

theorem bytesK_length (s : State) (sec : Bytes) :
    (bytesK s sec).length + s.data_checksum_size = totalK s sec.length + Spec.Ch11.fillLen (totalK s sec.length) := by
  simp [bytesK, Spec.Ch11.header, Spec.Ch11.header22, totalK]
  omega

theorem pack_coreK (s : State) (sec : Bytes) (hsec : secHdr s = .ok sec)
    (hw : s.syncpattern < 2 ^ 16 ∧ s.channelID < 2 ^ 16 ∧ s.datatypeversion < 2 ^ 8 ∧ s.sequence < 2 ^ 8 ∧
      s.packetflag < 2 ^ 8 ∧ s.datatype < 2 ^ 8 ∧ s.relativetimecounter < 2 ^ 48 ∧
      sec.length + s.payload.length + s.data_checksum_size + 28 < 2 ^ 32) :
    pack s = (packedK s sec.length, .ok (bytesK s sec)) := by
  obtain ⟨h1, h2, h3, h4, h5, h6, h7, h9⟩ := hw
  have hk := fillLen_lt (totalK s sec.length)
  have htot : sec.length + s.payload.length + CH10_HDR_FORMAT_LEN + s.data_checksum_size = totalK s sec.length := by
    simp [CH10_HDR_FORMAT_LEN, totalK]; omega
  simp only [pack, hsec, htot, fillR_eq, List.length_replicate]
  bits_simp
  have hT : totalK s sec.length + 28 < 2 ^ 32 + 24 := by simp only [totalK]; omega
  generalize hTT : totalK s sec.length = T at *
  have hf : Fits CH10_HDR_FORMAT.codes (vals10 s (T + Spec.Ch11.fillLen T) s.payload.length ++ [0]) := by
    simp only [CH10_HDR_FORMAT, vals10, Fits, Code.bound, List.cons_append, List.nil_append, and_true]
    simp only [totalK] at hTT
    omega
  have hv : [s.syncpattern, s.channelID, T + Spec.Ch11.fillLen T,
      s.payload.length, s.datatypeversion, s.sequence, s.packetflag, s.datatype, s.relativetimecounter % 4294967296,
      s.relativetimecounter / 4294967296, 0] =
      vals10 s (T + Spec.Ch11.fillLen T) s.payload.length ++ [0] := by
    simp [vals10]
  rw [hv, structPack_eq _ _ hf, show CH10_HDR_FORMAT.big = false from rfl, hdr_with_cs]
  have hcsum : getChecksumBuf (h22 s (T + Spec.Ch11.fillLen T) s.payload.length ++ encInt false 2 0)
      = .ok (Spec.sum16le (h22 s (T + Spec.Ch11.fillLen T) s.payload.length) % 65536) := by
    rw [getChecksumBuf_eq _ (by simp) (by simp)]
    rw [sum16le_append _ _ (by simp)]
    simp [encInt, leBytes, Spec.sum16le]
  simp only [hcsum]
  have hf3 : Fits Ch11_pack_fmt3.codes [Spec.sum16le (h22 s (T + Spec.Ch11.fillLen T) s.payload.length) % 65536] := by
    simp only [Ch11_pack_fmt3, Fits, Code.bound, and_true]; omega
  simp only [structPack_eq _ _ hf3]
  simp [packedK, bytesK, hTT, Ch11_pack_fmt3, encCodes, Code.size, Spec.Ch11.header, Spec.Ch11.hdrChecksum,
    ← h22_eq_spec, encInt]

theorem pack_nosecK (s : State) (h : WFnK s) : pack s = (packedK s 0, .ok (bytesK s [])) := by
  obtain ⟨h1, h2, h3, h4, h5, h6, h7, h9, h10, h11⟩ := h
  exact pack_coreK s [] (secHdr_none s h9) ⟨h1, h2, h3, h4, by omega, h6, h7, by simp; omega⟩

theorem pack_secK (s : State) (h : WFsK s) :
    pack s = (packedK s 12, .ok (bytesK s (Spec.Ch11.secHeader s.ptptime.seconds s.ptptime.nanoseconds))) := by
  obtain ⟨h1, h2, h3, h4, ⟨h5, h5a, h5b⟩, h6, h7, h9, h10, h11, h12, h13⟩ := h
  have hl : (Spec.Ch11.secHeader s.ptptime.seconds s.ptptime.nanoseconds).length = 12 := by
    simp [Spec.Ch11.secHeader]
  have := pack_coreK s _ (secHdr_some s h9 h10 h11 h12) ⟨h1, h2, h3, h4, h5, h6, h7, by omega⟩
  rw [this, hl]

/-- what an object (in any prior state `t`) holds after decoding the bytes `pack s` emitted -/
def decodedK (s t : State) (secLen : Nat) : State :=
  { packedK s secLen with
      payload := s.payload ++ List.replicate (Spec.Ch11.fillLen (totalK s secLen)) 0xFF,
      filler := [], data_checksum_size := t.data_checksum_size,
      ptptime := if secLen = 0 then ⟨0, 0⟩ else s.ptptime }

theorem bytesK_eq_enc (s : State) (sec : Bytes) :
    bytesK s sec = encCodes false CH10_HDR_FORMAT.codes
      (vals10 s (totalK s sec.length + Spec.Ch11.fillLen (totalK s sec.length)) s.payload.length ++
        [Spec.sum16le (h22 s (totalK s sec.length + Spec.Ch11.fillLen (totalK s sec.length)) s.payload.length) % 65536]) ++
      (sec ++ (s.payload ++ List.replicate (Spec.Ch11.fillLen (totalK s sec.length)) 0xFF)) := by
  rw [hdr_with_cs]
  simp [bytesK, Spec.Ch11.header, Spec.Ch11.hdrChecksum, ← h22_eq_spec, encInt, List.append_assoc]

theorem roundtrip_nosecK (s t : State) (h : WFnK s) : unpack t (bytesK s []) = (decodedK s t 0, .ok ()) := by
  obtain ⟨h1, h2, h3, h4, h5, h6, h7, h9, h10, h11⟩ := h
  have hk := fillLen_lt (totalK s 0)
  simp only [totalK] at hk
  rw [bytesK_eq_enc]
  simp only [vals10, List.cons_append, List.nil_append, List.length_nil]
  rw [unpack_hdr_nosec _ _ _ _ _ _ _ _ _ _ _ _ _ (by
      simp only [CH10_HDR_FORMAT, Fits, Code.bound, and_true, totalK]; omega) (by omega)]
  simp only [decodedK, packedK, h9, h10, if_true]
  congr 2
  omega

theorem roundtrip_secK (s t : State) (h : WFsK s) :
    unpack t (bytesK s (Spec.Ch11.secHeader s.ptptime.seconds s.ptptime.nanoseconds)) = (decodedK s t 12, .ok ()) := by
  obtain ⟨h1, h2, h3, h4, ⟨h5, h5a, h5b⟩, h6, h7, h9, h10, h11, h12, h13⟩ := h
  have hl : (Spec.Ch11.secHeader s.ptptime.seconds s.ptptime.nanoseconds).length = 12 := by
    simp [Spec.Ch11.secHeader]
  have hk := fillLen_lt (totalK s 12)
  simp only [totalK] at hk
  rw [bytesK_eq_enc, hl]
  simp only [vals10, List.cons_append, List.nil_append]
  have hsec : Spec.Ch11.secHeader s.ptptime.seconds s.ptptime.nanoseconds =
      encCodes false CH10_OPT_HDR_FORMAT.codes [s.ptptime.nanoseconds, s.ptptime.seconds, 0,
        Spec.Ch11.secChecksum (leBytes 4 s.ptptime.nanoseconds ++ leBytes 4 s.ptptime.seconds ++ [0, 0])] := by
    simp [Spec.Ch11.secHeader, CH10_OPT_HDR_FORMAT, encCodes, encInt, Code.size, leBytes]
  rw [hsec]
  rw [unpack_hdr_sec _ _ _ _ _ _ _ _ _ _ _ _ _ _ _ _ _ (by
      simp only [CH10_HDR_FORMAT, Fits, Code.bound, and_true, totalK]; omega) (by
      simp only [CH10_OPT_HDR_FORMAT, Fits, Code.bound, and_true, Spec.Ch11.secChecksum]; omega) ⟨h5, h5a, h5b⟩]
  simp only [decodedK, packedK, h9, h10]
  congr 2
  omega

end Acra.Lemmas.Ch11

/-! ### the file reader on such packets -/
namespace Acra.Lemmas.Ch10File
open Acra.Py Acra.Model.Ch10File Acra.Gen.Ch10File Acra.Gen.Ch11 Acra.Lemmas.Ch10 Acra

/-- a Chapter 11 header with the standard sync word declaring `k > 0` bytes MORE than follow, alone in a file: the reader
    asks for the declared length, gets fewer bytes, and stops — the packet is not returned -/
theorem scan_overdeclared (chid plen dlen dtv sq flag dt rtc : Nat) (rest : Bytes) (fuel : Nat)
    (hl : 24 + rest.length < plen) (hlt : plen < 2 ^ 32) :
    scan (fuel + 1) (Spec.Ch11.header SYNC_WORD chid plen dlen dtv sq flag dt rtc ++ rest) = .ok (plen, none) := by
  have h8 : List.take 8 (Spec.Ch11.header SYNC_WORD chid plen dlen dtv sq flag dt rtc ++ rest) =
      [UInt8.ofNat (60197 % 256), UInt8.ofNat (60197 / 256 % 256), UInt8.ofNat (chid % 256), UInt8.ofNat (chid / 256 % 256),
       UInt8.ofNat (plen % 256), UInt8.ofNat (plen / 256 % 256), UInt8.ofNat (plen / 256 / 256 % 256),
       UInt8.ofNat (plen / 256 / 256 / 256 % 256)] := by
    simp only [Spec.Ch11.header, Spec.Ch11.header22, SYNC_WORD, leBytes, List.cons_append, List.nil_append,
      List.append_assoc, List.take_succ_cons, List.take_zero]
  simp only [scan, h8, hdr_eight]
  have hs : (UInt8.ofNat (60197 % 256)).toNat + 256 * (UInt8.ofNat (60197 / 256 % 256)).toNat = SYNC_WORD := by decide
  have hpl : (UInt8.ofNat (plen % 256)).toNat + 256 * ((UInt8.ofNat (plen / 256 % 256)).toNat +
      256 * ((UInt8.ofNat (plen / 256 / 256 % 256)).toNat + 256 * (UInt8.ofNat (plen / 256 / 256 / 256 % 256)).toNat)) = plen := by
    simp only [toNat_ofNat]
    omega
  have hpos : plen > 0 := by omega
  have hlen : (List.take plen (Spec.Ch11.header SYNC_WORD chid plen dlen dtv sq flag dt rtc ++ rest)).length ≠ plen := by
    simp [Spec.Ch11.header, Spec.Ch11.header22]
    omega
  simp only [hpl, hs, hpos, and_self, hlen, ↓reduceIte, ne_eq, not_false_eq_true]

/-- … and followed by at least `k` more bytes, the reader returns the packet TOGETHER WITH the first `k` bytes of what
    follows (it reads by the declared length) -/
theorem scan_overdeclared_next (chid plen dlen dtv sq flag dt rtc : Nat) (rest more : Bytes) (fuel : Nat)
    (hl : 24 + rest.length ≤ plen) (hm : plen ≤ 24 + rest.length + more.length) (hlt : plen < 2 ^ 32) :
    scan (fuel + 1) (Spec.Ch11.header SYNC_WORD chid plen dlen dtv sq flag dt rtc ++ rest ++ more) =
      .ok (plen, some (Spec.Ch11.header SYNC_WORD chid plen dlen dtv sq flag dt rtc ++ rest ++
        more.take (plen - (24 + rest.length)))) := by
  have h8 : List.take 8 (Spec.Ch11.header SYNC_WORD chid plen dlen dtv sq flag dt rtc ++ rest ++ more) =
      [UInt8.ofNat (60197 % 256), UInt8.ofNat (60197 / 256 % 256), UInt8.ofNat (chid % 256), UInt8.ofNat (chid / 256 % 256),
       UInt8.ofNat (plen % 256), UInt8.ofNat (plen / 256 % 256), UInt8.ofNat (plen / 256 / 256 % 256),
       UInt8.ofNat (plen / 256 / 256 / 256 % 256)] := by
    simp only [Spec.Ch11.header, Spec.Ch11.header22, SYNC_WORD, leBytes, List.cons_append, List.nil_append,
      List.append_assoc, List.take_succ_cons, List.take_zero]
  simp only [scan, h8, hdr_eight]
  have hs : (UInt8.ofNat (60197 % 256)).toNat + 256 * (UInt8.ofNat (60197 / 256 % 256)).toNat = SYNC_WORD := by decide
  have hpl : (UInt8.ofNat (plen % 256)).toNat + 256 * ((UInt8.ofNat (plen / 256 % 256)).toNat +
      256 * ((UInt8.ofNat (plen / 256 / 256 % 256)).toNat + 256 * (UInt8.ofNat (plen / 256 / 256 / 256 % 256)).toNat)) = plen := by
    simp only [toNat_ofNat]
    omega
  have hpos : plen > 0 := by omega
  have hhl : (Spec.Ch11.header SYNC_WORD chid plen dlen dtv sq flag dt rtc ++ rest).length = 24 + rest.length := by
    simp [Spec.Ch11.header, Spec.Ch11.header22]
    omega
  have htake : List.take plen (Spec.Ch11.header SYNC_WORD chid plen dlen dtv sq flag dt rtc ++ rest ++ more) =
      Spec.Ch11.header SYNC_WORD chid plen dlen dtv sq flag dt rtc ++ rest ++ more.take (plen - (24 + rest.length)) := by
    rw [List.take_append, hhl, List.take_of_length_le (by rw [hhl]; exact hl)]
  have hlen : ¬ (Spec.Ch11.header SYNC_WORD chid plen dlen dtv sq flag dt rtc ++ rest ++
      more.take (plen - (24 + rest.length))).length ≠ plen := by
    rw [List.length_append, hhl, List.length_take]
    omega
  simp only [hpl, hs, hpos, and_self, ↓reduceIte, htake, hlen]

/-- the reader at the start of a file that begins with the bytes `pack` emitted for an object with the standard sync word
    and `data_checksum_size = k` -/
theorem next_bytesK_alone (s : Acra.Model.Ch11.State) (sec : Bytes) (hs : s.syncpattern = SYNC_WORD)
    (hk : 0 < s.data_checksum_size)
    (hlt : Acra.Lemmas.Ch11.totalK s sec.length + Spec.Ch11.fillLen (Acra.Lemmas.Ch11.totalK s sec.length) < 2 ^ 32) :
    next (Acra.Lemmas.Ch11.bytesK s sec) 0 = .ok ((Acra.Lemmas.Ch11.bytesK s sec).length + s.data_checksum_size, none) := by
  have hlen := Acra.Lemmas.Ch11.bytesK_length s sec
  have hb : Acra.Lemmas.Ch11.bytesK s sec = Spec.Ch11.header SYNC_WORD s.channelID
      (Acra.Lemmas.Ch11.totalK s sec.length + Spec.Ch11.fillLen (Acra.Lemmas.Ch11.totalK s sec.length)) s.payload.length
      s.datatypeversion s.sequence s.packetflag s.datatype s.relativetimecounter ++
      (sec ++ (s.payload ++ List.replicate (Spec.Ch11.fillLen (Acra.Lemmas.Ch11.totalK s sec.length)) 0xFF)) := by
    simp [Acra.Lemmas.Ch11.bytesK, hs, List.append_assoc]
  have hrl : 24 + (sec ++ (s.payload ++ List.replicate (Spec.Ch11.fillLen (Acra.Lemmas.Ch11.totalK s sec.length)) 0xFF)).length =
      (Acra.Lemmas.Ch11.bytesK s sec).length := by
    rw [hb]; simp [Spec.Ch11.header, Spec.Ch11.header22]; omega
  have hn := next_at [] (Acra.Lemmas.Ch11.bytesK s sec)
  simp only [List.nil_append, List.length_nil] at hn
  rw [hn]
  have hscan := scan_overdeclared s.channelID
    (Acra.Lemmas.Ch11.totalK s sec.length + Spec.Ch11.fillLen (Acra.Lemmas.Ch11.totalK s sec.length)) s.payload.length
    s.datatypeversion s.sequence s.packetflag s.datatype s.relativetimecounter
    (sec ++ (s.payload ++ List.replicate (Spec.Ch11.fillLen (Acra.Lemmas.Ch11.totalK s sec.length)) 0xFF))
    ((Acra.Lemmas.Ch11.bytesK s sec).length + 1) (by omega) hlt
  rw [← hb] at hscan
  rw [hscan]
  simp only [shift, Nat.zero_add, hlen]

theorem next_bytesK_more (s : Acra.Model.Ch11.State) (sec more : Bytes) (hs : s.syncpattern = SYNC_WORD)
    (hm : s.data_checksum_size ≤ more.length)
    (hlt : Acra.Lemmas.Ch11.totalK s sec.length + Spec.Ch11.fillLen (Acra.Lemmas.Ch11.totalK s sec.length) < 2 ^ 32) :
    next (Acra.Lemmas.Ch11.bytesK s sec ++ more) 0 =
      .ok ((Acra.Lemmas.Ch11.bytesK s sec).length + s.data_checksum_size,
           some (Acra.Lemmas.Ch11.bytesK s sec ++ more.take s.data_checksum_size)) := by
  have hlen := Acra.Lemmas.Ch11.bytesK_length s sec
  have hb : Acra.Lemmas.Ch11.bytesK s sec = Spec.Ch11.header SYNC_WORD s.channelID
      (Acra.Lemmas.Ch11.totalK s sec.length + Spec.Ch11.fillLen (Acra.Lemmas.Ch11.totalK s sec.length)) s.payload.length
      s.datatypeversion s.sequence s.packetflag s.datatype s.relativetimecounter ++
      (sec ++ (s.payload ++ List.replicate (Spec.Ch11.fillLen (Acra.Lemmas.Ch11.totalK s sec.length)) 0xFF)) := by
    simp [Acra.Lemmas.Ch11.bytesK, hs, List.append_assoc]
  have hrl : 24 + (sec ++ (s.payload ++ List.replicate (Spec.Ch11.fillLen (Acra.Lemmas.Ch11.totalK s sec.length)) 0xFF)).length =
      (Acra.Lemmas.Ch11.bytesK s sec).length := by
    rw [hb]; simp [Spec.Ch11.header, Spec.Ch11.header22]; omega
  have hn := next_at [] (Acra.Lemmas.Ch11.bytesK s sec ++ more)
  simp only [List.nil_append, List.length_nil] at hn
  rw [hn]
  have hscan := scan_overdeclared_next s.channelID
    (Acra.Lemmas.Ch11.totalK s sec.length + Spec.Ch11.fillLen (Acra.Lemmas.Ch11.totalK s sec.length)) s.payload.length
    s.datatypeversion s.sequence s.packetflag s.datatype s.relativetimecounter
    (sec ++ (s.payload ++ List.replicate (Spec.Ch11.fillLen (Acra.Lemmas.Ch11.totalK s sec.length)) 0xFF)) more
    ((Acra.Lemmas.Ch11.bytesK s sec ++ more).length + 1) (by omega) (by omega) hlt
  have hkk : Acra.Lemmas.Ch11.totalK s sec.length + Spec.Ch11.fillLen (Acra.Lemmas.Ch11.totalK s sec.length) -
      (24 + (sec ++ (s.payload ++ List.replicate (Spec.Ch11.fillLen (Acra.Lemmas.Ch11.totalK s sec.length)) 0xFF)).length) =
      s.data_checksum_size := by omega
  rw [hkk, ← hb] at hscan
  rw [hscan]
  simp only [shift, Nat.zero_add, hlen]

/-- one `next()` that stops ends the iteration with no items -/
theorem iterate_none (data : Bytes) (o : Nat) (h : next data 0 = .ok (o, none)) : iterate data = .ok ([], o) := by
  unfold iterate iterFuel
  rw [h]

/-- one `next()` that returns `p` makes `p` the first item -/
theorem iterate_some (data p : Bytes) (o : Nat) (h : next data 0 = .ok (o, some p)) :
    ∃ ps o', iterate data = .ok (p :: ps, o') := by
  obtain ⟨ps, o', hit, _, _⟩ := iterFuel_total data data.length o (by
    have := (next_some data 0 o p h).2.1
    have := (next_some data 0 o p h).2.2
    have := (next_some data 0 o p h).1
    omega)
  refine ⟨ps, o', ?_⟩
  unfold iterate iterFuel
  rw [h]
  simp only [hit]

end Acra.Lemmas.Ch10File
