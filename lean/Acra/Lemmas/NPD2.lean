/-
  NPD, decode side: what `NPD.unpack` makes of the bytes `NPD.pack` emits, for every segment class.
-/
import Acra.Lemmas.NPD
namespace Acra.Lemmas.NPD
open Acra.Py Acra.Model.NPD Acra.Gen.NPD Acra.Lemmas.Bits

/-- `decOff_encAll` for a decoder that returns a function `D` of the encoded record (here: the typed
    view of a segment) rather than the record itself -/
theorem decOff_encAll_map {α : Type} (dec1 : Bytes → R (α × Nat)) (more : Nat → Nat → Bool) (enc1 : α → Bytes) (D : α → α)
    (xs : List α) (pre : Bytes) (fuel : Nat) (hfuel : xs.length < fuel)
    (hdec : ∀ x ∈ xs, ∀ rest, dec1 (enc1 x ++ rest) = .ok (D x, (enc1 x).length))
    (hmore : ∀ x ∈ xs, ∀ (p q : Bytes), more p.length (p ++ (enc1 x ++ q)).length = true)
    (hstop : ∀ n, more n n = false) :
    decOff dec1 more (pre ++ xs.flatMap enc1) fuel pre.length = .ok (xs.map D) := by
  induction xs generalizing pre fuel with
  | nil =>
    cases fuel with
    | zero => omega
    | succ fuel => simp [decOff, hstop]
  | cons x xs ih =>
    cases fuel with
    | zero => omega
    | succ fuel =>
      unfold decOff
      have hm := hmore x (by simp) pre (xs.flatMap enc1)
      simp only [List.flatMap_cons] at hm ⊢
      rw [hm]
      simp only [if_true, List.drop_left']
      rw [hdec x (by simp) (xs.flatMap enc1)]
      simp only
      have := ih (pre ++ enc1 x) fuel (by simp at hfuel; omega)
        (fun y hy => hdec y (by simp [hy])) (fun y hy => hmore y (by simp [hy]))
      simp only [List.append_assoc, List.length_append] at this
      rw [this]
      rfl

/-- the class-specific part of `<segment class>.unpack`, run after the base-class unpack -/
def typedUnpack (k : Kind) (s : Seg) : Seg × R Unit :=
  match k with
  | .acq => s.unpackACQ
  | .rs232 => s.unpackRS232
  | .mil1553 => s.unpack1553
  | _ => (s, .ok ())

/-- the typed decoders read the payload and write only their own attributes -/
theorem typedUnpack_base (k : Kind) (s : Seg) :
    (typedUnpack k s).1.segmentlen = s.segmentlen ∧ (typedUnpack k s).1.payload = s.payload ∧
    (typedUnpack k s).1.timedelta = s.timedelta ∧ (typedUnpack k s).1.errorcode = s.errorcode ∧
    (typedUnpack k s).1.flags = s.flags ∧ (typedUnpack k s).1.kind = s.kind := by
  cases k <;> simp only [typedUnpack, Seg.unpackACQ, Seg.unpackRS232, Seg.unpack1553]
  all_goals repeat' split
  all_goals simp

/-- the segment object a decode of `g`'s bytes into a new object of class `k` produces -/
def decodedSeg (k : Kind) (g : Seg) : Seg :=
  (typedUnpack k (withBase (Seg.fresh k) g.timedelta g.errorcode g.flags (effPayload g))).1

/-- the typed header of the data is complete (always true of the plain classes) -/
def TypedOK (k : Kind) (g : Seg) : Prop :=
  (typedUnpack k (withBase (Seg.fresh k) g.timedelta g.errorcode g.flags (effPayload g))).2 = .ok ()

theorem Seg_unpack_eq (k : Kind) (g : Seg) (rest : Bytes) (h : Seg_WF g) (hok : TypedOK k g) :
    Seg.unpack (Seg.fresh k) (segBytes g ++ rest) = (decodedSeg k g, .ok rest) := by
  obtain ⟨h1, h2, h3, h4, _, _⟩ := h
  have hb := unpackBase_eq (Seg.fresh k) g.timedelta g.errorcode g.flags (effPayload g) rest h1 h4 h2 h3
  have hkk : (Seg.fresh k).kind = k := rfl
  simp only [TypedOK] at hok
  simp only [Seg.unpack, segBytes, hb, hkk, decodedSeg]
  cases k <;> simp only [typedUnpack] at hok ⊢
  · cases hu : Seg.unpackACQ _ with
    | mk s2 r => rw [hu] at hok; simp only at hok; subst hok; rfl
  · cases hu : Seg.unpackRS232 _ with
    | mk s2 r => rw [hu] at hok; simp only at hok; subst hok; rfl
  · cases hu : Seg.unpack1553 _ with
    | mk s2 r => rw [hu] at hok; simp only at hok; subst hok; rfl

theorem decSeg_enc (k : Kind) (g : Seg) (rest : Bytes) (h : Seg_WF g) (hok : TypedOK k g) :
    decSeg k (segBytes g ++ rest) = .ok (decodedSeg k g, (segBytes g).length) := by
  have hsl : (decodedSeg k g).segmentlen = (effPayload g).length + 8 := by
    simp only [decodedSeg]
    rw [(typedUnpack_base k _).1]
    rfl
  simp only [decSeg, Seg_unpack_eq k g rest h hok, hsl, segBytes_length]
  congr 2
  by_cases hm : ((effPayload g).length + 8) % 4 = 0
  · simp [hm]; omega
  · simp [hm]; omega

/-- decoding the segment area returns the typed view of every segment -/
theorem decSeg_all (k : Kind) (gs : List Seg) (h : ∀ g ∈ gs, Seg_WF g) (hok : ∀ g ∈ gs, TypedOK k g) :
    decOff (decSeg k) moreNe (gs.flatMap segBytes) ((gs.flatMap segBytes).length + 1) 0 = .ok (gs.map (decodedSeg k)) := by
  have := decOff_encAll_map (decSeg k) moreNe segBytes (decodedSeg k) gs [] ((gs.flatMap segBytes).length + 1)
    (by have := flatMap_segBytes_length_ge gs; omega)
    (fun x hx rest => decSeg_enc k x rest (h x hx) (hok x hx))
    (fun x hx p q => by
      have := segBytes_length x
      simp [moreNe]; omega)
    (fun n => by simp [moreNe])
  simpa using this

/-- the state a decode of the packed bytes produces, whatever the object held -/
def decodedNPD (s : State) (dt : Nat) : State :=
  { s with segments := s.segments.map (decodedSeg (kindOf dt)),
           packetlen := (20 + (s.segments.flatMap segBytes).length) / 4 }

theorem NPD_unpack_eq (s t : State) (dt mc ts : Nat) (h : NPD_WF s dt mc ts)
    (hok : ∀ g ∈ s.segments, TypedOK (kindOf dt) g) :
    unpack t (npdBytes s dt mc ts) = (decodedNPD s dt, .ok ()) := by
  obtain ⟨h1, h2, h3, h4, h5, h6, h7, h8, h9, h10, h11, h12, h13, h14⟩ := h
  have hhdr : structUnpackFrom NPD_HEADER_FORMAT (npdBytes s dt mc ts) 0 =
      .ok [s.version * 16 + s.hdrlen, dt, (20 + (s.segments.flatMap segBytes).length) / 4,
      s.cfgcnt, s.flags, s.sequence, s.datasrcid, mc, ts] := by
    have hf : Fits NPD_HEADER_FORMAT.codes [s.version * 16 + s.hdrlen, dt, (20 + (s.segments.flatMap segBytes).length) / 4,
        s.cfgcnt, s.flags, s.sequence, s.datasrcid, mc, ts] := by
      simp only [Fits, NPD_HEADER_FORMAT, Code.bound]
      exact ⟨by omega, h4, h14, h5, h6, h7, h8, h10, h12, trivial⟩
    have := structUnpackFrom_enc0 NPD_HEADER_FORMAT _ (s.segments.flatMap segBytes) hf
    simpa [npdBytes, npdHdr, encCodes, NPD_HEADER_FORMAT, Code.size] using this
  have e1 : (s.version * 16 + s.hdrlen) / 16 = s.version := by omega
  have e2 : (s.version * 16 + s.hdrlen) % 16 = 5 := by omega
  have hm4 := flatMap_segBytes_mod4 s.segments
  have hlen : (20 + (s.segments.flatMap segBytes).length) / 4 * 4 = (npdBytes s dt mc ts).length := by
    rw [npdBytes_length]; omega
  have hdrop : List.drop (5 * 4) (npdBytes s dt mc ts) = s.segments.flatMap segBytes := by
    simp only [npdBytes]; exact drop_append_len _ _ _ (by simp)
  simp only [unpack, hhdr, shr_4, and_F, e1, e2, hlen, hdrop, ne_eq, not_true_eq_false, if_false,
    decSeg_all _ _ h13 hok]
  simp [decodedNPD, h2, h3, h9, h11]

end Acra.Lemmas.NPD
