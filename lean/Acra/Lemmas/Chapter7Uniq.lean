/-
  Chapter 7, part 11: low-latency PTDPs —
  (a) the frames determine which low-latency PTDPs they hold: `llpBytes`, `mixFrame`, `mixFrames` are injective
      in the low-latency lists, on PTDPs whose off-wire attributes are what the encapsulator sets (`LlpCanon`);
      proved THROUGH the decoder (`PTDP.unpack ∘ encB`), so no separate injectivity of the Golay code is needed;
  (b) several low-latency insertions into ONE frame (`insertLlps`): the frame holds them most-recent-first.
-/
import Acra.Lemmas.Chapter7Llp4
namespace Acra.Lemmas.Chapter7
open Acra.Py Acra.Model Acra.Model.Chapter7 Acra.Gen.Chapter7

/-- a low-latency PTDP as the encapsulator builds it: the attributes that are not on the wire are determined -/
def LlpCanon (q : PTDP.State) : Prop := PTDP_WF q ∧ q.low_latency = true ∧ q.length = q.payload.length

theorem llpPtdp_canon (b : Bytes) (h : b.length ≤ 2048) : LlpCanon (llpPtdp b) :=
  ⟨⟨by simp [llpPtdp, mkPtdp, PTDP_FRAGMENT_COMPLETE], by simp [llpPtdp, mkPtdp, PTDP_CONTENT_MAC], h⟩, rfl, rfl⟩

/-- a PTDP encoding followed by anything determines the PTDP and what follows -/
theorem encB_inj (p p' : PTDP.State) (hp : LlpCanon p) (hp' : LlpCanon p') (r r' : Bytes)
    (h : encB p ++ r = encB p' ++ r') : p = p' ∧ r = r' := by
  have a := unpack_encB_any p hp.1 r
  have b := unpack_encB_any p' hp'.1 r'
  rw [h, b] at a
  simp only [Prod.mk.injEq, Except.ok.injEq] at a
  obtain ⟨e, hr⟩ := a
  refine ⟨?_, hr.symm⟩
  obtain ⟨_, h2, h3⟩ := hp
  obtain ⟨_, h2', h3'⟩ := hp'
  cases p; cases p'
  simp only [PTDP.State.mk.injEq] at e ⊢
  simp only at h2 h3 h2' h3'
  obtain ⟨e1, _, _, e4, e5⟩ := e
  subst e1
  exact ⟨rfl, by rw [h2, h2'], by rw [h3, h3'], e4.symm, e5.symm⟩

theorem llpBytes_inj : ∀ (l l' : List PTDP.State), (∀ q ∈ l, LlpCanon q) → (∀ q ∈ l', LlpCanon q) →
    llpBytes l = llpBytes l' → l = l' := by
  intro l
  induction l with
  | nil =>
    intro l' _ _ h
    cases l' with
    | nil => rfl
    | cons q r =>
      have := llpBytes_pos q r
      rw [← h] at this; simp [llpBytes] at this
  | cons p ps ih =>
    intro l' hl hl' h
    cases l' with
    | nil =>
      have := llpBytes_pos p ps
      rw [h] at this; simp [llpBytes] at this
    | cons p' ps' =>
      rw [llpBytes_cons, llpBytes_cons, List.append_assoc, List.append_assoc] at h
      obtain ⟨e1, e2⟩ := encB_inj p p' (hl p (by simp)) (hl' p' (by simp)) _ _ h
      subst e1
      simp only [List.singleton_append, List.cons.injEq] at e2
      rw [ih ps' (fun q hq => hl q (by simp [hq])) (fun q hq => hl' q (by simp [hq])) e2.2]

theorem mixFrame_inj (L sid : Nat) (S : Bytes) (st : List Nat) (c : Nat) (ll ll' : List PTDP.State)
    (h : ∀ q ∈ ll, LlpCanon q) (h' : ∀ q ∈ ll', LlpCanon q)
    (e : mixFrame L sid S st c ll = mixFrame L sid S st c ll') : ll = ll' := by
  have eflag : (!ll.isEmpty) = (!ll'.isEmpty) := congrArg PTFR.State.llp e
  have eoff := congrArg PTFR.State.ptdp_offset e
  have epay : llpBytes ll ++ slice S c (c + cap L ll) = llpBytes ll' ++ slice S c (c + cap L ll') :=
    congrArg PTFR.State.payload e
  cases ll with
  | nil =>
    cases ll' with
    | nil => rfl
    | cons _ _ => simp at eflag
  | cons p ps =>
    cases ll' with
    | nil => simp at eflag
    | cons p' ps' =>
      have elen : (llpBytes (p :: ps)).length = (llpBytes (p' :: ps')).length := by
        simpa [mixFrame] using eoff
      exact llpBytes_inj _ _ h h' (List.append_inj epay elen).1

/-- the frames determine the low-latency PTDPs they hold, frame by frame -/
theorem mixFrames_inj (L sid : Nat) (S : Bytes) (st : List Nat) :
    ∀ (lls lls' : List (List PTDP.State)) (c : Nat), (∀ l ∈ lls, ∀ q ∈ l, LlpCanon q) →
      (∀ l ∈ lls', ∀ q ∈ l, LlpCanon q) →
      mixFrames L sid S st c lls = mixFrames L sid S st c lls' → lls = lls' := by
  intro lls
  induction lls with
  | nil =>
    intro lls' c _ _ e
    cases lls' with
    | nil => rfl
    | cons _ _ => simp [mixFrames] at e
  | cons l r ih =>
    intro lls' c h h' e
    cases lls' with
    | nil => simp [mixFrames] at e
    | cons l' r' =>
      simp only [mixFrames, List.cons.injEq] at e
      have hl := mixFrame_inj L sid S st c l l' (h l (by simp)) (h' l' (by simp)) e.1
      subst hl
      rw [ih r' (c + cap L l) (fun x hx => h x (by simp [hx])) (fun x hx => h' x (by simp [hx])) e.2]

/-- … and, the frames' lists being fixed, the insertion order fixes the list of the frame under construction -/
theorem llpOrder_inj_right (lls : List (List PTDP.State)) (ll ll' : List PTDP.State)
    (h : llpOrder lls ll = llpOrder lls ll') : ll = ll' := by
  unfold llpOrder at h
  exact List.reverse_inj.1 (List.append_cancel_left h)

/-! ### several insertions into one frame -/

/-- `add_payload(enc p, is_llp=True)` for each `p` of `ins` in turn; second component: everything the calls returned
    as "did not fit" -/
def insertLlps (s : PTFR.State) (ins : List PTDP.State) : PTFR.State × Bytes :=
  ins.foldl (fun acc p => ((PTFR.addPayload acc.1 (encB p) true).1, acc.2 ++ (PTFR.addPayload acc.1 (encB p) true).2)) (s, [])

theorem insertLlps_go (ins : List PTDP.State) : ∀ (s : PTFR.State) (rem : Bytes) (llps : List PTDP.State) (N : Bytes),
    LlpLayout s llps N → (ins.map fun p => (encB p).length + 1).sum + s.payload.length ≤ s.length →
    let r := ins.foldl (fun (acc : PTFR.State × Bytes) p =>
      ((PTFR.addPayload acc.1 (encB p) true).1, acc.2 ++ (PTFR.addPayload acc.1 (encB p) true).2)) (s, rem)
    r.2 = rem ∧ r.1.length = s.length ∧ LlpLayout r.1 (ins.reverse ++ llps) N := by
  induction ins with
  | nil => intro s rem llps N h _; exact ⟨rfl, rfl, by simpa using h⟩
  | cons p ins ih =>
    intro s rem llps N h hfit
    simp only [List.map_cons, List.sum_cons] at hfit
    obtain ⟨h1, h2, h3⟩ := addPayload_llp_layout s llps N p h (by omega)
    have hlen : (PTFR.addPayload s (encB p) true).1.payload.length = (encB p).length + 1 + s.payload.length := by
      rw [h3.payload, h.payload, llpBytes_cons]
      simp only [List.length_append, List.length_cons, List.length_nil]; omega
    have := ih (PTFR.addPayload s (encB p) true).1 (rem ++ (PTFR.addPayload s (encB p) true).2) (p :: llps) N h3
      (by rw [hlen, h2]; omega)
    simp only [List.foldl_cons]
    obtain ⟨g1, g2, g3⟩ := this
    refine ⟨by rw [g1, h1, List.append_nil], by rw [g2, h2], ?_⟩
    rw [List.reverse_cons, List.append_assoc]
    exact g3

/-- low-latency PTDPs inserted one after the other into a frame, all fitting: nothing is returned as not fitting,
    and the frame holds them in REVERSE insertion order (most recent first) in front of what it held -/
theorem insertLlps_layout (s : PTFR.State) (llps : List PTDP.State) (N : Bytes) (ins : List PTDP.State)
    (h : LlpLayout s llps N) (hfit : (ins.map fun p => (encB p).length + 1).sum + s.payload.length ≤ s.length) :
    (insertLlps s ins).2 = [] ∧ (insertLlps s ins).1.length = s.length ∧
    LlpLayout (insertLlps s ins).1 (ins.reverse ++ llps) N :=
  insertLlps_go ins s [] llps N h hfit

/-- positions `i < j` of a list, seen in its reverse: `l[j]` comes first, at position `|l| − 1 − j` -/
theorem reverse_split {α : Type} (l : List α) (i j : Nat) (hij : i < j) (hj : j < l.length) :
    ∃ a m b, l.reverse = a ++ l[j] :: m ++ l[i] :: b ∧ a.length = l.length - 1 - j := by
  have hi : i < l.length := by omega
  refine ⟨(l.drop (j + 1)).reverse, ((l.take j).drop (i + 1)).reverse, (l.take i).reverse, ?_, by simp; omega⟩
  have a1 : l = l.take j ++ l[j] :: l.drop (j + 1) := by
    rw [List.getElem_cons_drop, List.take_append_drop]
  have hi' : i < (l.take j).length := by simp; omega
  have a2 : l.take j = l.take i ++ l[i] :: (l.take j).drop (i + 1) := by
    have := (List.take_append_drop i (l.take j)).symm
    rw [← List.getElem_cons_drop (h := hi')] at this
    simpa [List.take_take, Nat.min_eq_left (Nat.le_of_lt hij), List.getElem_take] using this
  have rev_mid : ∀ (A B : List α) (x : α), (A ++ x :: B).reverse = B.reverse ++ x :: A.reverse := by
    intro A B x; simp
  have r1 := congrArg List.reverse a1
  have r2 := congrArg List.reverse a2
  rw [rev_mid] at r1 r2
  rw [r1, r2]
  simp only [List.append_assoc, List.cons_append]

end Acra.Lemmas.Chapter7
