/-
  The element walk of the "decode records until the buffer is empty" loops (NPD segments, iNET
  packages) as a predicate over the bytes, and its equivalence with the success of the model's loop
  `decOff`.
-/
import Acra.Py.Records
namespace Acra.Lemmas.Walk
open Acra.Py

/-- `Walk ok adv rem`: starting on `rem`, every element met is acceptable (`ok`), the walk advances by
    `adv` bytes each time, and it ends exactly when nothing is left -/
inductive Walk (okP : Bytes → Prop) (adv : Bytes → Nat) : Bytes → Prop
  | done : Walk okP adv []
  | step {rem : Bytes} : rem ≠ [] → okP rem → Walk okP adv (rem.drop (adv rem)) → Walk okP adv rem

theorem walk_cons_iff (okP : Bytes → Prop) (adv : Bytes → Nat) (rem : Bytes) (h : rem ≠ []) :
    Walk okP adv rem ↔ okP rem ∧ Walk okP adv (rem.drop (adv rem)) := by
  constructor
  · intro w
    cases w with
    | done => exact absurd rfl h
    | step _ h2 h3 => exact ⟨h2, h3⟩
  · rintro ⟨h2, h3⟩
    exact .step h h2 h3

/-- the loop `while rem != b""` (or `len(rem) > 0`) over a one-element decoder succeeds exactly when the walk
    does, provided the decoder accepts exactly the `ok` elements and advances by `adv` > 0 -/
theorem decOff_isOk_iff_walk {α : Type} (dec1 : Bytes → R (α × Nat)) (more : Nat → Nat → Bool)
    (okP : Bytes → Prop) (adv : Bytes → Nat)
    (hmore : ∀ off len, more off len = decide (0 < len - off))
    (hacc : ∀ rem, okP rem → ∃ x, dec1 rem = .ok (x, adv rem))
    (hrej : ∀ rem x n, dec1 rem = .ok (x, n) → okP rem ∧ n = adv rem)
    (hpos : ∀ rem, okP rem → 0 < adv rem)
    (buf : Bytes) : ∀ (fuel off : Nat), buf.length - off + 1 ≤ fuel →
      ((decOff dec1 more buf fuel off).isOk = true ↔ Walk okP adv (buf.drop off)) := by
  intro fuel
  induction fuel with
  | zero => intro off h; omega
  | succ fuel ih =>
    intro off hf
    unfold decOff
    rw [hmore]
    by_cases hlt : 0 < buf.length - off
    · have hne : buf.drop off ≠ [] := by
        intro h
        have := congrArg List.length h
        simp at this
        omega
      rw [walk_cons_iff _ _ _ hne]
      simp only [hlt, decide_true, if_true]
      cases hd : dec1 (buf.drop off) with
      | error e =>
        simp only [R.isOk, Bool.false_eq_true, false_iff]
        rintro ⟨hok, _⟩
        obtain ⟨x, hx⟩ := hacc _ hok
        rw [hd] at hx
        cases hx
      | ok r =>
        obtain ⟨x, n⟩ := r
        obtain ⟨hok, hn⟩ := hrej _ _ _ hd
        have hp := hpos _ hok
        subst hn
        have := ih (off + adv (buf.drop off)) (by omega)
        rw [← List.drop_drop] at this
        simp only
        rw [← this]
        cases decOff dec1 more buf fuel (off + adv (List.drop off buf)) with
        | ok xs => simp [hok, R.isOk]
        | error e => simp [R.isOk]
    · have : buf.drop off = [] := List.drop_eq_nil_of_le (by omega)
      rw [this]
      simp only [hlt, decide_false, Bool.false_eq_true, if_false, R.isOk, true_iff]
      exact .done

/-- `n` rounded up to the next multiple of four -/
def roundUp4 (n : Nat) : Nat := n + (4 - n % 4) % 4

theorem roundUp4_ge (n : Nat) : n ≤ roundUp4 n := by simp only [roundUp4]; omega
theorem roundUp4_mod (n : Nat) : roundUp4 n % 4 = 0 := by simp only [roundUp4]; omega
theorem roundUp4_lt (n : Nat) : roundUp4 n < n + 4 := by simp only [roundUp4]; omega
theorem roundUp4_of_mod (n : Nat) (h : n % 4 = 0) : roundUp4 n = n := by simp only [roundUp4]; omega

end Acra.Lemmas.Walk
