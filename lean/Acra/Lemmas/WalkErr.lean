/-
  Companion of Acra/Lemmas/Walk.lean: WHICH exception the "decode records until the buffer is empty"
  loop ends with, as a predicate over the bytes.  `WalkErr ok adv err e rem`: walking `rem` by `adv`
  over acceptable elements, a position is reached (before the bytes run out) whose element is refused
  with exception `e`.  Together with `decOff_isOk_iff_walk` this gives, for the loops of NPD and iNET,
  "returns / raises `e`" as two disjoint declarative predicates.
-/
import Acra.Lemmas.Walk
namespace Acra.Lemmas.Walk
open Acra.Py

inductive WalkErr (okP : Bytes → Prop) (adv : Bytes → Nat) (errP : Err → Bytes → Prop) (e : Err) : Bytes → Prop
  | here {rem : Bytes} : rem ≠ [] → errP e rem → WalkErr okP adv errP e rem
  | later {rem : Bytes} : rem ≠ [] → okP rem → WalkErr okP adv errP e (rem.drop (adv rem)) →
      WalkErr okP adv errP e rem

theorem walkErr_nil (okP : Bytes → Prop) (adv : Bytes → Nat) (errP : Err → Bytes → Prop) (e : Err) :
    ¬ WalkErr okP adv errP e [] := by
  intro h
  cases h with
  | here h _ => exact h rfl
  | later h _ _ => exact h rfl

/-- the loop ends with exception `e` exactly when the walk reaches an element refused with `e` -/
theorem decOff_error_iff_walkErr {α : Type} (dec1 : Bytes → R (α × Nat)) (more : Nat → Nat → Bool)
    (okP : Bytes → Prop) (adv : Bytes → Nat) (errP : Err → Bytes → Prop)
    (hmore : ∀ off len, more off len = decide (0 < len - off))
    (hrej : ∀ rem x n, dec1 rem = .ok (x, n) → okP rem ∧ n = adv rem)
    (hacc : ∀ rem, okP rem → ∃ x, dec1 rem = .ok (x, adv rem))
    (hpos : ∀ rem, okP rem → 0 < adv rem)
    (herr : ∀ rem e, dec1 rem = .error e ↔ errP e rem)
    (buf : Bytes) (e : Err) : ∀ (fuel off : Nat), buf.length - off + 1 ≤ fuel →
      (decOff dec1 more buf fuel off = .error e ↔ WalkErr okP adv errP e (buf.drop off)) := by
  intro fuel
  induction fuel with
  | zero => intro off h; omega
  | succ fuel ih =>
    intro off hf
    unfold decOff
    rw [hmore]
    by_cases hlt : 0 < buf.length - off
    · have hne : buf.drop off ≠ [] := by
        intro h
        have := congrArg List.length h
        simp at this
        omega
      simp only [hlt, decide_true, if_true]
      cases hd : dec1 (buf.drop off) with
      | error e' =>
        simp only [Except.error.injEq]
        constructor
        · rintro rfl
          exact .here hne ((herr _ _).1 hd)
        · intro hw
          cases hw with
          | here _ he =>
            have := (herr _ _).2 he
            rw [hd] at this
            cases this; rfl
          | later _ hok _ =>
            obtain ⟨x, hx⟩ := hacc _ hok
            rw [hd] at hx
            cases hx
      | ok r =>
        obtain ⟨x, n⟩ := r
        obtain ⟨hok, hn⟩ := hrej _ _ _ hd
        have hp := hpos _ hok
        subst hn
        have := ih (off + adv (buf.drop off)) (by omega)
        rw [← List.drop_drop] at this
        simp only
        constructor
        · intro h
          refine .later hne hok (this.1 ?_)
          cases hr : decOff dec1 more buf fuel (off + adv (List.drop off buf)) with
          | ok xs => rw [hr] at h; cases h
          | error e' => rw [hr] at h; simpa using h
        · intro hw
          cases hw with
          | here _ he =>
            have := (herr _ _).2 he
            rw [hd] at this
            cases this
          | later _ _ hw' =>
            rw [this.2 hw']
    · have : buf.drop off = [] := List.drop_eq_nil_of_le (by omega)
      rw [this]
      simp only [hlt, decide_false, Bool.false_eq_true, if_false, reduceCtorEq, false_iff]
      exact walkErr_nil _ _ _ _

end Acra.Lemmas.Walk
