/-
  Work bound of the SAM/DEC decommutator on arbitrary bytes (C08): every frame it yields is a slice of one record of
  the capture, the slices of one record are disjoint, and each starts with the 4-byte sync word.  Hence the frames
  yielded — before the iteration ends normally OR with an exception — hold together at most as many bytes as the file
  has after its global header (minus the 16-byte header of every record read), and there are at most a quarter as many.
-/
import Acra.Lemmas.SamDecTotal
namespace Acra.Lemmas.SamDec
open Acra.Py Acra.Model.SamDec Acra.Model.Search Acra.Gen.SamDec Acra.Spec Acra.Spec.SamDec

/-- the record loop: if every accepted record of weight `w x` advances the offset by at least `w x` and never past the
    end of what is left, the weights add up to at most the bytes after the start offset -/
theorem decOff_weight_le (dec1 : Bytes → R (α × Nat)) (more : Nat → Nat → Bool) (buf : Bytes) (w : α → Nat)
    (hk : ∀ b x n, dec1 b = .ok (x, n) → w x ≤ n ∧ n ≤ b.length)
    (fuel off : Nat) (xs : List α) (h : decOff dec1 more buf fuel off = .ok xs) :
    (xs.map w).sum ≤ buf.length - off := by
  induction fuel generalizing off xs with
  | zero => simp [decOff] at h
  | succ fuel ih =>
    unfold decOff at h
    split at h
    · cases hd : dec1 (buf.drop off) with
      | error e => simp [hd] at h
      | ok r =>
        obtain ⟨x, n⟩ := r
        simp only [hd] at h
        have hn := hk _ _ _ hd
        simp only [List.length_drop] at hn
        cases hr : decOff dec1 more buf fuel (off + n) with
        | error e => simp [hr] at h
        | ok ys =>
          simp only [hr, Except.ok.injEq] at h
          subst h
          have := ih (off + n) ys hr
          simp only [List.map_cons, List.sum_cons]
          omega
    · simp at h; subst h; simp

/-- one pcap record: its payload and its 16 header bytes are bytes of the file -/
theorem pcapRec_weight (b body : Bytes) (n : Nat) (h : pcapRec b = .ok (body, n)) :
    body.length + 16 ≤ n ∧ n ≤ b.length := by
  unfold pcapRec at h
  have e16 : SamDec_PCAP_RECORD_HEADER_SIZE = 16 := rfl
  by_cases h16 : SamDec_PCAP_RECORD_HEADER_SIZE ≠ (List.take SamDec_PCAP_RECORD_HEADER_SIZE b).length
  · rw [if_pos h16] at h; simp at h
  · rw [if_neg h16] at h
    split at h
    · simp only [Except.ok.injEq, Prod.mk.injEq] at h
      obtain ⟨h1, h2⟩ := h
      subst h1 h2
      simp only [List.length_take, List.length_drop, e16] at h16 ⊢
      omega
    · simp at h
    · simp at h

theorem pcapRecords_weight (file : Bytes) (recs : List Bytes) (h : pcapRecords file = .ok recs) :
    (recs.map fun r => r.length + 16).sum ≤ file.length - 24 :=
  decOff_weight_le pcapRec pcapMore file (fun r => r.length + 16) pcapRec_weight _ _ recs h

theorem udpData_le (rec d : Bytes) (h : udpData rec = some d) : d.length ≤ rec.length := by
  unfold udpData at h
  split at h
  · split at h
    · split at h
      · simp only [Option.some.injEq] at h; subst h; simp
      · cases h
    · cases h
  · cases h

theorem filterMap_udpData_le (recs : List Bytes) :
    ((recs.filterMap udpData).map List.length).sum ≤ (recs.map List.length).sum := by
  induction recs with
  | nil => simp
  | cons r rs ih =>
    simp only [List.filterMap_cons]
    cases h : udpData r with
    | none => simp only [List.map_cons, List.sum_cons]; omega
    | some d =>
      have := udpData_le r d h
      simp only [List.map_cons, List.sum_cons]; omega

/-- frames yielded by a run of the slicing loop with `frame_length = None`: none -/
theorem sliceLoop_none_frames (sync payload : Bytes) (fuel : Nat) (off : Int) :
    (sliceLoop sync payload fuel off none).1 = [] := by
  cases fuel <;> rfl

/-- the slicing loop from a non-negative offset with a non-negative frame length, ANY fuel: the frames yielded are
    consecutive disjoint slices of the payload after the offset, each `L` bytes starting with the sync word -/
theorem sliceLoop_work (sync payload : Bytes) (L : Nat) : ∀ (fuel o : Nat),
    ((sliceLoop sync payload fuel (o : Int) (some (L : Int))).1.map List.length).sum ≤ payload.length - o ∧
    ∀ f ∈ (sliceLoop sync payload fuel (o : Int) (some (L : Int))).1, f.take 4 = sync ∧ f.length = L := by
  intro fuel
  induction fuel with
  | zero => intro o; simp [sliceLoop]
  | succ fuel ih =>
    intro o
    unfold sliceLoop
    by_cases hc : (o : Int) + (L : Int) ≤ payload.length
    · rw [if_pos hc]
      simp only
      have hcast : (o : Int) + (L : Int) = ((o + L : Nat) : Int) := by omega
      rw [hcast, pySlice_nat]
      have hc' : o + L ≤ payload.length := by omega
      by_cases hs : ((slice payload o (o + L)).take 4 != sync) = true
      · rw [if_pos hs, sliceLoop_none_frames]
        simp
      · rw [if_neg hs]
        have hs' : (slice payload o (o + L)).take 4 = sync := by simpa using hs
        obtain ⟨h1, h2⟩ := ih (o + L)
        have hlen : (slice payload o (o + L)).length = L := by simp only [slice_length]; omega
        refine ⟨?_, ?_⟩
        · simp only [List.map_cons, List.sum_cons, hlen]; omega
        · intro f hf
          simp only [List.mem_cons] at hf
          rcases hf with rfl | hf
          · exact ⟨hs', hlen⟩
          · exact h2 f hf
    · rw [if_neg hc]; simp

/-- what one datagram contributes -/
def WorkOut (udp : Bytes) (r : List Bytes × Option Int × Option Err) : Prop :=
  (r.1.map List.length).sum ≤ udp.length ∧ ∀ f ∈ r.1, f.take 4 = syncWord

theorem inetx_payload_le (udp : Bytes) (st : Acra.Model.iNetX.State) (u : Unit)
    (h : Acra.Model.iNetX.unpack Acra.Model.iNetX.fresh udp = (st, .ok u)) : st.payload.length + 10 ≤ udp.length + 10 ∧
      st.payload.length ≤ udp.length := by
  unfold Acra.Model.iNetX.unpack at h
  split at h
  · simp at h
  · split at h
    · split at h
      · simp at h
      · simp only [Prod.mk.injEq] at h
        obtain ⟨h1, _⟩ := h
        subst h1
        simp
    · simp at h
    · simp at h

open Acra.Model in
theorem onPacket_work (udp : Bytes) (fl : Option Int) (hfl : fl = none ∨ ∃ x : Int, fl = some x ∧ 1 ≤ x) :
    WorkOut udp (onPacket syncWord udp fl) := by
  unfold onPacket
  cases hu : iNetX.unpack iNetX.fresh udp with
  | mk st r =>
    cases r with
    | error e => exact ⟨by simp, by simp⟩
    | ok u =>
      have hpl := (inetx_payload_le udp st u hu).2
      have hwork : ∀ (L : Nat), WorkOut udp (sliceLoop syncWord st.payload (st.payload.length + 2) ((10 : Nat) : Int) (some (L : Int))) := by
        intro L
        obtain ⟨h1, h2⟩ := sliceLoop_work syncWord st.payload L (st.payload.length + 2) 10
        exact ⟨by omega, fun f hf => (h2 f hf).1⟩
      simp only
      split
      · rcases hfl with hfl | ⟨x, hfl, hx⟩
        · subst hfl
          simp only
          unfold inferLength
          rw [Acra.Lemmas.Search.bmh_eq_occ st.payload syncWord (by simp [syncWord])]
          match hocc : occ st.payload syncWord with
          | [] => exact ⟨by simp, by simp⟩
          | [o0] =>
            simp only [List.map_cons, List.map_nil, SamDec_PCM_HDR_LEN]
            by_cases hl : st.payload.length ≤ 10
            · have := sliceLoop_nonpos syncWord st.payload (by simp [syncWord]) hl
              rw [show ((10 : Nat) : Int) = (10 : Int) by rfl, this]
              exact ⟨by simp, by simp⟩
            · have e : ((st.payload.length : Int) - ((10 : Nat) : Int)) = ((st.payload.length - 10 : Nat) : Int) := by omega
              rw [e]
              exact hwork _
          | o0 :: o1 :: rest =>
            simp only [List.map_cons, SamDec_PCM_HDR_LEN]
            have := occ_second_gt _ _ _ _ _ hocc
            have e : ((Int.ofNat o1) - (Int.ofNat o0)) = ((o1 - o0 : Nat) : Int) := by
              simp only [Int.ofNat_eq_natCast]; omega
            rw [e]
            exact hwork _
        · subst hfl
          simp only [SamDec_PCM_HDR_LEN]
          have e : x = ((x.toNat : Nat) : Int) := by omega
          rw [e]
          exact hwork _
      · exact ⟨by simp, by simp⟩

theorem framesLoop_work (udps : List Bytes) (fl : Option Int)
    (hfl : fl = none ∨ ∃ x : Int, fl = some x ∧ 1 ≤ x) :
    ((framesLoop syncWord udps fl).1.map List.length).sum ≤ (udps.map List.length).sum ∧
    ∀ f ∈ (framesLoop syncWord udps fl).1, f.take 4 = syncWord := by
  induction udps generalizing fl with
  | nil => simp [framesLoop]
  | cons u us ih =>
    have hg := onPacket_good u fl hfl
    have hw := onPacket_work u fl hfl
    unfold framesLoop
    rcases hr : onPacket syncWord u fl with ⟨fs, fl', e⟩
    rw [hr] at hg hw
    obtain ⟨hw1, hw2⟩ := hw
    simp only at hw1 hw2
    cases e with
    | some e =>
      simp only [List.map_cons, List.sum_cons]
      exact ⟨by omega, hw2⟩
    | none =>
      simp only
      obtain ⟨i1, i2⟩ := ih fl' hg.2
      refine ⟨?_, ?_⟩
      · simp only [List.map_append, List.sum_append, List.map_cons, List.sum_cons]; omega
      · intro f hf
        simp only [List.mem_append] at hf
        rcases hf with hf | hf
        · exact hw2 f hf
        · exact i2 f hf

theorem sum_add_const (xs : List Bytes) (k : Nat) :
    (xs.map fun r => r.length + k).sum = (xs.map List.length).sum + k * xs.length := by
  induction xs with
  | nil => simp
  | cons x xs ih => simp only [List.map_cons, List.sum_cons, List.length_cons, ih, Nat.mul_succ]; omega

/-- the whole decommutator -/
theorem decom_work (file : Bytes) :
    ((decom file).1.map List.length).sum ≤ file.length - 24 ∧ ∀ f ∈ (decom file).1, f.take 4 = syncWord := by
  unfold decom
  cases hg : getData file with
  | error e => simp
  | ok udps =>
    simp only
    unfold frames
    rw [sync_packed]
    simp only
    obtain ⟨h1, h2⟩ := framesLoop_work udps none (Or.inl rfl)
    refine ⟨?_, h2⟩
    unfold getData at hg
    split at hg
    · cases hg
    · split at hg
      · cases hg
      · rename_i recs hrecs
        simp only [Except.ok.injEq] at hg
        subst hg
        have a := pcapRecords_weight file recs hrecs
        have b := filterMap_udpData_le recs
        rw [sum_add_const] at a
        omega

end Acra.Lemmas.SamDec
