/-
  Added by the rev2 review (C16).  `Lemmas.Reassembly.mkFrags` gives fragment number k the BYTE offset of its piece as
  `fragment_offset`; an IPv4 header carries the offset in units of 8 bytes.  `mkFrags8` builds the fragments as they
  are on the wire (`fragment_offset = byte offset / 8`), and the lemmas show that for cuts at positive multiples of 8
  the offsets are strictly ascending, so the order-independence argument applies to them as well.
-/
import Acra.Lemmas.Reassembly
namespace Acra.Lemmas.Reassembly
open Acra.Py Acra.Model.Net

/-- fragments as on the wire: the piece that starts at byte `off` has `fragment_offset = off / 8` -/
def mkFrags8 : List (IP × Bytes) → Nat → List IP
  | [], _ => []
  | (h, p) :: rest, off => { h with fragment_offset := off / 8, payload := p } :: mkFrags8 rest (off + p.length)

theorem mkFrags8_ge (l : List (IP × Bytes)) (off : Nat) : ∀ f ∈ mkFrags8 l off, off / 8 ≤ f.fragment_offset := by
  induction l generalizing off with
  | nil => simp [mkFrags8]
  | cons hp rest ih =>
    obtain ⟨h, p⟩ := hp
    intro f hf
    simp only [mkFrags8, List.mem_cons] at hf
    rcases hf with rfl | hf
    · simp
    · have := ih _ f hf
      have : off / 8 ≤ (off + p.length) / 8 := Nat.div_le_div_right (by omega)
      omega

/-- every piece but the last is a positive multiple of 8 bytes long: strictly ascending offsets -/
theorem mkFrags8_sorted (l : List (IP × Bytes)) (off : Nat)
    (h8 : ∀ hp ∈ l.dropLast, 0 < hp.2.length ∧ hp.2.length % 8 = 0) :
    (mkFrags8 l off).Pairwise fun a b => a.fragment_offset < b.fragment_offset := by
  induction l generalizing off with
  | nil => simp [mkFrags8]
  | cons hp rest ih =>
    obtain ⟨h, p⟩ := hp
    simp only [mkFrags8, List.pairwise_cons]
    constructor
    · intro f hf
      have hge := mkFrags8_ge rest _ f hf
      cases rest with
      | nil => simp [mkFrags8] at hf
      | cons r rs =>
        have := h8 (h, p) (by simp [List.dropLast])
        simp only at this
        omega
    · apply ih
      intro x hx
      apply h8 x
      cases rest with
      | nil => simp [List.dropLast] at hx
      | cons r rs => simp only [List.dropLast_cons_cons, List.mem_cons]; exact Or.inr hx

theorem mkFrags8_payload (l : List (IP × Bytes)) (off : Nat) :
    (mkFrags8 l off).flatMap (·.payload) = (l.map (·.2)).flatten := by
  induction l generalizing off with
  | nil => rfl
  | cons hp rest ih =>
    obtain ⟨h, p⟩ := hp
    simp [mkFrags8, ih]

end Acra.Lemmas.Reassembly
