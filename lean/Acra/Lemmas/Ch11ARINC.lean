/-
  Helper lemmas for the ARINC-429 format 0 model.
-/
import Acra.Model.Ch11ARINC
import Acra.Lemmas.Ch11Pay
namespace Acra.Lemmas.Ch11ARINC
open Acra.Py Acra.Model.Ch11Pay Acra.Model.Ch11Pay.ARINC Acra.Gen.Ch11ARINC Acra.Lemmas.Ch11Pay

/-- every header field fits the bits the format allots: gap time 20 bits, bus speed 1 bit, bus 8 bits -/
def Word_WF (w : Word) : Prop := w.gaptime < 2 ^ 20 ∧ w.bus_speed < 2 ∧ w.bus < 2 ^ 8

theorem ipdh_lt (w : Word) (h : Word_WF w) : w.ipdh < 4294967296 := by
  obtain ⟨h1, h2, h3⟩ := h
  unfold Word.ipdh
  split <;> split <;> omega

/-- the bytes of one word: 32-bit little-endian header, then the ARINC word -/
def wordBytes (w : Word) : Bytes := encInt false 4 w.ipdh ++ w.payload

theorem wordBytes_length (w : Word) : (wordBytes w).length = 4 + w.payload.length := by
  simp [wordBytes]

theorem Word_pack_eq (w : Word) (h : Word_WF w) : w.pack = .ok (wordBytes w) := by
  have hf : Fits HDR_FORMAT.codes [w.ipdh] := ⟨ipdh_lt w h, trivial⟩
  simp only [Word.pack, structPack_eq _ _ hf]
  simp [wordBytes, HDR_FORMAT, encCodes, Code.size]

theorem Word_unpack_bytes (w t : Word) (h : Word_WF w) : Word.unpack t (wordBytes w) = (w, .ok ()) := by
  have hlt := ipdh_lt w h
  obtain ⟨h1, h2, h3⟩ := h
  simp only [Word.unpack, wordBytes, structUnpackFrom, HDR_FORMAT, HDR_SIZE, Fmt.size, codesSize, Code.size,
    List.length_append, encInt_length, unpackCodes, List.drop_zero, take_encInt_append, drop_encInt_append]
  rw [decInt_encInt4 _ _ hlt]
  simp only [Nat.zero_add, Nat.add_zero, Nat.le_add_right, if_true, Prod.mk.injEq, and_true]
  unfold Word.ipdh
  cases w with
  | mk g fe pe sp bus pl =>
    simp only at h1 h2 h3 ⊢
    cases fe <;> cases pe <;> simp <;> refine ⟨?_, ?_, ?_, ?_, ?_⟩ <;> omega

theorem Word_eq_iff (a b : Word) : Word.eq a b = true ↔ a = b := by
  cases a; cases b
  simp only [Word.eq, Bool.and_eq_true, beq_iff_eq, Word.mk.injEq]
  constructor
  · rintro ⟨⟨⟨⟨⟨h1, h2⟩, h3⟩, h4⟩, h5⟩, h6⟩; exact ⟨h1, h2, h3, h4, h5, h6⟩
  · rintro ⟨h1, h2, h3, h4, h5, h6⟩; exact ⟨⟨⟨⟨⟨h1, h2⟩, h3⟩, h4⟩, h5⟩, h6⟩

theorem wordsEq_iff (as bs : List Word) : wordsEq as bs = true ↔ as = bs := by
  induction as generalizing bs with
  | nil => cases bs <;> simp [wordsEq]
  | cons a as ih =>
    cases bs with
    | nil => simp [wordsEq]
    | cons b bs => simp [wordsEq, Word_eq_iff, ih]

/-- decoding 8-byte slices never fails while they lie inside the buffer -/
theorem decWords_ok (buf : Bytes) (n idx : Nat) (h : (idx + n) * 8 + 4 ≤ buf.length) :
    ∃ ws, decWords buf n idx = .ok ws ∧ ws.length = n ∧ ∀ w ∈ ws, w.payload.length = 4 := by
  induction n generalizing idx with
  | zero => exact ⟨[], rfl, rfl, by simp⟩
  | succ n ih =>
    obtain ⟨ws, hws, hl, hp⟩ := ih (idx + 1) (by omega)
    have hsl : (slice buf (idx * 8 + 4) (idx * 8 + 4 + 8)).length = 8 := by simp; omega
    simp only [decWords, Word.unpack, structUnpackFrom, HDR_FORMAT, HDR_SIZE, Fmt.size, codesSize, Code.size, hsl,
      unpackCodes, hws]
    refine ⟨_, rfl, by simp [hl], ?_⟩
    intro w hw
    simp only [List.mem_cons] at hw
    rcases hw with hw | hw
    · subst hw; simp [hsl]
    · exact hp w hw

/-- the words of a packet laid end to end after a prefix of the right size are decoded in order -/
theorem decWords_enc (pre : Bytes) (ws : List Word) (idx : Nat) (hpre : pre.length = idx * 8 + 4)
    (hw : ∀ w ∈ ws, Word_WF w ∧ w.payload.length = 4) :
    decWords (pre ++ ws.flatMap wordBytes) ws.length idx = .ok ws := by
  induction ws generalizing pre idx with
  | nil => rfl
  | cons w ws ih =>
    obtain ⟨hwf, hpl⟩ := hw w (by simp)
    have hlen : (wordBytes w).length = 8 := by rw [wordBytes_length]; omega
    have hsl : slice (pre ++ (wordBytes w ++ ws.flatMap wordBytes)) (idx * 8 + 4) (idx * 8 + 4 + 8) = wordBytes w :=
      slice_mid _ _ _ _ _ hpre.symm (by omega)
    simp only [List.flatMap_cons, List.length_cons, decWords, hsl, Word_unpack_bytes w Word.fresh hwf]
    have := ih (pre ++ wordBytes w) (idx + 1) (by simp [hpre, hlen]; omega) (fun x hx => hw x (by simp [hx]))
    simp only [List.append_assoc] at this
    rw [this]

theorem flatMap_wordBytes_length (ws : List Word) (hw : ∀ w ∈ ws, w.payload.length = 4) :
    (ws.flatMap wordBytes).length = 8 * ws.length := by
  induction ws with
  | nil => rfl
  | cons w ws ih =>
    have := hw w (by simp)
    simp only [List.flatMap_cons, List.length_append, wordBytes_length, List.length_cons,
      ih (fun x hx => hw x (by simp [hx]))]
    omega

end Acra.Lemmas.Ch11ARINC
