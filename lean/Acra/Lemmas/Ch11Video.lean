/-
  Helper lemmas for `VideoFormat2` (Chapter 11 video format 2) over the MPEG family's transport-stream model:
  closed forms of `pack` and of `unpack` on packed bytes, for streams of whole transport packets WITH OR WITHOUT
  adaptation fields.
-/
import Acra.Model.Ch11Video
import Acra.Lemmas.MPEGTS
namespace Acra.Lemmas.Ch11Video
open Acra.Py Acra.Model.Ch11Pay.Video Acra.Model.MPEGTS Acra.Gen.Ch11Video Acra.Lemmas.MPEGTS

/-- a whole transport-stream packet as the library can emit it in 188 bytes: every field fits its width (adaptation
    field and extension parts included), sync byte 0x47, header + adaptation field + payload at most 188 bytes,
    adaptation control 2 comes with its adaptation-field object -/
def TsWhole (p : Pkt) : Prop :=
  Pkt_WF p ∧ p.sync = 0x47 ∧ Pkt_used p ≤ 188 ∧ (p.adaption_ctrl = 2 → p.adaption_field.isSome = true)

theorem flatMap_bytes_length (ps : List Pkt) (h : ∀ p ∈ ps, Pkt_used p ≤ 188) :
    (ps.flatMap Pkt_bytes).length = 188 * ps.length := by
  induction ps with
  | nil => rfl
  | cons q qs ih =>
    have := h q (by simp)
    simp only [List.flatMap_cons, List.length_append, List.length_cons, ih (fun x hx => h x (by simp [hx])),
      Pkt_bytes_length]
    omega

/-- `MPEGTS.unpack` of the concatenated encodings of whole packets: one decoded packet per 188 bytes, in order -/
theorem TS_unpack_packed (t : TS) (ps : List Pkt) (hwf : ∀ p ∈ ps, TsWhole p) :
    TS.unpack t (ps.flatMap Pkt_bytes) = ({ blocks := ps.map Pkt_decoded }, .ok true) := by
  have h1 := TS_unpack_chunks t (ps.map Pkt_bytes)
    (fun c hc => by
      obtain ⟨p, hp, rfl⟩ := List.mem_map.mp hc
      obtain ⟨_, _, hf, _⟩ := hwf p hp
      rw [Pkt_bytes_length]; omega)
    (fun c hc => by
      obtain ⟨p, hp, rfl⟩ := List.mem_map.mp hc
      obtain ⟨hw, hs, hf, h2⟩ := hwf p hp
      rw [Pkt_unpack_bytes p Pkt.fresh hw hs h2])
  have e1 : (ps.map Pkt_bytes).flatMap id = ps.flatMap Pkt_bytes := by
    simp [List.flatMap_map]
  have e2 : ((ps.map Pkt_bytes).map fun c => (Pkt.unpack Pkt.fresh c).1) = ps.map Pkt_decoded := by
    rw [List.map_map]
    apply List.map_congr_left
    intro p hp
    obtain ⟨hw, hs, hf, h2⟩ := hwf p hp
    simp [Pkt_unpack_bytes p Pkt.fresh hw hs h2]
  rw [e1, e2] at h1
  exact h1

/-- the bytes `VideoFormat2.pack` emits and the object it leaves -/
def Video_bytes (s : State) : Bytes := encInt false 4 s.channel_specific_word ++ s.mpegts.blocks.flatMap Pkt_bytes

def Video_packed (s : State) : State := { s with mpegts := { blocks := s.mpegts.blocks.map Pkt_packed } }

theorem Video_pack_eq (s : State) (hc : s.channel_specific_word < 2 ^ 32) (hw : ∀ p ∈ s.mpegts.blocks, Pkt_WF p) :
    pack s = (Video_packed s, .ok (Video_bytes s)) := by
  have hf : Fits VID_pack_fmt0.codes [s.channel_specific_word] := by
    simp [Fits, VID_pack_fmt0, Code.bound]; omega
  simp only [pack, structPack_eq _ _ hf, TS.pack, packBlocks_eq s.mpegts.blocks hw]
  simp [Video_packed, Video_bytes, VID_pack_fmt0, encCodes, Code.size]

/-- what decoding the packed bytes gives -/
def Video_decoded (s : State) : State :=
  { channel_specific_word := s.channel_specific_word,
    datastream := (s.channel_specific_word / 2 ^ TP_OFFSET) % 2,
    mpegts := { blocks := s.mpegts.blocks.map Pkt_decoded } }

theorem Video_unpack_bytes (s t : State) (hc : s.channel_specific_word < 2 ^ 32)
    (hiph : (s.channel_specific_word / 2 ^ IPH_OFFSET) % 2 = 0) (hwf : ∀ p ∈ s.mpegts.blocks, TsWhole p) :
    unpack t (Video_bytes s) = (Video_decoded s, .ok ()) := by
  have hcsw : structUnpackFrom VID_unpack_fmt0 (Video_bytes s) 0 = .ok [s.channel_specific_word] := by
    simp only [Video_bytes, structUnpackFrom, VID_unpack_fmt0, Fmt.size, codesSize, Code.size, List.length_append,
      encInt_length, unpackCodes, List.drop_zero, take_encInt_append]
    rw [decInt_encInt4 _ _ (by omega)]
    simp
  have hd : (Video_bytes s).drop 4 = s.mpegts.blocks.flatMap Pkt_bytes := by
    simp only [Video_bytes, drop_encInt_append]
  have hi : ¬ (s.channel_specific_word / 2 ^ IPH_OFFSET % 2 = 1) := by omega
  simp only [unpack, hcsw, hi, if_false, hd, TS_unpack_packed TS.fresh _ hwf]
  rfl

end Acra.Lemmas.Ch11Video
